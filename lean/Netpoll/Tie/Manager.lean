import Netpoll.Gen.Consts
import Netpoll.Gen.Manager
import Netpoll.Manager
/-!
T-gen tie for C18: what the hand-written model `Netpoll.Manager` assumes about the source, compared with
what `tools/extract` regenerates from /repo on every run (`Netpoll.Gen`).

* `status_enum` … : the three-state word and the load-balance codes (HARD: the theorems of
  `Netpoll.Props.C18` are about these values).
* `*_steps` : the ordered step fingerprint of each mirrored function equals the list the model's program
  counters were written against (SOFT: a mismatch marks the model of that function as unvalidated and
  escalates the correspondence budget; it is reported only if the correspondence then disagrees).
  Every entry names the model step that mirrors it.
-/
namespace Netpoll.Tie.Manager
open Netpoll.Gen Netpoll.Manager

theorem status_enum :
    c_managerUninitialized = 0 ∧ c_managerInitializing = 1 ∧ c_managerInitialized = 2 := by decide

theorem lb_enum : c_RoundRobin = 0 ∧ c_Random = 1 := by decide

/-- the model's `init`, `LB.ofCode`, `LB.code` use the generated codes -/
theorem model_uses_enum :
    (init 1).status = c_managerUninitialized ∧ LB.code .rr = c_RoundRobin ∧ LB.code .rand = c_Random ∧
    LB.ofCode c_Random = .rand ∧ LB.ofCode c_RoundRobin = .rr := by decide

/-! ### Who enters the pool, and from where (HARD)

The model puts a goroutine inside `manager.Run` in two places only: the step `Act.cas` taken with
`status = managerUninitialized` (theorem `model_run_entered_only_by_cas`: no other step lets the list of runners grow),
which is why at most one goroutine is ever inside `Run`, and the sequential `resetSeq` (`manager.Reset` on a quiescent
manager).  Its environment is `spawn` (a call of `Pick`), `setNumLoops`, `setLB`.  The source must agree: `Run` is selected
in `Pick` behind the successful CAS and in `Reset`, nowhere else and never as `go` / `defer` / method value; the
package-level entry points of netpoll_unix.go reach the global pool through `Pick`, `SetNumLoops`, `SetLoadBalance` only
(`Initialize` = one `Pick`), and so does every other user of the global. -/

/-- in the model a goroutine gets into `Run` only by winning the CAS `managerUninitialized → managerInitializing` -/
theorem model_run_entered_only_by_cas (s s' : S) (a : Act) (h : step s a = some s')
    (hg : s.runners.length < s'.runners.length) : a = .cas ∧ s.status = c_managerUninitialized := by
  cases a with
  | cas =>
    refine ⟨rfl, ?_⟩
    simp only [step] at h
    split at h
    · cases h
    · split at h
      · assumption
      · cases h; simp at hg
  | run i f =>
    exfalso
    simp only [step, runStep] at h
    repeat' split at h
    all_goals first
      | (cases h; done)
      | (cases h; simp [S.runReturn, S.runPanic, S.setRunner, List.length_eraseIdx] at hg; done)
      | (cases h; simp [S.runReturn, S.runPanic, S.setRunner, List.length_eraseIdx] at hg; split at hg <;> omega)
  | _ =>
    exfalso
    simp only [step, setNumLoops, setLoadBalance] at h
    repeat' split at h
    all_goals first
      | (cases h; done)
      | (cases h; simp at hg; done)
      | (cases h; revert hg; simp only []; (repeat' split) <;> simp)

/-- every selection of `Run` on a manager: `Reset` (sequential, the model's `resetSeq`) and `Pick` behind the successful
status CAS (the model's `Act.cas`); both plain calls -/
theorem run_entered_only_under_cas_or_reset :
    mgr_run_sites = [("manager.Reset", "call", false), ("manager.Pick", "call", true)] := by decide

/-- the methods that open / close pollers without taking the status word themselves (`Run`, `Close`, `Reset`) are selected
inside poll_manager.go only: `Run`'s deferred `Close`, `Reset → Run`, `Pick → Run` -/
theorem unlocked_methods_stay_internal :
    mgr_method_uses.filter (fun u => ["Run", "Close", "Reset"].contains u.2.2.1) =
      [("poll_manager.go", "manager.Run", "Close", "call"),
       ("poll_manager.go", "manager.Reset", "Run", "call"),
       ("poll_manager.go", "manager.Pick", "Run", "call")] := by decide

/-- the package-level entry points (netpoll_unix.go) and the manager method each calls on the global pool -/
theorem entry_points :
    mgr_global_uses.filter (fun u => u.1 == "netpoll_unix.go") =
      [("netpoll_unix.go", "<package>", "pollmanager init newManager(runtime.GOMAXPROCS(0)/20 + 1)"),
       ("netpoll_unix.go", "Initialize", "pollmanager call Pick"),
       ("netpoll_unix.go", "Configure", "pollmanager call SetNumLoops"),
       ("netpoll_unix.go", "Configure", "pollmanager call SetLoadBalance"),
       ("netpoll_unix.go", "SetNumLoops", "pollmanager call SetNumLoops"),
       ("netpoll_unix.go", "SetLoadBalance", "pollmanager call SetLoadBalance")] := by decide

/-- whoever else touches the global pool does it through the model's environment alphabet: a call of `Pick`,
`SetNumLoops` or `SetLoadBalance` (no alias, no reassignment, no other method) -/
theorem global_pool_used_through_model_alphabet :
    mgr_global_uses.all (fun u => u.2.1 == "<package>" ||
      ["pollmanager call Pick", "pollmanager call SetNumLoops", "pollmanager call SetLoadBalance"].contains u.2.2) = true := by
  decide

-- SOFT BELOW (step fingerprints)

/-- `init`: SetLoadBalance(RoundRobin) then SetNumLoops(n), error ignored -/
theorem newManager_steps : mgr_newManager =
    ["call m.SetLoadBalance(RoundRobin)", "call m.SetNumLoops(numLoops)", "return"] := rfl

/-- `setNumLoops`: early error return; store numLoops FIRST, then status = uninitialized -/
theorem setNumLoops_steps : mgr_manager_SetNumLoops =
    ["return",
     "atomic.StoreInt32(&m.numLoops,int32(numLoops))",
     "atomic.StoreInt32(&m.status,managerUninitialized)",
     "return"] := rfl

/-- `setLoadBalance`: compare `LoadBalance()`, else replace the balancer by `newLoadbalance(lb, m.polls)`;
no store to `status` -/
theorem setLoadBalance_steps : mgr_manager_SetLoadBalance =
    ["call m.balance.LoadBalance()", "return", "store m.balance", "call newLoadbalance(lb,m.polls)", "return"] := rfl

/-- `newLoadbalance`: Random → randomLB, RoundRobin and everything else → roundRobinLB (`LB.ofCode`) -/
theorem newLoadbalance_steps : mgr_newLoadbalance =
    ["return", "call newRoundRobinLB(polls)", "return", "call newRandomLB(polls)", "return",
     "call newRoundRobinLB(polls)"] := rfl

/-- `RPc.eclose` (one Close per poller of m.polls) then `RPc.eclear` (three plain stores, one model step) -/
theorem close_steps : mgr_manager_Close =
    ["range m.polls", "call poll.Close()", "store m.numLoops", "store m.balance", "store m.polls", "return"] := rfl

/-- `Run`: deferred Close on error (eclose/eclear) · `RPc.load` · return if equal · shrink loop `RPc.close` ·
grow loop `RPc.open` (on error: `m.polls = polls[:idx]`, the slice filled so far, then the error return – the
store that hands the pollers opened by this call to the deferred Close, fix of F2) / `RPc.go` · `RPc.store` ·
`RPc.rebal1/2` -/
theorem run_steps : mgr_manager_Run =
    ["defer", "call m.Close()",
     "atomic.LoadInt32(&m.numLoops)", "return",
     "for", "call m.polls[idx].Close()", "index m.polls",
     "for", "call openPoll()", "store m.polls", "return", "go poll.Wait",
     "store m.polls",
     "call m.balance.Rebalance(m.polls)", "return"] := rfl

/-- `resetSeq`: close every poller, `m.polls = nil`, `Run()` -/
theorem reset_steps : mgr_manager_Reset =
    ["range m.polls", "call poll.Close()", "store m.polls", "return", "call m.Run()"] := rfl

/-- `Pick`: `Act.load` (fast path → balancer) · `Act.cas` (fail: Gosched, goto START) · Run (`Act.run`) ·
`Act.cas2` (result ignored) · balancer (`Act.balEnter …`) -/
theorem pick_steps : mgr_manager_Pick =
    ["atomic.LoadInt32(&m.status)", "return", "call m.balance.Pick()",
     "atomic.CompareAndSwapInt32(&m.status,managerUninitialized,managerInitializing)",
     "call runtime.Gosched()", "goto START",
     "call m.Run()",
     "atomic.CompareAndSwapInt32(&m.status,managerInitializing,managerInitialized)",
     "return", "call m.balance.Pick()"] := rfl

/-- roundRobinLB.Pick: `Act.balEnter` (AddUintptr by 1) · `Act.balSize` (`int(..) % b.pollSize`) ·
`Act.balIdx` (`b.polls[idx]`) -/
theorem rrPick_steps : mgr_roundRobinLB_Pick =
    ["rem b.pollSize", "atomic.AddUintptr(&b.accepted,1)", "return", "index b.polls"] := rfl

/-- randomLB.Pick: `Act.balEnter r` (`fastrand.Intn(b.pollSize)`) · `Act.balIdx` -/
theorem randPick_steps : mgr_randomLB_Pick =
    ["call fastrand.Intn(b.pollSize)", "return", "index b.polls"] := rfl

/-- Rebalance: `RPc.rebal1` (b.polls) then `RPc.rebal2` (b.pollSize), for both balancers -/
theorem rebalance_steps :
    mgr_roundRobinLB_Rebalance = ["store b.polls", "store b.pollSize"] ∧
    mgr_randomLB_Rebalance = ["store b.polls", "store b.pollSize"] := ⟨rfl, rfl⟩

end Netpoll.Tie.Manager
