import Netpoll.Gen.Shard
import Netpoll.ShardSites
/-!
T-gen tie for C17: the per-function step tables regenerated from /repo/mux/shard_queue.go on every
check run equal the sequences the model's program counters assume.  A removed, added or reordered
atomic operation / lock / plain shared access / call in any of these functions breaks one of these
kernel-checked lemmas.
-/
namespace Netpoll.Tie.Shard
open Netpoll.Shard

theorem funcs_eq : Netpoll.Gen.Shard.funcs = expected_funcs := by decide
theorem steps_Add : Netpoll.Gen.Shard.steps_Add = expected_Add := by decide
theorem steps_Close : Netpoll.Gen.Shard.steps_Close = expected_Close := by decide
theorem steps_drained : Netpoll.Gen.Shard.steps_drained = expected_drained := by decide
/-- `Add` returns at once when it has no getters, before any shared access -/
theorem add_guard : Netpoll.Gen.Shard.add_guard = expected_Add_guard := by decide
/-- the shard index is computed from the counter taken as `uint32` -/
theorem add_shard : Netpoll.Gen.Shard.add_shard = expected_Add_shard := by decide
theorem steps_triggering : Netpoll.Gen.Shard.steps_triggering = expected_triggering := by decide
theorem steps_foreach : Netpoll.Gen.Shard.steps_foreach = expected_foreach := by decide
theorem steps_deal : Netpoll.Gen.Shard.steps_deal = expected_deal := by decide
theorem steps_flush : Netpoll.Gen.Shard.steps_flush = expected_flush := by decide
theorem steps_lock : Netpoll.Gen.Shard.steps_lock = expected_lock := by decide
theorem steps_unlock : Netpoll.Gen.Shard.steps_unlock = expected_unlock := by decide
theorem no_unsupported_shape : Netpoll.Gen.Shard.unsupported = [] := by decide
/-- the worker and the adders use the same lock protocol -/
theorem lock_sites_agree : APc.lock.site = WPc.lock.site ∧ APc.unlock.site = WPc.unlock.site ∧
    APc.lock.site = CPc.lock.site ∧ APc.unlock.site = CPc.unlock.site ∧
    APc.run.site = TPc.run.site ∧ APc.spawn.site = TPc.spawn.site := by decide

end Netpoll.Tie.Shard
