import Netpoll.Gen.Fd
import Netpoll.Fd
/-!
# Tie: the close call sites found in /repo are exactly the ones the lifecycle models reach (C15)

`Gen.closeSites` is regenerated from the source on every run.  `coveredSites` is computed from the lifecycle
programs of `Netpoll.Fd` (all branches explored).  A close call that is added, removed, moved to another function
or changed in its argument makes this lemma fail, which forces the model to be re-validated.
-/
namespace Netpoll.Tie.Fd
open Netpoll.Fd

theorem closeSites_eq_covered : Netpoll.Gen.closeSites = coveredSites.map Site.descr := by decide +kernel

/-- the site of the pre-fix `listener.Close` is not reached by any lifecycle of the fixed code -/
theorem rawfd_site_not_covered : Site.listener_Close_rawfd ∉ coveredSites := by decide +kernel

/-- the close added by the fix of F1 (`CreateListener`: `ln.Close()` on a `ConvertListener` error) is reached -/
theorem createListener_site_covered : Site.createListener_ln ∈ coveredSites := by decide +kernel

/-- **The decision to call `syscall.Close` is taken by ONE atomic read-modify-write.**  `(*netFD).Close` starts with
`if atomic.AddUint32(&c.closed, 1) != 1 { return nil }`, and that call is the only access to the field `closed` in the
whole package.  This is what `NetFD.close` of the model executes as one step (`closed + 1`, compare with 1) and what
makes concurrent `Close` calls on the same `*netFD` – the `net.Conn` that `Listener.Accept` returns, the close
callbacks of a connection, `socket()`'s error path – serialise: exactly one caller sees 1 and goes on to `close(2)`.
A check-then-act on the same field (atomic load, then atomic store) keeps every access atomic, so it is not a data
race (C19 has nothing to say about it), but two overlapping callers both pass the test and the descriptor is closed
twice: `C15_once` would be claimed of a model that no longer mirrors the code. -/
theorem netFD_close_decided_by_one_rmw :
    Netpoll.Gen.netFDClosedAccesses = [("netFD.Close", "atomic.AddUint32(&c.closed, 1)")] ∧
    Netpoll.Gen.netFDCloseFirstStmt = "if atomic.AddUint32(&c.closed, 1) != 1 { return nil }" := by decide

/-- the model's `netFD.Close` takes that decision in one step: the first call (counter 0) is the only one that
closes or hands over, whatever `detaching` says; every later call changes nothing but the counter -/
theorem model_close_is_one_step (c : NetFD) (h : c.closed ≠ 0) :
    c.close = M.ret { c with closed := c.closed + 1 } := by
  have : (c.closed + 1 != 1) = true := by simp [h]
  simp only [NetFD.close, this, if_true]; rfl

end Netpoll.Tie.Fd
