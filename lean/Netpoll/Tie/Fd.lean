import Netpoll.Gen.Fd
import Netpoll.Fd
/-!
# Tie: the close call sites found in /repo are exactly the ones the lifecycle models reach (C15)

`Gen.closeSites` is regenerated from the source on every run.  `coveredSites` is computed from the lifecycle
programs of `Netpoll.Fd` (all branches explored).  A close call that is added, removed, moved to another function
or changed in its argument makes this lemma fail, which forces the model to be re-validated.
-/
namespace Netpoll.Tie.Fd
open Netpoll.Fd

theorem closeSites_eq_covered : Netpoll.Gen.closeSites = coveredSites.map Site.descr := by decide +kernel

/-- the site of the pre-fix `listener.Close` is not reached by any lifecycle of the fixed code -/
theorem rawfd_site_not_covered : Site.listener_Close_rawfd ∉ coveredSites := by decide +kernel

/-- the close added by the fix of F1 (`CreateListener`: `ln.Close()` on a `ConvertListener` error) is reached -/
theorem createListener_site_covered : Site.createListener_ln ∈ coveredSites := by decide +kernel

end Netpoll.Tie.Fd
