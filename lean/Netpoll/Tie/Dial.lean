import Netpoll.Gen.Dial
import Netpoll.Dial
/-!
T-gen tie for the dial model (C14): every fact `Netpoll.Dial` assumes that the extractor can read
off /repo's current source (`Netpoll.Gen.Dial`, regenerated on every run) equals what the
hand-written model expects.  By `rfl` / `decide`: the tables are the whole quantifier.
-/
namespace Netpoll.Tie.Dial
open Netpoll Netpoll.Dial

/-! ### the errno switches of netFD.connect -/

/-- the first switch as the model reads it: case values, body text, action -/
def connectSwitchRead : List (List Nat × String × Act1) :=
  [([115, 114, 4], "", .wait),
   ([0, 106], "select { case <-ctx.Done(): return nil, mapErr(ctx.Err()) default: }; return nil, nil", .done),
   ([22], "if runtime.GOOS == \"solaris\" { return nil, nil }; fallthrough", .einval),
   ([], "return nil, os.NewSyscallError(\"connect\", err)", .fail)]

/-- the source's switch is the one the model was written against … -/
theorem connectSwitch_eq : Gen.Dial.connectSwitch = connectSwitchRead.map (fun c => (c.1, c.2.1)) := by rfl

/-- … and the model's `connectTable` is exactly its non-default arms (default = `.fail`) -/
theorem connectTable_eq :
    (connectSwitchRead.dropLast.flatMap fun c => c.1.map fun e => (e, c.2.2)) = connectTable ∧
    (connectSwitchRead.getLast?.map fun c => (c.1, c.2.2)) = some ([], Act1.fail) := by decide

def soErrorSwitchRead : List (List Nat × String × Act2) :=
  [([115, 114, 4], "", .again),
   ([106], "return nil, nil", .okNil),
   ([0], "if rsa, err := syscall.Getpeername(c.fd); err == nil { return rsa, nil }", .peer),
   ([], "return nil, os.NewSyscallError(\"connect\", err)", .fail)]

theorem soErrorSwitch_eq : Gen.Dial.soErrorSwitch = soErrorSwitchRead.map (fun c => (c.1, c.2.1)) := by rfl

theorem soErrorTable_eq :
    (soErrorSwitchRead.dropLast.flatMap fun c => c.1.map fun e => (e, c.2.2)) = soErrorTable ∧
    (soErrorSwitchRead.getLast?.map fun c => (c.1, c.2.2)) = some ([], Act2.fail) := by decide

/-- the temporary operator is freed in a defer (so on every return path after newPollDesc) -/
theorem connectDefer_eq : Gen.Dial.connectDefer = ["c.pd.operator.Free()", "c.pd = nil"] := by rfl

/-! ### mapErr and Timeout() -/

theorem mapErr_eq : Gen.Dial.mapErrTable =
    [("context.Canceled", "return errCanceled"), ("context.DeadlineExceeded", "return errIOTimeout"),
     ("default", "return err")] := by rfl

/-- fix c14-timeout: the value `mapErr` returns for an expired deadline reports `Timeout()`;
the value for a cancelled context does not -/
theorem errVarTimeout_eq : Gen.Dial.errVarTimeout =
    [("errCanceled", false), ("errIOTimeout", fixedCfg.ioTimeoutIsTimeout), ("errMissingAddress", false)] := by rfl

theorem exceptionTimeout_eq : Gen.Dial.exceptionTimeoutCases = exceptionTimeoutTable ∧
    Gen.Dial.exceptionTimeoutDefault = "return e.no.Timeout()" := ⟨rfl, rfl⟩

/-! ### pollDesc -/

theorem waitWrite_select_eq : Gen.Dial.select_WaitWrite =
    [[("<-pd.writeTrigger", ""),
      ("<-pd.closeTrigger", "return Exception(ErrConnClosed, \"by peer\")"),
      ("<-ctx.Done()", "pd.detach(); return mapErr(ctx.Err())")],
     [("<-pd.closeTrigger", "return Exception(ErrConnClosed, \"by peer\")"),
      ("default", "return nil")]] := by rfl

theorem waitWrite_register_eq :
    Gen.Dial.waitWriteRegister = "pd.operator.isUnused() => err = pd.operator.Control(PollWritable)" := by rfl

theorem onwrite_eq : Gen.Dial.select_onwrite =
    [[("<-pd.writeTrigger", ""), ("default", "pd.detach(); close(pd.writeTrigger)")]] := by rfl

theorem onhup_eq : Gen.Dial.select_onhup =
    [[("<-pd.closeTrigger", ""), ("default", "close(pd.closeTrigger)")]] := by rfl

theorem detach_eq : Gen.Dial.pollDescDetach = "err := pd.operator.Control(PollDetach)" ∧
    Gen.Dial.controlDetachGuard = "event == PollDetach && atomic.AddInt32(&op.detached, 1) > 1 => return nil" := ⟨rfl, rfl⟩

/-! ### descriptor ownership and the retry loop -/

theorem socket_closes_on_dial_error :
    Gen.Dial.socketOnDialErr = "err != nil => netfd.Close(); return nil, err" := by rfl

/-- `netFD.Close`: the once-guard on the `closed` counter comes first; the close itself is guarded by
`c.fd > 2` and exactly one more conjunct (the `detaching` flag, which no dial path sets) -/
theorem netFDClose_guards_eq :
    Gen.Dial.netFDCloseGuards.head? = some ["atomic.AddUint32(&c.closed, 1) != 1"] ∧
    (Gen.Dial.netFDCloseGuards.getD 1 []).length = 2 ∧
    (Gen.Dial.netFDCloseGuards.getD 1 []).contains "c.fd > 2" = true ∧
    Gen.Dial.netFDCloseGuards.length = 3 := by decide

theorem retry_eq : Gen.Dial.dialRetryBound = retryBound ∧
    Gen.Dial.dialRetryCond =
      "i < 2 && (laddr == nil || laddr.Port == 0) && (selfConnect(conn, err) || spuriousENOTAVAIL(err))" ∧
    Gen.Dial.dialRetryBody =
      "if err == nil { conn.Close() }; conn, err = internetSocket(ctx, sd.network, laddr, raddr, syscall.SOCK_STREAM, 0, \"dial\")" ∧
    Gen.Dial.spuriousErrno = EADDRNOTAVAIL := ⟨rfl, rfl, rfl, rfl⟩

end Netpoll.Tie.Dial

