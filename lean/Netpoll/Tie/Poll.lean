import Netpoll.Gen.Consts
import Netpoll.Gen.Poll
/-! T-gen tie for the poller model: the facts the extractor reads off poll_default_linux.go equal
what `Netpoll.Poll.Handler` / `Netpoll.Poll.Wake` and the harness assume. -/
namespace Netpoll.Tie.Poll
open Netpoll.Gen

/-- Linux event bits (uapi/linux/eventpoll.h) -/
def EPOLLIN : Nat := 0x1
def EPOLLOUT : Nat := 0x4
def EPOLLERR : Nat := 0x8
def EPOLLHUP : Nat := 0x10
def EPOLLRDHUP : Nat := 0x2000
def EPOLLET : Nat := 0x80000000
def CTL_ADD : Nat := 1
def CTL_DEL : Nat := 2
def CTL_MOD : Nat := 3

theorem handler_read_mask : handler_triggerRead = EPOLLIN := by decide
theorem handler_write_mask : handler_triggerWrite = EPOLLOUT := by decide
theorem handler_hup_mask : handler_triggerHup = EPOLLHUP ||| EPOLLRDHUP := by decide
theorem handler_error_mask : handler_triggerError = EPOLLERR := by decide
/-- the cascade is read, hang-up, error, write – the order the model's phases are chained in -/
theorem handler_cascade_order :
    handler_cascade = ["triggerRead", "triggerHup", "triggerError", "triggerWrite"] := by decide

/-- `Control`: register readable (LT), register writable (ET), detach, read→read/write, back -/
theorem control_table_expected :
    control_table =
      [ (c_PollReadable, CTL_ADD, EPOLLIN ||| EPOLLRDHUP ||| EPOLLERR),
        (c_PollWritable, CTL_ADD, EPOLLET ||| EPOLLOUT ||| EPOLLRDHUP ||| EPOLLERR),
        (c_PollDetach, CTL_DEL, EPOLLIN ||| EPOLLOUT ||| EPOLLRDHUP ||| EPOLLERR),
        (c_PollR2RW, CTL_MOD, EPOLLIN ||| EPOLLOUT ||| EPOLLRDHUP ||| EPOLLERR),
        (c_PollRW2R, CTL_MOD, EPOLLIN ||| EPOLLRDHUP ||| EPOLLERR) ] := by decide

/-- every registration asks for the hang-up and error conditions `handler` reacts to; only the
dialer's registration is edge-triggered -/
theorem control_masks_cover_hup_err :
    ∀ r ∈ control_table, r.2.2 &&& EPOLLRDHUP ≠ 0 ∧ r.2.2 &&& EPOLLERR ≠ 0 := by decide

theorem epollet_value : c_EPOLLET = EPOLLET := by decide

theorem wait_growth_rule : wait_initSize = 128 ∧ wait_maxSize = 128 * 1024 ∧ wait_growShift = 1 := by decide

/-- Trigger adds 2^56 to the eventfd counter (low byte stays 0), Close adds 1 (low byte 1):
the counter is little-endian and `handler` tests `p.buf[0] > 0` -/
theorem wake_messages :
    trigger_msg = [0, 0, 0, 0, 0, 0, 0, 1] ∧ close_msg = [1, 0, 0, 0, 0, 0, 0, 0] ∧ trigger_coalesceAbove = 1 := by decide

/-- the wake-up branch drains the eventfd BEFORE it re-arms the coalescing flag, closes both descriptors on the close message
and hands the hang-ups queued earlier in the batch to `onhups()` before it returns true:
the order of `Netpoll.Poll.Wake`'s `read` / `store` steps (with the other order a `Trigger` between the two is swallowed:
flag = 1 and counter = 0 when the loop blocks again, so every later `Trigger` coalesces and nothing wakes the loop), and
`Netpoll.Poll.handleBatch` running the queued `OnHup`s of a batch in which `handler` returns true (without the `onhups()`
call an operator detached in front of the close message never learns of the hang-up) -/
theorem handler_wake_order :
    handler_wake_ops = ["syscall.Read(p.wop.FD,p.buf)", "atomic.StoreUint32(&p.trigger,0)",
                        "syscall.Close(p.wop.FD)", "syscall.Close(p.fd)", "p.onhups()"] := by decide

/-- **One iteration of `Wait`** (the batch structure `Netpoll.Poll.OpCache` and `Netpoll.Poll.nextSize` assume, and the loop body the
C10 harness executes itself step by step): the event array is grown at the TOP of the iteration – from the size of the batch that
has already been dispatched, never between a fetch and its dispatch (`Reset` replaces `p.events`) –, then `EpollWait` fetches,
`p.Handler` dispatches the whole batch, and `p.opcache.free()` runs once per iteration, at loop-body level, AFTER the handler has
returned: a slot released between the fetch and the dispatch of a batch stays in `freelist` (`Loc.freelist`, not allocatable)
until no fetched event can refer to it any more (`Act.endBatch`). -/
theorem wait_loop_order :
    wait_loop_ops = ["1:p.Reset", "0:EpollWait", "0:p.Handler", "0:p.opcache.free"] := by decide

/-- the loop body statement by statement (EINTR tolerance, `n <= 0` rounds skip dispatch and free, exit when the handler says so) -/
theorem wait_loop_body_expected :
    wait_loop_body =
      ["ifn==p.size&&p.size<128*1024{p.Reset(p.size<<1,caps)}",
       "n,err=EpollWait(p.fd,p.events,msec)",
       "iferr!=nil&&err!=syscall.EINTR{returnerr}",
       "ifn<=0{msec=-1runtime.Gosched()continue}",
       "msec=0",
       "ifp.Handler(p.events[:n]){returnnil}",
       "p.opcache.free()"] := by decide

/-- **The hang-up queue holds callbacks, not slots.** `appendHup` copies `operator.OnHup` into `p.hups` while the poller still holds
the slot's token (before the detach and before `done()`), `p.hups` is a list of funcs and the goroutine started by `onhups` calls
exactly those funcs: a hang-up recorded for a connection can only ever reach THAT connection's `onHup`, however late the goroutine
runs and whoever owns the slot by then (`Netpoll.Poll.OpCache.Act.runHup … (late := false)`). -/
theorem hup_queue_captures_callback :
    appendHup_stmts = ["p.hups=append(p.hups,operator.OnHup)", "p.detach(operator)", "operator.done()"] ∧
    hups_elem_type = "[]func(p Poll) error" ∧
    onhups_stmts = ["iflen(p.hups)==0{return}", "hups:=p.hups", "p.hups=nil",
                    "gofunc(onhups[]func(pPoll)error){fori:=rangeonhups{ifonhups[i]!=nil{onhups[i](p)}}}(hups)"] := by decide

end Netpoll.Tie.Poll
