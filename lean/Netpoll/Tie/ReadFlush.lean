/-
  Netpoll.Tie.ReadFlush – T-gen tie of the reader and flush models: the synchronisation-operation list of every mirrored
  function, regenerated from /repo by tools/extract (lean/Netpoll/Gen/ReadFlush.lean), equals the sequence the models assume.
-/
import Netpoll.Gen.ReadFlush
import Netpoll.Conn.ReadFlushSync
namespace Netpoll.Tie.ReadFlush
open Netpoll.Gen.ReadFlush Netpoll.Conn.ReadFlushSync

theorem sync_connection_waitRead : sync_connection_waitRead = expect_connection_waitRead := by decide
theorem sync_connection_waitReadWithTimeout : sync_connection_waitReadWithTimeout = expect_connection_waitReadWithTimeout := by decide
theorem sync_connection_inputAck : sync_connection_inputAck = expect_connection_inputAck := by decide
theorem sync_connection_triggerRead : sync_connection_triggerRead = expect_connection_triggerRead := by decide
theorem sync_connection_Flush : sync_connection_Flush = expect_connection_Flush := by decide
theorem sync_connection_Write : sync_connection_Write = expect_connection_Write := by decide
theorem sync_connection_flush : sync_connection_flush = expect_connection_flush := by decide
theorem sync_connection_waitFlush : sync_connection_waitFlush = expect_connection_waitFlush := by decide
theorem sync_connection_outputs : sync_connection_outputs = expect_connection_outputs := by decide
theorem sync_connection_outputAck : sync_connection_outputAck = expect_connection_outputAck := by decide
theorem sync_connection_rw2r : sync_connection_rw2r = expect_connection_rw2r := by decide
theorem sync_connection_triggerWrite : sync_connection_triggerWrite = expect_connection_triggerWrite := by decide
theorem sync_connection_Release : sync_connection_Release = expect_connection_Release := by decide
theorem sync_connection_closeBuffer : sync_connection_closeBuffer = expect_connection_closeBuffer := by decide
theorem sync_UnsafeLinkBuffer_Skip : sync_UnsafeLinkBuffer_Skip = expect_UnsafeLinkBuffer_Skip := by decide
theorem sync_UnsafeLinkBuffer_Flush : sync_UnsafeLinkBuffer_Flush = expect_UnsafeLinkBuffer_Flush := by decide
theorem sync_UnsafeLinkBuffer_bookAck : sync_UnsafeLinkBuffer_bookAck = expect_UnsafeLinkBuffer_bookAck := by decide
theorem sync_UnsafeLinkBuffer_Close : sync_UnsafeLinkBuffer_Close = expect_UnsafeLinkBuffer_Close := by decide
theorem sync_UnsafeLinkBuffer_IsEmpty : sync_UnsafeLinkBuffer_IsEmpty = expect_UnsafeLinkBuffer_IsEmpty := by decide
theorem sync_iosend : sync_iosend = expect_iosend := by decide

end Netpoll.Tie.ReadFlush
