/-
  Netpoll.Tie.Life – T-gen tie of the lifecycle model: the synchronisation-operation list of every mirrored function,
  regenerated from /repo by tools/extract (lean/Netpoll/Gen/Life.lean), equals the sequence the model assumes.
-/
import Netpoll.Gen.Life
import Netpoll.Conn.LifeSync
namespace Netpoll.Tie.Life
open Netpoll.Gen.Life Netpoll.Conn.LifeSync

theorem sync_locker_closeBy : sync_locker_closeBy = expect_locker_closeBy := by decide
theorem sync_locker_isCloseBy : sync_locker_isCloseBy = expect_locker_isCloseBy := by decide
theorem sync_locker_status : sync_locker_status = expect_locker_status := by decide
theorem sync_locker_force : sync_locker_force = expect_locker_force := by decide
theorem sync_locker_lock : sync_locker_lock = expect_locker_lock := by decide
theorem sync_locker_unlock : sync_locker_unlock = expect_locker_unlock := by decide
theorem sync_locker_stop : sync_locker_stop = expect_locker_stop := by decide
theorem sync_connection_onHup : sync_connection_onHup = expect_connection_onHup := by decide
theorem sync_connection_onClose : sync_connection_onClose = expect_connection_onClose := by decide
theorem sync_connection_closeCallback : sync_connection_closeCallback = expect_connection_closeCallback := by decide
theorem sync_connection_onConnect : sync_connection_onConnect = expect_connection_onConnect := by decide
theorem sync_connection_onDisconnect : sync_connection_onDisconnect = expect_connection_onDisconnect := by decide
theorem sync_connection_onRequest : sync_connection_onRequest = expect_connection_onRequest := by decide
theorem sync_connection_onProcess : sync_connection_onProcess = expect_connection_onProcess := by decide
theorem sync_connection_inputAck : sync_connection_inputAck = expect_connection_inputAck := by decide
theorem sync_connection_triggerRead : sync_connection_triggerRead = expect_connection_triggerRead := by decide
theorem sync_connection_triggerWrite : sync_connection_triggerWrite = expect_connection_triggerWrite := by decide
theorem sync_connection_Close : sync_connection_Close = expect_connection_Close := by decide
theorem sync_connection_Detach : sync_connection_Detach = expect_connection_Detach := by decide
theorem sync_connection_IsActive : sync_connection_IsActive = expect_connection_IsActive := by decide
theorem sync_connection_initFinalizer : sync_connection_initFinalizer = expect_connection_initFinalizer := by decide
theorem sync_connection_onPrepare : sync_connection_onPrepare = expect_connection_onPrepare := by decide
theorem sync_connection_register : sync_connection_register = expect_connection_register := by decide
theorem sync_connection_SetOnRequest : sync_connection_SetOnRequest = expect_connection_SetOnRequest := by decide
theorem sync_connection_AddCloseCallback : sync_connection_AddCloseCallback = expect_connection_AddCloseCallback := by decide
theorem sync_connection_getState : sync_connection_getState = expect_connection_getState := by decide
theorem sync_connection_setState : sync_connection_setState = expect_connection_setState := by decide
theorem sync_connection_changeState : sync_connection_changeState = expect_connection_changeState := by decide
theorem sync_FDOperator_Control : sync_FDOperator_Control = expect_FDOperator_Control := by decide
theorem sync_FDOperator_Free : sync_FDOperator_Free = expect_FDOperator_Free := by decide
theorem sync_FDOperator_do : sync_FDOperator_do = expect_FDOperator_do := by decide
theorem sync_FDOperator_done : sync_FDOperator_done = expect_FDOperator_done := by decide
theorem sync_FDOperator_inuse : sync_FDOperator_inuse = expect_FDOperator_inuse := by decide
theorem sync_FDOperator_unused : sync_FDOperator_unused = expect_FDOperator_unused := by decide
theorem sync_operatorCache_freeable : sync_operatorCache_freeable = expect_operatorCache_freeable := by decide
theorem sync_netFD_Close : sync_netFD_Close = expect_netFD_Close := by decide
theorem sync_UnsafeLinkBuffer_Len : sync_UnsafeLinkBuffer_Len = expect_UnsafeLinkBuffer_Len := by decide
theorem sync_UnsafeLinkBuffer_recalLen : sync_UnsafeLinkBuffer_recalLen = expect_UnsafeLinkBuffer_recalLen := by decide
theorem sync_server_onAccept : sync_server_onAccept = expect_server_onAccept := by decide

end Netpoll.Tie.Life
