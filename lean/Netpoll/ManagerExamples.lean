import Netpoll.ManagerLemmas
/-!
Vocabulary and concrete traces used by the statements and non-vacuity examples of `Netpoll.Props.C18`.
-/
namespace Netpoll.Manager

/-- three pickers race the first (lazy) initialisation of a pool of two; two have returned, one still spins -/
def exRace : List Act :=
  [.spawn, .spawn, .spawn, .load, .load, .cas, .load, .cas, .run 0 false, .run 0 false, .run 0 false, .cas,
   .run 0 false, .run 0 false, .run 0 false, .run 0 false, .run 0 false, .load, .cas2, .balEnter 0, .load,
   .balEnter 0, .balSize 1, .balSize 0, .balIdx 1, .balIdx 0]

/-- grow to three, one Pick; `SetNumLoops(1)`; two pickers race the shrink, which closes pollers 1 and 2 -/
def exShrink : List Act :=
  [.spawn, .load, .cas] ++ List.replicate 10 (.run 0 false) ++ [.cas2, .balEnter 0, .balSize 0, .balIdx 0,
    .setNumLoops 1, .spawn, .spawn, .load, .cas, .load, .run 0 false, .cas, .run 0 false, .run 0 false,
    .run 0 false, .run 0 false, .run 0 false, .cas2]

/-- a step of a goroutine inside `Pick` that is not an iteration of the wait loop (`load` / failed `cas`
while somebody else holds the initialisation lock) -/
def Productive (s : S) (a : Act) : Prop :=
  a.isEnv = false ∧ ¬ (s.status = 1 ∧ (a = .load ∨ a = .cas))

def exWait : List Act := [.spawn, .spawn, .load, .load, .cas, .cas, .load]

def exOpenFail : List Act :=
  [.spawn, .load, .cas, .run 0 false, .run 0 false, .run 0 false, .run 0 true, .run 0 false, .cas2, .balEnter 0]

def exZero : List Act := [.spawn, .load, .cas, .run 0 false, .cas2, .balEnter 0, .balSize 0]

end Netpoll.Manager
