import Netpoll.ManagerLemmas
/-!
Vocabulary and concrete traces used by the statements and non-vacuity examples of `Netpoll.Props.C18`.
-/
namespace Netpoll.Manager

/-- three pickers race the first (lazy) initialisation of a pool of two; two have returned, one still spins -/
def exRace : List Act :=
  [.spawn, .spawn, .spawn, .load, .load, .cas, .load, .cas, .run 0 false, .run 0 false, .run 0 false, .cas,
   .run 0 false, .run 0 false, .run 0 false, .run 0 false, .run 0 false, .load, .cas2, .balEnter 0, .load,
   .balEnter 0, .balSize 1, .balSize 0, .balIdx 1, .balIdx 0]

/-- grow to three, one Pick; `SetNumLoops(1)`; two pickers race the shrink, which closes pollers 1 and 2 -/
def exShrink : List Act :=
  [.spawn, .load, .cas] ++ List.replicate 10 (.run 0 false) ++ [.cas2, .balEnter 0, .balSize 0, .balIdx 0,
    .setNumLoops 1, .spawn, .spawn, .load, .cas, .load, .run 0 false, .cas, .run 0 false, .run 0 false,
    .run 0 false, .run 0 false, .run 0 false, .cas2]

/-- a step of a goroutine inside `Pick` that is not an iteration of the wait loop (`load` / failed `cas`
while somebody else holds the initialisation lock) -/
def Productive (s : S) (a : Act) : Prop :=
  a.isEnv = false ∧ ¬ (s.status = 1 ∧ (a = .load ∨ a = .cas))

def exWait : List Act := [.spawn, .spawn, .load, .load, .cas, .cas, .load]

/-- lazy initialisation of a pool of two: the first `openPoll` succeeds (poller 0, loop started), the second fails;
the error path closes poller 0 (`eclose`), clears the manager (`eclear`); `Pick` goes on to the nil balancer -/
def exOpenFail : List Act :=
  [.spawn, .load, .cas, .run 0 false, .run 0 false, .run 0 false, .run 0 true, .run 0 false, .run 0 false, .cas2,
   .balEnter 0]

/-- the model with the failing-`openPoll` step of the code BEFORE the fix of F2 (regression witness only) -/
def stepPreF2 (s : S) : Act → Option S
  | .run i fail => runStepPreF2 s i fail
  | a => step s a

def runActsPreF2 (s : S) : List Act → Option S
  | [] => some s
  | a :: as => match stepPreF2 s a with
    | none => none
    | some s' => runActsPreF2 s' as

/-- the same schedule on the pre-fix code: the old pool is empty, so the error path goes straight to `eclear` -/
def exOpenFailPreF2 : List Act :=
  [.spawn, .load, .cas, .run 0 false, .run 0 false, .run 0 false, .run 0 true, .run 0 false, .cas2, .balEnter 0]

def exZero : List Act := [.spawn, .load, .cas, .run 0 false, .cas2, .balEnter 0, .balSize 0]

end Netpoll.Manager
