/-
Model of netpoll's dial path, mirroring the Go code function by function (linux, non-race):

  net_dialer.go    dialer.dialTCP            -> `dialAddrs`   (loop over resolved addresses)
  net_tcpsock.go   DialTCP / sysDialer.dialTCP -> `dialTCP`, `retry`  (self-connect / EADDRNOTAVAIL retry)
                   newTCPConnection          -> `newConnection` (connection.init + register)
  net_sock.go      socket                    -> `socket`      (close on any dial error)
  net_netfd.go     netFD.dial / netFD.connect -> `dial`, `connect`, `connectLoop`
                   mapErr, errIOTimeout      -> `DErr.ctx`, `DErr.timeout`
  net_polldesc.go  newPollDesc/WaitWrite/onwrite/onhup/detach -> `newPollDesc`, `waitWrite`, `onwrite`, `onhup`, `detach`
  fd_operator.go   Control(PollDetach) once-guard, inuse/unused/reset -> `detach`, `register`, `free`
  net_netfd_conn.go netFD.Close              -> `NetFD.close` (closed counter, `fd > 2` guard)

Everything the environment decides is a *script*: the errno of the first connect(2), an
unbounded list of wake-ups (each: the poller/ctx events delivered before the select returns, in
any order and multiplicity; which ready channel the select picks; the epoll_ctl result; the
getsockopt result; SO_ERROR; getpeername), events a poller that already holds the operator
token delivers while the deferred `Free` spins, getsockname/getpeername of `dial`, the result
of the final read registration.  A ghost ledger records descriptor opens/closes, operator slot
allocs/frees and the epoll registration.  Core Lean only.
-/
import Netpoll.Gen.Consts
namespace Netpoll.Dial

/-! ## errno values (linux) and the two errno switches of `netFD.connect` -/

/-- `syscall.Errno`; `0` stands for a nil error. -/
abbrev Errno := Nat

def EINTR : Errno := 4
def EAGAIN : Errno := 11
def EINVAL : Errno := 22
def EADDRNOTAVAIL : Errno := 99
def EISCONN : Errno := 106
def ETIMEDOUT : Errno := 110
def ECONNREFUSED : Errno := 111
def EALREADY : Errno := 114
def EINPROGRESS : Errno := 115

/-- arms of `switch err := syscall.Connect(c.fd, ra); err` -/
inductive Act1 where
  | wait     -- EINPROGRESS, EALREADY, EINTR: fall out of the switch, wait for writability
  | done     -- nil, EISCONN: check ctx once, return
  | einval   -- EINVAL: success on solaris only, else falls through to default
  | fail     -- default: os.NewSyscallError("connect", err)
deriving DecidableEq, Repr

def connectTable : List (Errno × Act1) :=
  [(EINPROGRESS, .wait), (EALREADY, .wait), (EINTR, .wait), (0, .done), (EISCONN, .done), (EINVAL, .einval)]

def connectAct (e : Errno) : Act1 := (connectTable.lookup e).getD .fail

/-- arms of `switch err := syscall.Errno(nerr); err` (SO_ERROR after a wake-up) -/
inductive Act2 where
  | again    -- EINPROGRESS, EALREADY, EINTR: loop
  | okNil    -- EISCONN: return nil, nil
  | peer     -- 0: connected iff getpeername succeeds, else wait again
  | fail     -- default: os.NewSyscallError("connect", err)
deriving DecidableEq, Repr

def soErrorTable : List (Errno × Act2) :=
  [(EINPROGRESS, .again), (EALREADY, .again), (EINTR, .again), (EISCONN, .okNil), (0, .peer)]

def soErrorAct (e : Errno) : Act2 := (soErrorTable.lookup e).getD .fail

/-! ## contexts, events, errors -/

/-- `ctx.Err()` of a done context -/
inductive CtxErr where
  | canceled   -- context.Canceled
  | deadline   -- context.DeadlineExceeded
deriving DecidableEq, Repr

/-- what the environment can deliver to a waiting connect -/
inductive Ev where
  | writable               -- the poller fetched EPOLLOUT for the temporary operator: handler calls OnWrite
  | hup                    -- the poller fetched HUP/RDHUP/ERR: handler detaches (appendHup), OnHup runs afterwards
  | ctxDone (k : CtxErr)   -- the dial context expires / is cancelled
deriving DecidableEq, Repr

/-- the three channels `WaitWrite` selects on -/
inductive Chan where
  | w | h | c
deriving DecidableEq, Repr

/-- the error values the dial path can produce (before `DialTCP` wraps them in `*net.OpError`) -/
inductive DErr where
  | ctx (k : CtxErr)           -- mapErr(ctx.Err()): errCanceled / errIOTimeout
  | closedByPeer               -- Exception(ErrConnClosed, "by peer")
  | sysConnect (e : Errno)     -- os.NewSyscallError("connect", e)
  | sysGetsockopt (e : Errno)  -- os.NewSyscallError("getsockopt", e)
  | epollCtl (e : Errno)       -- Control(PollWritable) failed: raw errno of epoll_ctl
  | sysSocket (e : Errno)      -- os.NewSyscallError("socket"/"setnonblock", e)
  | setsockopt (e : Errno)     -- os.NewSyscallError("setsockopt", e)
  | bind (e : Errno)           -- os.NewSyscallError("bind", e)
  | addr                       -- *net.AddrError from laddr/raddr.sockaddr(family)
  | register (e : Errno)       -- connection.register: Exception(ErrConnClosed, err.Error())
deriving DecidableEq, Repr

/-- `syscall.Errno.Timeout()` on linux: EAGAIN (= EWOULDBLOCK) or ETIMEDOUT. -/
def errnoTimeout (e : Errno) : Bool := e == EAGAIN || e == ETIMEDOUT

/-- the `switch e.no` of `(*exception).Timeout()` -/
def exceptionTimeoutTable : List Nat := [Gen.c_ErrDialTimeout, Gen.c_ErrReadTimeout, Gen.c_ErrWriteTimeout]

/-- `(*exception).Timeout()` -/
def exceptionTimeout (no : Nat) : Bool := exceptionTimeoutTable.contains no || errnoTimeout no

/-- Facts about package-level error values the model depends on. -/
structure Cfg where
  /-- the dynamic type of `errIOTimeout` has a method `Timeout() bool` returning true
  (true since fix c14-timeout; `errors.New("i/o timeout")` before: D13). -/
  ioTimeoutIsTimeout : Bool := true
deriving DecidableEq, Repr

/-- the tree with fix c14-timeout applied -/
def fixedCfg : Cfg := {}
/-- the tree before the fix (D13) -/
def d13Cfg : Cfg := { ioTimeoutIsTimeout := false }

/-- `Timeout()` as reported by the `*net.OpError` that `DialTCP` wraps around the error
(`OpError.Timeout` unwraps `*os.SyscallError` and asks the inner error if it has `Timeout()`). -/
def DErr.timeout (cfg : Cfg) : DErr → Bool
  | .ctx .deadline => cfg.ioTimeoutIsTimeout
  | .ctx .canceled => false                      -- errors.New: no Timeout method
  | .closedByPeer => exceptionTimeout Gen.c_ErrConnClosed
  | .sysConnect e => errnoTimeout e
  | .sysGetsockopt e => errnoTimeout e
  | .epollCtl e => errnoTimeout e
  | .sysSocket e => errnoTimeout e
  | .setsockopt e => errnoTimeout e
  | .bind e => errnoTimeout e
  | .addr => false
  | .register _ => exceptionTimeout Gen.c_ErrConnClosed

/-- `spuriousENOTAVAIL(err)`: unwrap OpError / SyscallError, compare with EADDRNOTAVAIL -/
def DErr.enotavail : DErr → Bool
  | .sysConnect e => e == EADDRNOTAVAIL
  | .sysGetsockopt e => e == EADDRNOTAVAIL
  | .epollCtl e => e == EADDRNOTAVAIL
  | .sysSocket e => e == EADDRNOTAVAIL
  | .setsockopt e => e == EADDRNOTAVAIL
  | .bind e => e == EADDRNOTAVAIL
  | _ => false

/-! ## state: pollDesc + temporary operator + context (`PD`), ghost ledger (`Ledger`) -/

/-- what the wait loop works on: the pollDesc, its temporary FDOperator, the kernel's epoll
registration of that operator, and the dial context -/
structure PD where
  wClosed : Bool := false      -- close(pd.writeTrigger) happened
  hClosed : Bool := false      -- close(pd.closeTrigger) happened
  opState : Nat := 0           -- FDOperator.state: 0 unused, 1 inuse (2 only inside the poller's do/done)
  detached : Nat := 0          -- FDOperator.detached counter
  epoll : Bool := false        -- ghost: the temporary operator's registration is in the epoll set
  ctx : Option CtxErr := none  -- ctx.Err()
  ctxTaken : Option CtxErr := none  -- ghost: a `return …, mapErr(ctx.Err())` was executed with this ctx.Err()
deriving DecidableEq, Repr

/-- ghost ledger of process resources -/
structure Ledger where
  opened : Nat := 0            -- descriptors obtained from socket(2)
  closed : Nat := 0            -- close(2) on a descriptor that was open
  badClose : Nat := 0          -- close(2) on a descriptor that was not open (double close)
  fdOpen : Bool := false       -- the current attempt's descriptor is open
  allocs : Nat := 0            -- poll.Alloc()
  frees : Nat := 0             -- poll.Free() of an allocated operator
  badFree : Nat := 0           -- poll.Free() of an operator that is not allocated
  tmpSlot : Bool := false      -- the temporary operator is allocated
  connSlot : Bool := false     -- the connection's operator is allocated
  connReg : Bool := false      -- the connection is registered for reading
deriving DecidableEq, Repr

structure St where
  pd : PD := {}
  L : Ledger := {}
deriving DecidableEq, Repr

/-- `EPOLL_CTL_DEL` of the temporary registration (ENOENT if absent: only logged) -/
def epollDel (p : PD) : PD := { p with epoll := false }

/-- `pd.detach()` = `FDOperator.Control(PollDetach)`: only the first call reaches epoll_ctl. -/
def detach (p : PD) : PD :=
  if p.detached + 1 > 1 then { p with detached := p.detached + 1 }
  else epollDel { p with detached := p.detached + 1 }

/-- `pollDesc.onwrite` -/
def onwrite (p : PD) : PD :=
  if p.wClosed then p else { detach p with wClosed := true }

/-- `pollDesc.onhup` -/
def onhup (p : PD) : PD :=
  if p.hClosed then p else { p with hClosed := true }

/-- What one event does.  Poller events go through `handler`: `operator.do()` needs state 1,
then `OnWrite`, or `appendHup` (= `Control(PollDetach)`, `done()`, and `OnHup` from the
`onhups` goroutine).  A context stays done with its first error. -/
def deliver (p : PD) : Ev → PD
  | .writable => if p.opState = 1 then onwrite p else p
  | .hup => if p.opState = 1 then onhup (detach p) else p
  | .ctxDone k => match p.ctx with
    | none => { p with ctx := some k }
    | some _ => p

def deliverAll (p : PD) (evs : List Ev) : PD := evs.foldl deliver p

/-- one wake-up of the connect loop, as decided by the environment -/
structure Wake where
  evs : List Ev := []        -- events delivered before this select returns
  pick : Chan := .w          -- the ready channel the select prefers (Go picks pseudo-randomly)
  ctlErr : Errno := 0        -- result of EPOLL_CTL_ADD, if this WaitWrite registers
  gsoErr : Errno := 0        -- error of getsockopt(SO_ERROR) itself
  soerr : Errno := 0         -- SO_ERROR
  peerOk : Bool := true      -- getpeername succeeds
deriving DecidableEq, Repr

def ready (p : PD) : Chan → Bool
  | .w => p.wClosed
  | .h => p.hClosed
  | .c => p.ctx.isSome

/-- the `select`: the preferred channel if ready, else any ready one, else block -/
def choose (p : PD) (pick : Chan) : Option Chan :=
  if ready p pick then some pick
  else if p.wClosed then some .w
  else if p.hClosed then some .h
  else if p.ctx.isSome then some .c
  else none

inductive WW where
  | ok | err (e : DErr) | blocked
deriving DecidableEq, Repr

/-- `pd.operator.Control(PollWritable)` when `isUnused()`: `inuse()` then EPOLL_CTL_ADD -/
def register (p : PD) (ctlErr : Errno) : PD × Option Errno :=
  if p.opState = 0 then
    if ctlErr ≠ 0 then ({ p with opState := 1 }, some ctlErr)
    else ({ p with opState := 1, epoll := true }, none)
  else (p, none)

/-- `return …, mapErr(ctx.Err())` -/
def ctxReturn (p : PD) (k : CtxErr) : PD := { p with ctxTaken := some k }

/-- the select and what follows it in `WaitWrite`, on a registered pollDesc -/
def waitSelect (p : PD) (pick : Chan) : PD × WW :=
  match choose p pick with
  | none => (p, .blocked)
  | some .w => if p.hClosed then (p, .err .closedByPeer) else (p, .ok)
  | some .h => (p, .err .closedByPeer)
  | some .c =>
    match p.ctx with
    | some k => (ctxReturn (detach p) k, .err (.ctx k))
    | none => (p, .blocked)   -- unreachable: `.c` is chosen only when ctx is done

/-- `pollDesc.WaitWrite` against one script item (`blocked`: nothing ready yet). -/
def waitWrite (p : PD) (w : Wake) : PD × WW :=
  match register p w.ctlErr with
  | (p, some e) => (p, .err (.epollCtl e))
  | (p, none) => waitSelect (deliverAll p w.evs) w.pick

/-- result of `netFD.connect`: Go's `(rsa, retErr)`; `blocked` = the script ran out while the
goroutine is still parked in the select. -/
inductive CRes where
  | ret (rsa : Bool) (err : Option DErr)
  | blocked
deriving DecidableEq, Repr

/-- the `for { WaitWrite; SO_ERROR; ... }` loop.  Returns the unconsumed script as well. -/
def connectLoop (p : PD) : List Wake → PD × CRes × List Wake
  | [] => (p, .blocked, [])
  | w :: ws =>
    match waitWrite p w with
    | (p, .blocked) => connectLoop p ws
    | (p, .err e) => (p, .ret false (some e), ws)
    | (p, .ok) =>
      if w.gsoErr ≠ 0 then (p, .ret false (some (.sysGetsockopt w.gsoErr)), ws)
      else match soErrorAct w.soerr with
        | .again => connectLoop p ws
        | .okNil => (p, .ret false none, ws)
        | .peer => if w.peerOk then (p, .ret true none, ws) else connectLoop p ws
        | .fail => (p, .ret false (some (.sysConnect w.soerr)), ws)

/-- `newPollDesc`: `poll.Alloc()`, fresh channels (the context and the kernel are untouched) -/
def newPollDesc (s : St) : St :=
  { pd := { s.pd with wClosed := false, hClosed := false, opState := 0, detached := 0 },
    L := { s.L with allocs := s.L.allocs + 1, tmpSlot := true } }

/-- the deferred `c.pd.operator.Free()`: `unused()` (state := 0), `reset()`, freelist -/
def free (s : St) : St :=
  { pd := { s.pd with opState := 0, detached := 0 },
    L := if s.L.tmpSlot then { s.L with tmpSlot := false, frees := s.L.frees + 1 }
         else { s.L with badFree := s.L.badFree + 1 } }

/-- everything one `socket()` attempt gets from the environment -/
structure Attempt where
  fd : Nat := 3                  -- the number socket(2) returns
  sockErr : Errno := 0           -- sysSocket fails
  optErr : Errno := 0            -- setDefaultSockopts fails
  addrErr : Bool := false        -- laddr/raddr.sockaddr(family) fails
  bindErr : Errno := 0           -- bind(2) fails (only with a local address)
  ctxAt : Option CtxErr := none  -- the context is already done when connect(2) returns
  e0 : Errno := EINPROGRESS      -- errno of the first connect(2)
  wakes : List Wake := []
  late : List Ev := []           -- events of a poller that won the token race against `Free`
  localOk : Bool := true         -- getsockname gives an address
  selfConn : Bool := false       -- local and remote address/port coincide
deriving DecidableEq, Repr

/-- the context may have become done by now -/
def ctxNow (p : PD) : Option CtxErr → PD
  | some k => deliver p (.ctxDone k)
  | none => p

/-- `netFD.connect` -/
def connect (s : St) (a : Attempt) : St × CRes :=
  let s : St := { s with pd := ctxNow s.pd a.ctxAt }
  match connectAct a.e0 with
  | .done =>
    match s.pd.ctx with
    | some k => ({ s with pd := ctxReturn s.pd k }, .ret false (some (.ctx k)))
    | none => (s, .ret false none)
  | .einval => (s, .ret false (some (.sysConnect a.e0)))   -- runtime.GOOS ≠ "solaris": fallthrough
  | .fail => (s, .ret false (some (.sysConnect a.e0)))
  | .wait =>
    let s := newPollDesc s
    match connectLoop s.pd a.wakes with
    | (p, .blocked, _) => ({ s with pd := p }, .blocked)
    | (p, .ret rsa err, _) =>
      -- deferred: a poller holding the token finishes its callbacks before `unused()` succeeds
      (free { s with pd := deliverAll p a.late }, .ret rsa err)

/-- `netFD` as far as `Close` is concerned -/
structure NetFD where
  fd : Nat
  closedCnt : Nat := 0
  localOk : Bool := true
  selfConn : Bool := false
deriving DecidableEq, Repr

/-- `syscall.Close(fd)` on the current attempt's descriptor -/
def sysClose (L : Ledger) : Ledger :=
  if L.fdOpen then { L with fdOpen := false, closed := L.closed + 1 }
  else { L with badClose := L.badClose + 1 }

/-- `netFD.Close`: `atomic.AddUint32(&c.closed, 1) != 1 → nil`; close only `fd > 2` (never detaching here) -/
def NetFD.close (n : NetFD) (L : Ledger) : NetFD × Ledger :=
  if n.closedCnt + 1 ≠ 1 then ({ n with closedCnt := n.closedCnt + 1 }, L)
  else if n.fd > 2 then ({ n with closedCnt := n.closedCnt + 1 }, sysClose L)
  else ({ n with closedCnt := n.closedCnt + 1 }, L)

/-- Go's `(conn *netFD, err error)`, or still blocked -/
inductive SRes where
  | ret (conn : Option NetFD) (err : Option DErr)
  | blocked
deriving DecidableEq, Repr

/-- `netFD.dial` (address conversion / bind, connect; the address bookkeeping has no effect
here): `none` = blocked, `some err` = Go's `err` -/
def dial (s : St) (a : Attempt) : St × Option (Option DErr) :=
  if a.addrErr then (s, some (some .addr))
  else if a.bindErr ≠ 0 then (s, some (some (.bind a.bindErr)))
  else match connect s a with
    | (s, .blocked) => (s, none)
    | (s, .ret _ err) => (s, some err)

/-- `socket()` in net_sock.go -/
def socket (s : St) (a : Attempt) : St × SRes :=
  if a.sockErr ≠ 0 then (s, .ret none (some (.sysSocket a.sockErr)))
  else
    let s : St := { s with L := { s.L with opened := s.L.opened + 1, fdOpen := true } }
    if a.optErr ≠ 0 then ({ s with L := sysClose s.L }, .ret none (some (.setsockopt a.optErr)))
    else
      let nfd : NetFD := { fd := a.fd, localOk := a.localOk, selfConn := a.selfConn }
      match dial s a with
      | (s, none) => (s, .blocked)
      | (s, some (some e)) => ({ s with L := (nfd.close s.L).2 }, .ret none (some e))
      | (s, some none) => (s, .ret (some nfd) none)

/-- `selfConnect(conn, err)` -/
def selfConnect : SRes → Bool
  | .ret _ (some _) => false
  | .ret (some n) none => !n.localOk || n.selfConn      -- remoteAddr is never nil with a non-nil raddr
  | .ret none none => true                              -- Go would dereference nil here; never produced by `socket`
  | .blocked => false

/-- `spuriousENOTAVAIL(err)` -/
def spuriousENOTAVAIL : SRes → Bool
  | .ret _ (some e) => e.enotavail
  | _ => false

/-- `if err == nil { conn.Close() }` at the top of a retry -/
def closeIfConn (s : St) : SRes → St
  | .ret (some nfd) none => { s with L := (nfd.close s.L).2 }
  | _ => s

/-- number of extra attempts in `sysDialer.dialTCP` (`for i := 0; i < 2 && …`) -/
def retryBound : Nat := 2

/-- the retry loop of `sysDialer.dialTCP`; first argument = iterations left, `i` = index of the last attempt -/
def retry (auto : Bool) (att : Nat → Attempt) : Nat → Nat → St → SRes → St × SRes × Nat
  | 0, i, s, cur => (s, cur, i)
  | n + 1, i, s, cur =>
    if auto && (selfConnect cur || spuriousENOTAVAIL cur) then
      match socket (closeIfConn s cur) (att (i + 1)) with
      | (s, .blocked) => (s, .blocked, i + 1)
      | (s, cur') => retry auto att n (i + 1) s cur'
    else (s, cur, i)

/-- what the caller of the dial gets: Go's `(connection, err)` -/
inductive DRes where
  | ret (conn : Bool) (err : Option DErr)
  | blocked
deriving DecidableEq, Repr

/-- `newTCPConnection(conn)`: `connection.init` allocates the connection's operator and registers
it for reading; on failure `c.Close()` frees the operator and closes the (copied) netFD. -/
def newConnection (s : St) (nfd : NetFD) (regErr : Errno) : St × DRes :=
  let L : Ledger := { s.L with allocs := s.L.allocs + 1, connSlot := true }
  if regErr ≠ 0 then
    let L : Ledger := { L with connSlot := false, frees := L.frees + 1 }   -- close callback: operator.Free()
    ({ s with L := (nfd.close L).2 }, .ret false (some (.register regErr)))  -- close callback: c.netFD.Close()
  else ({ s with L := { L with connReg := true } }, .ret true none)

/-- script of one `DialTCP` call -/
structure TcpScript where
  auto : Bool := true            -- laddr == nil || laddr.Port == 0
  att : Nat → Attempt := fun _ => {}
  regErr : Errno := 0            -- epoll_ctl result of connection.register

/-- `DialTCP` → `sysDialer.dialTCP` → `newTCPConnection`; the `Nat` is the index of the last attempt -/
def dialTCP (s : St) (t : TcpScript) : St × DRes × Nat :=
  match socket s (t.att 0) with
  | (s, .blocked) => (s, .blocked, 0)
  | (s, cur) =>
    match retry t.auto t.att retryBound 0 s cur with
    | (s, .blocked, i) => (s, .blocked, i)
    | (s, .ret _ (some e), i) => (s, .ret false (some e), i)
    | (s, .ret (some nfd) none, i) => ((newConnection s nfd t.regErr).1, (newConnection s nfd t.regErr).2, i)
    | (s, .ret none none, i) => (s, .ret false none, i)   -- would be a nil dereference in Go; never produced

/-- `DialUnix` → `sysDialer.dialUnix` → `unixSocket` → `socket` (context.Background(): the dial
timeout is not applied), then `newUnixConnection`.  No retry loop. -/
def dialUnix (s : St) (a : Attempt) (regErr : Errno) : St × DRes :=
  match socket s a with
  | (s, .blocked) => (s, .blocked)
  | (s, .ret _ (some e)) => (s, .ret false (some e))
  | (s, .ret (some nfd) none) => newConnection s nfd regErr
  | (s, .ret none none) => (s, .ret false none)

/-- one resolved address of `dialer.dialTCP`: its DialTCP script, and whether the context is
found done in the `select { case <-ctx.Done(): return nil, err; default: }` after a failure -/
structure AddrScript where
  tcp : TcpScript := {}
  ctxAfter : Option CtxErr := none

/-- the loop over `ipaddrs` in `dialer.dialTCP`: first success wins; after a failure return it
at once if the context is done, else remember the first error. -/
def dialAddrs (s : St) (firstErr : Option DErr) : List AddrScript → St × DRes
  | [] =>
    match firstErr with
    | some e => (s, .ret false (some e))
    | none => (s, .ret false (some .addr))      -- errMissingAddress
  | a :: as =>
    match dialTCP s a.tcp with
    | (s, .blocked, _) => (s, .blocked)
    | (s, .ret c none, _) => (s, .ret c none)
    | (s, .ret _ (some e), _) =>
      let s : St := { s with pd := ctxNow s.pd a.ctxAfter }
      if s.pd.ctx.isSome then (s, .ret false (some e))
      else dialAddrs s (firstErr <|> some e) as

/-- `DialConnection("tcp", …)` from a fresh process state -/
def dialConnection (as : List AddrScript) : St × DRes := dialAddrs {} none as

end Netpoll.Dial

