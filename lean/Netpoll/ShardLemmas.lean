import Netpoll.Shard
/-!
Generic list lemmas used by the ShardQueue invariants (`Netpoll.ShardInv`):
`tally` (sum of a Nat-valued function over a list of actor-local states) and its behaviour under
`List.set` / append, a pigeonhole lemma, and two facts about positions in a ring.
-/
namespace Netpoll.Shard

/-- how many (weighted) actors of a list satisfy something -/
def tally {α : Type} (f : α → Nat) : List α → Nat
  | [] => 0
  | a :: l => f a + tally f l

@[simp] theorem tally_nil {α : Type} (f : α → Nat) : tally f [] = 0 := rfl
@[simp] theorem tally_cons {α : Type} (f : α → Nat) (a : α) (l : List α) :
    tally f (a :: l) = f a + tally f l := rfl

theorem tally_append {α : Type} (f : α → Nat) (l₁ l₂ : List α) :
    tally f (l₁ ++ l₂) = tally f l₁ + tally f l₂ := by
  induction l₁ with
  | nil => simp
  | cons a l ih => simp [ih]; omega

theorem tally_snoc {α : Type} (f : α → Nat) (l : List α) (b : α) :
    tally f (l ++ [b]) = tally f l + f b := by
  simp [tally_append]

theorem tally_set {α : Type} (f : α → Nat) {l : List α} {i : Nat} {a : α} (b : α)
    (h : l[i]? = some a) : tally f (l.set i b) + f a = tally f l + f b := by
  induction l generalizing i with
  | nil => simp at h
  | cons x l ih =>
    cases i with
    | zero => simp at h; subst h; simp; omega
    | succ i => simp at h; have := ih h; simp; omega

theorem tally_ge {α : Type} (f : α → Nat) {l : List α} {i : Nat} {a : α}
    (h : l[i]? = some a) : f a ≤ tally f l := by
  induction l generalizing i with
  | nil => simp at h
  | cons x l ih =>
    cases i with
    | zero => simp at h; subst h; simp
    | succ i => simp at h; have := ih h; simp; omega

theorem exists_of_tally_pos {α : Type} (f : α → Nat) {l : List α} (h : 0 < tally f l) :
    ∃ (i : Nat) (a : α), l[i]? = some a ∧ 0 < f a := by
  induction l with
  | nil => simp at h
  | cons x l ih =>
    by_cases hx : 0 < f x
    · exact ⟨0, x, by simp, hx⟩
    · have : 0 < tally f l := by simp at h; omega
      obtain ⟨i, a, h1, h2⟩ := ih this
      exact ⟨i + 1, a, by simpa using h1, h2⟩

theorem tally_eq_zero {α : Type} (f : α → Nat) {l : List α} (h : ∀ (i : Nat) (a : α), l[i]? = some a → f a = 0) :
    tally f l = 0 := by
  cases Nat.eq_zero_or_pos (tally f l) with
  | inl h0 => exact h0
  | inr hp =>
    obtain ⟨i, a, h1, h2⟩ := exists_of_tally_pos f hp
    have := h i a h1; omega

/-- pigeonhole: a duplicate-free list of numbers below `n` has at most `n` elements -/
theorem length_le_of_nodup_lt (n : Nat) : ∀ (l : List Nat), (∀ x ∈ l, x < n) → (∀ x, l.count x ≤ 1) →
    l.length ≤ n := by
  induction n with
  | zero =>
    intro l h _
    cases l with
    | nil => simp
    | cons a l => have := h a (by simp); omega
  | succ n ih =>
    intro l hlt hc
    have h1 : (l.filter (fun x => x != n)).length ≤ n := by
      apply ih
      · intro x hx
        simp at hx
        have := hlt x hx.1
        omega
      · intro x
        have := hc x
        have h2 : (l.filter (fun x => x != n)).count x ≤ l.count x := by
          apply List.Sublist.count_le
          exact List.filter_sublist
        omega
    have h3 : l.length = (l.filter (fun x => x != n)).length + l.count n := by
      have := List.length_eq_countP_add_countP (fun x => x != n) (l := l)
      rw [List.countP_eq_length_filter] at this
      have h4 : List.countP (fun a => ¬(a != n) = true) l = l.count n := by
        rw [List.count]
        congr 1
        funext a
        by_cases h : a = n <;> simp [h, bne]
      omega
    have := hc n
    omega

/-- two different offsets below `m` from the same base land on different ring slots -/
theorem ring_slot_ne {m b j k : Nat} (hj : j < k) (hk : k < j + m) :
    (b + j) % m ≠ (b + k) % m := by
  intro h
  have h1 : ((b + k) - (b + j)) % m = 0 := Nat.sub_mod_eq_zero_of_mod_eq h.symm
  have h2 : (b + k) - (b + j) = k - j := by omega
  rw [h2, Nat.mod_eq_of_lt (by omega)] at h1
  omega

theorem count_drop_one (l : List Nat) (x : Nat) :
    (l.drop 1).count x + (if l.head? = some x then 1 else 0) = l.count x := by
  cases l with
  | nil => simp
  | cons a l =>
    by_cases h : a = x
    · subst h; simp
    · simp [h]

theorem count_flatten_set (l : List (List Nat)) (i : Nat) (g g' : List Nat) (x : Nat)
    (h : l[i]? = some g) :
    (l.set i g').flatten.count x + g.count x = l.flatten.count x + g'.count x := by
  induction l generalizing i with
  | nil => simp at h
  | cons y l ih =>
    cases i with
    | zero => simp at h; subst h; simp [List.count_append]; omega
    | succ i => simp at h; have := ih i h; simp [List.count_append]; omega

theorem count_range' (s n x : Nat) : (List.range' s n).count x = if s ≤ x ∧ x < s + n then 1 else 0 := by
  induction n generalizing s with
  | zero => simp
  | succ n ih =>
    rw [List.range'_succ, List.count_cons, ih]
    by_cases h : s = x
    · subst h; simp; omega
    · simp [h]; split <;> split <;> omega

theorem flatten_replicate_nil (n : Nat) : (List.replicate n ([] : List Nat)).flatten = [] := by
  induction n with
  | zero => rfl
  | succ n ih => simp [List.replicate_succ, ih]

end Netpoll.Shard
