import Netpoll.ServerInv
/-!
The invariant `Good` (ServerInv.lean) is preserved by the acceptor, Serve and Shutdown steps, hence holds in
every reachable state of the fixed code variant; consequences used by `Props/C13.lean`.
-/
namespace Netpoll.Server

/-! ### steps that do not touch a connection -/

theorem Sh.ranging_pastClose {x : Sh} (h : x.rangingPhase = true) : x.pastClose = true := by
  cases x <;> simp_all [Sh.rangingPhase, Sh.pastClose]

/-- only control fields change: connections, map, Shutdown's pc / todo / active stay -/
theorem good_ctl {s s' : S} (h : Good s) (hc : s'.conns = s.conns) (hm : s'.map = s.map) (hsh : s'.sh = s.sh)
    (htodo : s'.todo = s.todo) (hact : s'.active = s.active)
    (hln : s.lnOpen = false → s'.lnOpen = false) (hlo : s.lnOpen = true → s'.lnOpen = true)
    (hrel : s.sh.pastQuit = true → (s.stop.isSome = true ∨ ∃ e, s.sv = .returned e) → (s'.stop.isSome = true ∨ ∃ e, s'.sv = .returned e))
    (hsv : s.sv ≠ .notStarted → s'.sv ≠ .notStarted)
    (hctx : s.ctxDone = true → s'.ctxDone = true)
    (hres : s'.ran = true → s'.reg = true ∨ s'.bk > 0 ∨ s'.errQuit = true ∨ s.sh.pastDetach = true) : Good s' := by
  constructor
  · rw [hc]; exact h.loc
  · rw [hc, hm]; exact h.mapC
  · rw [hc, hm]; exact h.trk
  · rw [hc]; exact h.uniq
  · rw [hsh]; exact fun hp => hln (h.lnc hp)
  · rw [hsh]; exact fun hp => hlo (h.lno hp)
  · rw [hsh]; exact fun hp => hrel hp (h.rel hp)
  · rw [hsh]; exact fun hp => hsv (h.svr hp)
  · rw [hsh, hact, hc]; exact h.infl
  · rw [hsh, hact, hm, htodo]; exact h.cov
  · rw [hsh, hm, hc]; exact h.nil
  · rw [hsh, hact]; exact h.wait
  · rw [hsh]; exact fun hp => hctx (h.ctx hp)
  · rw [hsh, hc]; exact h.idle
  · rw [htodo, hc]; exact h.todoOk
  · rw [hsh]; exact hres

theorem good_push {s : S} {fd : Nat} (h : Good s) (hln : s.lnOpen = true) (hfree : s.fdFree fd = true) : Good (s.push fd) := by
  have hget : ∀ j, j < s.conns.length → (s.conns ++ [({ fd := fd } : Conn)])[j]? = s.conns[j]? :=
    fun j hj => List.getElem?_append_left hj
  have hold : ∀ (j : Nat) (d : Conn), s.conns[j]? = some d → (s.conns ++ [({ fd := fd } : Conn)])[j]? = some d := by
    intro j d hd
    have : j < s.conns.length := (List.getElem?_eq_some_iff.mp hd).1
    rw [hget j this]; exact hd
  have hcases : ∀ (j : Nat) (d : Conn), (s.conns ++ [({ fd := fd } : Conn)])[j]? = some d →
      s.conns[j]? = some d ∨ (j = s.conns.length ∧ d = { fd := fd }) := by
    intro j d hd
    by_cases hj : j < s.conns.length
    · left; rw [hget j hj] at hd; exact hd
    · right
      rw [List.getElem?_append_right (Nat.le_of_not_lt hj)] at hd
      have hlt : j - s.conns.length < 1 := by
        have := (List.getElem?_eq_some_iff.mp hd).1; simpa using this
      have h0 : j - s.conns.length = 0 := by omega
      rw [h0] at hd; simp at hd
      exact ⟨by omega, hd.symm⟩
  have hnp : s.sh.pastClose = false := by
    cases hp : s.sh.pastClose with
    | false => rfl
    | true => have := h.lnc hp; rw [hln] at this; cases this
  have hnr : s.sh.rangingPhase = false := by
    cases hp : s.sh.rangingPhase with
    | false => rfl
    | true => rw [Sh.ranging_pastClose hp] at hnp; cases hnp
  have hfree' : ∀ c ∈ s.conns, c.fdOpen = true → c.fd ≠ fd := by
    intro c hc ho
    have := (List.all_eq_true.mp hfree) c hc
    simp [ho] at this; exact this
  constructor
  · intro j d hd
    rcases hcases j d hd with hd | ⟨_, rfl⟩
    · exact h.loc j d hd
    · exact Conn.Ok.new fd
  · intro f j hf
    obtain ⟨d, hd, hdf, hdl⟩ := h.mapC f j hf
    exact ⟨d, hold j d hd, hdf, hdl⟩
  · intro j d hd hl
    rcases hcases j d hd with hd | ⟨_, rfl⟩
    · exact h.trk j d hd hl
    · simp [Conn.live] at hl
  · intro j k d e hd he hdo heo hfe
    rcases hcases j d hd with hd | ⟨hj, rfl⟩ <;> rcases hcases k e he with he | ⟨hk, rfl⟩
    · exact h.uniq j k d e hd he hdo heo hfe
    · exact absurd hfe (hfree' d (List.mem_iff_getElem?.mpr ⟨j, hd⟩) hdo)
    · exact absurd hfe.symm (hfree' e (List.mem_iff_getElem?.mpr ⟨k, he⟩) heo)
    · rw [hj, hk]
  · exact h.lnc
  · exact h.lno
  · exact h.rel
  · exact h.svr
  · intro hr; simp only [S.push] at hr; rw [hnr] at hr; cases hr
  · intro hr; simp only [S.push] at hr; rw [hnr] at hr; cases hr
  · intro hr
    have : s.sh.pastClose = true := by simp only [S.push] at hr; rw [hr]; rfl
    rw [this] at hnp; cases hnp
  · exact h.wait
  · exact h.ctx
  · intro j hj
    obtain ⟨d, hd, hds⟩ := h.idle j hj
    exact ⟨d, hold j d hd, hds⟩
  · intro j hj
    obtain ⟨d, hd, hds⟩ := h.todoOk j hj
    exact ⟨d, hold j d hd, hds⟩
  · exact h.resume

theorem detachLn_fields (s : S) :
    s.detachLn.1.conns = s.conns ∧ s.detachLn.1.map = s.map ∧ s.detachLn.1.sh = s.sh ∧ s.detachLn.1.todo = s.todo ∧
    s.detachLn.1.active = s.active ∧ s.detachLn.1.lnOpen = s.lnOpen ∧ s.detachLn.1.stop = s.stop ∧ s.detachLn.1.sv = s.sv ∧
    s.detachLn.1.ctxDone = s.ctxDone ∧ s.detachLn.1.ran = s.ran ∧ s.detachLn.1.bk = s.bk ∧ s.detachLn.1.errQuit = s.errQuit ∧
    (s.detachLn.2 = false → s.detachLn.1.reg = false → s.reg = true → s.detached = 0) ∧
    (s.detachLn.1.reg = true → s.reg = true) ∧ (s.detachLn.2 = true → s.detachLn.1.reg = s.reg) := by
  unfold S.detachLn
  split
  · simp; intro a b; rw [a] at b; cases b
  · split <;> simp_all

theorem good_stepAccept {s s' : S} {b : Bool} {r : AccRes} (h : Good s)
    (hs : stepAccept s b r = some s') : Good s' := by
  cases r with
  | conn fd =>
    simp only [stepAccept] at hs
    split at hs
    · cases hs; rename_i hg
      simp only [Bool.and_eq_true] at hg
      exact good_push h hg.1 hg.2
    · cases hs
  | eagain =>
    simp only [stepAccept] at hs
    split at hs
    · cases hs
    · split at hs
      · cases hs
        exact good_ctl h rfl rfl rfl rfl rfl (fun x => x) (fun x => x) (fun _ x => x) (fun x => x) (fun x => x) (fun _ => Or.inl rfl)
      · cases hs; exact h
  | emfile =>
    simp only [stepAccept] at hs
    split at hs
    · cases hs
    · split at hs
      · cases hs; exact h
      · obtain ⟨e1, e2, e3, e4, e5, e6, e7, e8, e9, e10, e11, e12, e13, e14, e15⟩ := detachLn_fields s
        split at hs
        · cases hs
          rename_i he
          refine good_ctl h e1 e2 e3 e4 e5 (by rw [e6]; exact fun x => x) (by rw [e6]; exact fun x => x) (by rw [e7, e8]; exact fun _ x => x)
            (by rw [e8]; exact fun x => x) (by rw [e9]; exact fun x => x) ?_
          intro hr
          rw [e10] at hr
          rw [e15 he, e11, e12]
          exact h.resume hr
        · cases hs
          refine good_ctl h e1 e2 e3 e4 e5 (by simp only [e6]; exact fun x => x) (by simp only [e6]; exact fun x => x) (by simp only [e7, e8]; exact fun _ x => x)
            (by simp only [e8]; exact fun x => x) (by simp only [e9]; exact fun x => x) ?_
          intro _
          right; left; simp
  | err cw =>
    simp only [stepAccept] at hs
    split at hs
    · cases hs; exact h
    · split at hs
      · cases hs
        obtain ⟨e1, e2, e3, e4, e5, e6, e7, e8, e9, e10, e11, e12, e13, e14, e15⟩ := detachLn_fields s
        refine good_ctl h (by simp [S.quit, e1]) (by simp [S.quit, e2]) (by simp [S.quit, e3]) (by simp [S.quit, e4])
          (by simp [S.quit, e5]) (by simp [S.quit, e6]) (by simp [S.quit, e6]) ?_ (by simp [S.quit, e8]) (by simp [S.quit, e9]) ?_
        · intro _ hx
          simp only [S.quit, e7, e8]
          rcases hx with hx | hx
          · left; cases hst : s.stop <;> simp_all
          · exact Or.inr hx
        · intro _; right; right; left; rfl
      · cases hs; exact h

/-- a connection update that leaves the map alone -/
theorem good_setConn {s : S} {i : Nat} {c c' : Conn} (h : Good s) (hc : s.conns[i]? = some c)
    (hok : c'.Ok) (hfd : c'.fd = c.fd) (hopen : c'.fdOpen = true → c.fdOpen = true)
    (hinf : c'.inflight = true → c.inflight = true) (hsaw : c.sawIdle = true → c'.sawIdle = true)
    (hapc : (c.apc = .stored ∨ c.apc = .done) → (c'.apc = .stored ∨ c'.apc = .done))
    (hlive : c'.live ↔ c.live) : Good (s.setConn i c') := by
  have : s.setConn i c' = { (s.setConn i c') with map := s.map } := rfl
  rw [this]
  refine good_conn_gen h hc hok hfd hopen hinf hsaw hapc ?_ ?_ h.cov (fun hr => (h.nil hr).1)
  · intro f j hf
    obtain ⟨d, hd, hdf, hdl⟩ := h.mapC f j hf
    by_cases hji : j = i
    · subst hji; rw [hc] at hd; cases hd
      exact ⟨c', by simp, by rw [hfd]; exact hdf, hlive.mpr hdl⟩
    · exact ⟨d, by simp [hji, hd], hdf, hdl⟩
  · intro j d hj hl
    by_cases hji : j = i
    · subst hji; simp at hj; subst hj
      rw [hfd]; exact h.trk j c hc (hlive.mp hl)
    · simp [hji] at hj; exact h.trk j d hj hl

/-! ### Shutdown steps -/

/-- Shutdown's pc / todo / active change, connections and map stay -/
theorem good_sh {s s' : S} (h : Good s) (hc : s'.conns = s.conns) (hm : s'.map = s.map)
    (hln : s'.sh.pastClose = true → s'.lnOpen = false) (hlo : s'.sh.pastClose = false → s'.lnOpen = true)
    (hrel : s'.sh.pastQuit = true → s'.stop.isSome = true ∨ ∃ e, s'.sv = .returned e)
    (hsv : s'.sh ≠ .idle → s'.sv ≠ .notStarted)
    (hinfl : s'.sh.rangingPhase = true → s'.active = 0 → ∀ (i : Nat) (c : Conn), s.conns[i]? = some c → c.inflight = false)
    (hcov : s'.sh.rangingPhase = true → s'.active = 0 → ∀ f i, s.map f = some i →
          i ∈ s'.todo ∨ s'.sh = .closing i ∨ s'.sh = .tearing i ∨ s'.sh = .after i)
    (hnil : s'.sh = .retNil → (∀ f, s.map f = none) ∧ ∀ (i : Nat) (c : Conn), s.conns[i]? = some c → c.inflight = false)
    (hwait : (s'.sh = .waiting ∨ s'.sh = .retCtx) → s'.active > 0)
    (hctx : s'.sh = .retCtx → s'.ctxDone = true)
    (hidle : ∀ i, s'.sh = .closing i → ∃ c : Conn, s.conns[i]? = some c ∧ c.sawIdle = true ∧ (c.apc = .stored ∨ c.apc = .done))
    (htodo : ∀ i, i ∈ s'.todo → ∃ c : Conn, s.conns[i]? = some c ∧ (c.apc = .stored ∨ c.apc = .done))
    (hres : s'.ran = true → s'.reg = true ∨ s'.bk > 0 ∨ s'.errQuit = true ∨ s'.sh.pastDetach = true) : Good s' := by
  constructor
  · rw [hc]; exact h.loc
  · rw [hc, hm]; exact h.mapC
  · rw [hc, hm]; exact h.trk
  · rw [hc]; exact h.uniq
  · exact hln
  · exact hlo
  · exact hrel
  · exact hsv
  · rw [hc]; exact hinfl
  · rw [hm]; exact hcov
  · rw [hm, hc]; exact hnil
  · exact hwait
  · exact hctx
  · rw [hc]; exact hidle
  · rw [hc]; exact htodo
  · exact hres

theorem countP_zero_get {l : List Conn} (h : l.countP Conn.inflight = 0) (i : Nat) (c : Conn) (hc : l[i]? = some c) :
    c.inflight = false := by
  have := (List.countP_eq_zero.mp h) c (List.mem_iff_getElem?.mpr ⟨i, hc⟩)
  cases hq : c.inflight <;> simp_all

theorem good_shCall {s s' : S} (h : Good s) (hs : stepSh Cfg.fixed s .shCall = some s') : Good s' := by
  have hL := h.lnc; have hLo := h.lno; have hR := h.rel; have hS := h.svr; have hI := h.infl; have hC := h.cov
  have hN := h.nil; have hW := h.wait; have hX := h.ctx; have hD := h.idle; have hT := h.todoOk; have hE := h.resume
  simp only [stepSh] at hs
  split at hs
  · cases hs; rename_i hg
    simp only [Bool.and_eq_true, decide_eq_true_eq, bne_iff_ne, ne_eq] at hg
    refine good_sh h rfl rfl ?_ ?_ ?_ ?_ ?_ ?_ ?_ ?_ ?_ ?_ hT ?_ <;>
      simp_all [Sh.pastClose, Sh.pastQuit, Sh.pastDetach, Sh.rangingPhase]
  · cases hs

theorem good_shAgain {s s' : S} (h : Good s) (hs : stepSh Cfg.fixed s .shAgain = some s') : Good s' := by
  have hL := h.lnc; have hLo := h.lno; have hR := h.rel; have hS := h.svr; have hI := h.infl; have hC := h.cov
  have hN := h.nil; have hW := h.wait; have hX := h.ctx; have hD := h.idle; have hT := h.todoOk; have hE := h.resume
  simp only [stepSh] at hs
  split at hs
  · cases hs
    exact good_ctl h rfl rfl rfl rfl rfl (fun x => x) (fun x => x) (fun _ x => x) (fun x => x) (fun x => x) hE
  · cases hs

theorem good_shQuit {s s' : S} (h : Good s) (hs : stepSh Cfg.fixed s .shQuit = some s') : Good s' := by
  have hL := h.lnc; have hLo := h.lno; have hR := h.rel; have hS := h.svr; have hI := h.infl; have hC := h.cov
  have hN := h.nil; have hW := h.wait; have hX := h.ctx; have hD := h.idle; have hT := h.todoOk; have hE := h.resume
  simp only [stepSh] at hs
  split at hs
  · cases hs; rename_i hg
    refine good_sh h rfl rfl ?_ ?_ ?_ ?_ ?_ ?_ ?_ ?_ ?_ ?_ hT ?_ <;>
      simp_all [Sh.pastClose, Sh.pastQuit, Sh.pastDetach, Sh.rangingPhase, S.quit]
    cases hst : s.stop <;> simp
  · cases hs

theorem good_shDetach {s s' : S} (h : Good s) (hs : stepSh Cfg.fixed s .shDetach = some s') : Good s' := by
  have hL := h.lnc; have hLo := h.lno; have hR := h.rel; have hS := h.svr; have hI := h.infl; have hC := h.cov
  have hN := h.nil; have hW := h.wait; have hX := h.ctx; have hD := h.idle; have hT := h.todoOk; have hE := h.resume
  simp only [stepSh] at hs
  split at hs
  · cases hs; rename_i hg
    obtain ⟨e1, e2, e3, e4, e5, e6, e7, e8, e9, e10, e11, e12, e13, e14, e15⟩ := detachLn_fields s
    refine good_sh h e1 e2 ?_ ?_ ?_ ?_ ?_ ?_ ?_ ?_ ?_ ?_ (by simp only [e4]; exact hT) ?_ <;>
      simp_all [Sh.pastClose, Sh.pastQuit, Sh.pastDetach, Sh.rangingPhase]
  · cases hs

theorem good_shLnClose {s s' : S} (h : Good s) (hs : stepSh Cfg.fixed s .shLnClose = some s') : Good s' := by
  have hL := h.lnc; have hLo := h.lno; have hR := h.rel; have hS := h.svr; have hI := h.infl; have hC := h.cov
  have hN := h.nil; have hW := h.wait; have hX := h.ctx; have hD := h.idle; have hT := h.todoOk; have hE := h.resume
  simp only [stepSh] at hs
  split at hs
  · cases hs; rename_i hg
    refine good_sh h rfl rfl ?_ ?_ ?_ ?_ ?_ ?_ ?_ ?_ ?_ ?_ hT ?_ <;>
      simp_all [Sh.pastClose, Sh.pastQuit, Sh.pastDetach, Sh.rangingPhase]
  · cases hs

theorem good_shRound {s s' : S} (h : Good s) (hs : stepSh Cfg.fixed s .shRound = some s') : Good s' := by
  have hL := h.lnc; have hLo := h.lno; have hR := h.rel; have hS := h.svr; have hI := h.infl; have hC := h.cov
  have hN := h.nil; have hW := h.wait; have hX := h.ctx; have hD := h.idle; have hT := h.todoOk; have hE := h.resume
  simp only [stepSh] at hs
  split at hs
  · cases hs; rename_i hg
    refine good_sh h rfl rfl ?_ ?_ ?_ ?_ ?_ ?_ ?_ ?_ ?_ ?_ ?_ ?_ <;>
      simp_all [Sh.pastClose, Sh.pastQuit, Sh.pastDetach, Sh.rangingPhase, Cfg.fixed]
    · intro ha i c hc; exact ha c (List.mem_iff_getElem?.mpr ⟨i, hc⟩)
    · intro _ f i hf
      obtain ⟨c, hc, _, _⟩ := h.mapC f i hf
      exact ⟨(List.getElem?_eq_some_iff.mp hc).1, (tracked_iff h i).mpr ⟨f, hf⟩⟩
    · intro i hi
      obtain ⟨f, hf⟩ := (tracked_iff h i).mp hi.2
      obtain ⟨c, hc, _, hl⟩ := h.mapC f i hf
      obtain ⟨hlt, he⟩ := List.getElem?_eq_some_iff.mp hc
      rw [he]; exact hl.1
  · cases hs

theorem good_shObserve {s s' : S} (h : Good s) (hs : stepSh Cfg.fixed s .shObserve = some s') : Good s' := by
  have hL := h.lnc; have hLo := h.lno; have hR := h.rel; have hS := h.svr; have hI := h.infl; have hC := h.cov
  have hN := h.nil; have hW := h.wait; have hX := h.ctx; have hD := h.idle; have hT := h.todoOk; have hE := h.resume
  simp only [stepSh] at hs
  split at hs
  · rename_i hg
    split at hs
    · cases hs
    · rename_i i rest htd
      split at hs
      · cases hs
      · rename_i c hc
        have hTi := hT i (by rw [htd]; simp)
        obtain ⟨c0, hc0, hapc0⟩ := hTi
        rw [hc] at hc0; cases hc0
        split at hs
        · cases hs
          have hcok := h.loc i c hc
          have h1 : Good (s.setConn i { c with sawIdle := true }) := by
            refine good_setConn h hc ?_ rfl (fun x => x) (fun x => x) (fun _ => rfl) (fun x => x) (by simp [Conn.live])
            obtain ⟨a1, a2, a3, a4, a5, a6, a7⟩ := hcok
            constructor <;> simp_all [Conn.snapNo]
          have hget : (s.conns.set i { c with sawIdle := true })[i]? = some { c with sawIdle := true } := by
            rw [get_set hc]; simp
          refine good_sh h1 rfl rfl ?_ ?_ ?_ ?_ ?_ ?_ ?_ ?_ ?_ ?_ ?_ ?_ <;>
            simp_all [Sh.pastClose, Sh.pastQuit, Sh.pastDetach, Sh.rangingPhase, S.setConn]
          · exact h1.infl (by simp [Sh.rangingPhase])
          · intro ha f j hf
            have := h1.cov (by simp [Sh.rangingPhase]) ha f j hf
            simp at this
            rcases this with rfl | this
            · right; rfl
            · left; exact this
          · intro j hj
            exact h1.todoOk j (by simp; right; exact hj)
        · cases hs
          refine good_sh h rfl rfl ?_ ?_ ?_ ?_ ?_ ?_ ?_ ?_ ?_ ?_ ?_ ?_ <;>
            simp_all [Sh.pastClose, Sh.pastQuit, Sh.pastDetach, Sh.rangingPhase]
  · cases hs

theorem good_shSkip {s s' : S} (h : Good s) (hs : stepSh Cfg.fixed s .shSkip = some s') : Good s' := by
  have hL := h.lnc; have hLo := h.lno; have hR := h.rel; have hS := h.svr; have hI := h.infl; have hC := h.cov
  have hN := h.nil; have hW := h.wait; have hX := h.ctx; have hD := h.idle; have hT := h.todoOk; have hE := h.resume
  simp only [stepSh] at hs
  split at hs
  · rename_i hg
    split at hs
    · cases hs
    · rename_i i rest htd
      split at hs
      · cases hs; rename_i hnt
        refine good_sh h rfl rfl ?_ ?_ ?_ ?_ ?_ ?_ ?_ ?_ ?_ ?_ ?_ ?_ <;>
          simp_all [Sh.pastClose, Sh.pastQuit, Sh.pastDetach, Sh.rangingPhase]
        · exact hI
        · intro ha f j hf
          rcases hC ha f j hf with hji | hj
          · have := (tracked_iff h j).mpr ⟨f, hf⟩
            rw [hji, hnt] at this; cases this
          · exact hj
      · cases hs
  · cases hs

theorem good_shClose {s s' : S} (h : Good s) (hs : stepSh Cfg.fixed s .shClose = some s') : Good s' := by
  have hL := h.lnc; have hLo := h.lno; have hR := h.rel; have hS := h.svr; have hI := h.infl; have hC := h.cov
  have hN := h.nil; have hW := h.wait; have hX := h.ctx; have hD := h.idle; have hT := h.todoOk; have hE := h.resume
  simp only [stepSh] at hs
  split at hs
  · rename_i i hg
    split at hs
    · cases hs
    · rename_i c hc
      obtain ⟨c0, hc0, hsaw0, hapc0⟩ := hD i hg
      rw [hc] at hc0; cases hc0
      have hcok := h.loc i c hc
      have hcb : c.cbReg = true := by
        cases hq : c.cbReg with
        | true => rfl
        | false => rcases hcok.cbr hq with e | e <;> rcases hapc0 with e' | e' <;> rw [e] at e' <;> cases e'
      split at hs
      · cases hs; rename_i hgd
        simp only [Bool.and_eq_true, Bool.not_eq_eq_eq_not, Bool.not_true, decide_eq_true_eq] at hgd
        have h1 : Good (s.setConn i { c with closing := true, shutClosed := true, td := .loaded c.cbReg }) := by
          refine good_setConn h hc ?_ rfl ?_ (fun x => x) (fun x => x) (fun x => x) (by simp [Conn.live])
          · obtain ⟨a1, a2, a3, a4, a5, a6, a7⟩ := hcok
            constructor <;> simp_all [Conn.snapNo]
          · intro _
            cases ho : c.fdOpen with
            | true => rfl
            | false => have := hcok.fdc.mpr ho; rw [hgd.2] at this; cases this
        refine good_sh h1 rfl rfl ?_ ?_ ?_ ?_ ?_ ?_ ?_ ?_ ?_ ?_ ?_ ?_ <;>
          simp_all [Sh.pastClose, Sh.pastQuit, Sh.pastDetach, Sh.rangingPhase, S.setConn]
        · exact h1.infl (by simp [Sh.rangingPhase])
        · intro ha f j hf
          have := h1.cov (by simp [Sh.rangingPhase]) ha f j hf
          simp at this
          rcases this with this | this
          · left; exact this
          · right; exact this
        · exact h1.todoOk
      · cases hs
        have h1 : Good (s.setConn i { c with closing := true, shutClosed := true }) := by
          refine good_setConn h hc ?_ rfl (fun x => x) (fun x => x) (fun x => x) (fun x => x) (by simp [Conn.live])
          obtain ⟨a1, a2, a3, a4, a5, a6, a7⟩ := hcok
          constructor <;> simp_all [Conn.snapNo]
        refine good_sh h1 rfl rfl ?_ ?_ ?_ ?_ ?_ ?_ ?_ ?_ ?_ ?_ ?_ ?_ <;>
          simp_all [Sh.pastClose, Sh.pastQuit, Sh.pastDetach, Sh.rangingPhase, S.setConn]
        · exact h1.infl (by simp [Sh.rangingPhase])
        · intro ha f j hf
          have := h1.cov (by simp [Sh.rangingPhase]) ha f j hf
          simp at this
          rcases this with this | this
          · left; exact this
          · right; exact this
        · exact h1.todoOk
  · cases hs

theorem good_shTornDown {s s' : S} (h : Good s) (hs : stepSh Cfg.fixed s .shTornDown = some s') : Good s' := by
  have hL := h.lnc; have hLo := h.lno; have hR := h.rel; have hS := h.svr; have hI := h.infl; have hC := h.cov
  have hN := h.nil; have hW := h.wait; have hX := h.ctx; have hD := h.idle; have hT := h.todoOk; have hE := h.resume
  simp only [stepSh] at hs
  split at hs
  · rename_i i hg
    split at hs
    · rename_i c hc
      split at hs
      · cases hs
        refine good_sh h rfl rfl ?_ ?_ ?_ ?_ ?_ ?_ ?_ ?_ ?_ ?_ ?_ ?_ <;>
          simp_all [Sh.pastClose, Sh.pastQuit, Sh.pastDetach, Sh.rangingPhase]
        · exact hI
        · exact hC
      · cases hs
    · cases hs
  · cases hs

theorem good_shRecheck {s s' : S} (h : Good s) (hs : stepSh Cfg.fixed s .shRecheck = some s') : Good s' := by
  have hL := h.lnc; have hLo := h.lno; have hR := h.rel; have hS := h.svr; have hI := h.infl; have hC := h.cov
  have hN := h.nil; have hW := h.wait; have hX := h.ctx; have hD := h.idle; have hT := h.todoOk; have hE := h.resume
  simp only [stepSh] at hs
  split at hs
  · rename_i i hg
    split at hs
    · cases hs
      refine good_sh h rfl rfl ?_ ?_ ?_ ?_ ?_ ?_ ?_ ?_ ?_ ?_ ?_ ?_ <;>
        simp_all [Sh.pastClose, Sh.pastQuit, Sh.pastDetach, Sh.rangingPhase]
    · cases hs; rename_i hnt
      simp only [Cfg.fixed, Bool.true_and, Bool.not_eq_true] at hnt
      refine good_sh h rfl rfl ?_ ?_ ?_ ?_ ?_ ?_ ?_ ?_ ?_ ?_ ?_ ?_ <;>
        simp_all [Sh.pastClose, Sh.pastQuit, Sh.pastDetach, Sh.rangingPhase]
      · exact hI
      · intro ha f j hf
        rcases hC ha f j hf with hj | hji
        · exact hj
        · have := (tracked_iff h j).mpr ⟨f, hf⟩
          rw [← hji, hnt] at this; cases this
  · cases hs

theorem good_shEnd {s s' : S} (h : Good s) (hs : stepSh Cfg.fixed s .shEnd = some s') : Good s' := by
  have hL := h.lnc; have hLo := h.lno; have hR := h.rel; have hS := h.svr; have hI := h.infl; have hC := h.cov
  have hN := h.nil; have hW := h.wait; have hX := h.ctx; have hD := h.idle; have hT := h.todoOk; have hE := h.resume
  simp only [stepSh] at hs
  split at hs
  · rename_i hg
    simp only [Bool.and_eq_true, decide_eq_true_eq] at hg
    split at hs
    · cases hs; rename_i ha
      refine good_sh h rfl rfl ?_ ?_ ?_ ?_ ?_ ?_ ?_ ?_ ?_ ?_ ?_ ?_ <;>
        simp_all [Sh.pastClose, Sh.pastQuit, Sh.pastDetach, Sh.rangingPhase]
      refine ⟨?_, hI⟩
      intro f
      cases hq : s.map f with
      | none => rfl
      | some j => exact absurd hq (hC f j)
    · cases hs; rename_i ha
      refine good_sh h rfl rfl ?_ ?_ ?_ ?_ ?_ ?_ ?_ ?_ ?_ ?_ ?_ ?_ <;>
        simp_all [Sh.pastClose, Sh.pastQuit, Sh.pastDetach, Sh.rangingPhase]
      omega
  · cases hs

theorem good_shTick {s s' : S} (h : Good s) (hs : stepSh Cfg.fixed s .shTick = some s') : Good s' := by
  have hL := h.lnc; have hLo := h.lno; have hR := h.rel; have hS := h.svr; have hI := h.infl; have hC := h.cov
  have hN := h.nil; have hW := h.wait; have hX := h.ctx; have hD := h.idle; have hT := h.todoOk; have hE := h.resume
  simp only [stepSh] at hs
  split at hs
  · cases hs
    refine good_sh h rfl rfl ?_ ?_ ?_ ?_ ?_ ?_ ?_ ?_ ?_ ?_ ?_ ?_ <;>
      simp_all [Sh.pastClose, Sh.pastQuit, Sh.pastDetach, Sh.rangingPhase]
  · cases hs

theorem good_shCtx {s s' : S} (h : Good s) (hs : stepSh Cfg.fixed s .shCtx = some s') : Good s' := by
  have hL := h.lnc; have hLo := h.lno; have hR := h.rel; have hS := h.svr; have hI := h.infl; have hC := h.cov
  have hN := h.nil; have hW := h.wait; have hX := h.ctx; have hD := h.idle; have hT := h.todoOk; have hE := h.resume
  simp only [stepSh] at hs
  split at hs
  · cases hs
    refine good_sh h rfl rfl ?_ ?_ ?_ ?_ ?_ ?_ ?_ ?_ ?_ ?_ ?_ ?_ <;>
      simp_all [Sh.pastClose, Sh.pastQuit, Sh.pastDetach, Sh.rangingPhase]
  · cases hs


theorem good_stepSh {s s' : S} {a : Act} (h : Good s) (hs : stepSh Cfg.fixed s a = some s') : Good s' := by
  cases a
  case shCall => exact good_shCall h hs
  case shAgain => exact good_shAgain h hs
  case shQuit => exact good_shQuit h hs
  case shDetach => exact good_shDetach h hs
  case shLnClose => exact good_shLnClose h hs
  case shRound => exact good_shRound h hs
  case shObserve => exact good_shObserve h hs
  case shSkip => exact good_shSkip h hs
  case shClose => exact good_shClose h hs
  case shTornDown => exact good_shTornDown h hs
  case shRecheck => exact good_shRecheck h hs
  case shEnd => exact good_shEnd h hs
  case shTick => exact good_shTick h hs
  case shCtx => exact good_shCtx h hs
  all_goals (simp only [stepSh] at hs; cases hs)

/-! ### every step preserves the invariant; lifting to reachable states -/

theorem good_step {s s' : S} {a : Act} (h : Good s) (hs : step Cfg.fixed s a = some s') : Good s' := by
  unfold step at hs
  split at hs
  · -- serveRun
    split at hs
    · rename_i hsv
      have hidle : s.sh = .idle := by
        cases hq : s.sh <;> first | rfl | (exact absurd hsv (h.svr (by rw [hq]; simp)))
      split at hs
      · cases hs
        exact good_ctl h rfl rfl rfl rfl rfl (fun x => x) (fun x => x) (by rw [hidle]; simp [Sh.pastQuit]) (fun _ => by simp)
          (fun x => x) (fun _ => Or.inl rfl)
      · cases hs
        refine good_ctl h rfl rfl rfl rfl rfl (fun x => x) (fun x => x) (by rw [hidle]; simp [Sh.pastQuit]) (fun _ => by simp [S.quit])
          (fun x => x) ?_
        intro hr
        simp only [S.quit] at hr ⊢
        rcases h.resume hr with x | x | x | x
        · exact Or.inl x
        · exact Or.inr (Or.inl x)
        · exact Or.inr (Or.inr (Or.inl x))
        · exact Or.inr (Or.inr (Or.inr x))
    · cases hs
  · -- serveRecv
    split at hs
    · split at hs
      · cases hs
        exact good_ctl h rfl rfl rfl rfl rfl (fun x => x) (fun x => x) (fun _ _ => Or.inr ⟨_, rfl⟩) (fun _ => by simp) (fun x => x) h.resume
      · cases hs
    · cases hs
  · -- pAccept
    split at hs
    · exact good_stepAccept h hs
    · cases hs
  · -- bAccept
    split at hs
    · exact good_stepAccept h hs
    · cases hs
  · -- ctxExpire
    cases hs
    exact good_ctl h rfl rfl rfl rfl rfl (fun x => x) (fun x => x) (fun _ x => x) (fun x => x) (fun _ => rfl) h.resume
  · -- connection-level or Shutdown
    split at hs
    · split at hs
      · rename_i i _ c hc; exact good_stepConn h hc hs
      · cases hs
    · exact good_stepSh h hs

theorem good_run {s s' : S} {as : List Act} (h : Good s) (hr : run Cfg.fixed s as = some s') : Good s' := by
  induction as generalizing s with
  | nil => simp only [run] at hr; cases hr; exact h
  | cons a as ih =>
    simp only [run] at hr
    split at hr
    · rename_i s1 hs; exact ih (good_step h hs) hr
    · cases hr

theorem run_snoc (cfg : Cfg) (s : S) (as : List Act) (a : Act) :
    run cfg s (as ++ [a]) = (run cfg s as).bind (fun s1 => step cfg s1 a) := by
  induction as generalizing s with
  | nil => simp only [List.nil_append, run, Option.bind]; cases h : step cfg s a <;> simp [run]
  | cons b bs ih =>
    simp only [List.cons_append, run]
    cases step cfg s b with
    | none => rfl
    | some s1 => exact ih s1

theorem reachable_step {cfg : Cfg} {s s' : S} {a : Act} (hr : Reachable cfg s) (hs : step cfg s a = some s') :
    Reachable cfg s' := by
  obtain ⟨as, has⟩ := hr
  exact ⟨as ++ [a], by rw [run_snoc, has]; exact hs⟩

/-- the invariant holds in every reachable state of the fixed code -/
theorem good_reachable {s : S} (hr : Reachable Cfg.fixed s) : Good s := by
  obtain ⟨as, h⟩ := hr
  exact good_run good_init h

end Netpoll.Server
