/-! Names and access kinds of the C19 access table (imported by the GENERATED `Netpoll.Gen.Access`).

A name (`"connection.inputAck"`, `"FDOperator.state"`) is carried as text plus an injective numeric code
(base-256 value of `"\x01" ++ text`, ASCII only).  Names are compared by code: `String` equality costs
milliseconds per comparison in the kernel (Lean 4.33), which makes `decide` over a 450-row table take
minutes; `Nat` equality on literals is a kernel primitive.  The text is for the reader and for the
evidence printer.  `nm! "text"` computes the code at elaboration time; the extractor computes it in Go
and `Gen/Access.lean` re-checks every generated code against its text with `#guard`. -/
namespace Netpoll.Race

/-- kind of an access: plain read, plain write, atomic (sync/atomic call or sync/atomic-typed field),
    operation on a synchronisation object (sync.*, channel send/receive). -/
inductive Kind | r | w | a | s
  deriving DecidableEq, Repr, Inhabited

def Kind.toString : Kind → String
  | .r => "r" | .w => "w" | .a => "a" | .s => "s"

def encodeName (s : String) : Nat :=
  s.foldl (fun n c => n * 256 + c.toNat) 1

structure Nm where
  str : String
  code : Nat
  deriving Repr, Inhabited

/-- names are compared by code only -/
instance : BEq Nm := ⟨fun a b => a.code == b.code⟩

def Nm.wf (n : Nm) : Bool := n.str.toList.all (fun (c : Char) => c.toNat < 128) && encodeName n.str == n.code

theorem Nm.beq_iff (a b : Nm) : (a == b) = true ↔ a.code = b.code := by
  show (a.code == b.code) = true ↔ _
  simp

open Lean in
/-- `nm! "connection.init"` : the name with its code computed now (rejects non-ASCII text). -/
macro "nm!" s:str : term => do
  let t := s.getString
  unless t.toList.all (fun (c : Char) => c.toNat < 128) do
    Macro.throwErrorAt s "nm!: ASCII only"
  `(Nm.mk $s $(Syntax.mkNumLit (toString (encodeName t))))

/-- `nms!["a", "b"]` : list of names -/
syntax "nms![" str,* "]" : term
macro_rules
  | `(nms![ $[$xs:str],* ]) => `([ $[nm! $xs],* ])

end Netpoll.Race
