import Netpoll.Server
/-!
Invariant of the server model (`Netpoll.Server`) for the fixed code variant (`Cfg.fixed`): the per-connection
part, the global part, and its preservation by every connection-level step.  The remaining steps and the
lifting to reachable states are in `ServerLemmas.lean`; property theorems are in `Props/C13.lean`.
-/
namespace Netpoll.Server

/-! ### per-connection invariant -/

/-- stored, and its untrack callback has not run -/
def Conn.live (c : Conn) : Prop := (c.apc = .stored ∨ c.apc = .done) ∧ c.unt = false

/-- the teardown's snapshot of the callback list does not contain the untrack callback -/
def Conn.snapNo (c : Conn) : Prop := c.td = .loaded false ∨ ((c.td = .fin ∨ c.td = .closed) ∧ c.unt = false)

structure Conn.Ok (c : Conn) : Prop where
  acc : c.apc = .accepted → c.reg = false ∧ c.closing = false ∧ c.td = .none ∧ c.fdOpen = true ∧ c.cbReg = false ∧ c.busy = false ∧ c.unt = false
  tdc : c.td ≠ .none → c.closing = true ∧ c.busy = false
  fdc : c.td = .closed ↔ c.fdOpen = false
  untd : c.unt = true → (c.td = .fin ∨ c.td = .closed)
  snap : c.snapNo → c.closing = true ∧ (c.apc = .inited ∨ c.apc = .p1 ∨ c.apc = .ret)
  cbr : c.cbReg = false → c.apc = .accepted ∨ c.apc = .inited
  ghost : c.shutClosed = true → c.sawIdle = true
  retc : c.apc = .ret → c.closing = true

theorem Conn.Ok.live_open {c : Conn} (h : c.Ok) (hl : c.live) : c.fdOpen = true ∧ (c.td = .none ∨ c.td = .loaded true) := by
  obtain ⟨h1, h2, h3, h4, h5, h6, h7, h8⟩ := h
  obtain ⟨ha, hu⟩ := hl
  have hs : ¬ c.snapNo := by
    intro hs; have := (h5 hs).2; rcases ha with ha | ha <;> simp [ha] at this
  have htd : c.td = .none ∨ c.td = .loaded true := by
    cases htd : c.td with
    | none => simp
    | loaded u => cases u <;> simp_all [Conn.snapNo]
    | fin => exact absurd (Or.inr ⟨Or.inl htd, hu⟩) hs
    | closed => exact absurd (Or.inr ⟨Or.inr htd, hu⟩) hs
  refine ⟨?_, htd⟩
  cases ho : c.fdOpen with
  | true => rfl
  | false => have := h3.mpr ho; rcases htd with h | h <;> simp [h] at this

theorem Conn.Ok.new (fd : Nat) : ({ fd := fd } : Conn).Ok := by
  constructor <;> simp [Conn.snapNo]

/-- what a connection-level step does (fixed code): connection `i` becomes `c'`; the map is untouched, or gets
    `fd ↦ i` (Store), or loses `fd` (untrack) -/
theorem stepConn_char {s s' : S} {i : Nat} {c : Conn} {a : Act}
    (hs : stepConn Cfg.fixed s i c a = some s') (hok : c.Ok) :
    ∃ c' : Conn, c'.Ok ∧ c'.fd = c.fd ∧ (c'.fdOpen = true → c.fdOpen = true) ∧ (c'.inflight = true → c.inflight = true) ∧
      (c.sawIdle = true → c'.sawIdle = true) ∧ ((c.apc = .stored ∨ c.apc = .done) → (c'.apc = .stored ∨ c'.apc = .done)) ∧
      ((s' = s.setConn i c' ∧ (c'.live ↔ c.live)) ∨
       (s' = { (s.setConn i c') with map := mapSet s.map c.fd i } ∧ c'.live ∧ ¬ c.live ∧ c.apc = .p2 ∧ c.unt = false) ∨
       (s' = { (s.setConn i c') with map := mapDel s.map c.fd } ∧ ¬ c'.live ∧ c.td = .loaded true)) := by
  obtain ⟨h1, h2, h3, h4, h5, h6, h7, h8⟩ := hok
  cases a
  case aStore j =>
    simp only [stepConn, Cfg.fixed, Bool.true_and] at hs
    split at hs
    · split at hs
      · cases hs
        refine ⟨_, ?_, ?_, ?_, ?_, ?_, ?_, Or.inl ⟨rfl, ?_⟩⟩ <;> (try constructor) <;> simp_all [Conn.live, Conn.snapNo, Conn.inflight]
      · cases hs
        refine ⟨_, ?_, ?_, ?_, ?_, ?_, ?_, Or.inr (Or.inl ⟨rfl, ?_⟩)⟩ <;> (try constructor) <;> simp_all [Conn.live, Conn.snapNo, Conn.inflight]
    · cases hs
  case tUntrack j =>
    simp only [stepConn] at hs
    split at hs
    · cases hs
      refine ⟨_, ?_, ?_, ?_, ?_, ?_, ?_, Or.inr (Or.inr ⟨rfl, ?_⟩)⟩ <;> (try constructor) <;> simp_all [Conn.live, Conn.snapNo, Conn.inflight]
    · cases hs
      refine ⟨_, ?_, ?_, ?_, ?_, ?_, ?_, Or.inl ⟨rfl, ?_⟩⟩ <;> (try constructor) <;> simp_all [Conn.live, Conn.snapNo, Conn.inflight] <;> grind
    · cases hs
  all_goals
    simp only [stepConn, Cfg.fixed] at hs <;> (try (split at hs)) <;> (try (split at hs)) <;> (try cases hs)
  all_goals
    (refine ⟨_, ?_, ?_, ?_, ?_, ?_, ?_, Or.inl ⟨rfl, ?_⟩⟩ <;> (try constructor) <;> simp_all [Conn.live, Conn.snapNo, Conn.inflight] <;> grind)

/-! ### global invariant -/

def Sh.pastQuit : Sh → Bool
  | .idle | .took => false
  | _ => true
def Sh.pastDetach : Sh → Bool
  | .idle | .took | .quitSent => false
  | _ => true
def Sh.pastClose : Sh → Bool
  | .idle | .took | .quitSent | .detached => false
  | _ => true
def Sh.rangingPhase : Sh → Bool
  | .ranging | .closing _ | .tearing _ | .after _ => true
  | _ => false

structure Good (s : S) : Prop where
  loc : ∀ (i : Nat) (c : Conn), s.conns[i]? = some c → c.Ok
  mapC : ∀ f i, s.map f = some i → ∃ c, s.conns[i]? = some c ∧ c.fd = f ∧ c.live
  trk : ∀ (i : Nat) (c : Conn), s.conns[i]? = some c → c.live → s.map c.fd = some i
  uniq : ∀ (i j : Nat) (c d : Conn), s.conns[i]? = some c → s.conns[j]? = some d → c.fdOpen = true → d.fdOpen = true → c.fd = d.fd → i = j
  lnc : s.sh.pastClose = true → s.lnOpen = false
  lno : s.sh.pastClose = false → s.lnOpen = true
  rel : s.sh.pastQuit = true → s.stop.isSome = true ∨ ∃ e, s.sv = .returned e
  svr : s.sh ≠ .idle → s.sv ≠ .notStarted
  infl : s.sh.rangingPhase = true → s.active = 0 → ∀ (i : Nat) (c : Conn), s.conns[i]? = some c → c.inflight = false
  cov : s.sh.rangingPhase = true → s.active = 0 → ∀ f i, s.map f = some i →
          i ∈ s.todo ∨ s.sh = .closing i ∨ s.sh = .tearing i ∨ s.sh = .after i
  nil : s.sh = .retNil → (∀ f, s.map f = none) ∧ ∀ (i : Nat) (c : Conn), s.conns[i]? = some c → c.inflight = false
  wait : (s.sh = .waiting ∨ s.sh = .retCtx) → s.active > 0
  ctx : s.sh = .retCtx → s.ctxDone = true
  idle : ∀ i, s.sh = .closing i → ∃ c : Conn, s.conns[i]? = some c ∧ c.sawIdle = true ∧ (c.apc = .stored ∨ c.apc = .done)
  todoOk : ∀ i, i ∈ s.todo → ∃ c : Conn, s.conns[i]? = some c ∧ (c.apc = .stored ∨ c.apc = .done)
  resume : s.ran = true → s.reg = true ∨ s.bk > 0 ∨ s.errQuit = true ∨ s.sh.pastDetach = true

theorem good_init : Good init := by
  constructor <;> simp [init, Sh.pastClose, Sh.pastQuit, Sh.pastDetach, Sh.rangingPhase]

theorem get_set {α : Type} {l : List α} {i j : Nat} {c c' : α} (hc : l[i]? = some c) :
    (l.set i c')[j]? = if j = i then some c' else l[j]? := by
  have hi : i < l.length := by
    rcases List.getElem?_eq_some_iff.mp hc with ⟨h, _⟩; exact h
  rw [List.getElem?_set]
  by_cases h : i = j
  · subst h; simp [hi]
  · have : ¬ j = i := fun e => h e.symm
    simp [h, this]

theorem tracked_iff {s : S} (h : Good s) (i : Nat) : s.tracked i = true ↔ ∃ f, s.map f = some i := by
  unfold S.tracked
  constructor
  · intro ht
    split at ht
    · rename_i c hc; exact ⟨c.fd, by simpa using ht⟩
    · cases ht
  · rintro ⟨f, hf⟩
    obtain ⟨c, hc, hfd, _⟩ := h.mapC f i hf
    simp [hc, hfd, hf]

/-! ### connection-level steps preserve the invariant -/

/-- generic part: connection `i` is replaced by `c'` (same descriptor number, not re-opened, not back in flight),
    the map becomes `m'` for which the four map clauses are given -/
theorem good_conn_gen {s : S} {i : Nat} {c c' : Conn} {m' : Nat → Option Nat} (h : Good s) (hc : s.conns[i]? = some c)
    (hok : c'.Ok) (hfd : c'.fd = c.fd) (hopen : c'.fdOpen = true → c.fdOpen = true)
    (hinf : c'.inflight = true → c.inflight = true) (hsaw : c.sawIdle = true → c'.sawIdle = true)
    (hapc : (c.apc = .stored ∨ c.apc = .done) → (c'.apc = .stored ∨ c'.apc = .done))
    (hmC : ∀ f j, m' f = some j → ∃ d : Conn, (if j = i then some c' else s.conns[j]?) = some d ∧ d.fd = f ∧ d.live)
    (htr : ∀ (j : Nat) (d : Conn), (if j = i then some c' else s.conns[j]?) = some d → d.live → m' d.fd = some j)
    (hcv : s.sh.rangingPhase = true → s.active = 0 → ∀ f j, m' f = some j →
            j ∈ s.todo ∨ s.sh = .closing j ∨ s.sh = .tearing j ∨ s.sh = .after j)
    (hnl : s.sh = .retNil → ∀ f, m' f = none) :
    Good { (s.setConn i c') with map := m' } := by
  have hget : ∀ j, (s.conns.set i c')[j]? = if j = i then some c' else s.conns[j]? := fun j => get_set hc
  constructor
  · intro j d hj
    simp only [S.setConn, hget] at hj
    split at hj
    · cases hj; exact hok
    · exact h.loc j d hj
  · intro f j hf
    simp only [S.setConn, hget]
    exact hmC f j hf
  · intro j d hj hl
    simp only [S.setConn, hget] at hj
    exact htr j d hj hl
  · intro j k d e hj hk hdo heo hfe
    simp only [S.setConn, hget] at hj hk
    by_cases hji : j = i <;> by_cases hki : k = i
    · rw [hji, hki]
    · simp only [hji, hki, if_true, if_false] at hj hk
      cases hj
      have := h.uniq i k c e hc hk (hopen hdo) heo (by rw [← hfd]; exact hfe)
      rw [hji]; exact this
    · simp only [hji, hki, if_true, if_false] at hj hk
      cases hk
      have := h.uniq j i d c hj hc hdo (hopen heo) (by rw [← hfd]; exact hfe)
      rw [hki]; exact this
    · simp only [hji, hki, if_false] at hj hk
      exact h.uniq j k d e hj hk hdo heo hfe
  · exact h.lnc
  · exact h.lno
  · exact h.rel
  · exact h.svr
  · intro hr ha j d hj
    simp only [S.setConn, hget] at hj
    split at hj
    · cases hj
      have := h.infl hr ha i c hc
      cases hq : c'.inflight with
      | false => rfl
      | true => rw [hinf hq] at this; cases this
    · exact h.infl hr ha j d hj
  · exact hcv
  · intro hr
    refine ⟨hnl hr, ?_⟩
    intro j d hj
    simp only [S.setConn, hget] at hj
    split at hj
    · cases hj
      have := (h.nil hr).2 i c hc
      cases hq : c'.inflight with
      | false => rfl
      | true => rw [hinf hq] at this; cases this
    · exact (h.nil hr).2 j d hj
  · exact h.wait
  · exact h.ctx
  · intro j hj
    obtain ⟨d, hd, hds, hda⟩ := h.idle j hj
    simp only [S.setConn, hget]
    by_cases hji : j = i
    · subst hji; rw [hc] at hd; cases hd; exact ⟨c', by simp, hsaw hds, hapc hda⟩
    · exact ⟨d, by simp [hji, hd], hds, hda⟩
  · intro j hj
    obtain ⟨d, hd, hda⟩ := h.todoOk j hj
    simp only [S.setConn, hget]
    by_cases hji : j = i
    · subst hji; rw [hc] at hd; cases hd; exact ⟨c', by simp, hapc hda⟩
    · exact ⟨d, by simp [hji, hd], hda⟩
  · exact h.resume

theorem good_stepConn {s s' : S} {i : Nat} {c : Conn} {a : Act} (h : Good s) (hc : s.conns[i]? = some c)
    (hs : stepConn Cfg.fixed s i c a = some s') : Good s' := by
  obtain ⟨c', hok, hfd, hopen, hinf, hsaw, hapc, hcase⟩ := stepConn_char hs (h.loc i c hc)
  have hcok := h.loc i c hc
  rcases hcase with ⟨rfl, hlive⟩ | ⟨rfl, hl', hnl, hp2, hunt⟩ | ⟨rfl, hnl', htd⟩
  · -- map untouched
    have : s.setConn i c' = { (s.setConn i c') with map := s.map } := rfl
    rw [this]
    refine good_conn_gen h hc hok hfd hopen hinf hsaw hapc ?_ ?_ h.cov (fun hr => (h.nil hr).1)
    · intro f j hf
      obtain ⟨d, hd, hdf, hdl⟩ := h.mapC f j hf
      by_cases hji : j = i
      · subst hji; rw [hc] at hd; cases hd
        exact ⟨c', by simp, by rw [hfd]; exact hdf, hlive.mpr hdl⟩
      · exact ⟨d, by simp [hji, hd], hdf, hdl⟩
    · intro j d hj hl
      by_cases hji : j = i
      · subst hji; simp at hj; subst hj
        rw [hfd]; exact h.trk j c hc (hlive.mp hl)
      · simp [hji] at hj; exact h.trk j d hj hl
  · -- Store
    have hcopen : c.fdOpen = true := by
      have hs : ¬ c.snapNo := by
        intro hsn; have := (hcok.snap hsn).2; simp [hp2] at this
      cases ho : c.fdOpen with
      | true => rfl
      | false =>
        have htd := hcok.fdc.mpr ho
        exact absurd (Or.inr ⟨Or.inr htd, hunt⟩) hs
    have hcinf : c.inflight = true := by simp [Conn.inflight, hp2]
    refine good_conn_gen h hc hok hfd hopen hinf hsaw hapc ?_ ?_ ?_ ?_
    · intro f j hf
      simp only [mapSet] at hf
      split at hf
      · cases hf; rename_i hfe; exact ⟨c', by simp, by rw [hfd, hfe], hl'⟩
      · rename_i hfe
        obtain ⟨d, hd, hdf, hdl⟩ := h.mapC f j hf
        have hji : j ≠ i := by
          intro e; subst e; rw [hc] at hd; cases hd; exact hfe hdf.symm
        exact ⟨d, by simp [hji, hd], hdf, hdl⟩
    · intro j d hj hl
      by_cases hji : j = i
      · subst hji; simp at hj; subst hj; simp [mapSet, hfd]
      · simp [hji] at hj
        have hdo := ((h.loc j d hj).live_open hl).1
        have hne : d.fd ≠ c.fd := fun e => hji (h.uniq j i d c hj hc hdo hcopen e)
        simp [mapSet, hne]; exact h.trk j d hj hl
    · intro hr ha
      have := h.infl hr ha i c hc
      rw [hcinf] at this; cases this
    · intro hr
      have := (h.nil hr).2 i c hc
      rw [hcinf] at this; cases this
  · -- untrack
    have hcopen : c.fdOpen = true := by
      cases ho : c.fdOpen with
      | true => rfl
      | false => have := hcok.fdc.mpr ho; rw [htd] at this; cases this
    refine good_conn_gen h hc hok hfd hopen hinf hsaw hapc ?_ ?_ ?_ ?_
    · intro f j hf
      simp only [mapDel] at hf
      split at hf
      · cases hf
      · rename_i hfe
        obtain ⟨d, hd, hdf, hdl⟩ := h.mapC f j hf
        have hji : j ≠ i := by
          intro e; subst e; rw [hc] at hd; cases hd; exact hfe hdf.symm
        exact ⟨d, by simp [hji, hd], hdf, hdl⟩
    · intro j d hj hl
      by_cases hji : j = i
      · subst hji; simp at hj; subst hj; exact absurd hl hnl'
      · simp [hji] at hj
        have hdo := ((h.loc j d hj).live_open hl).1
        have hne : d.fd ≠ c.fd := fun e => hji (h.uniq j i d c hj hc hdo hcopen e)
        simp [mapDel, hne]; exact h.trk j d hj hl
    · intro hr ha f j hf
      simp only [mapDel] at hf
      split at hf
      · cases hf
      · exact h.cov hr ha f j hf
    · intro hr f
      simp [mapDel, (h.nil hr).1 f]

end Netpoll.Server
