import Netpoll.ShardInv.Defs
namespace Netpoll.Shard

theorem gmisc_step (s s' : S) (a : Act) (h : GMisc s) (hs : step s a = some s') : GMisc s' := by
  obtain ⟨m1, m3, m4, m5⟩ := h
  cases a with
  | add n => simp only [step] at hs; cases hs; exact ⟨m1, m3, m4, m5⟩
  | close =>
    simp only [step] at hs; cases hs
    exact ⟨m1, m3, m4, m5⟩
  | die =>
    simp only [step] at hs; cases hs
    refine ⟨?_, m3, m4, m5⟩
    intro h; cases h
  | adder i =>
    simp only [step, stepAdder] at hs
    split at hs
    · cases hs
    · rename_i a ha
      split at hs <;> (repeat' split at hs) <;> (try cases hs) <;>
        refine ⟨?_, ?_, ?_, ?_⟩ <;> simp only [setAdder, spawnWorker, active] at * <;>
        grind
  | wk n e =>
    simp only [step, stepWorker] at hs
    split at hs <;> (repeat' split at hs) <;> (try cases hs) <;>
      refine ⟨?_, ?_, ?_, ?_⟩ <;> simp only [endDeal] at * <;> grind
  | tail pc =>
    cases pc <;> simp only [step, stepTail] at hs <;> (repeat' split at hs) <;> (try cases hs) <;>
      refine ⟨?_, ?_, ?_, ?_⟩ <;> simp only [spawnWorker] at * <;> grind
  | closer pc =>
    cases pc <;> simp only [step, stepCloser] at hs <;> (repeat' split at hs) <;> (try cases hs) <;>
      refine ⟨?_, ?_, ?_, ?_⟩ <;> simp only [enterDrained, active, closing, closed, Netpoll.Gen.c_mux_active,
        Netpoll.Gen.c_mux_closing, Netpoll.Gen.c_mux_closed] at * <;> grind

theorem gmisc_init (n : Nat) : GMisc (init n) := by
  refine ⟨?_, ?_, ?_, ?_⟩ <;> simp [init]

end Netpoll.Shard
