import Netpoll.ShardLemmas
/-!
Invariant of the ShardQueue model, split into groups (one structure field group per concern) so
that each preservation lemma only sees the clauses it needs.  `Good s` is the conjunction.
-/
namespace Netpoll.Shard

/-! ### indicator functions on adder-local states (used with `tally`) -/

/-- the adder has made shard `sh` non-empty and has not yet written its ring entry -/
def aPend (sh : Nat) (a : Adder) : Nat :=
  if a.shard = sh ∧ ((a.pc = .unlock ∧ a.wasEmpty = true) ∨ a.pc = .lLock ∨ a.pc = .lWrite) then 1 else 0
/-- ring entry written, `trigger` not yet incremented -/
def aBetw (a : Adder) : Nat := if a.pc = .lUnlock ∨ a.pc = .trig then 1 else 0
/-- holds the list lock -/
def aLL (a : Adder) : Nat := if a.pc = .lWrite ∨ a.pc = .lUnlock then 1 else 0
/-- holds the lock of shard `sh` -/
def aLk (sh : Nat) (a : Adder) : Nat := if a.shard = sh ∧ (a.pc = .append ∨ a.pc = .unlock) then 1 else 0
def aRun (a : Adder) : Nat := if a.pc = .run then 1 else 0
def aSpawn (a : Adder) : Nat := if a.pc = .spawn then 1 else 0
/-- still carries its getters -/
def aPre (a : Adder) : Bool := a.pc = .state ∨ a.pc = .idx ∨ a.pc = .lock ∨ a.pc = .append
def aGts (id : Nat) (a : Adder) : Nat := if aPre a then a.gts.count id else 0
def aEmpty (a : Adder) : Nat := if aPre a ∧ a.gts = [] then 1 else 0
/-- has a shard index that is used for indexing -/
def aBadShard (size : Nat) (a : Adder) : Nat :=
  if (a.pc = .lock ∨ a.pc = .append ∨ a.pc = .unlock ∨ a.pc = .lLock ∨ a.pc = .lWrite) ∧ size ≤ a.shard then 1 else 0
/-- not finished -/
def aLive (a : Adder) : Nat := if a.pc = .done then 0 else 1

/-! ### a new Add call counts for nothing but its getters -/

@[simp] theorem aPend_new (sh f n : Nat) : aPend sh (newAdder f n) = 0 := by
  by_cases h : n = 0 <;> simp [aPend, newAdder, h]
@[simp] theorem aBetw_new (f n : Nat) : aBetw (newAdder f n) = 0 := by
  by_cases h : n = 0 <;> simp [aBetw, newAdder, h]
@[simp] theorem aLL_new (f n : Nat) : aLL (newAdder f n) = 0 := by
  by_cases h : n = 0 <;> simp [aLL, newAdder, h]
@[simp] theorem aLk_new (sh f n : Nat) : aLk sh (newAdder f n) = 0 := by
  by_cases h : n = 0 <;> simp [aLk, newAdder, h]
@[simp] theorem aRun_new (f n : Nat) : aRun (newAdder f n) = 0 := by
  by_cases h : n = 0 <;> simp [aRun, newAdder, h]
@[simp] theorem aSpawn_new (f n : Nat) : aSpawn (newAdder f n) = 0 := by
  by_cases h : n = 0 <;> simp [aSpawn, newAdder, h]
@[simp] theorem aGts_new (id f n : Nat) : aGts id (newAdder f n) = (List.range' f n).count id := by
  by_cases h : n = 0 <;> simp [aGts, aPre, newAdder, h]
@[simp] theorem aEmpty_new (f n : Nat) : aEmpty (newAdder f n) = 0 := by
  by_cases h : n = 0
  · simp [aEmpty, aPre, newAdder, h]
  · cases n with
    | zero => contradiction
    | succ m => simp [aEmpty, aPre, newAdder, List.range'_succ]
@[simp] theorem aBadShard_new (size f n : Nat) : aBadShard size (newAdder f n) = 0 := by
  by_cases h : n = 0 <;> simp [aBadShard, newAdder, h]

/-! ### derived quantities of a state -/

/-- the loop worker has popped a ring entry and not yet counted it in `negNum` -/
def held (s : S) : Int :=
  if s.wpc = .lock ∨ s.wpc = .swap ∨ s.wpc = .unlock ∨ s.wpc = .dealCall ∨ s.wpc = .isAct ∨ s.wpc = .deal then 1 else 0
def lwA (s : S) : Nat := if s.wpc = .idle then 0 else 1
def spawnP (s : S) : Nat := tally aSpawn s.adders + s.tSpawn
/-- the loop worker is about to swap shard `sh` -/
def wHoldEntry (s : S) (sh : Nat) : Nat := if (s.wpc = .lock ∨ s.wpc = .swap) ∧ s.shared = sh then 1 else 0
/-- the loop worker holds the lock of shard `sh` -/
def wLk (s : S) (sh : Nat) : Nat := if (s.wpc = .swap ∨ s.wpc = .unlock) ∧ s.shared = sh then 1 else 0
def inSwap (s : S) (id : Nat) : Nat := if s.wpc = .unlock ∨ s.wpc = .dealCall then s.swap.count id else 0
/-- the Close call that won the CAS holds the lock of shard `sh` -/
def cLk (s : S) (sh : Nat) : Nat := if (s.cwin = some .read ∨ s.cwin = some .unlock) ∧ s.cShard = sh then 1 else 0
/-- how often getter `id` is queued or has been handled (it never leaves these places) -/
def qh (s : S) (id : Nat) : Nat :=
  s.getters.flatten.count id + inSwap s id + s.work.count id + s.skipped.count id + s.invoked.count id
/-- the shards below this index have been found empty by the `drained` call in progress (all of them once it has passed) -/
def scanned (s : S) : Nat :=
  match s.cwin with
  | some .cas => 0
  | some .lock => s.cShard
  | some .read => s.cShard
  | some .unlock => if s.cN = 0 then s.cShard + 1 else 0
  | some .trig => s.size
  | some .store => s.size
  | none => if 0 < s.closeOk then s.size else 0

/-! ### the invariant groups -/

/-- trigger accounting -/
structure GTrig (s : S) : Prop where
  t1 : (s.ring.length : Int) + held s = s.trigger + (tally aBetw s.adders : Nat) + s.negNum
  t2a : (s.wpc = .idle ∨ s.wpc = .load ∨ s.wpc = .flush ∨ s.wpc = .store) → s.negNum = 0
  t2b : (s.wpc = .rd ∨ s.wpc = .lock ∨ s.wpc = .swap ∨ s.wpc = .unlock ∨ s.wpc = .dealCall ∨ s.wpc = .isAct ∨ s.wpc = .deal) →
        0 < s.trigNum + s.negNum ∧ s.negNum ≤ 0 ∧ s.trigNum ≤ s.trigger
  t2c : s.wpc = .sub → s.trigNum + s.negNum = 0 ∧ s.negNum ≤ 0 ∧ s.trigNum ≤ s.trigger
  t3 : 0 ≤ s.trigger

/-- single loop worker, and somebody is responsible for a positive trigger -/
structure GExcl (s : S) : Prop where
  x1 : s.clash = 0
  x2 : lwA s + spawnP s ≤ 1
  x3 : s.runNum = 0 → lwA s + spawnP s = 0
  x4 : 0 < s.runNum → lwA s + spawnP s = 1
  d1 : 0 < s.trigger → 0 < lwA s + s.tRecheck + tally aRun s.adders + s.tRun + spawnP s

end Netpoll.Shard

namespace Netpoll.Shard

/-- array lengths and shard indices in range -/
structure GStruct (s : S) : Prop where
  s1 : s.list.length = s.size ∧ s.locks.length = s.size ∧ s.getters.length = s.size
  s2 : tally (aBadShard s.size) s.adders = 0
  s3 : (s.cwin = some .lock ∨ s.cwin = some .read ∨ s.cwin = some .unlock) → s.cShard < s.size

/-- lock words count their holders (so the critical sections are exclusive) -/
structure GLock (s : S) : Prop where
  l1 : ∀ (sh v : Nat), s.locks[sh]? = some v → v = tally (aLk sh) s.adders + wLk s sh + cLk s sh
  l2 : s.listLock = tally aLL s.adders
  l3 : ∀ (sh v : Nat), s.locks[sh]? = some v → v ≤ 1
  l4 : s.listLock ≤ 1

theorem shardOf_lt {i n : Nat} (hn : 0 < n) : shardOf i n < n := Nat.mod_lt _ hn

end Netpoll.Shard

namespace Netpoll.Shard

/-- the trigger ring: positions, contents (ghost FIFO `ring` = unconsumed entries) -/
structure GRing (s : S) : Prop where
  r1 : s.r = s.nRead % s.size ∧ s.w = s.nWritten % s.size
  r3 : s.nWritten = s.nRead + s.ring.length
  r4 : ∀ (k x : Nat), s.ring[k]? = some x → s.list[(s.nRead + 1 + k) % s.size]? = some x
  r5 : ∀ (x : Nat), x ∈ s.ring → x < s.size
  r6 : (s.wpc = .lock ∨ s.wpc = .swap ∨ s.wpc = .unlock) → s.shared < s.size

/-- a shard is non-empty iff exactly one trigger for it is pending (adder in flight, ring entry, or held by the worker) -/
structure GPend (s : S) : Prop where
  p0 : tally aEmpty s.adders = 0
  p1 : ∀ (sh : Nat) (g : List Nat), s.getters[sh]? = some g →
        tally (aPend sh) s.adders + s.ring.count sh + wHoldEntry s sh = (if g = [] then 0 else 1)

end Netpoll.Shard

namespace Netpoll.Shard

/-- every getter id is in exactly one place; what was invoked was appended or not; unflushed data has a flusher -/
structure GIds (s : S) : Prop where
  i0 : (s.wpc ≠ .isAct ∧ s.wpc ≠ .deal) → s.work = []
  i0' : s.wpc = .deal → s.work ≠ []
  i1 : ∀ (id : Nat), tally (aGts id) s.adders + s.getters.flatten.count id + inSwap s id + s.work.count id
         + s.ignored.count id + s.skipped.count id + s.invoked.count id
         = (if id < s.nextId then 1 else 0)
  i2 : ∀ (id : Nat), s.invoked.count id = s.notApp.count id + s.wbuf.count id + s.sent.count id
  i3 : s.alive = true → s.wbuf ≠ [] →
        (s.wpc = .rd ∨ s.wpc = .lock ∨ s.wpc = .swap ∨ s.wpc = .unlock ∨ s.wpc = .dealCall ∨ s.wpc = .isAct ∨
         s.wpc = .deal ∨ s.wpc = .sub ∨ s.wpc = .flush)

end Netpoll.Shard

namespace Netpoll.Shard

/-- small monotonicity facts -/
structure GMisc (s : S) : Prop where
  m1 : s.alive = true → s.skipped = []
  m3 : s.state = active → s.ignored = [] ∧ s.closeOk = 0 ∧ s.cwin = none ∧ s.closeSnap = []
  m4 : s.state = 0 ∨ s.state = 1 ∨ s.state = 2
  m5 : s.cwin ≠ some .cas

/-- `Close` waits: the getters that were queued when the winning `Close` did its CAS (`closeSnap`) stay
    queued or handled (`c2`), are in no shard that the `drained` call in progress has already found
    empty (`c1`), and are not with the worker any more once `drained` has seen `trigger = 0` (`c3`) -/
structure GClose (s : S) : Prop where
  c1 : ∀ (id : Nat), id ∈ s.closeSnap → ∀ (sh : Nat) (g : List Nat), sh < scanned s → s.getters[sh]? = some g → g.count id = 0
  c2 : ∀ (id : Nat), id ∈ s.closeSnap → 0 < qh s id
  c3 : (s.cwin = some .store ∨ 0 < s.closeOk) → ∀ (id : Nat), id ∈ s.closeSnap → inSwap s id + s.work.count id = 0
  c4 : 0 < s.closeOk → s.cwin = none

end Netpoll.Shard
