import Netpoll.ShardLemmas
/-!
Invariant of the ShardQueue model, split into groups (one structure field group per concern) so
that each preservation lemma only sees the clauses it needs.  `Good s` is the conjunction.
-/
namespace Netpoll.Shard

/-! ### indicator functions on adder-local states (used with `tally`) -/

/-- the adder has made shard `sh` non-empty and has not yet written its ring entry -/
def aPend (sh : Nat) (a : Adder) : Nat :=
  if a.shard = sh ∧ ((a.pc = .unlock ∧ a.wasEmpty = true) ∨ a.pc = .lLock ∨ a.pc = .lWrite) then 1 else 0
/-- ring entry written, `trigger` not yet incremented -/
def aBetw (a : Adder) : Nat := if a.pc = .lUnlock ∨ a.pc = .trig then 1 else 0
/-- holds the list lock -/
def aLL (a : Adder) : Nat := if a.pc = .lWrite ∨ a.pc = .lUnlock then 1 else 0
/-- holds the lock of shard `sh` -/
def aLk (sh : Nat) (a : Adder) : Nat := if a.shard = sh ∧ (a.pc = .append ∨ a.pc = .unlock) then 1 else 0
def aRun (a : Adder) : Nat := if a.pc = .run then 1 else 0
def aSpawn (a : Adder) : Nat := if a.pc = .spawn then 1 else 0
/-- still carries its getters -/
def aPre (a : Adder) : Bool := a.pc = .state ∨ a.pc = .idx ∨ a.pc = .lock ∨ a.pc = .append
def aGts (id : Nat) (a : Adder) : Nat := if aPre a then a.gts.count id else 0
def aEmpty (a : Adder) : Nat := if aPre a ∧ a.gts = [] then 1 else 0
/-- has a shard index that is used for indexing -/
def aBadShard (size : Nat) (a : Adder) : Nat :=
  if (a.pc = .lock ∨ a.pc = .append ∨ a.pc = .unlock ∨ a.pc = .lLock ∨ a.pc = .lWrite) ∧ size ≤ a.shard then 1 else 0
/-- not finished -/
def aLive (a : Adder) : Nat := if a.pc = .done ∨ a.pc = .panicked then 0 else 1

/-! ### derived quantities of a state -/

/-- the loop worker has popped a ring entry and not yet counted it in `negNum` -/
def held (s : S) : Int :=
  if s.wpc = .lock ∨ s.wpc = .swap ∨ s.wpc = .unlock ∨ s.wpc = .dealCall ∨ s.wpc = .isAct ∨ s.wpc = .deal then 1 else 0
def lwA (s : S) : Nat := if s.wpc = .idle then 0 else 1
def spawnP (s : S) : Nat := tally aSpawn s.adders + s.tSpawn
/-- the loop worker is about to swap shard `sh` -/
def wHoldEntry (s : S) (sh : Nat) : Nat := if (s.wpc = .lock ∨ s.wpc = .swap) ∧ s.shared = sh then 1 else 0
/-- the loop worker holds the lock of shard `sh` -/
def wLk (s : S) (sh : Nat) : Nat := if (s.wpc = .swap ∨ s.wpc = .unlock) ∧ s.shared = sh then 1 else 0
def inSwap (s : S) (id : Nat) : Nat := if s.wpc = .unlock ∨ s.wpc = .dealCall then s.swap.count id else 0

/-! ### the invariant groups -/

/-- trigger accounting -/
structure GTrig (s : S) : Prop where
  t1 : (s.ring.length : Int) + held s = s.trigger + (tally aBetw s.adders : Nat) + s.negNum
  t2a : (s.wpc = .idle ∨ s.wpc = .load ∨ s.wpc = .flush ∨ s.wpc = .store) → s.negNum = 0
  t2b : (s.wpc = .rd ∨ s.wpc = .lock ∨ s.wpc = .swap ∨ s.wpc = .unlock ∨ s.wpc = .dealCall ∨ s.wpc = .isAct ∨ s.wpc = .deal) →
        0 < s.trigNum + s.negNum ∧ s.negNum ≤ 0 ∧ s.trigNum ≤ s.trigger
  t2c : s.wpc = .sub → s.trigNum + s.negNum = 0 ∧ s.negNum ≤ 0 ∧ s.trigNum ≤ s.trigger
  t3 : 0 ≤ s.trigger

/-- single loop worker, and somebody is responsible for a positive trigger -/
structure GExcl (s : S) : Prop where
  x1 : s.clash = 0
  x2 : lwA s + spawnP s ≤ 1
  x3 : s.runNum = 0 → lwA s + spawnP s = 0
  x4 : 0 < s.runNum → lwA s + spawnP s = 1
  d1 : 0 < s.trigger → 0 < lwA s + s.tRecheck + tally aRun s.adders + s.tRun + spawnP s

end Netpoll.Shard

namespace Netpoll.Shard

/-- array lengths and shard indices in range -/
structure GStruct (s : S) : Prop where
  s1 : s.list.length = s.size ∧ s.locks.length = s.size ∧ s.getters.length = s.size
  s2 : tally (aBadShard s.size) s.adders = 0

/-- lock words count their holders (so the critical sections are exclusive) -/
structure GLock (s : S) : Prop where
  l1 : ∀ (sh v : Nat), s.locks[sh]? = some v → v = tally (aLk sh) s.adders + wLk s sh
  l2 : s.listLock = tally aLL s.adders
  l3 : ∀ (sh v : Nat), s.locks[sh]? = some v → v ≤ 1
  l4 : s.listLock ≤ 1

theorem shardOf_lt {i n sh : Nat} (hn : 0 < n) (h : shardOf i n = some sh) : sh < n := by
  simp only [shardOf] at h
  split at h
  · cases h
  · rename_i hneg
    cases h
    have h1 : Int.tmod (wrap32 i) (n : Int) < (n : Int) := Int.tmod_lt_of_pos _ (by omega)
    omega

end Netpoll.Shard

namespace Netpoll.Shard

/-- the trigger ring: positions, contents (ghost FIFO `ring` = unconsumed entries) -/
structure GRing (s : S) : Prop where
  r1 : s.r = s.nRead % s.size ∧ s.w = s.nWritten % s.size
  r3 : s.nWritten = s.nRead + s.ring.length
  r4 : ∀ (k x : Nat), s.ring[k]? = some x → s.list[(s.nRead + 1 + k) % s.size]? = some x
  r5 : ∀ (x : Nat), x ∈ s.ring → x < s.size
  r6 : (s.wpc = .lock ∨ s.wpc = .swap ∨ s.wpc = .unlock) → s.shared < s.size

/-- a shard is non-empty iff exactly one trigger for it is pending (adder in flight, ring entry, or held by the worker) -/
structure GPend (s : S) : Prop where
  p0 : tally aEmpty s.adders = 0
  p1 : ∀ (sh : Nat) (g : List Nat), s.getters[sh]? = some g →
        tally (aPend sh) s.adders + s.ring.count sh + wHoldEntry s sh = (if g = [] then 0 else 1)

end Netpoll.Shard

namespace Netpoll.Shard

/-- every getter id is in exactly one place; what was invoked was appended or not; unflushed data has a flusher -/
structure GIds (s : S) : Prop where
  i0 : (s.wpc ≠ .isAct ∧ s.wpc ≠ .deal) → s.work = []
  i0' : s.wpc = .deal → s.work ≠ []
  i1 : ∀ (id : Nat), tally (aGts id) s.adders + s.getters.flatten.count id + inSwap s id + s.work.count id
         + s.ignored.count id + s.lost.count id + s.skipped.count id + s.invoked.count id
         = (if id < s.nextId then 1 else 0)
  i2 : ∀ (id : Nat), s.invoked.count id = s.notApp.count id + s.wbuf.count id + s.sent.count id
  i3 : s.alive = true → s.wbuf ≠ [] →
        (s.wpc = .rd ∨ s.wpc = .lock ∨ s.wpc = .swap ∨ s.wpc = .unlock ∨ s.wpc = .dealCall ∨ s.wpc = .isAct ∨
         s.wpc = .deal ∨ s.wpc = .sub ∨ s.wpc = .flush)

end Netpoll.Shard

namespace Netpoll.Shard

/-- small monotonicity facts -/
structure GMisc (s : S) : Prop where
  m1 : s.alive = true → s.skipped = []
  m2 : s.idx < 2147483648 → s.lost = [] ∧ s.panics = 0
  m3 : s.state = active → s.ignored = [] ∧ s.closeOk = 0 ∧ s.cState + s.cTrig + s.cStore = 0
  m4 : s.state = 0 ∨ s.state = 1 ∨ s.state = 2

theorem wrap32_of_lt {i : Nat} (hi : i < 2147483648) : wrap32 i = (i : Int) := by
  have h1 : i % 4294967296 = i := Nat.mod_eq_of_lt (by omega)
  simp only [wrap32, h1, hi, if_true]

theorem shardOf_some_of_lt {i n : Nat} (hi : i < 2147483648) : shardOf i n ≠ none := by
  have : (0 : Int) ≤ Int.tmod (i : Int) (n : Int) := Int.tmod_nonneg _ (by omega)
  simp only [shardOf, wrap32_of_lt hi]
  split
  · omega
  · simp

end Netpoll.Shard
