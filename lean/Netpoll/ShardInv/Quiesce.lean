import Netpoll.ShardInv.Good
/-! What a quiescent state (no actor of the queue can move) looks like: nobody is in flight. -/
namespace Netpoll.Shard

theorem adder_shard_lt (s : S) (hG : Good s) (i : Nat) (a : Adder) (ha : s.adders[i]? = some a)
    (hpc : a.pc = .lock ∨ a.pc = .append ∨ a.pc = .unlock ∨ a.pc = .lLock ∨ a.pc = .lWrite) : a.shard < s.size := by
  have h1 := tally_ge (aBadShard s.size) ha
  have h2 := hG.st.s2
  simp only [aBadShard] at h1
  by_cases h : s.size ≤ a.shard
  · simp [hpc, h] at h1; omega
  · omega

/-- every adder that is neither finished nor waiting for a lock can take its step -/
theorem adder_enabled (s : S) (hG : Good s) (hsz : 0 < s.size) (i : Nat) (a : Adder) (ha : s.adders[i]? = some a)
    (h1 : a.pc ≠ .done) (h2 : a.pc ≠ .panicked) (h3 : a.pc ≠ .lock) (h4 : a.pc ≠ .lLock) :
    stepAdder s i ≠ none := by
  have hlt := adder_shard_lt s hG i a ha
  have hlen := hG.st.s1.2.2
  simp only [stepAdder, ha]
  cases hpc : a.pc <;> simp_all <;> (repeat' split) <;> simp_all
  all_goals omega

theorem worker_enabled (s : S) (hG : Good s) (hc : s.emptyAdds = 0) (hsz : 0 < s.size) (n e : Bool)
    (h1 : s.wpc ≠ .idle) (h2 : s.wpc ≠ .lock) : stepWorker s n e ≠ none := by
  obtain ⟨hR, _⟩ := hG.rp hc
  have hl := hG.st.s1
  have hr6 := hR.r6
  have hi := hG.ids.i0'
  simp only [stepWorker]
  cases hpc : s.wpc <;> simp_all <;> (repeat' split) <;> simp_all
  have := Nat.mod_lt (s.r + 1) hsz
  omega

/-- in a quiescent state of an in-contract execution every Add call has returned (or panicked) -/
theorem quiescent_adders (s : S) (hG : Good s) (hc : s.emptyAdds = 0) (hsz : 0 < s.size) (hq : QuiescentQ s)
    (i : Nat) (a : Adder) (ha : s.adders[i]? = some a) : a.pc = .done ∨ a.pc = .panicked := by
  apply Classical.byContradiction
  intro hnd
  have hnone : stepAdder s i = none := hq (.adder i) rfl
  by_cases hlock : a.pc = .lock
  · -- blocked on a shard lock: its holder can move
    have hlt := adder_shard_lt s hG i a ha (Or.inl hlock)
    have hv : ∃ v, s.locks[a.shard]? = some v := ⟨s.locks[a.shard]'(by have := hG.st.s1.2.1; omega),
      List.getElem?_eq_getElem (by have := hG.st.s1.2.1; omega)⟩
    obtain ⟨v, hv⟩ := hv
    have hv0 : v ≠ 0 := by
      intro h0
      simp [stepAdder, ha, hlock, hv, h0] at hnone
    have hl1 := hG.lk.l1 a.shard v hv
    by_cases ht : 0 < tally (aLk a.shard) s.adders
    · obtain ⟨j, b, hb, hpos⟩ := exists_of_tally_pos _ ht
      have hbpc : b.pc = .append ∨ b.pc = .unlock := by
        simp only [aLk] at hpos
        split at hpos
        · rename_i h; exact h.2
        · omega
      have := adder_enabled s hG hsz j b hb (by cases hbpc <;> simp_all) (by cases hbpc <;> simp_all)
        (by cases hbpc <;> simp_all) (by cases hbpc <;> simp_all)
      exact this (hq (.adder j) rfl)
    · have hw : 0 < wLk s a.shard := by omega
      simp only [wLk] at hw
      split at hw
      · rename_i h
        have := worker_enabled s hG hc hsz false false (by cases h.1 <;> simp_all) (by cases h.1 <;> simp_all)
        exact this (hq (.wk false false) rfl)
      · omega
  · by_cases hll : a.pc = .lLock
    · have hv0 : s.listLock ≠ 0 := by
        intro h0
        simp [stepAdder, ha, hll, h0] at hnone
      have hl2 := hG.lk.l2
      have ht : 0 < tally aLL s.adders := by omega
      obtain ⟨j, b, hb, hpos⟩ := exists_of_tally_pos _ ht
      have hbpc : b.pc = .lWrite ∨ b.pc = .lUnlock := by
        simp only [aLL] at hpos
        split at hpos
        · assumption
        · omega
      have := adder_enabled s hG hsz j b hb (by cases hbpc <;> simp_all) (by cases hbpc <;> simp_all)
        (by cases hbpc <;> simp_all) (by cases hbpc <;> simp_all)
      exact this (hq (.adder j) rfl)
    · have := adder_enabled s hG hsz i a ha (fun h => hnd (Or.inl h)) (fun h => hnd (Or.inr h)) hlock hll
      exact this hnone

/-- … and no loop worker exists -/
theorem quiescent_worker (s : S) (hG : Good s) (hc : s.emptyAdds = 0) (hsz : 0 < s.size) (hq : QuiescentQ s) :
    s.wpc = .idle := by
  apply Classical.byContradiction
  intro hni
  have hnone : stepWorker s false false = none := hq (.wk false false) rfl
  by_cases hlock : s.wpc = .lock
  · obtain ⟨hR, _⟩ := hG.rp hc
    have hlt := hR.r6 (Or.inl hlock)
    have hv : ∃ v, s.locks[s.shared]? = some v := ⟨s.locks[s.shared]'(by have := hG.st.s1.2.1; omega),
      List.getElem?_eq_getElem (by have := hG.st.s1.2.1; omega)⟩
    obtain ⟨v, hv⟩ := hv
    have hv0 : v ≠ 0 := by
      intro h0
      simp [stepWorker, hlock, hv, h0] at hnone
    have hl1 := hG.lk.l1 s.shared v hv
    have hw : wLk s s.shared = 0 := by simp [wLk, hlock]
    have ht : 0 < tally (aLk s.shared) s.adders := by omega
    obtain ⟨j, b, hb, hpos⟩ := exists_of_tally_pos _ ht
    have hbpc : b.pc = .append ∨ b.pc = .unlock := by
      simp only [aLk] at hpos
      split at hpos
      · rename_i h; exact h.2
      · omega
    have := adder_enabled s hG hsz j b hb (by cases hbpc <;> simp_all) (by cases hbpc <;> simp_all)
      (by cases hbpc <;> simp_all) (by cases hbpc <;> simp_all)
    exact this (hq (.adder j) rfl)
  · exact worker_enabled s hG hc hsz false false hni hlock hnone

theorem quiescentQ_of_quiescent (s : S) (hq : Quiescent s) : QuiescentQ s := by
  intro a ha
  apply hq
  cases a <;> simp_all [Act.isQueue, Act.isEnv]

/-- … nor tail workers -/
theorem quiescent_tails (s : S) (hq : QuiescentQ s) :
    s.tRecheck = 0 ∧ s.tRun = 0 ∧ s.tSpawn = 0 ∧ s.tCas = 0 := by
  have h1 := hq (.tail .recheck) rfl
  have h2 := hq (.tail .run) rfl
  have h3 := hq (.tail .spawn) rfl
  have h4 := hq (.tail .cas) rfl
  simp only [step, stepTail] at h1 h2 h3 h4
  refine ⟨?_, ?_, ?_, ?_⟩ <;> apply Classical.byContradiction <;> intro hne <;> simp [hne] at * <;>
    (repeat' split at *) <;> simp_all

/-- … nor Close calls in flight -/
theorem quiescent_closers (s : S) (hq : Quiescent s) :
    s.cCas = 0 ∧ s.cState = 0 ∧ s.cTrig = 0 ∧ s.cStore = 0 := by
  have h5 := hq (.closer .cas) rfl
  have h6 := hq (.closer .state) rfl
  have h7 := hq (.closer .trig) rfl
  have h8 := hq (.closer .store) rfl
  simp only [step, stepCloser] at h5 h6 h7 h8
  refine ⟨?_, ?_, ?_, ?_⟩ <;> apply Classical.byContradiction <;> intro hne <;> simp [hne] at * <;>
    (repeat' split at *) <;> simp_all

end Netpoll.Shard
