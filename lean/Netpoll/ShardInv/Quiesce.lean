import Netpoll.ShardInv.Good
/-! What a quiescent state (no actor of the queue can move) looks like: nobody is in flight. -/
namespace Netpoll.Shard

theorem adder_shard_lt (s : S) (hG : Good s) (i : Nat) (a : Adder) (ha : s.adders[i]? = some a)
    (hpc : a.pc = .lock ∨ a.pc = .append ∨ a.pc = .unlock ∨ a.pc = .lLock ∨ a.pc = .lWrite) : a.shard < s.size := by
  have h1 := tally_ge (aBadShard s.size) ha
  have h2 := hG.st.s2
  simp only [aBadShard] at h1
  by_cases h : s.size ≤ a.shard
  · simp [hpc, h] at h1; omega
  · omega

/-- every adder that is neither finished nor waiting for a lock can take its step -/
theorem adder_enabled (s : S) (hG : Good s) (hsz : 0 < s.size) (i : Nat) (a : Adder) (ha : s.adders[i]? = some a)
    (h1 : a.pc ≠ .done) (h3 : a.pc ≠ .lock) (h4 : a.pc ≠ .lLock) :
    stepAdder s i ≠ none := by
  have hlt := adder_shard_lt s hG i a ha
  have hlen := hG.st.s1.2.2
  simp only [stepAdder, ha]
  cases hpc : a.pc <;> simp_all <;> (repeat' split) <;> (try simp_all) <;> (try omega)

theorem worker_enabled (s : S) (hG : Good s) (hsz : 0 < s.size) (n e : Bool)
    (h1 : s.wpc ≠ .idle) (h2 : s.wpc ≠ .lock) : stepWorker s n e ≠ none := by
  have hR := hG.rg
  have hl := hG.st.s1
  have hr6 := hR.r6
  have hi := hG.ids.i0'
  simp only [stepWorker]
  cases hpc : s.wpc <;> simp_all <;> (repeat' split) <;> simp_all
  have := Nat.mod_lt (s.r + 1) hsz
  omega

/-- the Close call inside a shard's critical section can take its step -/
theorem closer_enabled (s : S) (hG : Good s) (sh : Nat) (h : 0 < cLk s sh) :
    step s (.closer .read) ≠ none ∨ step s (.closer .unlock) ≠ none := by
  simp only [cLk] at h
  split at h
  · rename_i hc
    rcases hc.1 with hr | hu
    · left
      have hlt := hG.st.s3 (Or.inr (Or.inl hr))
      have hlen := hG.st.s1.2.2
      have hg : s.getters[s.cShard]? = some (s.getters[s.cShard]'(by omega)) := List.getElem?_eq_getElem (by omega)
      simp [step, stepCloser, hr, hg]
    · right
      simp only [step, stepCloser, hu]
      (repeat' split) <;> simp_all
  · omega

/-- a held shard lock has a holder that can move: no state with a held lock is quiescent -/
theorem lock_free_of_quiescent (s : S) (hG : Good s) (hsz : 0 < s.size) (hq : QuiescentQ s) (sh v : Nat)
    (hv : s.locks[sh]? = some v) : v = 0 := by
  apply Classical.byContradiction
  intro hv0
  have hl1 := hG.lk.l1 sh v hv
  by_cases ht : 0 < tally (aLk sh) s.adders
  · obtain ⟨j, b, hb, hpos⟩ := exists_of_tally_pos _ ht
    have hbpc : b.pc = .append ∨ b.pc = .unlock := by
      simp only [aLk] at hpos
      split at hpos
      · rename_i h; exact h.2
      · omega
    have := adder_enabled s hG hsz j b hb (by cases hbpc <;> simp_all)
      (by cases hbpc <;> simp_all) (by cases hbpc <;> simp_all)
    exact this (hq (.adder j) rfl)
  · by_cases hw : 0 < wLk s sh
    · simp only [wLk] at hw
      split at hw
      · rename_i h
        have := worker_enabled s hG hsz false false (by cases h.1 <;> simp_all) (by cases h.1 <;> simp_all)
        exact this (hq (.wk false false) rfl)
      · omega
    · have hc : 0 < cLk s sh := by omega
      rcases closer_enabled s hG sh hc with h | h
      · exact h (hq (.closer .read) rfl)
      · exact h (hq (.closer .unlock) rfl)

/-- in a quiescent state every Add call has returned -/
theorem quiescent_adders (s : S) (hG : Good s) (hsz : 0 < s.size) (hq : QuiescentQ s)
    (i : Nat) (a : Adder) (ha : s.adders[i]? = some a) : a.pc = .done := by
  apply Classical.byContradiction
  intro hnd
  have hnone : stepAdder s i = none := hq (.adder i) rfl
  by_cases hlock : a.pc = .lock
  · -- blocked on a shard lock: its holder can move
    have hlt := adder_shard_lt s hG i a ha (Or.inl hlock)
    have hv : ∃ v, s.locks[a.shard]? = some v := ⟨s.locks[a.shard]'(by have := hG.st.s1.2.1; omega),
      List.getElem?_eq_getElem (by have := hG.st.s1.2.1; omega)⟩
    obtain ⟨v, hv⟩ := hv
    have hv0 : v ≠ 0 := by
      intro h0
      simp [stepAdder, ha, hlock, hv, h0] at hnone
    exact hv0 (lock_free_of_quiescent s hG hsz hq a.shard v hv)
  · by_cases hll : a.pc = .lLock
    · have hv0 : s.listLock ≠ 0 := by
        intro h0
        simp [stepAdder, ha, hll, h0] at hnone
      have hl2 := hG.lk.l2
      have ht : 0 < tally aLL s.adders := by omega
      obtain ⟨j, b, hb, hpos⟩ := exists_of_tally_pos _ ht
      have hbpc : b.pc = .lWrite ∨ b.pc = .lUnlock := by
        simp only [aLL] at hpos
        split at hpos
        · assumption
        · omega
      have := adder_enabled s hG hsz j b hb (by cases hbpc <;> simp_all)
        (by cases hbpc <;> simp_all) (by cases hbpc <;> simp_all)
      exact this (hq (.adder j) rfl)
    · have := adder_enabled s hG hsz i a ha hnd hlock hll
      exact this hnone

/-- … and no loop worker exists -/
theorem quiescent_worker (s : S) (hG : Good s) (hsz : 0 < s.size) (hq : QuiescentQ s) :
    s.wpc = .idle := by
  apply Classical.byContradiction
  intro hni
  have hnone : stepWorker s false false = none := hq (.wk false false) rfl
  by_cases hlock : s.wpc = .lock
  · have hlt := hG.rg.r6 (Or.inl hlock)
    have hv : ∃ v, s.locks[s.shared]? = some v := ⟨s.locks[s.shared]'(by have := hG.st.s1.2.1; omega),
      List.getElem?_eq_getElem (by have := hG.st.s1.2.1; omega)⟩
    obtain ⟨v, hv⟩ := hv
    have hv0 : v ≠ 0 := by
      intro h0
      simp [stepWorker, hlock, hv, h0] at hnone
    exact hv0 (lock_free_of_quiescent s hG hsz hq s.shared v hv)
  · exact worker_enabled s hG hsz false false hni hlock hnone

theorem quiescentQ_of_quiescent (s : S) (hq : Quiescent s) : QuiescentQ s := by
  intro a ha
  apply hq
  cases a <;> simp_all [Act.isWork, Act.isEnv]

/-- … nor tail workers -/
theorem quiescent_tails (s : S) (hq : QuiescentQ s) :
    s.tRecheck = 0 ∧ s.tRun = 0 ∧ s.tSpawn = 0 := by
  have h1 := hq (.tail .recheck) rfl
  have h2 := hq (.tail .run) rfl
  have h3 := hq (.tail .spawn) rfl
  simp only [step, stepTail] at h1 h2 h3
  refine ⟨?_, ?_, ?_⟩ <;> apply Classical.byContradiction <;> intro hne <;> simp [hne] at * <;>
    (repeat' split at *) <;> simp_all

/-- … nor Close calls in flight -/
theorem quiescent_closers (s : S) (hG : Good s) (hsz : 0 < s.size) (hq : Quiescent s) :
    s.cCas = 0 ∧ s.cwin = none := by
  have hQ := quiescentQ_of_quiescent s hq
  have h5 := hq (.closer .cas) rfl
  have h6 := hq (.closer .lock) rfl
  have h7 := hq (.closer .read) rfl
  have h8 := hq (.closer .unlock) rfl
  have h9 := hq (.closer .trig) rfl
  have h10 := hq (.closer .store) rfl
  have m5 := hG.ms.m5
  constructor
  · apply Classical.byContradiction; intro hne
    simp only [step, stepCloser, hne] at h5
    (repeat' split at h5) <;> simp_all
  · cases hw : s.cwin with
    | none => rfl
    | some pc =>
      exfalso
      cases pc with
      | cas => exact m5 hw
      | lock =>
        have hlt := hG.st.s3 (Or.inl hw)
        have hv : ∃ v, s.locks[s.cShard]? = some v := ⟨s.locks[s.cShard]'(by have := hG.st.s1.2.1; omega),
          List.getElem?_eq_getElem (by have := hG.st.s1.2.1; omega)⟩
        obtain ⟨v, hv⟩ := hv
        have := lock_free_of_quiescent s hG hsz hQ s.cShard v hv
        subst this
        simp [step, stepCloser, hw, hv] at h6
      | read =>
        rcases closer_enabled s hG s.cShard (by simp [cLk, hw]) with h | h
        · exact h h7
        · exact h h8
      | unlock =>
        rcases closer_enabled s hG s.cShard (by simp [cLk, hw]) with h | h
        · exact h h7
        · exact h h8
      | trig =>
        simp only [step, stepCloser, hw] at h9
        (repeat' split at h9) <;> simp_all
      | store => simp [step, stepCloser, hw] at h10

end Netpoll.Shard
