import Netpoll.ShardInv.Defs
namespace Netpoll.Shard

theorem step_size (s s' : S) (a : Act) (hs : step s a = some s') : s'.size = s.size := by
  cases a with
  | add n => simp only [step] at hs; cases hs; rfl
  | close => simp only [step] at hs; cases hs; rfl
  | die => simp only [step] at hs; cases hs; rfl
  | adder i =>
    simp only [step, stepAdder] at hs
    (repeat' split at hs) <;> (try cases hs) <;> simp [setAdder, spawnWorker] <;> (try split) <;> rfl
  | wk n e =>
    simp only [step, stepWorker] at hs
    (repeat' split at hs) <;> (try cases hs) <;> simp [endDeal] <;> (try split) <;> rfl
  | tail pc =>
    cases pc <;> simp only [step, stepTail] at hs <;>
    (repeat' split at hs) <;> (try cases hs) <;> simp [spawnWorker] <;> (try split) <;> rfl
  | closer pc =>
    cases pc <;> simp only [step, stepCloser] at hs <;>
    (repeat' split at hs) <;> (try cases hs) <;> simp [enterDrained]

theorem gstruct_step (s s' : S) (a : Act) (h : GStruct s) (hs : step s a = some s') : GStruct s' := by
  obtain ⟨s1, s2, s3⟩ := h
  cases a with
  | add n =>
    simp only [step] at hs; cases hs
    constructor <;> simp_all [tally_snoc]
  | close => simp only [step] at hs; cases hs; constructor <;> simp_all
  | die => simp only [step] at hs; cases hs; constructor <;> simp_all
  | adder i =>
    simp only [step, stepAdder] at hs
    split at hs
    · cases hs
    · rename_i a ha
      have hb := tally_set (aBadShard s.size) (l := s.adders) (i := i) (a := a)
      have hb' := tally_ge (aBadShard s.size) ha
      split at hs <;> (repeat' split at hs) <;> (try cases hs) <;>
        constructor <;> simp only [setAdder, spawnWorker, aBadShard] at * <;>
        (try (have := @shardOf_lt (s.idx + 1) s.size)) <;> grind
  | wk n e =>
    simp only [step, stepWorker] at hs
    split at hs <;> (repeat' split at hs) <;> (try cases hs) <;>
      constructor <;> simp only [endDeal] at * <;> grind
  | tail pc =>
    cases pc <;> simp only [step, stepTail] at hs <;> (repeat' split at hs) <;> (try cases hs) <;>
      constructor <;> simp only [spawnWorker] at * <;> grind
  | closer pc =>
    cases pc <;> simp only [step, stepCloser] at hs <;> (repeat' split at hs) <;> (try cases hs) <;>
      constructor <;> simp only [enterDrained] at * <;> grind

theorem gstruct_init (n : Nat) : GStruct (init n) := by
  constructor <;> simp [init]

theorem glock_step (s s' : S) (a : Act) (h : GLock s) (hM : GMisc s) (hs : step s a = some s') : GLock s' := by
  obtain ⟨l1, l2, l3, l4⟩ := h
  have hm3 := hM.m3
  cases a with
  | add n =>
    simp only [step] at hs; cases hs
    constructor
    · intro sh v hv; have := l1 sh v hv; simp_all [tally_snoc, wLk, cLk]
    · simp_all [tally_snoc]
    · exact l3
    · exact l4
  | close => simp only [step] at hs; cases hs; exact ⟨l1, l2, l3, l4⟩
  | die => simp only [step] at hs; cases hs; exact ⟨l1, l2, l3, l4⟩
  | adder i =>
    simp only [step, stepAdder] at hs
    split at hs
    · cases hs
    · rename_i a ha
      have hb := tally_set aLL (l := s.adders) (i := i) (a := a)
      have hb' := tally_ge aLL ha
      split at hs <;> (repeat' split at hs) <;> (try cases hs) <;> constructor <;>
        (try (intro sh v hv
              have hc := tally_set (aLk sh) (l := s.adders) (i := i) (a := a)
              have hc' := tally_ge (aLk sh) ha
              have hl := l1 sh; have hl3 := l3 sh)) <;>
        simp only [setAdder, spawnWorker, aLL, aLk, wLk, cLk] at * <;> grind
  | wk n e =>
    simp only [step, stepWorker] at hs
    split at hs <;> (repeat' split at hs) <;> (try cases hs) <;> constructor <;>
      (try (intro sh v hv; have hl := l1 sh; have hl3 := l3 sh)) <;>
      simp only [endDeal, wLk, cLk] at * <;> grind
  | tail pc =>
    cases pc <;> simp only [step, stepTail] at hs <;> (repeat' split at hs) <;> (try cases hs) <;>
      constructor <;> (try (intro sh v hv; have hl := l1 sh; have hl3 := l3 sh)) <;>
      simp only [spawnWorker, wLk, cLk] at * <;> grind
  | closer pc =>
    cases pc <;> simp only [step, stepCloser] at hs <;> (repeat' split at hs) <;> (try cases hs) <;>
      constructor <;> (try (intro sh v hv; have hl := l1 sh; have hl3 := l3 sh; have hlc := l1 s.cShard; have hlc3 := l3 s.cShard)) <;>
      simp only [wLk, cLk, enterDrained] at * <;> grind

theorem glock_init (n : Nat) : GLock (init n) := by
  constructor
  · intro sh v hv
    simp [init, wLk, cLk, List.getElem?_replicate] at *
    omega
  · simp [init]
  · intro sh v hv
    simp [init, List.getElem?_replicate] at *
    omega
  · simp [init]

end Netpoll.Shard
