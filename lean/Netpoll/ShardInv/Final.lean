import Netpoll.ShardInv.Quiesce
/-! Consequences of the invariant in states where nobody is in flight. -/
namespace Netpoll.Shard

theorem flatten_nil_of_all_nil (l : List (List Nat)) (h : ∀ (i : Nat) (g : List Nat), l[i]? = some g → g = []) :
    l.flatten = [] := by
  induction l with
  | nil => rfl
  | cons x l ih =>
    have hx : x = [] := h 0 x (by simp)
    have : l.flatten = [] := ih (fun i g hg => h (i + 1) g (by simpa using hg))
    simp [hx, this]

/-- adders that are before their state check or finished contribute nothing to the tallies -/
theorem tally_zero_of_idle {f : Adder → Nat} (s : S)
    (hf : ∀ a : Adder, (a.pc = .state ∨ a.pc = .done) → f a = 0)
    (hall : ∀ (i : Nat) (a : Adder), s.adders[i]? = some a → a.pc = .state ∨ a.pc = .done) :
    tally f s.adders = 0 :=
  tally_eq_zero f (fun i a ha => hf a (hall i a ha))

/-- when `trigger = 0` and no Add call is between its state check and its return, the ring and all
    shards are empty, the worker holds nothing, and every getter id is accounted for outside the queue -/
theorem idle_all_handled (s : S) (hG : Good s) (ht : s.trigger = 0)
    (hall : ∀ (i : Nat) (a : Adder), s.adders[i]? = some a → a.pc = .state ∨ a.pc = .done) :
    s.ring = [] ∧ (∀ (sh : Nat) (g : List Nat), s.getters[sh]? = some g → g = []) ∧ s.work = [] ∧
    (∀ id : Nat, tally (aGts id) s.adders + s.ignored.count id + s.skipped.count id
        + s.invoked.count id = if id < s.nextId then 1 else 0) := by
  have hR := hG.rg
  have hP := hG.pd
  have hb : tally aBetw s.adders = 0 := tally_zero_of_idle s (by intro a h; simp [aBetw]; rcases h with h | h <;> simp [h]) hall
  have t1 := hG.tr.t1
  have t2a := hG.tr.t2a
  have t2b := hG.tr.t2b
  have t2c := hG.tr.t2c
  -- the worker is not between popping an entry and counting it
  have hnh : ¬ (s.wpc = .rd ∨ s.wpc = .lock ∨ s.wpc = .swap ∨ s.wpc = .unlock ∨ s.wpc = .dealCall ∨
      s.wpc = .isAct ∨ s.wpc = .deal) := by
    intro h; have := t2b h; omega
  have hheld : held s = 0 := by
    simp only [held]; split
    · rename_i h; exfalso; apply hnh; rcases h with h | h | h | h | h | h <;> simp [h]
    · rfl
  have hneg : s.negNum ≤ 0 := by
    cases hw : s.wpc <;> simp_all
  have hring : s.ring = [] := by
    rw [hheld, hb, ht] at t1
    have : s.ring.length = 0 := by omega
    exact List.eq_nil_of_length_eq_zero this
  have hempty : ∀ (sh : Nat) (g : List Nat), s.getters[sh]? = some g → g = [] := by
    intro sh g hg
    have hp := hP.p1 sh g hg
    have h1 : tally (aPend sh) s.adders = 0 :=
      tally_zero_of_idle s (by intro a h; simp [aPend]; rcases h with h | h <;> simp [h]) hall
    have h2 : wHoldEntry s sh = 0 := by
      simp only [wHoldEntry]; split
      · rename_i h; exfalso; apply hnh; rcases h.1 with h | h <;> simp [h]
      · rfl
    rw [h1, h2, hring] at hp
    simp at hp
    exact hp
  have hwork : s.work = [] := by
    apply hG.ids.i0
    constructor <;> intro h <;> apply hnh <;> simp [h]
  refine ⟨hring, hempty, hwork, ?_⟩
  intro id
  have hi := hG.ids.i1 id
  have h3 : inSwap s id = 0 := by
    simp only [inSwap]; split
    · rename_i h; exfalso; apply hnh; rcases h with h | h <;> simp [h]
    · rfl
  rw [flatten_nil_of_all_nil s.getters hempty, h3, hwork] at hi
  simpa using hi

/-- nothing pending once no Add call and no worker can move, in an in-contract execution -/
theorem quiescent_settled (s : S) (hG : Good s) (hc : InContract s) (hq : QuiescentQ s) :
    s.trigger = 0 ∧ s.wpc = .idle ∧
    (∀ (i : Nat) (a : Adder), s.adders[i]? = some a → a.pc = .done) := by
  have hsz : 0 < s.size := hc
  have hA := quiescent_adders s hG hsz hq
  have hW := quiescent_worker s hG hsz hq
  obtain ⟨c1, c2, c3⟩ := quiescent_tails s hq
  refine ⟨?_, hW, hA⟩
  have d1 := hG.ex.d1
  have t3 := hG.tr.t3
  have hrun : tally aRun s.adders = 0 :=
    tally_eq_zero _ (fun i a ha => by simp [aRun, hA i a ha])
  have hsp : tally aSpawn s.adders = 0 :=
    tally_eq_zero _ (fun i a ha => by simp [aSpawn, hA i a ha])
  have : ¬ 0 < s.trigger := by
    intro h
    have := d1 h
    simp [lwA, hW, c1, c2, c3, hrun, hsp, spawnP] at this
  omega

/-- a state in which every Add has returned, no worker and no Close is in flight, is quiescent -/
theorem quiescent_of_settled (s : S)
    (hA : s.adders.all (fun a => decide (a.pc = .done)) = true) (hw : s.wpc = .idle)
    (hc : s.tRecheck = 0 ∧ s.tRun = 0 ∧ s.tSpawn = 0 ∧ s.cCas = 0 ∧ s.cwin = none) :
    Quiescent s := by
  intro a ha
  obtain ⟨c1, c2, c3, c5, c6⟩ := hc
  cases a with
  | add n => cases ha
  | close => cases ha
  | die => cases ha
  | adder i =>
    simp only [step, stepAdder]
    split
    · rfl
    · rename_i a hget
      have hm : a ∈ s.adders := List.mem_of_getElem? hget
      have := List.all_eq_true.mp hA a hm
      simp at this
      simp [this]
  | wk n e => simp [step, stepWorker, hw]
  | tail pc => cases pc <;> simp [step, stepTail, c1, c2, c3]
  | closer pc => cases pc <;> simp [step, stepCloser, c5, c6]

/-- the state a schedule leads to (for concrete witnesses and non-vacuity examples) -/
def final (n : Nat) (acts : List Act) : S := (run (init n) acts).getD (init n)

theorem reachable_final (n : Nat) (acts : List Act) (h : (run (init n) acts).isSome = true) :
    Reachable n (final n acts) := by
  refine ⟨acts, ?_⟩
  simp only [final]
  cases hr : run (init n) acts with
  | none => rw [hr] at h; cases h
  | some s => rfl

instance (s : S) : Decidable (InContract s) := by unfold InContract; infer_instance

end Netpoll.Shard
