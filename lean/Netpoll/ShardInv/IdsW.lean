import Netpoll.ShardInv.Defs
namespace Netpoll.Shard

theorem gids_worker (s s' : S) (n e : Bool) (h : GIds s) (hs : stepWorker s n e = some s') : GIds s' := by
  obtain ⟨i0, i0', i1, i2, i3⟩ := h
  simp only [stepWorker] at hs
  split at hs <;> (repeat' split at hs) <;> (try cases hs) <;>
    refine ⟨?_, ?_, ?_, ?_, ?_⟩ <;>
    (try (intro id
          have hi1 := i1 id
          have hi2 := i2 id)) <;>
    simp only [endDeal, inSwap] at * <;>
    grind [count_flatten_set]

theorem gids_tail (s s' : S) (pc : TPc) (h : GIds s) (hs : stepTail s pc = some s') : GIds s' := by
  obtain ⟨i0, i0', i1, i2, i3⟩ := h
  cases pc <;> simp only [stepTail] at hs <;> (repeat' split at hs) <;> (try cases hs) <;>
    refine ⟨?_, ?_, ?_, ?_, ?_⟩ <;>
    (try (intro id
          have hi1 := i1 id
          have hi2 := i2 id)) <;>
    simp only [spawnWorker, inSwap] at * <;> grind

theorem gids_closer (s s' : S) (pc : CPc) (h : GIds s) (hs : stepCloser s pc = some s') : GIds s' := by
  obtain ⟨i0, i0', i1, i2, i3⟩ := h
  cases pc <;> simp only [stepCloser] at hs <;> (repeat' split at hs) <;> (try cases hs) <;>
    refine ⟨?_, ?_, ?_, ?_, ?_⟩ <;>
    (try (intro id
          have hi1 := i1 id
          have hi2 := i2 id)) <;>
    simp only [enterDrained, inSwap] at * <;> grind

theorem gids_env (s s' : S) (a : Act) (ha : a.isEnv = true) (h : GIds s) (hs : step s a = some s') : GIds s' := by
  obtain ⟨i0, i0', i1, i2, i3⟩ := h
  cases a with
  | add n =>
    simp only [step] at hs; cases hs
    refine ⟨i0, i0', ?_, i2, i3⟩
    intro id
    have := i1 id
    simp only [tally_snoc, aGts_new, inSwap, count_range'] at *
    grind
  | close => simp only [step] at hs; cases hs; exact ⟨i0, i0', i1, i2, i3⟩
  | die =>
    simp only [step] at hs; cases hs
    refine ⟨i0, i0', i1, i2, ?_⟩
    intro h; cases h
  | adder i => cases ha
  | wk n e => cases ha
  | tail pc => cases ha
  | closer pc => cases ha

theorem gids_init (n : Nat) : GIds (init n) := by
  refine ⟨?_, ?_, ?_, ?_, ?_⟩ <;> simp [init, inSwap]

end Netpoll.Shard
