import Netpoll.ShardInv.Defs
namespace Netpoll.Shard

theorem gtrig_adder (s s' : S) (i : Nat) (h : GTrig s) (hs : stepAdder s i = some s') : GTrig s' := by
  obtain ⟨t1, t2a, t2b, t2c, t3⟩ := h
  simp only [stepAdder] at hs
  split at hs
  · cases hs
  · rename_i a ha
    have hb := tally_set aBetw (l := s.adders) (i := i) (a := a)
    split at hs <;> (repeat' split at hs) <;> (try cases hs) <;>
      constructor <;> simp_all [setAdder, spawnWorker, held, aBetw] <;> grind

theorem gtrig_worker (s s' : S) (n e : Bool) (h : GTrig s) (hs : stepWorker s n e = some s') : GTrig s' := by
  obtain ⟨t1, t2a, t2b, t2c, t3⟩ := h
  simp only [stepWorker] at hs
  split at hs <;> (repeat' split at hs) <;> (try cases hs) <;>
    constructor <;> simp_all [endDeal, held] <;> grind

theorem gtrig_tail (s s' : S) (pc : TPc) (h : GTrig s) (hs : stepTail s pc = some s') : GTrig s' := by
  obtain ⟨t1, t2a, t2b, t2c, t3⟩ := h
  cases pc <;> simp only [stepTail] at hs <;> (repeat' split at hs) <;> (try cases hs) <;>
    constructor <;> simp_all [spawnWorker, held] <;> grind

theorem gtrig_closer (s s' : S) (pc : CPc) (h : GTrig s) (hs : stepCloser s pc = some s') : GTrig s' := by
  obtain ⟨t1, t2a, t2b, t2c, t3⟩ := h
  cases pc <;> simp only [stepCloser] at hs <;> (repeat' split at hs) <;> (try cases hs) <;>
    constructor <;> simp_all [held, enterDrained] <;> grind

theorem gtrig_step (s s' : S) (a : Act) (h : GTrig s) (hs : step s a = some s') : GTrig s' := by
  cases a with
  | add n =>
    obtain ⟨t1, t2a, t2b, t2c, t3⟩ := h
    simp only [step] at hs; cases hs
    constructor <;> simp_all [held, tally_snoc]
  | close =>
    obtain ⟨t1, t2a, t2b, t2c, t3⟩ := h
    simp only [step] at hs; cases hs
    constructor <;> simp_all [held]
  | die =>
    obtain ⟨t1, t2a, t2b, t2c, t3⟩ := h
    simp only [step] at hs; cases hs
    constructor <;> simp_all [held]
  | adder i => exact gtrig_adder s s' i h hs
  | wk n e => exact gtrig_worker s s' n e h hs
  | tail pc => exact gtrig_tail s s' pc h hs
  | closer pc => exact gtrig_closer s s' pc h hs

theorem gtrig_init (n : Nat) : GTrig (init n) := by
  constructor <;> simp [init, held]

end Netpoll.Shard
