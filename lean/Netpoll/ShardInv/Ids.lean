import Netpoll.ShardInv.Defs
namespace Netpoll.Shard

theorem gids_adder (s s' : S) (i : Nat) (h : GIds s) (hs : stepAdder s i = some s') : GIds s' := by
  obtain ⟨i0, i0', i1, i2, i3⟩ := h
  simp only [stepAdder] at hs
  split at hs
  · cases hs
  · rename_i a ha
    split at hs <;> (repeat' split at hs) <;> (try cases hs) <;>
      refine ⟨?_, ?_, ?_, ?_, ?_⟩ <;>
      (try (intro id
            have hc := tally_set (aGts id) (l := s.adders) (i := i) (a := a)
            have hc' := tally_ge (aGts id) ha
            have hi1 := i1 id
            have hi2 := i2 id)) <;>
      simp only [setAdder, spawnWorker, aGts, aPre, inSwap] at * <;>
      grind [count_flatten_set]

end Netpoll.Shard
