import Netpoll.ShardInv.RingStep
namespace Netpoll.Shard

theorem ringpend_adder (s s' : S) (i : Nat) (hS : GStruct s) (hR : GRing s) (hP : GPend s)
    (hs : stepAdder s i = some s') : GRing s' ∧ GPend s' := by
  simp only [stepAdder] at hs
  split at hs
  · cases hs
  · rename_i a ha
    by_cases hw : a.pc = .lWrite
    · simp only [hw] at hs
      cases hs
      exact ringpend_lwrite s i a hS hR hP ha hw
    · obtain ⟨r1, r3, r4, r5, r6⟩ := hR
      obtain ⟨p0, p1⟩ := hP
      have hb := tally_set aEmpty (l := s.adders) (i := i) (a := a)
      have hb' := tally_ge aEmpty ha
      split at hs <;> (try contradiction) <;> (repeat' split at hs) <;> (try cases hs) <;>
        refine ⟨⟨?_, ?_, ?_, ?_, ?_⟩, ⟨?_, ?_⟩⟩ <;>
        (try (intro u v huv
              have hc := tally_set (aPend u) (l := s.adders) (i := i) (a := a)
              have hc' := tally_ge (aPend u) ha
              have hr4 := r4 u
              have hp1 := p1 u)) <;>
        simp only [setAdder, spawnWorker, aEmpty, aPre, aPend, wHoldEntry] at * <;> grind [List.append_eq_nil_iff]

theorem ringpend_worker (s s' : S) (n e : Bool) (hR : GRing s) (hP : GPend s) (hT : GTrig s)
    (hs : stepWorker s n e = some s') : GRing s' ∧ GPend s' := by
  by_cases hw : s.wpc = .rd
  · simp only [stepWorker, hw] at hs
    split at hs
    · cases hs
    · rename_i sh hl
      cases hs
      exact ringpend_rd s sh hR hP hT hw hl
  · obtain ⟨r1, r3, r4, r5, r6⟩ := hR
    obtain ⟨p0, p1⟩ := hP
    simp only [stepWorker] at hs
    split at hs <;> (try contradiction) <;> (repeat' split at hs) <;> (try cases hs) <;>
      refine ⟨⟨?_, ?_, ?_, ?_, ?_⟩, ⟨?_, ?_⟩⟩ <;>
      (try (intro u v huv
            have hr4 := r4 u
            have hp1 := p1 u)) <;>
      simp only [endDeal, wHoldEntry] at * <;> grind

theorem ringpend_tail (s s' : S) (pc : TPc) (hR : GRing s) (hP : GPend s)
    (hs : stepTail s pc = some s') : GRing s' ∧ GPend s' := by
  obtain ⟨r1, r3, r4, r5, r6⟩ := hR
  obtain ⟨p0, p1⟩ := hP
  cases pc <;> simp only [stepTail] at hs <;> (repeat' split at hs) <;> (try cases hs) <;>
    refine ⟨⟨?_, ?_, ?_, ?_, ?_⟩, ⟨?_, ?_⟩⟩ <;>
    (try (intro u v huv
          have hr4 := r4 u
          have hp1 := p1 u)) <;>
    simp only [spawnWorker, wHoldEntry] at * <;> grind

theorem ringpend_closer (s s' : S) (pc : CPc) (hR : GRing s) (hP : GPend s)
    (hs : stepCloser s pc = some s') : GRing s' ∧ GPend s' := by
  obtain ⟨r1, r3, r4, r5, r6⟩ := hR
  obtain ⟨p0, p1⟩ := hP
  cases pc <;> simp only [stepCloser] at hs <;> (repeat' split at hs) <;> (try cases hs) <;>
    refine ⟨⟨?_, ?_, ?_, ?_, ?_⟩, ⟨?_, ?_⟩⟩ <;>
    (try (intro u v huv
          have hr4 := r4 u
          have hp1 := p1 u)) <;>
    simp only [enterDrained, wHoldEntry] at * <;> grind

/-- the ring and pending-trigger invariants are preserved by every step -/
theorem ringpend_step (s s' : S) (a : Act) (hS : GStruct s) (hR : GRing s) (hP : GPend s)
    (hT : GTrig s) (hs : step s a = some s') : GRing s' ∧ GPend s' := by
  cases a with
  | add n =>
    obtain ⟨r1, r3, r4, r5, r6⟩ := hR
    obtain ⟨p0, p1⟩ := hP
    simp only [step] at hs; cases hs
    refine ⟨⟨r1, r3, r4, r5, r6⟩, ⟨?_, ?_⟩⟩
    · simpa [tally_snoc] using p0
    · intro sh g hg
      have := p1 sh g hg
      simp only [tally_snoc, aPend_new, wHoldEntry] at *
      simpa using this
  | close =>
    obtain ⟨r1, r3, r4, r5, r6⟩ := hR
    obtain ⟨p0, p1⟩ := hP
    simp only [step] at hs; cases hs; exact ⟨⟨r1, r3, r4, r5, r6⟩, ⟨p0, p1⟩⟩
  | die =>
    obtain ⟨r1, r3, r4, r5, r6⟩ := hR
    obtain ⟨p0, p1⟩ := hP
    simp only [step] at hs; cases hs; exact ⟨⟨r1, r3, r4, r5, r6⟩, ⟨p0, p1⟩⟩
  | adder i => exact ringpend_adder s s' i hS hR hP hs
  | wk n e => exact ringpend_worker s s' n e hR hP hT hs
  | tail pc => exact ringpend_tail s s' pc hR hP hs
  | closer pc => exact ringpend_closer s s' pc hR hP hs

theorem ringpend_init (n : Nat) : GRing (init n) ∧ GPend (init n) := by
  refine ⟨⟨?_, ?_, ?_, ?_, ?_⟩, ⟨?_, ?_⟩⟩ <;> simp [init, wHoldEntry]
  intro sh g h1
  simp [List.getElem?_replicate] at h1
  exact h1.2

end Netpoll.Shard
