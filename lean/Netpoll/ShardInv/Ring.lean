import Netpoll.ShardInv.Defs
namespace Netpoll.Shard

/-- ring safety core: while an adder is about to write its entry, fewer than `size` entries are unconsumed -/
theorem ring_len_lt (s : S) (i : Nat) (a : Adder) (hS : GStruct s) (hR : GRing s) (hP : GPend s)
    (ha : s.adders[i]? = some a) (hpc : a.pc = .lWrite) : s.ring.length < s.size := by
  obtain ⟨⟨_, _, s1g⟩, s2, _⟩ := hS
  have hbad := tally_ge (aBadShard s.size) ha
  have hsh : a.shard < s.size := by
    simp only [aBadShard, hpc] at hbad
    by_cases h : s.size ≤ a.shard
    · simp [h] at hbad; omega
    · omega
  have hlen : (a.shard :: s.ring).length ≤ s.size := by
    apply length_le_of_nodup_lt
    · intro x hx
      simp at hx
      cases hx with
      | inl h => omega
      | inr h => exact hR.r5 x h
    · intro x
      by_cases hx : x < s.size
      · have hg : ∃ g, s.getters[x]? = some g := by
          refine ⟨s.getters[x]'(by omega), ?_⟩
          exact List.getElem?_eq_getElem (by omega)
        obtain ⟨g, hg⟩ := hg
        have hp := hP.p1 x g hg
        have hge := tally_ge (aPend x) ha
        by_cases hxa : a.shard = x
        · have : aPend x a = 1 := by simp [aPend, hxa, hpc]
          have hr : s.ring.count x = 0 := by split at hp <;> omega
          simp [hxa, hr]
        · have : s.ring.count x ≤ 1 := by split at hp <;> omega
          simp [hxa]; omega
      · have hr : s.ring.count x = 0 := by
          apply List.count_eq_zero_of_not_mem
          intro hm; have := hR.r5 x hm; omega
        have : a.shard ≠ x := by omega
        simp [this, hr]
  simp at hlen
  omega

/-- ring safety: never more unconsumed entries than shards -/
theorem ring_len_le (s : S) (hS : GStruct s) (hR : GRing s) (hP : GPend s) : s.ring.length ≤ s.size := by
  apply length_le_of_nodup_lt
  · exact hR.r5
  · intro x
    by_cases hx : x < s.size
    · have hg : ∃ g, s.getters[x]? = some g :=
        ⟨s.getters[x]'(by have := hS.s1.2.2; omega), List.getElem?_eq_getElem (by have := hS.s1.2.2; omega)⟩
      obtain ⟨g, hg⟩ := hg
      have hp := hP.p1 x g hg
      split at hp <;> omega
    · have hr : s.ring.count x = 0 := by
        apply List.count_eq_zero_of_not_mem
        intro hm; have := hR.r5 x hm; omega
      omega

theorem ring_nonempty_at_rd (s : S) (hT : GTrig s) (hpc : s.wpc = .rd) : 0 < s.ring.length := by
  have h1 := hT.t1
  have h2 := hT.t2b (Or.inl hpc)
  simp only [held, hpc] at h1
  simp at h1
  omega

end Netpoll.Shard
