import Netpoll.ShardInv.Defs
/-!
Preservation of `GClose` (the invariant behind `C17_close_waits`): a getter that was queued when the
winning `Close` did its CAS never returns to an Add call, is never appended to a shard again, and can
only move shard → `swap` → worker → invoked / skipped.
-/
namespace Netpoll.Shard

/-- queued-or-handled never decreases: getters only move shard → swap → worker → invoked / skipped -/
theorem qh_mono (s s' : S) (a : Act) (hI : GIds s) (hs : step s a = some s') (id : Nat) : qh s id ≤ qh s' id := by
  have i0 := hI.i0
  cases a with
  | add n => simp only [step] at hs; cases hs; simp [qh, inSwap]
  | close => simp only [step] at hs; cases hs; simp [qh, inSwap]
  | die => simp only [step] at hs; cases hs; simp [qh, inSwap]
  | adder i =>
    simp only [step, stepAdder] at hs
    split at hs
    · cases hs
    · rename_i a ha
      split at hs <;> (repeat' split at hs) <;> (try cases hs) <;>
        simp only [qh, setAdder, spawnWorker, inSwap] at * <;> grind [count_flatten_set]
  | wk n e =>
    simp only [step, stepWorker] at hs
    split at hs <;> (repeat' split at hs) <;> (try cases hs) <;>
      simp only [qh, endDeal, inSwap] at * <;> grind [count_flatten_set]
  | tail pc =>
    cases pc <;> simp only [step, stepTail] at hs <;> (repeat' split at hs) <;> (try cases hs) <;>
      simp only [qh, spawnWorker, inSwap] at * <;> grind
  | closer pc =>
    cases pc <;> simp only [step, stepCloser] at hs <;> (repeat' split at hs) <;> (try cases hs) <;>
      simp only [qh, enterDrained, inSwap] at * <;> grind

/-- a shard only grows by an append of getters that an Add call still carried -/
theorem getters_grow (s s' : S) (a : Act) (hs : step s a = some s') (sh : Nat) (g' : List Nat) (id : Nat)
    (hg : s'.getters[sh]? = some g') :
    ∃ g, s.getters[sh]? = some g ∧ g'.count id ≤ g.count id + tally (aGts id) s.adders := by
  cases a with
  | add n => simp only [step] at hs; cases hs; exact ⟨g', hg, by omega⟩
  | close => simp only [step] at hs; cases hs; exact ⟨g', hg, by omega⟩
  | die => simp only [step] at hs; cases hs; exact ⟨g', hg, by omega⟩
  | adder i =>
    simp only [step, stepAdder] at hs
    split at hs
    · cases hs
    · rename_i a ha
      have hge := tally_ge (aGts id) ha
      split at hs <;> (repeat' split at hs) <;> (try cases hs) <;>
        simp only [setAdder, spawnWorker, aGts, aPre] at * <;>
        grind
  | wk n e =>
    simp only [step, stepWorker] at hs
    split at hs <;> (repeat' split at hs) <;> (try cases hs) <;>
      simp only [endDeal] at * <;> grind
  | tail pc =>
    cases pc <;> simp only [step, stepTail] at hs <;> (repeat' split at hs) <;> (try cases hs) <;>
      simp only [spawnWorker] at * <;> grind
  | closer pc =>
    cases pc <;> simp only [step, stepCloser] at hs <;> (repeat' split at hs) <;> (try cases hs) <;>
      simp only [enterDrained] at * <;> grind

/-- only Close steps touch the Close call's own words -/
theorem closer_frame (s s' : S) (a : Act) (hs : step s a = some s') (ha : ∀ pc, a ≠ .closer pc) :
    s'.closeSnap = s.closeSnap ∧ s'.cwin = s.cwin ∧ s'.cShard = s.cShard ∧ s'.cN = s.cN ∧
    s'.closeOk = s.closeOk ∧ s'.size = s.size := by
  cases a with
  | add n => simp only [step] at hs; cases hs; simp
  | close => simp only [step] at hs; cases hs; simp
  | die => simp only [step] at hs; cases hs; simp
  | adder i =>
    simp only [step, stepAdder] at hs
    (repeat' split at hs) <;> (try cases hs) <;> simp [setAdder, spawnWorker]
  | wk n e =>
    simp only [step, stepWorker] at hs
    (repeat' split at hs) <;> (try cases hs) <;> simp [endDeal]
  | tail pc =>
    cases pc <;> simp only [step, stepTail] at hs <;>
    (repeat' split at hs) <;> (try cases hs) <;> simp [spawnWorker]
  | closer pc => exact absurd rfl (ha pc)

theorem scanned_frame (s s' : S) (h : s'.cwin = s.cwin ∧ s'.cShard = s.cShard ∧ s'.cN = s.cN ∧
    s'.closeOk = s.closeOk ∧ s'.size = s.size) : scanned s' = scanned s := by
  obtain ⟨h1, h2, h3, h4, h5⟩ := h
  simp only [scanned, h1, h2, h3, h4, h5]

/-- what the worker holds (swapped out, not yet dealt with) only grows by the shard it swaps out -/
theorem hold_grow (s s' : S) (a : Act) (hI : GIds s) (hs : step s a = some s') (id : Nat) :
    inSwap s' id + s'.work.count id ≤ inSwap s id + s.work.count id ∨
    (∃ g, s.getters[s.shared]? = some g ∧ inSwap s' id + s'.work.count id ≤ inSwap s id + s.work.count id + g.count id) := by
  have i0 := hI.i0
  cases a with
  | add n => simp only [step] at hs; cases hs; simp [inSwap]
  | close => simp only [step] at hs; cases hs; simp [inSwap]
  | die => simp only [step] at hs; cases hs; simp [inSwap]
  | adder i =>
    simp only [step, stepAdder] at hs
    split at hs
    · cases hs
    · rename_i a ha
      split at hs <;> (repeat' split at hs) <;> (try cases hs) <;>
        simp only [setAdder, spawnWorker, inSwap] at * <;> grind
  | wk n e =>
    simp only [step, stepWorker] at hs
    split at hs <;> (repeat' split at hs) <;> (try cases hs) <;>
      simp only [endDeal, inSwap] at * <;> grind
  | tail pc =>
    cases pc <;> simp only [step, stepTail] at hs <;> (repeat' split at hs) <;> (try cases hs) <;>
      simp only [spawnWorker, inSwap] at * <;> grind
  | closer pc =>
    cases pc <;> simp only [step, stepCloser] at hs <;> (repeat' split at hs) <;> (try cases hs) <;>
      simp only [enterDrained, inSwap] at * <;> grind

/-- a getter of the snapshot is with no Add call -/
theorem snap_not_carried (s : S) (hI : GIds s) (h : GClose s) (id : Nat) (hid : id ∈ s.closeSnap) :
    tally (aGts id) s.adders = 0 := by
  have h2 := h.c2 id hid
  have h1 := hI.i1 id
  simp only [qh] at h2
  split at h1 <;> omega

theorem scanned_done (s : S) (h : GClose s) (hp : s.cwin = some .store ∨ 0 < s.closeOk) : scanned s = s.size := by
  rcases hp with hp | hp
  · simp [scanned, hp]
  · simp [scanned, h.c4 hp, hp]

theorem gclose_other (s s' : S) (a : Act) (hS : GStruct s) (hI : GIds s) (h : GClose s)
    (hs : step s a = some s') (ha : ∀ pc, a ≠ .closer pc) : GClose s' := by
  have hf := closer_frame s s' a hs ha
  have hsc := scanned_frame s s' hf.2
  obtain ⟨f1, f2, f3, f4, f5, f6⟩ := hf
  refine ⟨?_, ?_, ?_, ?_⟩
  · intro id hid sh g' hlt hg'
    rw [f1] at hid
    rw [hsc] at hlt
    obtain ⟨g, hg, hle⟩ := getters_grow s s' a hs sh g' id hg'
    have h1 := h.c1 id hid sh g hlt hg
    have h2 := snap_not_carried s hI h id hid
    omega
  · intro id hid
    rw [f1] at hid
    have := h.c2 id hid
    have := qh_mono s s' a hI hs id
    omega
  · intro hp id hid
    rw [f1] at hid
    rw [f2, f5] at hp
    have h3 := h.c3 hp id hid
    rcases hold_grow s s' a hI hs id with hh | ⟨g, hg, hh⟩
    · omega
    · have hlt : s.shared < scanned s := by
        rw [scanned_done s h hp]
        have hl := hS.s1.2.2
        have : s.shared < s.getters.length := by
          apply Classical.byContradiction; intro hn
          rw [List.getElem?_eq_none (by omega)] at hg; cases hg
        omega
      have := h.c1 id hid s.shared g hlt hg
      omega
  · rw [f2, f5]; exact h.c4

theorem gclose_closer (s s' : S) (pc : CPc) (hI : GIds s) (hT : GTrig s) (hM : GMisc s) (h : GClose s)
    (hs : stepCloser s pc = some s') : GClose s' := by
  obtain ⟨c1, c2, c3, c4⟩ := h
  have m3 := hM.m3
  have i0 := hI.i0
  have t2b := hT.t2b
  have hq : s.trigger = 0 → s.work = [] ∧ s.wpc ≠ .unlock ∧ s.wpc ≠ .dealCall := by
    intro h0
    have hn : ¬ (s.wpc = .rd ∨ s.wpc = .lock ∨ s.wpc = .swap ∨ s.wpc = .unlock ∨ s.wpc = .dealCall ∨
        s.wpc = .isAct ∨ s.wpc = .deal) := fun hb => by have := t2b hb; omega
    exact ⟨i0 ⟨fun h => hn (by simp [h]), fun h => hn (by simp [h])⟩, fun h => hn (by simp [h]), fun h => hn (by simp [h])⟩
  clear t2b i0
  cases pc <;> simp only [stepCloser] at hs <;> (repeat' split at hs) <;> (try cases hs) <;>
    refine ⟨?_, ?_, ?_, ?_⟩ <;>
    (try (intro id hid; have hc1 := c1 id; have hc2 := c2 id; have hc3 := fun hp => c3 hp id)) <;>
    simp only [enterDrained, scanned, qh, inSwap, queued] at * <;> grind

theorem gclose_step (s s' : S) (a : Act) (hS : GStruct s) (hI : GIds s) (hT : GTrig s) (hM : GMisc s) (h : GClose s)
    (hs : step s a = some s') : GClose s' := by
  cases a with
  | add n => exact gclose_other s s' _ hS hI h hs (by intro pc hh; cases hh)
  | close => exact gclose_other s s' _ hS hI h hs (by intro pc hh; cases hh)
  | die => exact gclose_other s s' _ hS hI h hs (by intro pc hh; cases hh)
  | adder i => exact gclose_other s s' _ hS hI h hs (by intro pc hh; cases hh)
  | wk n e => exact gclose_other s s' _ hS hI h hs (by intro pc hh; cases hh)
  | tail pc => exact gclose_other s s' _ hS hI h hs (by intro pc hh; cases hh)
  | closer pc => exact gclose_closer s s' pc hI hT hM h hs

theorem gclose_init (n : Nat) : GClose (init n) := by
  refine ⟨?_, ?_, ?_, ?_⟩ <;> simp [init]

end Netpoll.Shard
