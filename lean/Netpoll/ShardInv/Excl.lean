import Netpoll.ShardInv.Defs
namespace Netpoll.Shard

theorem gexcl_adder (s s' : S) (i : Nat) (h : GExcl s) (hs : stepAdder s i = some s') : GExcl s' := by
  obtain ⟨x1, x2, x3, x4, d1⟩ := h
  simp only [stepAdder] at hs
  split at hs
  · cases hs
  · rename_i a ha
    have hb := tally_set aSpawn (l := s.adders) (i := i) (a := a)
    have hc := tally_set aRun (l := s.adders) (i := i) (a := a)
    have hb' := tally_ge aSpawn ha
    have hc' := tally_ge aRun ha
    split at hs <;> (repeat' split at hs) <;> (try cases hs) <;>
      constructor <;> simp only [setAdder, spawnWorker, lwA, spawnP, aSpawn, aRun] at * <;> grind

theorem gexcl_worker (s s' : S) (n e : Bool) (h : GExcl s) (hs : stepWorker s n e = some s') : GExcl s' := by
  obtain ⟨x1, x2, x3, x4, d1⟩ := h
  simp only [stepWorker] at hs
  split at hs <;> (repeat' split at hs) <;> (try cases hs) <;>
    constructor <;> simp only [endDeal, lwA, spawnP] at * <;> grind

theorem gexcl_tail (s s' : S) (pc : TPc) (h : GExcl s) (hs : stepTail s pc = some s') : GExcl s' := by
  obtain ⟨x1, x2, x3, x4, d1⟩ := h
  cases pc <;> simp only [stepTail] at hs <;> (repeat' split at hs) <;> (try cases hs) <;>
    constructor <;> simp only [spawnWorker, lwA, spawnP] at * <;> grind

theorem gexcl_closer (s s' : S) (pc : CPc) (h : GExcl s) (hs : stepCloser s pc = some s') : GExcl s' := by
  obtain ⟨x1, x2, x3, x4, d1⟩ := h
  cases pc <;> simp only [stepCloser] at hs <;> (repeat' split at hs) <;> (try cases hs) <;>
    constructor <;> simp only [lwA, spawnP, enterDrained] at * <;> grind

theorem gexcl_step (s s' : S) (a : Act) (h : GExcl s) (hs : step s a = some s') : GExcl s' := by
  cases a with
  | add n =>
    obtain ⟨x1, x2, x3, x4, d1⟩ := h
    simp only [step] at hs; cases hs
    constructor <;> simp_all [lwA, spawnP, tally_snoc]
  | close =>
    obtain ⟨x1, x2, x3, x4, d1⟩ := h
    simp only [step] at hs; cases hs
    constructor <;> simp_all [lwA, spawnP]
  | die =>
    obtain ⟨x1, x2, x3, x4, d1⟩ := h
    simp only [step] at hs; cases hs
    constructor <;> simp_all [lwA, spawnP]
  | adder i => exact gexcl_adder s s' i h hs
  | wk n e => exact gexcl_worker s s' n e h hs
  | tail pc => exact gexcl_tail s s' pc h hs
  | closer pc => exact gexcl_closer s s' pc h hs

theorem gexcl_init (n : Nat) : GExcl (init n) := by
  constructor <;> simp [init, lwA, spawnP]

end Netpoll.Shard
