import Netpoll.ShardInv.Trig
import Netpoll.ShardInv.Excl
import Netpoll.ShardInv.Lock
import Netpoll.ShardInv.RingAll
import Netpoll.ShardInv.Ids
import Netpoll.ShardInv.IdsW
import Netpoll.ShardInv.Misc
/-! The full invariant `Good`, its preservation by every step, and the lift to `Reachable`. -/
namespace Netpoll.Shard

/-- the invariant of the ShardQueue model; the ring / pending-trigger part is only claimed for
    executions in which no `Add()` without getters was started (`emptyAdds = 0`) -/
structure Good (s : S) : Prop where
  st : GStruct s
  lk : GLock s
  tr : GTrig s
  ex : GExcl s
  ids : GIds s
  ms : GMisc s
  rp : s.emptyAdds = 0 → GRing s ∧ GPend s

theorem gids_step (s s' : S) (a : Act) (h : GIds s) (hs : step s a = some s') : GIds s' := by
  cases a with
  | add n => exact gids_env s s' _ rfl h hs
  | close => exact gids_env s s' _ rfl h hs
  | die => exact gids_env s s' _ rfl h hs
  | adder i => exact gids_adder s s' i h hs
  | wk n e => exact gids_worker s s' n e h hs
  | tail pc => exact gids_tail s s' pc h hs
  | closer pc => exact gids_closer s s' pc h hs

theorem emptyAdds_mono (s s' : S) (a : Act) (hs : step s a = some s') : s.emptyAdds ≤ s'.emptyAdds := by
  cases a with
  | add n => simp only [step] at hs; cases hs; simp; split <;> omega
  | close => simp only [step] at hs; cases hs; simp
  | die => simp only [step] at hs; cases hs; simp
  | adder i =>
    simp only [step, stepAdder] at hs
    (repeat' split at hs) <;> (try cases hs) <;> simp [setAdder, spawnWorker]
  | wk n e =>
    simp only [step, stepWorker] at hs
    (repeat' split at hs) <;> (try cases hs) <;> simp [endDeal]
  | tail pc =>
    cases pc <;> simp only [step, stepTail] at hs <;>
    (repeat' split at hs) <;> (try cases hs) <;> simp [spawnWorker]
  | closer pc =>
    cases pc <;> simp only [step, stepCloser] at hs <;>
    (repeat' split at hs) <;> (try cases hs) <;> simp

theorem good_step (s s' : S) (a : Act) (h : Good s) (hs : step s a = some s') : Good s' := by
  refine ⟨gstruct_step s s' a h.st hs, glock_step s s' a h.lk hs, gtrig_step s s' a h.tr hs,
          gexcl_step s s' a h.ex hs, gids_step s s' a h.ids hs, gmisc_step s s' a h.ms hs, ?_⟩
  intro hc
  have hm := emptyAdds_mono s s' a hs
  have h0 : s.emptyAdds = 0 := by omega
  obtain ⟨hR, hP⟩ := h.rp h0
  exact ringpend_step s s' a hc h.st hR hP h.tr hs

theorem good_init (n : Nat) : Good (init n) :=
  ⟨gstruct_init n, glock_init n, gtrig_init n, gexcl_init n, gids_init n, gmisc_init n, fun _ => ringpend_init n⟩

theorem good_run (acts : List Act) : ∀ (s s' : S), Good s → run s acts = some s' → Good s' := by
  induction acts with
  | nil => intro s s' h hr; simp only [run] at hr; cases hr; exact h
  | cons a as ih =>
    intro s s' h hr
    simp only [run] at hr
    split at hr
    · cases hr
    · rename_i s1 hs1
      exact ih s1 s' (good_step s s1 a h hs1) hr

theorem good_reachable (n : Nat) (s : S) (h : Reachable n s) : Good s := by
  obtain ⟨acts, hr⟩ := h
  exact good_run acts (init n) s (good_init n) hr

end Netpoll.Shard
