import Netpoll.ShardInv.Trig
import Netpoll.ShardInv.Excl
import Netpoll.ShardInv.Lock
import Netpoll.ShardInv.RingAll
import Netpoll.ShardInv.Ids
import Netpoll.ShardInv.IdsW
import Netpoll.ShardInv.Misc
import Netpoll.ShardInv.Close
/-! The full invariant `Good`, its preservation by every step, and the lift to `Reachable`. -/
namespace Netpoll.Shard

/-- the invariant of the ShardQueue model -/
structure Good (s : S) : Prop where
  st : GStruct s
  lk : GLock s
  tr : GTrig s
  ex : GExcl s
  ids : GIds s
  ms : GMisc s
  rg : GRing s
  pd : GPend s
  cl : GClose s

theorem gids_step (s s' : S) (a : Act) (h : GIds s) (hs : step s a = some s') : GIds s' := by
  cases a with
  | add n => exact gids_env s s' _ rfl h hs
  | close => exact gids_env s s' _ rfl h hs
  | die => exact gids_env s s' _ rfl h hs
  | adder i => exact gids_adder s s' i h hs
  | wk n e => exact gids_worker s s' n e h hs
  | tail pc => exact gids_tail s s' pc h hs
  | closer pc => exact gids_closer s s' pc h hs

theorem good_step (s s' : S) (a : Act) (h : Good s) (hs : step s a = some s') : Good s' := by
  have hrp := ringpend_step s s' a h.st h.rg h.pd h.tr hs
  exact ⟨gstruct_step s s' a h.st hs, glock_step s s' a h.lk h.ms hs, gtrig_step s s' a h.tr hs,
         gexcl_step s s' a h.ex hs, gids_step s s' a h.ids hs, gmisc_step s s' a h.ms hs, hrp.1, hrp.2,
         gclose_step s s' a h.st h.ids h.tr h.ms h.cl hs⟩

theorem good_init (n : Nat) : Good (init n) :=
  ⟨gstruct_init n, glock_init n, gtrig_init n, gexcl_init n, gids_init n, gmisc_init n,
   (ringpend_init n).1, (ringpend_init n).2, gclose_init n⟩

theorem good_run (acts : List Act) : ∀ (s s' : S), Good s → run s acts = some s' → Good s' := by
  induction acts with
  | nil => intro s s' h hr; simp only [run] at hr; cases hr; exact h
  | cons a as ih =>
    intro s s' h hr
    simp only [run] at hr
    split at hr
    · cases hr
    · rename_i s1 hs1
      exact ih s1 s' (good_step s s1 a h hs1) hr

theorem good_reachable (n : Nat) (s : S) (h : Reachable n s) : Good s := by
  obtain ⟨acts, hr⟩ := h
  exact good_run acts (init n) s (good_init n) hr

end Netpoll.Shard
