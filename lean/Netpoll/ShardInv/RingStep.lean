import Netpoll.ShardInv.Ring
namespace Netpoll.Shard

def lwritePost (s : S) (i : Nat) (a : Adder) : S :=
  setAdder { s with w := (s.w + 1) % s.size, list := s.list.set ((s.w + 1) % s.size) a.shard,
                    ring := s.ring ++ [a.shard], nWritten := s.nWritten + 1 } i
    { a with pc := .lUnlock }

theorem ringpend_lwrite (s : S) (i : Nat) (a : Adder) (hS : GStruct s) (hR : GRing s) (hP : GPend s)
    (ha : s.adders[i]? = some a) (hpc : a.pc = .lWrite) :
    GRing (lwritePost s i a) ∧ GPend (lwritePost s i a) := by
  have hlt := ring_len_lt s i a hS hR hP ha hpc
  obtain ⟨r1, r3, r4, r5, r6⟩ := hR
  obtain ⟨p0, p1⟩ := hP
  have hbad := tally_ge (aBadShard s.size) ha
  have hsh : a.shard < s.size := by
    have := hS.s2
    simp only [aBadShard, hpc] at hbad
    by_cases h : s.size ≤ a.shard
    · simp [h] at hbad; omega
    · omega
  have hslot : (s.w + 1) % s.size = (s.nRead + 1 + s.ring.length) % s.size := by
    rw [r1.2, Nat.mod_add_mod, r3]; congr 1; omega
  refine ⟨⟨?_, ?_, ?_, ?_, ?_⟩, ⟨?_, ?_⟩⟩
  · simp only [lwritePost, setAdder]
    refine ⟨r1.1, ?_⟩
    rw [r1.2, Nat.mod_add_mod]
  · simp only [lwritePost, setAdder]; simp; omega
  · intro k x hk
    simp only [lwritePost, setAdder] at hk ⊢
    rw [hslot]
    by_cases hkl : k < s.ring.length
    · rw [List.getElem?_append_left hkl] at hk
      have h1 := r4 k x hk
      have hne : (s.nRead + 1 + s.ring.length) % s.size ≠ (s.nRead + 1 + k) % s.size :=
        fun h => ring_slot_ne (b := s.nRead + 1) (m := s.size) hkl (by omega) h.symm
      rw [List.getElem?_set_ne hne]; exact h1
    · have hk' : k = s.ring.length := by
        have : k < (s.ring ++ [a.shard]).length := by
          apply Classical.byContradiction; intro hh
          rw [List.getElem?_eq_none (by omega)] at hk; cases hk
        simp at this; omega
      subst hk'
      simp at hk
      subst hk
      rw [List.getElem?_set_self]
      rw [hS.s1.1]; exact Nat.mod_lt _ (by omega)
  · intro x hx
    have e2 : (lwritePost s i a).ring = s.ring ++ [a.shard] := rfl
    have e0 : (lwritePost s i a).size = s.size := rfl
    rw [e2] at hx; rw [e0]
    simp at hx
    cases hx with
    | inl h => exact r5 x h
    | inr h => omega
  · exact r6
  · have hb := tally_set aEmpty (l := s.adders) (i := i) (a := a) { a with pc := .lUnlock } ha
    have e1 : (lwritePost s i a).adders = s.adders.set i { a with pc := .lUnlock } := rfl
    rw [e1]
    simp [aEmpty, aPre, hpc] at hb
    omega
  · intro sh g hg
    have hb := tally_set (aPend sh) (l := s.adders) (i := i) (a := a) { a with pc := .lUnlock } ha
    have e1 : (lwritePost s i a).adders = s.adders.set i { a with pc := .lUnlock } := rfl
    have e2 : (lwritePost s i a).ring = s.ring ++ [a.shard] := rfl
    have e3 : wHoldEntry (lwritePost s i a) sh = wHoldEntry s sh := rfl
    have e4 : (lwritePost s i a).getters = s.getters := rfl
    rw [e4] at hg
    have h1 := p1 sh g hg
    rw [e1, e2, e3, List.count_append]
    generalize wHoldEntry s sh = wh at h1 ⊢
    generalize (if g = [] then 0 else 1) = rhs at h1 ⊢
    by_cases hx : a.shard = sh
    · simp [aPend, hpc, hx] at hb ⊢; omega
    · have : ([a.shard] : List Nat).count sh = 0 := by simp [hx]
      simp [aPend, hpc, hx] at hb; omega

def rdPost (s : S) (sh : Nat) : S :=
  { s with r := (s.r + 1) % s.size, shared := sh, ring := s.ring.drop 1, nRead := s.nRead + 1, wpc := .lock }

theorem ringpend_rd (s : S) (sh : Nat) (hR : GRing s) (hP : GPend s) (hT : GTrig s)
    (hpc : s.wpc = .rd) (hl : s.list[(s.r + 1) % s.size]? = some sh) :
    GRing (rdPost s sh) ∧ GPend (rdPost s sh) := by
  have hne := ring_nonempty_at_rd s hT hpc
  obtain ⟨r1, r3, r4, r5, r6⟩ := hR
  obtain ⟨p0, p1⟩ := hP
  cases hring : s.ring with
  | nil => rw [hring] at hne; simp at hne
  | cons y rest =>
    have hy : sh = y := by
      have h0 := r4 0 y (by rw [hring]; rfl)
      have : (s.r + 1) % s.size = (s.nRead + 1 + 0) % s.size := by
        rw [r1.1, Nat.mod_add_mod]
      rw [this, h0] at hl
      cases hl; rfl
    subst hy
    have e0 : (rdPost s sh).size = s.size := rfl
    have e1 : (rdPost s sh).ring = rest := by simp [rdPost, hring]
    have e2 : (rdPost s sh).nRead = s.nRead + 1 := rfl
    refine ⟨⟨?_, ?_, ?_, ?_, ?_⟩, ⟨?_, ?_⟩⟩
    · refine ⟨?_, r1.2⟩
      show (s.r + 1) % s.size = (s.nRead + 1) % s.size
      rw [r1.1, Nat.mod_add_mod]
    · show s.nWritten = s.nRead + 1 + (rdPost s sh).ring.length
      rw [e1, r3, hring]; simp; omega
    · intro k x hk
      rw [e1] at hk
      have h1 := r4 (k + 1) x (by rw [hring]; simpa using hk)
      show s.list[(s.nRead + 1 + 1 + k) % s.size]? = some x
      have : s.nRead + 1 + 1 + k = s.nRead + 1 + (k + 1) := by omega
      rw [this]; exact h1
    · intro x hx
      rw [e1] at hx
      exact r5 x (by rw [hring]; simp [hx])
    · intro _
      show sh < s.size
      exact r5 sh (by rw [hring]; simp)
    · exact p0
    · intro x g hg
      have h1 := p1 x g hg
      show tally (aPend x) s.adders + (rdPost s sh).ring.count x + wHoldEntry (rdPost s sh) x = _
      rw [e1]
      have e3 : wHoldEntry (rdPost s sh) x = if sh = x then 1 else 0 := by simp [wHoldEntry, rdPost]
      have e4 : wHoldEntry s x = 0 := by simp [wHoldEntry, hpc]
      rw [e3]; rw [e4, hring, List.count_cons] at h1
      by_cases hx : sh = x
      · simp [hx] at h1 ⊢; omega
      · simp [hx] at h1 ⊢; omega

end Netpoll.Shard
