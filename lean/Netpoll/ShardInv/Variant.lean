import Netpoll.ShardInv.Good
/-!
A variant for the ShardQueue model: a lexicographic measure `(mA, mB, mC)` that strictly decreases on
every step of an adder, the loop worker or a tail worker (in reachable states).  Close calls do not change
it, and decrease their own measure (`cCas`, `cRem`) whenever the queue is drained (all shards empty, `trigger = 0`).
* `mA` – remaining steps of all Add calls;
* `mB` – number of worker spawns that tail workers can still perform while no adder moves
  (a worker leaves its loop only after seeing `trigger ≤ 0`, so with adders frozen its exit check fails);
* `mC` – work left for the current worker and the tails: 8 per unconsumed ring entry, 1 per queued getter,
  plus a position value of each program counter.
-/
namespace Netpoll.Shard

def APc.rem : APc → Nat
  | .state => 12 | .idx => 11 | .lock => 10 | .append => 9 | .unlock => 8 | .lLock => 7 | .lWrite => 6
  | .lUnlock => 5 | .trig => 4 | .run => 3 | .spawn => 2 | .done => 0

def aRem (a : Adder) : Nat := a.pc.rem

def WPc.pos : WPc → Nat
  | .idle => 0 | .store => 4 | .flush => 5 | .rd => 6 | .sub => 7 | .load => 7 | .deal => 8 | .isAct => 9
  | .dealCall => 10 | .unlock => 11 | .swap => 12 | .lock => 13

def mA (s : S) : Nat := tally aRem s.adders

def mB (s : S) : Nat :=
  (if 0 < s.trigger then (if s.wpc = .flush ∨ s.wpc = .store then 1 else 0) + s.tRecheck else 0) + s.tRun + s.tSpawn

def gLen (s : S) : Nat :=
  tally List.length s.getters + (if s.wpc = .unlock ∨ s.wpc = .dealCall then s.swap.length else 0) + s.work.length

def mC (s : S) : Nat :=
  8 * s.ring.length + gLen s + s.wpc.pos + 3 * s.tRecheck + 2 * s.tRun + s.tSpawn

/-- steps the Close call that won the CAS still has to take if every shard it looks at is empty and `trigger = 0`
    (a `drained` that has seen a non-empty shard starts over after its unlock) -/
def cRem (s : S) : Nat :=
  match s.cwin with
  | none => 0
  | some .cas => 0
  | some .store => 1
  | some .trig => 2
  | some .unlock => if s.cN = 0 then 3 * (s.size - s.cShard) else 3 * s.size + 3
  | some .read => 3 * (s.size - s.cShard) + 1
  | some .lock => 3 * (s.size - s.cShard) + 2

/-- lexicographic order on (Close calls before their CAS, remaining steps of the winner) -/
def cLt (s' s : S) : Prop := s'.cCas < s.cCas ∨ (s'.cCas = s.cCas ∧ cRem s' < cRem s)

/-- lexicographic order on the measure -/
def mLt (s' s : S) : Prop :=
  mA s' < mA s ∨ (mA s' = mA s ∧ (mB s' < mB s ∨ (mB s' = mB s ∧ mC s' < mC s)))

theorem variant_adder (s s' : S) (i : Nat) (hs : stepAdder s i = some s') : mA s' < mA s := by
  simp only [stepAdder] at hs
  split at hs
  · cases hs
  · rename_i a ha
    have hb := tally_set aRem (l := s.adders) (i := i) (a := a)
    have hb' := tally_ge aRem ha
    split at hs <;> (repeat' split at hs) <;> (try cases hs) <;>
      simp only [mA, setAdder, spawnWorker, aRem, APc.rem] at * <;> grind [APc.rem]

theorem variant_worker (s s' : S) (n e : Bool) (hT : GTrig s) (hI : GIds s) (hs : stepWorker s n e = some s') :
    mA s' = mA s ∧ (mB s' < mB s ∨ (mB s' = mB s ∧ mC s' < mC s)) := by
  have hne := ring_nonempty_at_rd s hT
  obtain ⟨t1, t2a, t2b, t2c, t3⟩ := hT
  obtain ⟨i0, i0', _, _, _⟩ := hI
  simp only [stepWorker] at hs
  split at hs <;> (repeat' split at hs) <;> (try cases hs) <;>
    (try (rename_i g hg; have hgs := fun v => tally_set List.length (l := s.getters) (i := s.shared) (a := g) v hg)) <;>
    simp only [mA, mB, mC, gLen, endDeal, WPc.pos] at * <;> grind [WPc.pos]

theorem variant_tail (s s' : S) (pc : TPc) (hs : stepTail s pc = some s') :
    mA s' = mA s ∧ (mB s' < mB s ∨ (mB s' = mB s ∧ mC s' < mC s)) := by
  cases pc <;> simp only [stepTail] at hs <;> (repeat' split at hs) <;> (try cases hs) <;>
    simp only [mA, mB, mC, gLen, spawnWorker, WPc.pos] at * <;> grind [WPc.pos]

theorem variant_closer (s s' : S) (pc : CPc) (hS : GStruct s) (hs : stepCloser s pc = some s') :
    mA s' = mA s ∧ mB s' = mB s ∧ mC s' = mC s ∧
    ((s.trigger = 0 ∧ ∀ (sh : Nat) (g : List Nat), s.getters[sh]? = some g → g = []) → cLt s' s) := by
  have s3 := hS.s3
  cases pc <;> simp only [stepCloser] at hs <;> (repeat' split at hs) <;> (try cases hs) <;>
    refine ⟨?_, ?_, ?_, ?_⟩ <;> (try (intro hd; obtain ⟨hd1, hd2⟩ := hd; have hd3 := hd2 s.cShard)) <;>
    simp only [mA, mB, mC, cLt, cRem, gLen, enterDrained] at * <;> grind

end Netpoll.Shard

namespace Netpoll.Shard

theorem cLt_wf : WellFounded cLt := by
  have h : WellFounded (InvImage (Prod.Lex (· < ·) (· < ·)) (fun s : S => (s.cCas, cRem s))) :=
    InvImage.wf _ (Prod.lex Nat.lt_wfRel Nat.lt_wfRel).wf
  apply Subrelation.wf _ h
  intro s' s hlt
  show Prod.Lex _ _ (s'.cCas, cRem s') (s.cCas, cRem s)
  rcases hlt with h1 | ⟨h1, h2⟩
  · exact Prod.Lex.left _ _ h1
  · rw [h1]; exact Prod.Lex.right _ h2

theorem mLt_wf : WellFounded mLt := by
  have h : WellFounded (InvImage (Prod.Lex (· < ·) (Prod.Lex (· < ·) (· < ·)))
      (fun s : S => (mA s, mB s, mC s))) :=
    InvImage.wf _ (Prod.lex Nat.lt_wfRel (Prod.lex Nat.lt_wfRel Nat.lt_wfRel)).wf
  apply Subrelation.wf _ h
  intro s' s hlt
  show Prod.Lex _ _ (mA s', mB s', mC s') (mA s, mB s, mC s)
  rcases hlt with h1 | ⟨h1, h2 | ⟨h2, h3⟩⟩
  · exact Prod.Lex.left _ _ h1
  · rw [h1]; exact Prod.Lex.right _ (Prod.Lex.left _ _ h2)
  · rw [h1, h2]; exact Prod.Lex.right _ (Prod.Lex.right _ h3)

end Netpoll.Shard
