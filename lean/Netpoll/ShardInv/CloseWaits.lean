import Netpoll.ShardInv.Good
/-!
From the invariant `GClose` to the trace statement of `C17_close_waits`: every getter of an Add call
that had returned when the winning `Close` did its CAS was queued or handled at that moment (`done_queued_or_handled`),
the snapshot taken by the CAS never changes afterwards (`snap_stable_run`), handled getters stay handled
(`handled_mono_run`), and once `Close` has returned nil every getter of the snapshot is handled (`snap_handled`).
-/
namespace Netpoll.Shard

/-- how often `id` occurs among the getters of an Add call, wherever the call stands -/
def aAll (id : Nat) (a : Adder) : Nat := a.gts.count id

/-- every getter id was handed to exactly one Add call -/
theorem gts_owner_step (s s' : S) (a : Act) (hs : step s a = some s')
    (h : ∀ id, tally (aAll id) s.adders = if id < s.nextId then 1 else 0) :
    ∀ id, tally (aAll id) s'.adders = if id < s'.nextId then 1 else 0 := by
  intro id
  have hid := h id
  cases a with
  | add n =>
    simp only [step] at hs; cases hs
    simp only [tally_snoc, aAll, newAdder, count_range']
    grind
  | close => simp only [step] at hs; cases hs; exact hid
  | die => simp only [step] at hs; cases hs; exact hid
  | adder i =>
    simp only [step, stepAdder] at hs
    split at hs
    · cases hs
    · rename_i a ha
      have hb := tally_set (aAll id) (l := s.adders) (i := i) (a := a)
      split at hs <;> (repeat' split at hs) <;> (try cases hs) <;>
        simp only [setAdder, spawnWorker, aAll] at * <;> grind
  | wk n e =>
    simp only [step, stepWorker] at hs
    split at hs <;> (repeat' split at hs) <;> (try cases hs) <;> simp only [endDeal] at * <;> exact hid
  | tail pc =>
    cases pc <;> simp only [step, stepTail] at hs <;> (repeat' split at hs) <;> (try cases hs) <;>
      simp only [spawnWorker] at * <;> exact hid
  | closer pc =>
    cases pc <;> simp only [step, stepCloser] at hs <;> (repeat' split at hs) <;> (try cases hs) <;>
      simp only [enterDrained] at * <;> exact hid

theorem gts_owner_run (acts : List Act) : ∀ (s s' : S), run s acts = some s' →
    (∀ id, tally (aAll id) s.adders = if id < s.nextId then 1 else 0) →
    ∀ id, tally (aAll id) s'.adders = if id < s'.nextId then 1 else 0 := by
  induction acts with
  | nil => intro s s' hr h; simp only [run] at hr; cases hr; exact h
  | cons a as ih =>
    intro s s' hr h
    simp only [run] at hr
    split at hr
    · cases hr
    · rename_i s1 hs1
      exact ih s1 s' hr (gts_owner_step s s1 a hs1 h)

theorem gts_owner_reachable (n : Nat) (s : S) (h : Reachable n s) (id : Nat) :
    tally (aAll id) s.adders = if id < s.nextId then 1 else 0 := by
  obtain ⟨acts, hr⟩ := h
  exact gts_owner_run acts (init n) s hr (by intro id; simp [init]) id

/-- a getter of an Add call that has returned while the queue was active is queued or has been handled -/
theorem done_queued_or_handled (n : Nat) (s : S) (h : Reachable n s) (hact : s.state = active)
    (i : Nat) (a : Adder) (ha : s.adders[i]? = some a) (hdone : a.pc = .done) (id : Nat) (hid : id ∈ a.gts) :
    0 < qh s id := by
  have hG := good_reachable n s h
  have hown := gts_owner_reachable n s h id
  have hpos : 0 < a.gts.count id := List.count_pos_iff.mpr hid
  have hge := tally_ge (aAll id) ha
  have hlt : id < s.nextId := by
    apply Classical.byContradiction; intro hn
    simp only [hn, if_false] at hown
    simp only [aAll] at hge; omega
  simp only [hlt, if_true] at hown
  -- no Add call that still carries its getters has `id`: the one owner is `a`, and `a` is done
  have hcar : tally (aGts id) s.adders = 0 := by
    apply tally_eq_zero
    intro j b hb
    by_cases hji : j = i
    · subst hji; rw [ha] at hb; cases hb
      simp [aGts, aPre, hdone]
    · -- another call: owning `id` too would make the owner count ≥ 2
      apply Classical.byContradiction; intro hne
      have hbpos : 0 < b.gts.count id := by
        simp only [aGts] at hne
        split at hne
        · omega
        · omega
      -- replace b's contribution by 0 and count again
      have hset := tally_set (aAll id) (l := s.adders) (i := j) (a := b) { b with gts := [] } hb
      have ha' : (s.adders.set j { b with gts := [] })[i]? = some a := by
        rw [List.getElem?_set_ne hji]; exact ha
      have hge' := tally_ge (aAll id) ha'
      simp only [aAll, List.count_nil] at hset hge'
      simp only [aAll] at hge
      omega
  have hi1 := hG.ids.i1 id
  have hig := (hG.ms.m3 hact).1
  simp only [hlt, if_true, hcar, hig, List.count_nil] at hi1
  simp only [qh]
  omega

set_option linter.unusedSimpArgs false in
/-- once the queue has left `active` the snapshot is never taken again -/
theorem snap_stable_step (s s' : S) (a : Act) (hs : step s a = some s') (hna : s.state ≠ active) :
    s'.closeSnap = s.closeSnap ∧ s'.state ≠ active := by
  cases a with
  | add n => simp only [step] at hs; cases hs; exact ⟨rfl, hna⟩
  | close => simp only [step] at hs; cases hs; exact ⟨rfl, hna⟩
  | die => simp only [step] at hs; cases hs; exact ⟨rfl, hna⟩
  | adder i =>
    simp only [step, stepAdder] at hs
    (repeat' split at hs) <;> (try cases hs) <;> simp_all [setAdder, spawnWorker]
  | wk n e =>
    simp only [step, stepWorker] at hs
    (repeat' split at hs) <;> (try cases hs) <;> simp_all [endDeal]
  | tail pc =>
    cases pc <;> simp only [step, stepTail] at hs <;>
    (repeat' split at hs) <;> (try cases hs) <;> simp_all [spawnWorker]
  | closer pc =>
    cases pc <;> simp only [step, stepCloser] at hs <;>
    (repeat' split at hs) <;> (try cases hs) <;> simp_all [enterDrained, active, closing, closed,
      Netpoll.Gen.c_mux_active, Netpoll.Gen.c_mux_closing, Netpoll.Gen.c_mux_closed]

theorem snap_stable_run (acts : List Act) : ∀ (s s' : S), run s acts = some s' → s.state ≠ active →
    s'.closeSnap = s.closeSnap := by
  induction acts with
  | nil => intro s s' hr _; simp only [run] at hr; cases hr; rfl
  | cons a as ih =>
    intro s s' hr hna
    simp only [run] at hr
    split at hr
    · cases hr
    · rename_i s1 hs1
      obtain ⟨h1, h2⟩ := snap_stable_step s s1 a hs1 hna
      rw [ih s1 s' hr h2, h1]

/-- handled stays handled -/
theorem handled_mono_step (s s' : S) (a : Act) (hs : step s a = some s') (id : Nat) :
    s.invoked.count id ≤ s'.invoked.count id ∧ s.skipped.count id ≤ s'.skipped.count id := by
  cases a with
  | add n => simp only [step] at hs; cases hs; simp
  | close => simp only [step] at hs; cases hs; simp
  | die => simp only [step] at hs; cases hs; simp
  | adder i =>
    simp only [step, stepAdder] at hs
    (repeat' split at hs) <;> (try cases hs) <;> simp [setAdder, spawnWorker]
  | wk n e =>
    simp only [step, stepWorker] at hs
    (repeat' split at hs) <;> (try cases hs) <;> simp [endDeal, List.count_append] <;> omega
  | tail pc =>
    cases pc <;> simp only [step, stepTail] at hs <;>
    (repeat' split at hs) <;> (try cases hs) <;> simp [spawnWorker]
  | closer pc =>
    cases pc <;> simp only [step, stepCloser] at hs <;>
    (repeat' split at hs) <;> (try cases hs) <;> simp [enterDrained]

theorem handled_mono_run (acts : List Act) (id : Nat) : ∀ (s s' : S), run s acts = some s' →
    s.invoked.count id ≤ s'.invoked.count id ∧ s.skipped.count id ≤ s'.skipped.count id := by
  induction acts with
  | nil => intro s s' hr; simp only [run] at hr; cases hr; exact ⟨Nat.le_refl _, Nat.le_refl _⟩
  | cons a as ih =>
    intro s s' hr
    simp only [run] at hr
    split at hr
    · cases hr
    · rename_i s1 hs1
      have h1 := handled_mono_step s s1 a hs1 id
      have h2 := ih s1 s' hr
      omega

theorem count_flatten_zero (l : List (List Nat)) (id : Nat)
    (h : ∀ (i : Nat) (g : List Nat), l[i]? = some g → g.count id = 0) : l.flatten.count id = 0 := by
  induction l with
  | nil => rfl
  | cons x l ih =>
    have hx : x.count id = 0 := h 0 x (by simp)
    have : l.flatten.count id = 0 := ih (fun i g hg => h (i + 1) g (by simpa using hg))
    simp [List.count_append, hx, this]

/-- **core of `Close waits`**: once `Close` has returned nil, every getter of its snapshot has been handled -/
theorem snap_handled (s : S) (hG : Good s) (hret : 0 < s.closeOk) (id : Nat) (hid : id ∈ s.closeSnap) :
    0 < s.invoked.count id + s.skipped.count id := by
  have hc := hG.cl
  have hsc : scanned s = s.size := scanned_done s hc (Or.inr hret)
  have hlen := hG.st.s1.2.2
  have h1 : s.getters.flatten.count id = 0 := by
    apply count_flatten_zero
    intro sh g hg
    have hlt : sh < s.getters.length := by
      apply Classical.byContradiction; intro hn
      rw [List.getElem?_eq_none (by omega)] at hg; cases hg
    exact hc.c1 id hid sh g (by omega) hg
  have h2 := hc.c2 id hid
  have h3 := hc.c3 (Or.inr hret) id hid
  simp only [qh] at h2
  omega

/-- the successful CAS of `Close` takes the snapshot of what is queued -/
theorem cas_snapshot (s s' : S) (hs : step s (.closer .cas) = some s') (hact : s.state = active) :
    s'.closeSnap = queued s ∧ s'.state ≠ active ∧ s'.invoked = s.invoked ∧ s'.skipped = s.skipped := by
  simp only [step, stepCloser] at hs
  (repeat' split at hs) <;> (try cases hs) <;> simp_all [enterDrained, active, closing,
    Netpoll.Gen.c_mux_active, Netpoll.Gen.c_mux_closing]

theorem mem_queued_of_qh (s : S) (id : Nat) (h : 0 < qh s id) (h' : s.invoked.count id + s.skipped.count id = 0) :
    id ∈ queued s := by
  simp only [qh, inSwap] at h
  simp only [queued, List.mem_append]
  by_cases h1 : 0 < s.getters.flatten.count id
  · exact Or.inl (Or.inl (List.count_pos_iff.mp h1))
  · by_cases h2 : 0 < s.work.count id
    · exact Or.inr (List.count_pos_iff.mp h2)
    · split at h
      · rename_i hw
        simp only [hw, if_true]
        exact Or.inl (Or.inr (List.count_pos_iff.mp (by omega)))
      · omega

end Netpoll.Shard
