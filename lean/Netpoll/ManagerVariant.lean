import Netpoll.ManagerLemmas
/-!
A variant for the poller-pool model: `measure` strictly decreases on every step of a goroutine inside
`Pick` that is not an iteration of the wait loop (helper for `C18_variant`).  Together with
`C18_quiescent` this gives termination of every `Pick` under a fair scheduler.
-/
namespace Netpoll.Manager
set_option linter.unusedSimpArgs false

/-- upper bound on the remaining steps of the goroutine inside `Run` -/
def runRemain (numLoops : Nat) (polls : List Nat) (r : Runner) : Nat :=
  match r.pc with
  | .load => 2 * (numLoops + polls.length) + 4
  | .close => (polls.length - r.idx) + 3
  | .open => 2 * (r.n - r.idx) + 3
  | .go => 2 * (r.n - r.idx) + 2
  | .store => 3
  | .rebal1 => 2
  | .rebal2 => 1
  | .eclose => (polls.length - r.idx) + 2
  | .eclear => 1

/-- weight of a picker about to CAS 0→1: before anybody has won it may still have to run `Run` itself -/
def wCas (s : S) : Nat := if s.status = 0 then 2 * (s.numLoops + s.polls.length) + 9 else 5
/-- weight of a picker at START -/
def wLoad (s : S) : Nat := if s.status = 0 then 2 * (s.numLoops + s.polls.length) + 10 else 4

def measure (s : S) : Nat :=
  s.cLoad * wLoad s + s.cCas * wCas s + (s.runners.map fun r => 4 + runRemain s.numLoops s.polls r).sum +
  4 * s.cCas2 + 3 * s.cBal + 2 * s.tk.length + s.ix.length

theorem pred_mul (c b : Nat) (h : 0 < c) : (c - 1) * b + b = c * b := by
  cases c with
  | zero => omega
  | succ c => simp [Nat.succ_mul]

theorem length_eraseIdx_lt {α} (l : List α) (j : Nat) (x : α) (h : l[j]? = some x) :
    (l.eraseIdx j).length + 1 = l.length := by
  have hj : j < l.length := by
    rcases Nat.lt_or_ge j l.length with h' | h'
    · exact h'
    · simp [List.getElem?_eq_none h'] at h
  rw [List.length_eraseIdx]
  simp [hj]
  omega

theorem measure_load (s s' : S) (h : Core s) (hs : step s .load = some s') (hns : s.status ≠ 1) :
    measure s' < measure s := by
  simp only [step] at hs
  split at hs
  · cases hs
  rename_i hpos
  split at hs
  · cases hs
    rename_i h2
    simp at h2
    simp only [measure, wLoad, wCas, h2]
    simp
    omega
  · cases hs
    rename_i h2
    simp at h2
    have h0 : s.status = 0 := by have := h.st; omega
    simp only [measure, wLoad, wCas, h0, if_true]
    generalize 2 * (s.numLoops + s.polls.length) = b
    have e1 := pred_mul s.cLoad (b + 10) (by omega)
    have e2 : (s.cCas + 1) * (b + 9) = s.cCas * (b + 9) + (b + 9) := Nat.succ_mul _ _
    rw [e2]
    generalize (s.cLoad - 1) * (b + 10) = x at *
    generalize s.cLoad * (b + 10) = y at *
    generalize s.cCas * (b + 9) = z at *
    omega

theorem measure_cas (s s' : S) (h : Core s) (hs : step s .cas = some s') (hns : s.status ≠ 1) :
    measure s' < measure s := by
  simp only [step] at hs
  split at hs
  · cases hs
  rename_i hpos
  split at hs
  · cases hs
    rename_i h0
    simp at h0
    obtain ⟨hr, hc2, _, _⟩ := lock_not1 h.lock hns
    simp only [measure, wLoad, wCas, h0, if_true, hr, cI]
    simp [runRemain]
    generalize 2 * (s.numLoops + s.polls.length) = b
    have e1 := pred_mul s.cCas (b + 9) (by omega)
    have l1 : (s.cCas - 1) * 5 ≤ (s.cCas - 1) * (b + 9) := Nat.mul_le_mul_left _ (by omega)
    have l2 : s.cLoad * 4 ≤ s.cLoad * (b + 10) := Nat.mul_le_mul_left _ (by omega)
    generalize (s.cCas - 1) * (b + 9) = x at *
    generalize s.cCas * (b + 9) = y at *
    generalize s.cLoad * (b + 10) = z at *
    omega
  · cases hs
    rename_i h0
    simp at h0
    have h2 : s.status = 2 := by have := h.st; omega
    simp only [measure, wLoad, wCas, h2]
    simp
    omega

theorem measure_cas2 (s s' : S) (h : Core s) (hs : step s .cas2 = some s') : measure s' < measure s := by
  simp only [step] at hs
  split at hs
  · cases hs
  rename_i hpos
  have hl := h.lock
  unfold LockInv at hl
  split at hl
  · rename_i hr
    obtain ⟨_, _, hd⟩ := hl
    rcases hd with hd | hd
    · exact absurd hd.1 hpos
    · split at hs
      · cases hs
        simp only [measure, wLoad, wCas, hd.2.1, cD, hr]
        simp
        omega
      · rename_i h2; simp at h2; exact absurd hd.2.1 h2
  · exact absurd hl.2.1 hpos
  · exact hl.elim

theorem measure_balEnter (s s' : S) (r : Nat) (hs : step s (.balEnter r) = some s') : measure s' < measure s := by
  simp only [step] at hs
  split at hs
  · cases hs
  rename_i hpos
  split at hs
  · cases hs; simp only [measure, wLoad, wCas]; omega
  · split at hs
    · cases hs; simp only [measure, wLoad, wCas, List.length_append, List.length_singleton]; omega
    · split at hs
      · cases hs; simp only [measure, wLoad, wCas]; omega
      · split at hs
        · cases hs; simp only [measure, wLoad, wCas, List.length_append, List.length_singleton]; omega
        · cases hs

theorem measure_balSize (s s' : S) (j : Nat) (hs : step s (.balSize j) = some s') : measure s' < measure s := by
  simp only [step] at hs
  split at hs
  · cases hs
  rename_i c hj
  have hl := length_eraseIdx_lt s.tk j c hj
  (repeat' split at hs) <;> cases hs <;>
    simp only [measure, wLoad, wCas, List.length_append, List.length_singleton] <;> omega

theorem measure_balIdx (s s' : S) (j : Nat) (hs : step s (.balIdx j) = some s') : measure s' < measure s := by
  simp only [step] at hs
  split at hs
  · cases hs
  rename_i c hj
  have hl := length_eraseIdx_lt s.ix j c hj
  (repeat' split at hs) <;> cases hs <;>
    simp only [measure, wLoad, wCas, List.length_append, List.length_singleton] <;> omega

theorem measure_run (s s' : S) (i : Nat) (fail : Bool) (h : Core s) (hs : step s (.run i fail) = some s')
    (hc : Clean s') : measure s' < measure s := by
  simp only [step, runStep] at hs
  have hl := h.lock
  rcases hr : s.runners with _ | ⟨r, _ | ⟨r2, rest⟩⟩
  · simp [hr] at hs
  rotate_left
  · rw [hr] at hl; unfold LockInv at hl; exact hl.elim
  rw [hr] at hl
  unfold LockInv at hl
  obtain ⟨h1, hc2, hri⟩ := hl
  rw [hr] at hs
  cases i with
  | succ i => simp at hs
  | zero =>
  simp only [List.getElem?_cons_zero] at hs
  unfold RunInv at hri
  have hw : ∀ t : S, t.status = 1 → wLoad t = 4 ∧ wCas t = 5 := fun t ht => by simp [wLoad, wCas, ht]
  obtain ⟨pc, rn, rnp, ridx⟩ := r
  cases pc <;> simp only at hs hri
  case load =>
    split at hs
    · cases hs
      simp only [measure, wLoad, wCas, h1, S.runReturn, hr, runRemain]
      simp
      omega
    split at hs
    · cases hs
      rename_i hne hlt
      simp only [measure, wLoad, wCas, h1, S.setRunner, hr, runRemain, List.set_cons_zero]
      simp
      omega
    · cases hs
      simp only [measure, wLoad, wCas, h1, S.setRunner, hr, runRemain, List.set_cons_zero]
      simp
      omega
  case close =>
    obtain ⟨hn, hnp, hni, hil, _⟩ := hri
    split at hs
    · rename_i hnone
      rw [List.getElem?_eq_none_iff] at hnone
      omega
    split at hs <;> cases hs <;>
      simp only [measure, wLoad, wCas, h1, S.setRunner, hr, runRemain, List.set_cons_zero] <;> simp <;> omega
  case «open» =>
    obtain ⟨hn, hidx, hlt, _⟩ := hri
    split at hs
    · split at hs <;> cases hs <;> (have := hc.1; simp [S.setRunner] at this)
    cases hs
    simp only [measure, wLoad, wCas, h1, S.setRunner, hr, runRemain, List.set_cons_zero]
    simp
  case go =>
    obtain ⟨hn, hlt, _, _, l, hnp, hidx, _⟩ := hri
    have hget : rnp[ridx]? = some (s.opened - 1) := by
      rw [hnp, hidx, List.getElem?_append_right (Nat.le_refl _)]; simp
    rw [hget] at hs
    simp only at hs
    split at hs <;> cases hs <;>
      simp only [measure, wLoad, wCas, h1, S.setRunner, hr, runRemain, List.set_cons_zero] <;> simp <;> omega
  case store =>
    cases hs
    simp only [measure, wLoad, wCas, h1, S.setRunner, hr, runRemain, List.set_cons_zero]
    simp
  case rebal1 =>
    obtain ⟨_, _, hbal⟩ := hri
    cases hb : s.bal with
    | none => simp [hb] at hbal
    | some b =>
      rw [hb] at hs
      cases hs
      simp only [measure, wLoad, wCas, h1, S.setRunner, hr, runRemain, List.set_cons_zero]
      simp
  case rebal2 =>
    obtain ⟨_, _, b, hb, _⟩ := hri
    rw [hb] at hs
    cases hs
    simp only [measure, wLoad, wCas, h1, S.runReturn, hr, runRemain, List.eraseIdx_cons_zero]
    simp
    omega

/-- every step of a goroutine inside `Pick`, other than an iteration of the wait loop while somebody else
holds the initialisation lock, strictly decreases `measure` -/
theorem measure_decreases (s s' : S) (a : Act) (h : Core s) (hs : step s a = some s') (hc : Clean s')
    (he : a.isEnv = false) (hns : ¬ (s.status = 1 ∧ (a = .load ∨ a = .cas))) : measure s' < measure s := by
  cases a with
  | spawn => simp [Act.isEnv] at he
  | setNumLoops n => simp [Act.isEnv] at he
  | setLB k => simp [Act.isEnv] at he
  | load => exact measure_load s s' h hs (fun h1 => hns ⟨h1, Or.inl rfl⟩)
  | cas => exact measure_cas s s' h hs (fun h1 => hns ⟨h1, Or.inr rfl⟩)
  | run i f => exact measure_run s s' i f h hs hc
  | cas2 => exact measure_cas2 s s' h hs
  | balEnter r => exact measure_balEnter s s' r hs
  | balSize j => exact measure_balSize s s' j hs
  | balIdx j => exact measure_balIdx s s' j hs

end Netpoll.Manager
