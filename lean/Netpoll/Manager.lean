import Netpoll.Gen.Consts
/-!
# The poller pool (`poll_manager.go`, `poll_loadbalance.go`) – interleaving model for C18

One model step per atomic step of the Go code.  Actors are the goroutines inside `manager.Pick`
(any number – counter abstraction over their program counters; the few program points that carry
local data keep a list of the local values instead of a count), plus the environment that starts
new `Pick` calls and – only while no `Pick` is in flight, as the contract requires – applies
`SetNumLoops` / `SetLoadBalance`.

Pollers are ghost identities `0,1,2,…` in order of `openPoll()`; `started` / `closed` are ghost
logs of `go poll.Wait()` and `poll.Close()` calls.  A Go panic of the calling goroutine (nil
interface call, integer divide by zero, index out of range) is an explicit outcome counted in
`panics` (the goroutine is gone), never a default value.

Go source ↔ model step (sites of `hooks/manager.patch` in brackets):

```
Pick:  START: atomic.LoadInt32(&m.status)==2 ?            Act.load      [load]
       CAS(&m.status,0,1) (fail: Gosched; goto START)       Act.cas       [cas]
       m.Run()                                              Act.run i f   (one runner step, below)
       CAS(&m.status,1,2)                                   Act.cas2      [cas2]
       m.balance.Pick()                                     Act.balEnter r, balSize j, balIdx j
Run:   numLoops := atomic.LoadInt32(&m.numLoops); compare with len(m.polls); copy   RPc.load  [rload]
       m.polls[idx].Close()                  (shrink loop)  RPc.close     [rclose]
       poll, err = openPoll()                (grow loop)    RPc.open      [ropen]   (f = it fails; then, in the
         err != nil: m.polls = polls[:idx]; return err                                   same step, the store)
       go poll.Wait()                                       RPc.go        [rgo]
       m.polls = polls                                      RPc.store     [rstore]
       m.balance.Rebalance: b.polls = polls                 RPc.rebal1    [rrebal] (one source statement,
                            b.pollSize = len(polls)         RPc.rebal2              two model steps)
       defer: err != nil → m.Close(): poll.Close() each     RPc.eclose    [mclose]
              m.numLoops = 0; m.balance = nil; m.polls = nil  RPc.eclear  [mclear]
roundRobinLB.Pick: atomic.AddUintptr(&b.accepted,1)         Act.balEnter  [rradd] (one source expression,
                   int(..) % b.pollSize                     Act.balSize            two model steps)
                   b.polls[idx]                             Act.balIdx    [lbidx]
randomLB.Pick:     fastrand.Intn(b.pollSize)                Act.balEnter r [rndsize]
                   b.polls[idx]                             Act.balIdx    [lbidx]
```
-/
namespace Netpoll.Manager
open Netpoll.Gen

/-! ## (c) the balancer arithmetic -/

def two63 : Nat := 9223372036854775808
def two64 : Nat := 18446744073709551616

/-- `int(x)` for `x : uintptr` on a 64-bit platform (two's complement reinterpretation). -/
def toInt64 (c : Nat) : Int := if c < two63 then (c : Int) else (c : Int) - (two64 : Int)

/-- Go's `%` on `int` (truncated division: the sign follows the dividend).
`none` = run-time panic "integer divide by zero". -/
def goRem (a : Int) (n : Nat) : Option Int := if n = 0 then none else some (Int.tmod a (n : Int))

/-- `atomic.AddUintptr(&b.accepted, 1)` : the new value, modulo 2^64. -/
def rrNext (acc : Nat) : Nat := (acc + 1) % two64

/-- `int(c) % b.pollSize` -/
def rrIndex (c size : Nat) : Option Int := goRem (toInt64 c) size

/-- `s[i]` for a Go `int` index; `none` = panic "index out of range". -/
def sliceIndex {α : Type} (l : List α) (i : Int) : Option α := if i < 0 then none else l[i.toNat]?

/-- a whole `roundRobinLB.Pick` executed without interruption: new counter and the slot index
(`none` = the call panics). -/
def rrPick (acc size len : Nat) : Nat × Option Nat :=
  let c := rrNext acc
  match rrIndex c size with
  | none => (c, none)
  | some i => (c, if i < 0 then none else if i.toNat < len then some i.toNat else none)

/-- `k` consecutive uninterrupted round-robin picks starting with counter `acc`:
the slot indices handed out (`none` entries are panics). -/
def rrPicks (acc size len : Nat) : Nat → List (Option Nat)
  | 0 => []
  | k + 1 => (rrPick acc size len).2 :: rrPicks (rrPick acc size len).1 size len k

/-! ## (a) state -/

/-- load-balancing kind of a balancer object -/
inductive LB | rr | rand
  deriving DecidableEq, Repr

/-- `newLoadbalance`'s switch: `Random` → randomLB, everything else → roundRobinLB -/
def LB.ofCode (k : Nat) : LB := if k = c_Random then .rand else .rr
/-- `LoadBalance()` of the balancer object -/
def LB.code : LB → Nat
  | .rr => c_RoundRobin
  | .rand => c_Random

/-- a balancer object (`roundRobinLB` / `randomLB`) -/
structure Bal where
  kind : LB
  polls : List Nat      -- b.polls   (the snapshot)
  size : Nat            -- b.pollSize
  acc : Nat             -- b.accepted (uintptr; unused by randomLB)
  deriving DecidableEq, Repr

/-- program counter inside `manager.Run` (and the deferred `manager.Close` on the error path) -/
inductive RPc | load | close | open | go | store | rebal1 | rebal2 | eclose | eclear
  deriving DecidableEq, Repr

/-- locals of a goroutine inside `Run` -/
structure Runner where
  pc : RPc
  n : Nat := 0          -- numLoops as loaded
  np : List Nat := []   -- the local `polls` being built: the prefix filled so far
  idx : Nat := 0        -- loop variable
  deriving DecidableEq, Repr

structure S where
  -- shared words of `manager`
  status : Nat
  numLoops : Nat
  polls : List Nat            -- m.polls (poller ids)
  bal : Option Bal            -- m.balance (none = nil interface)
  -- pickers by program counter
  cLoad : Nat := 0            -- at START, about to load status
  cCas : Nat := 0             -- about to CAS status 0→1
  runners : List Runner := [] -- inside Run (won the CAS)
  cCas2 : Nat := 0            -- Run returned, about to CAS status 1→2
  cBal : Nat := 0             -- about to call m.balance.Pick()
  tk : List Nat := []         -- roundRobinLB.Pick: counter value obtained, about to read pollSize
  ix : List Int := []         -- index computed, about to read b.polls[idx]
  -- ghost
  opened : Nat := 0           -- pollers ever opened (ids 0 … opened-1)
  started : List Nat := []    -- log of `go poll.Wait()`
  closed : List Nat := []     -- log of `poll.Close()`
  rets : List Nat := []       -- pollers returned by Pick in the current phase
  panics : Nat := 0           -- goroutines that panicked inside Pick
  fails : Nat := 0            -- openPoll() failures injected by the environment
  wraps : Nat := 0            -- round-robin tickets ≥ 2^63 handed out (A-no-wrap broken)
  deriving DecidableEq, Repr

def S.inflight (s : S) : Nat :=
  s.cLoad + s.cCas + s.runners.length + s.cCas2 + s.cBal + s.tk.length + s.ix.length

/-! ## (b) the sequential configuration calls -/

/-- `newLoadbalance(lb, m.polls)` -/
def newBal (k : Nat) (polls : List Nat) : Bal :=
  { kind := LB.ofCode k, polls := polls, size := polls.length, acc := 0 }

/-- `manager.SetLoadBalance(lb)`: nothing if the balancer already reports `lb`; otherwise a fresh
balancer over the current slice (counter 0).  `status` is NOT touched. -/
def setLoadBalance (s : S) (k : Nat) : S :=
  match s.bal with
  | some b => if b.kind.code = k then s else { s with bal := some (newBal k s.polls) }
  | none => { s with bal := some (newBal k s.polls) }

/-- `manager.SetNumLoops(n)`: error (nothing changes) for `n < 1`; otherwise store `numLoops`
first, then `status = uninitialized`.  (`int32(n)` truncation for n ≥ 2^31 is not modelled.) -/
def setNumLoops (s : S) (n : Nat) : S × Bool :=
  if n < 1 then (s, false) else ({ s with numLoops := n, status := c_managerUninitialized }, true)

/-- `newManager(n)`: zero value, `SetLoadBalance(RoundRobin)`, `SetNumLoops(n)` (error ignored). -/
def init (n : Nat) : S :=
  (setNumLoops (setLoadBalance { status := 0, numLoops := 0, polls := [], bal := none } c_RoundRobin) n).1

/-! ## (a) actions and the step function -/

inductive Act
  | spawn                          -- a goroutine enters Pick
  | load                           -- fast path: load status
  | cas                            -- CAS status 0→1; on failure Gosched and back to START
  | run (i : Nat) (fail : Bool)    -- runner i performs its next step (`fail`: openPoll returns an error)
  | cas2                           -- CAS status 1→2 (result ignored)
  | balEnter (r : Nat)             -- m.balance.Pick(): rr → AddUintptr; random → read pollSize, Intn yields r
  | balSize (j : Nat)              -- rr: ticket j reads pollSize, computes int(c) % pollSize
  | balIdx (j : Nat)               -- entry j reads b.polls[idx] and returns it
  | setNumLoops (n : Nat)          -- environment, only when no Pick is in flight
  | setLB (k : Nat)                -- environment, only when no Pick is in flight
  deriving DecidableEq, Repr

/-- the runner at position `i` leaves `Run` (return value is discarded by Pick) -/
def S.runReturn (s : S) (i : Nat) : S :=
  { s with runners := s.runners.eraseIdx i, cCas2 := s.cCas2 + 1 }

/-- the runner at position `i` panics: the goroutine is gone, `status` stays as it is -/
def S.runPanic (s : S) (i : Nat) : S :=
  { s with runners := s.runners.eraseIdx i, panics := s.panics + 1 }

def S.setRunner (s : S) (i : Nat) (r : Runner) : S := { s with runners := s.runners.set i r }

/-- one atomic step of the goroutine inside `Run` -/
def runStep (s : S) (i : Nat) (fail : Bool) : Option S :=
  match s.runners[i]? with
  | none => none
  | some r =>
    match r.pc with
    | .load =>
      let n := s.numLoops
      if n = s.polls.length then some (s.runReturn i)
      else if n < s.polls.length then
        some (s.setRunner i { pc := .close, n := n, np := s.polls.take n, idx := n })
      else
        some (s.setRunner i { pc := .open, n := n, np := s.polls, idx := s.polls.length })
    | .close =>
      match s.polls[r.idx]? with
      | none => some (s.runPanic i)                      -- index out of range
      | some id =>
        let s1 := { s with closed := s.closed ++ [id] }  -- Close error is only logged
        if r.idx + 1 < s.polls.length then some (s1.setRunner i { r with idx := r.idx + 1 })
        else some (s1.setRunner i { r with pc := .store, idx := r.idx + 1 })
    | .open =>
      if fail then
        -- `m.polls = polls[:idx]; return err` (since the fix of F2: the slice filled so far – the old pollers
        -- and the ones opened and started by this call – is handed to the deferred `_ = m.Close()`, which
        -- ranges over m.polls, closes every one of them and clears the manager)
        let s1 := { s with fails := s.fails + 1, polls := r.np }
        if r.np.length = 0 then some (s1.setRunner i { r with pc := .eclear, idx := 0 })
        else some (s1.setRunner i { r with pc := .eclose, idx := 0 })
      else
        some ({ s with opened := s.opened + 1 }.setRunner i { r with pc := .go, np := r.np ++ [s.opened] })
    | .go =>
      match r.np[r.idx]? with
      | none => some (s.runPanic i)
      | some id =>
        let s1 := { s with started := s.started ++ [id] }
        if r.idx + 1 < r.n then some (s1.setRunner i { r with pc := .open, idx := r.idx + 1 })
        else some (s1.setRunner i { r with pc := .store, idx := r.idx + 1 })
    | .store => some ({ s with polls := r.np }.setRunner i { r with pc := .rebal1 })
    | .rebal1 =>
      match s.bal with
      | none => some (s.runPanic i)                      -- nil interface method call
      | some b => some ({ s with bal := some { b with polls := s.polls } }.setRunner i { r with pc := .rebal2 })
    | .rebal2 =>
      match s.bal with
      | none => some (s.runPanic i)
      | some b => some ({ s with bal := some { b with size := s.polls.length } }.runReturn i)
    | .eclose =>
      match s.polls[r.idx]? with
      | none => some (s.runPanic i)
      | some id =>
        let s1 := { s with closed := s.closed ++ [id] }
        if r.idx + 1 < s.polls.length then some (s1.setRunner i { r with idx := r.idx + 1 })
        else some (s1.setRunner i { r with pc := .eclear, idx := r.idx + 1 })
    | .eclear => some ({ s with numLoops := 0, bal := none, polls := [] }.runReturn i)

/-- the failing `openPoll` step of `Run` BEFORE the fix of F2 (`return err` without the store): the deferred
`m.Close()` ranges over the OLD `m.polls`; the pollers opened so far in the local slice are dropped (open, loop
running, in no slice).  Every other step is `runStep`.  Only for the regression witness. -/
def runStepPreF2 (s : S) (i : Nat) (fail : Bool) : Option S :=
  match s.runners[i]? with
  | none => none
  | some r =>
    match r.pc, fail with
    | .open, true =>
      let s1 := { s with fails := s.fails + 1 }
      if s.polls.length = 0 then some (s1.setRunner i { r with pc := .eclear, idx := 0 })
      else some (s1.setRunner i { r with pc := .eclose, idx := 0 })
    | _, _ => runStep s i fail

def step (s : S) : Act → Option S
  | .spawn => some { s with cLoad := s.cLoad + 1 }
  | .load =>
    if s.cLoad = 0 then none
    else if s.status = c_managerInitialized then some { s with cLoad := s.cLoad - 1, cBal := s.cBal + 1 }
    else some { s with cLoad := s.cLoad - 1, cCas := s.cCas + 1 }
  | .cas =>
    if s.cCas = 0 then none
    else if s.status = c_managerUninitialized then
      some { s with status := c_managerInitializing, cCas := s.cCas - 1, runners := s.runners ++ [{ pc := .load }] }
    else some { s with cCas := s.cCas - 1, cLoad := s.cLoad + 1 }
  | .run i fail => runStep s i fail
  | .cas2 =>
    if s.cCas2 = 0 then none
    else if s.status = c_managerInitializing then
      some { s with status := c_managerInitialized, cCas2 := s.cCas2 - 1, cBal := s.cBal + 1 }
    else some { s with cCas2 := s.cCas2 - 1, cBal := s.cBal + 1 }
  | .balEnter r =>
    if s.cBal = 0 then none
    else match s.bal with
      | none => some { s with cBal := s.cBal - 1, panics := s.panics + 1 }       -- nil interface
      | some b =>
        match b.kind with
        | .rr =>
          let c := rrNext b.acc
          some { s with cBal := s.cBal - 1, bal := some { b with acc := c }, tk := s.tk ++ [c],
                        wraps := s.wraps + (if c < two63 then 0 else 1) }
        | .rand =>
          if b.size = 0 then some { s with cBal := s.cBal - 1, panics := s.panics + 1 }  -- Intn(0) panics
          else if r < b.size then some { s with cBal := s.cBal - 1, ix := s.ix ++ [(r : Int)] }
          else none
  | .balSize j =>
    match s.tk[j]? with
    | none => none
    | some c =>
      match s.bal with
      | none => some { s with tk := s.tk.eraseIdx j, panics := s.panics + 1 }
      | some b =>
        match rrIndex c b.size with
        | none => some { s with tk := s.tk.eraseIdx j, panics := s.panics + 1 }  -- divide by zero
        | some i => some { s with tk := s.tk.eraseIdx j, ix := s.ix ++ [i] }
  | .balIdx j =>
    match s.ix[j]? with
    | none => none
    | some i =>
      match s.bal with
      | none => some { s with ix := s.ix.eraseIdx j, panics := s.panics + 1 }
      | some b =>
        match sliceIndex b.polls i with
        | none => some { s with ix := s.ix.eraseIdx j, panics := s.panics + 1 }  -- index out of range
        | some id => some { s with ix := s.ix.eraseIdx j, rets := s.rets ++ [id] }
  | .setNumLoops n =>
    if s.inflight = 0 then some { (setNumLoops s n).1 with rets := [] } else none
  | .setLB k =>
    if s.inflight = 0 then some { setLoadBalance s k with rets := [] } else none

/-- actions of the environment (everything else is a step of a goroutine inside Pick) -/
def Act.isEnv : Act → Bool
  | .spawn | .setNumLoops _ | .setLB _ => true
  | _ => false

/-- states reachable from `newManager n` -/
inductive Reachable (n : Nat) : S → Prop
  | init : Reachable n (init n)
  | step {s s' : S} (a : Act) : Reachable n s → step s a = some s' → Reachable n s'

/-- run a list of actions (used by the driver and the examples) -/
def runActs (s : S) : List Act → Option S
  | [] => some s
  | a :: as => match step s a with
    | none => none
    | some s' => runActs s' as

theorem reachable_runActs {n : Nat} {s s' : S} (as : List Act) (h : Reachable n s)
    (hr : runActs s as = some s') : Reachable n s' := by
  induction as generalizing s with
  | nil => simp [runActs] at hr; exact hr ▸ h
  | cons a as ih =>
    simp only [runActs] at hr
    split at hr
    · cases hr
    · rename_i s1 h1
      exact ih (Reachable.step a h h1) hr

/-- the state after a concrete trace from `newManager n` (for examples and witnesses) -/
def traceEnd (n : Nat) (as : List Act) : S := (runActs (init n) as).getD (init n)

theorem reachable_traceEnd (n : Nat) (as : List Act) (h : (runActs (init n) as).isSome = true) :
    Reachable n (traceEnd n as) := by
  unfold traceEnd
  cases hr : runActs (init n) as with
  | none => simp [hr] at h
  | some s' => exact reachable_runActs as .init hr

/-! ## sequential executions (whole calls by one goroutine; used by the driver for T-diff) -/

/-- the schedule a lone goroutine takes through `Pick`: always the only enabled non-environment
step.  `rnd` resolves `fastrand.Intn`.  Fuel is the number of steps allowed. -/
def soloNext (s : S) (rnd : Nat) : Option Act :=
  if s.cLoad > 0 then some .load
  else if s.cCas > 0 then some .cas
  else if s.runners.length > 0 then some (.run 0 false)
  else if s.cCas2 > 0 then some .cas2
  else if s.cBal > 0 then some (.balEnter rnd)
  else if s.tk.length > 0 then some (.balSize 0)
  else if s.ix.length > 0 then some (.balIdx 0)
  else none

def soloRun (rnd : Nat) : Nat → S → Option S
  | 0, _ => none
  | fuel + 1, s =>
    match soloNext s rnd with
    | none => some s
    | some a => match step s a with
      | none => none
      | some s' => soloRun rnd fuel s'

/-- a complete `Pick()` by a single goroutine on a quiescent manager -/
def soloPick (s : S) (rnd : Nat) : Option S :=
  match step s .spawn with
  | none => none
  | some s1 => soloRun rnd (2 * (s.polls.length + s.numLoops) + 16) s1

/-- `manager.Close()` called by a single goroutine on a quiescent manager -/
def closeAll (s : S) : S :=
  { s with closed := s.closed ++ s.polls, numLoops := 0, bal := none, polls := [] }

/-- run the goroutine at runner position 0 through `Run` (fuel = number of steps allowed) -/
def runToEnd : Nat → S → Option S
  | 0, _ => none
  | fuel + 1, s =>
    if s.runners.length = 0 then some s
    else match step s (.run 0 false) with
      | none => none
      | some s' => runToEnd fuel s'

/-- `manager.Reset()` by a single goroutine on a quiescent manager: close every poller, `m.polls = nil`,
then `Run()`; `status` is not touched.  `none` = `Run` panics (nil balancer). -/
def resetSeq (s : S) : Option S :=
  let s1 := { s with closed := s.closed ++ s.polls, polls := [], runners := [{ pc := .load }] }
  match runToEnd (2 * s.numLoops + 8) s1 with
  | none => none
  | some s2 => if s2.panics = s.panics then some { s2 with cCas2 := s.cCas2 } else none

end Netpoll.Manager
