import Netpoll.Poll.OpCache
/-! Invariant of the slot model `Netpoll.Poll.OpCache` and its preservation by every step (helper lemmas of Props/C10). -/
namespace Netpoll.Poll.OpCache

/-- the invariant: a fetched event always belongs to the callbacks installed (or to nobody), the slot is
never on the free chain while a batch may still dispatch through it, and nothing bad has happened. -/
def Good (s : S) : Prop :=
  s.bad = false ∧
  s.staleHolds = false ∧
  (∀ g, s.pending = some g → s.inBatch = true ∧ (s.cbGen = some g ∨ s.cbGen = none) ∧ g = s.gen) ∧
  (s.pending ≠ none → s.loc ≠ .first) ∧
  (s.pollerHolds = true → s.inBatch = true ∧ s.st = 2 ∧ s.loc = .owned ∧ s.pending = none) ∧
  (s.loc = .first → s.st = 0 ∧ s.cbGen = none ∧ s.registered = false ∧ s.pc = .gone ∧ s.pollerHolds = false) ∧
  (s.loc = .freelist → s.st = 0 ∧ s.cbGen = none ∧ s.registered = false ∧ s.pc = .gone ∧ s.pollerHolds = false) ∧
  (s.loc = .owned → (s.cbGen = some s.gen ∨ (s.cbGen = none ∧ (s.pc = .resetDone ∨ s.pc = .gone))) ∧ s.pc ≠ .gone) ∧
  (s.registered = true → s.loc = .owned ∧ s.pc = .live) ∧
  (s.st = 2 → s.pollerHolds = true ∨ s.ownerHolds = true) ∧
  (s.ownerHolds = true → s.st = 2 ∧ s.pollerHolds = false ∧ s.loc = .owned ∧ (s.pc = .live ∨ s.pc = .detached)) ∧
  (s.pc = .allocated → s.st = 0) ∧ (s.pc = .live → s.st ≥ 1) ∧ (s.pc = .detached → s.st ≥ 1) ∧
  (s.pc = .unusedDone → s.st = 0) ∧ (s.pc = .resetDone → s.st = 0 ∧ s.cbGen = none) ∧
  (s.st ≥ 1 → s.loc = .owned ∧ s.cbGen = some s.gen) ∧ s.st ≤ 2 ∧
  (s.loc = .owned → s.fdOpen = true) ∧
  (∀ g, s.writer = some g → g = s.gen ∧ s.loc = .owned ∧ (s.pc = .live ∨ s.pc = .detached) ∧ s.kind = .conn ∧ s.stopped = false)

theorem good_init : Good init := by
  simp [Good, init]

/-- one step preserves the invariant, provided stale Release calls carry the IsActive guard. -/
theorem good_step (s s' : S) (a : Act) (h : Good s) (hg : guardedAct a = true) (hs : step s a = some s') : Good s' := by
  obtain ⟨loc, st, gen, pc, cbGen, registered, inBatch, pending, pollerHolds, staleHolds, ownerHolds, bad, fdOpen, hupq, kind, writer, stopped⟩ := s
  cases a <;> simp only [step, guardedAct] at hs hg <;> (repeat' split at hs) <;> (try cases hs) <;>
    (try (simp only [Good] at *; grind))

/-- every undelivered hang-up names an owner the slot really had -/
def QOk (s : S) : Prop := ∀ g ∈ s.hupq, g ≤ s.gen

theorem qok_init : QOk init := by simp [QOk, init]

theorem qok_step (s s' : S) (a : Act) (h : QOk s) (hs : step s a = some s') : QOk s' := by
  obtain ⟨loc, st, gen, pc, cbGen, registered, inBatch, pending, pollerHolds, staleHolds, ownerHolds, bad, fdOpen, hupq, kind, writer, stopped⟩ := s
  simp only [QOk] at h
  cases a <;> simp only [step] at hs <;> (repeat' split at hs) <;> (try cases hs) <;> simp only [QOk] <;> intro g hg
  all_goals first
    | exact h g hg
    | exact Nat.le_succ_of_le (h g hg)
    | (rcases List.mem_append.1 hg with hg | hg
       · exact h g hg
       · simp at hg; omega)
    | exact h g (List.mem_of_mem_erase hg)

theorem qok_run (acts : List Act) (s0 s : S) (h0 : QOk s0) (hrun : run s0 acts = some s) : QOk s := by
  induction acts generalizing s0 with
  | nil => simp [run] at hrun; subst hrun; exact h0
  | cons a rest ih =>
    simp only [run] at hrun
    split at hrun
    · simp at hrun
    · rename_i s1 h1
      exact ih s1 (qok_step s0 s1 a h0 h1) hrun

theorem good_run (acts : List Act) (s0 s : S) (h0 : Good s0) (hall : acts.all guardedAct = true)
    (hrun : run s0 acts = some s) : Good s := by
  induction acts generalizing s0 with
  | nil => simp [run] at hrun; subst hrun; exact h0
  | cons a rest ih =>
    simp only [run] at hrun
    simp only [List.all_cons, Bool.and_eq_true] at hall
    split at hrun
    · simp at hrun
    · rename_i s1 h1
      exact ih s1 (good_step s0 s1 a h0 hall.1 h1) hall.2 hrun

end Netpoll.Poll.OpCache
