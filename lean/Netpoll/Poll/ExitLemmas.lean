import Netpoll.Poll.HupLemmas
/-! The close message (loop exit), the token, and small counting facts used by `Netpoll.Props.C11`. -/
namespace Netpoll.Poll

theorem count_map_pair (id : Nat) (c : Cb) (l : List Nat) :
    (l.map (·, c)).count (id, c) = l.count id := by
  induction l with
  | nil => rfl
  | cons a l ih =>
    simp only [List.map_cons, List.count_cons, ih]
    by_cases h : a = id <;> simp [h]

theorem body_no_onHupRun (op : Op) (t : Trig) (sc : Script) : Cb.onHupRun ∉ (body op t sc).tr := by
  intro h
  have := List.all_eq_true.1 (body_isIO op t sc) _ h
  simp [Cb.isIO] at this

theorem body_no_done (op : Op) (t : Trig) (sc : Script) : Cb.done ∉ (body op t sc).tr := by
  intro h
  have := List.all_eq_true.1 (body_isIO op t sc) _ h
  simp [Cb.isIO] at this

/-- `handler` itself never runs a hang-up callback -/
theorem event_no_onHupRun (b : Nat) (op : Op) (st : OpSt) (t : Trig) (sc : Script) :
    Cb.onHupRun ∉ (handleEvent b op st t sc).tr := by
  have hb := body_no_onHupRun op t sc
  rcases handleEvent_tr_cases b op st t sc with h | h | h | h | h | h <;> rw [h] <;> simp [hb, hupTail]

theorem loop_no_onHupRun (evs : List Ev) : ∀ (b : Nat) (st : Nat → OpSt) (h : List (Nat × Bool)) (id : Nat),
    (id, Cb.onHupRun) ∉ (handleLoop b st h evs).tr := by
  induction evs with
  | nil => intro b st h id; simp [handleLoop_nil]
  | cons e es ih =>
    intro b st h id hm
    rw [handleLoop_cons] at hm
    split at hm
    · rcases List.mem_map.1 hm with ⟨c, hc, heq⟩
      cases heq
      exact event_no_onHupRun _ _ _ _ _ hc
    · simp only [List.mem_append] at hm
      rcases hm with hm | hm
      · rcases List.mem_map.1 hm with ⟨c, hc, heq⟩
        cases heq
        exact event_no_onHupRun _ _ _ _ _ hc
      · exact ih _ _ _ _ hm

/-- `handler` returns true only for the wake-up operator, and then its last steps are: close the
eventfd, close the epoll descriptor, `done()` -/
theorem event_exit (b : Nat) (op : Op) (st : OpSt) (t : Trig) (sc : Script)
    (h : (handleEvent b op st t sc).exit = true) :
    st.state = 1 ∧ op.wake = true ∧
      (handleEvent b op st t sc).tr = [.wakeRead, .trigStore, .closeWop, .closeEp, .done] ∧
      (handleEvent b op st t sc).hup = none ∧ (handleEvent b op st t sc).stuck = false := by
  by_cases h1 : st.state = 1
  · by_cases hw : op.wake = true
    · have hwk := handleEvent_wake b op st t sc h1 hw
      refine ⟨h1, hw, ?_, hwk.2.2.1, hwk.2.2.2.2.1⟩
      have he := hwk.2.1
      rw [h] at he
      have hpos := of_decide_eq_true he.symm
      rw [hwk.1]
      simp only [gt_iff_lt] at hpos ⊢
      simp [hpos]
    · have hw' : op.wake = false := by simpa using hw
      by_cases hs : (body op t sc).stuck = true
      · simp [handleEvent, h1, hw', hs] at h
      · have hs' : (body op t sc).stuck = false := by simpa using hs
        have := (handleEvent_conn b op st t sc h1 hw' hs').2.2.2.1
        rw [this] at h; cases h
  · have := (handleEvent_nodo b op st t sc h1).2.2.2.1
    rw [this] at h; cases h

/-- a batch that makes `handler` return true ends with the wake-up operator's five steps, whatever
events follow it in the array; no system call was left hanging, and whatever is in `p.hups` then was
there before or was queued by an event in front of the close message -/
theorem loop_exit (evs : List Ev) : ∀ (b : Nat) (st : Nat → OpSt) (h : List (Nat × Bool)),
    (handleLoop b st h evs).exit = true →
      ∃ pre e post l, evs = pre ++ e :: post ∧ e.op.wake = true ∧
        (handleLoop b st h evs).tr =
          l ++ [(e.id, .wakeRead), (e.id, .trigStore), (e.id, .closeWop), (e.id, .closeEp), (e.id, .done)] ∧
        (∀ x ∈ l, ∃ e' ∈ pre, e'.id = x.1) ∧ (handleLoop b st h evs).ran = [] ∧
        (handleLoop b st h evs).stuck = false ∧
        (∀ p ∈ (handleLoop b st h evs).hups, p ∈ h ∨ ∃ e' ∈ pre, e'.id = p.1) := by
  induction evs with
  | nil => intro b st h hx; simp [handleLoop_nil] at hx
  | cons e es ih =>
    intro b st h hx
    rw [handleLoop_cons] at hx ⊢
    split at hx
    · rename_i hc
      simp only at hx
      have he := event_exit _ _ _ _ _ hx
      refine ⟨[], e, es, [], rfl, he.2.1, ?_, by simp, ?_, ?_, ?_⟩
      · simp only [hc, if_true, he.2.2.1, List.map_cons, List.map_nil, List.nil_append]
      · simp only [hc, if_true]
      · rw [if_pos hc]; exact he.2.2.2.2
      · rw [if_pos hc]
        simp only [he.2.2.2.1]
        intro p hp; exact Or.inl hp
    · rename_i hc
      simp only at hx
      rcases ih _ _ _ hx with ⟨pre, e', post, l, hes, hw, htr, hl, hran, hst, hh⟩
      refine ⟨e :: pre, e', post, (handleEvent b e.op (st e.id) e.trig e.sc).tr.map (e.id, ·) ++ l, by simp [hes], hw, ?_, ?_, ?_, ?_, ?_⟩
      · simp only [hc, if_false, Bool.false_eq_true, htr, List.append_assoc]
      · intro x hxm
        simp only [List.mem_append, List.mem_map] at hxm
        rcases hxm with ⟨c, _, rfl⟩ | hxm
        · exact ⟨e, List.mem_cons_self .., rfl⟩
        · rcases hl x hxm with ⟨e'', he'', hid⟩
          exact ⟨e'', List.mem_cons_of_mem _ he'', hid⟩
      · simp only [hc, if_false, Bool.false_eq_true, hran]
      · rw [if_neg hc]; exact hst
      · rw [if_neg hc]
        intro p hp
        rcases hh p hp with hm | ⟨e'', he'', hid⟩
        · cases hhup : (handleEvent b e.op (st e.id) e.trig e.sc).hup with
          | none => rw [hhup] at hm; exact Or.inl hm
          | some hb =>
            rw [hhup] at hm
            rcases List.mem_append.1 hm with hm | hm
            · exact Or.inl hm
            · right
              refine ⟨e, List.mem_cons_self .., ?_⟩
              simp only [List.mem_singleton] at hm
              rw [hm]
        · exact Or.inr ⟨e'', List.mem_cons_of_mem _ he'', hid⟩

theorem loop_ran_nil (evs : List Ev) : ∀ (b : Nat) (st : Nat → OpSt) (h : List (Nat × Bool)),
    (handleLoop b st h evs).ran = [] := by
  induction evs with
  | nil => intro b st h; rfl
  | cons e es ih =>
    intro b st h
    rw [handleLoop_cons]
    split
    · rfl
    · exact ih _ _ _

theorem batch_fields (b : Nat) (st : Nat → OpSt) (evs : List Ev) :
    (handleBatch b st evs).tr = (handleLoop b st [] evs).tr ∧
    (handleBatch b st evs).hups = (handleLoop b st [] evs).hups ∧
    (handleBatch b st evs).exit = (handleLoop b st [] evs).exit ∧
    (handleBatch b st evs).stuck = (handleLoop b st [] evs).stuck ∧
    (handleBatch b st evs).ran =
      (if (handleLoop b st [] evs).stuck then []
       else ((handleLoop b st [] evs).hups.filter (·.2)).map (·.1)) := by
  by_cases hc : (handleLoop b st [] evs).stuck = true
  · have hr := loop_ran_nil evs b st []
    simp only [handleBatch, hc, if_true, hr, and_self]
  · simp only [handleBatch, hc, if_false, Bool.false_eq_true, and_self]

/-- the wake-up branch, without the case split on the eventfd value -/
theorem handleEvent_wake_tr (b : Nat) (op : Op) (st : OpSt) (t : Trig) (sc : Script)
    (h1 : st.state = 1) (hw : op.wake = true) :
    ((handleEvent b op st t sc).tr = [.wakeRead, .trigStore, .done] ∨
      (handleEvent b op st t sc).tr = [.wakeRead, .trigStore, .closeWop, .closeEp, .done]) ∧
    (handleEvent b op st t sc).usedR = 0 ∧ (handleEvent b op st t sc).usedS = 0 ∧
    (handleEvent b op st t sc).st.state = 1 := by
  unfold handleEvent
  simp only [h1, hw]
  cases sc.wake with
  | none => by_cases hb : b > 0 <;> simp [hb]
  | some c => by_cases hb : c % 256 > 0 <;> simp [hb]

end Netpoll.Poll
