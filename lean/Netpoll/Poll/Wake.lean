import Netpoll.Gen.Poll
/-!
# Trigger / Close / the wake-up branch of `handler` as an interleaving model

Atomic steps (poll_default_linux.go):
* `Trigger`: `atomic.AddUint32(&p.trigger, 1)`; if the result is `> 1` return (coalesced), else
  `syscall.Write(p.wop.FD, {0,0,0,0,0,0,0,1})` (adds 2^56 to the eventfd counter) and return;
* `Close`: `syscall.Write(p.wop.FD, {1,0,0,0,0,0,0,0})` (adds 1);
* the loop: `epoll_wait` returns (with or without the wake-up descriptor in the batch); in the
  wake-up branch `syscall.Read(p.wop.FD, p.buf)` (returns and zeroes the counter), then
  `atomic.StoreUint32(&p.trigger, 0)`, then exit iff `p.buf[0] > 0` (the counter's low byte);
  the pass ends (`handler` returns, `opcache.free()`), the loop waits again.
Any number of `Trigger` callers: the ones between their `Add` and their `Write` are counted
(`writers`).  The eventfd counter is kept as (`trigW` units of 2^56, `closeW` units of 1).
Ghost state: `owed` – a `Trigger` call returned and no pass of the loop has ended since;
`closeOwed` – a `Close` call returned and the loop has not exited; `closes` – `Close` calls so far.
-/
namespace Netpoll.Poll.Wake

inductive Pc where
  | waiting      -- in (or about to call) `epoll_wait`
  | other        -- handling a batch without the wake-up descriptor
  | fetched      -- handling a batch with the wake-up descriptor, before the `Read`
  | afterRead    -- after `Read`, before `StoreUint32(&p.trigger, 0)`
  | afterStore   -- rest of the pass
  | exited       -- `handler` returned true: descriptors closed, `Wait` returned
  deriving DecidableEq, Repr

structure S where
  trigger : Nat := 0
  trigW : Nat := 0
  closeW : Nat := 0
  writers : Nat := 0
  pc : Pc := .waiting
  buf0 : Nat := 0
  got : Nat := 0        -- 2^56-units the last `Read` took, until the `Store`
  owed : Bool := false
  closeOwed : Bool := false
  closes : Nat := 0
  deriving DecidableEq, Repr

inductive Act where
  | trigAdd      -- a `Trigger` call performs its `AddUint32`
  | trigWrite    -- a `Trigger` call that got 1 performs its eventfd write and returns
  | close        -- a `Close` call (at most 255 per poll: the close message is the counter's low byte)
  | wakeUp       -- `epoll_wait` returns a batch containing the (readable) wake-up descriptor
  | otherWake    -- `epoll_wait` returns a batch without it
  | read
  | store
  | passEnd
  deriving DecidableEq, Repr

/-- `none` = the step is not enabled -/
def step (s : S) : Act → Option S
  | .trigAdd =>
    if s.trigger + 1 > Gen.trigger_coalesceAbove then some { s with trigger := s.trigger + 1, owed := true }
    else some { s with trigger := s.trigger + 1, writers := s.writers + 1 }
  | .trigWrite =>
    if s.writers > 0 then some { s with writers := s.writers - 1, trigW := s.trigW + 1, owed := true } else none
  | .close =>
    if s.closes < 255 then some { s with closeW := s.closeW + 1, closes := s.closes + 1, closeOwed := true } else none
  | .wakeUp =>
    if s.pc = .waiting ∧ s.trigW + s.closeW > 0 then some { s with pc := .fetched } else none
  | .otherWake =>
    if s.pc = .waiting then some { s with pc := .other } else none
  | .read =>
    if s.pc = .fetched then
      some { s with pc := .afterRead, buf0 := s.closeW % 256, got := s.trigW, trigW := 0, closeW := 0 }
    else none
  | .store =>
    if s.pc = .afterRead then
      some { s with trigger := 0, got := 0, pc := if s.buf0 > 0 then .exited else .afterStore }
    else none
  | .passEnd =>
    if s.pc = .afterStore ∨ s.pc = .other then some { s with pc := .waiting, owed := false } else none

/-- states reachable from a fresh poll -/
inductive Reachable : S → Prop
  | init : Reachable {}
  | step {s s' : S} (a : Act) : Reachable s → step s a = some s' → Reachable s'

end Netpoll.Poll.Wake
