import Netpoll.Poll.Spec
/-! Helper lemmas about `Netpoll.Poll.Handler` used by `Netpoll.Props.C11`. -/
namespace Netpoll.Poll

/-- the six operator callbacks `handler` invokes while it holds the token -/
def Cb.isIO : Cb → Bool
  | .inputs | .inputAck _ | .outputs | .outputAck _ | .onRead | .onWrite => true
  | _ => false

@[simp] theorem isIO_inputs : Cb.isIO .inputs = true := rfl
@[simp] theorem isIO_inputAck (n : Int) : Cb.isIO (.inputAck n) = true := rfl
@[simp] theorem isIO_outputs : Cb.isIO .outputs = true := rfl
@[simp] theorem isIO_outputAck (n : Int) : Cb.isIO (.outputAck n) = true := rfl
@[simp] theorem isIO_onRead : Cb.isIO .onRead = true := rfl
@[simp] theorem isIO_onWrite : Cb.isIO .onWrite = true := rfl

theorem readall_isIO (ins : List Vec) (rds : List Rd) : (readall ins rds).tr.all Cb.isIO = true := by
  fun_induction readall ins rds <;> simp_all

theorem writePhase_isIO (op : Op) (t : Trig) (sc : Script) (pre : List Cb) (u : Nat)
    (h : pre.all Cb.isIO = true) : (writePhase op t sc pre u).tr.all Cb.isIO = true := by
  unfold writePhase
  repeat' split
  all_goals simp_all

theorem errPhase_isIO (op : Op) (t : Trig) (sc : Script) (pre : List Cb) (u : Nat)
    (h : pre.all Cb.isIO = true) : (errPhase op t sc pre u).tr.all Cb.isIO = true := by
  unfold errPhase
  split
  · exact h
  · exact writePhase_isIO op t sc pre u h

theorem afterReadall_isIO (op : Op) (t : Trig) (sc : Script) (pre : List Cb) (tot : Int) (u : Nat) (r : RA)
    (h : pre.all Cb.isIO = true) (hr : r.tr.all Cb.isIO = true) :
    (afterReadall op t sc pre tot u r).tr.all Cb.isIO = true := by
  have hpr : (pre ++ r.tr).all Cb.isIO = true := by simp_all
  unfold afterReadall
  repeat' split
  all_goals first
    | exact hpr
    | exact errPhase_isIO _ _ _ _ _ hpr

theorem hupPhase_isIO (op : Op) (t : Trig) (sc : Script) (pre : List Cb) (tot : Int) (u : Nat)
    (ins : List Vec) (rds : List Rd)
    (h : pre.all Cb.isIO = true) : (hupPhase op t sc pre tot u ins rds).tr.all Cb.isIO = true := by
  unfold hupPhase
  repeat' split
  all_goals first
    | exact h
    | exact errPhase_isIO _ _ _ _ _ h
    | exact afterReadall_isIO _ _ _ _ _ _ _ h (readall_isIO _ _)

theorem body_isIO (op : Op) (t : Trig) (sc : Script) : (body op t sc).tr.all Cb.isIO = true := by
  unfold body
  repeat' split
  all_goals first
    | exact hupPhase_isIO _ _ _ _ _ _ _ _ (by simp)
    | simp

/-! ## acknowledged counts -/

/-- the positive `InputAck` values of a trace, in order -/
def posAcksOf (tr : List Cb) : List Nat :=
  tr.filterMap fun c => match c with
    | .inputAck n => if n > 0 then some n.toNat else none
    | _ => none

@[simp] theorem posAcksOf_nil : posAcksOf [] = [] := rfl
@[simp] theorem posAcksOf_append (a b : List Cb) : posAcksOf (a ++ b) = posAcksOf a ++ posAcksOf b := by
  simp [posAcksOf, List.filterMap_append]
@[simp] theorem posAcksOf_cons_inputs (l : List Cb) : posAcksOf (.inputs :: l) = posAcksOf l := by
  simp [posAcksOf]
@[simp] theorem posAcksOf_cons_ack_pos (n : Nat) (l : List Cb) :
    posAcksOf (.inputAck ((n : Int) + 1) :: l) = (n + 1) :: posAcksOf l := by
  have : ((n : Int) + 1 > 0) := by omega
  simp [posAcksOf, this]
@[simp] theorem posAcksOf_cons_ack_zero (l : List Cb) : posAcksOf (.inputAck 0 :: l) = posAcksOf l := by
  simp [posAcksOf]
@[simp] theorem posAcksOf_cons_ack_neg (l : List Cb) : posAcksOf (.inputAck (-1) :: l) = posAcksOf l := by
  simp [posAcksOf]
@[simp] theorem posAcksOf_cons_outputs (l : List Cb) : posAcksOf (.outputs :: l) = posAcksOf l := by
  simp [posAcksOf]
@[simp] theorem posAcksOf_cons_outputAck (n : Int) (l : List Cb) : posAcksOf (.outputAck n :: l) = posAcksOf l := by
  simp [posAcksOf]
@[simp] theorem posAcksOf_cons_onRead (l : List Cb) : posAcksOf (.onRead :: l) = posAcksOf l := by
  simp [posAcksOf]
@[simp] theorem posAcksOf_cons_onWrite (l : List Cb) : posAcksOf (.onWrite :: l) = posAcksOf l := by
  simp [posAcksOf]

@[simp] theorem posReads_nil : posReads [] = [] := rfl
@[simp] theorem posReads_append (a b : List Rd) : posReads (a ++ b) = posReads a ++ posReads b := by
  simp [posReads, List.filterMap_append]
@[simp] theorem posReads_cons_pos (n : Nat) (l : List Rd) : posReads (.ok (n + 1) :: l) = (n + 1) :: posReads l := by
  simp [posReads]
@[simp] theorem posReads_cons_zero (l : List Rd) : posReads (.ok 0 :: l) = posReads l := by
  simp [posReads]
@[simp] theorem posReads_cons_again (l : List Rd) : posReads (.again :: l) = posReads l := by
  simp [posReads]
@[simp] theorem posReads_cons_err (l : List Rd) : posReads (.err :: l) = posReads l := by
  simp [posReads]

/-- `readall` acknowledges exactly the positive results of the `readv` calls it made, in order -/
theorem readall_acks (ins : List Vec) (rds : List Rd) :
    posAcksOf (readall ins rds).tr = posReads (rds.take (readall ins rds).used) := by
  fun_induction readall ins rds <;> simp_all

theorem writePhase_acks (op : Op) (t : Trig) (sc : Script) (pre : List Cb) (u : Nat) :
    posAcksOf (writePhase op t sc pre u).tr = posAcksOf pre ∧ (writePhase op t sc pre u).usedR = u := by
  unfold writePhase
  repeat' split
  all_goals simp

theorem errPhase_acks (op : Op) (t : Trig) (sc : Script) (pre : List Cb) (u : Nat) :
    posAcksOf (errPhase op t sc pre u).tr = posAcksOf pre ∧ (errPhase op t sc pre u).usedR = u := by
  unfold errPhase
  split
  · simp
  · exact writePhase_acks op t sc pre u

theorem afterReadall_acks (op : Op) (t : Trig) (sc : Script) (pre : List Cb) (tot : Int) (u : Nat) (r : RA) :
    posAcksOf (afterReadall op t sc pre tot u r).tr = posAcksOf pre ++ posAcksOf r.tr ∧
      (afterReadall op t sc pre tot u r).usedR = u + r.used := by
  unfold afterReadall
  repeat' split
  · simp
  · simp
  · have := errPhase_acks op t sc (pre ++ r.tr) (u + r.used)
    simpa using this

theorem hupPhase_acks (op : Op) (t : Trig) (sc : Script) (pre : List Cb) (tot : Int) (u : Nat)
    (ins : List Vec) (all : List Rd) (h : posAcksOf pre = posReads (all.take u)) :
    posAcksOf (hupPhase op t sc pre tot u ins (all.drop u)).tr =
      posReads (all.take (hupPhase op t sc pre tot u ins (all.drop u)).usedR) := by
  unfold hupPhase
  repeat' split
  · have := afterReadall_acks op t sc pre tot u (readall ins (all.drop u))
    rw [this.1, this.2, readall_acks, h, List.take_add, posReads_append]
  · simpa using h
  · rw [(errPhase_acks op t sc pre u).1, (errPhase_acks op t sc pre u).2]; exact h
  · rw [(errPhase_acks op t sc pre u).1, (errPhase_acks op t sc pre u).2]; exact h

/-- every positive `readv` result consumed while handling one event is acknowledged exactly once, in order -/
theorem body_acks (op : Op) (t : Trig) (sc : Script) :
    posAcksOf (body op t sc).tr = posReads (sc.rds.take (body op t sc).usedR) := by
  have h0 : ∀ pre tot ins, posAcksOf pre = [] →
      posAcksOf (hupPhase op t sc pre tot 0 ins sc.rds).tr =
        posReads (sc.rds.take (hupPhase op t sc pre tot 0 ins sc.rds).usedR) := by
    intro pre tot ins hp
    have := hupPhase_acks op t sc pre tot 0 ins sc.rds (by simpa using hp)
    simpa using this
  unfold body
  repeat' split
  · exact h0 _ _ _ (by simp)
  · exact h0 _ _ _ (by simp)
  · simp
  · simp
  · rename_i r rds _ heq hr
    rw [heq]
    cases r with
    | ok n => cases n <;> simp_all [ioreadRes]
    | again => simp_all [ioreadRes]
    | err => simp [ioreadRes]
  · rename_i ins' r rds _ heq hr
    have := hupPhase_acks op t sc [Cb.inputs, Cb.inputAck (ioreadRes r).fst] (ioreadRes r).fst 1 ins' sc.rds
      (by rw [heq]; cases r with
          | ok n => cases n <;> simp_all [ioreadRes]
          | again => simp [ioreadRes]
          | err => simp_all [ioreadRes])
    rw [heq] at this
    simpa [heq] using this
  · exact h0 _ _ _ (by simp)
  · exact h0 _ _ _ (by simp)

/-! ## hang-up only after a read that found nothing more -/

theorem drainedAt_succ_cons (r : Rd) (rds : List Rd) (k : Nat) (h : drainedAt rds k = true) :
    drainedAt (r :: rds) (k + 1) = true := by
  cases k with
  | zero => simp [drainedAt] at h
  | succ j => simpa [drainedAt] using h

/-- with a connection's `Inputs` (always room) `readall` ends on a read that found nothing more -/
theorem readall_drained (rds : List Rd) (h : (readall [] rds).stuck = false) :
    drainedAt rds (readall [] rds).used = true := by
  induction rds with
  | nil => simp [readall, nextVec] at h
  | cons r rs ih =>
    cases r with
    | ok n =>
      cases n with
      | zero => simp [readall, nextVec, drainedAt, Rd.nonpos]
      | succ m =>
        have h' : (readall [] rs).stuck = false := by simpa [readall, nextVec] using h
        have := drainedAt_succ_cons (.ok (m + 1)) rs _ (ih h')
        simpa [readall, nextVec] using this
    | again => simp [readall, nextVec, drainedAt, Rd.nonpos]
    | err => simp [readall, nextVec, drainedAt, Rd.nonpos]

theorem errPhase_hup_usedR (op : Op) (t : Trig) (sc : Script) (pre : List Cb) (u : Nat) :
    (errPhase op t sc pre u).usedR = u := (errPhase_acks op t sc pre u).2

/-- readable and hang-up reported together to a connection operator (no `OnRead`, `Inputs` always
offers room): if the event ends in a hang-up, the reads made end with one that found nothing more -/
theorem body_drained (op : Op) (t : Trig) (sc : Script)
    (hrd : t.rd = true) (hhup : t.hup = true) (hin : op.inputs = true) (hor : op.onRead = false)
    (hins : sc.ins = []) (hs : (body op t sc).stuck = false) (_hh : (body op t sc).hup = true) :
    drainedAt sc.rds (body op t sc).usedR = true := by
  unfold body at hs ⊢
  simp only [hrd, hor, hin, hins, nextVec, if_true, Bool.false_eq_true, if_false] at hs ⊢
  cases hr : sc.rds with
  | nil => simp [hr] at hs
  | cons r rs =>
    simp only [hr] at hs ⊢
    by_cases he : (ioreadRes r).2 = true
    · simp only [he, if_true]
      cases r with
      | ok n => cases n <;> simp_all [ioreadRes, drainedAt, Rd.nonpos]
      | again => simp [drainedAt, Rd.nonpos]
      | err => simp [drainedAt, Rd.nonpos]
    · simp only [he, Bool.false_eq_true, ↓reduceIte] at hs ⊢
      unfold hupPhase at hs ⊢
      simp only [hhup, hrd, hin, Bool.and_self, if_true] at hs ⊢
      have hst : (readall [] rs).stuck = false := by
        unfold afterReadall at hs
        by_cases h1 : (readall [] rs).stuck = true
        · simp [h1] at hs
        · simpa using h1
      have hu := (afterReadall_acks op t sc [Cb.inputs, Cb.inputAck (ioreadRes r).1] (ioreadRes r).1 1 (readall [] rs)).2
      rw [hu, Nat.add_comm]
      exact drainedAt_succ_cons r rs _ (readall_drained rs hst)

/-! ## shape of one event's trace -/

theorem handleEvent_nodo (b : Nat) (op : Op) (st : OpSt) (t : Trig) (sc : Script) (h : st.state ≠ 1) :
    (handleEvent b op st t sc).tr = [] ∧ (handleEvent b op st t sc).st = st ∧
      (handleEvent b op st t sc).hup = none ∧ (handleEvent b op st t sc).exit = false ∧
      (handleEvent b op st t sc).stuck = false := by
  simp [handleEvent, h]

/-- an ordinary operator whose token was free: the callbacks, then either `done()` or
`appendHup` (queue, detach, `done()`) -/
theorem handleEvent_conn (b : Nat) (op : Op) (st : OpSt) (t : Trig) (sc : Script)
    (h : st.state = 1) (hw : op.wake = false) (hs : (body op t sc).stuck = false) :
    (handleEvent b op st t sc).tr =
        (body op t sc).tr ++ (if (body op t sc).hup then hupTail op st else [.done]) ∧
      (handleEvent b op st t sc).hup = (if (body op t sc).hup then some op.onHup else none) ∧
      (handleEvent b op st t sc).st =
        (if (body op t sc).hup then { state := 1, detached := st.detached + 1 } else { st with state := 1 }) ∧
      (handleEvent b op st t sc).exit = false ∧ (handleEvent b op st t sc).stuck = false ∧
      (handleEvent b op st t sc).buf0 = b ∧
      (handleEvent b op st t sc).usedR = (body op t sc).usedR ∧ (handleEvent b op st t sc).usedS = (body op t sc).usedS := by
  unfold handleEvent
  simp only [h, hw, hs]
  by_cases hh : (body op t sc).hup = true <;> simp [hh]

/-- the wake-up operator -/
theorem handleEvent_wake (b : Nat) (op : Op) (st : OpSt) (t : Trig) (sc : Script)
    (h : st.state = 1) (hw : op.wake = true) :
    let b' := match sc.wake with
      | some c => c % 256
      | none => b
    (handleEvent b op st t sc).tr =
        (if b' > 0 then [.wakeRead, .trigStore, .closeWop, .closeEp, .done] else [.wakeRead, .trigStore, .done]) ∧
      (handleEvent b op st t sc).exit = decide (b' > 0) ∧ (handleEvent b op st t sc).hup = none ∧
      (handleEvent b op st t sc).st = { st with state := 1 } ∧ (handleEvent b op st t sc).stuck = false ∧
      (handleEvent b op st t sc).buf0 = b' := by
  unfold handleEvent
  simp only [h, hw]
  cases sc.wake <;> simp <;> split <;> simp_all

/-! ## the output side -/

/-- the `OutputAck` values of a trace, in order -/
def outAcksOf (tr : List Cb) : List Int :=
  tr.filterMap fun c => match c with
    | .outputAck n => some n
    | _ => none

@[simp] theorem outAcksOf_nil : outAcksOf [] = [] := rfl
@[simp] theorem outAcksOf_append (a b : List Cb) : outAcksOf (a ++ b) = outAcksOf a ++ outAcksOf b := by
  simp [outAcksOf, List.filterMap_append]
@[simp] theorem outAcksOf_cons_inputs (l : List Cb) : outAcksOf (.inputs :: l) = outAcksOf l := by simp [outAcksOf]
@[simp] theorem outAcksOf_cons_inputAck (n : Int) (l : List Cb) : outAcksOf (.inputAck n :: l) = outAcksOf l := by simp [outAcksOf]
@[simp] theorem outAcksOf_cons_outputs (l : List Cb) : outAcksOf (.outputs :: l) = outAcksOf l := by simp [outAcksOf]
@[simp] theorem outAcksOf_cons_outputAck (n : Int) (l : List Cb) : outAcksOf (.outputAck n :: l) = n :: outAcksOf l := by simp [outAcksOf]
@[simp] theorem outAcksOf_cons_onRead (l : List Cb) : outAcksOf (.onRead :: l) = outAcksOf l := by simp [outAcksOf]
@[simp] theorem outAcksOf_cons_onWrite (l : List Cb) : outAcksOf (.onWrite :: l) = outAcksOf l := by simp [outAcksOf]

theorem readall_noOut (ins : List Vec) (rds : List Rd) : outAcksOf (readall ins rds).tr = [] := by
  fun_induction readall ins rds <;> simp_all

/-- at most one `OutputAck`; it carries what `iosend` returned for the one `sendmsg` made (0 without a
system call when the vector has no room) -/
def OutOk (sc : Script) (b : Body) : Prop :=
  (outAcksOf b.tr = [] ∧ b.usedS = 0) ∨
  ((nextVec sc.outs).1 = .zero ∧ outAcksOf b.tr = [0] ∧ b.usedS = 0) ∨
  (∃ s rest, sc.sds = s :: rest ∧ (nextVec sc.outs).1 = .room ∧ outAcksOf b.tr = [(iosendRes s).1] ∧ b.usedS = 1)

theorem writePhase_out (op : Op) (t : Trig) (sc : Script) (pre : List Cb) (u : Nat) (h : outAcksOf pre = []) :
    OutOk sc (writePhase op t sc pre u) := by
  unfold writePhase OutOk
  repeat' split
  all_goals simp_all

theorem errPhase_out (op : Op) (t : Trig) (sc : Script) (pre : List Cb) (u : Nat) (h : outAcksOf pre = []) :
    OutOk sc (errPhase op t sc pre u) := by
  unfold errPhase
  split
  · left; simp [h]
  · exact writePhase_out op t sc pre u h

theorem afterReadall_out (op : Op) (t : Trig) (sc : Script) (pre : List Cb) (tot : Int) (u : Nat) (r : RA)
    (h : outAcksOf pre = []) (hr : outAcksOf r.tr = []) : OutOk sc (afterReadall op t sc pre tot u r) := by
  unfold afterReadall
  repeat' split
  · left; simp [h, hr]
  · left; simp [h, hr]
  · exact errPhase_out _ _ _ _ _ (by simp [h, hr])

theorem hupPhase_out (op : Op) (t : Trig) (sc : Script) (pre : List Cb) (tot : Int) (u : Nat)
    (ins : List Vec) (rds : List Rd) (h : outAcksOf pre = []) : OutOk sc (hupPhase op t sc pre tot u ins rds) := by
  unfold hupPhase
  repeat' split
  · exact afterReadall_out _ _ _ _ _ _ _ h (readall_noOut _ _)
  · left; simp [h]
  · exact errPhase_out _ _ _ _ _ h
  · exact errPhase_out _ _ _ _ _ h

theorem body_out (op : Op) (t : Trig) (sc : Script) : OutOk sc (body op t sc) := by
  unfold body
  repeat' split
  all_goals first
    | exact hupPhase_out _ _ _ _ _ _ _ _ (by simp)
    | (left; simp)

end Netpoll.Poll
