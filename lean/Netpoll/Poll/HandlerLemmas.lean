import Netpoll.Poll.Spec
/-! Helper lemmas about `Netpoll.Poll.Handler` used by `Netpoll.Props.C11`. -/
namespace Netpoll.Poll

/-- the six operator callbacks `handler` invokes while it holds the token -/
def Cb.isIO : Cb → Bool
  | .inputs | .inputAck _ | .outputs | .outputAck _ | .onRead | .onWrite => true
  | _ => false

@[simp] theorem isIO_inputs : Cb.isIO .inputs = true := rfl
@[simp] theorem isIO_inputAck (n : Int) : Cb.isIO (.inputAck n) = true := rfl
@[simp] theorem isIO_outputs : Cb.isIO .outputs = true := rfl
@[simp] theorem isIO_outputAck (n : Int) : Cb.isIO (.outputAck n) = true := rfl
@[simp] theorem isIO_onRead : Cb.isIO .onRead = true := rfl
@[simp] theorem isIO_onWrite : Cb.isIO .onWrite = true := rfl

theorem readall_isIO (ins : List Vec) (rds : List Rd) : (readall ins rds).tr.all Cb.isIO = true := by
  fun_induction readall ins rds <;> simp_all

theorem writePhase_isIO (op : Op) (t : Trig) (sc : Script) (pre : List Cb) (u : Nat)
    (h : pre.all Cb.isIO = true) : (writePhase op t sc pre u).tr.all Cb.isIO = true := by
  unfold writePhase
  repeat' split
  all_goals simp_all

theorem errPhase_isIO (op : Op) (t : Trig) (sc : Script) (pre : List Cb) (u : Nat)
    (h : pre.all Cb.isIO = true) : (errPhase op t sc pre u).tr.all Cb.isIO = true := by
  unfold errPhase
  split
  · exact h
  · exact writePhase_isIO op t sc pre u h

theorem afterReadall_isIO (op : Op) (t : Trig) (sc : Script) (pre : List Cb) (tot : Int) (u : Nat) (r : RA)
    (h : pre.all Cb.isIO = true) (hr : r.tr.all Cb.isIO = true) :
    (afterReadall op t sc pre tot u r).tr.all Cb.isIO = true := by
  have hpr : (pre ++ r.tr).all Cb.isIO = true := by simp_all
  unfold afterReadall
  repeat' split
  all_goals first
    | exact hpr
    | exact errPhase_isIO _ _ _ _ _ hpr

theorem hupPhase_isIO (op : Op) (t : Trig) (sc : Script) (pre : List Cb) (tot : Int) (u : Nat)
    (ins : List Vec) (rds : List Rd)
    (h : pre.all Cb.isIO = true) : (hupPhase op t sc pre tot u ins rds).tr.all Cb.isIO = true := by
  unfold hupPhase
  repeat' split
  all_goals first
    | exact h
    | exact errPhase_isIO _ _ _ _ _ h
    | exact afterReadall_isIO _ _ _ _ _ _ _ h (readall_isIO _ _)

theorem body_isIO (op : Op) (t : Trig) (sc : Script) : (body op t sc).tr.all Cb.isIO = true := by
  unfold body
  repeat' split
  all_goals first
    | exact hupPhase_isIO _ _ _ _ _ _ _ _ (by simp)
    | simp

/-! ## acknowledged counts -/

/-- the positive `InputAck` values of a trace, in order -/
def posAcksOf (tr : List Cb) : List Nat :=
  tr.filterMap fun c => match c with
    | .inputAck n => if n > 0 then some n.toNat else none
    | _ => none

@[simp] theorem posAcksOf_nil : posAcksOf [] = [] := rfl
@[simp] theorem posAcksOf_append (a b : List Cb) : posAcksOf (a ++ b) = posAcksOf a ++ posAcksOf b := by
  simp [posAcksOf, List.filterMap_append]
@[simp] theorem posAcksOf_cons_inputs (l : List Cb) : posAcksOf (.inputs :: l) = posAcksOf l := by
  simp [posAcksOf]
@[simp] theorem posAcksOf_cons_ack_pos (n : Nat) (l : List Cb) :
    posAcksOf (.inputAck ((n : Int) + 1) :: l) = (n + 1) :: posAcksOf l := by
  have : ((n : Int) + 1 > 0) := by omega
  simp [posAcksOf, this]
@[simp] theorem posAcksOf_cons_ack_zero (l : List Cb) : posAcksOf (.inputAck 0 :: l) = posAcksOf l := by
  simp [posAcksOf]
@[simp] theorem posAcksOf_cons_ack_neg (l : List Cb) : posAcksOf (.inputAck (-1) :: l) = posAcksOf l := by
  simp [posAcksOf]
@[simp] theorem posAcksOf_cons_outputs (l : List Cb) : posAcksOf (.outputs :: l) = posAcksOf l := by
  simp [posAcksOf]
@[simp] theorem posAcksOf_cons_outputAck (n : Int) (l : List Cb) : posAcksOf (.outputAck n :: l) = posAcksOf l := by
  simp [posAcksOf]
@[simp] theorem posAcksOf_cons_onRead (l : List Cb) : posAcksOf (.onRead :: l) = posAcksOf l := by
  simp [posAcksOf]
@[simp] theorem posAcksOf_cons_onWrite (l : List Cb) : posAcksOf (.onWrite :: l) = posAcksOf l := by
  simp [posAcksOf]

@[simp] theorem posReads_nil : posReads [] = [] := rfl
@[simp] theorem posReads_append (a b : List Rd) : posReads (a ++ b) = posReads a ++ posReads b := by
  simp [posReads, List.filterMap_append]
@[simp] theorem posReads_cons_pos (n : Nat) (l : List Rd) : posReads (.ok (n + 1) :: l) = (n + 1) :: posReads l := by
  simp [posReads]
@[simp] theorem posReads_cons_zero (l : List Rd) : posReads (.ok 0 :: l) = posReads l := by
  simp [posReads]
@[simp] theorem posReads_cons_again (l : List Rd) : posReads (.again :: l) = posReads l := by
  simp [posReads]
@[simp] theorem posReads_cons_err (l : List Rd) : posReads (.err :: l) = posReads l := by
  simp [posReads]

/-- `readall` acknowledges exactly the positive results of the `readv` calls it made, in order -/
theorem readall_acks (ins : List Vec) (rds : List Rd) :
    posAcksOf (readall ins rds).tr = posReads (rds.take (readall ins rds).used) := by
  fun_induction readall ins rds <;> simp_all

theorem writePhase_acks (op : Op) (t : Trig) (sc : Script) (pre : List Cb) (u : Nat) :
    posAcksOf (writePhase op t sc pre u).tr = posAcksOf pre ∧ (writePhase op t sc pre u).usedR = u := by
  unfold writePhase
  repeat' split
  all_goals simp

theorem errPhase_acks (op : Op) (t : Trig) (sc : Script) (pre : List Cb) (u : Nat) :
    posAcksOf (errPhase op t sc pre u).tr = posAcksOf pre ∧ (errPhase op t sc pre u).usedR = u := by
  unfold errPhase
  split
  · simp
  · exact writePhase_acks op t sc pre u

theorem afterReadall_acks (op : Op) (t : Trig) (sc : Script) (pre : List Cb) (tot : Int) (u : Nat) (r : RA) :
    posAcksOf (afterReadall op t sc pre tot u r).tr = posAcksOf pre ++ posAcksOf r.tr ∧
      (afterReadall op t sc pre tot u r).usedR = u + r.used := by
  unfold afterReadall
  repeat' split
  · simp
  · simp
  · have := errPhase_acks op t sc (pre ++ r.tr) (u + r.used)
    simpa using this

theorem hupPhase_acks (op : Op) (t : Trig) (sc : Script) (pre : List Cb) (tot : Int) (u : Nat)
    (ins : List Vec) (all : List Rd) (h : posAcksOf pre = posReads (all.take u)) :
    posAcksOf (hupPhase op t sc pre tot u ins (all.drop u)).tr =
      posReads (all.take (hupPhase op t sc pre tot u ins (all.drop u)).usedR) := by
  unfold hupPhase
  repeat' split
  · have := afterReadall_acks op t sc pre tot u (readall ins (all.drop u))
    rw [this.1, this.2, readall_acks, h, List.take_add, posReads_append]
  · simpa using h
  · rw [(errPhase_acks op t sc pre u).1, (errPhase_acks op t sc pre u).2]; exact h
  · rw [(errPhase_acks op t sc pre u).1, (errPhase_acks op t sc pre u).2]; exact h

/-- every positive `readv` result consumed while handling one event is acknowledged exactly once, in order -/
theorem body_acks (op : Op) (t : Trig) (sc : Script) :
    posAcksOf (body op t sc).tr = posReads (sc.rds.take (body op t sc).usedR) := by
  have h0 : ∀ pre tot ins, posAcksOf pre = [] →
      posAcksOf (hupPhase op t sc pre tot 0 ins sc.rds).tr =
        posReads (sc.rds.take (hupPhase op t sc pre tot 0 ins sc.rds).usedR) := by
    intro pre tot ins hp
    have := hupPhase_acks op t sc pre tot 0 ins sc.rds (by simpa using hp)
    simpa using this
  unfold body
  repeat' split
  · exact h0 _ _ _ (by simp)
  · exact h0 _ _ _ (by simp)
  · simp
  · simp
  · rename_i r rds _ heq hr
    rw [heq]
    cases r with
    | ok n => cases n <;> simp_all [ioreadRes]
    | again => simp_all [ioreadRes]
    | err => simp [ioreadRes]
  · rename_i ins' r rds _ heq hr
    have := hupPhase_acks op t sc [Cb.inputs, Cb.inputAck (ioreadRes r).fst] (ioreadRes r).fst 1 ins' sc.rds
      (by rw [heq]; cases r with
          | ok n => cases n <;> simp_all [ioreadRes]
          | again => simp [ioreadRes]
          | err => simp_all [ioreadRes])
    rw [heq] at this
    simpa [heq] using this
  · exact h0 _ _ _ (by simp)
  · exact h0 _ _ _ (by simp)

end Netpoll.Poll
