import Netpoll.Gen.Poll
/-!
# Model of `defaultPoll.handler` (poll_default_linux.go), `appendHup`/`onhups`/`readall`
(poll_default.go), `ioread`/`iosend` (net_io.go) and the `Wait` growth rule.

Pure and total.  The environment (kernel + operator callbacks) is a *script*:
* `rds`  – results of the successive `readv` system calls on the descriptor,
* `sds`  – results of the successive `sendmsg` system calls,
* `ins` / `outs` – shape of the vector returned by the successive `Inputs` / `Outputs` calls
  (exhausted ⇒ `room`, which is what a connection always returns),
* `errq k` – does the error-queue probe answer `EAGAIN` after `k` `readv` calls were made,
* `wake` – result of `syscall.Read` on the wake-up eventfd.

The model mirrors the code, quirks included:
* `ioread` turns `(0,nil)` into `ErrEOF`, `EAGAIN`/`EINTR` into `(0,nil)`; any other errno keeps
  `n = int(r) = -1`, which is passed to `InputAck` and added to `totalRead`;
* `readv`/`sendmsg` on a vector without room return `(0,nil)` *without* a system call; `resetIovecs`
  leaves the vector in that shape, so `readall`'s `goto TryRead` after `EAGAIN` reports EOF;
* `readall` runs for `triggerRead && Inputs != nil` even when `OnRead` took the read branch;
* hang up only if `totalRead == 0`; the ERR probe and the write branch are skipped after a hang-up;
* `appendHup` appends `OnHup` (possibly nil) to `p.hups`, *then* detaches, then `done()`;
* the close message makes `handler` return at once: later events of the batch are not
  processed; the wake-up branch calls `onhups()` before `return true`, so the hang-ups queued
  earlier in the batch are still reported (the code before that fix is `Netpoll.Poll.HandlerOld`).
-/
namespace Netpoll.Poll

/-- the four conditions `handler` derives from `events[i].events` -/
structure Trig where
  rd : Bool
  wr : Bool
  hup : Bool
  err : Bool
  deriving DecidableEq, Repr

/-- `evt & mask != 0` with the masks read off the source by the extractor -/
def Trig.ofEvt (evt : Nat) : Trig :=
  { rd := evt &&& Gen.handler_triggerRead != 0
    wr := evt &&& Gen.handler_triggerWrite != 0
    hup := evt &&& Gen.handler_triggerHup != 0
    err := evt &&& Gen.handler_triggerError != 0 }

/-- result of one `readv`: `r ≥ 0`, `EAGAIN`/`EINTR`, or another errno (`r = -1`) -/
inductive Rd where
  | ok (n : Nat)
  | again
  | err
  deriving DecidableEq, Repr

/-- result of one `sendmsg`: `r ≥ 0`, `EAGAIN`, or another errno (incl. `EINTR`; `r = -1`) -/
inductive Sd where
  | ok (n : Nat)
  | again
  | err
  deriving DecidableEq, Repr

/-- shape of the `[][]byte` an `Inputs`/`Outputs` call returns: some chunk has room, all chunks are
empty/nil (`iovecs` yields 0 entries), or `len(bs) == 0` -/
inductive Vec where
  | room
  | zero
  | empty
  deriving DecidableEq, Repr

/-- which callbacks the FDOperator carries (`Inputs` implies `InputAck`, `Outputs` implies
`OutputAck`: "must exist when used"); `wake` = it is `p.wop` -/
structure Op where
  wake : Bool := false
  onRead : Bool := false
  onWrite : Bool := false
  onHup : Bool := false
  inputs : Bool := false
  outputs : Bool := false
  deriving DecidableEq, Repr

/-- the two words of the FDOperator the poller touches -/
structure OpSt where
  state : Nat      -- 0 unused, 1 inuse, 2 do-done
  detached : Nat   -- `detached` counter ("protect only detach once")
  deriving DecidableEq, Repr

structure Script where
  rds : List Rd := []
  sds : List Sd := []
  ins : List Vec := []
  outs : List Vec := []
  errq : Nat → Bool := fun _ => true
  wake : Option Nat := none

/-- what the poller does, in order -/
inductive Cb where
  | inputs
  | inputAck (n : Int)
  | outputs
  | outputAck (n : Int)
  | onRead
  | onWrite
  | hupQueued (has : Bool)     -- `p.hups = append(p.hups, operator.OnHup)`; `has` = non-nil
  | detach (ctl : Bool)        -- `operator.Control(PollDetach)`; `ctl` = it reached `poll.Control` (EPOLL_CTL_DEL)
  | done                       -- `operator.done()`
  | wakeRead                   -- `syscall.Read(p.wop.FD, p.buf)`
  | trigStore                  -- `atomic.StoreUint32(&p.trigger, 0)`
  | closeWop                   -- `syscall.Close(p.wop.FD)`
  | closeEp                    -- `syscall.Close(p.fd)`
  | onHupRun                   -- the queued `OnHup` invoked by the `onhups` goroutine
  deriving DecidableEq, Repr

def nextVec : List Vec → Vec × List Vec
  | [] => (.room, [])
  | v :: r => (v, r)

/-- `ioread` on a vector with room: `(n, err != nil)` -/
def ioreadRes : Rd → Int × Bool
  | .ok 0 => (0, true)          -- EOF
  | .ok n => (n, false)
  | .again => (0, false)
  | .err => (-1, true)

/-- `iosend` on a vector with room -/
def iosendRes : Sd → Int × Bool
  | .ok n => (n, false)
  | .again => (0, false)
  | .err => (-1, true)

/-- result of `readall` -/
structure RA where
  tr : List Cb
  total : Int
  used : Nat       -- `readv` system calls made
  stuck : Bool     -- script exhausted inside a system call
  deriving Repr

/-- `readall(op, br)`; recursion on the `readv` script (every iteration that continues consumed a
positive result) -/
def readall (ins : List Vec) (rds : List Rd) : RA :=
  match nextVec ins, rds with
  | (.empty, _), _ => { tr := [.inputs], total := 0, used := 0, stuck := false }
  | (.zero, _), _ => { tr := [.inputs, .inputAck 0], total := 0, used := 0, stuck := false }
  | (.room, _), [] => { tr := [.inputs], total := 0, used := 0, stuck := true }
  | (.room, _), .ok 0 :: _ => { tr := [.inputs, .inputAck 0], total := 0, used := 1, stuck := false }
  | (.room, _), .again :: _ =>
    -- (0,nil): `goto TryRead` with the vector `resetIovecs` emptied: no system call, ErrEOF
    { tr := [.inputs, .inputAck 0, .inputAck 0], total := 0, used := 1, stuck := false }
  | (.room, _), .err :: _ => { tr := [.inputs, .inputAck (-1)], total := -1, used := 1, stuck := false }
  | (.room, ins'), .ok (n+1) :: rs =>
    { tr := .inputs :: .inputAck (n+1 : Nat) :: (readall ins' rs).tr
      total := (n+1 : Nat) + (readall ins' rs).total
      used := (readall ins' rs).used + 1
      stuck := (readall ins' rs).stuck }

/-- the part of one event's handling before the closing step -/
structure Body where
  tr : List Cb
  hup : Bool        -- closes with `appendHup` (else with plain `done()`)
  usedR : Nat
  usedS : Nat
  stuck : Bool
  deriving Repr

/-- `if triggerWrite {...}` -/
def writePhase (op : Op) (t : Trig) (sc : Script) (pre : List Cb) (usedR : Nat) : Body :=
  if t.wr then
    if op.onWrite then { tr := pre ++ [.onWrite], hup := false, usedR, usedS := 0, stuck := false }
    else if op.outputs then
      match (nextVec sc.outs).1, sc.sds with
      | .empty, _ => { tr := pre ++ [.outputs], hup := false, usedR, usedS := 0, stuck := false }
      | .zero, _ => { tr := pre ++ [.outputs, .outputAck 0], hup := false, usedR, usedS := 0, stuck := false }
      | .room, [] => { tr := pre ++ [.outputs], hup := false, usedR, usedS := 0, stuck := true }
      | .room, s :: _ =>
        { tr := pre ++ [.outputs, .outputAck (iosendRes s).1], hup := (iosendRes s).2, usedR, usedS := 1, stuck := false }
    else { tr := pre, hup := false, usedR, usedS := 0, stuck := false }
  else { tr := pre, hup := false, usedR, usedS := 0, stuck := false }

/-- `if triggerError {...}` then the write phase -/
def errPhase (op : Op) (t : Trig) (sc : Script) (pre : List Cb) (usedR : Nat) : Body :=
  if t.err then
    { tr := pre, hup := !(sc.errq usedR), usedR, usedS := 0, stuck := false }
  else writePhase op t sc pre usedR

/-- after `readall` returned `r`: `totalRead += leftRead`, hang up only if nothing was read -/
def afterReadall (op : Op) (t : Trig) (sc : Script) (pre : List Cb) (totalRead : Int) (usedR : Nat) (r : RA) : Body :=
  if r.stuck then { tr := pre ++ r.tr, hup := false, usedR := usedR + r.used, usedS := 0, stuck := true }
  else if totalRead + r.total == 0 then
    { tr := pre ++ r.tr, hup := true, usedR := usedR + r.used, usedS := 0, stuck := false }
  else errPhase op t sc (pre ++ r.tr) (usedR + r.used)

/-- `if triggerHup {...}` then the rest -/
def hupPhase (op : Op) (t : Trig) (sc : Script) (pre : List Cb) (totalRead : Int) (usedR : Nat)
    (ins : List Vec) (rds : List Rd) : Body :=
  if t.hup then
    if t.rd && op.inputs then afterReadall op t sc pre totalRead usedR (readall ins rds)
    else if totalRead == 0 then { tr := pre, hup := true, usedR, usedS := 0, stuck := false }
    else errPhase op t sc pre usedR
  else errPhase op t sc pre usedR

/-- the cascade for an operator that is not the wake-up descriptor -/
def body (op : Op) (t : Trig) (sc : Script) : Body :=
  if t.rd then
    if op.onRead then hupPhase op t sc [.onRead] 0 0 sc.ins sc.rds
    else if op.inputs then
      match nextVec sc.ins, sc.rds with
      | (.empty, ins'), rds => hupPhase op t sc [.inputs] 0 0 ins' rds
      | (.zero, _), _ => { tr := [.inputs, .inputAck 0], hup := true, usedR := 0, usedS := 0, stuck := false }
      | (.room, _), [] => { tr := [.inputs], hup := false, usedR := 0, usedS := 0, stuck := true }
      | (.room, ins'), r :: rds =>
        if (ioreadRes r).2 then
          { tr := [.inputs, .inputAck (ioreadRes r).1], hup := true, usedR := 1, usedS := 0, stuck := false }
        else hupPhase op t sc [.inputs, .inputAck (ioreadRes r).1] (ioreadRes r).1 1 ins' rds
    else hupPhase op t sc [] 0 0 sc.ins sc.rds
  else hupPhase op t sc [] 0 0 sc.ins sc.rds

/-- `appendHup`: queue `OnHup`, `Control(PollDetach)`, `done()` -/
def hupTail (op : Op) (st : OpSt) : List Cb :=
  [.hupQueued op.onHup, .detach (st.detached == 0), .done]

/-- outcome of one event -/
structure EvOut where
  tr : List Cb
  st : OpSt
  hup : Option Bool    -- an entry was appended to `p.hups` (`some true` = non-nil OnHup)
  exit : Bool          -- `handler` returns true
  buf0 : Nat           -- `p.buf[0]` afterwards
  usedR : Nat
  usedS : Nat
  stuck : Bool

/-- one iteration of `for i := range events` -/
def handleEvent (buf0 : Nat) (op : Op) (st : OpSt) (t : Trig) (sc : Script) : EvOut :=
  if st.state != 1 then
    -- `!operator.do()`
    { tr := [], st, hup := none, exit := false, buf0, usedR := 0, usedS := 0, stuck := false }
  else if op.wake then
    let b := match sc.wake with
      | some c => c % 256      -- little-endian counter, `p.buf[0]`
      | none => buf0           -- read failed: buffer keeps its old content
    if b > 0 then
      { tr := [.wakeRead, .trigStore, .closeWop, .closeEp, .done], st := { st with state := 1 }, hup := none,
        exit := true, buf0 := b, usedR := 0, usedS := 0, stuck := false }
    else
      { tr := [.wakeRead, .trigStore, .done], st := { st with state := 1 }, hup := none,
        exit := false, buf0 := b, usedR := 0, usedS := 0, stuck := false }
  else
    let b := body op t sc
    if b.stuck then
      { tr := b.tr, st := { st with state := 2 }, hup := none, exit := false, buf0, usedR := b.usedR,
        usedS := b.usedS, stuck := true }
    else if b.hup then
      { tr := b.tr ++ hupTail op st, st := { state := 1, detached := st.detached + 1 }, hup := some op.onHup,
        exit := false, buf0, usedR := b.usedR, usedS := b.usedS, stuck := false }
    else
      { tr := b.tr ++ [.done], st := { st with state := 1 }, hup := none, exit := false, buf0,
        usedR := b.usedR, usedS := b.usedS, stuck := false }

/-- one `epollevent` of a batch: which operator (`id` stands for the pointer in `data`), its
callbacks, the flags and the environment's answers while it is handled -/
structure Ev where
  id : Nat
  op : Op
  trig : Trig
  sc : Script

structure BatchOut where
  tr : List (Nat × Cb)        -- what `handler` did, in order
  hups : List (Nat × Bool)    -- `p.hups` when the loop over the events ended
  ran : List Nat              -- `OnHup`s invoked by the goroutine `onhups` spawned (in order)
  exit : Bool
  st : Nat → OpSt
  buf0 : Nat
  stuck : Bool

def setSt (st : Nat → OpSt) (id : Nat) (s : OpSt) : Nat → OpSt := fun j => if j = id then s else st j

/-- the `for` loop of `handler`: accumulates `p.hups`; stops at the close message -/
def handleLoop (buf0 : Nat) (st : Nat → OpSt) (hups : List (Nat × Bool)) : List Ev → BatchOut
  | [] => { tr := [], hups, ran := [], exit := false, st, buf0, stuck := false }
  | e :: es =>
    let o := handleEvent buf0 e.op (st e.id) e.trig e.sc
    let st' := setSt st e.id o.st
    let hups' := match o.hup with
      | some h => hups ++ [(e.id, h)]
      | none => hups
    if o.exit || o.stuck then
      { tr := o.tr.map (e.id, ·), hups := hups', ran := [], exit := o.exit, st := st', buf0 := o.buf0, stuck := o.stuck }
    else
      let r := handleLoop o.buf0 st' hups' es
      { r with tr := o.tr.map (e.id, ·) ++ r.tr }

/-- `handler(events)`: the loop, then `onhups()` – after the last event, or in the wake-up branch
right before `return true` (a script that ran dry inside a system call ends the model's run) -/
def handleBatch (buf0 : Nat) (st : Nat → OpSt) (evs : List Ev) : BatchOut :=
  let r := handleLoop buf0 st [] evs
  if r.stuck then r
  else { r with ran := (r.hups.filter (·.2)).map (·.1) }

/-- everything that happened for the batch, in order: the handler's steps, then the hang-up
goroutine's calls -/
def BatchOut.full (r : BatchOut) : List (Nat × Cb) := r.tr ++ r.ran.map (·, .onHupRun)

/-- `Wait`: `if n == p.size && p.size < 128*1024 { p.Reset(p.size<<1, caps) }` -/
def nextSize (size n : Nat) : Nat :=
  if n == size && size < Gen.wait_maxSize then size * 2 else size

end Netpoll.Poll
