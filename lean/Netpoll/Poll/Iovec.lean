/-
Model of sys_exec.go `iovecs` (chunk list -> iovec array, empty chunks skipped, total limited to
MaxInt32) and of one kernel transfer, for C04.  Core Lean only.
-/
namespace Netpoll.Poll

def maxInt32 : Nat := 2147483647

/-- `iovecs(bs, ivs)`: the lengths written to the iovec array, given the chunk lengths and the running
`totalLen`.  Go: `totalLen += l; if totalLen < MaxInt32 { SetLen(l) } else { SetLen(MaxInt32 - totalLen + l); return }`. -/
def iovecLens : List Nat → Nat → List Nat
  | [], _ => []
  | l :: rest, tot =>
    if l = 0 then iovecLens rest tot
    else if tot + l < maxInt32 then l :: iovecLens rest (tot + l)
    else [maxInt32 - tot]

/-- the bytes the iovec array denotes -/
def iovecBytes {α : Type} : List (List α) → Nat → List α
  | [], _ => []
  | c :: rest, tot =>
    if c.length = 0 then iovecBytes rest tot
    else if tot + c.length < maxInt32 then c ++ iovecBytes rest (tot + c.length)
    else c.take (maxInt32 - tot)

theorem iovecBytes_length {α : Type} (cs : List (List α)) (tot : Nat) :
    (iovecBytes cs tot).length = (iovecLens (cs.map List.length) tot).sum := by
  induction cs generalizing tot with
  | nil => simp [iovecBytes, iovecLens]
  | cons c rest ih =>
    simp only [iovecBytes, iovecLens, List.map_cons]
    split
    · exact ih tot
    · split
      · simp [ih]
      · simp; omega

/-- `iovecs` denotes exactly the first `min(total, MaxInt32 - tot)` bytes of the concatenated chunks:
nothing skipped, nothing twice, nothing reordered. -/
theorem iovecs_prefix {α : Type} (cs : List (List α)) (tot : Nat) (h : tot < maxInt32) :
    iovecBytes cs tot = cs.flatten.take (maxInt32 - tot) := by
  induction cs generalizing tot with
  | nil => simp [iovecBytes]
  | cons c rest ih =>
    simp only [iovecBytes, List.flatten_cons]
    split
    · rename_i h0
      have : c = [] := List.eq_nil_of_length_eq_zero h0
      subst this; simpa using ih tot h
    · split
      · rename_i _ hlt
        rw [ih (tot + c.length) hlt, List.take_append]
        have h1 : c.take (maxInt32 - tot) = c := List.take_of_length_le (by omega)
        rw [h1]
        congr 2
        omega
      · rename_i _ hge
        rw [List.take_append_of_le_length (by omega)]

/-- every iovec entry is non-empty (the kernel never sees a zero-length vector from us) and the total never exceeds MaxInt32 -/
theorem iovecLens_pos (ls : List Nat) (tot : Nat) (h : tot < maxInt32) : ∀ x ∈ iovecLens ls tot, 0 < x := by
  induction ls generalizing tot with
  | nil => simp [iovecLens]
  | cons l rest ih =>
    simp only [iovecLens]
    split
    · exact ih tot h
    · split
      · rename_i _ hlt
        intro x hx
        rcases List.mem_cons.mp hx with rfl | hx
        · omega
        · exact ih _ hlt x hx
      · intro x hx; simp at hx; omega

end Netpoll.Poll
