import Netpoll.Poll.Handler
/-!
# `defaultPoll.handler` BEFORE the fix "the close message must not drop the hang-ups queued in its batch"

The wake-up branch of `handler` used to `return true` without calling `onhups()`: an operator that
had gone through `appendHup` earlier in the same batch (queued, `EPOLL_CTL_DEL` done, token given
back) never got its `OnHup`.  Only the last step differs from `Netpoll.Poll.handleBatch`; the
per-event function and the loop are shared.  Kept as the record of the defect (regression replay:
`corpus/C11/f01-close-drops-hups.ops`); nothing else depends on this file.
-/
namespace Netpoll.Poll.HandlerOld
open Netpoll.Poll

/-- pre-fix `handler(events)`: the loop, then `onhups()` unless the loop returned early -/
def handleBatchOld (buf0 : Nat) (st : Nat → OpSt) (evs : List Ev) : BatchOut :=
  let r := handleLoop buf0 st [] evs
  if r.exit || r.stuck then r
  else { r with ran := (r.hups.filter (·.2)).map (·.1) }

def conn : Op := { onHup := true, inputs := true, outputs := true }
def hupEv (id : Nat) : Ev :=
  { id, op := conn, trig := { rd := true, wr := false, hup := true, err := false }, sc := { rds := [.ok 0, .ok 0] } }
def closeEv (id : Nat) : Ev :=
  { id, op := { wake := true }, trig := { rd := true, wr := false, hup := false, err := false }, sc := { wake := some 1 } }
def allFree : Nat → OpSt := fun _ => { state := 1, detached := 0 }

/-- the defect: a close message behind a hang-up in one batch – the operator was detached, its
`OnHup` was queued, `handler` returned true, and `OnHup` never ran -/
theorem close_drops_hups_prefix_witness :
    (1, Cb.detach true) ∈ (handleBatchOld 0 allFree [hupEv 1, closeEv 9]).tr ∧
    (handleBatchOld 0 allFree [hupEv 1, closeEv 9]).hups = [(1, true)] ∧
    (handleBatchOld 0 allFree [hupEv 1, closeEv 9]).exit = true ∧
    (1, Cb.onHupRun) ∉ (handleBatchOld 0 allFree [hupEv 1, closeEv 9]).full := by decide

/-- the repaired `handler` on the same batch: the hang-up is reported, after the wake-up operator's `done()` -/
theorem close_keeps_hups_postfix :
    (handleBatch 0 allFree [hupEv 1, closeEv 9]).exit = true ∧
    (handleBatch 0 allFree [hupEv 1, closeEv 9]).full.getLast? = some (1, Cb.onHupRun) := by decide

/-- the two agree on every batch in which `handler` does not return true -/
theorem old_eq_of_no_exit (b : Nat) (st : Nat → OpSt) (evs : List Ev)
    (h : (handleLoop b st [] evs).exit = false) : handleBatchOld b st evs = handleBatch b st evs := by
  simp [handleBatchOld, handleBatch, h]

end Netpoll.Poll.HandlerOld
