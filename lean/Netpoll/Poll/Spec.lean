import Netpoll.Poll.Handler
/-!
# C11 as an executable oracle on an *observable* trace

What a harness (or a user) can see of one `handler(events)` call: the callbacks invoked on the
operators, in order, each with the value of the operator's token word (`FDOperator.state`) at that
moment; `Control(PollDetach)` reaching the poll; the hang-up callbacks run afterwards; whether
`handler` asked the loop to exit; the end state.  `specCheck` states the property clauses on such a
trace.  It is applied to the implementation's trace (a failure is a genuine violation, reported with
the batch as replay) and to the model's projection (`project`).
-/
namespace Netpoll.Poll

inductive Obs where
  | inputs
  | inputAck (n : Int)
  | outputs
  | outputAck (n : Int)
  | onRead
  | onWrite
  | detach          -- poll.Control(op, PollDetach)
  | onHup
  | other (s : String)   -- anything else a harness saw (never produced by the model)
  deriving DecidableEq, Repr

structure ObsItem where
  id : Nat
  ob : Obs
  tok : Nat
  deriving DecidableEq, Repr

structure ObsOut where
  tr : List ObsItem
  exit : Bool
  st : List (Nat × OpSt)            -- per event, in batch order
  reg : Option (List (Nat × Bool))  -- still in the epoll interest list (unknown once the epoll fd is closed)
  got : List (Nat × Nat)            -- bytes the peer received from this side during the call
  trig : Nat                        -- p.trigger afterwards
  closedWop : Bool
  closedEp : Bool
  buf0 : Nat
  deriving DecidableEq, Repr

def Cb.obs : Cb → Option Obs
  | .inputs => some .inputs
  | .inputAck n => some (.inputAck n)
  | .outputs => some .outputs
  | .outputAck n => some (.outputAck n)
  | .onRead => some .onRead
  | .onWrite => some .onWrite
  | .detach true => some .detach
  | .onHupRun => some .onHup
  | _ => none

/-- bytes handed to the kernel that it accepted, as reported to `OutputAck` -/
def sentOf (tr : List (Nat × Cb)) (id : Nat) : Nat :=
  (tr.filterMap fun x => match x with
    | (j, .outputAck n) => if j = id then some n.toNat else none
    | _ => none).sum

/-- the observable part of the model's outcome. Callbacks made by `handler` run between `do()` and
`done()`, i.e. with the token word at 2; the hang-up goroutine runs after `done()` stored 1. -/
def project (trig0 : Nat) (evs : List Ev) (r : BatchOut) : ObsOut :=
  { tr := (r.tr.filterMap fun x => x.2.obs.map fun o => { id := x.1, ob := o, tok := 2 }) ++
          r.ran.map fun id => { id, ob := .onHup, tok := (r.st id).state }
    exit := r.exit
    st := evs.map fun e => (e.id, r.st e.id)
    reg := if r.tr.any (·.2 == .closeEp) then none
           else some (evs.map fun e => (e.id, e.op.wake || !(r.tr.any (· == (e.id, .detach true)))))
    got := evs.map fun e => (e.id, sentOf r.tr e.id)
    trig := if r.tr.any (·.2 == .trigStore) then 0 else trig0
    closedWop := r.tr.any (·.2 == .closeWop)
    closedEp := r.tr.any (·.2 == .closeEp)
    buf0 := r.buf0 }

/-! ## the clauses -/

def itemsOf (tr : List ObsItem) (id : Nat) : List ObsItem := tr.filter (·.id == id)

def posAcks (tr : List ObsItem) (id : Nat) : List Nat :=
  tr.filterMap fun it => match it.ob with
    | .inputAck n => if it.id == id && n > 0 then some n.toNat else none
    | _ => none

def posReads (rds : List Rd) : List Nat :=
  rds.filterMap fun r => match r with
    | .ok (n+1) => some (n+1)
    | _ => none

/-- (a) once an operator was detached or hung up, nothing more happens to it except the hang-up
callback itself: in particular every `InputAck` precedes the hang-up -/
def quietAfterDetach : List ObsItem → Bool
  | [] => true
  | it :: rest =>
    (if it.ob == .detach || it.ob == .onHup then
      rest.all fun j => j.id != it.id || (j.ob == .onHup && it.ob == .detach)
    else true) && quietAfterDetach rest

/-- (b) hang-up reported at most once, only to an operator that has the callback, and only after
the poller deregistered the descriptor (or someone else had already detached it) -/
def hupOnceAfterDetach (initDet : Nat → Nat) (hasHup : Nat → Bool) : List ObsItem → List ObsItem → Bool
  | _, [] => true
  | seen, it :: rest =>
    (if it.ob == .onHup then
      hasHup it.id && !(seen.any fun j => j.id == it.id && j.ob == .onHup) &&
      ((seen.any fun j => j.id == it.id && j.ob == .detach) || initDet it.id > 0)
    else true) && hupOnceAfterDetach initDet hasHup (seen ++ [it]) rest

/-- (c) a deregistered operator with a hang-up callback gets it – also when `handler` returns true
for a close message later in the same batch -/
def hupNotLost (evs : List Ev) (tr : List ObsItem) : Bool :=
  evs.all fun e =>
    !(e.op.onHup && tr.any fun j => j.id == e.id && j.ob == .detach) ||
      tr.any fun j => j.id == e.id && j.ob == .onHup

/-- (d) the token: callbacks of `handler` run while the poller holds it (2); the hang-up callback
runs after it was given back; an operator whose token was not available is left alone; the
token is back at 1 afterwards; the detach counter moves by at most one, and by one iff detached -/
def tokenOk (init : Nat → OpSt) (evs : List Ev) (o : ObsOut) : Bool :=
  (o.tr.all fun it => if it.ob == .onHup then it.tok != 2 else it.tok == 2) &&
  (evs.all fun e => (init e.id).state == 1 || (itemsOf o.tr e.id).isEmpty) &&
  (o.st.all fun (id, s) =>
    s.state == (init id).state &&
    (s.detached == (init id).detached || s.detached == (init id).detached + 1) &&
    (!(o.tr.any fun j => j.id == id && j.ob == .detach) || s.detached == (init id).detached + 1))

/-- is `l₁` a prefix of `l₂` -/
def isPrefix : List Nat → List Nat → Bool
  | [], _ => true
  | _ :: _, [] => false
  | a :: as, b :: bs => a == b && isPrefix as bs

/-- (e) byte counts: the positive `InputAck`s are the positive `readv` results, in order, none
skipped; at most one `OutputAck`, carrying what `sendmsg` returned; the peer got that many bytes -/
def acksOk (evs : List Ev) (o : ObsOut) : Bool :=
  evs.all fun e =>
    isPrefix (posAcks o.tr e.id) (posReads e.sc.rds) &&
    (let bs := o.tr.filterMap fun it => match it.ob with
        | .outputAck n => if it.id == e.id then some n else none
        | _ => none
     match bs with
     | [] => o.got.all fun g => g.1 != e.id || g.2 == 0
     | [n] =>
       (match (nextVec e.sc.outs).1, e.sc.sds with
        | .room, s :: _ => n == (iosendRes s).1
        | .zero, _ => n == 0
        | _, _ => false) &&
       o.got.all fun g => g.1 != e.id || g.2 == n.toNat
     | _ => false)

/-- `readv` result that hands out no data: EOF, EAGAIN/EINTR or an errno -/
def Rd.nonpos : Rd → Bool
  | .ok (_+1) => false
  | _ => true

/-- the first `k` results end with one that found nothing more to read -/
def drainedAt (rds : List Rd) (k : Nat) : Bool :=
  match k with
  | 0 => false
  | j+1 => match rds[j]? with
    | some r => r.nonpos
    | none => false

/-- (f) hang-up only after the data: when readable and hang-up are reported together to a
connection operator and it is hung up in this batch, the acknowledged counts are the results of the
reads up to one that found nothing more to read -/
def drainedBeforeHup (evs : List Ev) (tr : List ObsItem) : Bool :=
  evs.all fun e =>
    !(e.trig.rd && e.trig.hup && e.op.inputs && !e.op.onRead && !e.op.wake && e.sc.ins.isEmpty &&
      tr.any fun j => j.id == e.id && (j.ob == .detach || j.ob == .onHup)) ||
    (List.range (e.sc.rds.length + 1)).any fun k =>
      drainedAt e.sc.rds k && posAcks tr e.id == posReads (e.sc.rds.take k)

/-- the event at which `handler` must return true: the wake-up operator, token available, first
byte of the (possibly stale) buffer non-zero; `none` if there is none -/
def exitIndex (buf0 : Nat) (init : Nat → OpSt) : List Ev → Nat → Option Nat
  | [], _ => none
  | e :: es, i =>
    if e.op.wake && (init e.id).state == 1 then
      let b := match e.sc.wake with
        | some c => c % 256
        | none => buf0
      if b > 0 then some i else exitIndex b init es (i + 1)
    else exitIndex buf0 init es (i + 1)

/-- (g) the close message stops the loop at once and releases both descriptors; nothing else does -/
def exitOk (buf0 : Nat) (init : Nat → OpSt) (evs : List Ev) (o : ObsOut) : Bool :=
  match exitIndex buf0 init evs 0 with
  | none => !o.exit && !o.closedWop && !o.closedEp
  | some i => o.exit && o.closedWop && o.closedEp &&
      o.tr.all fun it => (evs.take (i + 1)).any fun e => e.id == it.id

/-- (h) callbacks match the reported condition and the operator: input side only on readable,
output side only on writable, each ack right after its request -/
def directionOk (evs : List Ev) : List ObsItem → Bool
  | [] => true
  | it :: rest =>
    (match evs.find? (·.id == it.id) with
     | none => false
     | some e =>
       match it.ob with
       | .inputs => e.trig.rd && e.op.inputs
       | .inputAck _ => e.trig.rd && e.op.inputs
       | .onRead => e.trig.rd && e.op.onRead
       | .outputs => e.trig.wr && e.op.outputs && !e.op.onWrite
       | .outputAck _ => e.trig.wr && e.op.outputs && !e.op.onWrite
       | .onWrite => e.trig.wr && e.op.onWrite
       | .detach => !e.op.wake
       | .onHup => e.op.onHup
       | .other _ => false) && directionOk evs rest

/-- (i) a reported hang-up is acted on: an event that carries the hang-up condition (HUP or RDHUP) for an ordinary operator whose
token was free, reached before `handler` returned, ends with the descriptor deregistered and the hang-up callback run – unless an
`InputAck` of THIS descriptor in THIS dispatch carried a non-zero count (bytes were delivered: the hang-up is left to the next
wake-up, which a level-triggered registration gets).  What the other descriptors of the batch delivered is irrelevant: an
edge-triggered registration is told about the hang-up once, so a report that is swallowed is "reported zero times". -/
def hupActedOn (buf0 : Nat) (init : Nat → OpSt) (evs : List Ev) (tr : List ObsItem) : Bool :=
  let upto := match exitIndex buf0 init evs 0 with
    | some i => i
    | none => evs.length
  (evs.take upto).all fun e =>
    !(e.trig.hup && !e.op.wake && (init e.id).state == 1) ||
    (tr.any fun j => j.id == e.id && (match j.ob with
      | .inputAck n => n != 0
      | _ => false)) ||
    (((tr.any fun j => j.id == e.id && j.ob == .detach) || (init e.id).detached > 0) &&
     (!e.op.onHup || tr.any fun j => j.id == e.id && j.ob == .onHup))

def nodupIds : List Ev → Bool
  | [] => true
  | e :: es => !(es.any (·.id == e.id)) && nodupIds es

/-- names of the violated clauses -/
def specCheck (buf0 : Nat) (init : Nat → OpSt) (evs : List Ev) (o : ObsOut) : List String :=
  (if quietAfterDetach o.tr then [] else ["callback-after-detach"]) ++
  (if hupOnceAfterDetach (fun i => (init i).detached) (fun i => evs.any fun e => e.id == i && e.op.onHup) [] o.tr
    then [] else ["hup-not-once-after-detach"]) ++
  (if hupNotLost evs o.tr then [] else ["hup-lost"]) ++
  (if tokenOk init evs o then [] else ["token"]) ++
  (if acksOk evs o then [] else ["ack-counts"]) ++
  (if drainedBeforeHup evs o.tr then [] else ["hup-before-data"]) ++
  (if exitOk buf0 init evs o then [] else ["exit"]) ++
  (if directionOk evs o.tr then [] else ["direction"]) ++
  (if hupActedOn buf0 init evs o.tr then [] else ["hup-not-acted-on"])

end Netpoll.Poll
