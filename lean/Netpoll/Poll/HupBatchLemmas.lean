import Netpoll.Poll.ExitLemmas
import Netpoll.Poll.HupFlagLemmas
/-! Helper lemmas for `C11_hup_acted_on_in_batch`: what `handler` does for an event does not depend on the events of OTHER
operators in front of it (as long as none of them ends the loop). -/
namespace Netpoll.Poll

/-- an ordinary operator's event does not look at the wake-up buffer byte -/
theorem handleEvent_conn_buf (b b' : Nat) (op : Op) (st : OpSt) (t : Trig) (sc : Script) (hw : op.wake = false) :
    (handleEvent b op st t sc).tr = (handleEvent b' op st t sc).tr := by
  unfold handleEvent
  simp only [hw, Bool.false_eq_true, if_false]
  repeat' split
  all_goals rfl

/-- events in front of `e` that belong to other operators and do not end the loop do not change what `handler` does for `e` -/
theorem loop_mem_later (e : Ev) (post : List Ev) (c : Cb) (pre : List Ev) :
    ∀ (b : Nat) (st : Nat → OpSt) (h : List (Nat × Bool)),
      e.id ∉ pre.map (·.id) →
      (handleLoop b st h pre).exit = false → (handleLoop b st h pre).stuck = false →
      (∀ b', c ∈ (handleEvent b' e.op (st e.id) e.trig e.sc).tr) →
      (e.id, c) ∈ (handleLoop b st h (pre ++ e :: post)).tr := by
  induction pre with
  | nil =>
    intro b st h _ _ _ hc
    rw [List.nil_append, handleLoop_cons]
    split
    · exact List.mem_map.2 ⟨c, hc b, rfl⟩
    · exact List.mem_append_left _ (List.mem_map.2 ⟨c, hc b, rfl⟩)
  | cons p pre ih =>
    intro b st h hid hx hs hc
    rw [List.cons_append, handleLoop_cons]
    rw [handleLoop_cons] at hx hs
    have hne : e.id ≠ p.id := by
      intro heq; apply hid; simp [heq]
    have hid' : e.id ∉ pre.map (·.id) := by
      intro hm; apply hid; simp only [List.map_cons, List.mem_cons]; exact Or.inr hm
    split
    · rename_i hcond
      simp only [hcond, if_true] at hx hs
      simp only [Bool.or_eq_true] at hcond
      rcases hcond with h1 | h1
      · rw [h1] at hx; cases hx
      · rw [h1] at hs; cases hs
    · rename_i hcond
      simp only [hcond] at hx hs
      refine List.mem_append_right _ (ih _ _ _ hid' hx hs ?_)
      intro b'
      have : setSt st p.id (handleEvent b p.op (st p.id) p.trig p.sc).st e.id = st e.id := by
        simp [setSt, hne]
      rw [this]
      exact hc b'

end Netpoll.Poll
