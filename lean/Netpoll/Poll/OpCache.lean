/-
C10 – poller slot (FDOperator) reuse, one slot followed through any number of owners.
Mirrors fd_operator.go (do/done/inuse/unused/reset), fd_operator_cache.go (alloc / freeable / free)
and the batch structure of defaultPoll.Wait (fetch a batch, dispatch every event, only then `opcache.free()`).
The other slots of the cache do not interact with this one (the cache locks make the list
manipulations atomic), so a single slot is followed; generations `gen` name its successive owners.
Core Lean only.
-/
namespace Netpoll.Poll.OpCache

inductive Loc where
  | first      -- on the free chain `c.first`: may be handed out by alloc
  | owned      -- handed to a connection
  | freelist   -- marked freeable; spliced back to `first` by the poller between batches
deriving Repr, DecidableEq

/-- progress of the current owner through `connection` teardown (`operator.Free` after PollDetach) -/
inductive OwnerPc where
  | allocated    -- initFDOperator done (callbacks installed), not yet registered
  | live         -- Control(PollReadable): inuse() + epoll ADD done
  | detached     -- Control(PollDetach): epoll DEL done
  | unusedDone   -- op.unused(): state 1 -> 0 done
  | resetDone    -- op.reset(): callbacks cleared
  | gone         -- index appended to freelist; the connection never touches the operator again (except stale calls)
deriving Repr, DecidableEq

/-- what took the slot: a connection (`connection.init`: registered readable at once, writers under `lock(flushing)`, torn down by the
close finalizer `stop(flushing); operator.Free(); netFD.Close()`), or a dial in progress (`newPollDesc`: registered writable,
edge-triggered, by `pollDesc.WaitWrite`; detached by `onwrite` inside the dispatch, by the poller's `appendHup`, or by `WaitWrite`'s
own `ctx.Done()` branch; freed by `connect`'s deferred `operator.Free()`; the descriptor closed afterwards by `socket()`) -/
inductive Kind where
  | conn
  | dial
deriving Repr, DecidableEq

structure S where
  loc : Loc := .first
  st : Nat := 0                    -- FDOperator.state: 0 unused, 1 inuse, 2 do-done token taken
  gen : Nat := 0                   -- ghost: generation of the current (or last) owner
  pc : OwnerPc := .gone            -- where the current owner is
  cbGen : Option Nat := none       -- ghost: whose callbacks are installed in the slot
  registered : Bool := false       -- the slot's descriptor is in the epoll set
  inBatch : Bool := false          -- the poller is between `EpollWait` returning and `opcache.free()`
  pending : Option Nat := none     -- a fetched, not yet dispatched event for this slot, tagged with the owner it was fetched for
  pollerHolds : Bool := false      -- the poller took the token (do) and is running callbacks
  staleHolds : Bool := false       -- a stale Release took the token
  ownerHolds : Bool := false       -- the CURRENT owner's own Release() took the token (connection.Release: do(); reset tail; done())
  bad : Bool := false              -- ghost: an event was dispatched to another owner's callbacks, or a stale call took the token of a later owner
  fdOpen : Bool := false           -- the CURRENT owner's descriptor (operator.FD) is open; earlier owners' descriptors are other kernel objects
  hupq : List Nat := []            -- hang-ups recorded through this slot (`appendHup`) that the hang-up goroutine has not delivered yet,
                                   -- each tagged with the owner it was recorded for (oldest first)
  kind : Kind := .conn             -- ghost: what the current (or last) owner is
  writer : Option Nat := none      -- a `Write`/`Flush` of the owner of that generation is IN FLIGHT: it has passed `IsActive()`, holds
                                   -- `lock(flushing)` and will use `c.fd` (sendmsg) and `c.operator` (Control) without looking at the close state again
  stopped : Bool := false          -- the close finalizer of the current owner is past `c.stop(flushing)` (no writer can take the lock any more)
deriving Repr, DecidableEq

inductive Act where
  | alloc                 -- operatorCache.alloc + initFDOperator: a NEW connection takes the slot
  | allocDial             -- newPollDesc (netFD.connect): a DIAL takes the slot (OnWrite / OnHup of its pollDesc installed)
  | wLock                 -- Write / Flush of the current owner: `IsActive()` was true, `lock(flushing)` succeeded
  | wUse                  -- the writer in flight acts: `sendmsg(c.fd, …)`, `c.operator.Control(PollR2RW | PollRW2R)`
  | wUnlock               -- the writer leaves: `unlock(flushing)`
  | stopFlush             -- close finalizer: `c.stop(flushing)` (spins while a writer holds the lock)
  | unusedEarly           -- (witness only) a finalizer that calls `operator.Free()` WITHOUT having waited for the flusher
  | register              -- Control(PollReadable): inuse(); epoll ADD
  | fetch                 -- EpollWait returns an event for this slot (only while registered: A-epoll-del)
  | fetchOther            -- EpollWait returns a batch without this slot
  | doEv                  -- handler: operator.do() on the pending event (success or skip)
  | doneEv                -- handler: callbacks finished, operator.done()
  | endBatch              -- handler returned: opcache.free()
  | detach                -- owner: Control(PollDetach)
  | unused                -- owner: operator.unused() succeeds (spins while the token is taken)
  | reset                 -- owner: operator.reset()
  | freeable              -- owner: append to freelist
  | staleRelease (g : Nat) (guarded : Bool)  -- a connection of generation g, already closed, calls Release;
                                             -- `guarded` = the IsActive check of fix 1c26766 is present
  | staleDone
  | liveRelease           -- the current, not yet torn-down owner calls Release() with nothing buffered: `c.IsActive() && c.operator.do()` succeeds
  | liveDone              -- … and leaves the section: `c.operator.done()`
  | closeFd (g : Nat)     -- the close finalizer of the owner of generation g reaches `netFD.Close()` (after `operator.Free()` returned)
  | queueHup              -- handler, token held: `appendHup` – `p.hups = append(p.hups, operator.OnHup)` (then detach, done: own actions)
  | runHup (g : Nat) (late : Bool)  -- the goroutine started by `onhups()` reaches the entry recorded for owner g – at any later time:
                                    -- the batch may have ended, the owner may have closed, the slot may have a new owner.
                                    -- `late = false`: the entry IS the func copied by `appendHup` (the code; tie `hup_queue_captures_callback`);
                                    -- `late = true`: the entry is the slot and `OnHup` is read only now (kept as a witness)
deriving Repr, DecidableEq

def step (s : S) : Act → Option S
  | .alloc =>
    if s.loc = .first then some { s with loc := .owned, gen := s.gen + 1, pc := .allocated, cbGen := some (s.gen + 1), fdOpen := true,
                                         kind := .conn, stopped := false } else none
  | .allocDial =>
    if s.loc = .first then some { s with loc := .owned, gen := s.gen + 1, pc := .allocated, cbGen := some (s.gen + 1), fdOpen := true,
                                         kind := .dial, stopped := false } else none
  | .wLock =>
    -- `IsActive()` was true when evaluated (the owner's Close may have detached since); CAS(0,1) on keychain[flushing] fails once stopped
    if s.loc = .owned ∧ s.kind = .conn ∧ (s.pc = .live ∨ s.pc = .detached) ∧ s.writer = none ∧ ¬ s.stopped then
      some { s with writer := some s.gen } else none
  | .wUse =>
    match s.writer with
    | none => none
    | some g =>
      -- whatever the slot and the descriptor NUMBER belong to now is what the writer acts on
      some { s with bad := s.bad || (g != s.gen) || !s.fdOpen || !(decide (s.pc = .live) || decide (s.pc = .detached)) }
  | .wUnlock =>
    if s.writer.isSome then some { s with writer := none } else none
  | .stopFlush =>
    if s.loc = .owned ∧ s.kind = .conn ∧ s.pc = .detached ∧ s.writer = none ∧ ¬ s.stopped then some { s with stopped := true } else none
  | .unusedEarly =>
    if s.loc = .owned ∧ s.pc = .detached ∧ s.st = 1 then some { s with pc := .unusedDone, st := 0 } else none
  | .register =>
    -- inuse(): CAS(0,1) (spins otherwise; state is 0 here)
    if s.loc = .owned ∧ s.pc = .allocated ∧ s.st = 0 then some { s with pc := .live, st := 1, registered := true } else none
  | .fetch =>
    if ¬ s.inBatch ∧ s.registered then some { s with inBatch := true, pending := s.cbGen } else none
  | .fetchOther =>
    if ¬ s.inBatch then some { s with inBatch := true } else none
  | .doEv =>
    match s.pending with
    | none => none
    | some g =>
      if ¬ s.inBatch ∨ s.pollerHolds then none
      else if s.st = 1 then
        -- token taken: the callbacks installed NOW are invoked
        some { s with st := 2, pollerHolds := true, pending := none, bad := s.bad || (s.cbGen != some g) }
      else some { s with pending := none }   -- `!operator.do()`: event skipped
  | .doneEv =>
    if s.pollerHolds then some { s with st := 1, pollerHolds := false } else none
  | .endBatch =>
    if s.inBatch ∧ s.pending = none ∧ ¬ s.pollerHolds then
      some { s with inBatch := false, loc := if s.loc = .freelist then .first else s.loc }
    else none
  | .detach =>
    if s.loc = .owned ∧ s.pc = .live then some { s with pc := .detached, registered := false } else none
  | .unused =>
    -- CAS(1,0) succeeds only while nobody holds the token.  A connection's finalizer gets here only after `stop(flushing)`;
    -- a dial (`connect`'s deferred Free) has no writers
    if s.loc = .owned ∧ s.pc = .detached ∧ s.st = 1 ∧ (s.kind = .dial ∨ s.stopped) then some { s with pc := .unusedDone, st := 0 } else none
  | .reset =>
    if s.loc = .owned ∧ s.pc = .unusedDone then some { s with pc := .resetDone, cbGen := none } else none
  | .freeable =>
    if s.loc = .owned ∧ s.pc = .resetDone then some { s with pc := .gone, loc := .freelist } else none
  | .staleRelease g guarded =>
    -- only connections whose teardown finished are "stale": an earlier generation, or the current one once gone
    if g < s.gen ∨ (g = s.gen ∧ s.pc = .gone) then
      if guarded then some s                         -- `c.IsActive()` is false: the operator is not touched
      else if s.st = 1 then some { s with st := 2, staleHolds := true, bad := s.bad || decide (g < s.gen) || s.bad }
      else some s
    else none
  | .staleDone =>
    if s.staleHolds then some { s with st := 1, staleHolds := false } else none
  | .liveRelease =>
    -- `IsActive()` was true when evaluated (the owner's own Close may have detached since: the residual window); CAS(1,2).
    -- While the owner holds the token the poller's `do()` fails (event skipped, fetched again: level-triggered) and `unused()` spins.
    if s.loc = .owned ∧ (s.pc = .live ∨ s.pc = .detached) ∧ s.st = 1 then some { s with st := 2, ownerHolds := true } else none
  | .liveDone =>
    if s.ownerHolds then some { s with st := 1, ownerHolds := false } else none
  | .closeFd g =>
    -- initFinalizer: `c.stop(flushing); c.operator.Free(); c.netFD.Close()` (dial: deferred `Free()` in connect, then `netfd.Close()` in socket) – the descriptor number goes back to the kernel only after
    -- `Free` (the barrier `unused()`, reset, freeable) has returned.  A finalizer of an earlier owner closes ITS descriptor.
    if g = s.gen ∧ s.pc = .gone ∧ s.fdOpen then some { s with fdOpen := false }
    else if g < s.gen then some s
    else none
  | .queueHup =>
    -- the func value installed in the slot NOW is copied; the poller holds the token, so the owner cannot have changed since `do()`
    if s.pollerHolds then some { s with hupq := s.hupq ++ [s.gen], bad := s.bad || (s.cbGen != some s.gen) } else none
  | .runHup g late =>
    if s.hupq.contains g then
      -- captured: owner g's own `onHup` runs (it ignores the call if its user closed it meanwhile) – no word of the slot is read.
      -- late: whatever `OnHup` the slot holds at this moment is called: nil after a reset (skipped), a later owner's after reuse
      some { s with hupq := s.hupq.erase g, bad := s.bad || (late && s.cbGen.isSome && s.cbGen != some g) }
    else none

def init : S := {}

/-- run a list of actions; `none` if one is not enabled -/
def run (s : S) : List Act → Option S
  | [] => some s
  | a :: rest => match step s a with | none => none | some s' => run s' rest

/-- the code as it is: every stale Release goes through the IsActive guard (fix 1c26766), the hang-up queue holds the copied funcs,
the finalizer waits for the flusher before it frees the operator -/
def guardedAct : Act → Bool
  | .staleRelease _ g => g
  | .runHup _ late => !late
  | .unusedEarly => false
  | _ => true

end Netpoll.Poll.OpCache
