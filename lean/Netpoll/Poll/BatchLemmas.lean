import Netpoll.Poll.HandlerLemmas
/-! Lifting per-event facts to a batch (`handleLoop` / `handleBatch`) whose events carry distinct operators. -/
namespace Netpoll.Poll

/-- no element satisfying `Q` occurs after an element satisfying `P` -/
def NoAfter {α : Type} (P Q : α → Prop) : List α → Prop
  | [] => True
  | a :: l => (P a → ∀ b ∈ l, ¬ Q b) ∧ NoAfter P Q l

theorem noAfter_append {α : Type} (P Q : α → Prop) (l1 l2 : List α) :
    NoAfter P Q (l1 ++ l2) ↔
      NoAfter P Q l1 ∧ NoAfter P Q l2 ∧ ∀ a ∈ l1, P a → ∀ b ∈ l2, ¬ Q b := by
  induction l1 with
  | nil => simp [NoAfter]
  | cons a l ih =>
    simp only [List.cons_append, NoAfter, ih, List.mem_append, List.mem_cons]
    constructor
    · rintro ⟨h1, h2, h3, h4⟩
      refine ⟨⟨fun pa b hb => h1 pa b (Or.inl hb), h2⟩, h3, ?_⟩
      rintro x (rfl | hx) px b hb
      · exact h1 px b (Or.inr hb)
      · exact h4 x hx px b hb
    · rintro ⟨⟨h1, h2⟩, h3, h4⟩
      refine ⟨?_, h2, h3, fun x hx => h4 x (Or.inr hx)⟩
      rintro pa b (hb | hb)
      · exact h1 pa b hb
      · exact h4 a (Or.inl rfl) pa b hb

/-- the readable form: wherever the list is cut at a `P` element, no `Q` element follows -/
theorem noAfter_split {α : Type} {P Q : α → Prop} {l l1 l2 : List α} {a : α}
    (h : NoAfter P Q l) (hl : l = l1 ++ a :: l2) (pa : P a) : ∀ b ∈ l2, ¬ Q b := by
  subst hl
  have := (noAfter_append P Q l1 (a :: l2)).1 h
  exact this.2.1.1 pa

theorem noAfter_of_not_P {α : Type} {P Q : α → Prop} {l : List α} (h : ∀ a ∈ l, ¬ P a) : NoAfter P Q l := by
  induction l with
  | nil => trivial
  | cons a l ih =>
    exact ⟨fun pa => absurd pa (h a (List.mem_cons_self ..)), ih fun x hx => h x (List.mem_cons_of_mem _ hx)⟩

theorem noAfter_of_not_Q {α : Type} {P Q : α → Prop} {l : List α} (h : ∀ a ∈ l, ¬ Q a) : NoAfter P Q l := by
  induction l with
  | nil => trivial
  | cons a l ih =>
    exact ⟨fun _ b hb => h b (List.mem_cons_of_mem _ hb), ih fun x hx => h x (List.mem_cons_of_mem _ hx)⟩

theorem noAfter_map {α β : Type} (f : α → β) (P Q : β → Prop) (l : List α)
    (h : NoAfter (fun a => P (f a)) (fun a => Q (f a)) l) : NoAfter P Q (l.map f) := by
  induction l with
  | nil => trivial
  | cons a l ih =>
    refine ⟨?_, ih h.2⟩
    intro pa b hb
    rcases List.mem_map.1 hb with ⟨x, hx, rfl⟩
    exact h.1 pa x hx

/-! ## `handleLoop` -/

/-- distinct operators (A-epoll-unique: at most one event per descriptor per `epoll_wait`) -/
def DistinctIds (evs : List Ev) : Prop := (evs.map (·.id)).Nodup

theorem handleLoop_nil (b : Nat) (st : Nat → OpSt) (h : List (Nat × Bool)) :
    handleLoop b st h [] = { tr := [], hups := h, ran := [], exit := false, st, buf0 := b, stuck := false } := rfl

/-- what one more event in front does -/
theorem handleLoop_cons (b : Nat) (st : Nat → OpSt) (h : List (Nat × Bool)) (e : Ev) (es : List Ev) :
    handleLoop b st h (e :: es) =
      (if (handleEvent b e.op (st e.id) e.trig e.sc).exit || (handleEvent b e.op (st e.id) e.trig e.sc).stuck then
        { tr := (handleEvent b e.op (st e.id) e.trig e.sc).tr.map (e.id, ·)
          hups := (match (handleEvent b e.op (st e.id) e.trig e.sc).hup with
            | some hb => h ++ [(e.id, hb)]
            | none => h)
          ran := []
          exit := (handleEvent b e.op (st e.id) e.trig e.sc).exit
          st := setSt st e.id (handleEvent b e.op (st e.id) e.trig e.sc).st
          buf0 := (handleEvent b e.op (st e.id) e.trig e.sc).buf0
          stuck := (handleEvent b e.op (st e.id) e.trig e.sc).stuck }
      else
        { handleLoop (handleEvent b e.op (st e.id) e.trig e.sc).buf0
            (setSt st e.id (handleEvent b e.op (st e.id) e.trig e.sc).st)
            (match (handleEvent b e.op (st e.id) e.trig e.sc).hup with
              | some hb => h ++ [(e.id, hb)]
              | none => h) es with
          tr := (handleEvent b e.op (st e.id) e.trig e.sc).tr.map (e.id, ·) ++
            (handleLoop (handleEvent b e.op (st e.id) e.trig e.sc).buf0
              (setSt st e.id (handleEvent b e.op (st e.id) e.trig e.sc).st)
              (match (handleEvent b e.op (st e.id) e.trig e.sc).hup with
                | some hb => h ++ [(e.id, hb)]
                | none => h) es).tr }) := by
  rfl

/-- every step of the batch belongs to one of its events -/
theorem loop_tr_ids (evs : List Ev) : ∀ (b : Nat) (st : Nat → OpSt) (h : List (Nat × Bool)),
    ∀ x ∈ (handleLoop b st h evs).tr, ∃ e ∈ evs, e.id = x.1 := by
  induction evs with
  | nil => intro b st h x hx; simp [handleLoop_nil] at hx
  | cons e es ih =>
    intro b st h x hx
    rw [handleLoop_cons] at hx
    split at hx
    · simp only [List.mem_map] at hx
      rcases hx with ⟨c, _, rfl⟩
      exact ⟨e, List.mem_cons_self .., rfl⟩
    · simp only [List.mem_append, List.mem_map] at hx
      rcases hx with ⟨c, _, rfl⟩ | hx
      · exact ⟨e, List.mem_cons_self .., rfl⟩
      · rcases ih _ _ _ x hx with ⟨e', he', hid⟩
        exact ⟨e', List.mem_cons_of_mem _ he', hid⟩

/-- a fact of the form "no `Q` step after a `P` step" about every single event's trace holds per
operator in a batch of distinct operators -/
theorem loop_noAfter (P Q : Cb → Prop)
    (hev : ∀ b op st t sc, NoAfter P Q (handleEvent b op st t sc).tr) (id : Nat)
    (evs : List Ev) (hd : DistinctIds evs) : ∀ (b : Nat) (st : Nat → OpSt) (h : List (Nat × Bool)),
    NoAfter (fun x : Nat × Cb => x.1 = id ∧ P x.2) (fun y : Nat × Cb => y.1 = id ∧ Q y.2) (handleLoop b st h evs).tr := by
  induction evs with
  | nil => intro b st h; simp [handleLoop_nil, NoAfter]
  | cons e es ih =>
    intro b st h
    have hd' : DistinctIds es := (List.nodup_cons.1 hd).2
    have hne : ∀ e' ∈ es, e'.id ≠ e.id := by
      intro e' he' heq
      exact (List.nodup_cons.1 hd).1 (List.mem_map.2 ⟨e', he', heq⟩)
    have hfirst : NoAfter (fun x : Nat × Cb => x.1 = id ∧ P x.2) (fun y : Nat × Cb => y.1 = id ∧ Q y.2)
        ((handleEvent b e.op (st e.id) e.trig e.sc).tr.map (e.id, ·)) := by
      apply noAfter_map
      have := hev b e.op (st e.id) e.trig e.sc
      generalize (handleEvent b e.op (st e.id) e.trig e.sc).tr = l at this
      induction l with
      | nil => trivial
      | cons a l ihl => exact ⟨fun pa c hc hq => this.1 pa.2 c hc hq.2, ihl this.2⟩
    rw [handleLoop_cons]
    split
    · exact hfirst
    · simp only
      rw [noAfter_append]
      refine ⟨hfirst, ih hd' _ _ _, ?_⟩
      intro a ha pa y hy qy
      rcases List.mem_map.1 ha with ⟨c, _, rfl⟩
      rcases loop_tr_ids es _ _ _ y hy with ⟨e', he', hid⟩
      exact hne e' he' (by rw [hid, qy.1, ← pa.1])

/-! ## per-event ordering facts -/

/-- the steps of `appendHup` and the hang-up callback -/
def Cb.isHupStep : Cb → Bool
  | .hupQueued _ | .detach _ | .onHupRun => true
  | _ => false

def Cb.isDetach : Cb → Bool
  | .detach _ => true
  | _ => false

theorem handleEvent_tr_cases (b : Nat) (op : Op) (st : OpSt) (t : Trig) (sc : Script) :
    (handleEvent b op st t sc).tr = [] ∨
    (handleEvent b op st t sc).tr = [.wakeRead, .trigStore, .done] ∨
    (handleEvent b op st t sc).tr = [.wakeRead, .trigStore, .closeWop, .closeEp, .done] ∨
    (handleEvent b op st t sc).tr = (body op t sc).tr ∨
    (handleEvent b op st t sc).tr = (body op t sc).tr ++ [.done] ∨
    (handleEvent b op st t sc).tr = (body op t sc).tr ++ hupTail op st := by
  by_cases h1 : st.state = 1
  · by_cases hw : op.wake = true
    · have := (handleEvent_wake b op st t sc h1 hw).1
      cases hwk : sc.wake with
      | none => simp only [hwk] at this; by_cases hb : b > 0 <;> simp [this, hb]
      | some c => simp only [hwk] at this; by_cases hb : c % 256 > 0 <;> simp [this, hb]
    · have hw' : op.wake = false := by simpa using hw
      by_cases hs : (body op t sc).stuck = true
      · right; right; right; left
        simp [handleEvent, h1, hw', hs]
      · have hs' : (body op t sc).stuck = false := by simpa using hs
        have := (handleEvent_conn b op st t sc h1 hw' hs').1
        split at this <;> simp [this]
  · left; exact (handleEvent_nodo b op st t sc h1).1

theorem isIO_not_hupStep {c : Cb} (h : c.isIO = true) : c.isHupStep = false := by
  cases c <;> simp_all [Cb.isIO, Cb.isHupStep]

theorem isIO_not_detach {c : Cb} (h : c.isIO = true) : c.isDetach = false := by
  cases c <;> simp_all [Cb.isIO, Cb.isDetach]

/-- within one event: no operator callback after a step of the hang-up sequence -/
theorem event_noIO_after_hupStep (b : Nat) (op : Op) (st : OpSt) (t : Trig) (sc : Script) :
    NoAfter (fun c : Cb => c.isHupStep = true) (fun c : Cb => c.isIO = true) (handleEvent b op st t sc).tr := by
  have hio := body_isIO op t sc
  have hb : NoAfter (fun c : Cb => c.isHupStep = true) (fun c : Cb => c.isIO = true) (body op t sc).tr :=
    noAfter_of_not_P fun a ha => by
      have := isIO_not_hupStep (List.all_eq_true.1 hio a ha); simp [this]
  rcases handleEvent_tr_cases b op st t sc with h | h | h | h | h | h <;> rw [h]
  · trivial
  · exact noAfter_of_not_Q (by simp [Cb.isIO])
  · exact noAfter_of_not_Q (by simp [Cb.isIO])
  · exact hb
  · exact (noAfter_append _ _ _ _).2 ⟨hb, noAfter_of_not_Q (by simp [Cb.isIO]), by simp [Cb.isIO]⟩
  · exact (noAfter_append _ _ _ _).2 ⟨hb, noAfter_of_not_Q (by simp [hupTail, Cb.isIO]), by simp [hupTail, Cb.isIO]⟩

/-- within one event: after the detach only `done()` -/
theorem event_only_done_after_detach (b : Nat) (op : Op) (st : OpSt) (t : Trig) (sc : Script) :
    NoAfter (fun c : Cb => c.isDetach = true) (fun c : Cb => c ≠ .done) (handleEvent b op st t sc).tr := by
  have hio := body_isIO op t sc
  have hb : NoAfter (fun c : Cb => c.isDetach = true) (fun c : Cb => c ≠ .done) (body op t sc).tr :=
    noAfter_of_not_P fun a ha => by
      have := isIO_not_detach (List.all_eq_true.1 hio a ha); simp [this]
  have hnd : ∀ a ∈ (body op t sc).tr, ¬ a.isDetach = true := fun a ha => by
    have := isIO_not_detach (List.all_eq_true.1 hio a ha); simp [this]
  rcases handleEvent_tr_cases b op st t sc with h | h | h | h | h | h <;> rw [h]
  · trivial
  · exact noAfter_of_not_P (by simp [Cb.isDetach])
  · exact noAfter_of_not_P (by simp [Cb.isDetach])
  · exact hb
  · exact (noAfter_append _ _ _ _).2 ⟨hb, noAfter_of_not_P (by simp [Cb.isDetach]), fun a ha pa => absurd pa (hnd a ha)⟩
  · refine (noAfter_append _ _ _ _).2 ⟨hb, ?_, fun a ha pa => absurd pa (hnd a ha)⟩
    simp [hupTail, NoAfter, Cb.isDetach]

end Netpoll.Poll
