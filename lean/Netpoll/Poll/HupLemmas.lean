import Netpoll.Poll.BatchLemmas
/-! The hang-up queue `p.hups` of a batch: who is in it, and what `onhups` runs. -/
namespace Netpoll.Poll

theorem body_no_hupQueued (op : Op) (t : Trig) (sc : Script) (hb : Bool) : Cb.hupQueued hb ∉ (body op t sc).tr := by
  intro h
  have := List.all_eq_true.1 (body_isIO op t sc) _ h
  simp [Cb.isIO] at this

theorem body_no_detach (op : Op) (t : Trig) (sc : Script) (d : Bool) : Cb.detach d ∉ (body op t sc).tr := by
  intro h
  have := List.all_eq_true.1 (body_isIO op t sc) _ h
  simp [Cb.isIO] at this

/-- an entry is appended to `p.hups` exactly when the event's trace has the queue step; then the
detach step is there too, `Control(PollDetach)` reaching the poll iff nobody detached before -/
theorem event_hup_iff (b : Nat) (op : Op) (st : OpSt) (t : Trig) (sc : Script) (hb : Bool) :
    ((handleEvent b op st t sc).hup = some hb ↔ Cb.hupQueued hb ∈ (handleEvent b op st t sc).tr) ∧
    (Cb.hupQueued hb ∈ (handleEvent b op st t sc).tr →
      hb = op.onHup ∧ Cb.detach (st.detached == 0) ∈ (handleEvent b op st t sc).tr) := by
  by_cases h1 : st.state = 1
  · by_cases hw : op.wake = true
    · have hwk := handleEvent_wake b op st t sc h1 hw
      have htr := hwk.1
      have hh := hwk.2.2.1
      cases hwake : sc.wake with
      | none => simp only [hwake] at htr; by_cases hb0 : b > 0 <;> simp [htr, hh, hb0]
      | some c => simp only [hwake] at htr; by_cases hb0 : c % 256 > 0 <;> simp [htr, hh, hb0]
    · have hw' : op.wake = false := by simpa using hw
      by_cases hs : (body op t sc).stuck = true
      · have htr : (handleEvent b op st t sc).tr = (body op t sc).tr := by simp [handleEvent, h1, hw', hs]
        have hh : (handleEvent b op st t sc).hup = none := by simp [handleEvent, h1, hw', hs]
        have := body_no_hupQueued op t sc hb
        simp [htr, hh, this]
      · have hs' : (body op t sc).stuck = false := by simpa using hs
        have hc := handleEvent_conn b op st t sc h1 hw' hs'
        have := body_no_hupQueued op t sc hb
        by_cases hh : (body op t sc).hup = true
        · simp only [hh, if_true] at hc
          rw [hc.1, hc.2.1]
          simp [hupTail, this, eq_comm]
        · have hh' : (body op t sc).hup = false := by simpa using hh
          simp only [hh', Bool.false_eq_true, if_false] at hc
          rw [hc.1, hc.2.1]
          simp [this]
  · have := handleEvent_nodo b op st t sc h1
    simp [this.1, this.2.2.1]

theorem setSt_ne (st : Nat → OpSt) (i j : Nat) (s : OpSt) (h : j ≠ i) : setSt st i s j = st j := by
  simp [setSt, h]

/-- `p.hups` after the loop over a batch of distinct operators: the old entries, then one entry per
event that went through `appendHup`, in batch order; each such operator was detached in this batch -/
theorem loop_hups (evs : List Ev) (hd : DistinctIds evs) : ∀ (b : Nat) (st : Nat → OpSt) (h : List (Nat × Bool)),
    ∃ extra : List (Nat × Bool),
      (handleLoop b st h evs).hups = h ++ extra ∧
      (extra.map (·.1)).Sublist (evs.map (·.id)) ∧
      (∀ id hb, (id, hb) ∈ extra ↔ (id, Cb.hupQueued hb) ∈ (handleLoop b st h evs).tr) ∧
      (∀ id hb, (id, hb) ∈ extra → (id, Cb.detach ((st id).detached == 0)) ∈ (handleLoop b st h evs).tr) := by
  induction evs with
  | nil => intro b st h; exact ⟨[], by simp [handleLoop_nil]⟩
  | cons e es ih =>
    intro b st h
    have hd' : DistinctIds es := (List.nodup_cons.1 hd).2
    have hne : ∀ e' ∈ es, e'.id ≠ e.id := by
      intro e' he' heq
      exact (List.nodup_cons.1 hd).1 (List.mem_map.2 ⟨e', he', heq⟩)
    have hev := fun hb => event_hup_iff b e.op (st e.id) e.trig e.sc hb
    -- the entry (if any) this event adds
    have hhead : ∃ x : List (Nat × Bool),
        (match (handleEvent b e.op (st e.id) e.trig e.sc).hup with
          | some hb => h ++ [(e.id, hb)]
          | none => h) = h ++ x ∧
        (x.map (·.1)).Sublist [e.id] ∧
        (∀ id hb, (id, hb) ∈ x ↔ (id, Cb.hupQueued hb) ∈ (handleEvent b e.op (st e.id) e.trig e.sc).tr.map (e.id, ·)) ∧
        (∀ id hb, (id, hb) ∈ x → (id, Cb.detach ((st id).detached == 0)) ∈ (handleEvent b e.op (st e.id) e.trig e.sc).tr.map (e.id, ·)) := by
      cases hh : (handleEvent b e.op (st e.id) e.trig e.sc).hup with
      | none =>
        refine ⟨[], by simp, by simp, ?_, by simp⟩
        intro id hb
        simp only [List.not_mem_nil, List.mem_map, Prod.mk.injEq, false_iff, not_exists, not_and]
        rintro c hc _ rfl
        have := ((hev hb).1).2 hc
        rw [hh] at this; cases this
      | some hb0 =>
        refine ⟨[(e.id, hb0)], by simp, by simp, ?_, ?_⟩
        · intro id hb
          simp only [List.mem_singleton, Prod.mk.injEq, List.mem_map]
          constructor
          · rintro ⟨rfl, rfl⟩
            exact ⟨_, ((hev hb).1).1 hh, rfl, rfl⟩
          · rintro ⟨c, hc, rfl, rfl⟩
            have := ((hev hb).1).2 hc
            rw [hh] at this
            exact ⟨rfl, (Option.some.inj this).symm⟩
        · intro id hb hmem
          simp only [List.mem_singleton, Prod.mk.injEq] at hmem
          rcases hmem with ⟨rfl, rfl⟩
          have hq := ((hev hb).1).1 hh
          exact List.mem_map.2 ⟨_, ((hev hb).2 hq).2, rfl⟩
    rcases hhead with ⟨x, hx1, hx2, hx3, hx4⟩
    rw [handleLoop_cons]
    split
    · exact ⟨x, hx1, hx2.trans (by simp), hx3, hx4⟩
    · rcases ih hd' (handleEvent b e.op (st e.id) e.trig e.sc).buf0
          (setSt st e.id (handleEvent b e.op (st e.id) e.trig e.sc).st)
          (match (handleEvent b e.op (st e.id) e.trig e.sc).hup with
            | some hb => h ++ [(e.id, hb)]
            | none => h) with ⟨y, hy1, hy2, hy3, hy4⟩
      have hyid : ∀ id hb, (id, hb) ∈ y → id ≠ e.id := by
        intro id hb hmem
        have : id ∈ es.map (·.id) := hy2.subset (List.mem_map.2 ⟨(id, hb), hmem, rfl⟩)
        rcases List.mem_map.1 this with ⟨e', he', rfl⟩
        exact hne e' he'
      have hxid : ∀ id hb, (id, hb) ∈ x → id = e.id := by
        intro id hb hmem
        have : id ∈ [e.id] := hx2.subset (List.mem_map.2 ⟨(id, hb), hmem, rfl⟩)
        simpa using this
      refine ⟨x ++ y, ?_, ?_, ?_, ?_⟩
      · exact (hy1.trans (congrArg (· ++ y) hx1)).trans (List.append_assoc h x y)
      · simpa using hx2.append hy2
      · intro id hb
        simp only [List.mem_append]
        constructor
        · rintro (hm | hm)
          · exact Or.inl ((hx3 id hb).1 hm)
          · exact Or.inr ((hy3 id hb).1 hm)
        · rintro (hm | hm)
          · exact Or.inl ((hx3 id hb).2 hm)
          · exact Or.inr ((hy3 id hb).2 hm)
      · intro id hb hm
        simp only [List.mem_append] at hm ⊢
        rcases hm with hm | hm
        · exact Or.inl (hx4 id hb hm)
        · have := hy4 id hb hm
          rw [setSt_ne _ _ _ _ (hyid id hb hm)] at this
          exact Or.inr this

end Netpoll.Poll
