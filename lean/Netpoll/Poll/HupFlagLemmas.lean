import Netpoll.Poll.HandlerLemmas
/-! Helper lemmas for `C11_hup_flag_acted_on`: an event that carries the hang-up condition ends in `appendHup` unless
a read of THIS event acknowledged a non-zero count (`totalRead` is per event). -/
namespace Netpoll.Poll

/-- the non-zero `InputAck` values of a trace (bytes delivered, or the `-1` of a failed read), in order -/
def nzAcksOf (tr : List Cb) : List Int :=
  tr.filterMap fun c => match c with
    | .inputAck n => if n != 0 then some n else none
    | _ => none

@[simp] theorem nzAcksOf_nil : nzAcksOf [] = [] := rfl
@[simp] theorem nzAcksOf_append (a b : List Cb) : nzAcksOf (a ++ b) = nzAcksOf a ++ nzAcksOf b := by
  simp [nzAcksOf, List.filterMap_append]
@[simp] theorem nzAcksOf_cons_inputs (l : List Cb) : nzAcksOf (.inputs :: l) = nzAcksOf l := by simp [nzAcksOf]
@[simp] theorem nzAcksOf_cons_ack_zero (l : List Cb) : nzAcksOf (.inputAck 0 :: l) = nzAcksOf l := by simp [nzAcksOf]
@[simp] theorem nzAcksOf_cons_outputs (l : List Cb) : nzAcksOf (.outputs :: l) = nzAcksOf l := by simp [nzAcksOf]
@[simp] theorem nzAcksOf_cons_outputAck (n : Int) (l : List Cb) : nzAcksOf (.outputAck n :: l) = nzAcksOf l := by simp [nzAcksOf]
@[simp] theorem nzAcksOf_cons_onRead (l : List Cb) : nzAcksOf (.onRead :: l) = nzAcksOf l := by simp [nzAcksOf]
@[simp] theorem nzAcksOf_cons_onWrite (l : List Cb) : nzAcksOf (.onWrite :: l) = nzAcksOf l := by simp [nzAcksOf]
theorem nzAcksOf_cons_ack_nz (n : Int) (l : List Cb) (h : n ≠ 0) : nzAcksOf (.inputAck n :: l) = n :: nzAcksOf l := by
  simp [nzAcksOf, h]

/-- `readall` returns a non-zero total only if it acknowledged a non-zero count -/
theorem readall_total_nz (ins : List Vec) (rds : List Rd) (h : (readall ins rds).total ≠ 0) :
    nzAcksOf (readall ins rds).tr ≠ [] := by
  fun_induction readall ins rds <;> simp_all [nzAcksOf]
  intro h0; omega

theorem writePhase_nz (op : Op) (t : Trig) (sc : Script) (pre : List Cb) (u : Nat) :
    nzAcksOf (writePhase op t sc pre u).tr = nzAcksOf pre := by
  unfold writePhase
  repeat' split
  all_goals simp

theorem errPhase_nz (op : Op) (t : Trig) (sc : Script) (pre : List Cb) (u : Nat) :
    nzAcksOf (errPhase op t sc pre u).tr = nzAcksOf pre := by
  unfold errPhase
  split
  · rfl
  · exact writePhase_nz op t sc pre u

/-- `if triggerHup {...}`: with the hang-up condition set, no system call left hanging and no non-zero acknowledgement anywhere
in the event's trace, the event closes with `appendHup` – provided `totalRead` is non-zero only if `pre` acknowledged something -/
theorem hupPhase_hup_of_no_nz (op : Op) (t : Trig) (sc : Script) (pre : List Cb) (tot : Int) (u : Nat)
    (ins : List Vec) (rds : List Rd) (hh : t.hup = true)
    (hs : (hupPhase op t sc pre tot u ins rds).stuck = false)
    (hz : nzAcksOf (hupPhase op t sc pre tot u ins rds).tr = [])
    (ht : tot ≠ 0 → nzAcksOf pre ≠ []) :
    (hupPhase op t sc pre tot u ins rds).hup = true := by
  unfold hupPhase at hs hz ⊢
  simp only [hh, if_true] at hs hz ⊢
  by_cases hri : (t.rd && op.inputs) = true
  · simp only [hri, if_true] at hs hz ⊢
    unfold afterReadall at hs hz ⊢
    by_cases hst : (readall ins rds).stuck = true
    · simp [hst] at hs
    · simp only [hst, Bool.false_eq_true, if_false] at hs hz ⊢
      by_cases h0 : tot + (readall ins rds).total = 0
      · simp [h0]
      · exfalso
        have h0' : (tot + (readall ins rds).total == 0) = false := by simpa using h0
        simp only [h0', Bool.false_eq_true, if_false, errPhase_nz, nzAcksOf_append, List.append_eq_nil_iff] at hz
        by_cases htz : tot = 0
        · have : (readall ins rds).total ≠ 0 := by omega
          exact readall_total_nz ins rds this hz.2
        · exact ht htz hz.1
  · simp only [hri, Bool.false_eq_true, if_false] at hs hz ⊢
    by_cases h0 : tot = 0
    · simp [h0]
    · exfalso
      have h0' : (tot == 0) = false := by simpa using h0
      simp only [h0', Bool.false_eq_true, if_false, errPhase_nz] at hz
      exact ht h0 hz

/-- the cascade of one event: hang-up condition set and nothing (non-zero) acknowledged ⇒ it ends in `appendHup` -/
theorem body_hup_of_no_nz (op : Op) (t : Trig) (sc : Script) (hh : t.hup = true)
    (hs : (body op t sc).stuck = false) (hz : nzAcksOf (body op t sc).tr = []) : (body op t sc).hup = true := by
  unfold body at hs hz ⊢
  by_cases hrd : t.rd = true
  · simp only [hrd, if_true] at hs hz ⊢
    by_cases hor : op.onRead = true
    · simp only [hor, if_true] at hs hz ⊢
      exact hupPhase_hup_of_no_nz _ _ _ _ _ _ _ _ hh hs hz (by simp)
    · simp only [hor, Bool.false_eq_true, if_false] at hs hz ⊢
      by_cases hin : op.inputs = true
      · simp only [hin, if_true] at hs hz ⊢
        rcases hnv : nextVec sc.ins with ⟨v, ins'⟩
        simp only [hnv] at hs hz ⊢
        cases v with
        | empty =>
          simp only at hs hz ⊢
          exact hupPhase_hup_of_no_nz _ _ _ _ _ _ _ _ hh hs hz (by simp)
        | zero => simp
        | room =>
          cases hr : sc.rds with
          | nil => simp [hr] at hs
          | cons r rs =>
            simp only [hr] at hs hz ⊢
            by_cases he : (ioreadRes r).2 = true
            · simp [he]
            · simp only [he, Bool.false_eq_true, if_false] at hs hz ⊢
              exact hupPhase_hup_of_no_nz _ _ _ _ _ _ _ _ hh hs hz
                (by intro h; simp [nzAcksOf_cons_ack_nz _ _ h])
      · simp only [hin, Bool.false_eq_true, if_false] at hs hz ⊢
        exact hupPhase_hup_of_no_nz _ _ _ _ _ _ _ _ hh hs hz (by simp)
  · simp only [hrd, Bool.false_eq_true, if_false] at hs hz ⊢
    exact hupPhase_hup_of_no_nz _ _ _ _ _ _ _ _ hh hs hz (by simp)

end Netpoll.Poll
