import Netpoll.Poll.Wake
/-! Invariant of the wake-up protocol. -/
namespace Netpoll.Poll.Wake

/-- while the loop lives: the flag is set iff exactly one wake-up is under way (a writer between `Add`
and `Write`, an unread 2^56 unit, or a unit the loop has read and not yet acknowledged by the
`Store`); what the loop read was non-zero; an owed pass has a set flag behind it; an owed close is
in the counter or already in the buffer -/
def Good (s : S) : Prop :=
  s.pc ≠ .exited →
    (s.writers + s.trigW + s.got = if s.trigger > 0 then 1 else 0) ∧
    (s.pc ≠ .afterRead → s.got = 0) ∧
    (s.pc = .fetched → s.trigW + s.closeW > 0) ∧
    (s.pc = .afterRead → s.got > 0 ∨ s.buf0 > 0) ∧
    (s.owed = true → s.trigger > 0 ∨ s.pc = .afterStore) ∧
    (s.closeOwed = true → s.closeW > 0 ∨ (s.pc = .afterRead ∧ s.buf0 > 0)) ∧
    s.closeW ≤ s.closes ∧ s.closes ≤ 255

theorem good_init : Good {} := by
  intro _; simp

theorem good_step (s s' : S) (a : Act) (hg : Good s) (hs : step s a = some s') : Good s' := by
  have hc : Gen.trigger_coalesceAbove = 1 := rfl
  obtain ⟨trigger, trigW, closeW, writers, pc, buf0, got, owed, closeOwed, closes⟩ := s
  cases a <;> simp only [step, hc] at hs <;> (repeat' split at hs) <;> (try cases hs) <;>
    (try (simp only [Good] at *; grind))

theorem reachable_good {s : S} (h : Reachable s) : Good s := by
  induction h with
  | init => exact good_init
  | step a _ hs ih => exact good_step _ _ a ih hs

end Netpoll.Poll.Wake
