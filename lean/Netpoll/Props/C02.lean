import Netpoll.Buf.Spec
namespace Netpoll.Props.C02
open Netpoll.Buf
/-- placeholder until the ledger model is merged: a fresh buffer holds no readable byte. -/
theorem fresh_empty (cfg : Cfg) (n : Nat) : (newLB cfg n : LB Nat).length = 0 := rfl
end Netpoll.Props.C02
