import Netpoll.Buf.OwnerLemmas25
/-!
C02 – zero-copy read results stay intact until their reader is released.

Theorems over the ownership ledger model `Netpoll.Buf.Own` (see Props/C03.lean).  A *view* of the ledger is a
result handed out by Next / Peek / Until / GetBytes (`block[lo, hi)`, owner buffer); Slice readers hold child
nodes on the parent's blocks.  Views end at Release / Close / Slice of the owner and at the Append that gives
the owner away.
-/
namespace Netpoll.Props.C02
open Netpoll.Buf Netpoll.Buf.Own

/-- **Until `Release` is called on the reader they came from, the memory behind zero-copy results is not handed back to the
pool**: in every state of a covered history, the block under every live view – a result of Next / Peek / Until / GetBytes whose
owner has not been released, closed, sliced or appended away since, or a private copy of ReadBinary / ReadString / Read – has not
been freed, whatever later reads, writes, growth, appends or releases of other readers happened.
`_partial`: the history must satisfy `CovV` at every call:
(1) no `WriteDirect` with `remain > 0` (the split of one block between two structs: known finding D4, witnesses below);
(2) `MallocAck` only when the structs behind the flush node have reference count 1 (it would reset the count; inside the contract
    these structs hold pending data only);
(3) `Flush` / in-place `WriteBinary` / `book` / `resetTail` / `Append` (receiver) only when no *exposed* struct sits behind the write node
    (these calls cut the chain there; inside the contract such structs were never read);
(4) fresh ids for `new` and Slice readers, `Append` of another buffer. -/
theorem C02_no_free_while_live_partial (cfg : Cfg) (ops : List Op) (hc : AllSteps cfg CovV {} ops)
    (v : View) (hv : v ∈ (run cfg {} ops).mem.views) (hl : v.live = true) (bl : Block)
    (hbl : (run cfg {} ops).mem.blocks[v.block]? = some bl) : bl.frees = 0 :=
  view_block_unfreed (run_all ops hc).1 (run_all ops hc).2 hv hl hbl

/-- the same as a statement about the executable oracle printed by `npdriver own` (`free-while-view-live`,
`freed-block-in-chain`): it accepts every state of a covered history – the exact counterpart of `C02_D4_witness` -/
theorem C02_oracle_accepts_partial (cfg : Cfg) (ops : List Op) (hc : AllSteps cfg CovV {} ops) :
    (run cfg {} ops).noDangling = true :=
  noDangling_of_good (run_all ops hc).1 (run_all ops hc).2

/-- `CovV` holds along a history with zero-copy results of every kind held across later reads, writes, growth, a Slice, an Append
and releases of other readers – and there are live views at its end -/
def viewOps : List Op :=
  [.new 0 16, .mal 0 16, .mal 0 16, .mal 0 16, .flush 0, .next 0 5, .peek 0 20, .skip 0 3, .peek 0 20, .getbytes 0 2,
   .mal 0 2000, .flush 0, .next 0 1500, .slice 0 40 1, .next 1 10, .new 2 8, .mal 2 20, .flush 2, .next 2 4, .app 0 2, .flush 0,
   .untl 1 3, .rel 0, .next 0 8, .rbin 0 4, .read 0 6]

example : AllSteps { linkBufferCap := 16 } CovV {} viewOps := allStepsB_sound (fun _ _ => covVB_sound) _ _ (by decide)
example : (((run { linkBufferCap := 16 } {} viewOps).mem.views.filter (·.live)).length) = 5 := by decide
example : ((run { linkBufferCap := 16 } {} viewOps).mem.blocks.filter (fun b => b.frees > 0)).length = 7 := by decide

/-- **What a Slice reader (or any other open reader) still holds is never handed back to the pool**: in every state of a
covered history the block under each struct chained in a buffer – the child nodes a Slice reader holds on its parent's
blocks, whatever happened to the parent since (reads, growth, Append, Release, Close) – has not been freed.
`_partial`: `Cov` excludes `WriteDirect` with `remain > 0` (known finding D4, witnesses below) and a `MallocAck` that
would reset a reference count different from 1; it asks for fresh buffer ids. -/
theorem C02_no_free_while_reader_holds_partial (cfg : Cfg) (ops : List Op) (hc : AllSteps cfg Cov {} ops)
    (id i k : Nat) (b : Buf) (nd : NodeS) (bl : Block)
    (hb : (id, b) ∈ (run cfg {} ops).bufs) (hi : i ∈ b.chain) (hn : (run cfg {} ops).mem.nodes[i]? = some nd)
    (hk : nd.block = some k) (hbl : (run cfg {} ops).mem.blocks[k]? = some bl) : bl.frees = 0 :=
  (run_good ops hc).chained_unfreed hb hi hn hk hbl

/-- a Slice reader outliving its parent's Close: the hypotheses are met and the child still sits on the parent's (unfreed) block -/
def sliceOps : List Op := [.new 0 16, .mal 0 40, .flush 0, .slice 0 30 1, .next 1 10, .close 0]
example : AllSteps { linkBufferCap := 16 } Cov {} sliceOps := allStepsB_sound (fun _ _ => covB_sound) _ _ (by decide)
example : ((run { linkBufferCap := 16 } {} sliceOps).bufs.map fun p => (p.1, p.2.chain.length)) = [(0, 0), (1, 1)] := by decide
example : ((run { linkBufferCap := 16 } {} sliceOps).mem.blocks.map (·.frees)) = [1, 0] := by decide

/-- the concrete history of known finding D4 (corpus/C02/d04-writedirect-split-slice.ops, `seq 315 16`):
`WriteDirect(extra, remain = 13)` splits block 1 into an unmanaged head node and a managed tail node; a Slice
reader (buffer 4) takes a child of the head; `Close` of the parent frees block 1 through the tail. -/
def d4cfg : Cfg := { linkBufferCap := 16 }
def d4ops : List Op := [.new 1 30, .mal 1 33, .wdir 1 33 33 13, .flush 1, .slice 1 17 4, .close 1]

/-- **D4 witness**: the unrestricted claim "no pool block is handed back while a chained node of an open reader
or a live view lies in it" is false for the code as it is. -/
theorem C02_D4_witness : ¬ ∀ ops : List Op, (run d4cfg {} ops).noDangling = true := by
  intro h
  exact absurd (h d4ops) (by decide)

/-- before the parent is closed everything is still fine on that history (the witness is minimal in its last step) -/
example : (run d4cfg {} (d4ops.take 5)).noDangling = true := by decide

/-- a second witness (corpus/C02/d04b-writedirect-split-next-read.ops) with a plain `Next` result instead of a Slice reader: the head part is exposed by `Next`, a copying
`Read` consumes the caller node and the tail, and releases the (unexposed) tail at once – the block is freed under the
live view -/
def d4ops' : List Op := [.new 1 30, .mal 1 33, .wdir 1 5 5 13, .mal 1 100, .flush 1, .next 1 20, .read 1 30]

theorem C02_D4_witness_view : (run d4cfg {} d4ops').noDangling = false := by decide

end Netpoll.Props.C02
