/-
  C06 – request handling is serial and never leaves input stranded.   (model: Netpoll.Conn.Life, fixed code)

  All theorems are about every reachable state of the interleaving model: any chunking of the input (any number of
  poller deliveries of any size), handler tasks starting/returning/panicking, SetOnRequest on a client connection
  with data buffered, OnConnect still running, peer close at any moment.
-/
import Netpoll.Conn.LifeReachLemmas
import Netpoll.Conn.LifeDemos
namespace Netpoll.Props.C06
open Netpoll.Conn.Life Netpoll.Conn.LifeDemos

/-- at most one OnRequest invocation is in progress -/
theorem C06_serial {s : S} (h : Reachable s) : s.handlerActive ≤ 1 := by
  have g := (reach_good h).1
  have h1 := g.lock_eq; have h2 := g.lock_le
  simp only [S.handlerActive, S.lockedTasks] at *
  omega

/-- data that arrives while a handler is returning is not left unprocessed (the Dekker hand-off {publish length,
try lock} x {unlock, re-check length}): in every quiescent reachable state of an open connection with a handler set
(and OnConnect finished, if there is one) the input buffer is empty – no further network event is needed -/
theorem C06_not_stranded {s : S} (h : Reachable s) (hq : Quiescent s)
    (hor : s.orSet = true) (hopen : s.closing = 0) (hoc : s.hasOC = true → s.ocEnds ≥ 1) : s.inLen = 0 := by
  obtain ⟨_, _, gr⟩ := reach_goodr h
  have hi := quiescent_idle s hq
  have hi2 := quiescent_idle2 s hq
  by_cases hz : s.inLen = 0
  · exact hz
  · have hp := gr.dekker ⟨hor, hopen, by omega, hoc⟩
    simp only [S.pendingIn] at hp
    have h1 : (if s.pPc = 4 ∨ s.pPc = 5 then 1 else 0) = 0 := by simp [hi2.1]
    have h2 : (if s.sPc = 1 ∨ s.sPc = 2 ∨ s.sPc = 3 then 1 else 0) = 0 := by simp [hi2.2]
    omega

/-- when the peer closes, buffered input is offered to the handler before the close callbacks run: if the (first and
only) execution of the callback list started on a connection closed by the poller only, with a handler set, no panic
and OnConnect not still pending (D7), the input buffer was empty at that moment – every byte delivered before the
hang-up had been in the buffer at the start of some handler invocation and was consumed -/
theorem C06_offer_before_close {s : S} (h : Reachable s)
    (hcb : s.cbRuns ≥ 1) (hpeer : s.cbStartClosing = 2) (hor : s.cbStartOr = true) (hnp : s.panics = 0) (hd7 : s.d7 = false) :
    s.cbStartLen = 0 :=
  (reach_goodr h).2.2.offered ⟨hcb, hpeer, hor, hnp, hd7⟩

/-! Non-vacuity: the hypotheses are met by concrete reachable states. -/

/- two deliveries, the second while the first task is in its exit window; the task re-checks and takes the lock -/

example : ∃ s, run (init true false false true) demoWindow = some s ∧ s.orSet = true ∧ s.closing = 0 ∧ s.inLen = 0
    ∧ s.reqRuns = 2 ∧ s.handlerActive = 0 := by
  refine ⟨_, rfl, ?_⟩
  decide

/- peer close with input still buffered: the hang-up goroutine starts a processing task instead of closing (fix d06) -/

example : ∃ s, run (init true false false true) demoPeerClose = some s ∧ s.cbRuns = 1 ∧ s.cbStartClosing = 2 ∧
    s.cbStartOr = true ∧ s.panics = 0 ∧ s.d7 = false ∧ s.cbStartLen = 0 ∧ s.reqRuns = 2 := by
  refine ⟨_, rfl, ?_⟩
  decide

end Netpoll.Props.C06
