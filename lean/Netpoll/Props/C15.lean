import Netpoll.FdGlobal
import Netpoll.ManagerRes
import Netpoll.ManagerExamples
/-!
# C15 – every descriptor netpoll owns is closed exactly once, and no other

Model: `Netpoll.Fd` (lifecycle programs after the Go code, composed in any interleaving with an adversary that
reuses freed numbers).  Helper lemmas: `Netpoll.FdLemmas`, `Netpoll.FdGlobal`.  The statements are about the
code AFTER the fixes of D15 (`listener.Close` closes through the owning `os.File` only) and F1 (`CreateListener`
closes what `net.Listen` opened when `ConvertListener` fails); the old behaviour is kept as witnesses (`D15_*`,
`F1_*`) over explicit pre-fix variants of the lifecycle programs.
-/
namespace Netpoll.Props.C15
open Netpoll.Fd

/-- **Every close hits a number netpoll owns at that moment.**  For all sets of numbers already open elsewhere,
all move sequences (any number of connection / listener / dialer / poller lifecycles started at any time, every
error branch, any interleaving of their events, the adversary opening and closing numbers in between), with no
assumption on outcomes: each `close` (and each hand-over by `Detach`) that netpoll performs finds the number
owned by that very lifecycle instance, as that very object; and the ledger monitor used as oracle on the
implementation accepts the observable trace. -/
theorem C15_close_owned (envOpen : Fd → Bool) (ms : List Move) (g : G) (hk : FromKinds ms)
    (hr : run noAssumptions (G.init envOpen) ms = some g) :
    (∀ fd i t s was, Ev.npClose fd i t s was ∈ g.trace → was = some (.np i t)) ∧
    (∀ fd i t was, Ev.npRel fd i t was ∈ g.trace → was = some (.np i t)) ∧
    closeOwnedOK envOpen g.obs = true := by
  have hok : MovesOK noAssumptions (fun _ => True) ms := by
    intro p hp; obtain ⟨k, rfl⟩ := hk p hp; exact kind_safe _ k
  obtain ⟨gi, mi⟩ := Inv_run noAssumptions (fun _ => True) envOpen ms _ g (GInv_init _ _ envOpen) (MonInv_init envOpen) hok hr
  exact ⟨gi.closes, gi.rels, mi.ok⟩

/-- **No number is closed twice by netpoll without netpoll having been given it again in between** (same
quantification, no assumptions). -/
theorem C15_once (envOpen : Fd → Bool) (ms : List Move) (g : G) (hk : FromKinds ms)
    (hr : run noAssumptions (G.init envOpen) ms = some g) :
    onceOK g.obs = true ∧
    ∀ (i j : Nat) (fd : Fd), i < j → g.obs[i]? = some (.npClose fd) → g.obs[j]? = some (.npClose fd) →
      ∃ k, i < k ∧ k < j ∧ g.obs[k]? = some (.npOpen fd) := by
  have hok : MovesOK noAssumptions (fun _ => True) ms := by
    intro p hp; obtain ⟨k, rfl⟩ := hk p hp; exact kind_safe _ k
  obtain ⟨_, mi⟩ := Inv_run noAssumptions (fun _ => True) envOpen ms _ g (GInv_init _ _ envOpen) (MonInv_init envOpen) hok hr
  exact ⟨mi.once, fun i j fd hij hi hj => onceOK_spec g.obs mi.once i j fd hij hi hj⟩

/-- **Nothing is left.**  When every lifecycle that was started has completed (connections: close callbacks have
run; listeners: `Close` was called; pollers: the loop has seen the close request), no number in the ledger
belongs to netpoll – under `noLeakAssumptions` (`SetNonblock` does not fail inside `ConvertListener`,
`epoll_wait` fails only with EINTR; the witnesses below show each is needed) and with numbers 0–2 never handed to
netpoll (built into `gstep`).  `File()` failing inside `ConvertListener` (descriptor limit) is covered: no
assumption about it since the fix of F1. -/
theorem C15_none_left (envOpen : Fd → Bool) (ms : List Move) (g : G) (hk : FromKinds ms)
    (hr : run noLeakAssumptions (G.init envOpen) ms = some g) (hd : g.allDone = true) :
    (∀ fd i t, g.led fd ≠ some (.np i t)) ∧ noneLeftOK envOpen g.obs = true := by
  have hok : MovesOK noLeakAssumptions (fun o => o = Own.empty) ms := by
    intro p hp; obtain ⟨k, rfl⟩ := hk p hp; exact kind_complete k
  obtain ⟨gi, mi⟩ := Inv_run noLeakAssumptions (fun o => o = Own.empty) envOpen ms _ g (GInv_init _ _ envOpen)
    (MonInv_init envOpen) hok hr
  have none : ∀ fd i t, g.led fd ≠ some (.np i t) := by
    intro fd i t h
    have hi := gi.bound fd i t h
    have hm : g.insts[i]? = some g.insts[i] := by simp [hi]
    have hdone : isDone g.insts[i] = true := by
      have := List.all_eq_true.1 hd g.insts[i] (List.getElem_mem hi); exact this
    have hw := gi.progs i _ hm
    cases hp : g.insts[i] with
    | ret u =>
      rw [hp] at hw; simp only [wp] at hw
      have : ownOf g.led i fd = some t := ownOf_eq_some.2 h
      rw [hw] at this; simp at this
    | _ => rw [hp] at hdone; simp [isDone] at hdone
  refine ⟨none, ?_⟩
  simp only [noneLeftOK, leftOpen, List.isEmpty_iff, List.filter_eq_nil_iff]
  intro fd _
  rw [mi.cell]
  have hn := none fd
  unfold cellOf
  split <;> simp_all

/-- **The pool asks every poller it lets go of to exit.**  `C15_none_left` speaks of poller lifecycles that have
completed, i.e. whose loop has seen its close request; who sends that request is the poller pool (`poll_manager.go`,
model `Netpoll.Manager` of C18: `Run` with its shrink loop, grow loop and error path, `Close`).  In every reachable
state of the pool in which nobody is inside `Run` – after any sequence of `SetNumLoops` (larger or SMALLER), `Pick`s,
failed `openPoll`s – every poller ever opened is either still in the pool's slice or has been sent `Close`, none
twice and none that is still in the slice; and after `manager.Close()` every poller ever opened has been sent `Close`
exactly once and the slice is empty.  Together with `C15_none_left` (each such poller then closes its epoll
descriptor and its eventfd): after the event loops are closed the pool has left no descriptor behind. -/
theorem C15_pool_closes_every_poller {n : Nat} {s : Netpoll.Manager.S} (hr : Netpoll.Manager.Reachable n s)
    (hq : s.runners = []) :
    (∀ id, id < s.opened → id ∈ s.polls ∨ id ∈ s.closed) ∧
    (∀ id, id ∈ s.polls → id ∉ s.closed) ∧ s.closed.Nodup ∧
    (∀ id, id < (Netpoll.Manager.closeAll s).opened → id ∈ (Netpoll.Manager.closeAll s).closed) ∧
    (Netpoll.Manager.closeAll s).closed.Nodup ∧ (Netpoll.Manager.closeAll s).polls = [] := by
  have h := Netpoll.Manager.res_reachable hr
  obtain ⟨⟨hnd, hmem, hcov⟩, _⟩ := Netpoll.Manager.res_quiet h hq
  obtain ⟨hlc, _, _, _⟩ := h.logs
  refine ⟨hcov, fun id hid => (hmem id hid).2.2, hlc, ?_, ?_, rfl⟩
  · intro id hid
    show id ∈ s.closed ++ s.polls
    rcases hcov id hid with hm | hm
    · exact List.mem_append_right _ hm
    · exact List.mem_append_left _ hm
  · show (s.closed ++ s.polls).Nodup
    rw [List.nodup_append]
    exact ⟨hlc, hnd, fun a ha b hb hab => (hmem b hb).2.2 (hab ▸ ha)⟩

/-- a pool that grew to three pollers, was shrunk to one (pollers 1 and 2 were sent `Close` by the shrink loop of
`Run`) and is then closed: all three have been sent `Close`, each once -/
example : ∃ s, Netpoll.Manager.Reachable 3 s ∧ s.runners = [] ∧ s.opened = 3 ∧ s.polls = [0] ∧ s.closed = [1, 2] ∧
    (Netpoll.Manager.closeAll s).closed = [1, 2, 0] :=
  ⟨Netpoll.Manager.traceEnd 3 Netpoll.Manager.exShrink, Netpoll.Manager.reachable_traceEnd 3 _ (by decide),
    by decide, by decide, by decide, by decide, by decide⟩

/-! ### non-vacuity: concrete runs of the model -/

example : outcome noLeakAssumptions (fun n => n == 9) demoMoves =
    some (true, [.npOpen 5, .npOpen 6, .npOpen 7, .npClose 6, .envOpen 6, .npClose 5, .npClose 7, .envClose 6, .envClose 9]) := by
  decide +kernel

example : FromKinds demoMoves := by
  intro p hp
  simp [demoMoves] at hp
  rcases hp with rfl | rfl
  · exact ⟨_, rfl⟩
  · exact ⟨_, rfl⟩

/-! ### D15 (fixed in /repo): the old `listener.Close` (`d15Moves`: raw close, the adversary is given the
number, then the close through `ln.file`) -/

theorem D15_witness_closes_foreign_descriptor :
    (run noAssumptions (G.init fun _ => false) d15Moves).map (fun g => g.trace.head?) =
      some (some (Ev.npClose 6 0 1 .listener_Close_file (some .env))) := by decide +kernel

theorem D15_witness_monitor_rejects :
    (outcome noAssumptions (fun _ => false) d15Moves).map (fun r => (closeOwnedOK (fun _ => false) r.2, onceOK r.2)) =
      some (false, false) := by decide +kernel

/-- without the adversary the second close is the silent EBADF seen under strace -/
theorem D15_witness_ebadf :
    (run noAssumptions (G.init fun _ => false) (d15Moves.filter fun m => match m with | .envOpen _ => false | _ => true)).map
      (fun g => g.trace.head?) = some (some (Ev.npClose 6 0 1 .listener_Close_file none)) := by decide +kernel

/-! ### F1 (fixed in /repo): `CreateListener` when `File()` fails (descriptor limit) -/

/-- before the fix (`return ConvertListener(ln)`): the lifecycle is over and what `net.Listen` opened (5) is still
netpoll's – nobody will ever close it -/
theorem F1_witness_prefix_leaks_listener :
    (run noAssumptions (G.init fun _ => false)
      [.spawn (lifeCreateListenerPreF1 1), .step 0 0 false, .step 0 0 true, .step 0 5 true, .step 0 0 false]).map
      (fun g => (g.allDone, g.led 5)) = some (true, some (.np 0 0)) := by decide +kernel

/-- the fixed code on the same outcomes: one more step, `ln.Close()` at the new call site, and nothing is left -/
theorem F1_fixed_closes_listener :
    (run noAssumptions (G.init fun _ => false)
      [.spawn (Kind.createListener 1).prog, .step 0 0 false, .step 0 0 true, .step 0 5 true, .step 0 0 false,
       .step 0 0 true]).map
      (fun g => (g.allDone, g.led 5, g.trace.head?)) =
      some (true, none, some (Ev.npClose 5 0 0 .createListener_ln (some (.np 0 0)))) := by decide +kernel

/-! ### the assumptions of `C15_none_left` are needed (what the code does on those branches) -/

/-- `SetNonblock` failing inside `ConvertListener` (after `File()` made the duplicate 6): `CreateListener` closes
what `net.Listen` opened (5) and drops the listener object; the duplicate is left to the finalizer. -/
theorem leak_createListener_setNonblock_fails :
    (run noAssumptions (G.init fun _ => false)
      [.spawn (Kind.createListener 1).prog, .step 0 0 false, .step 0 0 true, .step 0 5 true, .step 0 0 true,
       .step 0 6 true, .step 0 0 false, .step 0 0 true]).map
      (fun g => (g.allDone, g.led 5, g.led 6)) = some (true, none, some (.np 0 1)) := by decide +kernel

/-- a poller whose `EpollWait` fails leaves `Wait` with both descriptors open -/
theorem leak_poller_wait_error :
    (run noAssumptions (G.init fun _ => false)
      [.spawn (Kind.poller 0).prog, .step 0 0 true, .step 0 5 true, .step 0 0 true, .step 0 6 true, .step 0 0 true,
       .step 0 0 false]).map
      (fun g => (g.allDone, g.led 5, g.led 6)) = some (true, some (.np 0 0), some (.np 0 1)) := by decide +kernel

/-- `netFD.Close` never closes numbers 0–2 (and does not hand them over either) -/
theorem stdio_numbers_never_closed (fd : Nat) (h : fd ≤ 2) (t : Nat) :
    NetFD.close { fd := fd, tag := t } = M.ret { fd := fd, tag := t, closed := 1 } := by
  have : ¬ fd > 2 := by omega
  simp [NetFD.close, this]

end Netpoll.Props.C15
