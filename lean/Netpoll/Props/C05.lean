/-
  C05 – connection teardown happens exactly once.   (model: Netpoll.Conn.Life, the code after fixes d05/d06/d10/d14)

  Every theorem quantifies over ALL reachable states of the interleaving model: any number of Close callers, a Detach
  caller, the hang-up goroutine, any number of poller deliveries and handler tasks, handlers that return, close or
  panic, any interleaving of their atomic steps, any number of steps.
-/
import Netpoll.Conn.LifeReachLemmas
import Netpoll.Conn.LifeDemos
import Netpoll.Conn.LifeDemoQuiescent
import Netpoll.Conn.Callbacks
import Netpoll.Conn.Callbacks
namespace Netpoll.Props.C05
open Netpoll.Conn.Life Netpoll.Conn.LifeDemos Netpoll.Conn.Callbacks

/-- the close callbacks (the callback list) are executed at most once, whatever happens -/
theorem C05_cb_once {s : S} (h : Reachable s) : s.cbRuns ≤ 1 := by
  have g := (reach_good h).1
  have h1 := g.lock_eq; have h2 := g.lock_le; have h3 := g.runs_eq
  omega

/-- … and exactly once when owed: in every quiescent reachable state (no internal step enabled) of a connection that a
user closed, or that the peer closed while OnConnect or OnRequest was set, the list has been executed to its end -/
theorem C05_cb_exactly_once_at_quiescence {s : S} (h : Reachable s) (hq : Quiescent s)
    (owed : s.userClosed = true ∨ s.hupOwed = true) : s.cbRuns = 1 ∧ s.cbDone = 1 := by
  obtain ⟨g, gq⟩ := reach_good h
  have hi := quiescent_idle s hq
  have hr := gq.resp owed
  have h1 := g.lock_eq; have h2 := g.lock_le; have h3 := g.runs_eq
  simp only [S.pendingQ, S.cbTotal] at *
  split at hr <;> omega

/-- the callbacks never run while a request handler is executing (and no handler starts while they run) -/
theorem C05_not_during_handler {s : S} (h : Reachable s) : s.handlerActive > 0 → s.cbActive = 0 := by
  have g := (reach_good h).1
  have h1 := g.lock_eq; have h2 := g.lock_le
  simp only [S.handlerActive, S.lockedTasks, S.cbTotal] at *
  omega

/-- the descriptor is closed at most once -/
theorem C05_fd_once {s : S} (h : Reachable s) : s.fdCloses ≤ 1 := by
  have g := (reach_good h).1
  have := g.fd_guard
  omega

/-- … not at all when the Detach call is the one that closed the connection -/
theorem C05_fd_not_closed_when_detached {s : S} (h : Reachable s) (hd : s.detachWon = true) : s.fdCloses = 0 := by
  have g := (reach_good h).1
  have h1 := g.fd_det
  have h2 : ¬ (s.cbF3c + s.fdCloses ≥ 1) := fun hc => by simp [h1 hc] at hd
  omega

/-- … and exactly once at quiescence when the teardown was owed and Detach was never called -/
theorem C05_fd_exactly_once_at_quiescence {s : S} (h : Reachable s) (hq : Quiescent s)
    (owed : s.userClosed = true ∨ s.hupOwed = true) (nodetach : s.dPc = 0) : s.fdCloses = 1 := by
  obtain ⟨g, gq⟩ := reach_good h
  have hd := (C05_cb_exactly_once_at_quiescence h hq owed).2
  have h1 := gq.fd_done ⟨by omega, nodetach⟩
  have h2 := g.fd_guard
  omega

/-- the poller slot is freed at most once and the poller registration is removed at most once -/
theorem C05_slot_once {s : S} (h : Reachable s) : s.slotFrees ≤ 1 ∧ s.epollDels ≤ 1 := by
  have g := (reach_good h).1
  have h1 := g.lock_eq; have h2 := g.lock_le; have h3 := g.free_eq; have h4 := g.del_le
  omega

/-- … the slot exactly once at quiescence when the teardown was owed -/
theorem C05_slot_exactly_once_at_quiescence {s : S} (h : Reachable s) (hq : Quiescent s)
    (owed : s.userClosed = true ∨ s.hupOwed = true) : s.slotFrees = 1 := by
  obtain ⟨g, _⟩ := reach_good h
  have hd := C05_cb_exactly_once_at_quiescence h hq owed
  have hi := quiescent_idle s hq
  have h3 := g.free_eq; have h4 := g.runs_eq
  simp only [S.cbBeforeFree, S.cbActive, S.cbTotal] at *
  omega

/-- IsActive never returns true again after it has returned false: `closing ≠ 0` is stable under every step -/
theorem C05_isactive_monotone {s s' : S} (a : Act) (hs : step s a = some s') : s.closing ≠ 0 → s'.closing ≠ 0 :=
  closing_mono_step s s' a hs

/-- … hence along every run -/
theorem C05_isactive_monotone_run {s s' : S} (as : List Act) (hr : run s as = some s') : s.closing ≠ 0 → s'.closing ≠ 0 := by
  induction as generalizing s with
  | nil => simp [run] at hr; subst hr; exact id
  | cons a as ih =>
    simp only [run] at hr
    split at hr
    · rename_i s1 h1; exact fun hc => ih hr (closing_mono_step s s1 a h1 hc)
    · cases hr

/-- LIFO: `AddCloseCallback` pushes a node in front of `latest`; `closeCallback` walks `latest, latest.pre, …`:
the callbacks run in reverse order of registration -/
theorem C05_lifo {α : Type} (cbs : List α) : runOrder (cbs.foldl addCloseCallback []) = cbs.reverse := by
  have : ∀ (acc : List α), cbs.foldl addCloseCallback acc = cbs.reverse ++ acc := by
    induction cbs with
    | nil => intro acc; rfl
    | cons c cs ih => intro acc; simp [List.foldl, addCloseCallback, ih]
  simpa [runOrder] using this []

/-! Non-vacuity: a concrete run (server, OnRequest set) – accept, one delivery, handler consumes, peer hang-up, the
hang-up goroutine runs the callbacks – reaches a quiescent-looking state in which the teardown was owed and done. -/

example : ∃ s, run (init true false false true) demoRun = some s ∧ s.hupOwed = true ∧ s.cbRuns = 1 ∧ s.cbDone = 1 ∧
    s.fdCloses = 1 ∧ s.slotFrees = 1 ∧ s.epollDels = 1 ∧ s.reqRuns = 1 ∧ s.closing = 2 := by
  refine ⟨_, rfl, ?_⟩
  decide

example : Reachable (init true false false true) := Reachable.init _ _ _ _

/- the quiescence theorems are not vacuous: the final state of that run is reachable, quiescent, the teardown was owed
and Detach was never called -/
example : Reachable demoFinal ∧ Quiescent demoFinal ∧ (demoFinal.userClosed = true ∨ demoFinal.hupOwed = true) ∧ demoFinal.dPc = 0 :=
  ⟨reach_run demoRun (Reachable.init true false false true) demoFinal_run, demoFinal_quiescent,
   Or.inr demoFinal_owed.1, demoFinal_owed.2.1⟩

end Netpoll.Props.C05
