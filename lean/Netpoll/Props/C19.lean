import Netpoll.RaceExec
import Netpoll.Gen.Access
/-! # C19 – no data races outside the documented buffer exemption (proof, PARTIAL)

Two obligations.

1. `C19_disciplined` – every row of the access table regenerated from the CURRENT source follows the hand-written
   policy `Netpoll.Race.policyTab` (kernel `decide` over the finite table, which is the whole quantifier here).  A new
   plain access to a shared field from a function the policy does not list, an atomic access turned plain, a new
   shared field without a policy entry: each breaks this theorem.

2. `C19_no_race` – the generic soundness of the discipline over an abstract execution: if every access of an execution
   follows the policy and the execution satisfies the ordering facts the disciplines rely on, then any two conflicting
   accesses are ordered by happens-before: there is no data race in the sense of the Go memory model.

What this does NOT prove (hence "partial"): the ordering facts are HYPOTHESES of theorem 2 (fields of `Exec`), named
after the protocol invariants that justify them; those invariants are the subject of the C05/C06/C09 (locker keys),
C10 (slot token), C17 (ShardQueue) and C18 (manager status) models, or are the documented API contract (one reader,
one writer, reconfiguration not concurrent with use).  The role / lock annotation of each function in the policy is a
trusted input at function granularity.  Only the structs listed in `tools/extract/access.go` and the package-level
variables are covered; LinkBuffer internals are the documented exemption.  The race-detector runs of `checks/c19.py`
are the independent (sampling) evidence for both trusted parts. -/
namespace Netpoll.Props.C19
open Netpoll.Race

/-! ## 1. The regenerated table follows the policy -/

set_option maxRecDepth 200000 in
/-- every field's accesses in the table regenerated from /repo comply with the discipline of the field
    (the form the kernel evaluates: one policy lookup per field) -/
theorem C19_disciplined_groups : Netpoll.Gen.accessGroups.all okGroup = true := by decide +kernel

/-- every access `(field, function, kind)` in the table regenerated from /repo complies with the discipline of its field -/
theorem C19_disciplined : Netpoll.Gen.accesses.all ok = true :=
  all_ok_of_groups _ C19_disciplined_groups

set_option maxRecDepth 200000 in
/-- **C19_lexically_locked** (T-gen, lexical lock coverage): every plain access of the regenerated table made from a function
    that the policy annotates as "inside a critical section of lock l" (`guarded`, producers of `handoff`) sits lexically
    between a lock call on the Go object behind `l` and its unlock, at every occurrence in that function (table
    `Netpoll.Gen.lexHeld`, regenerated from the current source).  A guarded write moved out of its `Lock()…Unlock()` window
    inside the same function breaks this theorem. -/
theorem C19_lexically_locked : Netpoll.Gen.accesses.all (lexOk Netpoll.Gen.lexHeld) = true := by decide +kernel

/-- the lexical check does reject: the ring write of `triggering` without the list lock held; a shard's getters touched
    outside the shard lock -/
example : lexOk [] (nm!"mux.queueTrigger.list", nm!"mux.ShardQueue.triggering", .w) = false
    ∧ lexOk [(nm!"mux.ShardQueue.getters", nm!"mux.ShardQueue.Add", .w, [nm!"mux.queueTrigger.listLock"])]
        (nm!"mux.ShardQueue.getters", nm!"mux.ShardQueue.Add", .w) = false
    ∧ lexOk Netpoll.Gen.lexHeld (nm!"mux.queueTrigger.list", nm!"mux.ShardQueue.triggering", .w) = true := by decide +kernel

/-- the table is not trivial: it has more than 400 rows, among them plain writes, and the checker does reject
    undisciplined accesses (a plain write where only atomics are allowed; a write from a function outside the role;
    an unknown field). -/
example : Netpoll.Gen.accesses.length > 400
    ∧ (Netpoll.Gen.accesses.any fun a => a.2.2 == .w) = true
    ∧ okAccess (nm!"connection.waitReadSize") (nm!"connection.waitRead") .w = false
    ∧ okAccess (nm!"connection.maxSize") (nm!"connection.Close") .w = false
    ∧ okAccess (nm!"connection.newCounter") (nm!"connection.inputAck") .w = false
    ∧ okAccess (nm!"netFD.detaching") (nm!"connection.Detach") .w = false := by decide +kernel

/-! ## 2. Soundness of the discipline over an abstract execution (definitions: `Netpoll.RaceExec`) -/

/-- **C19 (soundness of the discipline).**  In an execution satisfying the named ordering hypotheses, two
    conflicting accesses that both follow the policy are ordered by happens-before. -/
theorem C19_ordered (X : Exec) (e1 e2 : Event) (h1 : e1 ∈ X.events) (h2 : e2 ∈ X.events)
    (hc : Conflict e1 e2) (ok1 : e1.ok = true) (ok2 : e2.ok = true) : X.hb e1 e2 ∨ X.hb e2 e1 := by
  have hc' := hc.symm
  have hsame : e2.disc = e1.disc := by
    unfold Event.disc policy; rw [hc.2.2.1]
  unfold Event.ok okAccess at ok1 ok2
  have hd2 : policy e2.field = policy e1.field := hsame
  rw [hd2] at ok2
  cases hd : policy e1.field with
  | none => rw [hd] at ok1; cases ok1
  | some d =>
    rw [hd] at ok1 ok2
    have hd1 : e1.disc = some d := hd
    have hd2' : e2.disc = some d := by rw [hsame]; exact hd
    have hk := hc.2.2.2
    -- the generic ways out, in terms of the discipline `d` shared by both events
    have exL : d.isExcl e1.fn = true → X.hb e1 e2 ∨ X.hb e2 e1 :=
      fun h => X.excl_phase_ordered e1 h1 e2 h2 hc (by simp [Event.isExcl, hd1, h])
    have exR : d.isExcl e2.fn = true → X.hb e1 e2 ∨ X.hb e2 e1 :=
      fun h => (X.excl_phase_ordered e2 h2 e1 h1 hc' (by simp [Event.isExcl, hd2', h])).symm
    have cfL : d.isConfig e1.fn = true → X.hb e1 e2 ∨ X.hb e2 e1 :=
      fun h => X.status_cas_and_reconfig_contract e1 h1 e2 h2 hc (by simp [Event.isConfig, hd1, h])
    have cfR : d.isConfig e2.fn = true → X.hb e1 e2 ∨ X.hb e2 e1 :=
      fun h => (X.status_cas_and_reconfig_contract e2 h2 e1 h1 hc' (by simp [Event.isConfig, hd2', h])).symm
    have role : ∀ r, d.holds r e1.fn = true → d.holds r e2.fn = true → X.hb e1 e2 ∨ X.hb e2 e1 :=
      fun r a b => X.roleSerial r e1 h1 e2 h2 hc (by simp [Event.holds, hd1, a]) (by simp [Event.holds, hd2', b])
    have lock : ∀ l, d.locks l e1.fn = true → d.locks l e2.fn = true → X.hb e1 e2 ∨ X.hb e2 e1 :=
      fun l a b => X.lockSerial l e1 h1 e2 h2 hc (by simp [Event.locks, hd1, a]) (by simp [Event.locks, hd2', b])
    have hoL : d.produces e1.fn = true → d.consumes e2.fn = true → X.hb e1 e2 ∨ X.hb e2 e1 :=
      fun a b => X.trigger_counter_handoff e1 h1 e2 h2 hc (by simp [Event.produces, hd1, a]) (by simp [Event.consumes, hd2', b])
    have hoR : d.produces e2.fn = true → d.consumes e1.fn = true → X.hb e1 e2 ∨ X.hb e2 e1 :=
      fun a b => (X.trigger_counter_handoff e2 h2 e1 h1 hc' (by simp [Event.produces, hd2', a]) (by simp [Event.consumes, hd1, b])).symm
    cases d with
    | atomicOnly excl =>
      simp only [complies, Bool.or_eq_true, beq_iff_eq] at ok1 ok2
      rcases ok1 with k1 | x1
      · rcases ok2 with k2 | x2
        · rw [k1, k2] at hk; simp [Kind.conflicts] at hk
        · exact exR x2
      · exact exL x1
    | syncObj excl =>
      simp only [complies, Bool.or_eq_true, beq_iff_eq] at ok1 ok2
      rcases ok1 with k1 | x1
      · rcases ok2 with k2 | x2
        · rw [k1, k2] at hk; simp [Kind.conflicts] at hk
        · exact exR x2
      · exact exL x1
    | initOnly excl =>
      simp only [complies, Bool.or_eq_true, beq_iff_eq] at ok1 ok2
      rcases ok1 with k1 | x1
      · rcases ok2 with k2 | x2
        · rw [k1, k2] at hk; simp [Kind.conflicts] at hk
        · exact exR x2
      · exact exL x1
    | owned r fns excl =>
      simp only [complies, Bool.or_eq_true] at ok1 ok2
      rcases ok1 with f1 | x1
      · rcases ok2 with f2 | x2
        · exact role r (by simp [Disc.holds, f1]) (by simp [Disc.holds, f2])
        · exact exR x2
      · exact exL x1
    | guarded l fns excl =>
      simp only [complies, Bool.or_eq_true] at ok1 ok2
      rcases ok1 with f1 | x1
      · rcases ok2 with f2 | x2
        · exact lock l (by simp [Disc.locks, f1]) (by simp [Disc.locks, f2])
        · exact exR x2
      · exact exL x1
    | configOnly ws =>
      simp only [complies, Bool.or_eq_true, beq_iff_eq] at ok1 ok2
      rcases ok1 with k1 | x1
      · rcases ok2 with k2 | x2
        · rw [k1, k2] at hk; simp [Kind.conflicts] at hk
        · exact cfR x2
      · exact cfL x1
    | owned2 r1 r2 ws rd1 rd2 excl =>
      simp only [complies, Bool.or_eq_true, Bool.and_eq_true, beq_iff_eq] at ok1 ok2
      rcases ok1 with (x1 | w1) | ⟨k1, q1⟩
      · exact exL x1
      · rcases ok2 with (x2 | w2) | ⟨k2, q2⟩
        · exact exR x2
        · exact role r1 (by simp [Disc.holds, w1]) (by simp [Disc.holds, w2])
        · rcases q2 with q2 | q2
          · exact role r1 (by simp [Disc.holds, w1]) (by simp [Disc.holds, q2])
          · exact role r2 (by simp [Disc.holds, w1]) (by simp [Disc.holds, q2])
      · rcases ok2 with (x2 | w2) | ⟨k2, q2⟩
        · exact exR x2
        · rcases q1 with q1 | q1
          · exact role r1 (by simp [Disc.holds, q1]) (by simp [Disc.holds, w2])
          · exact role r2 (by simp [Disc.holds, q1]) (by simp [Disc.holds, w2])
        · rw [k1, k2] at hk; simp [Kind.conflicts] at hk
    | handoff l r ps cs excl =>
      simp only [complies, Bool.or_eq_true, Bool.and_eq_true, beq_iff_eq] at ok1 ok2
      rcases ok1 with (x1 | p1) | ⟨k1, c1⟩
      · exact exL x1
      · rcases ok2 with (x2 | p2) | ⟨k2, c2⟩
        · exact exR x2
        · exact lock l (by simp [Disc.locks, p1]) (by simp [Disc.locks, p2])
        · exact hoL (by simp [Disc.produces, p1]) (by simp [Disc.consumes, c2])
      · rcases ok2 with (x2 | p2) | ⟨k2, c2⟩
        · exact exR x2
        · exact hoR (by simp [Disc.produces, p2]) (by simp [Disc.consumes, c1])
        · rw [k1, k2] at hk; simp [Kind.conflicts] at hk

/-- **C19, as stated in the design**: for accesses to the same location by different goroutines that both follow
    the policy: ordered one way, or the other, or not a conflicting pair at all (both atomic / both reads / …). -/
theorem C19_no_race (X : Exec) (e1 e2 : Event) (h1 : e1 ∈ X.events) (h2 : e2 ∈ X.events)
    (hg : e1.gor ≠ e2.gor) (ho : e1.obj = e2.obj) (hf : e1.field.code = e2.field.code)
    (ok1 : e1.ok = true) (ok2 : e2.ok = true) :
    X.hb e1 e2 ∨ X.hb e2 e1 ∨ Kind.conflicts e1.kind e2.kind = false := by
  cases hk : Kind.conflicts e1.kind e2.kind with
  | false => exact Or.inr (Or.inr rfl)
  | true =>
    rcases C19_ordered X e1 e2 h1 h2 ⟨hg, ho, hf, hk⟩ ok1 ok2 with h | h
    · exact Or.inl h
    · exact Or.inr (Or.inl h)

/-- no execution that follows the policy and satisfies the hypotheses contains a data race -/
theorem C19_race_free (X : Exec) (hok : ∀ e ∈ X.events, e.ok = true) : ¬ ∃ e1 e2, Race X e1 e2 := by
  rintro ⟨e1, e2, h1, h2, hc, n1, n2⟩
  rcases C19_ordered X e1 e2 h1 h2 hc (hok e1 h1) (hok e2 h2) with h | h
  · exact n1 h
  · exact n2 h

/-! ## Non-vacuity (the concrete execution `Netpoll.Race.exExec` satisfies every hypothesis of `Exec`) -/

/-- in `exExec` every access follows the policy, there is a genuinely conflicting pair (which the theorem orders),
    and a pair that is unordered without being a race (both atomic): the hypotheses are satisfiable by an execution
    whose happens-before is not total. -/
example : (∀ e ∈ exExec.events, e.ok = true)
    ∧ Conflict exEvents[0] exEvents[1] ∧ exHb exEvents[0] exEvents[1]
    ∧ ¬ exHb exEvents[2] exEvents[3] ∧ ¬ exHb exEvents[3] exEvents[2] := by
  refine ⟨by decide +kernel, by decide +kernel, by decide +kernel, by decide +kernel, by decide +kernel⟩

example : ¬ ∃ e1 e2, Race exExec e1 e2 := C19_race_free exExec (by decide +kernel)

/-- The compliance premise is essential: the same shape with the reader's store made PLAIN (mutation 1 of the
    check's self-test) satisfies no policy, and it conflicts with the poller's atomic load. -/
example : (⟨2, 7, nm!"connection.waitReadSize", nm!"connection.waitRead", .w⟩ : Event).ok = false
    ∧ Conflict ⟨2, 7, nm!"connection.waitReadSize", nm!"connection.waitRead", .w⟩
               ⟨1, 7, nm!"connection.waitReadSize", nm!"connection.inputAck", .a⟩ := by
  refine ⟨by decide +kernel, by decide +kernel⟩

end Netpoll.Props.C19
