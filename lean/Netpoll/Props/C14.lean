import Netpoll.DialLemmas
import Netpoll.DialSpec
/-!
C14 – a dial ends in a usable connection or a clean error within its timeout.

Statements are about `Netpoll.Dial` (the model of net_dialer.go / net_tcpsock.go / net_unixsock.go /
net_sock.go / net_netfd.go / net_polldesc.go with fix c14-timeout applied) and hold for EVERY
script: any first connect(2) errno, any list of wake-ups (writable / hang-up / ctx-done in any
order and multiplicity, any select choice, any SO_ERROR / getpeername / epoll_ctl result), any
late poller events racing with the deferred Free, any number of resolved addresses, any
self-connect / EADDRNOTAVAIL retry pattern.  `blocked` = the script ended while the goroutine is
still parked in the select (the dial has not returned); the wall-clock bound "timeout plus slack"
is measured by the T-real harness, not proved.

`FdsOk`: socket(2) returns numbers above 2 (`netFD.Close` does not close 0, 1, 2 – see
`C14_fd_le_2_leaks`).
-/
namespace Netpoll.Props.C14
open Netpoll.Dial

/-- **C14_xor.** A dial that returns gives exactly one of a connection / a non-nil error
(TCP path `DialConnection → dialer.dialTCP → DialTCP`). -/
theorem C14_xor (as : List AddrScript) :
    match (dialConnection as).2 with
    | .blocked => True
    | .ret conn err => (conn = true ∧ err = none) ∨ (conn = false ∧ err.isSome = true) := by
  have h := dialAddrs_shape {} none as
  unfold dialConnection
  generalize (dialAddrs {} none as).2 = r at h
  cases r with
  | blocked => trivial
  | ret c e => cases c <;> cases e <;> simp_all [DShape]

example : (dialConnection [exRefused, exRetryThenOk]).2 = .ret true none := by decide
example : (dialConnection [exRefused]).2 = .ret false (some (.sysConnect ECONNREFUSED)) := by decide
example : (dialConnection [exTimeout]).2 = .ret false (some (.ctx .deadline)) := by decide

/-- **C14_xor** for unix targets (`DialUnix`). -/
theorem C14_xor_unix (s : St) (a : Attempt) (regErr : Errno) :
    match (dialUnix s a regErr).2 with
    | .blocked => True
    | .ret conn err => (conn = true ∧ err = none) ∨ (conn = false ∧ err.isSome = true) := by
  have h := dialUnix_shape s a regErr
  generalize (dialUnix s a regErr).2 = r at h
  cases r with
  | blocked => trivial
  | ret c e => cases c <;> cases e <;> simp_all [DShape]

example : (dialUnix {} { e0 := 0 } 0).2 = .ret true none := by decide
example : (dialUnix {} { e0 := 2 } 0).2 = .ret false (some (.sysConnect 2)) := by decide

/-- **C14_no_leak.** A dial that returns an error has closed every descriptor it opened
exactly once, freed every operator slot (the temporary one of each connect, and the
connection's if registration failed) exactly once, and left no epoll registration. -/
theorem C14_no_leak (as : List AddrScript) (hfd : FdsOk as) (e : DErr) (conn : Bool)
    (h : (dialConnection as).2 = .ret conn (some e)) : NothingLeft (dialConnection as).1 := by
  have hp := dialAddrs_spec held_init rfl none hfd
  unfold dialConnection at h ⊢
  rw [h] at hp
  cases conn with
  | true => exact hp.elim
  | false =>
    obtain ⟨⟨h1, h2, h3, h4, h5, h6, h7, h8, h9⟩, _⟩ := hp
    exact ⟨by simpa using h1, h2, h3, by simpa using h4, h5, h6, h7, h8, h9⟩

example : (dialConnection [exRefused, exTimeout]).2 = .ret false (some (.ctx .deadline)) ∧
    (dialConnection [exRefused, exTimeout]).1.L.opened = 2 ∧ (dialConnection [exRefused, exTimeout]).1.L.closed = 2 ∧
    (dialConnection [exRefused, exTimeout]).1.L.allocs = 2 := by decide

/-- **C14_no_leak** for unix targets. -/
theorem C14_no_leak_unix (a : Attempt) (hfd : 2 < a.fd) (regErr : Errno) (e : DErr) (conn : Bool)
    (h : (dialUnix {} a regErr).2 = .ret conn (some e)) : NothingLeft (dialUnix {} a regErr).1 := by
  have hp := dialUnix_spec held_init rfl hfd regErr
  rw [h] at hp
  cases conn with
  | true => exact hp.elim
  | false =>
    obtain ⟨⟨h1, h2, h3, h4, h5, h6, h7, h8, h9⟩, _⟩ := hp
    exact ⟨by simpa using h1, h2, h3, by simpa using h4, h5, h6, h7, h8, h9⟩

example : (dialUnix {} { fd := 4, e0 := EAGAIN } 0).2 = .ret false (some (.sysConnect EAGAIN)) := by decide

/-- The `fd > 2` hypothesis is needed: `netFD.Close` skips descriptors 0–2, so a failed dial in
a process whose standard streams are closed leaks the descriptor. -/
theorem C14_fd_le_2_leaks : ∃ as : List AddrScript, (∃ e, (dialConnection as).2 = .ret false (some e)) ∧
    (dialConnection as).1.L.fdOpen = true :=
  ⟨[{ tcp := { att := fun _ => { fd := 2, e0 := ECONNREFUSED } } }], ⟨.sysConnect ECONNREFUSED, by decide⟩, by decide⟩

/-- **C14_registered_on_success.** A dial that returns a connection holds exactly one open
descriptor and one operator slot – the connection's – which is registered for reading; the
temporary slot of every connect has been freed and its registration removed. -/
theorem C14_registered_on_success (as : List AddrScript) (hfd : FdsOk as)
    (h : (dialConnection as).2 = .ret true none) :
    let s := (dialConnection as).1
    s.L.fdOpen = true ∧ s.L.opened = s.L.closed + 1 ∧ s.L.badClose = 0 ∧
    s.L.connSlot = true ∧ s.L.connReg = true ∧
    s.L.allocs = s.L.frees + 1 ∧ s.L.badFree = 0 ∧ s.L.tmpSlot = false ∧ s.pd.epoll = false := by
  have hp := dialAddrs_spec held_init rfl none hfd
  unfold dialConnection at h ⊢
  rw [h] at hp
  obtain ⟨⟨h1, h2, h3, h4, h5, h6, h7, h8, h9⟩, _⟩ := hp
  exact ⟨h3, by simpa using h1, h2, h7, h8, by simpa using h4, h5, h6, h9⟩

example : (dialConnection [exRefused, exRetryThenOk]).2 = .ret true none ∧
    (dialConnection [exRefused, exRetryThenOk]).1.L.opened = 3 ∧
    (dialConnection [exRefused, exRetryThenOk]).1.L.closed = 2 ∧
    (dialConnection [exRefused, exRetryThenOk]).1.L.allocs = 3 := by decide

/-- **C14_registered_on_success** for unix targets. -/
theorem C14_registered_on_success_unix (a : Attempt) (hfd : 2 < a.fd) (regErr : Errno)
    (h : (dialUnix {} a regErr).2 = .ret true none) :
    let s := (dialUnix {} a regErr).1
    s.L.fdOpen = true ∧ s.L.opened = s.L.closed + 1 ∧ s.L.badClose = 0 ∧
    s.L.connSlot = true ∧ s.L.connReg = true ∧
    s.L.allocs = s.L.frees + 1 ∧ s.L.badFree = 0 ∧ s.L.tmpSlot = false ∧ s.pd.epoll = false := by
  have hp := dialUnix_spec held_init rfl hfd regErr
  rw [h] at hp
  obtain ⟨⟨h1, h2, h3, h4, h5, h6, h7, h8, h9⟩, _⟩ := hp
  exact ⟨h3, by simpa using h1, h2, h7, h8, by simpa using h4, h5, h6, h9⟩

/-- **C14_timeout_reports_timeout.** Whenever the dial path executes a
`return …, mapErr(ctx.Err())` with an expired deadline (the ctx case of `WaitWrite`'s select,
or the ctx check after an immediately successful connect), the dial returns an error – no
connection – and that error reports `Timeout()`. -/
theorem C14_timeout_reports_timeout (as : List AddrScript) (hfd : FdsOk as)
    (h : (dialConnection as).1.pd.ctxTaken = some .deadline) :
    ∃ e, (dialConnection as).2 = .ret false (some e) ∧ e.timeout fixedCfg = true := by
  have hp := dialAddrs_spec held_init rfl none hfd
  unfold dialConnection at h ⊢
  generalize dialAddrs {} none as = r at hp h
  obtain ⟨s, res⟩ := r
  simp only at h hp
  cases res with
  | blocked =>
    -- still blocked: no ctx return has been executed
    have hp' : s.pd.ctxTaken = none := hp
    rw [hp'] at h; cases h
  | ret c e =>
    cases c with
    | true =>
      cases e with
      | none => obtain ⟨_, hc⟩ := hp; rw [hc] at h; cases h
      | some e => exact hp.elim
    | false =>
      cases e with
      | none => exact hp.elim
      | some e =>
        obtain ⟨_, hcp⟩ := hp
        cases hcp with
        | inl h0 => rw [h0] at h; cases h
        | inr h0 =>
          obtain ⟨k, ha, _, hk⟩ := h0
          rw [ha] at h
          cases h
          cases hk
          exact ⟨_, rfl, rfl⟩

example : (dialConnection [exTimeout]).1.pd.ctxTaken = some .deadline := by decide

/-- every error of the shape produced for an expired deadline reports `Timeout()`; a cancelled
context does not (it is not a timeout). -/
theorem C14_deadline_error_is_timeout : (DErr.ctx .deadline).timeout fixedCfg = true ∧
    (DErr.ctx .canceled).timeout fixedCfg = false := by decide

/-- **Regression witness for D13** (the tree before fix c14-timeout, `errIOTimeout =
errors.New("i/o timeout")`): the same timed-out dial returns an error whose `Timeout()` is false. -/
theorem C14_D13_witness :
    (dialConnection [exTimeout]).1.pd.ctxTaken = some .deadline ∧
    ∃ e, (dialConnection [exTimeout]).2 = .ret false (some e) ∧ e.timeout d13Cfg = false :=
  ⟨by decide, .ctx .deadline, by decide, by decide⟩

/-- **C14_terminates (wait loop).** Every iteration of the `for { WaitWrite … }` loop consumes
at least one item of the wake-up script (the variant is the length of the remaining script),
and the loop is still blocked only if the whole script has been consumed. -/
theorem C14_terminates (p : PD) (w : Wake) (ws : List Wake) :
    (connectLoop p (w :: ws)).2.2.length < (w :: ws).length ∧
    ((connectLoop p (w :: ws)).2.1 = .blocked → (connectLoop p (w :: ws)).2.2 = []) :=
  ⟨connectLoop_rest_lt p w ws, connectLoop_blocked_rest p (w :: ws)⟩

example : (connectLoop {} [{ evs := [] }, { evs := [.writable], soerr := EINTR }, { evs := [.hup] }, {}]).2 =
    (.ret false (some .closedByPeer), [{}]) := by decide

/-- **C14_terminates (deadline).** Once the context is done and the select takes the ctx case,
the wait loop returns, whatever happened before and whatever else is ready. -/
theorem C14_terminates_on_ctx (p : PD) (pre : List Wake) (w : Wake) (post : List Wake)
    (hp : w.pick = .c) (hctx : ∃ k, Ev.ctxDone k ∈ w.evs) :
    (connectLoop p (pre ++ w :: post)).2.1 ≠ .blocked :=
  connectLoop_returns_on_ctx_pick p pre w post hp hctx

/-- **C14_terminates (retry loop).** `sysDialer.dialTCP` makes at most `retryBound` = 2 extra
attempts, whatever the attempts return. -/
theorem C14_terminates_retry (s : St) (t : TcpScript) : (dialTCP s t).2.2 ≤ 2 :=
  dialTCP_attempts_le s t

example : (dialTCP {} { att := fun _ => { fd := 4, e0 := EADDRNOTAVAIL } }).2 =
    (.ret false (some (.sysConnect EADDRNOTAVAIL)), 2) := by decide

/-- **The oracle is implied by the theorems**: every returned model dial passes `specOk`, the
executable form of C14 that `npdriver dialspec` applies to the implementation's observations. -/
theorem C14_model_meets_oracle (as : List AddrScript) (hfd : FdsOk as) (o : Obs)
    (h : obsOf fixedCfg (dialConnection as).1 (dialConnection as).2 = some o) : specOk o = true := by
  have hp := dialAddrs_spec held_init rfl none hfd
  unfold dialConnection at h
  generalize dialAddrs {} none as = r at hp h
  obtain ⟨s, res⟩ := r
  simp only at h hp
  cases res with
  | blocked => simp [obsOf] at h
  | ret c e =>
    simp only [obsOf, Option.some.injEq] at h
    subst h
    cases c with
    | true =>
      cases e with
      | some e => exact hp.elim
      | none =>
        obtain ⟨⟨h1, h2, h3, h4, h5, h6, h7, h8, h9⟩, _⟩ := hp
        simp only [if_true] at h1 h4
        simp [specOk, isDeadline, h1, h4, h8, h9]
    | false =>
      cases e with
      | none => exact hp.elim
      | some e =>
        obtain ⟨⟨h1, h2, h3, h4, h5, h6, h7, h8, h9⟩, _⟩ := hp
        simp only [Bool.false_eq_true, if_false, Nat.add_zero] at h1 h4
        have ht : (!isDeadline (some e) || e.timeout fixedCfg) = true := by
          cases e with
          | ctx k => cases k <;> decide
          | _ => simp [isDeadline]
        simp [specOk, h1, h4, h8, h9, ht]

example : (obsOf fixedCfg (dialConnection [exRefused, exRetryThenOk]).1 (dialConnection [exRefused, exRetryThenOk]).2).map specOk
    = some true := by decide

/-- the oracle rejects the D13 behaviour -/
example : (obsOf d13Cfg (dialConnection [exTimeout]).1 (dialConnection [exTimeout]).2).map specOk = some false := by decide

end Netpoll.Props.C14
