import Netpoll.Conn.StreamLemmas
import Netpoll.Conn.StreamGetBytes
import Netpoll.Gen.Consts
/-
C04 – a connection delivers the sender's byte stream intact (buffer/kernel hand-off part).
-/
namespace Netpoll.Props.C04
open Netpoll.Buf Netpoll.Poll Netpoll.Conn.Stream

variable {α : Type} [DecidableEq α]

/-- **C04_out (one round).** Whatever prefix split GetBytes produced and whatever count `k` the kernel
accepted, the bytes taken are exactly the next `k` bytes of the buffered stream and exactly those are
removed: nothing lost, duplicated or reordered. -/
theorem C04_out_round (q : Q α) (h : AllFlushed q) (vs : List (List α)) (k : Nat) (sent : List α) (q' : Q α)
    (hr : outRound q vs k = some (sent, q')) (hsmall : q.flushedBytes.length < maxInt32) :
    sent = q.flushedBytes.take k ∧ q'.flushedBytes = q.flushedBytes.drop k ∧ AllFlushed q' := by
  unfold outRound at hr
  by_cases hc : (vs.flatten.isPrefixOf q.flushedBytes = true ∧ k ≤ (iovecBytes vs 0).length)
  · obtain ⟨hp, hk⟩ := hc
    have hp' : vs.flatten <+: q.flushedBytes := List.isPrefixOf_iff_prefix.mp hp
    have hfl : vs.flatten.length ≤ q.flushedBytes.length := hp'.length_le
    have hio : iovecBytes vs 0 = vs.flatten := by
      rw [iovecs_prefix vs 0 (by decide)]
      exact List.take_of_length_le (by omega)
    simp only [hp, hk, and_self, if_true, Option.some.injEq, Prod.mk.injEq] at hr
    rw [hio] at hk hr
    obtain ⟨hs, hq⟩ := hr
    obtain ⟨t, ht⟩ := hp'
    have hsent : sent = q.flushedBytes.take k := by
      rw [← hs, ← ht, List.take_append_of_le_length hk]
    refine ⟨hsent, ?_⟩
    by_cases hk0 : k > 0
    · simp only [hk0, if_true] at hq
      have hkl : k ≤ q.len := by
        have : q.len = q.flushedBytes.length := by simp [Q.len, Q.flushedBytes]
        omega
      rw [skip_release q k hkl hk0] at hq
      subst hq
      refine ⟨?_, allFlushed_drop q h k⟩
      rw [flushedBytes_of_allFlushed _ (allFlushed_drop q h k), flushedBytes_of_allFlushed q h]
      simp [List.map_drop]
    · have : k = 0 := by omega
      subst this
      simp at hq
      subst hq
      exact ⟨by simp, h⟩
  · simp only [List.isPrefixOf_iff_prefix] at hc
    simp at hr
    exact absurd hr.1 (by simpa using hc)

/-- **C04_out.** For every script of rounds (any vector splits, any accepted counts including EAGAIN = 0,
any interleaving of the user's flush and the poller's write events - both run the same round),
what the kernel has accepted so far followed by what is still buffered is the flushed stream. -/
theorem C04_out (q : Q α) (h : AllFlushed q) (rounds : List (List (List α) × Nat)) (sent : List α) (q' : Q α)
    (hsmall : q.flushedBytes.length < maxInt32) (hr : outRun q rounds = some (sent, q')) :
    sent ++ q'.flushedBytes = q.flushedBytes ∧ AllFlushed q' := by
  induction rounds generalizing q sent with
  | nil => simp [outRun] at hr; obtain ⟨rfl, rfl⟩ := hr; exact ⟨by simp, h⟩
  | cons r rest ih =>
    obtain ⟨vs, k⟩ := r
    simp only [outRun] at hr
    split at hr
    · simp at hr
    · rename_i s1 q1 h1
      split at hr
      · simp at hr
      · rename_i more q2 h2
        simp only [Option.some.injEq, Prod.mk.injEq] at hr
        obtain ⟨rfl, rfl⟩ := hr
        obtain ⟨hs1, hq1, hf1⟩ := C04_out_round q h vs k s1 q1 h1 hsmall
        have hsm1 : q1.flushedBytes.length < maxInt32 := by rw [hq1]; simp; omega
        obtain ⟨hcat, hf2⟩ := ih q1 hf1 more hsm1 h2
        refine ⟨?_, hf2⟩
        rw [List.append_assoc, hcat, hs1, hq1, List.take_append_drop]

/-- when the buffer reports empty, everything that was flushed has been accepted by the kernel -/
theorem C04_out_complete (q : Q α) (h : AllFlushed q) (rounds : List (List (List α) × Nat)) (sent : List α) (q' : Q α)
    (hsmall : q.flushedBytes.length < maxInt32) (hr : outRun q rounds = some (sent, q')) (hempty : q'.len = 0) :
    sent = q.flushedBytes := by
  obtain ⟨hcat, hf⟩ := C04_out q h rounds sent q' hsmall hr
  have : q'.flushedBytes = [] := by
    have : q'.flushedBytes.length = 0 := by simpa [Q.len, Q.flushedBytes] using hempty
    exact List.eq_nil_of_length_eq_zero this
  rw [this] at hcat; simpa using hcat

example : outRun ({ items := [(1, true), (2, true), (3, true)] } : Q Nat) [([[1], [2]], 1), ([[2, 3]], 0), ([[2], [], [3]], 2)]
    = some ([1, 2, 3], { items := [] }) := by decide

/-- **C04_out (where the vectors of a round come from).** `connection.flush` and the poller's `outputs` take the vectors
with `GetBytes(barrier)`, `barriercap` slices.  On an output buffer that refines the queue `q` (C01) - with ANY number of
nodes, also more than the barrier has slices - the result has at most `barriercap` vectors, the iovec array built from
them denotes exactly their concatenation, and that is a prefix of the flushed stream: nothing skipped, nothing out of
order.  So for every count `k` the kernel accepts the round is a legal `outRound` (to which `C04_out_round` applies). -/
theorem C04_getBytes_barrier (cfg : Cfg) {b : LB α} {q : Q α} (hR : R b q)
    (hC : Contract q (.getBytes Netpoll.Gen.c_barriercap) = true) (hsmall : q.flushedBytes.length < maxInt32) :
    ∃ b' vs, b.getBytes Netpoll.Gen.c_barriercap = some (b', .vecs vs) ∧ R b' q ∧
      vs.length ≤ Netpoll.Gen.c_barriercap ∧ iovecBytes vs 0 = vs.flatten ∧ vs.flatten <+: q.flushedBytes ∧
      ∀ k, k ≤ vs.flatten.length → (outRound q vs k).isSome = true := by
  obtain ⟨b', vs, hg, hR', hl, hp, ho⟩ := outRound_of_getBytes cfg hR Netpoll.Gen.c_barriercap (by decide) hC
  have hio : iovecBytes vs 0 = vs.flatten := by
    rw [iovecs_prefix vs 0 (by decide)]
    exact List.take_of_length_le (by have := hp.length_le; omega)
  exact ⟨b', vs, hg, hR', hl, hio, hp, fun k hk => ho k (by rw [hio]; exact hk)⟩

/-- more nodes than slices: five one-byte nodes before the flush node, a barrier of three - the first three nodes, in order,
and NOT the flush node -/
example : (({ nodes := [{ buf := [1], malloc := 1, cap := 1 }, { buf := [2], malloc := 1, cap := 1 }, { buf := [], malloc := 0, cap := 1 },
                        { buf := [3], malloc := 1, cap := 1 }, { buf := [4], malloc := 1, cap := 1 }, { buf := [5], malloc := 1, cap := 1 },
                        { buf := [6], malloc := 1, cap := 1 }],
                r := 0, f := 6, w := 6, length := 6, mallocSize := 0, caches := 0, cachePeek := none } : LB Nat).getBytes 3).map (·.2)
    = some (.vecs [[1], [2], [3]]) := by decide

/-- **C04_in.** For every chunking of what the peer sent (any `readv` counts, including zero), the
readable stream is the concatenation of the chunks in arrival order. -/
theorem C04_in (q : Q α) (h : AllFlushed q) (chunks : List (List α)) :
    (chunks.foldl inRound q).flushedBytes = q.flushedBytes ++ chunks.flatten ∧ AllFlushed (chunks.foldl inRound q) := by
  induction chunks generalizing q with
  | nil => simp [h]
  | cons d rest ih =>
    have hq : AllFlushed (inRound q d) := by
      intro x hx
      simp only [inRound, Q.received, List.mem_append, List.mem_map] at hx
      rcases hx with hx | ⟨a, _, rfl⟩
      · exact h x hx
      · rfl
    obtain ⟨h1, h2⟩ := ih (inRound q d) hq
    refine ⟨?_, h2⟩
    simp only [List.foldl_cons, h1, List.flatten_cons]
    rw [flushedBytes_of_allFlushed _ hq, flushedBytes_of_allFlushed q h]
    simp [inRound, Q.received, Function.comp_def]

example : (([[1, 2], [], [3]] : List (List Nat)).foldl inRound ({} : Q Nat)).flushedBytes = [1, 2, 3] := by decide

end Netpoll.Props.C04
