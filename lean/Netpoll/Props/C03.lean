import Netpoll.Buf.OwnerLemmas18
/-!
C03 – pool blocks are returned at most once; caller-owned memory never.

Theorems over the ownership ledger model `Netpoll.Buf.Own` (every LinkBuffer method mirrored on blocks,
node structs, reference counts, caches and live views; tied to nocopy_linkbuffer.go by the allocator-event
and node-ledger correspondence of `./check C03`).  `run cfg {} ops` is the ledger after an arbitrary
history `ops` over any number of buffers, Slice readers and appended buffers (a panic ends the history).
-/
namespace Netpoll.Props.C03
open Netpoll.Buf Netpoll.Buf.Own

/-- **Every block is returned to the pool at most once** – for every history over any number of buffers, Slice
readers and appended buffers, including Close with Slice readers outstanding.  No hypothesis: the WriteDirect
split (D4) frees a block too early, but not twice (proved by counting ownership tokens: a block has at most one of
{reusable node struct, `caches` entry, `cachePeek`}, and `free` uses the token up). -/
theorem C03_free_once (cfg : Cfg) (ops : List Op) (k : Nat) (bl : Block)
    (h : (run cfg {} ops).mem.blocks[k]? = some bl) : bl.frees ≤ 1 :=
  (run_tok ops tok_init).frees_le k bl h

/-- the same on the event log: `free k` occurs at most once -/
example : ((run { linkBufferCap := 16 } {} [.new 1 30, .mal 1 40, .flush 1, .next 1 35, .peek 1 3, .rel 1, .close 1]).mem.blocks.map (·.frees)) = [1, 1] := by
  decide

/-- **Only pool blocks are returned to the pool, and never a block above `mallocMax`** – for every history:
each `free` event of the ledger concerns a block that `mcache.Malloc` handed out (never caller memory, never
a private copy, never GC memory).  No hypothesis (holds with the WriteDirect split, D4, too). -/
theorem C03_free_only_pool (cfg : Cfg) (ops : List Op) (b cap : Nat)
    (h : Ev.free b cap ∈ (run cfg {} ops).mem.log) :
    cap ≤ cfg.mallocMax ∧ ∃ bl : Block, (run cfg {} ops).mem.blocks[b]? = some bl ∧ bl.kind = .pool :=
  (run_typed (st := false) ops (typed_init cfg false) (fun h => by cases h)).core.log _ h

example : Ev.free 0 32 ∈ (run { linkBufferCap := 16 } {} [.new 1 30, .close 1]).mem.log := by decide

/-- **Caller memory is never returned to the pool and never written by netpoll** (the slices passed to
WriteBinary / WriteString / WriteDirect are `caller` blocks of the ledger).
`_partial`: holds for histories in which every `book` call is made on a buffer whose write node does not
sit on caller memory (`BookOK`; contract clause 9: `book`/`bookAck` are used on the connection's input
buffer only, never on a buffer written through the Writer API – a `book` after an in-place `WriteBinary`
with spare capacity would let the kernel write into the caller's slice). -/
theorem C03_caller_untouched_partial (cfg : Cfg) (ops : List Op) (hbook : AllSteps cfg BookOK {} ops)
    (b : Nat) (bl : Block) (hb : (run cfg {} ops).mem.blocks[b]? = some bl) (hk : bl.kind = .caller) :
    (∀ cap, Ev.free b cap ∉ (run cfg {} ops).mem.log) ∧ (∀ lo hi, Ev.write b lo hi ∉ (run cfg {} ops).mem.log) := by
  have ht := run_typed (st := true) ops (typed_init cfg true) (fun _ => hbook)
  refine ⟨fun cap hm => ?_, fun lo hi hm => ?_⟩
  · obtain ⟨_, bl', h1, h2⟩ := ht.core.log _ hm
    rw [hb] at h1; cases h1; rw [hk] at h2; cases h2
  · obtain ⟨bl', h1, h2⟩ := ht.core.log _ hm rfl
    rw [hb] at h1; cases h1; exact h2 hk

example : AllSteps { linkBufferCap := 16 } BookOK {} [.new 1 30, .wbin 1 5000 6000, .flush 1, .next 1 10, .close 1] :=
  AllSteps.of_forall _ _ (fun s op h => by
    simp only [List.mem_cons, List.not_mem_nil, or_false] at h
    rcases h with rfl | rfl | rfl | rfl | rfl <;> trivial)

/-- the private copies returned by ReadBinary / ReadString / Read are GC memory of the ledger: never freed
(they are written once, when the copy is made) -/
theorem C03_private_copy_never_freed (cfg : Cfg) (ops : List Op) (b : Nat) (bl : Block)
    (hb : (run cfg {} ops).mem.blocks[b]? = some bl) (hk : bl.kind = .gc) (cap : Nat) :
    Ev.free b cap ∉ (run cfg {} ops).mem.log := by
  intro hm
  obtain ⟨_, bl', h1, h2⟩ := C03_free_only_pool cfg ops b cap hm
  rw [hb] at h1; cases h1; rw [hk] at h2; cases h2

/-- **A block is returned to the pool only after every reader sharing it has released it** (the structs chained in a buffer –
the parent's own nodes and the child nodes of every Slice reader – are what still refers to a block): in every state
of a covered history no chained struct lies on a block that has been handed to `free`; this includes Close of a parent
while Slice readers are outstanding and the donor clean-up of Append.
`_partial`: `Cov` excludes (1) `WriteDirect` with `remain > 0` (the split: known finding D4, witness below),
(2) a `MallocAck` that would reset a reference count different from 1 (never inside the contract: the structs behind
the flush node hold pending data only), and asks for (3) fresh ids for new buffers / Slice readers, `Append` of another buffer. -/
theorem C03_free_after_release_partial (cfg : Cfg) (ops : List Op) (hc : AllSteps cfg Cov {} ops)
    (id i k : Nat) (b : Buf) (nd : NodeS) (bl : Block)
    (hb : (id, b) ∈ (run cfg {} ops).bufs) (hi : i ∈ b.chain) (hn : (run cfg {} ops).mem.nodes[i]? = some nd)
    (hk : nd.block = some k) (hbl : (run cfg {} ops).mem.blocks[k]? = some bl) : bl.frees = 0 :=
  (run_good ops hc).chained_unfreed hb hi hn hk hbl

/-- the same in terms of the executable oracle (what `npdriver own` prints as `freed-block-in-chain`) -/
theorem C03_free_after_release_oracle_partial (cfg : Cfg) (ops : List Op) (hc : AllSteps cfg Cov {} ops) (k : Nat) (bl : Block)
    (hbl : (run cfg {} ops).mem.blocks[k]? = some bl) (hf : bl.frees ≠ 0) : (run cfg {} ops).chainedOn k = [] :=
  (run_good ops hc).chainedOn_nil hbl hf

/-- **Every node struct goes back to `linkedPool` at most once** (under the same `Cov`). -/
theorem C03_node_recycled_once_partial (cfg : Cfg) (ops : List Op) (hc : AllSteps cfg Cov {} ops) (i : Nat) (nd : NodeS)
    (hn : (run cfg {} ops).mem.nodes[i]? = some nd) : nd.recycled ≤ 1 :=
  (run_good ops hc).recycled_once hn

/-- `Cov` holds along a history with a Slice reader kept across the parent's Close, an Append, a MallocAck, a non-splitting
WriteDirect – and blocks do get freed on it -/
def covOps : List Op :=
  [.new 0 16, .mal 0 40, .flush 0, .slice 0 30 1, .next 1 10, .close 0, .new 2 8, .mal 2 20, .ack 2 5, .wdir 2 9 9 0, .flush 2,
   .new 3 0, .wbin 3 5000 5000, .flush 3, .app 2 3, .flush 2, .read 2 100, .rel 2, .rel 1, .close 1, .close 2]

example : AllSteps { linkBufferCap := 16 } Cov {} covOps := allStepsB_sound (fun _ _ => covB_sound) _ _ (by decide)
example : ((run { linkBufferCap := 16 } {} covOps).mem.blocks.map (·.frees)) = [1, 1, 1, 1, 0, 0, 0] := by decide

/-- the concrete history of known finding D4 (corpus/C03/d04-writedirect-split-slice.ops, `seq 315 16`) -/
def d4cfg : Cfg := { linkBufferCap := 16 }
def d4ops : List Op := [.new 1 30, .mal 1 33, .wdir 1 33 33 13, .flush 1, .slice 1 17 4, .close 1]

/-- **D4 witness** (negation of the unrestricted `C03_free_after_release`): after the history `d4ops` a block
has been returned to the pool (`close 1` frees block 1 through the managed tail node of the WriteDirect split)
while a node of the still open Slice reader 4 refers to it. -/
theorem C03_D4_witness : ¬ ∀ ops : List Op, (run d4cfg {} ops).noDangling = true := by
  intro h
  exact absurd (h d4ops) (by decide)

end Netpoll.Props.C03
