import Netpoll.ServerLemmas
import Netpoll.ServerProgress
import Netpoll.ServerRetry
import Netpoll.Gen.Server
/-!
C13 – the server tracks every accepted connection and shuts down gracefully.

Theorems about `Netpoll.Server` (the interleaving model of netpoll_server.go / netpoll_unix.go).  The positive
theorems hold in every reachable state of `Cfg.fixed` – the code with fixes/c13-track.patch, which
`Tie/Server.lean` ties to /repo's statement lists – for any number of connections, any interleaving, any
accept script.  The `…_old_witness` theorems replay the behaviour of the code before the patch (`Cfg.old`) and
the two known findings on concrete traces.  `_partial` says what the theorem leaves out.
-/
namespace Netpoll.Props.C13
open Netpoll.Server

/-! ### traces used by the examples and witnesses -/

/-- Serve, one connection (descriptor 7) accepted and completely through onAccept (fixed order) -/
def accept7 : List Act :=
  [.serveRun true, .pAccept (.conn 7), .aInit 0 false, .aAddCb 0, .aCheck 0, .aStore 0, .aOnConnect 0]
/-- the same in the order of the code before the fix -/
def accept7old : List Act :=
  [.serveRun true, .pAccept (.conn 7), .aInit 0 false, .aCheck 0, .aAddCb 0, .aStore 0, .aOnConnect 0]
/-- Shutdown up to the start of the first Range -/
def shutdownStart : List Act := [.shCall, .shQuit, .shDetach, .shLnClose, .shRound]

def after (cfg : Cfg) (as : List Act) : S := (run cfg init as).getD init

theorem reach (cfg : Cfg) (as : List Act) (h : (run cfg init as).isSome = true) : Reachable cfg (after cfg as) := by
  refine ⟨as, ?_⟩
  unfold after
  cases hr : run cfg init as with
  | some s => rfl
  | none => rw [hr] at h; cases h

/-! ### tracking -/

/-- From the Store on and until its untrack callback runs, an accepted connection is in the map under its
    descriptor number. -/
theorem C13_tracked {s : S} (hr : Reachable Cfg.fixed s) {i : Nat} {c : Conn} (hc : s.conns[i]? = some c)
    (hstored : c.apc = .stored ∨ c.apc = .done) (halive : c.unt = false) : s.map c.fd = some i :=
  (good_reachable hr).trk i c hc ⟨hstored, halive⟩

example : ∃ s, Reachable Cfg.fixed s ∧ ∃ c, s.conns[0]? = some c ∧ c.apc = .done ∧ c.unt = false ∧ s.map 7 = some 0 :=
  ⟨after Cfg.fixed accept7, reach _ _ (by decide), by decide⟩

/-- A torn-down connection does not stay in the map: whatever the map holds is an accepted connection stored
    under its own descriptor number whose untrack callback has not run and whose descriptor is open.
    (Needs the D12 fix: see `C13_no_stale_old_witness`.) -/
theorem C13_no_stale {s : S} (hr : Reachable Cfg.fixed s) {f i : Nat} (hm : s.map f = some i) :
    ∃ c, s.conns[i]? = some c ∧ c.fd = f ∧ c.unt = false ∧ c.fdOpen = true ∧ (c.td = .none ∨ c.td = .loaded true) := by
  have hg := good_reachable hr
  obtain ⟨c, hc, hfd, hl⟩ := hg.mapC f i hm
  have := (hg.loc i c hc).live_open hl
  exact ⟨c, hc, hfd, hl.2, this.1, this.2⟩

example : ∃ s, Reachable Cfg.fixed s ∧ s.map 7 = some 0 := ⟨after Cfg.fixed accept7, reach _ _ (by decide), by decide⟩

/-- the window named in the property, on the code before the fix: the peer closes (another poller runs the
    whole teardown) between the IsActive check and the registration of the untrack callback -/
def d12Trace : List Act :=
  [.serveRun true, .pAccept (.conn 7), .aInit 0 false, .aCheck 0,
   .cClose 0, .tStart 0, .tUntrack 0, .tFdClose 0,
   .aAddCb 0, .aStore 0, .aOnConnect 0]
/-- second window: untrack runs between its registration and the Store -/
def d12Trace2 : List Act :=
  [.serveRun true, .pAccept (.conn 7), .aInit 0 false, .aCheck 0, .aAddCb 0,
   .cClose 0, .tStart 0, .tUntrack 0, .tFdClose 0,
   .aStore 0, .aOnConnect 0]

def staleAt (s : S) (f i : Nat) : Bool :=
  s.map f == some i && (match s.conns[i]? with | some c => !c.fdOpen && c.td == .closed | none => false)

/-- D12 on the old code: a closed, completely torn-down connection is in the map … -/
theorem C13_no_stale_old_witness :
    ¬ (∀ s, Reachable Cfg.old s → ∀ f i, s.map f = some i → ∃ c, s.conns[i]? = some c ∧ c.fdOpen = true) := by
  intro h
  obtain ⟨c, hc, ho⟩ := h (after Cfg.old d12Trace) (reach _ _ (by decide)) 7 0 (by decide)
  have : (after Cfg.old d12Trace).conns[0]? = some c → c.fdOpen = false := by
    intro hc'
    have e : (after Cfg.old d12Trace).conns[0]? = some { fd := 7, apc := .done, reg := true, closing := true, cbReg := true, td := .closed, fdOpen := false } := by decide
    rw [e] at hc'; cases hc'; rfl
  rw [this hc] at ho; cases ho

theorem C13_d12_both_windows : staleAt (after Cfg.old d12Trace) 7 0 = true ∧ staleAt (after Cfg.old d12Trace2) 7 0 = true := by
  decide

/-- … and Shutdown then counts it as active in every round: with the stale entry the first round ends in the
    wait state, and a deadline turns it into the context error (never nil). -/
theorem C13_d12_blocks_shutdown :
    (after Cfg.old (d12Trace ++ shutdownStart ++ [.shObserve, .shEnd])).sh = .waiting ∧
    (after Cfg.old (d12Trace ++ shutdownStart ++ [.shObserve, .shEnd, .shTick, .shRound, .shObserve, .shEnd, .ctxExpire, .shCtx])).sh = .retCtx := by
  decide

/-- the same two schedules on the fixed code leave nothing behind -/
theorem C13_d12_fixed :
    (after Cfg.fixed [.serveRun true, .pAccept (.conn 7), .aInit 0 false, .cClose 0, .tStart 0, .tUntrack 0, .tFdClose 0,
        .aAddCb 0, .aCheck 0]).map 7 = none ∧
    (after Cfg.fixed [.serveRun true, .pAccept (.conn 7), .aInit 0 false, .aAddCb 0, .aCheck 0,
        .cClose 0, .tStart 0, .tUntrack 0, .tFdClose 0, .aStore 0, .aOnConnect 0]).map 7 = none := by
  decide

/-! ### untrack precedes descriptor reuse -/

/-- The untrack callback (`map.Delete(fd)`) of connection `i` removes `i`'s own entry and nobody else's: it runs
    while `i`'s descriptor is still open (callbacks are LIFO, the finalizer was registered first), so no other
    connection can be stored under that number. -/
theorem C13_untrack_before_fd_reuse {s s' : S} (hr : Reachable Cfg.fixed s) {i : Nat}
    (hs : step Cfg.fixed s (.tUntrack i) = some s') :
    (∃ c, s.conns[i]? = some c ∧ c.fdOpen = true) ∧ s'.tracked i = false ∧
    ∀ j, j ≠ i → s.tracked j = true → s'.tracked j = true := by
  have hg := good_reachable hr
  have hg' := good_step hg hs
  simp only [step, Act.conn?] at hs
  split at hs
  · rename_i c hc
    have hcok := hg.loc i c hc
    simp only [stepConn] at hs
    split at hs
    · rename_i htd
      cases hs
      have hopen : c.fdOpen = true := by
        cases ho : c.fdOpen with
        | true => rfl
        | false => have := hcok.fdc.mpr ho; rw [htd] at this; cases this
      refine ⟨⟨c, hc, hopen⟩, ?_, ?_⟩
      · cases ht : S.tracked _ i with
        | false => rfl
        | true =>
          obtain ⟨f, hf⟩ := (tracked_iff hg' i).mp ht
          obtain ⟨d, hd, _, hl⟩ := hg'.mapC f i hf
          simp only [S.setConn, get_set hc, if_true] at hd
          cases hd; simp [Conn.live] at hl
      · intro j hji ht
        obtain ⟨f, hf⟩ := (tracked_iff hg j).mp ht
        obtain ⟨d, hd, hdf, hdl⟩ := hg.mapC f j hf
        have hdo := ((hg.loc j d hd).live_open hdl).1
        have hne : f ≠ c.fd := by
          intro e; exact hji (hg.uniq j i d c hd hc hdo hopen (by rw [hdf, e]))
        exact (tracked_iff hg' j).mpr ⟨f, by simp [mapDel, hne, hf]⟩
    · rename_i htd
      cases hs
      have hopen : c.fdOpen = true := by
        cases ho : c.fdOpen with
        | true => rfl
        | false => have := hcok.fdc.mpr ho; rw [htd] at this; cases this
      refine ⟨⟨c, hc, hopen⟩, ?_, ?_⟩
      · cases ht : S.tracked _ i with
        | false => rfl
        | true =>
          obtain ⟨f, hf⟩ := (tracked_iff hg' i).mp ht
          obtain ⟨d, hd, _, hl⟩ := hg.mapC f i hf
          rw [hc] at hd; cases hd
          have := ((hcok).live_open hl).2
          rw [htd] at this; simp at this
      · intro j _ ht
        obtain ⟨f, hf⟩ := (tracked_iff hg j).mp ht
        exact (tracked_iff hg' j).mpr ⟨f, hf⟩
    · cases hs
  · cases hs

/-- A descriptor number handed out by accept is not a key of the map (its previous owner was untracked before
    it closed the descriptor), and the Store of a new connection never replaces a live entry. -/
theorem C13_fd_reuse_safe {s : S} (hr : Reachable Cfg.fixed s) :
    (∀ fd s', step Cfg.fixed s (.pAccept (.conn fd)) = some s' → s.map fd = none) ∧
    (∀ i s', step Cfg.fixed s (.aStore i) = some s' → ∀ j, j ≠ i → s.tracked j = true → s'.tracked j = true) := by
  have hg := good_reachable hr
  constructor
  · intro fd s' hs
    simp only [step, stepAccept] at hs
    split at hs
    · split at hs
      · rename_i hgd
        simp only [Bool.and_eq_true] at hgd
        cases hq : s.map fd with
        | none => rfl
        | some j =>
          obtain ⟨c, hc, hfd, hl⟩ := hg.mapC fd j hq
          have hopen := ((hg.loc j c hc).live_open hl).1
          have := (List.all_eq_true.mp hgd.2) c (List.mem_iff_getElem?.mpr ⟨j, hc⟩)
          simp [hopen, hfd] at this
      · cases hs
    · cases hs
  · intro i s' hs j hji ht
    have hg' := good_step hg hs
    obtain ⟨f, hf⟩ := (tracked_iff hg j).mp ht
    obtain ⟨d, hd, hdf, hdl⟩ := hg.mapC f j hf
    have hd' : s'.conns[j]? = some d := by
      simp only [step, Act.conn?] at hs
      split at hs
      · rename_i c hc
        simp only [stepConn] at hs
        split at hs
        · split at hs <;> cases hs <;> simp [S.setConn, get_set hc, hji, hd]
        · cases hs
      · cases hs
    exact (tracked_iff hg' j).mpr ⟨d.fd, hg'.trk j d hd' hdl⟩

example : ∃ s, Reachable Cfg.fixed s ∧ (step Cfg.fixed s (.tUntrack 0)).isSome = true ∧ s.tracked 0 = true ∧
    (after Cfg.fixed (accept7 ++ [.cClose 0, .tStart 0, .tUntrack 0])).tracked 0 = false :=
  ⟨after Cfg.fixed (accept7 ++ [.cClose 0, .tStart 0]), reach _ _ (by decide), by decide, by decide, by decide⟩

/-! ### Shutdown -/

/-- Shutdown (the call that took the server) returns nil only when: the map is empty; no accept is in flight;
    every accepted connection is closed (`IsActive() = false`), and every connection that completed onAccept has
    passed its untrack callback – its descriptor is closed or is being closed by the finalizer that follows
    untrack in the same teardown; the listener's descriptors are closed; Serve has been released (the quit
    channel holds a value or Serve has returned).
    partial in one respect, see `C13_never_tracked_busy_witness`: a connection that was closed by its peer before
    the IsActive check of onAccept is never tracked; if its handler is still running its descriptor is open. -/
theorem C13_shutdown_nil {s : S} (hr : Reachable Cfg.fixed s) (hnil : s.sh = .retNil) :
    (∀ f, s.map f = none) ∧
    (∀ (i : Nat) (c : Conn), s.conns[i]? = some c →
        c.inflight = false ∧ c.closing = true ∧ (c.apc = .done → c.td = .fin ∨ c.td = .closed)) ∧
    s.lnOpen = false ∧
    (s.stop.isSome = true ∨ ∃ e, s.sv = .returned e) := by
  have hg := good_reachable hr
  obtain ⟨hmap, hinf⟩ := hg.nil hnil
  refine ⟨hmap, ?_, hg.lnc (by rw [hnil]; rfl), hg.rel (by rw [hnil]; rfl)⟩
  intro i c hc
  have hok := hg.loc i c hc
  have hi := hinf i c hc
  have hdone : c.apc = .done → c.unt = true := by
    intro hd
    cases hu : c.unt with
    | true => rfl
    | false =>
      have := hg.trk i c hc ⟨Or.inr hd, hu⟩
      rw [hmap] at this; cases this
  refine ⟨hi, ?_, fun hd => hok.untd (hdone hd)⟩
  have hapc : c.apc = .done ∨ c.apc = .ret := by
    simp only [Conn.inflight, Bool.and_eq_false_iff, bne_eq_false_iff_eq] at hi
    exact hi
  rcases hapc with hd | hret
  · have := hok.untd (hdone hd)
    exact (hok.tdc (by rcases this with h | h <;> rw [h] <;> simp)).1
  · exact hok.retc hret

/-- an idle connection closed by Shutdown, then nil -/
def gracefulTrace : List Act :=
  accept7 ++ shutdownStart ++ [.shObserve, .shClose, .tUntrack 0, .tFdClose 0, .shTornDown, .shRecheck, .shEnd]

example : ∃ s, Reachable Cfg.fixed s ∧ s.sh = .retNil ∧ s.conns.length = 1 :=
  ⟨after Cfg.fixed gracefulTrace, reach _ _ (by decide), by decide, by decide⟩

/-- before the fix (in-flight accepts not counted): Shutdown returns nil while an accepted connection is
    between accept and the Store; it is stored afterwards and lives on, tracked, after Serve was released -/
theorem C13_shutdown_nil_inflight_old_witness :
    let s := after Cfg.old ([.serveRun true, .pAccept (.conn 7), .aInit 0 false] ++ shutdownStart ++ [.shEnd] ++
                            [.aCheck 0, .aAddCb 0, .aStore 0, .aOnConnect 0])
    s.sh = .retNil ∧ s.map 7 = some 0 ∧ (s.conns[0]?.map (·.closing)) = some false := by
  decide

/-- before the fix (no re-check after the close attempt): the connection becomes busy between `isIdle()` and
    `Close()`; Shutdown returns nil while it is tracked and its handler runs -/
theorem C13_shutdown_nil_busy_window_old_witness :
    let s := after Cfg.old (accept7old ++ shutdownStart ++ [.shObserve, .cBusy 0, .shClose, .shRecheck, .shEnd])
    s.sh = .retNil ∧ s.map 7 = some 0 ∧ (s.conns[0]?.map (·.busy)) = some true := by
  decide

/-- known finding (not fixed): a later Shutdown call finds `evl.svr == nil` and returns nil at once, here
    after the first call ended with the context error and one busy connection is still tracked -/
theorem C13_second_shutdown_witness :
    let s := after Cfg.fixed (accept7 ++ [.cBusy 0] ++ shutdownStart ++ [.shObserve, .shEnd, .ctxExpire, .shCtx, .shAgain])
    s.sh = .retCtx ∧ s.again = 1 ∧ s.map 7 = some 0 := by
  decide

/-- known finding (not fixed): data and FIN arrive inside the accept window, the handler runs; the connection
    is closed before the IsActive check, so it is never tracked; Shutdown returns nil while its descriptor is
    open and its handler still runs -/
theorem C13_never_tracked_busy_witness :
    let s := after Cfg.fixed ([.serveRun true, .pAccept (.conn 7), .aInit 0 false, .cBusy 0, .cClose 0, .aAddCb 0, .aCheck 0] ++
                              shutdownStart ++ [.shEnd])
    s.sh = .retNil ∧ (s.conns[0]?.map fun c => (c.busy, c.fdOpen, c.apc)) = some (true, true, .ret) := by
  decide

/-- Shutdown returns the context's error only after the deadline passed (`ctxDone`), and only in a round that
    counted at least one connection (busy, in flight, or still tracked after its close attempt). -/
theorem C13_shutdown_ctx {s : S} (hr : Reachable Cfg.fixed s) (hctx : s.sh = .retCtx) :
    s.ctxDone = true ∧ s.active > 0 :=
  ⟨(good_reachable hr).ctx hctx, (good_reachable hr).wait (Or.inr hctx)⟩

/-- … and once the deadline has passed a waiting Shutdown can always return it (it is never stuck). -/
theorem C13_shutdown_ctx_enabled (cfg : Cfg) {s : S} (hw : s.sh = .waiting) (hd : s.ctxDone = true) :
    step cfg s .shCtx = some { s with sh := .retCtx } := by
  simp [step, Act.conn?, stepSh, hw, hd]

example : ∃ s, Reachable Cfg.fixed s ∧ s.sh = .retCtx ∧ s.active = 1 :=
  ⟨after Cfg.fixed (accept7 ++ [.cBusy 0] ++ shutdownStart ++ [.shObserve, .shEnd, .ctxExpire, .shCtx]),
   reach _ _ (by decide), by decide, by decide⟩

/-- Shutdown calls `Close()` only on a connection that `isIdle()` reported idle in the same visit; a connection
    that is busy when visited is counted and left alone.  (The idle check and the Close are two steps: a
    handler that starts in between finds its connection closed – it is then still counted, see
    `C13_shutdown_nil_busy_window_old_witness` for the code before the fix.) -/
theorem C13_busy_untouched {s : S} (hr : Reachable Cfg.fixed s) {i : Nat} {c : Conn} (hc : s.conns[i]? = some c)
    (hcl : c.shutClosed = true) : c.sawIdle = true :=
  ((good_reachable hr).loc i c hc).ghost hcl

/-- a busy connection at its visit: counted, not closed -/
theorem C13_busy_counted {s : S} {i : Nat} {rest : List Nat} {c : Conn} (cfg : Cfg) (hsh : s.sh = .ranging)
    (ht : s.todo = i :: rest) (hc : s.conns[i]? = some c) (hb : c.busy = true) :
    step cfg s .shObserve = some { s with todo := rest, active := s.active + 1 } := by
  simp [step, Act.conn?, stepSh, hsh, ht, hc, Conn.isIdle, hb]

example : ∃ s, Reachable Cfg.fixed s ∧ (s.conns[0]?.map fun c => (c.shutClosed, c.sawIdle)) = some (true, true) :=
  ⟨after Cfg.fixed gracefulTrace, reach _ _ (by decide), by decide⟩

/-! ### nothing gets stuck -/

/-- Quiescence of the teardown: a registered connection that is closed and whose handler is not running always
    has an enabled teardown step until its descriptor is closed; and once it is closed it is not in the map. -/
theorem C13_teardown_quiescence {s : S} (hr : Reachable Cfg.fixed s) {i : Nat} {c : Conn} (hc : s.conns[i]? = some c)
    (hreg : c.reg = true) (hcl : c.closing = true) (hb : c.busy = false) :
    (c.td ≠ .closed → (step Cfg.fixed s (.tStart i)).isSome = true ∨ (step Cfg.fixed s (.tUntrack i)).isSome = true ∨
                      (step Cfg.fixed s (.tFdClose i)).isSome = true) ∧
    (c.td = .closed → s.tracked i = false) := by
  refine ⟨fun h => teardown_enabled Cfg.fixed hc hreg hcl hb h, ?_⟩
  intro htd
  have hg := good_reachable hr
  cases ht : s.tracked i with
  | false => rfl
  | true =>
    obtain ⟨f, hf⟩ := (tracked_iff hg i).mp ht
    obtain ⟨d, hd, _, hl⟩ := hg.mapC f i hf
    rw [hc] at hd; cases hd
    have := ((hg.loc i c hc).live_open hl).2
    rw [htd] at this; simp at this

/-- A Shutdown call in progress is never blocked: one of its own steps is enabled (in the wait state: the timer
    step), or – while it tears an idle connection down inside `Close()` – the next step of that teardown. -/
theorem C13_shutdown_progress {s : S} (hr : Reachable Cfg.fixed s) (hgo : s.sh ≠ .idle ∧ s.sh ≠ .retNil ∧ s.sh ≠ .retCtx) :
    (∃ a, a ∈ [Act.shQuit, .shDetach, .shLnClose, .shRound, .shObserve, .shClose, .shTornDown, .shRecheck, .shEnd, .shTick] ∧
        (step Cfg.fixed s a).isSome = true) ∨
    (∃ i, s.sh = .tearing i ∧ ((step Cfg.fixed s (.tUntrack i)).isSome = true ∨ (step Cfg.fixed s (.tFdClose i)).isSome = true)) := by
  have hg := good_reachable hr
  refine shutdown_progress hr hgo ?_ ?_
  · intro i hi; obtain ⟨c, hc, _⟩ := hg.idle i hi; simp [hc]
  · intro i hi; obtain ⟨c, hc, _⟩ := hg.todoOk i hi; simp [hc]

example : ∃ s, Reachable Cfg.fixed s ∧ s.sh = .tearing 0 :=
  ⟨after Cfg.fixed (accept7 ++ shutdownStart ++ [.shObserve, .shClose]), reach _ _ (by decide), by decide⟩

/-! ### descriptor exhaustion -/

/-- While the server runs and has not been shut down (and the listener did not fail), accepting never stops
    silently: the listener is registered, or an EMFILE back-off goroutine is retrying.  Such a goroutine accepts
    by itself as soon as accept succeeds again, and re-registers the listener at the first EAGAIN. -/
theorem C13_accept_resumes {s : S} (hr : Reachable Cfg.fixed s) (hran : s.ran = true) (hq : s.errQuit = false)
    (hsh : s.sh.pastDetach = false) :
    (s.reg = true ∨ s.bk > 0) ∧ s.lnOpen = true ∧
    (s.bk > 0 → (∃ s', step Cfg.fixed s (.bAccept .eagain) = some s' ∧ s'.reg = true ∧ s'.bk = s.bk - 1) ∧
                ∀ fd, s.fdFree fd = true → (step Cfg.fixed s (.bAccept (.conn fd))).isSome = true) := by
  have hg := good_reachable hr
  have hpc : s.sh.pastClose = false := by
    cases hs : s.sh <;> simp_all [Sh.pastDetach, Sh.pastClose]
  have hln := hg.lno hpc
  refine ⟨?_, hln, ?_⟩
  · rcases hg.resume hran with h | h | h | h
    · exact Or.inl h
    · exact Or.inr h
    · rw [hq] at h; cases h
    · rw [hsh] at h; cases h
  · intro hbk
    constructor
    · exact ⟨{ s with reg := true, bk := s.bk - 1 }, by simp [step, stepAccept, hbk, hln], rfl, rfl⟩
    · intro fd hf
      simp [step, stepAccept, hbk, hln, hf]

/-- an EMFILE stretch: first failure detaches the listener and starts the back-off goroutine … -/
example : ∃ s, Reachable Cfg.fixed s ∧ s.reg = false ∧ s.bk = 1 ∧ s.detached = 1 :=
  ⟨after Cfg.fixed [.serveRun true, .pAccept .emfile, .bAccept .emfile, .bAccept .emfile],
   reach _ _ (by decide), by decide, by decide, by decide⟩
/-- … which accepts on its own and re-registers at EAGAIN -/
example : ∃ s, Reachable Cfg.fixed s ∧ s.reg = true ∧ s.bk = 0 ∧ s.conns.length = 1 :=
  ⟨after Cfg.fixed [.serveRun true, .pAccept .emfile, .bAccept .emfile, .bAccept (.conn 9), .bAccept .eagain],
   reach _ _ (by decide), by decide, by decide, by decide⟩

def episode1 : List Act := [.serveRun true, .pAccept .emfile, .bAccept .eagain]

/-- repeated episodes: `operator.detached` is never reset, so from the second episode on `Control(PollDetach)` is
    a no-op – the listener stays registered (level-triggered: OnRead is called again at once) and every call
    starts one more back-off goroutine.  Accepting still resumes (`C13_accept_resumes` does not depend on the
    episode), at the price of a busy loop: any number of goroutines with the listener armed. -/
theorem C13_second_episode_busy_loop (n : Nat) :
    ∃ s, Reachable Cfg.fixed s ∧ s.ran = true ∧ s.lnOpen = true ∧ s.reg = true ∧ s.detached = 1 + n ∧ s.bk = n := by
  induction n with
  | zero => exact ⟨after Cfg.fixed episode1, reach _ _ (by decide), by decide, by decide, by decide, by decide, by decide⟩
  | succ n ih =>
    obtain ⟨s, hr, hran, hln, hreg, hdet, hbk⟩ := ih
    have hd : s.detached ≥ 1 := by omega
    refine ⟨{ s with detached := s.detached + 1, bk := s.bk + 1, spawned := s.spawned + 1 }, ?_, hran, hln, hreg, ?_, ?_⟩
    · refine reachable_step hr (a := .pAccept .emfile) ?_
      simp [step, stepAccept, hran, hln, S.detachLn, hd]
    · simp only []; omega
    · simp only []; omega

/-! ### the back-off goroutine's own loop (delay table and index) -/

/-- Descriptor exhaustion of ANY length: whatever accept returns and for however long (every script of results,
    `k` consecutive EMFILE for every `k` included), the back-off goroutine never indexes outside its delay table –
    it does not panic – and it is still retrying or has re-registered the listener.  This is what lets
    `Netpoll.Server` treat a failed retry as a step that changes nothing (`stepAccept … true .emfile = some s`). -/
theorem C13_retry_index_in_table (rs : List AccRes) :
    Retry.run .succLt Netpoll.Gen.Server.server_OnRead_retryTable 0 rs = .ended ∨
    ∃ i, Retry.run .succLt Netpoll.Gen.Server.server_OnRead_retryTable 0 rs = .running i ∧
         i < Netpoll.Gen.Server.server_OnRead_retryTable.length :=
  Retry.run_no_panic rs (by decide)

example : Retry.run .succLt Netpoll.Gen.Server.server_OnRead_retryTable 0 (List.replicate 9 .emfile) = .running 6 := by decide

/-- … and after a stretch of `k` failures, for every `k`, the first successful accept is taken by the goroutine
    (index back to the start of the table) and the first EAGAIN re-registers the listener and ends it. -/
theorem C13_retry_resumes_after_any_stretch (k fd : Nat) :
    Retry.run .succLt Netpoll.Gen.Server.server_OnRead_retryTable 0 (List.replicate k .emfile ++ [.conn fd]) = .running 0 ∧
    Retry.run .succLt Netpoll.Gen.Server.server_OnRead_retryTable 0 (List.replicate k .emfile ++ [.conn fd, .eagain]) = .ended ∧
    Retry.run .succLt Netpoll.Gen.Server.server_OnRead_retryTable 0 (List.replicate k .emfile ++ [.eagain]) = .ended :=
  Retry.stretch_then_resumes (by decide) k fd

example : Retry.run .succLt Netpoll.Gen.Server.server_OnRead_retryTable 0
    (List.replicate 12 .emfile ++ [.conn 9, .eagain]) = .ended := by decide

/-! ### fault SEQUENCES: out-of-descriptor errors followed by / mixed with any other accept error -/

/-- The back-off goroutine has one way out: for EVERY script of accept results (connections, EAGAIN, EMFILE/ENFILE,
    any other error such as ECONNABORTED / EINTR / EPROTO, in any order and number) it has returned iff accept
    answered `(nil, nil)` – the branch that registers the listener again first.  No error makes it give up.
    (`Tie.Server.retry_exits`: this one return is the only way out of the goroutine of /repo.) -/
theorem C13_retry_returns_only_after_reregistering (rs : List AccRes) :
    Retry.run .succLt Netpoll.Gen.Server.server_OnRead_retryTable 0 rs = .ended ↔ AccRes.eagain ∈ rs :=
  Retry.run_ended_iff rs (by decide)

example : Retry.run .succLt Netpoll.Gen.Server.server_OnRead_retryTable 0
    [.emfile, .err false, .emfile, .err false, .err false] = .running 5 := by decide

/-- "Accepting resumes once descriptors are available again", whatever errors preceded: after ANY script in which
    the goroutine did not see EAGAIN yet, the next successful accept is taken by the goroutine (index back to the
    start of the table) and the next EAGAIN registers the listener again. -/
theorem C13_retry_resumes_after_any_script (rs : List AccRes) (hno : AccRes.eagain ∉ rs) (fd : Nat) :
    Retry.run .succLt Netpoll.Gen.Server.server_OnRead_retryTable 0 (rs ++ [.conn fd]) = .running 0 ∧
    Retry.run .succLt Netpoll.Gen.Server.server_OnRead_retryTable 0 (rs ++ [.conn fd, .eagain]) = .ended ∧
    Retry.run .succLt Netpoll.Gen.Server.server_OnRead_retryTable 0 (rs ++ [.eagain]) = .ended :=
  Retry.resumes_after_any_script (by decide) rs hno fd

example : Retry.run .succLt Netpoll.Gen.Server.server_OnRead_retryTable 0
    ([.emfile, .emfile, .err false, .conn 7, .err false, .emfile] ++ [.conn 9, .eagain]) = .ended := by decide

/-- One exhaustion episode from the poller's point of view (`Retry.episode`: `OnRead` consults `isOutOfFdErr` for
    its own accept – out-of-descriptor error ⇒ detach + goroutine, any other error ⇒ return with the listener still
    armed – and the goroutine treats every error alike): for EVERY script of accept results without a
    "closed"-error, at every point somebody is accepting – the poller with the listener registered, or a goroutine
    with its index inside the table – and while the goroutine is retrying, the next success is accepted by it and
    the next EAGAIN registers the listener again. -/
theorem C13_episode_never_stops_accepting (rs : List AccRes) (hnc : AccRes.err true ∉ rs) :
    (Retry.episode .succLt Netpoll.Gen.Server.server_OnRead_retryTable .polling rs).accepting
        Netpoll.Gen.Server.server_OnRead_retryTable.length ∧
    ∀ i, Retry.episode .succLt Netpoll.Gen.Server.server_OnRead_retryTable .polling rs = .retrying i → ∀ fd,
      Retry.episode .succLt Netpoll.Gen.Server.server_OnRead_retryTable .polling (rs ++ [.conn fd]) = .retrying 0 ∧
      Retry.episode .succLt Netpoll.Gen.Server.server_OnRead_retryTable .polling (rs ++ [.eagain]) = .resumed ∧
      Retry.episode .succLt Netpoll.Gen.Server.server_OnRead_retryTable .polling (rs ++ [.conn fd, .eagain]) = .resumed :=
  ⟨Retry.episode_accepting (by decide) rs hnc trivial, fun _ h fd => Retry.episode_resumes (by decide) rs hnc h fd⟩

example : Retry.episode .succLt Netpoll.Gen.Server.server_OnRead_retryTable .polling
    [.err false, .emfile, .emfile, .err false] = .retrying 2 := by decide
example : Retry.episode .succLt Netpoll.Gen.Server.server_OnRead_retryTable .polling
    [.err false, .emfile, .emfile, .err false, .conn 5, .eagain] = .resumed := by decide

/-- every delay the goroutine sleeps is an entry of the table (at most one second: the goroutine notices the end
    of the exhaustion within the largest entry) -/
theorem C13_retry_delay_bounded (rs : List AccRes) :
    ∀ d ∈ Retry.delays .succLt Netpoll.Gen.Server.server_OnRead_retryTable 0 rs, d ≤ 1000 := by
  intro d hd
  rcases Retry.delays_mem rs (by decide) d hd with h | h
  · omega
  · have hall : ∀ x ∈ Netpoll.Gen.Server.server_OnRead_retryTable, x ≤ 1000 := by decide
    exact hall d h

example : Retry.delays .succLt Netpoll.Gen.Server.server_OnRead_retryTable 0 (List.replicate 9 .emfile) =
    [0, 10, 50, 100, 200, 500, 1000, 1000, 1000] := by decide

/-- why the guard must be `index+1 < len`: with `index < len` the index leaves the table on the failure that
    follows the last entry (the 7th failed retry = 8th failed accept), and the goroutine panics with the listener
    detached -/
theorem C13_retry_loose_guard_panics_witness :
    Retry.run .lt Netpoll.Gen.Server.server_OnRead_retryTable 0 (List.replicate 6 .emfile) = .running 6 ∧
    Retry.run .lt Netpoll.Gen.Server.server_OnRead_retryTable 0 (List.replicate 7 .emfile) = .panic := by decide

end Netpoll.Props.C13
