import Netpoll.Poll.OpCacheInv
/-
C10 – connections are isolated from each other across slot and descriptor reuse.
Theorems over `Netpoll.Poll.OpCache` (one slot, any number of successive owners, any interleaving of
the poller's batch processing with alloc / register / close / stale calls), for all action sequences.
-/
namespace Netpoll.Props.C10
open Netpoll.Poll.OpCache

/-- **C10_no_cross_dispatch / C10_single_owner.** For every sequence of actions (any number of owners,
any placement of close / reopen between the fetch and the dispatch of a batch, any stale Release calls
once guarded): no event is ever dispatched to callbacks of an owner it was not fetched for, no stale call
takes a later owner's token, and the slot is never handed out while a fetched event for it is undispatched.
`bad` also records a hang-up delivered to another owner's `onHup` (`Act.queueHup` / `Act.runHup`, see `C10_queued_hup_isolated`). -/
theorem C10_isolation (acts : List Act) (s : S) (hall : acts.all guardedAct = true) (hr : run init acts = some s) :
    s.bad = false ∧ s.staleHolds = false ∧ (s.pending ≠ none → s.loc ≠ .first) := by
  have hg := good_run acts init s good_init hall hr
  exact ⟨hg.1, hg.2.1, hg.2.2.2.1⟩

/-- **C10_single_owner**: the slot is on the free chain (can be handed to a new connection) only when no
callbacks are installed, it is not registered, and nobody holds its token. -/
theorem C10_single_owner (acts : List Act) (s : S) (hall : acts.all guardedAct = true) (hr : run init acts = some s)
    (hf : s.loc = .first) : s.st = 0 ∧ s.cbGen = none ∧ s.registered = false ∧ s.pollerHolds = false ∧ s.pending = none := by
  have hg := good_run acts init s good_init hall hr
  obtain ⟨_, _, _, hp, _, hfirst, _⟩ := hg
  obtain ⟨a, b, c, _, e⟩ := hfirst hf
  refine ⟨a, b, c, e, ?_⟩
  by_cases h : s.pending = none
  · exact h
  · exact absurd hf (hp h)

/-- **C10_fd_live_during_dispatch** (descriptor reuse): whenever the poller holds the slot's token (it is running the
callbacks and the `readv`/`sendmsg` on `operator.FD`), and whenever the slot is in use at all, the descriptor it works on is
the current owner's and is still open – the number cannot have been handed to another connection by the kernel.  The close
finalizer closes the descriptor only after `operator.Free()` has returned. -/
theorem C10_fd_live_during_dispatch (acts : List Act) (s : S) (hall : acts.all guardedAct = true) (hr : run init acts = some s) :
    (s.pollerHolds = true → s.fdOpen = true ∧ s.cbGen = some s.gen) ∧ (s.st ≥ 1 → s.fdOpen = true) := by
  have hg := good_run acts init s good_init hall hr
  simp only [Good] at hg
  grind

/-- **C10_token_returned** (no connection is stalled by a token nobody holds): the slot's token is taken (`state = 2`)
only while somebody is inside the section it protects – the poller running the callbacks of a dispatch, or the owner's own
`Release()` between `do()` and `done()`.  At quiescence (no dispatch and no call in progress) the state is never 2, so the
poller's `do()` on the next event of a live connection succeeds.  Holds for every interleaving of the owner's Release calls with
fetch / dispatch / close / reuse. -/
theorem C10_token_returned (acts : List Act) (s : S) (hall : acts.all guardedAct = true) (hr : run init acts = some s) :
    (s.st = 2 → s.pollerHolds = true ∨ s.ownerHolds = true) ∧
    (s.pollerHolds = false → s.ownerHolds = false → s.registered = true → s.st = 1) := by
  have hg := good_run acts init s good_init hall hr
  simp only [Good] at hg
  grind

/-- non-vacuity: the owner's Release takes the token while an event is fetched: the dispatch skips it, the token comes back,
the (level-triggered) event is fetched and dispatched in the next batch -/
example : (run init [.alloc, .register, .fetch, .liveRelease, .doEv, .liveDone, .endBatch, .fetch, .doEv, .doneEv, .endBatch]).map
    (fun s => (s.st, s.ownerHolds, s.pollerHolds, s.bad)) = some (1, false, false, false) := by decide

/-- non-vacuity: the close of the owner overlaps a dispatch in progress; the descriptor is closed after the dispatch ended -/
example : (run init [.alloc, .register, .fetch, .doEv, .detach, .doneEv, .stopFlush, .unused, .reset, .freeable, .closeFd 1, .endBatch]).map
    (fun s => (s.fdOpen, s.bad)) = some (false, false) := by decide
/-- … and cannot be closed while the dispatch is in progress (`unused()` spins, the finalizer has not reached `netFD.Close`) -/
example : run init [.alloc, .register, .fetch, .doEv, .detach, .closeFd 1] = none := by decide

/-- non-vacuity: a full life cycle with a close placed between fetch and dispatch, then reuse by a second owner -/
example : (run init [.alloc, .register, .fetch, .detach, .stopFlush, .unused, .reset, .freeable, .doEv, .endBatch,
    .alloc, .register, .staleRelease 1 true, .fetch, .doEv, .doneEv, .endBatch]).map (fun s => (s.gen, s.bad)) = some (2, false) := by
  decide

/-- **C10_fd_open_while_writer_in_flight** (an API call of the connection in flight ACROSS its close).  A `Write` / `Flush` that has
passed `IsActive()` and taken `lock(flushing)` uses `c.fd` (`sendmsg`) and `c.operator` (`Control(PollR2RW)`, `Control(PollRW2R)`)
without looking at the close state again.  For every interleaving of such a writer with the owner's close (detach,
`stop(flushing)`, `operator.Free()`, `netFD.Close()`), the poller's batches and later owners: while the writer is in flight the slot
is still its connection's, the operator has not been given back and the descriptor is still open – the number cannot have been
handed to another connection, so the writer's bytes can only go to its own peer (`wUse` never sets `bad`).  The finalizer's
`stop(flushing)` in front of `Free()` is what this rests on (`C10_free_before_stop_witness`). -/
theorem C10_fd_open_while_writer_in_flight (acts : List Act) (s : S) (hall : acts.all guardedAct = true) (hr : run init acts = some s) :
    ∀ g, s.writer = some g →
      g = s.gen ∧ s.loc = .owned ∧ s.fdOpen = true ∧ (s.pc = .live ∨ s.pc = .detached) ∧ s.stopped = false ∧
      ∃ s', step s .wUse = some s' ∧ s'.bad = false := by
  intro g hw
  have hg := good_run acts init s good_init hall hr
  simp only [Good] at hg
  have hb : s.bad = false := hg.1
  have hW := hg.2.2.2.2.2.2.2.2.2.2.2.2.2.2.2.2.2.2.2 g hw
  have hfd : s.fdOpen = true := hg.2.2.2.2.2.2.2.2.2.2.2.2.2.2.2.2.2.2.1 hW.2.1
  refine ⟨hW.1, hW.2.1, hfd, hW.2.2.1, hW.2.2.2.2, ?_⟩
  refine ⟨{ s with bad := s.bad || (g != s.gen) || !s.fdOpen || !(decide (s.pc = .live) || decide (s.pc = .detached)) }, ?_, ?_⟩
  · simp only [step, hw]
  · have h1 := hW.1
    rcases hW.2.2.1 with h | h <;> simp [hb, h1, hfd, h]

/-- non-vacuity: a writer in flight while its owner closes: the finalizer's `stop(flushing)` is not enabled until the writer has left,
so neither are `Free` and the close of the descriptor -/
example : (run init [.alloc, .register, .wLock, .detach, .wUse, .wUnlock, .stopFlush, .unused, .reset, .freeable, .closeFd 1]).map
    (fun s => (s.fdOpen, s.bad, s.writer)) = some (false, false, none) := by decide
example : run init [.alloc, .register, .wLock, .detach, .stopFlush] = none := by decide
example : run init [.alloc, .register, .wLock, .detach, .unused] = none := by decide
/-- … and once the finalizer is past `stop(flushing)` no writer gets in any more -/
example : run init [.alloc, .register, .detach, .stopFlush, .wLock] = none := by decide

/-- **Witness: a finalizer that frees the operator and closes the descriptor before it waits for the flusher is wrong.**
(`unusedEarly` = `operator.Free()` without a preceding `stop(flushing)`.)  The writer in flight then acts on a descriptor number that
has been given back – and, after the batch ended and a new connection took the slot, on that connection's operator. -/
theorem C10_free_before_stop_witness :
    (run init [.alloc, .register, .wLock, .detach, .unusedEarly, .reset, .freeable, .closeFd 1, .wUse]).map (fun s => s.bad) = some true ∧
    (run init [.alloc, .register, .wLock, .detach, .unusedEarly, .reset, .freeable, .closeFd 1, .fetchOther, .endBatch,
      .alloc, .register, .wUse]).map (fun s => (s.gen, s.bad)) = some (2, true) := by decide

/-- **C10_freed_slot_not_registered** (the DIAL operator as a slot owner, and every other owner).  A descriptor is registered with the
slot's pointer only while the slot is owned and its owner has not detached: when an owner – a connection's close finalizer, or
`netFD.connect`'s deferred `operator.Free()` after `pollDesc.WaitWrite` returned through `onwrite` (detach inside the dispatch),
through a hang-up (`appendHup` detaches) or through `ctx.Done()` (`WaitWrite` detaches itself) – gives the slot back, nothing is
registered through it, on the freelist and on the free chain alike; so no event fetched later can reach the next owner through a
registration of an earlier one (`Act.fetch` needs `registered`). -/
theorem C10_freed_slot_not_registered (acts : List Act) (s : S) (hall : acts.all guardedAct = true) (hr : run init acts = some s) :
    (s.registered = true → s.loc = .owned ∧ s.pc = .live ∧ s.cbGen = some s.gen) ∧
    (s.pc = .unusedDone ∨ s.pc = .resetDone ∨ s.pc = .gone → s.registered = false) := by
  have hg := good_run acts init s good_init hall hr
  simp only [Good] at hg
  grind

/-- non-vacuity: a dial times out (its own detach), frees its slot, the batch ends, a connection takes the slot, the dial's descriptor
is closed last; a dial woken by `onwrite`; a dial whose hang-up is delivered after its slot was reused -/
example : (run init [.allocDial, .register, .detach, .unused, .reset, .freeable, .fetchOther, .endBatch, .alloc, .register, .closeFd 1,
    .fetch, .doEv, .doneEv, .endBatch]).map (fun s => (s.gen, s.registered, s.kind, s.bad)) = some (2, true, Kind.conn, false) := by decide
example : (run init [.allocDial, .register, .fetch, .doEv, .detach, .doneEv, .unused, .reset, .freeable, .closeFd 1, .endBatch]).map
    (fun s => (s.loc, s.registered, s.bad)) = some (Loc.first, false, false) := by decide
example : (run init [.allocDial, .register, .fetch, .doEv, .queueHup, .detach, .doneEv, .unused, .reset, .freeable, .closeFd 1, .endBatch,
    .alloc, .register, .runHup 1 false]).map (fun s => (s.gen, s.registered, s.bad)) = some (2, true, false) := by decide
/-- a dial's slot cannot be freed while it is registered (no path to `unused` but through a detach) -/
example : run init [.allocDial, .register, .unused] = none := by decide

/-- **C10_queued_hup_isolated** (hang-ups recorded in a batch are delivered later, on another goroutine).  `appendHup` records the
hang-up while the poller holds the slot's token; the goroutine started by `onhups()` delivers it at ANY later point of ANY
continuation – after the batch ended, after the owner closed the connection, after `opcache.free()` spliced the slot back and a new
connection took it.  For every such history: every undelivered entry names an owner the slot really had, delivering it
(`runHup g false`: the entry is the func `appendHup` copied) is always possible and invokes no other owner's callback – in
particular not the callbacks of the connection that owns the slot by then. -/
theorem C10_queued_hup_isolated (acts : List Act) (s : S) (hall : acts.all guardedAct = true) (hr : run init acts = some s) :
    (∀ g ∈ s.hupq, g ≤ s.gen ∧ ∃ s', step s (.runHup g false) = some s' ∧ s'.bad = false ∧ s'.cbGen = s.cbGen ∧ s'.st = s.st) := by
  intro g hg
  have hq := qok_run acts init s qok_init hr
  have hb := (good_run acts init s good_init hall hr).1
  refine ⟨hq g hg, ?_⟩
  have hc : s.hupq.contains g = true := by simpa using hg
  refine ⟨{ s with hupq := s.hupq.erase g, bad := s.bad || (false && s.cbGen.isSome && s.cbGen != some g) }, ?_, ?_, rfl, rfl⟩
  · simp only [step, hc, if_true]
  · simp [hb]

/-- non-vacuity: hang-up recorded for owner 1, owner 1 closes, the batch ends, owner 2 takes the slot, THEN the goroutine delivers
the entry: owner 2 is not touched -/
example : (run init [.alloc, .register, .fetch, .doEv, .queueHup, .detach, .doneEv, .stopFlush, .unused, .reset, .freeable, .closeFd 1, .endBatch,
    .alloc, .register, .runHup 1 false]).map (fun s => (s.gen, s.cbGen, s.hupq, s.bad)) = some (2, some 2, [], false) := by decide

/-- **Witness: a hang-up queue that holds slots instead of the copied funcs is wrong.**  If the goroutine read `OnHup` from the
slot when it reaches the entry (`late = true`), the same history delivers owner 1's hang-up to owner 2's `onHup`: connection 2 is
closed "by peer" although its peer is alive.  (When the slot has only been reset, not yet reused, the late read finds nil and
skips the entry – which is why nothing notices until the slot is reused.) -/
theorem C10_late_onhup_read_witness :
    (run init [.alloc, .register, .fetch, .doEv, .queueHup, .detach, .doneEv, .stopFlush, .unused, .reset, .freeable, .closeFd 1, .endBatch,
      .alloc, .register, .runHup 1 true]).map (fun s => (s.gen, s.bad)) = some (2, true) ∧
    (run init [.alloc, .register, .fetch, .doEv, .queueHup, .detach, .doneEv, .stopFlush, .unused, .reset, .freeable, .closeFd 1, .endBatch,
      .runHup 1 true]).map (fun s => (s.gen, s.bad)) = some (1, false) := by decide

/-- **Witness of the defect fixed by 1c26766 (D11).** Without the IsActive guard a Release on the closed
first owner takes the token of the slot's second owner (after which the real code panics in calcMaxSize and
never calls done(): the second owner is ignored by the poller for ever). -/
theorem C10_D11_witness : (run init [.alloc, .register, .detach, .stopFlush, .unused, .reset, .freeable, .fetchOther, .endBatch,
    .alloc, .register, .staleRelease 1 false]).map (fun s => (s.bad, s.staleHolds, s.gen)) = some (true, true, 2) := by
  decide

/-- while a stale caller holds the token the new owner's events are skipped (the stall of D11) -/
example : (run init [.alloc, .register, .detach, .stopFlush, .unused, .reset, .freeable, .fetchOther, .endBatch,
    .alloc, .register, .staleRelease 1 false, .fetch, .doEv]).map (fun s => (s.pollerHolds, s.pending)) = some (false, none) := by
  decide

end Netpoll.Props.C10
