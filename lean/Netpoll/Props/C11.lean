import Netpoll.Poll.ExitLemmas
import Netpoll.Poll.WakeLemmas
import Netpoll.Poll.HupFlagLemmas
import Netpoll.Poll.HupBatchLemmas
/-!
# C11 – the poller dispatches each descriptor's events completely and in order

Theorems about `Netpoll.Poll.Handler` (the model of `defaultPoll.handler`, `appendHup`, `onhups`,
`readall`, `ioread`, `iosend`) and `Netpoll.Poll.Wake` (Trigger / Close / wake-up branch), for
**every** flag set, callback set, token/detach state and system-call result script (the scripts are
lists of arbitrary length; the proofs go by induction over them), and for batches of any length.
Batch-level statements assume distinct operators in a batch (`DistinctIds`, A-epoll-unique); the
duplicate case is a witness below.  `full` = what `handler` did, then what the hang-up goroutine did.
Only property theorems and their non-vacuity examples live here; lemmas are in `Netpoll/Poll/*Lemmas.lean`.
-/
namespace Netpoll.Props.C11
open Netpoll.Poll

/-! ### concrete inputs for the non-vacuity examples -/

/-- a connection operator with all callbacks -/
def conn : Op := { onHup := true, inputs := true, outputs := true }
def free : OpSt := { state := 1, detached := 0 }
def inHup : Trig := { rd := true, wr := false, hup := true, err := false }
/-- 8 and 3 bytes readable, then EOF -/
def dataThenEof : Script := { rds := [.ok 8, .ok 3, .ok 0, .ok 0] }
def eofOnly : Script := { rds := [.ok 0, .ok 0] }
def wakeOp : Op := { wake := true }
def closeMsg : Script := { wake := some 1 }
def hupEv (id : Nat) : Ev := { id, op := conn, trig := inHup, sc := eofOnly }
def dataEv (id : Nat) : Ev := { id, op := conn, trig := inHup, sc := dataThenEof }
def closeEv (id : Nat) : Ev := { id, op := wakeOp, trig := { rd := true, wr := false, hup := false, err := false }, sc := closeMsg }
def allFree : Nat → OpSt := fun _ => free

/-! ### the flags -/

/-- **Only the five flags matter.** Whatever 32-bit event word the kernel hands over, `handler`'s four
conditions depend only on IN, OUT, ERR, HUP and RDHUP (masks regenerated from the source); all the
theorems below quantify over every value of the four conditions, hence over every event word. -/
theorem C11_only_five_flags (evt : Nat) : Trig.ofEvt evt = Trig.ofEvt (evt &&& 0x201D) := by
  have h1 : (0x201D : Nat) &&& Netpoll.Gen.handler_triggerRead = Netpoll.Gen.handler_triggerRead := by decide
  have h2 : (0x201D : Nat) &&& Netpoll.Gen.handler_triggerWrite = Netpoll.Gen.handler_triggerWrite := by decide
  have h3 : (0x201D : Nat) &&& Netpoll.Gen.handler_triggerHup = Netpoll.Gen.handler_triggerHup := by decide
  have h4 : (0x201D : Nat) &&& Netpoll.Gen.handler_triggerError = Netpoll.Gen.handler_triggerError := by decide
  simp only [Trig.ofEvt, Nat.and_assoc, h1, h2, h3, h4]

/-- IN|RDHUP with the edge-trigger bit set: read and hang-up conditions, nothing else -/
example : Trig.ofEvt (0x1 ||| 0x2000 ||| 0x80000000) = { rd := true, wr := false, hup := true, err := false } := by decide

/-- **The event array always holds the batch**, and a full batch doubles it (the `Wait` growth rule
with the literals read off the source). -/
theorem C11_event_array_growth (size n : Nat) (h : n ≤ size) :
    n ≤ nextSize size n ∧ size ≤ nextSize size n ∧
      (n = size → size < Netpoll.Gen.wait_maxSize → nextSize size n = size * 2) := by
  unfold nextSize
  refine ⟨?_, ?_, ?_⟩
  · split <;> omega
  · split <;> omega
  · intro h1 h2; simp [h1, h2]

example : nextSize 128 128 = 256 ∧ nextSize 128 127 = 128 ∧ nextSize 131072 131072 = 131072 := by decide

/-! ### byte counts -/

/-- **Acknowledged counts, input side.** Handling one event acknowledges through `InputAck` exactly
the positive results of the `readv` calls it made, in order, each once – whatever the flags, the
callbacks, the token state and the script. -/
theorem C11_ack_counts (b : Nat) (op : Op) (st : OpSt) (t : Trig) (sc : Script) :
    posAcksOf (handleEvent b op st t sc).tr = posReads (sc.rds.take (handleEvent b op st t sc).usedR) := by
  have hb := body_acks op t sc
  by_cases h1 : st.state = 1
  · by_cases hw : op.wake = true
    · have hwk := handleEvent_wake_tr b op st t sc h1 hw
      rw [hwk.2.1]
      rcases hwk.1 with h | h <;> rw [h] <;> rfl
    · have hw' : op.wake = false := by simpa using hw
      by_cases hs : (body op t sc).stuck = true
      · have : (handleEvent b op st t sc).tr = (body op t sc).tr ∧ (handleEvent b op st t sc).usedR = (body op t sc).usedR := by
          simp [handleEvent, h1, hw', hs]
        rw [this.1, this.2]; exact hb
      · have hs' : (body op t sc).stuck = false := by simpa using hs
        have hc := handleEvent_conn b op st t sc h1 hw' hs'
        rw [hc.1, hc.2.2.2.2.2.2.1, posAcksOf_append, hb]
        split <;> simp [posAcksOf, hupTail]
  · have hn := handleEvent_nodo b op st t sc h1
    have hu : (handleEvent b op st t sc).usedR = 0 := by simp [handleEvent, h1]
    rw [hn.1, hu]; rfl

example : posAcksOf (handleEvent 0 conn free inHup dataThenEof).tr = [8, 3] := by decide

/-- **Acknowledged counts, output side.** At most one `OutputAck` per event, and it carries what
`sendmsg` returned for the one call made: the accepted byte count, 0 for `EAGAIN`, -1 for an errno
(0 without a system call if the vector had no room). -/
theorem C11_output_ack (b : Nat) (op : Op) (st : OpSt) (t : Trig) (sc : Script) :
    outAcksOf (handleEvent b op st t sc).tr = [] ∨
    ((nextVec sc.outs).1 = .zero ∧ outAcksOf (handleEvent b op st t sc).tr = [0]) ∨
    (∃ s rest, sc.sds = s :: rest ∧ (nextVec sc.outs).1 = .room ∧
      outAcksOf (handleEvent b op st t sc).tr = [(iosendRes s).1] ∧ (handleEvent b op st t sc).usedS = 1) := by
  have hb := body_out op t sc
  have tail1 : outAcksOf [Cb.done] = [] := rfl
  have tail2 : outAcksOf (hupTail op st) = [] := rfl
  by_cases h1 : st.state = 1
  · by_cases hw : op.wake = true
    · left
      rcases (handleEvent_wake_tr b op st t sc h1 hw).1 with h | h <;> rw [h] <;> rfl
    · have hw' : op.wake = false := by simpa using hw
      by_cases hs : (body op t sc).stuck = true
      · have : (handleEvent b op st t sc).tr = (body op t sc).tr ∧ (handleEvent b op st t sc).usedS = (body op t sc).usedS := by
          simp [handleEvent, h1, hw', hs]
        rw [this.1, this.2]
        rcases hb with h | h | ⟨s, rest, h⟩
        · exact Or.inl h.1
        · exact Or.inr (Or.inl ⟨h.1, h.2.1⟩)
        · exact Or.inr (Or.inr ⟨s, rest, h⟩)
      · have hs' : (body op t sc).stuck = false := by simpa using hs
        have hc := handleEvent_conn b op st t sc h1 hw' hs'
        have ht : outAcksOf (handleEvent b op st t sc).tr = outAcksOf (body op t sc).tr := by
          rw [hc.1, outAcksOf_append]; split <;> simp [tail1, tail2]
        rw [ht, hc.2.2.2.2.2.2.2]
        rcases hb with h | h | ⟨s, rest, h⟩
        · exact Or.inl h.1
        · exact Or.inr (Or.inl ⟨h.1, h.2.1⟩)
        · exact Or.inr (Or.inr ⟨s, rest, h⟩)
  · left; rw [(handleEvent_nodo b op st t sc h1).1]; rfl

example : outAcksOf (handleEvent 0 conn free { rd := false, wr := true, hup := false, err := false } { sds := [.ok 5] }).tr = [5] := by
  decide

/-! ### the token -/

/-- **Token released exactly once.** If `do()` succeeds (token word 1) and no system call is left
hanging, `done()` is called exactly once, as the last step, and the token is back at 1; if `do()`
fails the operator is left alone. -/
theorem C11_token_released_once (b : Nat) (op : Op) (st : OpSt) (t : Trig) (sc : Script) :
    (st.state = 1 → (handleEvent b op st t sc).stuck = false →
      (handleEvent b op st t sc).tr.count .done = 1 ∧ (handleEvent b op st t sc).tr.getLast? = some .done ∧
        (handleEvent b op st t sc).st.state = 1) ∧
    (st.state ≠ 1 → (handleEvent b op st t sc).tr = [] ∧ (handleEvent b op st t sc).st = st) := by
  refine ⟨?_, fun h1 => ⟨(handleEvent_nodo b op st t sc h1).1, (handleEvent_nodo b op st t sc h1).2.1⟩⟩
  intro h1 hst
  by_cases hw : op.wake = true
  · have hwk := handleEvent_wake_tr b op st t sc h1 hw
    refine ⟨?_, ?_, hwk.2.2.2⟩ <;> rcases hwk.1 with h | h <;> rw [h] <;> decide
  · have hw' : op.wake = false := by simpa using hw
    have hs' : (body op t sc).stuck = false := by
      by_cases hs : (body op t sc).stuck = true
      · simp [handleEvent, h1, hw', hs] at hst
      · simpa using hs
    have hc := handleEvent_conn b op st t sc h1 hw' hs'
    have hnd : (body op t sc).tr.count .done = 0 := List.count_eq_zero.2 (body_no_done op t sc)
    rw [hc.1, hc.2.2.1]
    split <;> simp [hupTail, List.count_append, hnd]

example : (handleEvent 0 conn free inHup dataThenEof).tr.count .done = 1 ∧
    (handleEvent 0 conn { state := 2, detached := 0 } inHup dataThenEof).tr = [] := by decide

/-! ### order within a batch -/

/-- **Data before hang-up.** In a batch of distinct operators, once any step of an operator's
hang-up sequence has happened (queueing `OnHup`, the detach, the `OnHup` call itself), no input or
output callback of that operator follows: every `InputAck` precedes the hang-up. -/
theorem C11_data_before_hup (b : Nat) (st : Nat → OpSt) (evs : List Ev) (hd : DistinctIds evs)
    (id : Nat) (x : Cb) (l1 l2 : List (Nat × Cb)) (hx : x.isHupStep = true)
    (hl : (handleBatch b st evs).full = l1 ++ (id, x) :: l2) :
    ∀ c, c.isIO = true → (id, c) ∉ l2 := by
  have hloop := loop_noAfter (fun c => c.isHupStep = true) (fun c => c.isIO = true)
    event_noIO_after_hupStep id evs hd b st []
  have hfull : NoAfter (fun x : Nat × Cb => x.1 = id ∧ x.2.isHupStep = true)
      (fun y : Nat × Cb => y.1 = id ∧ y.2.isIO = true) (handleBatch b st evs).full := by
    unfold BatchOut.full
    rw [(batch_fields b st evs).1, noAfter_append]
    refine ⟨hloop, noAfter_of_not_Q ?_, ?_⟩
    · intro a ha; rcases List.mem_map.1 ha with ⟨j, _, rfl⟩; simp [Cb.isIO]
    · intro a _ _ y hy; rcases List.mem_map.1 hy with ⟨j, _, rfl⟩; simp [Cb.isIO]
  intro c hc hmem
  exact noAfter_split hfull hl ⟨rfl, hx⟩ (id, c) hmem ⟨rfl, hc⟩

example : (handleBatch 0 allFree [dataEv 0, hupEv 1]).full =
    [(0, .inputs), (0, .inputAck 8), (0, .inputs), (0, .inputAck 3), (0, .inputs), (0, .inputAck 0), (0, .done),
     (1, .inputs), (1, .inputAck 0), (1, .hupQueued true), (1, .detach true), (1, .done), (1, .onHupRun)] := by decide

/-- **No callback after detach.** In a batch of distinct operators, after an operator's
`Control(PollDetach)` the only things that still happen for it are its `done()` and its `OnHup`. -/
theorem C11_no_callback_after_detach (b : Nat) (st : Nat → OpSt) (evs : List Ev) (hd : DistinctIds evs)
    (id : Nat) (d : Bool) (l1 l2 : List (Nat × Cb))
    (hl : (handleBatch b st evs).full = l1 ++ (id, .detach d) :: l2) :
    ∀ c, (id, c) ∈ l2 → c = .done ∨ c = .onHupRun := by
  have hloop := loop_noAfter (fun c => c.isDetach = true) (fun c => c ≠ .done)
    event_only_done_after_detach id evs hd b st []
  have hfull : NoAfter (fun x : Nat × Cb => x.1 = id ∧ x.2.isDetach = true)
      (fun y : Nat × Cb => y.1 = id ∧ y.2 ≠ .done ∧ y.2 ≠ .onHupRun) (handleBatch b st evs).full := by
    have hloop' : NoAfter (fun x : Nat × Cb => x.1 = id ∧ x.2.isDetach = true)
        (fun y : Nat × Cb => y.1 = id ∧ y.2 ≠ .done ∧ y.2 ≠ .onHupRun) (handleLoop b st [] evs).tr := by
      generalize (handleLoop b st [] evs).tr = l at hloop
      induction l with
      | nil => trivial
      | cons a l ih => exact ⟨fun pa y hy hq => hloop.1 pa y hy ⟨hq.1, hq.2.1⟩, ih hloop.2⟩
    unfold BatchOut.full
    rw [(batch_fields b st evs).1, noAfter_append]
    refine ⟨hloop', noAfter_of_not_Q ?_, ?_⟩
    · intro a ha; rcases List.mem_map.1 ha with ⟨j, _, rfl⟩; simp
    · intro a _ _ y hy; rcases List.mem_map.1 hy with ⟨j, _, rfl⟩; simp
  intro c hmem
  have := noAfter_split hfull hl ⟨rfl, rfl⟩ (id, c) hmem
  by_cases h1 : c = .done
  · exact Or.inl h1
  · by_cases h2 : c = .onHupRun
    · exact Or.inr h2
    · exact absurd ⟨rfl, h1, h2⟩ this

example : ∃ l1 l2, (handleBatch 0 allFree [hupEv 1]).full = l1 ++ (1, .detach true) :: l2 ∧ l2 = [(1, .done), (1, .onHupRun)] :=
  ⟨[(1, .inputs), (1, .inputAck 0), (1, .hupQueued true)], [(1, .done), (1, .onHupRun)], by decide, rfl⟩

/-- The assumption is needed: an operator that appears twice in one batch (the kernel never does
that) gets callbacks again after its detach – `handler` does not look at the `detached` word. -/
theorem C11_duplicate_event_witness :
    ∃ l1 l2, (handleBatch 0 allFree [hupEv 1, dataEv 1]).full = l1 ++ (1, .detach true) :: l2 ∧ (1, Cb.inputAck 8) ∈ l2 :=
  ⟨[(1, .inputs), (1, .inputAck 0), (1, .hupQueued true)],
   [(1, .done), (1, .inputs), (1, .inputAck 8), (1, .inputs), (1, .inputAck 3), (1, .inputs), (1, .inputAck 0), (1, .done),
    (1, .onHupRun)], by decide, by decide⟩


/-! ### hang-up: at most once, after the detach, after the data, not lost -/

/-- **Hang-up at most once and only after the detach.** In a batch of distinct operators `OnHup`
runs at most once per operator, and when it runs the operator went through
`Control(PollDetach)` earlier – reaching `EPOLL_CTL_DEL` exactly when nobody had taken the
detach-once counter before. -/
theorem C11_hup_once_after_detach (b : Nat) (st : Nat → OpSt) (evs : List Ev) (hd : DistinctIds evs) (id : Nat) :
    (handleBatch b st evs).full.count (id, .onHupRun) ≤ 1 ∧
    ∀ l1 l2, (handleBatch b st evs).full = l1 ++ (id, .onHupRun) :: l2 →
      (id, .detach ((st id).detached == 0)) ∈ l1 := by
  rcases loop_hups evs hd b st [] with ⟨extra, hx1, hx2, _, hx4⟩
  have hf := batch_fields b st evs
  have hno := loop_no_onHupRun evs b st [] id
  -- what `onhups` runs: distinct operators, each detached in this batch
  have hran : (handleBatch b st evs).ran.Nodup ∧
      ∀ j ∈ (handleBatch b st evs).ran, (j, Cb.detach ((st j).detached == 0)) ∈ (handleLoop b st [] evs).tr := by
    rw [hf.2.2.2.2]
    split
    · exact ⟨List.nodup_nil, by simp⟩
    · rw [hx1, List.nil_append]
      refine ⟨(List.Sublist.map _ List.filter_sublist).nodup (hx2.nodup hd), ?_⟩
      intro j hj
      rcases List.mem_map.1 hj with ⟨p, hp, rfl⟩
      exact hx4 p.1 p.2 (List.mem_filter.1 hp).1
  constructor
  · unfold BatchOut.full
    rw [hf.1, List.count_append, List.count_eq_zero.2 hno, count_map_pair, Nat.zero_add]
    exact List.nodup_iff_count.1 hran.1 id
  · intro l1 l2 hl
    unfold BatchOut.full at hl
    rw [hf.1] at hl
    -- the cut lies in the goroutine's part, so the whole handler trace is before it
    rcases List.append_eq_append_iff.1 hl with ⟨a', h1, h2⟩ | ⟨c', h1, h2⟩
    · have hidran : id ∈ (handleBatch b st evs).ran := by
        have : (id, Cb.onHupRun) ∈ List.map (·, Cb.onHupRun) (handleBatch b st evs).ran := by
          rw [h2]; simp
        rcases List.mem_map.1 this with ⟨j, hj, heq⟩
        cases heq; exact hj
      rw [h1]
      exact List.mem_append_left _ (hran.2 id hidran)
    · cases c' with
      | nil =>
        -- the cut is exactly at the boundary between the handler's and the goroutine's part
        simp only [List.append_nil, List.nil_append] at h1 h2
        have hidran : (id, Cb.onHupRun) ∈ List.map (·, Cb.onHupRun) (handleBatch b st evs).ran := by
          rw [← h2]; simp
        rcases List.mem_map.1 hidran with ⟨j, hj, heq⟩
        cases heq
        rw [← h1]
        exact hran.2 id hj
      | cons x xs =>
        exfalso
        simp only [List.cons_append, List.cons.injEq] at h2
        apply hno
        rw [h1]
        simp [← h2.1]

example : (handleBatch 0 allFree [hupEv 1, hupEv 2]).full.count (2, .onHupRun) = 1 := by decide

/-- **Hang-up only after the data.** When readable and hang-up are reported together for a
connection operator (no `OnRead`; `Inputs` always offers room) and the event ends in a hang-up, the
reads made end with one that found nothing more to read (EOF, EAGAIN or an errno) – and by
`C11_ack_counts` everything read before it was acknowledged. -/
theorem C11_hup_after_drain (b : Nat) (op : Op) (st : OpSt) (t : Trig) (sc : Script)
    (h1 : st.state = 1) (hw : op.wake = false) (hrd : t.rd = true) (hhup : t.hup = true)
    (hin : op.inputs = true) (hor : op.onRead = false) (hins : sc.ins = [])
    (hq : (handleEvent b op st t sc).hup.isSome = true) :
    drainedAt sc.rds (handleEvent b op st t sc).usedR = true := by
  have hs' : (body op t sc).stuck = false := by
    by_cases hs : (body op t sc).stuck = true
    · simp [handleEvent, h1, hw, hs] at hq
    · simpa using hs
  have hc := handleEvent_conn b op st t sc h1 hw hs'
  have hh : (body op t sc).hup = true := by
    by_cases hh : (body op t sc).hup = true
    · exact hh
    · rw [hc.2.1] at hq; simp [hh] at hq
  rw [hc.2.2.2.2.2.2.1]
  exact body_drained op t sc hrd hhup hin hor hins hs' hh

example : (handleEvent 0 conn free inHup eofOnly).hup.isSome = true ∧
    drainedAt eofOnly.rds (handleEvent 0 conn free inHup eofOnly).usedR = true := by decide

/-- and when bytes were read in this event the hang-up is left for the next wake-up -/
example : (handleEvent 0 conn free inHup dataThenEof).hup = none := by decide

/-- **A reported hang-up is acted on.**  An event that carries the hang-up condition, for an ordinary operator whose token was
free, ends in `appendHup` (the callback is queued – and run, by `C11_hup_reported` –, the descriptor deregistered, the detach
counter taken) unless an `InputAck` of this very event carried a non-zero count.  `handleEvent` starts every event with
`totalRead = 0`: what earlier descriptors of the batch delivered cannot keep a later one from being hung up (clause
`hupActedOn` of the spec oracle judges the implementation on exactly this). -/
theorem C11_hup_flag_acted_on (b : Nat) (op : Op) (st : OpSt) (t : Trig) (sc : Script)
    (h1 : st.state = 1) (hw : op.wake = false) (hh : t.hup = true)
    (hs : (handleEvent b op st t sc).stuck = false) (hz : nzAcksOf (handleEvent b op st t sc).tr = []) :
    (handleEvent b op st t sc).hup = some op.onHup ∧
      (handleEvent b op st t sc).st.detached = st.detached + 1 ∧
      Cb.hupQueued op.onHup ∈ (handleEvent b op st t sc).tr ∧
      Cb.detach (st.detached == 0) ∈ (handleEvent b op st t sc).tr := by
  have hs' : (body op t sc).stuck = false := by
    by_cases hb : (body op t sc).stuck = true
    · simp [handleEvent, h1, hw, hb] at hs
    · simpa using hb
  have hc := handleEvent_conn b op st t sc h1 hw hs'
  have hzb : nzAcksOf (body op t sc).tr = [] := by
    rw [hc.1, nzAcksOf_append] at hz
    exact (List.append_eq_nil_iff.1 hz).1
  have hb := body_hup_of_no_nz op t sc hh hs' hzb
  rw [hc.1, hc.2.1, hc.2.2.1]
  simp [hb, hupTail]

/-- **… whatever the rest of the batch delivered.**  In a batch `pre ++ e :: post` in which the events in front of `e` belong to
other operators and do not end the loop (no close message, no system call left hanging), `e` – hang-up condition set, token
free, nothing non-zero acknowledged for `e` itself – is hung up: its `OnHup` is queued (and run, `C11_hup_reported`) and the
descriptor is deregistered, however many bytes the descriptors in front of it delivered. -/
theorem C11_hup_acted_on_in_batch (b : Nat) (st : Nat → OpSt) (pre post : List Ev) (e : Ev)
    (hid : e.id ∉ pre.map (·.id))
    (hx : (handleLoop b st [] pre).exit = false) (hs : (handleLoop b st [] pre).stuck = false)
    (h1 : (st e.id).state = 1) (hw : e.op.wake = false) (hh : e.trig.hup = true)
    (hse : (handleEvent 0 e.op (st e.id) e.trig e.sc).stuck = false)
    (hz : nzAcksOf (handleEvent 0 e.op (st e.id) e.trig e.sc).tr = []) :
    (e.id, Cb.hupQueued e.op.onHup) ∈ (handleBatch b st (pre ++ e :: post)).tr ∧
    (e.id, Cb.detach ((st e.id).detached == 0)) ∈ (handleBatch b st (pre ++ e :: post)).tr := by
  have hs' : (body e.op e.trig e.sc).stuck = false := by
    by_cases hb : (body e.op e.trig e.sc).stuck = true
    · simp [handleEvent, h1, hw, hb] at hse
    · simpa using hb
  have hc := handleEvent_conn 0 e.op (st e.id) e.trig e.sc h1 hw hs'
  have hzb : nzAcksOf (body e.op e.trig e.sc).tr = [] := by
    rw [hc.1, nzAcksOf_append] at hz
    exact (List.append_eq_nil_iff.1 hz).1
  have hb := body_hup_of_no_nz e.op e.trig e.sc hh hs' hzb
  have hq : ∀ c ∈ hupTail e.op (st e.id), ∀ b', c ∈ (handleEvent b' e.op (st e.id) e.trig e.sc).tr := by
    intro c hcm b'
    rw [handleEvent_conn_buf b' 0 _ _ _ _ hw, hc.1]
    simp only [hb, if_true]
    exact List.mem_append_right _ hcm
  rw [(batch_fields b st (pre ++ e :: post)).1]
  exact ⟨loop_mem_later e post _ pre b st [] hid hx hs (hq _ (by simp [hupTail])),
         loop_mem_later e post _ pre b st [] hid hx hs (hq _ (by simp [hupTail]))⟩

/-- a hang-up without the readable flag and a readable hang-up at EOF are both acted on … -/
example : (handleEvent 0 conn free { rd := false, wr := true, hup := true, err := false } {}).hup = some true ∧
    (handleEvent 0 conn free inHup eofOnly).hup = some true := by decide
/-- … also behind a descriptor that delivered bytes in the same batch -/
example : (2, Cb.onHupRun) ∈ (handleBatch 0 allFree [dataEv 1, { id := 2, op := conn, trig := { rd := false, wr := true, hup := true, err := false }, sc := {} }]).full := by
  decide

/-- **Every queued hang-up is reported.**  In a batch of distinct operators every operator that went
through `appendHup` with a non-nil `OnHup` has it run (exactly once by `C11_hup_once_after_detach`),
and nothing else is run – whether `handler` works through the whole array or returns true at a
close message behind the hang-up (the wake-up branch calls `onhups()` before it returns).
(`stuck = false`: the system-call script did not run dry, i.e. the batch was handled to its end.) -/
theorem C11_hup_reported (b : Nat) (st : Nat → OpSt) (evs : List Ev) (hd : DistinctIds evs)
    (hns : (handleBatch b st evs).stuck = false) (id : Nat) :
    (id, .hupQueued true) ∈ (handleBatch b st evs).tr ↔ (id, .onHupRun) ∈ (handleBatch b st evs).full := by
  rcases loop_hups evs hd b st [] with ⟨extra, hx1, _, hx3, _⟩
  have hf := batch_fields b st evs
  have hno := loop_no_onHupRun evs b st [] id
  have hran : (handleBatch b st evs).ran = (extra.filter (·.2)).map (·.1) := by
    rw [hf.2.2.2.2, ← hf.2.2.2.1, hns, hx1]; rfl
  unfold BatchOut.full
  rw [hf.1, List.mem_append, hran]
  constructor
  · intro h
    right
    have := (hx3 id true).2 h
    exact List.mem_map.2 ⟨id, List.mem_map.2 ⟨(id, true), List.mem_filter.2 ⟨this, rfl⟩, rfl⟩, rfl⟩
  · rintro (h | h)
    · exact absurd h hno
    · rcases List.mem_map.1 h with ⟨j, hj, heq⟩
      cases heq
      rcases List.mem_map.1 hj with ⟨p, hp, rfl⟩
      have hp' := List.mem_filter.1 hp
      have : p = (p.1, true) := by cases p; simp_all
      rw [this] at hp'
      exact (hx3 p.1 true).1 hp'.1

example : (1, Cb.hupQueued true) ∈ (handleBatch 0 allFree [hupEv 1]).tr ∧ (handleBatch 0 allFree [hupEv 1]).exit = false := by decide

/-- a close message in the same batch, behind the hang-up: `handler` returns true and the operator that
was detached in this batch still gets its `OnHup` (before the fix it never did:
`Netpoll.Poll.HandlerOld.close_drops_hups_prefix_witness`) -/
example : (handleBatch 0 allFree [hupEv 1, closeEv 9]).exit = true ∧ (handleBatch 0 allFree [hupEv 1, closeEv 9]).stuck = false ∧
    (1, Cb.hupQueued true) ∈ (handleBatch 0 allFree [hupEv 1, closeEv 9]).tr ∧
    (1, Cb.onHupRun) ∈ (handleBatch 0 allFree [hupEv 1, closeEv 9]).full := by decide

/-! ### Close and Trigger -/

/-- **The close message stops the loop after releasing both descriptors.** `handler` returns true
only in the wake-up branch; its own steps for the batch then end with: read the eventfd, clear the
trigger flag, close the eventfd, close the epoll descriptor, `done()`; nothing of the events behind
it in the array is processed; after that only the hang-up callbacks of operators queued in front of
the close message run (all of them, by `C11_hup_reported`). -/
theorem C11_close_releases (b : Nat) (st : Nat → OpSt) (evs : List Ev) (hx : (handleBatch b st evs).exit = true) :
    ∃ pre e post l, evs = pre ++ e :: post ∧ e.op.wake = true ∧
      (handleBatch b st evs).full =
        l ++ [(e.id, .wakeRead), (e.id, .trigStore), (e.id, .closeWop), (e.id, .closeEp), (e.id, .done)] ++
          (handleBatch b st evs).ran.map (·, .onHupRun) ∧
      (∀ x ∈ l, ∃ e' ∈ pre, e'.id = x.1) ∧
      (∀ j ∈ (handleBatch b st evs).ran, ∃ e' ∈ pre, e'.id = j) := by
  have hf := batch_fields b st evs
  rw [hf.2.2.1] at hx
  rcases loop_exit evs b st [] hx with ⟨pre, e, post, l, hes, hw, htr, hl, _, hst, hh⟩
  refine ⟨pre, e, post, l, hes, hw, ?_, hl, ?_⟩
  · unfold BatchOut.full
    rw [hf.1, htr]
  · intro j hj
    rw [hf.2.2.2.2, hst] at hj
    simp only [Bool.false_eq_true, if_false] at hj
    rcases List.mem_map.1 hj with ⟨p, hp, rfl⟩
    rcases hh p (List.mem_filter.1 hp).1 with hn | hpre
    · cases hn
    · exact hpre

example : (handleBatch 0 allFree [closeEv 9, hupEv 1]).full =
    [(9, .wakeRead), (9, .trigStore), (9, .closeWop), (9, .closeEp), (9, .done)] := by decide

example : (handleBatch 0 allFree [hupEv 1, closeEv 9, hupEv 2]).full =
    [(1, .inputs), (1, .inputAck 0), (1, .hupQueued true), (1, .detach true), (1, .done),
     (9, .wakeRead), (9, .trigStore), (9, .closeWop), (9, .closeEp), (9, .done), (1, .onHupRun)] := by decide

/-- and only the close message does: one event makes `handler` return true iff it is the wake-up
operator, its token was free, and the first byte of the buffer after the read is non-zero. -/
theorem C11_exit_iff_close_message (b : Nat) (op : Op) (st : OpSt) (t : Trig) (sc : Script) :
    (handleEvent b op st t sc).exit = true ↔
      st.state = 1 ∧ op.wake = true ∧ (match sc.wake with | some c => c % 256 | none => b) > 0 := by
  constructor
  · intro h
    have he := event_exit b op st t sc h
    refine ⟨he.1, he.2.1, ?_⟩
    have := (handleEvent_wake b op st t sc he.1 he.2.1).2.1
    rw [h] at this
    exact of_decide_eq_true this.symm
  · rintro ⟨h1, hw, hb⟩
    rw [(handleEvent_wake b op st t sc h1 hw).2.1]
    exact decide_eq_true hb

/-- a Trigger message (2^56) has low byte 0 and does not stop the loop; a close message does -/
example : (handleEvent 0 wakeOp free inHup { wake := some (2 ^ 56) }).exit = false ∧
    (handleEvent 0 wakeOp free inHup { wake := some (2 ^ 56 + 1) }).exit = true := by decide

open Netpoll.Poll.Wake in
/-- **Trigger wakes a blocked loop.** For every interleaving of any number of `Trigger` and `Close`
callers with the loop: whenever a `Trigger` call has returned and no pass of the loop has ended
since, a loop that is waiting in `epoll_wait` is not stuck – the eventfd is readable (so
`epoll_wait` returns at once) or the `Trigger` call that holds the flag is still about to write.
Also at most one 2^56 unit is ever pending, so the counter cannot overflow into the close byte. -/
theorem C11_trigger_wakes (s : S) (hr : Reachable s) (hw : s.pc = .waiting) (ho : s.owed = true) :
    (s.trigW + s.closeW > 0 ∨ s.writers > 0) ∧ s.trigW ≤ 1 := by
  have hg := reachable_good hr
  have hne : s.pc ≠ .exited := by rw [hw]; decide
  obtain ⟨h1, h2, _, _, h5, _, _, _⟩ := hg hne
  have hgot : s.got = 0 := h2 (by rw [hw]; decide)
  have htr : s.trigger > 0 := by
    rcases h5 ho with h | h
    · exact h
    · rw [hw] at h; cases h
  simp only [htr, if_true] at h1
  omega

open Netpoll.Poll.Wake in
/-- a run in which the hypotheses hold: `Trigger` coalesced behind a caller that has not written yet -/
example : ∃ s, Reachable s ∧ s.pc = .waiting ∧ s.owed = true ∧ s.writers = 1 :=
  ⟨_, .step .trigAdd (.step .trigAdd .init rfl) rfl, rfl, rfl, rfl⟩

open Netpoll.Poll.Wake in
/-- **Close stops the loop.** Whenever a `Close` call has returned and the loop has not exited, the
close message is either still in the eventfd counter (the descriptor is readable, so a waiting loop
is woken and a busy one finds it on its next `epoll_wait`) or already in the buffer the loop is
about to test – in which case its next step is the exit. -/
theorem C11_close_wakes (s : S) (hr : Reachable s) (hne : s.pc ≠ .exited) (ho : s.closeOwed = true) :
    s.closeW > 0 ∨ (s.pc = .afterRead ∧ s.buf0 > 0 ∧ ∀ s', step s .store = some s' → s'.pc = .exited) := by
  obtain ⟨_, _, _, _, _, h6, _, _⟩ := reachable_good hr hne
  rcases h6 ho with h | h
  · exact Or.inl h
  · refine Or.inr ⟨h.1, h.2, ?_⟩
    intro s' hs
    simp only [step, h.1, if_true] at hs
    cases hs
    simp [h.2]

open Netpoll.Poll.Wake in
example : ∃ s, Reachable s ∧ s.closeOwed = true ∧ s.pc = .afterRead ∧ s.buf0 = 1 :=
  ⟨_, .step .read (.step .wakeUp (.step .close .init rfl) rfl) rfl, rfl, rfl, rfl⟩

end Netpoll.Props.C11
