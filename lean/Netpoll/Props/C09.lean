/-
  C09 – lifecycle callbacks run in the documented order.   (model: Netpoll.Conn.Life, fixed code)

  Every theorem is about every reachable state: accept/registration, first data, OnConnect of any duration, peer close
  at any moment (before, during, after OnConnect), user Close inside any callback, any interleaving.
-/
import Netpoll.Conn.LifeReachLemmasD
import Netpoll.Conn.LifeDemos
namespace Netpoll.Props.C09
open Netpoll.Conn.Life Netpoll.Conn.LifeDemos

/-- OnPrepare finishes before the connection can receive events: while the acceptor has not passed registration
(which follows the return of OnPrepare) the poller has not touched the connection and no hang-up is in progress -/
theorem C09_prepare_before_events {s : S} (h : Reachable s) (hsv : s.server = true) (hpre : s.aPc ≤ 4) :
    s.registered = false ∧ s.pPc = 0 ∧ s.hPc = 0 ∧ s.inLen = 0 ∧ s.reqRuns = 0 := by
  have hp := (reach_goodd h).2.2.2.prep ⟨hsv, hpre⟩
  exact ⟨hp.1, hp.2.1, hp.2.2.1, hp.2.2.2.1, hp.2.2.2.2.1⟩

/-- OnConnect finishes (returns or panics) before the first OnRequest starts -/
theorem C09_connect_before_request {s : S} (h : Reachable s) (hoc : s.hasOC = true) (hr : s.reqRuns + s.handlerActive ≥ 1) :
    s.ocEnds + s.ocPanics ≥ 1 :=
  (reach_goodr h).2.2.req_after_oc ⟨hoc, hr⟩

/-- OnDisconnect runs at most once, and only after OnConnect has finished (when there is one) -/
theorem C09_disconnect_once_after_connect {s : S} (h : Reachable s) :
    s.discRuns ≤ 1 ∧ (s.hasOC = true → s.discRuns ≥ 1 → s.ocEnds ≥ 1) := by
  obtain ⟨_, _, _, gd⟩ := reach_goodd h
  have h1 := gd.od_le
  have h2 := gd.od_after_oc
  simp only [S.odSum] at h1 h2
  refine ⟨by omega, fun hoc hd => h2 ⟨hoc, by omega⟩⟩

/-- when the peer closes a connection whose OnConnect has run (or that has none) OnDisconnect runs exactly once: in every
quiescent reachable state in which the hang-up goroutine won the close and OnDisconnect is set -/
theorem C09_disconnect_on_peer_close {s : S} (h : Reachable s) (hq : Quiescent s)
    (hw : s.hupWon = true) (hod : s.hasOD = true) (hoc : s.hasOC = false ∨ s.ocEnds ≥ 1) : s.discRuns = 1 := by
  obtain ⟨_, _, _, gd⟩ := reach_goodd h
  have hr := gd.resp_d ⟨hw, hod, hoc⟩
  have h1 := gd.od_le
  have hi := quiescent_idle s hq
  have hi3 := quiescent_idle3 s hq
  have e1 : (if s.hPc = 5 then 1 else 0) = 0 := by simp [hi3.2.1]
  have e2 : (if s.hPc = 10 then 1 else 0) = 0 := by simp [hi3.2.2]
  have e3 : (if (2 ≤ s.hPc ∧ s.hPc ≤ 4) ∨ (7 ≤ s.hPc ∧ s.hPc ≤ 9) then 1 else 0) = 0 := by simp [hi3.1]
  simp only [S.odSum, S.pendingD, e1, e2, e3] at hr h1
  have hl := hi.1
  simp only [S.lockedTasks] at hl
  omega

/-- the close callbacks come last: once the callback list has started no OnConnect, OnRequest handler or task-side
OnDisconnect starts any more (they all need the processing lock, which the list never releases) -/
theorem C09_callbacks_last {s : S} (h : Reachable s) (hcb : s.cbRuns ≥ 1) :
    s.tOCe + s.tOC + s.tHe + s.tH + s.tODe + s.tOD = 0 := by
  have g := (reach_good h).1
  have h1 := g.lock_eq; have h2 := g.lock_le; have h3 := g.runs_eq
  simp only [S.lockedTasks, S.cbTotal] at *
  omega

/-- "OnDisconnect before the close callbacks", as far as it holds: when the callback list starts on a connection the peer
closed (OnDisconnect owed), OnDisconnect has run, or has been claimed (state CAS won), or the hang-up goroutine is still
between closeBy(poller) and the end of its onDisconnect() hand-off – known finding D17: in that window a handler task
or a user Close that observes `closing != 0` starts the callbacks first.  Full statement (without the last
disjunct) is FALSE for the code: see `D17_witness`. -/
theorem C09_disconnect_before_callbacks_partial {s : S} (h : Reachable s) (hcb : s.cbRuns ≥ 1)
    (hw : s.hupWon = true) (hod : s.hasOD = true) (hoc : s.hasOC = false ∨ s.ocEnds ≥ 1) :
    s.discRuns = 1 ∨ (s.hPc = 5 ∨ s.hPc = 10) ∨ ((2 ≤ s.hPc ∧ s.hPc ≤ 4) ∨ (7 ≤ s.hPc ∧ s.hPc ≤ 9)) := by
  obtain ⟨g, _, _, gd⟩ := reach_goodd h
  have hr := gd.resp_d ⟨hw, hod, hoc⟩
  have h0 := gd.od_le
  have h1 := g.lock_eq; have h2 := g.lock_le; have h3 := g.runs_eq
  simp only [S.odSum, S.pendingD, S.lockedTasks, S.cbTotal] at *
  by_cases c1 : s.hPc = 5 <;> by_cases c2 : s.hPc = 10 <;>
    by_cases c3 : ((2 ≤ s.hPc ∧ s.hPc ≤ 4) ∨ (7 ≤ s.hPc ∧ s.hPc ≤ 9)) <;> simp_all <;> omega

/- D17 (known finding): the peer closes; the hang-up goroutine wins closeBy; before it reaches onDisconnect() the handler
task – which holds `processing` – reads `closing = poller` with an empty buffer and runs the close callbacks: they start
(and here finish) before OnDisconnect has run -/

theorem D17_witness : ∃ s, run (init true false true true) d17 = some s ∧ Reachable s ∧
    s.cbRuns = 1 ∧ s.hupWon = true ∧ s.hasOD = true ∧ s.hasOC = false ∧ s.discRuns = 0 ∧ s.hPc = 2 := by
  refine ⟨_, rfl, reach_run d17 (Reachable.init true false true true) rfl, ?_⟩
  decide

/-! Non-vacuity of the quiescence theorem's hypotheses: peer close after OnConnect finished, OnDisconnect run by the
hang-up goroutine, then the callbacks. -/

example : ∃ s, run (init true true true false) demoDisconnect = some s ∧ s.hupWon = true ∧ s.hasOD = true ∧ s.ocEnds = 1 ∧
    s.discRuns = 1 ∧ s.cbDone = 1 ∧ s.hPc = 99 := by
  refine ⟨_, rfl, ?_⟩
  decide

end Netpoll.Props.C09
