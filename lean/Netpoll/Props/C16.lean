import Netpoll.Adapter
namespace Netpoll.Props.C16
open Netpoll.Buf Netpoll.Adapter
/-- placeholder until the stream invariants are proved (see checks/c16.py): an exhausted source reports EOF. -/
theorem src_exhausted_eof {α : Type} (s : Src α) (l : Nat) (h : s.script = []) : (s.read l).1 = (0, .eof, []) := by
  simp [Src.read, h]
end Netpoll.Props.C16
