import Netpoll.AdapterLemmas
/-!
# C16 – the stream adapters of nocopy_readwriter.go preserve the byte stream

Model: `Netpoll/Adapter.lean` (zcReader / zcWriter / ioReader / ioWriter over the C01 spec queue `Q`, scripted
io.Reader `Src` and io.Writer `Sink`).  Vocabulary (`Netpoll/AdapterLemmas.lean`):

* `seg f i n`            – the `n` stream bytes `f i, …, f (i+n-1)`;
* `RGood r`              – reader invariant: `delivered ++ q.flushedBytes = pulled`, every queue entry flushed,
                           history flags clean, every buffer call so far inside the C01 `Contract`;
* `Delivers r r' bs`     – `bs = seg stream |r.delivered| |bs|` and `r'.delivered = r.delivered ++ bs`;
* `errOf (k, e)`         – the error a source call scripted `(k, e)` must surface (EOF ↦ ErrEOF, other ↦ itself,
                           negative count with nil error ↦ "negative count");
* `gotOf l (k, e)`       – the number of bytes that call puts into a buffer of length `l`;
* `WGood w`, `wspec`     – writer invariant; the Writer interface as a function of the calls alone;
* `WInContract w ops`    – every call of the sequence respects the caller-side clauses of the C01 `Contract` when it
                           is made: `MallocAck n` has `n ≤ MallocLen()`, `Malloc n` is filled with exactly `n` bytes
                           (`d.length = n.toNat`), `WriteBinary p` has `len(p) ≤ cap(p)`;
* `QGood`, `IOState`     – the buffer shared by an ioWriter and an ioReader, with ghost history.

All theorems hold for every byte type, every stream function, every script, every `block4k` and every operation
sequence (induction over the op list and over the `waitRead` fuel).
-/
namespace Netpoll.Props.C16
open Netpoll.Buf Netpoll.Adapter

variable {α : Type}

/-! ## 1. reader: the stream invariant -/

theorem C16_reader_init (stream : Nat → α) (script : List (Int × IOErr)) :
    RGood ({ src := { stream := stream, script := script } } : ZCReader α) :=
  RGood.init stream script

variable [DecidableEq α]

/-- one reader call keeps the invariant, never changes the stream function, never moves the source backwards,
and only ever appends to what was delivered -/
theorem C16_reader_step [Inhabited α] {r : ZCReader α} (hr : RGood r) (block4k : Nat) (op : ROp α) :
    RGood (r.step block4k op).1 ∧ (r.step block4k op).1.src.stream = r.src.stream ∧
    r.src.pos ≤ (r.step block4k op).1.src.pos ∧ r.delivered <+: (r.step block4k op).1.delivered :=
  ⟨(step_ok hr block4k op).1, (step_ok hr block4k op).2.1, (step_ok hr block4k op).2.2.1,
   step_delivered_prefix hr block4k op⟩

/-- For every source (any stream, any script of short / zero-byte / negative / data-with-error reads) and every
sequence of Reader calls, at every point: everything pulled from the source so far is exactly what was handed out
followed by what is still buffered – in order, nothing twice, nothing lost; nothing is left malloc'ed-but-unflushed
(every entry is readable); and every LinkBuffer call made so far was inside the C01 contract. -/
theorem C16_reader_stream [Inhabited α] (block4k : Nat) (stream : Nat → α) (script : List (Int × IOErr))
    (ops : List (ROp α)) :
    let r := ({ src := { stream := stream, script := script } } : ZCReader α).run block4k ops
    r.delivered ++ r.q.flushedBytes = (List.range r.src.pos).map stream ∧
    r.q.mallocLen = 0 ∧ (∀ x ∈ r.q.items, x.2 = true) ∧ r.src.stream = stream ∧ r.inC = true := by
  intro r
  obtain ⟨g, hs, _⟩ := run_ok block4k ops _ (RGood.init stream script)
  have hs' : r.src.stream = stream := hs
  refine ⟨?_, Q.mallocLen_of_allF g.allF, g.allF, hs', g.inC⟩
  have := g.stream
  rw [Src.pulled, hs'] at this
  exact this

/-- … and along any run the source position only grows and the delivered stream only grows by appending. -/
theorem C16_reader_monotone [Inhabited α] (block4k : Nat) (stream : Nat → α) (script : List (Int × IOErr))
    (ops₁ ops₂ : List (ROp α)) :
    let r₀ := ({ src := { stream := stream, script := script } } : ZCReader α)
    (r₀.run block4k ops₁).src.pos ≤ (r₀.run block4k (ops₁ ++ ops₂)).src.pos ∧
    (r₀.run block4k ops₁).delivered <+: (r₀.run block4k (ops₁ ++ ops₂)).delivered := by
  intro r₀
  obtain ⟨g, _, _⟩ := run_ok block4k ops₁ _ (RGood.init stream script)
  rw [run_append]
  exact ⟨(run_ok block4k ops₂ _ g).2.2, run_delivered_prefix block4k ops₂ _ g⟩

/-- The junk `default` bytes with which the model pads the malloc'ed block never matter: two runs that differ
only in the padding value are equal. -/
theorem C16_reader_padding_irrelevant (i₁ i₂ : Inhabited α) (block4k : Nat) (stream : Nat → α)
    (script : List (Int × IOErr)) (ops : List (ROp α)) :
    @ZCReader.run α _ i₁ block4k { src := { stream := stream, script := script } } ops =
    @ZCReader.run α _ i₂ block4k { src := { stream := stream, script := script } } ops :=
  run_pad_irrelevant i₁ i₂ block4k ops _ (RGood.init stream script)

/-- non-vacuity: three source calls (3 bytes; 0 bytes; 2 bytes together with io.EOF), `Next(4)` then `Next(2)`.
(`Next(4)` is the call during which the EOF arrives, so it fails with ErrEOF although 5 bytes are then buffered – as
in Go, where `fill` returns the error straight after `Flush`; `Next(2)` then succeeds without touching the source.) -/
example :
    let r₀ := ({ src := { stream := fun i => 10 + i, script := [(3, .none), (0, .none), (2, .eof)] } } : ZCReader Nat)
    let r := r₀.run 4 [.next 4, .next 2]
    (r₀.step 4 (.next 4)).2 = .fail .eof ∧
    r.delivered = [10, 11] ∧ r.q.flushedBytes = [12, 13, 14] ∧ r.src.pos = 5 ∧ r.src.script = [] := by
  decide

/-! ## 2. reader: what a successful call returns -/

omit [DecidableEq α] in
theorem C16_delivers_def {r r' : ZCReader α} {bs : List α} :
    Delivers r r' bs ↔ (bs = seg r.src.stream r.delivered.length bs.length ∧ r'.delivered = r.delivered ++ bs) :=
  Iff.rfl

/-- In a state satisfying the invariant: a successful `Next(n)` / `ReadBinary(n)` / `ReadByte` / `Until(c)` returns
exactly the next bytes of the source stream after what was delivered before (`n`, 1, up to and including the first
`c`), and they count as delivered; a successful `Skip(n)` removes exactly the next `n`; a successful `Peek(n)` returns
the next `n` without consuming (they are still the front of the buffer); a failing call delivers nothing. -/
theorem C16_reader_results [Inhabited α] {r : ZCReader α} (hr : RGood r) (b : Nat) :
    (∀ n res, (r.step b (.next n)).2 = .ok res →
      ∃ bs, res = .bytes bs ∧ bs.length = n.toNat ∧ Delivers r (r.step b (.next n)).1 bs) ∧
    (∀ n res, (r.step b (.readBinary n)).2 = .ok res →
      ∃ bs, res = .bytes bs ∧ bs.length = n.toNat ∧ Delivers r (r.step b (.readBinary n)).1 bs) ∧
    (∀ res, (r.step b .readByte).2 = .ok res →
      ∃ bs, res = .bytes bs ∧ bs.length = 1 ∧ Delivers r (r.step b .readByte).1 bs) ∧
    (∀ c res, (r.step b (.until c)).2 = .ok res →
      ∃ bs, res = .bytes bs ∧ bs.idxOf? c = some (bs.length - 1) ∧ Delivers r (r.step b (.until c)).1 bs) ∧
    (∀ n res, (r.step b (.skip n)).2 = .ok res →
      res = .unit ∧ ∃ bs, bs.length = n.toNat ∧ Delivers r (r.step b (.skip n)).1 bs) ∧
    (∀ n, (r.step b (.peek n)).1.delivered = r.delivered ∧ ∀ res, (r.step b (.peek n)).2 = .ok res →
      ∃ bs, res = .bytes bs ∧ bs.length = n.toNat ∧ bs = seg r.src.stream r.delivered.length bs.length ∧
        bs = (r.step b (.peek n)).1.q.flushedBytes.take bs.length) ∧
    r.step b .release = (r, .ok .unit) ∧ r.step b .len = (r, .ok (.num r.q.len)) ∧
    (∀ op e, (r.step b op).2 = .fail e → (r.step b op).1.delivered = r.delivered) :=
  ⟨(step_next hr b · |>.2), (step_readBinary hr b · |>.2), (step_readByte hr b).2, (step_until hr b · |>.2),
   (step_skip hr b · |>.2), (step_peek hr b · |>.2), step_release hr b, step_len hr b,
   fun op => (step_ok hr b op).2.2.2⟩

/-- non-vacuity: reads of 2, 0, 3 bytes then 2 bytes with io.EOF. `Next(4)` returns stream bytes 0..3, `Peek(1)` shows
byte 4 without consuming, `ReadByte` takes it, `Until` takes up to the delimiter, `Skip(1)` fails with ErrEOF. -/
example :
    let r₀ := ({ src := { stream := fun i => 10 + i, script := [(2, .none), (0, .none), (3, .none), (2, .eof)] } } : ZCReader Nat)
    let r₁ := (r₀.step 4 (.next 4)).1
    let r₂ := (r₁.step 4 (.peek 1)).1
    let r₃ := (r₂.step 4 .readByte).1
    (r₀.step 4 (.next 4)).2 = .ok (.bytes [10, 11, 12, 13]) ∧ (r₁.step 4 (.peek 1)).2 = .ok (.bytes [14]) ∧
    (r₂.step 4 .readByte).2 = .ok (.bytes [14]) ∧ r₃.delivered = [10, 11, 12, 13, 14] ∧
    (r₃.step 4 (.skip 1)).2 = .fail .eof ∧ ((r₃.step 4 (.skip 1)).1.step 4 (.until 16)).2 = .ok (.bytes [15, 16]) := by
  decide

/-! ## 3. reader: the source's error is surfaced, the bytes that came with it stay readable -/

/-- the error table: io.EOF ↦ ErrEOF, any other error ↦ itself, negative count with nil error ↦ "negative count",
otherwise no error (whatever the count) -/
theorem C16_error_mapping (k : Int) :
    errOf (k, .eof) = some .eof ∧ errOf (k, .other) = some .src ∧
    (k < 0 → errOf (k, .none) = some .negative) ∧ (0 ≤ k → errOf (k, .none) = none) := by
  refine ⟨rfl, rfl, ?_, ?_⟩ <;> intro h <;> simp [errOf] <;> omega

/-- `waitRead(n)` in a state satisfying the invariant. Either `n` bytes are already buffered and the source is not
called at all; or it makes the source calls `pre ++ [last]` – the next entries of the script, an exhausted script
answering `(0, io.EOF)` – where every call in `pre` is error-free and the call returns exactly the error of `last`
(none only if `n` bytes are now buffered).  In every case nothing is handed out, the invariant still holds, and every
byte those calls returned – including the bytes that came together with the error – has been appended, in order, to
the readable buffer. -/
theorem C16_error_surfaced [Inhabited α] {r : ZCReader α} (hr : RGood r) (b : Nat) (n : Int) :
    let out := r.waitRead b (fuelOf r) n
    RGood out.1 ∧ out.1.delivered = r.delivered ∧ out.1.src.stream = r.src.stream ∧
    (((r.q.len : Int) ≥ n ∧ out = (r, none)) ∨
     ((r.q.len : Int) < n ∧ ∃ pre last, (pre ++ [last]) <+: r.src.script ++ [(0, .eof)] ∧
        out.1.src.script = r.src.script.drop (pre.length + 1) ∧
        (∀ p ∈ pre, errOf p = none) ∧ out.2 = errOf last ∧ (errOf last = none → (out.1.q.len : Int) ≥ n) ∧
        out.1.src.pos = r.src.pos + ((pre ++ [last]).map (gotOf b)).sum ∧
        out.1.q.flushedBytes = r.q.flushedBytes ++ seg r.src.stream r.src.pos ((pre ++ [last]).map (gotOf b)).sum)) := by
  intro out
  obtain ⟨g, hd, hs, hcase⟩ := waitRead_spec b n (fuelOf r) r hr (Nat.le_refl _)
  refine ⟨g, hd, hs, ?_⟩
  rcases hcase with h | ⟨hlt, pre, last, h1, h2, h3, h4, h5, h6⟩
  · exact Or.inl h
  · refine Or.inr ⟨hlt, pre, last, h1, h2, h3, h4, h5, h6, ?_⟩
    have e1 := g.stream
    have e2 := hr.stream
    rw [Src.pulled] at e1 e2
    rw [hs, h6, range_map_add, ← e2, hd, List.append_assoc] at e1
    exact List.append_cancel_left e1

/-- the five calls that wait return the error `waitRead` reports -/
theorem C16_error_surfaced_call [Inhabited α] (r : ZCReader α) (b : Nat) (n : Int) (e : AErr)
    (h : (r.waitRead b (fuelOf r) n).2 = some e) :
    r.step b (.next n) = ((r.waitRead b (fuelOf r) n).1, .fail e) ∧
    r.step b (.peek n) = ((r.waitRead b (fuelOf r) n).1, .fail e) ∧
    r.step b (.skip n) = ((r.waitRead b (fuelOf r) n).1, .fail e) ∧
    r.step b (.readBinary n) = ((r.waitRead b (fuelOf r) n).1, .fail e) ∧
    (n = 1 → r.step b .readByte = ((r.waitRead b (fuelOf r) n).1, .fail e)) := by
  cases hw : r.waitRead b (fuelOf r) n with
  | mk r1 res =>
    rw [hw] at h
    simp only at h
    subst h
    refine ⟨?_, ?_, ?_, ?_, ?_⟩
    · simp only [ZCReader.step, waitReadLoop_eq, hw]
    · simp only [ZCReader.step, waitReadLoop_eq, hw]
    · simp only [ZCReader.step, waitReadLoop_eq, hw]
    · simp only [ZCReader.step, waitReadLoop_eq, hw]
    · intro h1; subst h1; simp only [ZCReader.step, waitReadLoop_eq, hw]

/-- non-vacuity: `Next(6)` over reads of 3, 0, then 2 bytes *together with* io.EOF: the call fails with ErrEOF,
nothing was delivered, all 5 bytes (including the 2 that came with the EOF) are readable; `Next(2)` on a full-enough
buffer does not touch the source. -/
example :
    let r₀ := ({ src := { stream := fun i => 10 + i, script := [(3, .none), (0, .none), (2, .eof)] } } : ZCReader Nat)
    (r₀.waitRead 4 (fuelOf r₀) 6).2 = some .eof ∧ (r₀.waitRead 4 (fuelOf r₀) 6).1.q.flushedBytes = [10, 11, 12, 13, 14] ∧
    (r₀.waitRead 4 (fuelOf r₀) 6).1.delivered = [] ∧
    ((r₀.waitRead 4 (fuelOf r₀) 6).1.waitRead 4 1 2).1.src.pos = 5 ∧
    (({ src := { stream := fun i => 10 + i, script := [(-1, .none)] } } : ZCReader Nat).waitRead 4 2 1).2 = some .negative := by
  decide

/-! ## 4. `fuelOf` rounds suffice -/

/-- `waitRead` with `script.length + 1` rounds of fuel never stops for lack of fuel: it returns an error or `n` bytes
are buffered – and more fuel changes nothing (so the model's bounded loop is Go's unbounded `for buf.Len() < n`). No
hypothesis on the state. -/
theorem C16_fuel_sufficient [Inhabited α] (r : ZCReader α) (b : Nat) (n : Int) :
    ((r.waitRead b (fuelOf r) n).2 ≠ none ∨ ((r.waitRead b (fuelOf r) n).1.q.len : Int) ≥ n) ∧
    ∀ fuel, fuelOf r ≤ fuel → r.waitRead b fuel n = r.waitRead b (fuelOf r) n :=
  ⟨waitRead_enough b n (fuelOf r) r (Nat.le_refl _),
   fun fuel h => waitRead_fuel_indep b n fuel (fuelOf r) r h (Nat.le_refl _)⟩

example :
    let r₀ := ({ src := { stream := fun i => i, script := [(1, .none), (0, .none), (0, .none), (1, .none)] } } : ZCReader Nat)
    (r₀.waitRead 4 (fuelOf r₀) 2).2 = none ∧ (r₀.waitRead 4 (fuelOf r₀) 2).1.q.len = 2 ∧
    (r₀.waitRead 4 3 2).1.q.len = 1 := by   -- 3 rounds are not enough here, 5 = fuelOf are
  decide

/-! ## 4b. the cycle bound of `fill` is invisible: `waitRead` re-arms it -/

/-- `waitRead` as the code writes it - `for buf.Len() < n { err = fill(n); … }` around a `fill` that makes at most
`cycle` source reads per call - returns exactly what the flat loop of sections 3 and 4 returns, for every cycle bound
`≥ 1`, every state, every request and every script (so also for scripts with more consecutive tiny / zero-byte reads
than one `fill` makes): a request is never failed, and never answered short, because `fill` gave up. -/
theorem C16_cycle_bound_invisible [Inhabited α] (r : ZCReader α) (b cycle : Nat) (hc : 1 ≤ cycle) (n : Int)
    (fuel : Nat) (hf : fuelOf r ≤ fuel) :
    r.waitReadLoop b cycle fuel n = r.waitRead b (fuelOf r) n :=
  waitReadLoop_eq_of_fuel b cycle hc n fuel r hf

/-- … in particular with the bound the code has (`Gen.c_maxReadCycle` is regenerated from `maxReadCycle`), which is
what the reader calls of the model (`ZCReader.step`) run. -/
theorem C16_waitRead_as_written [Inhabited α] (r : ZCReader α) (b : Nat) (n : Int) :
    r.waitReadLoop b Netpoll.Gen.c_maxReadCycle (fuelOf r) n = r.waitRead b (fuelOf r) n ∧
    r.step b (.next n) = (match r.waitRead b (fuelOf r) n with
      | (r1, some e) => (r1, .fail e)
      | (r1, none) => r1.bufOp (.next n) true) :=
  ⟨waitReadLoop_eq b r n, by rw [ZCReader.step, waitReadLoop_eq]; rfl⟩

/-- non-vacuity, and why the outer loop is needed: a source delivering one byte per read and a request of
`maxReadCycle + 1` bytes. One `fill` returns nil with only `maxReadCycle` bytes buffered (a `waitRead` that called it
once would let `Next` fail with the buffer's own error although the source never erred); the loop buffers them all. -/
example :
    let r₀ := ({ src := { stream := fun i => i, script := List.replicate 20 (1, .none) } } : ZCReader Nat)
    Netpoll.Gen.c_maxReadCycle = 16 ∧
    (r₀.fill 2 Netpoll.Gen.c_maxReadCycle 17).2 = none ∧ (r₀.fill 2 Netpoll.Gen.c_maxReadCycle 17).1.q.len = 16 ∧
    (r₀.waitReadLoop 2 Netpoll.Gen.c_maxReadCycle (fuelOf r₀) 17).2 = none ∧
    (r₀.waitReadLoop 2 Netpoll.Gen.c_maxReadCycle (fuelOf r₀) 17).1.q.len = 17 ∧
    (r₀.step 2 (.next 17)).2 = .ok (.bytes (List.range 17)) := by
  decide

/-! ## 5. writer -/

omit [DecidableEq α] in
theorem C16_writer_init (script : List (Nat × IOErr)) : WGood ({ sink := { script := script } } : ZCWriter α) :=
  WGood.init script

/-- one in-contract Writer call keeps the invariant and acts on (flushed stream, pending bytes) as the interface says.
`WContract` holds the legitimate caller obligations of the C01 `Contract`: `n ≤ MallocLen()` for `MallocAck n`,
`d.length = n.toNat` for the data written into `Malloc n`'s slice, `len(p) ≤ cap(p)` for `WriteBinary p`. -/
theorem C16_writer_step {w : ZCWriter α} (hw : WGood w) (op : WOp α) (hc : WContract w op) :
    WGood (w.step op).1 ∧
    ((w.step op).1.submitted, (w.step op).1.q.pendingBytes) = wspec (w.submitted, w.q.pendingBytes) op :=
  wstep_ok hw op hc

/-- For every sink (any pattern of short writes and errors) and every in-contract sequence of Writer calls
(`WInContract`: the caller-side clauses of the C01 `Contract`, see `C16_writer_step`), at every point: what the sink has received followed by what is flushed-and-still-buffered is exactly the stream the caller has
flushed so far (`(ops.foldl wspec _).1`, a function of the calls alone) – so across successive Flushes the sink gets
that stream once and in order; the pending entries are exactly what was written since the last Flush; flushed entries
precede pending ones; and every LinkBuffer call was inside the C01 contract. -/
theorem C16_writer_stream (script : List (Nat × IOErr)) (ops : List (WOp α))
    (hc : WInContract ({ sink := { script := script } } : ZCWriter α) ops) :
    let w := ({ sink := { script := script } } : ZCWriter α).run ops
    let spec := ops.foldl wspec (([] : List α), ([] : List α))
    w.sink.got ++ w.q.flushedBytes = spec.1 ∧ w.q.pendingBytes = spec.2 ∧ w.submitted = spec.1 ∧
    w.q.items = w.q.flushedBytes.map (·, true) ++ w.q.pendingBytes.map (·, false) ∧ w.inC = true := by
  intro w spec
  obtain ⟨g, hsp⟩ := wrun_ok ops _ (WGood.init script) hc
  have h1 : w.submitted = spec.1 := congrArg Prod.fst hsp
  have h2 : w.q.pendingBytes = spec.2 := congrArg Prod.snd hsp
  exact ⟨by rw [← h1]; exact g.stream, h2, h1, g.shape, g.inC⟩

/-- One `Flush`: the sink is offered everything flushed and not yet accepted (old remainder ++ newly flushed); the `n`
bytes it accepts (any `n ≤` offered, with or without an error) move from the buffer to the sink, the rest stays
readable for the next Flush; if it accepts everything the buffer is empty afterwards; the sink's error is returned. -/
theorem C16_writer_flush {w : ZCWriter α} (hw : WGood w) :
    let offered := w.q.flushedBytes ++ w.q.pendingBytes
    let n := (w.sink.write offered).1.1
    let w' := (w.step .flush).1
    WGood w' ∧ n ≤ offered.length ∧ w'.sink.got = w.sink.got ++ offered.take n ∧ w'.q.flushedBytes = offered.drop n ∧
      w'.q.pendingBytes = [] ∧ w'.submitted = w.submitted ++ w.q.pendingBytes ∧ (n = offered.length → w'.q.len = 0) ∧
      (w.step .flush).2 = (match (w.sink.write offered).1.2 with | .none => .ok .unit | _ => .fail .src) :=
  wflush_facts hw

/-- non-vacuity: sink accepts 2 bytes, then 1 byte with an error, then everything. Malloc 4 / MallocAck 3 / Flush /
WriteByte / Flush / Flush: the sink ends with the flushed stream, nothing buffered. -/
example :
    let w₀ := ({ sink := { script := [(2, .none), (1, .other)] } } : ZCWriter Nat)
    let ops : List (WOp Nat) := [.malloc 4 [1, 2, 3, 4], .mallocAck 3, .flush, .writeByte 9, .flush, .flush]
    WInContract w₀ ops ∧ (w₀.run (ops.take 3)).sink.got = [1, 2] ∧ (w₀.run (ops.take 3)).q.flushedBytes = [3] ∧
    (w₀.run (ops.take 5)).sink.got = [1, 2, 3] ∧ ((w₀.run (ops.take 4)).step .flush).2 = .fail .src ∧
    (w₀.run ops).sink.got = [1, 2, 3, 9] ∧ (w₀.run ops).q.len = 0 ∧ ops.foldl wspec ([], []) = ([1, 2, 3, 9], []) := by
  decide

/-! ## 6. ioReader / ioWriter -/

/-- `ioWriter.Write(p)` appends `p` to the readable stream and reports `len(p)`; `ioReader.Read` into a buffer of
length `l` returns the first `min l Len` readable bytes (never more than `l`), in order, and removes exactly those;
it reports io.EOF iff `l > 0` and nothing is readable. So a Write followed by a Read returns the written bytes. -/
theorem C16_io_roundtrip {q : Q α} (hq : QGood q) (p : List α) (l : Nat) :
    (QGood (ioWrite q p).1 ∧ (ioWrite q p).1.flushedBytes = q.flushedBytes ++ p ∧ (ioWrite q p).2.1 = p.length) ∧
    (QGood (ioRead q l).1 ∧ (ioRead q l).2.1 = q.flushedBytes.take l ∧
       (ioRead q l).1.flushedBytes = q.flushedBytes.drop l ∧ (ioRead q l).2.1.length ≤ l ∧
       ((ioRead q l).2.2.1 = true ↔ (0 < l ∧ q.len = 0))) ∧
    (ioRead (ioWrite q p).1 l).2.1 = (q.flushedBytes ++ p).take l ∧
    (ioRead (ioWrite ({} : Q α) p).1 p.length).2.1 = p := by
  obtain ⟨g, hfb, hn, _⟩ := ioWrite_spec hq p
  obtain ⟨g', hbs, hfb', heof, _⟩ := ioRead_spec hq l
  refine ⟨⟨g, hfb, hn⟩, ⟨g', hbs, hfb', ?_, heof⟩, ?_, ?_⟩
  · rw [hbs, List.length_take]; exact Nat.min_le_left _ _
  · rw [(ioRead_spec g l).2.1, hfb]
  · obtain ⟨g0, hfb0, _, _⟩ := ioWrite_spec (QGood.empty (α := α)) p
    rw [(ioRead_spec g0 p.length).2.1, hfb0]
    simp [Q.flushedBytes]

/-- any interleaving of Writes and Reads on one buffer: bytes read so far ++ bytes still readable = bytes written -/
theorem C16_io_stream (ops : List (IOOp α)) :
    let s := ({} : IOState α).run ops
    s.read ++ s.q.flushedBytes = s.written ∧ s.inC = true := by
  intro s
  have h0 : IOGood ({} : IOState α) := ⟨QGood.empty, by simp [Q.flushedBytes], rfl⟩
  exact (io_run_ok ops _ h0).2

example :
    let q := (ioWrite (ioWrite ({} : Q Nat) [1, 2, 3]).1 [4, 5]).1
    (ioRead q 2).2.1 = [1, 2] ∧ (ioRead (ioRead q 2).1 10).2 = ([3, 4, 5], false, true) ∧
    (ioRead (ioRead (ioRead q 2).1 10).1 1).2 = ([], true, true) ∧ (ioRead ({} : Q Nat) 0).2 = ([], false, true) := by
  decide

/-! ## 7. every LinkBuffer call the adapters make is inside the C01 contract -/

/-- `callQ` is the only place the adapters apply `specStep`, and its ghost flag is the conjunction of `Contract`
over all calls so far. -/
theorem C16_callQ_def (q : Q α) (c : Bool) (op : Op α) :
    callQ q c op = ((specStep q op).1, (specStep q op).2, c && Contract q op) := rfl

/-- For every source / sink script and every call sequence (writer: inside its own contract), every `specStep` the
adapters performed had `Contract = true` – e.g. `MallocAck num` in `fill` has `num ≤ MallocLen` because a source
never returns more than `len(p)`, `Malloc(block4k)` is filled with exactly `block4k` bytes (`pad_length`), no
adapter ever Appends (`appSinceFlush = false` is part of the invariants), and the reads see a flushed prefix. `Len()` / `MallocLen()` observations need only
a live buffer. Hence the C01 refinement theorem applies to the LinkBuffer underneath. -/
theorem C16_contract [Inhabited α] (block4k : Nat) (stream : Nat → α) (rscript : List (Int × IOErr))
    (rops : List (ROp α)) (wscript : List (Nat × IOErr)) (wops : List (WOp α))
    (hc : WInContract ({ sink := { script := wscript } } : ZCWriter α) wops) (iops : List (IOOp α)) :
    let r := ({ src := { stream := stream, script := rscript } } : ZCReader α).run block4k rops
    let w := ({ sink := { script := wscript } } : ZCWriter α).run wops
    (r.inC = true ∧ Contract r.q .len = true) ∧ (w.inC = true ∧ Contract w.q .mallocLen = true) ∧
    (({} : IOState α).run iops).inC = true := by
  intro r w
  obtain ⟨g, _, _⟩ := run_ok block4k rops _ (RGood.init stream rscript)
  obtain ⟨gw, _⟩ := wrun_ok wops _ (WGood.init wscript) hc
  exact ⟨⟨g.inC, (contract_read g.allF g.flags).2.2.2.2.2.2.2⟩, ⟨gw.inC, (contract_write gw.flags).2.2.2.2.2⟩,
    (C16_io_stream iops).2⟩

/-- the flag is not vacuous: an out-of-contract `MallocAck` (more than was malloc'ed) clears it -/
example :
    (({} : ZCWriter Nat).run [.malloc 2 [1, 2], .mallocAck 3]).inC = false ∧
    (({} : ZCWriter Nat).run [.malloc 2 [1, 2], .mallocAck 2, .flush]).inC = true := by
  decide

end Netpoll.Props.C16
