import Netpoll.Conn.FlushInvLemmas
/-
C08 – Flush completes exactly when the kernel has taken the data.
Invariant proof over `Netpoll.Conn.Flush` for every interleaving of the flushing goroutine (timed, untimed and
expired-deadline calls) with poller write events, every kernel acceptance pattern, closers, the finalizer's
`stop(flushing)` and the write timer.  The invariant `Good` is in Netpoll/Conn/FlushInv.lean, its preservation
lemmas (generated, one per action) in Netpoll/Conn/FlushInvLemmas*.lean.  The model is tied to the code by
`npdriver flush` (trace conformance of the real code under the controlled scheduler with a scripted kernel) and
Netpoll.Tie.ReadFlush (sync-operation lists).

KNOWN FINDING D9 (see known_findings.jsonl): after a Flush returned ErrWriteTimeout the poller may still
drain the buffer and leave a stale `nil` in writeTrigger; a later Flush that hits EAGAIN then returns nil
at once with data unsent.  `C08_D9_witness` proves this on the model (and corpus/C08/d09-stale-trigger-after-timeout.sched
replays it on the real code); the positive theorem therefore carries the hypothesis "no earlier write timeout
on this connection" and is named `_partial`.  `C08_D9_expired_deadline_witness` is the same finding reached through
the expired-deadline branch of waitFlush, which returns ErrWriteTimeout without even removing the write interest.
-/
namespace Netpoll.Props.C08
open Netpoll.Conn.Flush

/-- **C08_accounting.** In every interleaving and for every kernel acceptance pattern, what the kernel has
accepted plus what is still buffered is exactly what the Flush calls submitted: nothing is lost or sent twice
by the hand-off between the flushing goroutine and the poller. -/
theorem C08_accounting (acts : List Act) (s : S) (hr : run init acts = some s) : s.accepted + s.out = s.submitted :=
  (good_run acts init s good_init hr).acc

/-- **C08_nil_means_sent_partial.** As long as no Flush on the connection has returned ErrWriteTimeout,
every Flush that returned nil did so with the output buffer empty, i.e. (by C08_accounting) after the kernel
accepted every submitted byte.  PARTIAL: the hypothesis excludes known finding D9 (`C08_D9_witness`). -/
theorem C08_nil_means_sent_partial (acts : List Act) (s : S) (hr : run init acts = some s) (hto : s.timedOutEver = false) :
    ∀ x ∈ s.results, x.1 = .ok → x.2.1 = 0 :=
  (good_run acts init s good_init hr).r9 hto

/-- **C08_no_lost_wakeup_partial.** A parked flusher is never stranded: if the connection is still open the
descriptor is registered for writability (the poller will get the write event) or the poller is about to
trigger; if the buffer has been drained the poller is still inside that event (it will trigger) or the trigger is
in the slot; if the connection has been closed the closer's token is on its way or in the slot.
(PARTIAL: first two parts under "no earlier timeout".) -/
theorem C08_no_lost_wakeup_partial (acts : List Act) (s : S) (hr : run init acts = some s) (t : Bool) (hw : s.f = .wait t) :
    (s.timedOutEver = false → s.slot = none → (s.closing = 0 → s.interestW = true ∨ s.p = .rw2rTrig) ∧
        (s.out = 0 → s.p = .ackChk ∨ s.p = .rw2rCtl ∨ s.p = .rw2rTrig)) ∧
    (s.closing ≠ 0 → s.c = .trig ∨ s.slot ≠ none) := by
  have hg := good_run acts init s good_init hr
  refine ⟨?_, ?_⟩
  · intro hto hs
    exact hg.r7 hto t (Or.inl hw) hs
  · intro hc
    exact hg.pw (by simp [hw, preWait]) hc

/-- **C08_timer_cleanup_never_blocks**: `if !timer.Stop() { <-timer.C }` always finds the timer running or its tick;
between calls the timer is stopped and its channel empty. -/
theorem C08_timer_cleanup_never_blocks (acts : List Act) (s : S) (hr : run init acts = some s) :
    (∀ r, s.f = .stopTimer r → s.timerRunning = true ∨ s.tick = true) ∧
    (s.f = .idle → s.timerRunning = false ∧ s.tick = false) := by
  have hg := good_run acts init s good_init hr
  exact ⟨hg.st, fun hi => hg.tmr3 (by simp [hi, timedArmed])⟩

/-- **C08_concurrent_rejected**: a Flush issued while another holds `flushing` fails its `lock` and changes nothing. -/
theorem C08_concurrent_rejected (s s' : S) (h : step s .flush2 = some s') : s' = s ∧ s.flushing = 1 := by
  simp only [step] at h
  split at h
  · rename_i hc; cases h; exact ⟨rfl, hc.2⟩
  · simp at h

/-- **C08_single_flusher**: `flushing` is 1 exactly while a call is between its successful `lock(flushing)` and its
deferred unlock (so at most one goroutine is inside flush()/waitFlush()); the value 2 (finalizer) appears only after a close. -/
theorem C08_single_flusher (acts : List Act) (s : S) (hr : run init acts = some s) :
    s.flushing ≤ 2 ∧ (s.flushing = 1 ↔ preLock s.f = false) ∧ (s.flushing = 2 → s.closing ≠ 0) := by
  have hg := good_run acts init s good_init hr
  refine ⟨hg.lk0, ⟨?_, hg.lk2⟩, hg.lk3⟩
  intro h1
  cases hp : preLock s.f with
  | false => rfl
  | true => have := hg.lk1 hp; omega

/-- **C08_finalizer_waits**: the finalizer's `stop(flushing)` succeeds only while no Flush holds the lock, and from then
on no Flush can take it: the buffers are not closed under a goroutine that is inside flush()/waitFlush(). -/
theorem C08_finalizer_waits (acts : List Act) (s s' : S) (hr : run init acts = some s) (h : step s .stopF = some s') :
    preLock s.f = true ∧ s'.flushing = 2 ∧ s'.f = s.f := by
  have hg := good_run acts init s good_init hr
  simp only [step] at h
  split at h
  · rename_i hc
    cases h
    refine ⟨?_, rfl, rfl⟩
    cases hp : preLock s.f with
    | true => rfl
    | false => have := hg.lk2 hp; omega
  · simp at h

/-- **Witness of known finding D9.** Flush #1 (timed) hits EAGAIN, registers for writability and times out while
the poller is inside its write event; the poller then drains the buffer and leaves `nil` in writeTrigger.
Flush #2 submits 5 bytes, hits EAGAIN, waits - and returns nil at once on the stale token with 5 bytes unsent. -/
theorem C08_D9_witness :
    (run init [.flush 10 true, .fstep, .fstep, .fstep, .fstep, .fsend 0, .fstep, .fstep, .fstep, .wevent, .pstep, .fire,
               .recvTick, .fstep, .fstep, .psend 10, .pstep, .pstep, .pstep, .fstep,
               .flush 5 false, .fstep, .fstep, .fstep, .fstep, .fsend 0, .fstep, .fstep, .recvSlot, .fstep]).map
      (fun s => (s.results.head?, s.out)) = some (some (.ok, 5, true), 5) := by rfl

/-- the same finding through the expired-deadline branch: ErrWriteTimeout is returned with the write interest still
registered; the poller's later write event drains and triggers; the next Flush returns nil with 5 bytes unsent. -/
theorem C08_D9_expired_deadline_witness :
    (run init [.flushX 10, .fstep, .fstep, .fstep, .fstep, .fsend 0, .fstep, .fstep, .fstep,
               .wevent, .pstep, .psend 10, .pstep, .pstep, .pstep,
               .flush 5 false, .fstep, .fstep, .fstep, .fstep, .fsend 0, .fstep, .fstep, .recvSlot, .fstep]).map
      (fun s => (s.results.head?, s.out)) = some (some (.ok, 5, true), 5) := by rfl

/-- non-vacuity: a Flush that hits EAGAIN, waits, and is completed by the poller returns nil with everything accepted;
a Flush that passed IsActive before a close + finalizer gets ErrConcurrentAccess -/
example : (run init [.flush 10 false, .fstep, .fstep, .fstep, .fstep, .fsend 3, .fstep, .fstep, .wevent, .pstep, .psend 7, .pstep, .pstep, .pstep,
    .recvSlot, .fstep]).map (fun s => (s.results.head?, s.accepted, s.timedOutEver)) = some (some (.ok, 0, false), 10, false) := by rfl
example : (run init [.flush 4 false, .fstep, .close, .cstep, .stopF, .fstep]).map (fun s => (s.results.head?, s.flushing)) =
    some (some (.errConcurrent, 0, false), 2) := by rfl

end Netpoll.Props.C08
