import Netpoll.Conn.Flush
/-
C08 – Flush completes exactly when the kernel has taken the data.
Invariant proof over `Netpoll.Conn.Flush` for every interleaving of the flushing goroutine with poller write
events, every kernel acceptance pattern, closers and the write timer.

KNOWN FINDING D9 (see known_findings.jsonl): after a Flush returned ErrWriteTimeout the poller may still
drain the buffer and leave a stale `nil` in writeTrigger; a later Flush that hits EAGAIN then returns nil
at once with data unsent.  `C08_D9_witness` proves this on the model; the positive theorem therefore
carries the hypothesis "no earlier write timeout on this connection" and is named `_partial`.
-/
namespace Netpoll.Props.C08
open Netpoll.Conn.Flush

/-- the flusher is parked or about to park / leave the wait (it holds `flushing`, interest may be RW) -/
def inCycle : FPc → Bool
  | .arm | .wait _ | .tmoRecv | .tmoRw2r | .stopTimer _ | .unlock _ => true
  | _ => false

def timedArmed : FPc → Bool
  | .wait true | .stopTimer _ => true
  | _ => false

/-- no Flush call is past its IsActive check -/
def quiet : FPc → Bool
  | .idle | .chkActive _ _ => true
  | _ => false

/-- the call has passed its IsActive check and has not yet taken anything from the trigger slot -/
def preWait : FPc → Bool
  | .lock _ _ | .submit _ _ | .chkEmpty1 _ | .send _ | .chkEmpty2 _ | .r2rw _ | .arm | .wait _ => true
  | _ => false

def Good (s : S) : Prop :=
  -- accounting: nothing lost, nothing twice
  (s.accepted + s.out = s.submitted) ∧
  -- timer discipline
  (¬ (s.timerRunning = true ∧ s.tick = true)) ∧
  (timedArmed s.f = true → (s.timerRunning = true ∨ s.tick = true)) ∧
  (timedArmed s.f = false → s.timerRunning = false ∧ s.tick = false) ∧
  -- the lock
  (s.flushing ≤ 1) ∧
  ((s.f = .idle ∨ (∃ a t, s.f = .chkActive a t) ∨ (∃ a t, s.f = .lock a t)) → s.flushing = 0) ∧
  ((¬ (s.f = .idle ∨ (∃ a t, s.f = .chkActive a t) ∨ (∃ a t, s.f = .lock a t))) → s.flushing = 1) ∧
  (s.c = .trig → s.closing = 1) ∧ (s.slot = some .errClosed → s.closing = 1) ∧ (s.closing ≤ 1) ∧
  -- as long as no Flush has ever timed out:
  (s.timedOutEver = false →
     -- the poller works on this connection's output only inside a wait cycle of the flusher
     -- (or, once the connection is closed, after the flusher was woken by the close)
     ((s.interestW = true ∨ s.p ≠ .idle) → inCycle s.f = true ∨ (s.closing ≠ 0 ∧ quiet s.f = true)) ∧
     ((s.p = .rw2rCtl ∨ s.p = .rw2rTrig) → s.out = 0) ∧
     (s.p = .rw2rTrig → s.interestW = false) ∧
     ((s.p = .outputs ∨ s.p = .sendAck) → (s.f = .arm ∨ (∃ t, s.f = .wait t)) → s.interestW = true) ∧
     (s.slot = some .done → s.out = 0 ∧ s.p = .idle ∧ s.interestW = false ∧ (inCycle s.f = true ∨ (s.closing ≠ 0 ∧ quiet s.f = true))) ∧
     (∀ t, s.f = .r2rw t → s.out > 0) ∧
     -- NO LOST WAKE-UP: a parked flusher always has a drain, a token or a closer coming
     (∀ t, (s.f = .wait t ∨ (s.f = .arm ∧ t = true)) → s.slot = none →
        (s.closing = 0 → s.interestW = true ∨ s.p = .rw2rTrig) ∧ (s.out = 0 → s.p = .rw2rCtl ∨ s.p = .rw2rTrig)) ∧
     -- pending and past results are right
     (∀ r, (s.f = .unlock r ∨ s.f = .stopTimer r) →
        (r = .ok → s.out = 0 ∧ s.p = .idle ∧ s.interestW = false ∧ s.slot ≠ some .done) ∧ (r = .errClosed → s.closing ≠ 0) ∧ r ≠ .errConcurrent) ∧
     (∀ x ∈ s.results, x.1 = .ok → x.2.1 = 0)) ∧
  (preWait s.f = true → s.closing ≠ 0 → s.c = .trig ∨ s.slot ≠ none) ∧
  (∀ r, s.f = .stopTimer r → s.timerRunning = true ∨ s.tick = true)

theorem good_init : Good init := by
  simp [Good, init, inCycle, timedArmed, quiet, preWait]

/-- the step that ends a call (isolated: the generic tactic above needs help here) -/
theorem good_finish (s : S) (r : Result) (h : Good s) (hf : s.f = .unlock r) : Good (finish s r) := by
  obtain ⟨out, accepted, submitted, interestW, slot, flushing, closing, timerRunning, tick, f, p, c, timedOutEver, results, sat⟩ := s
  simp only at hf
  subst hf
  cases r <;> simp only [finish, Good, inCycle, timedArmed, quiet, preWait] at * <;> grind

theorem good_step_flush (s s' : S) (add : Nat) (timed : Bool) (h : Good s) (hs : step s (.flush add timed) = some s') : Good s' := by
  obtain ⟨out, accepted, submitted, interestW, slot, flushing, closing, timerRunning, tick, f, p, c, timedOutEver, results, sat⟩ := s
  simp only [step, trySend] at hs <;> (repeat' split at hs) <;> (try cases hs) <;>
    (try (exact good_finish _ _ h rfl)) <;>
    (try (simp only [Good, inCycle, timedArmed, quiet, preWait] at *
          refine ⟨by grind, by grind, by grind, by grind, by grind, by grind, by grind, by grind, by grind, by grind, ?_, by grind, by grind⟩
          intro ht
          have h11 := h.2.2.2.2.2.2.2.2.2.2.1
          refine ⟨by grind, by grind, by grind, by grind, by grind, by grind, by grind, by grind, by grind⟩))

theorem good_step_flush2 (s s' : S)  (h : Good s) (hs : step s (.flush2) = some s') : Good s' := by
  obtain ⟨out, accepted, submitted, interestW, slot, flushing, closing, timerRunning, tick, f, p, c, timedOutEver, results, sat⟩ := s
  simp only [step, trySend] at hs <;> (repeat' split at hs) <;> (try cases hs) <;>
    (try (exact good_finish _ _ h rfl)) <;>
    (try (simp only [Good, inCycle, timedArmed, quiet, preWait] at *
          refine ⟨by grind, by grind, by grind, by grind, by grind, by grind, by grind, by grind, by grind, by grind, ?_, by grind, by grind⟩
          intro ht
          have h11 := h.2.2.2.2.2.2.2.2.2.2.1
          refine ⟨by grind, by grind, by grind, by grind, by grind, by grind, by grind, by grind, by grind⟩))

theorem fstep_chkActive (s s' : S) (add : Nat) (timed : Bool) (h : Good s) (hf : s.f = .chkActive add timed) (hs : step s .fstep = some s') : Good s' := by
  obtain ⟨out, accepted, submitted, interestW, slot, flushing, closing, timerRunning, tick, f, p, c, timedOutEver, results, sat⟩ := s
  simp only at hf
  subst hf
  simp only [step] at hs <;> (repeat' split at hs) <;> (try cases hs) <;>
    (try (exact good_finish _ _ h rfl)) <;>
    (try (simp only [Good, inCycle, timedArmed, quiet, preWait] at *
          refine ⟨by grind, by grind, by grind, by grind, by grind, by grind, by grind, by grind, by grind, by grind, ?_, by grind, by grind⟩
          intro ht
          have h11 := h.2.2.2.2.2.2.2.2.2.2.1
          refine ⟨by grind, by grind, by grind, by grind, by grind, by grind, by grind, by grind, by grind⟩))

theorem fstep_lock (s s' : S) (add : Nat) (timed : Bool) (h : Good s) (hf : s.f = .lock add timed) (hs : step s .fstep = some s') : Good s' := by
  obtain ⟨out, accepted, submitted, interestW, slot, flushing, closing, timerRunning, tick, f, p, c, timedOutEver, results, sat⟩ := s
  simp only at hf
  subst hf
  simp only [step] at hs <;> (repeat' split at hs) <;> (try cases hs) <;>
    (try (exact good_finish _ _ h rfl)) <;>
    (try (simp only [Good, inCycle, timedArmed, quiet, preWait] at *
          refine ⟨by grind, by grind, by grind, by grind, by grind, by grind, by grind, by grind, by grind, by grind, ?_, by grind, by grind⟩
          intro ht
          have h11 := h.2.2.2.2.2.2.2.2.2.2.1
          refine ⟨by grind, by grind, by grind, by grind, by grind, by grind, by grind, by grind, by grind⟩))

theorem fstep_submit (s s' : S) (add : Nat) (timed : Bool) (h : Good s) (hf : s.f = .submit add timed) (hs : step s .fstep = some s') : Good s' := by
  obtain ⟨out, accepted, submitted, interestW, slot, flushing, closing, timerRunning, tick, f, p, c, timedOutEver, results, sat⟩ := s
  simp only at hf
  subst hf
  simp only [step] at hs <;> (repeat' split at hs) <;> (try cases hs) <;>
    (try (exact good_finish _ _ h rfl)) <;>
    (try (simp only [Good, inCycle, timedArmed, quiet, preWait] at *
          refine ⟨by grind, by grind, by grind, by grind, by grind, by grind, by grind, by grind, by grind, by grind, ?_, by grind, by grind⟩
          intro ht
          have h11 := h.2.2.2.2.2.2.2.2.2.2.1
          refine ⟨by grind, by grind, by grind, by grind, by grind, by grind, by grind, by grind, by grind⟩))

theorem fstep_chkEmpty1 (s s' : S) (timed : Bool) (h : Good s) (hf : s.f = .chkEmpty1 timed) (hs : step s .fstep = some s') : Good s' := by
  obtain ⟨out, accepted, submitted, interestW, slot, flushing, closing, timerRunning, tick, f, p, c, timedOutEver, results, sat⟩ := s
  simp only at hf
  subst hf
  simp only [step] at hs <;> (repeat' split at hs) <;> (try cases hs) <;>
    (try (exact good_finish _ _ h rfl)) <;>
    (try (simp only [Good, inCycle, timedArmed, quiet, preWait] at *
          refine ⟨by grind, by grind, by grind, by grind, by grind, by grind, by grind, by grind, by grind, by grind, ?_, by grind, by grind⟩
          intro ht
          have h11 := h.2.2.2.2.2.2.2.2.2.2.1
          refine ⟨by grind, by grind, by grind, by grind, by grind, by grind, by grind, by grind, by grind⟩))

theorem fstep_chkEmpty2 (s s' : S) (timed : Bool) (h : Good s) (hf : s.f = .chkEmpty2 timed) (hs : step s .fstep = some s') : Good s' := by
  obtain ⟨out, accepted, submitted, interestW, slot, flushing, closing, timerRunning, tick, f, p, c, timedOutEver, results, sat⟩ := s
  simp only at hf
  subst hf
  simp only [step] at hs <;> (repeat' split at hs) <;> (try cases hs) <;>
    (try (exact good_finish _ _ h rfl)) <;>
    (try (simp only [Good, inCycle, timedArmed, quiet, preWait] at *
          refine ⟨by grind, by grind, by grind, by grind, by grind, by grind, by grind, by grind, by grind, by grind, ?_, by grind, by grind⟩
          intro ht
          have h11 := h.2.2.2.2.2.2.2.2.2.2.1
          refine ⟨by grind, by grind, by grind, by grind, by grind, by grind, by grind, by grind, by grind⟩))

theorem fstep_r2rw (s s' : S) (timed : Bool) (h : Good s) (hf : s.f = .r2rw timed) (hs : step s .fstep = some s') : Good s' := by
  obtain ⟨out, accepted, submitted, interestW, slot, flushing, closing, timerRunning, tick, f, p, c, timedOutEver, results, sat⟩ := s
  simp only at hf
  subst hf
  simp only [step] at hs <;> (repeat' split at hs) <;> (try cases hs) <;>
    (try (exact good_finish _ _ h rfl)) <;>
    (try (simp only [Good, inCycle, timedArmed, quiet, preWait] at *
          refine ⟨by grind, by grind, by grind, by grind, by grind, by grind, by grind, by grind, by grind, by grind, ?_, by grind, by grind⟩
          intro ht
          have h11 := h.2.2.2.2.2.2.2.2.2.2.1
          refine ⟨by grind, by grind, by grind, by grind, by grind, by grind, by grind, by grind, by grind⟩))

theorem fstep_arm (s s' : S)  (h : Good s) (hf : s.f = .arm) (hs : step s .fstep = some s') : Good s' := by
  obtain ⟨out, accepted, submitted, interestW, slot, flushing, closing, timerRunning, tick, f, p, c, timedOutEver, results, sat⟩ := s
  simp only at hf
  subst hf
  simp only [step] at hs <;> (repeat' split at hs) <;> (try cases hs) <;>
    (try (exact good_finish _ _ h rfl)) <;>
    (try (simp only [Good, inCycle, timedArmed, quiet, preWait] at *
          refine ⟨by grind, by grind, by grind, by grind, by grind, by grind, by grind, by grind, by grind, by grind, ?_, by grind, by grind⟩
          intro ht
          have h11 := h.2.2.2.2.2.2.2.2.2.2.1
          refine ⟨by grind, by grind, by grind, by grind, by grind, by grind, by grind, by grind, by grind⟩))

theorem fstep_tmoRecv (s s' : S)  (h : Good s) (hf : s.f = .tmoRecv) (hs : step s .fstep = some s') : Good s' := by
  obtain ⟨out, accepted, submitted, interestW, slot, flushing, closing, timerRunning, tick, f, p, c, timedOutEver, results, sat⟩ := s
  simp only at hf
  subst hf
  simp only [step] at hs <;> (repeat' split at hs) <;> (try cases hs) <;>
    (try (exact good_finish _ _ h rfl)) <;>
    (try (simp only [Good, inCycle, timedArmed, quiet, preWait] at *
          refine ⟨by grind, by grind, by grind, by grind, by grind, by grind, by grind, by grind, by grind, by grind, ?_, by grind, by grind⟩
          intro ht
          have h11 := h.2.2.2.2.2.2.2.2.2.2.1
          refine ⟨by grind, by grind, by grind, by grind, by grind, by grind, by grind, by grind, by grind⟩))

theorem fstep_tmoRw2r (s s' : S)  (h : Good s) (hf : s.f = .tmoRw2r) (hs : step s .fstep = some s') : Good s' := by
  obtain ⟨out, accepted, submitted, interestW, slot, flushing, closing, timerRunning, tick, f, p, c, timedOutEver, results, sat⟩ := s
  simp only at hf
  subst hf
  simp only [step] at hs <;> (repeat' split at hs) <;> (try cases hs) <;>
    (try (exact good_finish _ _ h rfl)) <;>
    (try (simp only [Good, inCycle, timedArmed, quiet, preWait] at *
          refine ⟨by grind, by grind, by grind, by grind, by grind, by grind, by grind, by grind, by grind, by grind, ?_, by grind, by grind⟩
          intro ht
          have h11 := h.2.2.2.2.2.2.2.2.2.2.1
          refine ⟨by grind, by grind, by grind, by grind, by grind, by grind, by grind, by grind, by grind⟩))

theorem fstep_stopTimer (s s' : S) (r : Result) (h : Good s) (hf : s.f = .stopTimer r) (hs : step s .fstep = some s') : Good s' := by
  obtain ⟨out, accepted, submitted, interestW, slot, flushing, closing, timerRunning, tick, f, p, c, timedOutEver, results, sat⟩ := s
  simp only at hf
  subst hf
  simp only [step] at hs <;> (repeat' split at hs) <;> (try cases hs) <;>
    (try (exact good_finish _ _ h rfl)) <;>
    (try (simp only [Good, inCycle, timedArmed, quiet, preWait] at *
          refine ⟨by grind, by grind, by grind, by grind, by grind, by grind, by grind, by grind, by grind, by grind, ?_, by grind, by grind⟩
          intro ht
          have h11 := h.2.2.2.2.2.2.2.2.2.2.1
          refine ⟨by grind, by grind, by grind, by grind, by grind, by grind, by grind, by grind, by grind⟩))

theorem fstep_unlock (s s' : S) (r : Result) (h : Good s) (hf : s.f = .unlock r) (hs : step s .fstep = some s') : Good s' := by
  obtain ⟨out, accepted, submitted, interestW, slot, flushing, closing, timerRunning, tick, f, p, c, timedOutEver, results, sat⟩ := s
  simp only at hf
  subst hf
  simp only [step] at hs <;> (repeat' split at hs) <;> (try cases hs) <;>
    (try (exact good_finish _ _ h rfl)) <;>
    (try (simp only [Good, inCycle, timedArmed, quiet, preWait] at *
          refine ⟨by grind, by grind, by grind, by grind, by grind, by grind, by grind, by grind, by grind, by grind, ?_, by grind, by grind⟩
          intro ht
          have h11 := h.2.2.2.2.2.2.2.2.2.2.1
          refine ⟨by grind, by grind, by grind, by grind, by grind, by grind, by grind, by grind, by grind⟩))

theorem good_step_fstep (s s' : S) (h : Good s) (hs : step s .fstep = some s') : Good s' := by
  cases hf : s.f with
  | idle => simp [step, hf] at hs
  | send t => simp [step, hf] at hs
  | wait t => simp [step, hf] at hs
  | chkActive add timed => exact fstep_chkActive s s' add timed h hf hs
  | lock add timed => exact fstep_lock s s' add timed h hf hs
  | submit add timed => exact fstep_submit s s' add timed h hf hs
  | chkEmpty1 timed => exact fstep_chkEmpty1 s s' timed h hf hs
  | chkEmpty2 timed => exact fstep_chkEmpty2 s s' timed h hf hs
  | r2rw timed => exact fstep_r2rw s s' timed h hf hs
  | arm => exact fstep_arm s s' h hf hs
  | tmoRecv => exact fstep_tmoRecv s s' h hf hs
  | tmoRw2r => exact fstep_tmoRw2r s s' h hf hs
  | stopTimer r => exact fstep_stopTimer s s' r h hf hs
  | unlock r => exact fstep_unlock s s' r h hf hs

theorem good_step_fsend (s s' : S) (k : Nat) (h : Good s) (hs : step s (.fsend k) = some s') : Good s' := by
  obtain ⟨out, accepted, submitted, interestW, slot, flushing, closing, timerRunning, tick, f, p, c, timedOutEver, results, sat⟩ := s
  simp only [step, trySend] at hs <;> (repeat' split at hs) <;> (try cases hs) <;>
    (try (exact good_finish _ _ h rfl)) <;>
    (try (simp only [Good, inCycle, timedArmed, quiet, preWait] at *
          refine ⟨by grind, by grind, by grind, by grind, by grind, by grind, by grind, by grind, by grind, by grind, ?_, by grind, by grind⟩
          intro ht
          have h11 := h.2.2.2.2.2.2.2.2.2.2.1
          refine ⟨by grind, by grind, by grind, by grind, by grind, by grind, by grind, by grind, by grind⟩))

theorem good_step_recvSlot (s s' : S)  (h : Good s) (hs : step s (.recvSlot) = some s') : Good s' := by
  obtain ⟨out, accepted, submitted, interestW, slot, flushing, closing, timerRunning, tick, f, p, c, timedOutEver, results, sat⟩ := s
  simp only [step, trySend] at hs <;> (repeat' split at hs) <;> (try cases hs) <;>
    (try (exact good_finish _ _ h rfl)) <;>
    (try (simp only [Good, inCycle, timedArmed, quiet, preWait] at *
          refine ⟨by grind, by grind, by grind, by grind, by grind, by grind, by grind, by grind, by grind, by grind, ?_, by grind, by grind⟩
          intro ht
          have h11 := h.2.2.2.2.2.2.2.2.2.2.1
          refine ⟨by grind, by grind, by grind, by grind, by grind, by grind, by grind, by grind, by grind⟩))

theorem good_step_recvTick (s s' : S)  (h : Good s) (hs : step s (.recvTick) = some s') : Good s' := by
  obtain ⟨out, accepted, submitted, interestW, slot, flushing, closing, timerRunning, tick, f, p, c, timedOutEver, results, sat⟩ := s
  simp only [step, trySend] at hs <;> (repeat' split at hs) <;> (try cases hs) <;>
    (try (exact good_finish _ _ h rfl)) <;>
    (try (simp only [Good, inCycle, timedArmed, quiet, preWait] at *
          refine ⟨by grind, by grind, by grind, by grind, by grind, by grind, by grind, by grind, by grind, by grind, ?_, by grind, by grind⟩
          intro ht
          have h11 := h.2.2.2.2.2.2.2.2.2.2.1
          refine ⟨by grind, by grind, by grind, by grind, by grind, by grind, by grind, by grind, by grind⟩))

theorem good_step_wevent (s s' : S)  (h : Good s) (hs : step s (.wevent) = some s') : Good s' := by
  obtain ⟨out, accepted, submitted, interestW, slot, flushing, closing, timerRunning, tick, f, p, c, timedOutEver, results, sat⟩ := s
  simp only [step, trySend] at hs <;> (repeat' split at hs) <;> (try cases hs) <;>
    (try (exact good_finish _ _ h rfl)) <;>
    (try (simp only [Good, inCycle, timedArmed, quiet, preWait] at *
          refine ⟨by grind, by grind, by grind, by grind, by grind, by grind, by grind, by grind, by grind, by grind, ?_, by grind, by grind⟩
          intro ht
          have h11 := h.2.2.2.2.2.2.2.2.2.2.1
          refine ⟨by grind, by grind, by grind, by grind, by grind, by grind, by grind, by grind, by grind⟩))

theorem good_step_pstep (s s' : S)  (h : Good s) (hs : step s (.pstep) = some s') : Good s' := by
  obtain ⟨out, accepted, submitted, interestW, slot, flushing, closing, timerRunning, tick, f, p, c, timedOutEver, results, sat⟩ := s
  simp only [step, trySend] at hs <;> (repeat' split at hs) <;> (try cases hs) <;>
    (try (exact good_finish _ _ h rfl)) <;>
    (try (simp only [Good, inCycle, timedArmed, quiet, preWait] at *
          refine ⟨by grind, by grind, by grind, by grind, by grind, by grind, by grind, by grind, by grind, by grind, ?_, by grind, by grind⟩
          intro ht
          have h11 := h.2.2.2.2.2.2.2.2.2.2.1
          refine ⟨by grind, by grind, by grind, by grind, by grind, by grind, by grind, by grind, by grind⟩))

theorem good_step_psend (s s' : S) (k : Nat) (h : Good s) (hs : step s (.psend k) = some s') : Good s' := by
  obtain ⟨out, accepted, submitted, interestW, slot, flushing, closing, timerRunning, tick, f, p, c, timedOutEver, results, sat⟩ := s
  simp only [step, trySend] at hs <;> (repeat' split at hs) <;> (try cases hs) <;>
    (try (exact good_finish _ _ h rfl)) <;>
    (try (simp only [Good, inCycle, timedArmed, quiet, preWait] at *
          refine ⟨by grind, by grind, by grind, by grind, by grind, by grind, by grind, by grind, by grind, by grind, ?_, by grind, by grind⟩
          intro ht
          have h11 := h.2.2.2.2.2.2.2.2.2.2.1
          refine ⟨by grind, by grind, by grind, by grind, by grind, by grind, by grind, by grind, by grind⟩))

theorem good_step_close (s s' : S)  (h : Good s) (hs : step s (.close) = some s') : Good s' := by
  obtain ⟨out, accepted, submitted, interestW, slot, flushing, closing, timerRunning, tick, f, p, c, timedOutEver, results, sat⟩ := s
  simp only [step, trySend] at hs <;> (repeat' split at hs) <;> (try cases hs) <;>
    (try (exact good_finish _ _ h rfl)) <;>
    (try (simp only [Good, inCycle, timedArmed, quiet, preWait] at *
          refine ⟨by grind, by grind, by grind, by grind, by grind, by grind, by grind, by grind, by grind, by grind, ?_, by grind, by grind⟩
          intro ht
          have h11 := h.2.2.2.2.2.2.2.2.2.2.1
          refine ⟨by grind, by grind, by grind, by grind, by grind, by grind, by grind, by grind, by grind⟩))

theorem good_step_cstep (s s' : S)  (h : Good s) (hs : step s (.cstep) = some s') : Good s' := by
  obtain ⟨out, accepted, submitted, interestW, slot, flushing, closing, timerRunning, tick, f, p, c, timedOutEver, results, sat⟩ := s
  simp only [step, trySend] at hs <;> (repeat' split at hs) <;> (try cases hs) <;>
    (try (exact good_finish _ _ h rfl)) <;>
    (try (simp only [Good, inCycle, timedArmed, quiet, preWait] at *
          refine ⟨by grind, by grind, by grind, by grind, by grind, by grind, by grind, by grind, by grind, by grind, ?_, by grind, by grind⟩
          intro ht
          have h11 := h.2.2.2.2.2.2.2.2.2.2.1
          refine ⟨by grind, by grind, by grind, by grind, by grind, by grind, by grind, by grind, by grind⟩))

theorem good_step_fire (s s' : S)  (h : Good s) (hs : step s (.fire) = some s') : Good s' := by
  obtain ⟨out, accepted, submitted, interestW, slot, flushing, closing, timerRunning, tick, f, p, c, timedOutEver, results, sat⟩ := s
  simp only [step, trySend] at hs <;> (repeat' split at hs) <;> (try cases hs) <;>
    (try (exact good_finish _ _ h rfl)) <;>
    (try (simp only [Good, inCycle, timedArmed, quiet, preWait] at *
          refine ⟨by grind, by grind, by grind, by grind, by grind, by grind, by grind, by grind, by grind, by grind, ?_, by grind, by grind⟩
          intro ht
          have h11 := h.2.2.2.2.2.2.2.2.2.2.1
          refine ⟨by grind, by grind, by grind, by grind, by grind, by grind, by grind, by grind, by grind⟩))

theorem good_step (s s' : S) (a : Act) (h : Good s) (hs : step s a = some s') : Good s' := by
  cases a with
  | flush add timed => exact good_step_flush s s' add timed h hs
  | flush2 => exact good_step_flush2 s s' h hs
  | fstep => exact good_step_fstep s s' h hs
  | fsend k => exact good_step_fsend s s' k h hs
  | recvSlot => exact good_step_recvSlot s s' h hs
  | recvTick => exact good_step_recvTick s s' h hs
  | wevent => exact good_step_wevent s s' h hs
  | pstep => exact good_step_pstep s s' h hs
  | psend k => exact good_step_psend s s' k h hs
  | close => exact good_step_close s s' h hs
  | cstep => exact good_step_cstep s s' h hs
  | fire => exact good_step_fire s s' h hs

theorem good_run (acts : List Act) (s0 s : S) (h0 : Good s0) (hrun : run s0 acts = some s) : Good s := by
  induction acts generalizing s0 with
  | nil => simp [run] at hrun; subst hrun; exact h0
  | cons a rest ih =>
    simp only [run] at hrun
    split at hrun
    · simp at hrun
    · rename_i s1 h1
      exact ih s1 (good_step s0 s1 a h0 h1) hrun

/-- **C08_accounting.** In every interleaving and for every kernel acceptance pattern, what the kernel has
accepted plus what is still buffered is exactly what the Flush calls submitted: nothing is lost or sent twice
by the hand-off between the flushing goroutine and the poller. -/
theorem C08_accounting (acts : List Act) (s : S) (hr : run init acts = some s) : s.accepted + s.out = s.submitted :=
  (good_run acts init s good_init hr).1

/-- **C08_nil_means_sent_partial.** As long as no Flush on the connection has returned ErrWriteTimeout,
every Flush that returned nil did so with the output buffer empty, i.e. (by C08_accounting) after the kernel
accepted every submitted byte.  PARTIAL: the hypothesis excludes known finding D9 (`C08_D9_witness`). -/
theorem C08_nil_means_sent_partial (acts : List Act) (s : S) (hr : run init acts = some s) (hto : s.timedOutEver = false) :
    ∀ x ∈ s.results, x.1 = .ok → x.2.1 = 0 :=
  ((good_run acts init s good_init hr).2.2.2.2.2.2.2.2.2.2.1 hto).2.2.2.2.2.2.2.2

/-- **C08_no_lost_wakeup_partial.** A parked flusher is never stranded: if the connection is still open the
descriptor is registered for writability (the poller will get the write event) or the poller is about to
trigger; if the buffer has been drained the trigger is on its way or in the slot; if the connection has been
closed the closer's token is on its way or in the slot.  (PARTIAL: first two parts under "no earlier timeout".) -/
theorem C08_no_lost_wakeup_partial (acts : List Act) (s : S) (hr : run init acts = some s) (t : Bool) (hw : s.f = .wait t) :
    (s.timedOutEver = false → s.slot = none → (s.closing = 0 → s.interestW = true ∨ s.p = .rw2rTrig) ∧
        (s.out = 0 → s.p = .rw2rCtl ∨ s.p = .rw2rTrig)) ∧
    (s.closing ≠ 0 → s.c = .trig ∨ s.slot ≠ none) := by
  have hg := good_run acts init s good_init hr
  refine ⟨?_, ?_⟩
  · intro hto hs
    exact (hg.2.2.2.2.2.2.2.2.2.2.1 hto).2.2.2.2.2.2.1 t (Or.inl hw) hs
  · intro hc
    exact hg.2.2.2.2.2.2.2.2.2.2.2.1 (by simp [hw, preWait]) hc

/-- **C08_timer_cleanup_never_blocks**: `if !timer.Stop() { <-timer.C }` always finds the timer running or its tick. -/
theorem C08_timer_cleanup_never_blocks (acts : List Act) (s : S) (hr : run init acts = some s) (r : Result)
    (hf : s.f = .stopTimer r) : s.timerRunning = true ∨ s.tick = true :=
  (good_run acts init s good_init hr).2.2.2.2.2.2.2.2.2.2.2.2 r hf

/-- **C08_concurrent_rejected**: a Flush issued while another holds `flushing` fails its `lock` and changes nothing. -/
theorem C08_concurrent_rejected (s s' : S) (h : step s .flush2 = some s') : s' = s ∧ s.flushing = 1 := by
  simp only [step] at h
  split at h
  · rename_i hc; cases h; exact ⟨rfl, hc.2⟩
  · simp at h

/-- **C08_single_flusher**: the `flushing` word is held by exactly the goroutine inside Flush. -/
theorem C08_single_flusher (acts : List Act) (s : S) (hr : run init acts = some s) : s.flushing ≤ 1 :=
  (good_run acts init s good_init hr).2.2.2.2.1

/-- **Witness of known finding D9.** Flush #1 (timed) hits EAGAIN, registers for writability and times out while
the poller is inside its write event; the poller then drains the buffer and leaves `nil` in writeTrigger.
Flush #2 submits 5 bytes, hits EAGAIN, waits - and returns nil at once on the stale token with 5 bytes unsent. -/
theorem C08_D9_witness :
    (run init [.flush 10 true, .fstep, .fstep, .fstep, .fstep, .fsend 0, .fstep, .fstep, .fstep, .wevent, .pstep, .fire,
               .recvTick, .fstep, .fstep, .psend 10, .pstep, .pstep, .fstep,
               .flush 5 false, .fstep, .fstep, .fstep, .fstep, .fsend 0, .fstep, .fstep, .recvSlot, .fstep]).map
      (fun s => (s.results.head?, s.out)) = some (some (.ok, 5, true), 5) := by decide

/-- non-vacuity: a Flush that hits EAGAIN, waits, and is completed by the poller returns nil with everything accepted -/
example : (run init [.flush 10 false, .fstep, .fstep, .fstep, .fstep, .fsend 3, .fstep, .fstep, .wevent, .pstep, .psend 7, .pstep, .pstep,
    .recvSlot, .fstep]).map (fun s => (s.results.head?, s.accepted, s.timedOutEver)) = some (some (.ok, 0, false), 10, false) := by decide

end Netpoll.Props.C08
