import Netpoll.ManagerLemmas
import Netpoll.ManagerRes
import Netpoll.ManagerArith
import Netpoll.ManagerVariant
import Netpoll.ManagerExamples
/-!
# C18 – the poller pool always hands out a running poller of the configured size

Model: `Netpoll.Manager` (one step per atomic step of `manager.Pick` / `Run` / the balancers' `Pick`,
any number of concurrent pickers, `SetNumLoops` / `SetLoadBalance` only while no `Pick` is in flight).
`Reachable n s`: `s` is reachable from `newManager n` by any sequence of such steps.
`Clean s`: the environment injected no `openPoll` failure and no round-robin ticket ≥ 2^63 was handed
out (A-no-wrap).  Both are needed for the claims about what `Pick` returns: see the `_witness` theorems at the
end (after a failed `Run` the manager is closed and has no balancer; `Pick` cannot report an error).  The claims
about the pollers themselves – pool size, every surplus or orphaned poller closed exactly once, nothing left
behind – need neither since the fix of F2 (`C18_size`, `C18_none_left_behind`, `C18_failed_run_closes_all`).
-/
namespace Netpoll.Props.C18
open Netpoll.Manager

/-- **Pick returns a running poller.**  In every reachable state, for any number of pickers and any
interleaving: no goroutine has panicked inside `Pick`, and every poller returned in the current phase is
a member of the current slice, its loop was started and it was never closed. -/
theorem C18_running {n : Nat} (hn : 1 ≤ n) {s : S} (hr : Reachable n s) (hc : Clean s) :
    s.panics = 0 ∧ ∀ id, id ∈ s.rets → id ∈ s.polls ∧ id ∈ s.started ∧ id ∉ s.closed := by
  have h := core_reachable hn hr hc
  refine ⟨h.np, fun id hid => ?_⟩
  have h2 : s.status = 2 := h.inbal (Or.inr (Or.inr (Or.inr (List.ne_nil_of_mem hid))))
  obtain ⟨_, _, hsl, _⟩ := lock_not1 h.lock (by omega)
  have hm := h.rts id hid
  exact ⟨hm, (hsl.2.1 id hm).2.1, (hsl.2.1 id hm).2.2⟩

example : ∃ s, Reachable 2 s ∧ Clean s ∧ s.rets = [1, 0] ∧ s.cCas = 1 :=
  ⟨traceEnd 2 exRace, reachable_traceEnd 2 exRace (by decide), by decide, by decide, by decide⟩

/-- the same at the very step that returns: the step appends a poller (it does not panic), and that
poller is in the slice, started, not closed. -/
theorem C18_running_at_return {n : Nat} (hn : 1 ≤ n) {s s' : S} (hr : Reachable n s) (j : Nat)
    (hs : step s (.balIdx j) = some s') (hc : Clean s') :
    ∃ id, s'.rets = s.rets ++ [id] ∧ s'.polls = s.polls ∧ id ∈ s.polls ∧ id ∈ s.started ∧ id ∉ s.closed := by
  have hr' : Reachable n s' := Reachable.step _ hr hs
  obtain ⟨hp', hall⟩ := C18_running hn hr' hc
  have hp : s.panics = 0 := (C18_running hn hr (clean_of_step s s' _ hs hc)).1
  simp only [step] at hs
  split at hs
  · cases hs
  split at hs
  · cases hs; simp [hp] at hp'
  split at hs
  · cases hs; simp [hp] at hp'
  · rename_i id _
    cases hs
    exact ⟨id, rfl, rfl, hall id (by simp)⟩

/-- **The pool has exactly the configured size.**  Once a phase's first slow path has completed
(`status = initialized`): the slice has `numLoops` distinct members; the running loops are exactly the
members of the slice; every other poller ever opened has been closed, and no poller was closed twice;
the census of open pollers is `numLoops`.  No hypothesis on the environment: any number of injected
`openPoll` failures (a failed `Run` closes what it had opened together with the old pool and leaves
`numLoops = 0`, an empty slice), any counter value, any `n`. -/
theorem C18_size {n : Nat} {s : S} (hr : Reachable n s) (h2 : s.status = 2) :
    s.polls.length = s.numLoops ∧ s.polls.Nodup ∧
    (∀ id, id ∈ s.polls ↔ (id ∈ s.started ∧ id ∉ s.closed)) ∧
    s.closed.Nodup ∧
    (∀ id, id < s.opened → id ∈ s.polls ∨ id ∈ s.closed) ∧
    s.opened - s.closed.length = s.numLoops ∧
    s.alive.length = s.numLoops := by
  have h := res_reachable hr
  obtain ⟨⟨hnd, hmem, hcov⟩, hsz⟩ := res_quiet h (res_status2 h h2)
  obtain ⟨hlc, hls, hlcs, hlso⟩ := h.logs
  have hlen := hsz h2
  have hiff : ∀ id, id ∈ s.polls ↔ (id ∈ s.started ∧ id ∉ s.closed) := fun id =>
    ⟨fun hm => (hmem id hm).2, fun ⟨hs, hncl⟩ => (hcov id (hlso id hs)).resolve_right hncl⟩
  have hcard : (s.polls ++ s.closed).length = s.opened := by
    apply cover_length
    · rw [List.nodup_append]
      exact ⟨hnd, hlc, fun a ha b hb hab => (hmem a ha).2.2 (hab ▸ hb)⟩
    · intro x
      rw [List.mem_append]
      exact ⟨fun hx => hx.elim (fun hx => (hmem x hx).1) (fun hx => hlso x (hlcs x hx)), hcov x⟩
  rw [List.length_append] at hcard
  have halive : s.alive.length = s.polls.length := by
    apply same_members_length _ _ (List.Nodup.sublist List.filter_sublist hls) hnd
    intro x
    simp only [List.mem_filter, Bool.not_eq_true', List.contains_eq_mem, decide_eq_false_iff_not]
    exact (hiff x).symm
  exact ⟨hlen, hnd, hiff, hlc, hcov, by omega, by omega⟩

example : ∃ s, Reachable 3 s ∧ Clean s ∧ s.status = 2 ∧ s.polls = [0] ∧ s.closed = [1, 2] ∧ s.numLoops = 1 :=
  ⟨traceEnd 3 exShrink, reachable_traceEnd 3 exShrink (by decide), by decide, by decide, by decide, by decide, by decide⟩

/-- …and the balancer's snapshot is that slice (this half needs `Clean`: a failed `Run` leaves no balancer). -/
theorem C18_size_balancer {n : Nat} (hn : 1 ≤ n) {s : S} (hr : Reachable n s) (hc : Clean s) (h2 : s.status = 2) :
    Synced s.bal s.polls := by
  have h := core_reachable hn hr hc
  exact (lock_not1 h.lock (by omega)).2.2.2

/-- the same as the executable oracle the harness's dumps are judged with (`npdriver mgrspec`) -/
theorem C18_size_oracle {n : Nat} (hn : 1 ≤ n) {s : S} (hr : Reachable n s) (hc : Clean s) (h2 : s.status = 2) :
    s.obs.sized = true := by
  obtain ⟨hlen, hnd, hiff, hlc, _, hlive, _⟩ := C18_size hr h2
  obtain ⟨b, hb, hbp, hbs⟩ := C18_size_balancer hn hr hc h2
  simp only [Obs.sized, S.obs, hb, Bool.and_eq_true, beq_iff_eq, decide_eq_true_eq, List.all_eq_true,
    Bool.not_eq_true', List.contains_eq_mem, decide_eq_false_iff_not]
  exact ⟨⟨⟨⟨⟨hlen, hnd⟩, fun id hid => ((hiff id).mp hid).2⟩, hlive⟩, hlc⟩, hbp, hbs⟩

/-- **No poller is ever left behind.**  In every reachable state in which nobody is inside `Run` – whatever the
status, after any number of injected `openPoll` failures, panics, reconfigurations: the slice holds distinct
pollers whose loops were started and which were not closed; every other poller ever opened has been closed,
none twice; the census of open pollers is exactly the slice.  (Before the fix of F2 the pollers a failing `Run`
had opened were in no slice and never closed: `C18_openfail_prefix_witness`.)  The last conjunct is the
executable clause the implementation's dumps are judged with after a failure (`npdriver mgrspec`). -/
theorem C18_none_left_behind {n : Nat} {s : S} (hr : Reachable n s) (hq : s.runners = []) :
    s.polls.Nodup ∧ (∀ id, id ∈ s.polls → id ∈ s.started ∧ id ∉ s.closed) ∧ s.closed.Nodup ∧
    (∀ id, id < s.opened → id ∈ s.polls ∨ id ∈ s.closed) ∧
    s.opened - s.closed.length = s.polls.length ∧
    s.obs.noStray = true := by
  have h := res_reachable hr
  obtain ⟨⟨hnd, hmem, hcov⟩, _⟩ := res_quiet h hq
  obtain ⟨hlc, hls, hlcs, hlso⟩ := h.logs
  have hcard : (s.polls ++ s.closed).length = s.opened := by
    apply cover_length
    · rw [List.nodup_append]
      exact ⟨hnd, hlc, fun a ha b hb hab => (hmem a ha).2.2 (hab ▸ hb)⟩
    · intro x
      rw [List.mem_append]
      exact ⟨fun hx => hx.elim (fun hx => (hmem x hx).1) (fun hx => hlso x (hlcs x hx)), hcov x⟩
  rw [List.length_append] at hcard
  have hlive : s.opened - s.closed.length = s.polls.length := by omega
  refine ⟨hnd, fun id hid => (hmem id hid).2, hlc, hcov, hlive, ?_⟩
  simp only [Obs.noStray, S.obs, Bool.and_eq_true, beq_iff_eq, List.all_eq_true,
    Bool.not_eq_true', List.contains_eq_mem, decide_eq_false_iff_not]
  exact ⟨⟨⟨hlive, decide_eq_true hnd⟩, fun id hid => (hmem id hid).2.2⟩, decide_eq_true hlc⟩

example : ∃ s, Reachable 2 s ∧ ¬ Clean s ∧ s.fails = 1 ∧ s.runners = [] ∧ s.opened = 1 ∧ s.closed = [0] ∧ s.polls = [] :=
  ⟨traceEnd 2 exOpenFail, reachable_traceEnd 2 exOpenFail (by decide), by decide, by decide, by decide, by decide,
    by decide, by decide⟩

/-- **A failed `Run` closes everything it leaves.**  At the step with which the error path of `Run` returns
(`openPoll` failed while the pool was growing; the deferred `Close` has visited every poller of the slice that
`Run` handed it – the old pool and the pollers opened by this very call): every poller ever opened has been
closed, the census of open pollers is 0, and the manager is exactly as `Close` leaves it (empty slice,
`numLoops = 0`, no balancer). -/
theorem C18_failed_run_closes_all {n : Nat} {s s' : S} (hr : Reachable n s) (r : Runner) (f : Bool)
    (hrun : s.runners = [r]) (hpc : r.pc = .eclear) (hs : step s (.run 0 f) = some s') :
    (∀ id, id < s'.opened → id ∈ s'.closed) ∧ s'.opened - s'.closed.length = 0 ∧
    s'.polls = [] ∧ s'.numLoops = 0 ∧ s'.bal = none ∧ s'.runners = [] := by
  have hr' : Reachable n s' := Reachable.step _ hr hs
  simp only [step, runStep, hrun, List.getElem?_cons_zero, hpc] at hs
  have e := (Option.some.inj hs).symm
  have hq : s'.runners = [] := by rw [e]; simp [S.runReturn]
  have hp : s'.polls = [] := by rw [e]; rfl
  have hnl : s'.numLoops = 0 := by rw [e]; rfl
  have hb : s'.bal = none := by rw [e]; rfl
  obtain ⟨_, _, _, hcov, hlive, _⟩ := C18_none_left_behind hr' hq
  refine ⟨fun id hid => ?_, ?_, hp, hnl, hb, hq⟩
  · rcases hcov id hid with hm | hm
    · rw [hp] at hm; simp at hm
    · exact hm
  · rw [hp] at hlive; simpa using hlive

example : ∃ s, Reachable 2 s ∧ s.runners.map Runner.pc = [RPc.eclear] ∧ (step s (.run 0 false)).isSome = true :=
  ⟨traceEnd 2 (exOpenFail.take 8), reachable_traceEnd 2 _ (by decide), by decide, by decide⟩

/-- **No picker is stuck.**  If no productive step is enabled, every `Pick` has returned: whenever
pickers wait (status = initializing) the goroutine that holds the lock still has a step to take, so
there is no lost hand-over; with a fair scheduler every `Pick` returns. -/
theorem C18_quiescent {n : Nat} (hn : 1 ≤ n) {s : S} (hr : Reachable n s) (hc : Clean s)
    (hq : ∀ a, Productive s a → step s a = none) : s.inflight = 0 := by
  have h := core_reachable hn hr hc
  have en : ∀ a, a.isEnv = false → ¬ (s.status = 1 ∧ (a = .load ∨ a = .cas)) → step s a ≠ none → False :=
    fun a h1 h2 h3 => h3 (hq a ⟨h1, h2⟩)
  -- a goroutine inside Run always has a step
  have hrun : s.runners = [] := by
    rcases hrr : s.runners with _ | ⟨r, rest⟩
    · rfl
    · exfalso
      apply en (.run 0 false) rfl (by simp)
      simp only [step, runStep, hrr, List.getElem?_cons_zero]
      cases r.pc <;> simp <;> (repeat' split) <;> simp
  have hc2 : s.cCas2 = 0 := by
    rcases Nat.eq_zero_or_pos s.cCas2 with h0 | h0
    · exact h0
    · exfalso; apply en .cas2 rfl (by simp)
      simp only [step]; rw [if_neg (by omega)]; split <;> simp
  have hcb : s.cBal = 0 := by
    rcases Nat.eq_zero_or_pos s.cBal with h0 | h0
    · exact h0
    · exfalso
      have h2 : s.status = 2 := h.inbal (Or.inl h0)
      obtain ⟨_, _, _, b, hb, hbp, hbs⟩ := lock_not1 h.lock (by omega)
      have hlen2 := h.sized h2
      have hnl := h.nl
      apply en (.balEnter 0) rfl (by simp)
      simp only [step, hb]; rw [if_neg (by omega)]
      cases b.kind <;> simp
      split <;> simp
      omega
  have htk : s.tk = [] := by
    rcases htk : s.tk with _ | ⟨c, rest⟩
    · rfl
    · exfalso; apply en (.balSize 0) rfl (by simp)
      simp only [step, htk, List.getElem?_cons_zero]
      (repeat' split) <;> simp
  have hix : s.ix = [] := by
    rcases hix : s.ix with _ | ⟨c, rest⟩
    · rfl
    · exfalso; apply en (.balIdx 0) rfl (by simp)
      simp only [step, hix, List.getElem?_cons_zero]
      (repeat' split) <;> simp
  -- nobody holds the lock, so status ≠ initializing and the waiters' steps are productive
  have hl := h.lock
  rw [hrun] at hl
  unfold LockInv at hl
  have hst : s.status ≠ 1 := by
    rcases hl.2.2 with hd | hd
    · exact hd.2
    · omega
  have hld : s.cLoad = 0 := by
    rcases Nat.eq_zero_or_pos s.cLoad with h0 | h0
    · exact h0
    · exfalso; apply en .load rfl (fun hh => hst hh.1)
      simp only [step]; rw [if_neg (by omega)]; split <;> simp
  have hcs : s.cCas = 0 := by
    rcases Nat.eq_zero_or_pos s.cCas with h0 | h0
    · exact h0
    · exfalso; apply en .cas rfl (fun hh => hst hh.1)
      simp only [step]; rw [if_neg (by omega)]; split <;> simp
  simp [S.inflight, hld, hcs, hrun, hc2, hcb, htk, hix]

example : ∃ s, Reachable 2 s ∧ Clean s ∧ s.inflight = 2 ∧ s.status = 1 ∧ step s (.run 0 false) ≠ none :=
  ⟨traceEnd 2 exWait, reachable_traceEnd 2 exWait (by decide), by decide, by decide, by decide, by decide⟩

/-- **…and every Pick returns under a fair scheduler.**  Each productive step strictly decreases a
natural-number measure of the state, so between two environment actions only finitely many productive
steps exist; by `C18_quiescent` they run out only when every `Pick` has returned.  (Iterations of the
wait loop are not bounded by the model: the waiting pickers rely on the lock holder being scheduled –
A-sched-fair.) -/
theorem C18_variant {n : Nat} (hn : 1 ≤ n) {s s' : S} (hr : Reachable n s) (a : Act) (hs : step s a = some s')
    (hc : Clean s') (hp : Productive s a) : measure s' < measure s :=
  measure_decreases s s' a (core_reachable hn hr (clean_of_step s s' a hs hc)) hs hc hp.1 hp.2

example : ∃ s s', Reachable 2 s ∧ step s (.run 0 false) = some s' ∧ Clean s' ∧ Productive s (.run 0 false) ∧
    measure s' < measure s :=
  ⟨traceEnd 2 exWait, (step (traceEnd 2 exWait) (.run 0 false)).getD (init 2),
    reachable_traceEnd 2 exWait (by decide), by decide, by decide, ⟨rfl, by decide⟩, by decide⟩


/-- **Round-robin is even.**  For every start counter `acc`, every pool size `n > 0` and every number
`k` of consecutive picks that stays below the sign bit (`acc + k < 2^63`, A-no-wrap): no pick panics,
every slot index is in range, and the per-slot counts differ by at most one.
(`int(uintptr)` is the identity below 2^63; the wrap of the unsigned counter at 2^64 is never reached
without first crossing 2^63, where `int(..) % n` turns negative for every `n ≥ 2` – see
`C18_round_robin_sign_witness` – so whether `n` divides 2^64 is immaterial.) -/
theorem C18_round_robin (acc n k : Nat) (hn : 0 < n) (hw : acc + k < two63) :
    (∀ o, o ∈ rrPicks acc n n k → ∃ i, o = some i ∧ i < n) ∧
    ∀ i j, i < n → j < n → (rrPicks acc n n k).count (some i) ≤ (rrPicks acc n n k).count (some j) + 1 := by
  rw [rrPicks_small acc n k hn hw]
  refine ⟨?_, fun i j hi hj => ?_⟩
  · intro o ho
    simp only [List.mem_map, List.mem_range] at ho
    obtain ⟨t, _, rfl⟩ := ho
    exact ⟨_, rfl, Nat.mod_lt _ hn⟩
  · rw [count_some_map (fun t => (acc + 1 + t) % n), count_some_map (fun t => (acc + 1 + t) % n)]
    exact count_window_even n i j (acc + 1) k hi hj

example : rrPicks 7 3 3 8 = [some 2, some 0, some 1, some 2, some 0, some 1, some 2, some 0] := by decide

/-! ### where the unchanged code leaves the property (outside the stated contract) -/

/-- past the sign bit the conversion `int(uintptr)` is negative and Go's `%` keeps the sign: the slot
index is negative and `b.polls[idx]` panics.  Two consecutive tickets at 2^63 cannot both be multiples
of `n ≥ 2`, so for EVERY `n ≥ 2` one of them panics – also for `n = 2`, which divides 2^64: divisibility
of 2^64 by `n` does not matter, the sign does.  (`n = 1` never panics: `x % 1 = 0`.) -/
theorem C18_round_robin_sign_witness (n : Nat) (hn : 2 ≤ n) :
    (rrPick (two63 - 1) n n).2 = none ∨ (rrPick two63 n n).2 = none :=
  rrPick_sign n hn

example : (rrPick two63 2 2).2 = none ∧ (rrPick (two63 - 1) 3 3).2 = none ∧ (rrPick (two64 - 2) 3 3).2 = none ∧
    (rrPicks (two63 - 3) 3 3 5) = [some 0, some 1, none, none, some 0] := by decide

/-- `openPoll` failing during a grow (e.g. EMFILE): `Run`'s error path closes every poller – the old pool
and the ones just opened (poller 0 here; nothing stays open) – and `Close` sets the balancer to nil; `Pick`
has no way to report the error, so the caller and every later `Pick` panic on the nil balancer until
`SetLoadBalance` and `SetNumLoops` are called again.  Hence `Clean` excludes it for the claims about `Pick`. -/
theorem C18_openfail_witness :
    ∃ s, Reachable 2 s ∧ s.fails = 1 ∧ s.panics = 1 ∧ s.polls = [] ∧ s.bal = none ∧ s.status = 2 ∧
      s.numLoops = 0 ∧ s.closed = [0] ∧ s.opened - s.closed.length = 0 :=
  ⟨traceEnd 2 exOpenFail, reachable_traceEnd 2 exOpenFail (by decide),
    by decide, by decide, by decide, by decide, by decide, by decide, by decide, by decide⟩

/-- F2 (fixed in /repo): the same schedule on the code BEFORE the fix (`stepPreF2`: `return err` without
`m.polls = polls[:idx]`): the deferred `Close` sees the old (empty) pool only; poller 0, opened and started by
this call, is in no slice, was never closed and stays open for ever. -/
theorem C18_openfail_prefix_witness :
    ∃ s, runActsPreF2 (init 2) exOpenFailPreF2 = some s ∧ s.fails = 1 ∧ s.panics = 1 ∧ s.runners = [] ∧ s.polls = [] ∧
      s.started = [0] ∧ s.closed = [] ∧ s.opened - s.closed.length = 1 ∧ s.obs.noStray = false :=
  ⟨(runActsPreF2 (init 2) exOpenFailPreF2).getD (init 2), by decide, by decide, by decide, by decide, by decide,
    by decide, by decide, by decide, by decide⟩

/-- `newManager(0)` (not reachable through the public API: the package creates its manager with
`GOMAXPROCS/20+1 ≥ 1` and `SetNumLoops` rejects values below 1) leaves `numLoops = 0`; the first `Pick`
divides by zero.  Hence `1 ≤ n`. -/
theorem C18_newManager0_witness : ∃ s, Reachable 0 s ∧ Clean s ∧ s.panics = 1 :=
  ⟨traceEnd 0 exZero, reachable_traceEnd 0 exZero (by decide), by decide, by decide⟩

end Netpoll.Props.C18
