import Netpoll.Conn.ClosedLemmas
/-
C12 - a closed connection answers with errors, not panics or hangs.
Theorems over the post-close model `Netpoll.Conn.Closed` for EVERY state of the buffers, every size and
every argument (the table executed by the harness is a finite sample of this quantifier).
-/
namespace Netpoll.Props.C12
open Netpoll.Buf Netpoll.Conn.Closed

variable {α : Type} [DecidableEq α]

/-- After any close, every Writer call returns ErrConnClosed and changes nothing - whatever is pending. -/
theorem C12_writer_closed (cfg : Cfg) (c : CC α) (m : Meth α) (hc : c.closing ≠ 0) (hw : isWriter m = true) :
    c.call cfg m = (c, .err .connClosed) := by
  have ha : c.isActive = false := by simp [CC.isActive, hc]
  cases m <;> simp_all [isWriter, CC.call]

example : (1 : Nat) ≠ 0 ∧ isWriter (Meth.flush : Meth Nat) = true := by decide

/-- A Reader call that needs more bytes than are still buffered fails with the close error, consumes
nothing and changes nothing. -/
theorem C12_reader_short (cfg : Cfg) (c : CC α) (n : Int) (hc : c.closing = 1 ∨ c.closing = 2)
    (hn : (c.input.length : Int) < n) :
    c.call cfg (.next n) = (c, .err (shortErr c)) ∧ c.call cfg (.peek n) = (c, .err (shortErr c)) ∧
    c.call cfg (.skip n) = (c, .err (shortErr c)) ∧ c.call cfg (.readString n) = (c, .err (shortErr c)) ∧
    c.call cfg (.readBinary n) = (c, .err (shortErr c)) ∧ c.call cfg (.slice n) = (c, .err (shortErr c)) := by
  have h := waitRead_short c n hc hn
  simp [CC.call, h]

theorem C12_readByte_short (cfg : Cfg) (c : CC α) (hc : c.closing = 1 ∨ c.closing = 2) (h0 : c.input.length = 0) :
    c.call cfg .readByte = (c, .err (shortErr c)) ∧
    ∀ l, l > 0 → c.call cfg (.read l) = (c, .err (shortErr c)) := by
  have h := waitRead_short c 1 hc (by omega)
  constructor
  · simp [CC.call, h]
  · intro l hl
    have : l ≠ 0 := by omega
    simp [CC.call, h, this]

example : ∃ c : CC Nat, (c.closing = 1 ∨ c.closing = 2) ∧ (c.input.length : Int) < 3 :=
  ⟨{ closing := 2, tornDown := true, cb := false, input := closedLB, output := closedLB }, by decide⟩

/-- With enough bytes buffered the close does not get in the way: the call is the buffer's own read
(which C01 shows returns the next bytes of the stream). -/
theorem C12_reader_buffered (cfg : Cfg) (c : CC α) (n : Int) (hn : n ≤ (c.input.length : Int)) :
    c.call cfg (.next n) = ofBuf (c.input.next cfg n) c setIn ∧
    c.call cfg (.peek n) = ofBuf (c.input.peek cfg n) c setIn ∧
    c.call cfg (.skip n) = ofBuf (c.input.skip n) c setIn ∧
    c.call cfg (.readBinary n) = ofBuf (c.input.readBinary n) c setIn := by
  have h : c.waitRead n = none := by simp [CC.waitRead, hn]
  simp [CC.call, h]

omit [DecidableEq α] in
/-- After the peer closed, the remaining buffered bytes can still be read: on a connection without an OnRequest handler
(one that is read through its Reader – with or without OnConnect) neither the hang-up, nor the teardown it starts when a
callback is set, nor the user's own Close after it drops buffered input: `closeBuffer` recycles the input buffer only
when it is empty (or a handler has been offered it).  Whatever was buffered when the peer closed is buffered afterwards. -/
theorem C12_peer_close_keeps_buffered (c : CC α) (hreq : c.req = false) (m : Mode) (hm : m = .peer ∨ m = .peerThenUser) :
    (c.closeBy m).input.length = c.input.length ∧ (c.input.length ≠ 0 → (c.closeBy m).input = c.input) := by
  rcases hm with h | h <;> subst h <;>
    by_cases hcb : c.cb = true <;> by_cases ht : c.tornDown = true <;> by_cases hl : c.input.length = 0 <;>
      simp [CC.closeBy, CC.teardown, CC.closeBuffer, hreq, hcb, ht, hl, closedLB]

example : ∃ c : CC Nat, c.req = false ∧ c.cb = true ∧ c.input.length ≠ 0 ∧ c.tornDown = false :=
  ⟨{ closing := 0, tornDown := false, cb := true, input := { closedLB with length := 10 }, output := closedLB }, by decide⟩

/-- … and then reads of at most that many bytes are the buffer's own reads, longer ones fail with the close error
(`C12_reader_buffered`, `C12_reader_short` applied to the state after the close). -/
theorem C12_buffered_then_eof (cfg : Cfg) (c : CC α) (hreq : c.req = false) (m : Mode) (hm : m = .peer ∨ m = .peerThenUser) (n : Int) :
    (n ≤ (c.input.length : Int) → ((c.closeBy m).call cfg (.next n)) = ofBuf ((c.closeBy m).input.next cfg n) (c.closeBy m) setIn) ∧
    ((c.input.length : Int) < n → ((c.closeBy m).call cfg (.next n)) = (c.closeBy m, .err (shortErr (c.closeBy m)))) := by
  have hk := (C12_peer_close_keeps_buffered c hreq m hm).1
  have hc : (c.closeBy m).closing = 1 ∨ (c.closeBy m).closing = 2 := by
    rcases hm with h | h <;> subst h <;> by_cases hcb : c.cb = true <;> simp [CC.closeBy, CC.teardown, hcb] <;> (try split) <;> simp_all
  constructor
  · intro hn
    have h : (c.closeBy m).waitRead n = none := by simp [CC.waitRead, hk, hn]
    simp [CC.call, h]
  · intro hn
    have h := waitRead_short (c.closeBy m) n hc (by rw [hk]; exact hn)
    simp [CC.call, h]

/-- No call on a closed connection waits. -/
theorem C12_never_blocks (cfg : Cfg) (c : CC α) (m : Meth α) (hc : c.closing = 1 ∨ c.closing = 2) :
    (c.call cfg m).2 ≠ .blocks := by
  have ha : c.isActive = false := by rcases hc with h | h <;> simp [CC.isActive, h]
  have hw := waitRead_cases c
  cases m with
  | next n => rcases hw n hc with h | h <;> simp [CC.call, h, (ofBuf_snd _ _ _).1]
  | peek n => rcases hw n hc with h | h <;> simp [CC.call, h, (ofBuf_snd _ _ _).1]
  | skip n => rcases hw n hc with h | h <;> simp [CC.call, h, (ofBuf_snd _ _ _).1]
  | readString n => rcases hw n hc with h | h <;> simp [CC.call, h, (ofBuf_snd _ _ _).1]
  | readBinary n => rcases hw n hc with h | h <;> simp [CC.call, h, (ofBuf_snd _ _ _).1]
  | readByte => rcases hw 1 hc with h | h <;> simp [CC.call, h, (ofBuf_snd _ _ _).1]
  | slice n =>
    rcases hw n hc with h | h <;> simp [CC.call, h]
    split <;> simp
  | release => simp [CC.call, ha, (ofBuf_snd _ _ _).1]
  | len => simp [CC.call]
  | «until» d =>
    simp only [CC.call]
    rcases hw 1 hc with h | h <;> simp only [h]
    · split
      · simp
      · rename_i i _
        split
        · rcases hw (i + 1) hc with h2 | h2 <;> simp [h2, (ofBuf_snd _ _ _).1]
        · have := waitRead_short c ((c.input.length : Int) + 1) hc (by omega)
          simp only [this]
          split <;> simp
    · split <;> simp
  | read l =>
    simp only [CC.call]
    split
    · simp
    · rcases hw 1 hc with h | h <;> simp [h, (ofBuf_snd _ _ _).1]
  | malloc n => simp [CC.call, ha]
  | mallocLen => simp [CC.call]
  | flush => simp [CC.call, ha]
  | mallocAck n => simp [CC.call, ha]
  | appendW => simp [CC.call, ha]
  | writeString p => simp [CC.call, ha]
  | writeBinary p => simp [CC.call, ha]
  | writeDirect p r => simp [CC.call, ha]
  | writeByte a => simp [CC.call, ha]
  | write p => simp [CC.call, ha]
  | isActive => simp [CC.call]
  | close => simp [CC.call]
  | detach => simp [CC.call]

/-- Close is idempotent: a second Close returns nil and changes nothing. -/
theorem C12_close_idempotent (cfg : Cfg) (c : CC α) :
    let c1 := (c.call cfg .close).1
    (c.call cfg .close).2 = .ok .unit ∧ c1.call cfg .close = (c1, .ok .unit) := by
  simp [CC.call, CC.teardown, CC.closeBuffer]
  split <;> simp

/-- On recycled buffers (what the finalizer leaves when a callback is set or nothing was buffered) no
Reader / Writer / Connection method dereferences the nil node chain: nothing panics. -/
theorem C12_no_panic_recycled (cfg : Cfg) (c : CC α) (m : Meth α) (hc : c.closing = 1 ∨ c.closing = 2)
    (hi : c.input = closedLB) : (c.call cfg m).2 ≠ .panic := by
  have ha : c.isActive = false := by rcases hc with h | h <;> simp [CC.isActive, h]
  have hw := waitRead_cases c
  have hr := waitRead_recycled c
  have hlen : c.input.length = 0 := by simp [hi, closedLB]
  cases m with
  | next n =>
    rcases hw n hc with h | h <;> simp only [CC.call, h]
    · have := hr n hi h; simp [hi, LB.next, this, ofBuf]
    · simp
  | peek n =>
    rcases hw n hc with h | h <;> simp only [CC.call, h]
    · have := hr n hi h; simp [hi, LB.peek, this, ofBuf]
    · simp
  | skip n =>
    rcases hw n hc with h | h <;> simp only [CC.call, h]
    · have := hr n hi h; simp [hi, LB.skip, this, ofBuf]
    · simp
  | readString n =>
    rcases hw n hc with h | h <;> simp only [CC.call, h]
    · have := hr n hi h; simp [hi, LB.readBinary, this, ofBuf]
    · simp
  | readBinary n =>
    rcases hw n hc with h | h <;> simp only [CC.call, h]
    · have := hr n hi h; simp [hi, LB.readBinary, this, ofBuf]
    · simp
  | readByte =>
    rcases hw 1 hc with h | h <;> simp only [CC.call, h]
    · have := hr 1 hi h; omega
    · simp
  | slice n =>
    rcases hw n hc with h | h <;> simp only [CC.call, h]
    · have := hr n hi h; simp [hi, LB.slice, this]
    · simp
  | release => simp [CC.call, ha, hi, closedLB, LB.release, skipEmptyRel, ofBuf]
  | len => simp [CC.call]
  | «until» d =>
    simp only [CC.call]
    rcases hw 1 hc with h | h
    · have := hr 1 hi h; omega
    · simp only [h, hi]
      simp [closedLB, LB.next]
  | read l =>
    simp only [CC.call]
    split
    · simp
    · rcases hw 1 hc with h | h
      · have := hr 1 hi h; omega
      · simp [h]
  | malloc n => simp [CC.call, ha]
  | mallocLen => simp [CC.call]
  | flush => simp [CC.call, ha]
  | mallocAck n => simp [CC.call, ha]
  | appendW => simp [CC.call, ha]
  | writeString p => simp [CC.call, ha]
  | writeBinary p => simp [CC.call, ha]
  | writeDirect p r => simp [CC.call, ha]
  | writeByte a => simp [CC.call, ha]
  | write p => simp [CC.call, ha]
  | isActive => simp [CC.call]
  | close => simp [CC.call]
  | detach => simp [CC.call]

example : (closedLB : LB Nat).length = 0 := rfl

/-- Close modes that go through an OnRequest handler task - the handler calls Close (and returns, or then panics), the peer
closes while the handler runs (and it returns, or then panics), the handler panics on the active connection: the task runs
the teardown exactly once and keeps the `processing` lock, so afterwards the connection is torn down with both buffers
recycled (the input was offered to the handler), no method panics or blocks, and Close / Detach - any number of them -
return nil and run nothing again. -/
theorem C12_handler_close (cfg : Cfg) (c : CC α) (hreq : c.req = true) (hcb : c.cb = true) (ht : c.tornDown = false)
    (m : Mode) (hm : m.viaHandler = true) :
    (c.closeBy m).tornDown = true ∧ (c.closeBy m).input = closedLB ∧ (c.closeBy m).output = closedLB ∧
    ((c.closeBy m).closing = 1 ∨ (c.closeBy m).closing = 2) ∧
    (∀ meth, ((c.closeBy m).call cfg meth).2 ≠ .panic ∧ ((c.closeBy m).call cfg meth).2 ≠ .blocks) ∧
    (c.closeBy m).call cfg .close = ({ c.closeBy m with closing := 1 }, .ok .unit) ∧
    (c.closeBy m).call cfg .detach = ({ c.closeBy m with closing := 1 }, .ok .unit) := by
  have key : (c.closeBy m).tornDown = true ∧ (c.closeBy m).input = closedLB ∧ (c.closeBy m).output = closedLB ∧
      ((c.closeBy m).closing = 1 ∨ (c.closeBy m).closing = 2) := by
    cases m <;> simp_all [Mode.viaHandler, CC.closeBy, CC.teardown, CC.closeBuffer]
  obtain ⟨h1, h2, h3, h4⟩ := key
  refine ⟨h1, h2, h3, h4, fun meth => ⟨C12_no_panic_recycled cfg _ meth h4 h2, C12_never_blocks cfg _ meth h4⟩, ?_, ?_⟩ <;>
    simp [CC.call, CC.teardown, h1]

example : ∃ c : CC Nat, c.req = true ∧ c.cb = true ∧ c.tornDown = false ∧ c.input.length ≠ 0 ∧ Mode.hUserPanic.viaHandler = true :=
  ⟨{ closing := 0, tornDown := false, cb := true, req := true, input := { closedLB with length := 10 }, output := closedLB }, by decide⟩

end Netpoll.Props.C12
