import Netpoll.Conn.Read
/-
C07 – a blocked reader wakes on data, close or timeout – and only then.
Invariant proof over `Netpoll.Conn.Read` for every interleaving of one reader (any sequence of timed and
untimed calls), any number of poller deliveries, closers and timer firings.
-/
namespace Netpoll.Props.C07
open Netpoll.Conn.Read

/-- the reader is inside a timed call after the timer has been armed -/
def timedArmed : RPc → Bool
  | .chkLen _ true | .chkClosing _ true | .wait _ true | .ret _ _ _ => true
  | _ => false

/-- the `n` of the call in progress, while `waitReadSize` is published -/
def published : RPc → Option Nat
  | .arm n | .chkLen n _ | .chkClosing n _ | .wait n _ | .dblChk n | .ret n _ _ | .unstore n _ _ => some n
  | _ => none

def Good (s : S) : Prop :=
  -- timer discipline
  (¬ (s.timerRunning = true ∧ s.tick = true)) ∧
  (timedArmed s.r = true → (s.timerRunning = true ∨ s.tick = true)) ∧
  (timedArmed s.r = false → s.timerRunning = false ∧ s.tick = false) ∧
  -- waitReadSize is n exactly while a slow-path call is in progress
  (∀ n, published s.r = some n → s.waitSize = n ∧ n > 0) ∧
  (published s.r = none → s.waitSize = 0) ∧
  (∀ n t, (s.r = .fast n t ∨ s.r = .store n t) → n > 0) ∧
  -- the poller's view: the length it saw is never below the current length (only the idle reader consumes)
  ((s.p = .loadWait ∨ s.p = .send) → s.lenSeen ≥ s.inLen) ∧
  -- closing / tokens
  (s.closing ≤ 2) ∧
  (s.c = .sendClosed → s.closing = 1) ∧ (s.c = .sendEOF → s.closing = 2) ∧
  (s.slot = some .errClosed → s.closing = 1) ∧ (s.slot = some .errEOF → s.closing = 2) ∧
  (s.closing = 2 → s.p = .idle) ∧
  -- NO LOST WAKE-UP: from the moment the reader has seen "not enough" until it parks, and while it is parked,
  -- enough data means a delivery is still in progress (it will trigger) or the slot holds a token
  (∀ n t, (s.r = .chkClosing n t ∨ s.r = .wait n t) → s.slot = none → s.inLen ≥ n → s.p ≠ .idle) ∧
  (∀ n t, s.r = .wait n t → s.slot = none → s.closing ≠ 0 → s.c ≠ .none) ∧
  -- every completed call has the right class
  (∀ x ∈ s.results, (x.2.1 = .ok → x.2.2.1 ≥ x.1) ∧ (x.2.1 = .timeout → x.2.2.1 < x.1) ∧
      (x.2.1 = .errEOF → x.2.2.2 = 2) ∧ (x.2.1 = .errClosed → x.2.2.2 = 1)) ∧
  -- pending results
  (∀ n res seen, (s.r = .ret n res seen ∨ s.r = .unstore n res seen) →
      (res = .ok → seen ≥ n) ∧ (res = .timeout → seen < n) ∧ (res = .errEOF → s.closing = 2) ∧ (res = .errClosed → s.closing = 1))

theorem good_init : Good init := by
  simp [Good, init, timedArmed, published]

theorem good_step (s s' : S) (a : Act) (h : Good s) (hs : step s a = some s') : Good s' := by
  obtain ⟨inLen, closing, waitSize, slot, timerRunning, tick, r, p, c, lenSeen, results⟩ := s
  cases a <;> simp only [step, trySend] at hs <;> (repeat' split at hs) <;> (try cases hs) <;>
    (try (simp only [Good, timedArmed, published] at *; grind))

theorem good_run (acts : List Act) (s0 s : S) (h0 : Good s0) (hrun : run s0 acts = some s) : Good s := by
  induction acts generalizing s0 with
  | nil => simp [run] at hrun; subst hrun; exact h0
  | cons a rest ih =>
    simp only [run] at hrun
    split at hrun
    · simp at hrun
    · rename_i s1 h1
      exact ih s1 (good_step s0 s1 a h0 h1) hrun

/-- **C07_success / C07_no_spurious_timeout / C07_error_class.** Every completed call, in every
interleaving: success ⇒ at least n bytes were buffered when it decided; timeout ⇒ fewer than n were
buffered at the double-check (so it never times out when the bytes were already there); ErrEOF only
after a peer close, ErrConnClosed only after a local close. -/
theorem C07_results (acts : List Act) (s : S) (hr : run init acts = some s) :
    ∀ x ∈ s.results, (x.2.1 = .ok → x.2.2.1 ≥ x.1) ∧ (x.2.1 = .timeout → x.2.2.1 < x.1) ∧
      (x.2.1 = .errEOF → x.2.2.2 = 2) ∧ (x.2.1 = .errClosed → x.2.2.2 = 1) :=
  (good_run acts init s good_init hr).2.2.2.2.2.2.2.2.2.2.2.2.2.2.2.1

/-- **C07_no_lost_wakeup.** Whenever the reader is parked at the wait point and a reason to wake exists
(enough data, the connection closed, or – for a timed call – the timer fired), a wake-up is already in
the slot / the timer channel, or the goroutine that owes it has an enabled step: the reader cannot be
stranded. -/
theorem C07_no_lost_wakeup (acts : List Act) (s : S) (hr : run init acts = some s) (n : Nat) (t : Bool)
    (hw : s.r = .wait n t) :
    (s.inLen ≥ n → s.slot ≠ none ∨ s.p ≠ .idle) ∧
    (s.closing ≠ 0 → s.slot ≠ none ∨ s.c ≠ .none) ∧
    (t = true → s.timerRunning = true ∨ s.tick = true) := by
  have hg := good_run acts init s good_init hr
  obtain ⟨_, h2, _, _, _, _, _, _, _, _, _, _, _, hlw1, hlw2, _⟩ := hg
  refine ⟨?_, ?_, ?_⟩
  · intro hn
    by_cases hs : s.slot = none
    · exact Or.inr (hlw1 n t (Or.inr hw) hs hn)
    · exact Or.inl hs
  · intro hc
    by_cases hs : s.slot = none
    · exact Or.inr (hlw2 n t hw hs hc)
    · exact Or.inl hs
  · intro ht
    subst ht
    exact h2 (by simp [hw, timedArmed])

/-- **C07_timer_clean.** Between calls the timer is stopped, its channel is empty and `waitReadSize` is 0:
a call (successful, failed or timed out) leaves later reads and their timers unaffected; and the clean-up
`if !timer.Stop() { <-timer.C }` never blocks. -/
theorem C07_timer_clean (acts : List Act) (s : S) (hr : run init acts = some s) :
    (s.r = .idle → s.timerRunning = false ∧ s.tick = false ∧ s.waitSize = 0) ∧
    (∀ n res seen, s.r = .ret n res seen → s.timerRunning = true ∨ s.tick = true) := by
  have hg := good_run acts init s good_init hr
  obtain ⟨_, h2, h3, _, h5, _⟩ := hg
  constructor
  · intro hi
    have := h3 (by simp [hi, timedArmed])
    exact ⟨this.1, this.2, h5 (by simp [hi, published])⟩
  · intro n res seen hret
    exact h2 (by simp [hret, timedArmed])

/-- non-vacuity: data arriving in two chunks around the n-th byte wakes an untimed reader; a timed reader times out
without data and the next call starts clean -/
example : ((run init [.call 3 false, .rstep, .rstep, .rstep, .rstep, .deliver 2, .pstep, .pstep, .deliver 1, .pstep, .pstep, .pstep,
    .recvSlot, .rstep, .rstep]).map (fun s => (s.r, s.results))) = some (.idle, [(3, .ok, 3, 0)]) := by decide

example : ((run init [.call 5 true, .rstep, .rstep, .rstep, .rstep, .rstep, .fire, .recvTick, .rstep, .rstep]).map
    (fun s => (s.r, s.results))) = some (.idle, [(5, .timeout, 0, 0)]) := by decide
example : ((run init [.call 5 true, .rstep, .rstep, .rstep, .rstep, .rstep, .fire, .recvTick, .rstep, .rstep]).map
    (fun s => (s.timerRunning, s.tick, s.waitSize))) = some (false, false, 0) := by decide

end Netpoll.Props.C07
