import Netpoll.Conn.ReadInvLemmas
/-
C07 – a blocked reader wakes on data, close or timeout – and only then.
Invariant proof over `Netpoll.Conn.Read` for every interleaving of one reader (any sequence of untimed calls, timed
calls and calls with an already expired deadline), any number of poller deliveries, closers (peer hang-up, user Close
winning or losing closeBy, the finalizer's buffer reset) and timer firings.
The invariant `Good` is in Netpoll/Conn/ReadInv.lean, its preservation lemmas (generated, one per action) in
Netpoll/Conn/ReadInvLemmas*.lean.  The model is tied to the code by `npdriver read` (trace conformance of the real
code under the controlled scheduler) and Netpoll.Tie.ReadFlush (sync-operation lists).
-/
namespace Netpoll.Props.C07
open Netpoll.Conn.Read

/-- **C07_success / C07_no_spurious_timeout / C07_error_class.** Every completed call
`(n, result, Len() at the decision, peerClosed, userClosed at return)`, in every interleaving: success ⇒ at least n
bytes were buffered when it decided; timeout ⇒ fewer than n were buffered at the double-check (for an expired
deadline: at the entry check), so it never times out when the bytes were already there; ErrEOF only after the peer's
hang-up won `closeBy(poller)`, ErrConnClosed only after a user Close.
(The class is stated with the ghosts, not with the value of `closing` at return: a user Close that loses closeBy
stores closing := user afterwards, so the word does not identify who closed first.) -/
theorem C07_results (acts : List Act) (s : S) (hr : run init acts = some s) :
    ∀ x ∈ s.results, (x.2.1 = .ok → x.2.2.1 ≥ x.1) ∧ (x.2.1 = .timeout → x.2.2.1 < x.1) ∧
      (x.2.1 = .errEOF → x.2.2.2.1 = true) ∧ (x.2.1 = .errClosed → x.2.2.2.2 = true) :=
  (good_run acts init s good_init hr).res

/-- **C07_close_error_only_when_short** (D20, fixed by b59bbe9 in /repo: see known_findings.jsonl). "A Reader call that needs n bytes
returns successfully once n bytes are buffered; if the connection closes FIRST it returns ErrEOF / ErrConnClosed": every call
that returned a close error looked at the buffer AFTER it had learnt of the close (closing ≠ 0 loaded, or a closer's error
received) and found fewer than n bytes.  In particular the history "reader sees Len() < n – the poller books the n bytes –
the hang-up wins closeBy(poller) – reader sees closing = poller" ends in success (example below), not in ErrEOF. -/
theorem C07_close_error_only_when_short (acts : List Act) (s : S) (hr : run init acts = some s) :
    ∀ x ∈ s.results, (x.2.1 = .errEOF ∨ x.2.1 = .errClosed) → x.2.2.1 < x.1 :=
  (good_run acts init s good_init hr).ef3

/-- the ghosts mean what they say: `peerClosed` only after a successful `closePeer`, `userClosed` only after
`closeUser` / `forceUser`; both imply `closing ≠ 0` from then on. -/
theorem C07_ghosts (acts : List Act) (s : S) (hr : run init acts = some s) :
    (s.peerClosed = true → s.closing ≠ 0) ∧ (s.userClosed = true → s.closing ≠ 0) ∧
    (s.closing = 2 → s.peerClosed = true) ∧ (s.closing = 1 → s.userClosed = true) := by
  have hg := good_run acts init s good_init hr
  exact ⟨fun h => (hg.cl7 h).2, hg.cl8, hg.cl5, hg.cl6⟩

/-- **C07_no_lost_wakeup.** Whenever the reader is parked at the wait point and a reason to wake exists
(enough data, the connection closed, or – for a timed call – the timer fired), a wake-up is already in
the slot / the timer channel, or the goroutine that owes it has an enabled step: the reader cannot be
stranded. -/
theorem C07_no_lost_wakeup (acts : List Act) (s : S) (hr : run init acts = some s) (n : Nat) (t : Bool)
    (hw : s.r = .wait n t) :
    (s.inLen ≥ n → s.slot ≠ none ∨ s.p ≠ .idle) ∧
    (s.closing ≠ 0 → s.slot ≠ none ∨ s.c ≠ .none) ∧
    (t = true → s.timerRunning = true ∨ s.tick = true) := by
  have hg := good_run acts init s good_init hr
  refine ⟨?_, ?_, ?_⟩
  · intro hn
    by_cases hs : s.slot = none
    · exact Or.inr (hg.lw1 n t (Or.inr hw) hs hn)
    · exact Or.inl hs
  · intro hc
    by_cases hs : s.slot = none
    · exact Or.inr (hg.lw2 n t hw hs hc)
    · exact Or.inl hs
  · intro ht
    subst ht
    exact hg.tmr2 (by simp [hw, timedArmed])

/-- **C07_timer_clean.** Between calls the timer is stopped, its channel is empty and `waitReadSize` is 0:
a call (successful, failed or timed out) leaves later reads and their timers unaffected; and the clean-up
`if !timer.Stop() { <-timer.C }` never blocks. -/
theorem C07_timer_clean (acts : List Act) (s : S) (hr : run init acts = some s) :
    (s.r = .idle → s.timerRunning = false ∧ s.tick = false ∧ s.waitSize = 0) ∧
    (∀ n res seen, s.r = .ret n res seen → s.timerRunning = true ∨ s.tick = true) := by
  have hg := good_run acts init s good_init hr
  constructor
  · intro hi
    have := hg.tmr3 (by simp [hi, timedArmed])
    exact ⟨this.1, this.2, hg.pub2 (by simp [hi, published])⟩
  · intro n res seen hret
    exact hg.tmr2 (by simp [hret, timedArmed])

/-- **C07_timeout_pure.** A call changes the buffered length only through `consume`, which the model enables only
after a successful call: a timed-out (or failed) call consumes nothing. -/
theorem C07_timeout_pure (s s' : S) (k : Nat) (h : step s (.consume k) = some s') :
    (s.results.head?.map (·.2.1)) = some .ok ∧ s.r = .idle := by
  simp only [step] at h
  split at h
  · rename_i hc; exact ⟨hc.2.2, hc.1⟩
  · simp at h

/-- non-vacuity: data arriving in two chunks around the n-th byte wakes an untimed reader; a timed reader times out
without data and the next call starts clean; an expired deadline times out at once; ErrEOF with `closing = user` -/
example : ((run init [.call 3 false, .rstep, .rstep, .rstep, .rstep, .deliver 2, .pstep, .pstep, .deliver 1, .pstep, .pstep, .pstep,
    .recvSlot, .rstep, .rstep]).map (fun s => (s.r, s.results))) = some (.idle, [(3, .ok, 3, false, false)]) := by rfl

example : ((run init [.call 5 true, .rstep, .rstep, .rstep, .rstep, .rstep, .fire, .recvTick, .rstep, .rstep]).map
    (fun s => (s.r, s.results))) = some (.idle, [(5, .timeout, 0, false, false)]) := by rfl
example : ((run init [.call 5 true, .rstep, .rstep, .rstep, .rstep, .rstep, .fire, .recvTick, .rstep, .rstep]).map
    (fun s => (s.timerRunning, s.tick, s.waitSize))) = some (false, false, 0) := by rfl
example : ((run init [.callX 5, .rstep, .rstep, .rstep]).map (fun s => (s.r, s.results, s.waitSize))) =
    some (.idle, [(5, .timeout, 0, false, false)], 0) := by rfl
example : ((run init [.call 2 false, .rstep, .rstep, .rstep, .rstep, .closePeer, .cstep, .forceUser, .recvSlot, .rstep, .rstep]).map
    (fun s => (s.results, s.closing))) = some ([(2, .errEOF, 0, true, true)], 1) := by rfl
/-- D20's failing history on the repaired code: the running reader has seen Len() = 0, the poller books its 3 bytes, the
hang-up wins closeBy(poller), the reader loads closing = poller, looks again and returns success (before the fix: ErrEOF);
and a close with the bytes missing still gives the close error (the hypothesis of the theorem is satisfiable) -/
example : ((run init [.call 3 false, .rstep, .rstep, .rstep, .deliver 3, .pstep, .pstep, .pstep, .closePeer, .cstep,
    .rstep, .rstep, .rstep]).map (fun s => (s.r, s.results))) = some (.idle, [(3, .ok, 3, true, false)]) := by rfl
example : ((run init [.call 3 false, .rstep, .rstep, .rstep, .rstep, .deliver 3, .pstep, .closeUser, .cstep, .recvSlot,
    .rstep, .rstep]).map (fun s => (s.r, s.results))) = some (.idle, [(3, .ok, 3, false, true)]) := by rfl
example : ((run init [.call 3 false, .rstep, .rstep, .rstep, .deliver 2, .pstep, .pstep, .closePeer, .cstep,
    .rstep, .rstep, .rstep]).map (fun s => (s.r, s.results))) = some (.idle, [(3, .errEOF, 2, true, false)]) := by rfl

end Netpoll.Props.C07
