import Netpoll.ShardInv.Final
import Netpoll.ShardInv.Variant
/-!
# C17 – ShardQueue executes every added writer once and flushes it

Property theorems over the interleaving model `Netpoll.Shard` (one model step per atomic step of
/repo/mux/shard_queue.go; any number of concurrent `Add` and `Close` calls, any number of shards,
any schedule).  Helper lemmas and the invariant are in `Netpoll/ShardInv/*.lean`.

Contract (`InContract`): at least one shard, every `Add` carries at least one getter, fewer than
2³¹ `Add` calls.  Outside it the code really misbehaves: see the three witnesses at the end.
-/
namespace Netpoll.Props.C17
open Netpoll.Shard

/-! ## helpers for the non-vacuity examples -/

def rep (k : Nat) (a : Act) : List Act := List.replicate k a

/-- two Adds on two shards while the worker is delayed, then everything runs to quiescence -/
def demo : List Act :=
  [.add 1, .add 2] ++ rep 11 (.adder 0) ++ rep 9 (.adder 1) ++ rep 19 (.wk false false) ++ [.tail .recheck, .tail .cas]

/-! ## safety -/

/-- each getter is invoked at most once – in every reachable state, in or out of contract -/
theorem C17_once (n : Nat) (s : S) (h : Reachable n s) (id : Nat) : s.invoked.count id ≤ 1 := by
  have hi := (good_reachable n s h).ids.i1 id
  split at hi <;> omega

/-- … and an id that was invoked is nowhere else (not in a shard, not with an adder, not ignored) -/
theorem C17_invoked_is_gone (n : Nat) (s : S) (h : Reachable n s) (id : Nat) (hi : 0 < s.invoked.count id) :
    s.getters.flatten.count id = 0 ∧ s.work.count id = 0 ∧ s.ignored.count id = 0 ∧ tally (aGts id) s.adders = 0 := by
  have hi := (good_reachable n s h).ids.i1 id
  split at hi <;> omega

/-- only one goroutine at a time runs the part of the worker that uses `q.r` / `q.swap` -/
theorem C17_single_worker (n : Nat) (s : S) (h : Reachable n s) : s.clash = 0 :=
  (good_reachable n s h).ex.x1

/-- the shard locks and the list lock are exclusive (so "append", "swap" and "ring write" are atomic steps) -/
theorem C17_locks_exclusive (n : Nat) (s : S) (h : Reachable n s) :
    (∀ (sh v : Nat), s.locks[sh]? = some v → tally (aLk sh) s.adders + wLk s sh = v ∧ v ≤ 1) ∧
    tally aLL s.adders = s.listLock ∧ s.listLock ≤ 1 := by
  have hl := (good_reachable n s h).lk
  exact ⟨fun sh v hv => ⟨(hl.l1 sh v hv).symm, hl.l3 sh v hv⟩, hl.l2.symm, hl.l4⟩

/-- the ring never overwrites an unconsumed entry: at most `size` entries are unconsumed, each of
    them still sits in its slot, and an adder about to write finds a free slot -/
theorem C17_ring_safe (n : Nat) (s : S) (h : Reachable n s) (hc : s.emptyAdds = 0) :
    s.ring.length ≤ s.size ∧
    (∀ (k x : Nat), s.ring[k]? = some x → s.list[(s.nRead + 1 + k) % s.size]? = some x) ∧
    (∀ (i : Nat) (a : Adder), s.adders[i]? = some a → a.pc = .lWrite → s.ring.length < s.size) := by
  have hG := good_reachable n s h
  obtain ⟨hR, hP⟩ := hG.rp hc
  exact ⟨ring_len_le s hG.st hR hP, hR.r4, fun i a ha hpc => ring_len_lt s i a hG.st hR hP ha hpc⟩

example : ∃ s, Reachable 2 s ∧ s.emptyAdds = 0 ∧ s.ring = [1, 0] ∧ s.invoked = [] :=
  ⟨final 2 ([.add 1, .add 2] ++ rep 11 (.adder 0) ++ rep 9 (.adder 1)), reachable_final _ _ (by decide), by decide⟩

/-! ## quiescence: no lost trigger, every getter invoked exactly once and flushed -/

/-- **no lost trigger**: when no actor of the queue can move any more, `trigger = 0`, the ring and
    every shard are empty, and no Add, worker or Close is in flight -/
theorem C17_no_lost_trigger (n : Nat) (s : S) (h : Reachable n s) (hc : InContract s) (hq : Quiescent s) :
    s.trigger = 0 ∧ s.ring = [] ∧ (∀ (sh : Nat) (g : List Nat), s.getters[sh]? = some g → g = []) ∧
    s.wpc = .idle ∧ s.work = [] ∧
    (∀ (i : Nat) (a : Adder), s.adders[i]? = some a → a.pc = .done ∨ a.pc = .panicked) := by
  have hG := good_reachable n s h
  obtain ⟨ht, hw, hA⟩ := quiescent_settled s hG hc (quiescentQ_of_quiescent s hq)
  have hall : ∀ (i : Nat) (a : Adder), s.adders[i]? = some a → a.pc = .state ∨ a.pc = .done ∨ a.pc = .panicked :=
    fun i a ha => Or.inr (hA i a ha)
  obtain ⟨h1, h2, h3, _⟩ := idle_all_handled s hG hc.2.1 ht hall
  exact ⟨ht, h1, h2, hw, h3, hA⟩

/-- **exactly once, and flushed**: at quiescence of an in-contract execution whose connection is
    still alive, every getter that was not ignored (its Add saw the queue closing/closed) has been
    invoked exactly once, and was either reported nil by the getter or is in the flushed data exactly
    once; nothing appended is left unflushed -/
theorem C17_exactly_once_flushed (n : Nat) (s : S) (h : Reachable n s) (hc : InContract s) (hq : Quiescent s)
    (hal : s.alive = true) (id : Nat) (hid : id < s.nextId) :
    s.wbuf = [] ∧
    (s.ignored.count id = 1 ∧ s.invoked.count id = 0 ∨
     s.ignored.count id = 0 ∧ s.invoked.count id = 1 ∧ s.notApp.count id + s.sent.count id = 1) := by
  have hG := good_reachable n s h
  obtain ⟨ht, hw, hA⟩ := quiescent_settled s hG hc (quiescentQ_of_quiescent s hq)
  have hall : ∀ (i : Nat) (a : Adder), s.adders[i]? = some a → a.pc = .state ∨ a.pc = .done ∨ a.pc = .panicked :=
    fun i a ha => Or.inr (hA i a ha)
  obtain ⟨_, _, _, h4⟩ := idle_all_handled s hG hc.2.1 ht hall
  have hi := h4 id
  have hg : tally (aGts id) s.adders = 0 :=
    tally_eq_zero _ (fun i a ha => by rcases hA i a ha with h | h <;> simp [aGts, aPre, h])
  have hsk := hG.ms.m1 hal
  have hlost := (hG.ms.m2 hc.2.2).1
  have hwb : s.wbuf = [] := by
    apply Classical.byContradiction
    intro hne
    have := hG.ids.i3 hal hne
    simp [hw] at this
  have hi2 := hG.ids.i2 id
  rw [hg, hsk, hlost] at hi
  rw [hwb] at hi2
  simp [hid] at hi hi2
  refine ⟨hwb, ?_⟩
  omega

/-- without the connection staying alive: every getter is still accounted for exactly once –
    ignored, invoked, or dropped by `deal` because the connection was not active -/
theorem C17_quiescent_accounted (n : Nat) (s : S) (h : Reachable n s) (hc : InContract s) (hq : Quiescent s)
    (id : Nat) (hid : id < s.nextId) :
    s.ignored.count id + s.skipped.count id + s.invoked.count id = 1 := by
  have hG := good_reachable n s h
  obtain ⟨ht, hw, hA⟩ := quiescent_settled s hG hc (quiescentQ_of_quiescent s hq)
  have hall : ∀ (i : Nat) (a : Adder), s.adders[i]? = some a → a.pc = .state ∨ a.pc = .done ∨ a.pc = .panicked :=
    fun i a ha => Or.inr (hA i a ha)
  obtain ⟨_, _, _, h4⟩ := idle_all_handled s hG hc.2.1 ht hall
  have hi := h4 id
  have hg : tally (aGts id) s.adders = 0 :=
    tally_eq_zero _ (fun i a ha => by rcases hA i a ha with h | h <;> simp [aGts, aPre, h])
  have hlost := (hG.ms.m2 hc.2.2).1
  rw [hg, hlost] at hi
  simp [hid] at hi
  omega

/-- while the queue is active nothing is ignored (so with no Close every getter is invoked once) -/
theorem C17_nothing_ignored_while_active (n : Nat) (s : S) (h : Reachable n s) (ha : s.state = active) :
    s.ignored = [] :=
  ((good_reachable n s h).ms.m3 ha).1

/-- the hypotheses of the quiescence theorems are met by a non-trivial run: two concurrent Adds
    (3 getters) on 2 shards, delayed worker; at the end all three were invoked, in ring order, and flushed -/
example : ∃ s, Reachable 2 s ∧ InContract s ∧ Quiescent s ∧ s.alive = true ∧ s.nextId = 3 ∧
    s.invoked = [0, 1, 2] ∧ s.sent = [0, 1, 2] ∧ s.trigger = 0 := by
  refine ⟨final 2 demo, reachable_final _ _ (by decide), by decide, ?_, by decide⟩
  exact quiescent_of_settled _ (by decide) (by decide) (by decide)

/-! ## termination under fairness: a variant, and no deadlock -/

/-- **variant**: every step of an Add call, of the loop worker or of a tail worker strictly decreases
    the lexicographic measure `(mA, mB, mC)` (remaining adder steps; spawns still possible while no adder
    moves; ring entries, queued getters and program-counter positions) -/
theorem C17_variant (n : Nat) (s s' : S) (a : Act) (h : Reachable n s) (hq : a.isQueue = true)
    (hs : step s a = some s') : mLt s' s := by
  have hG := good_reachable n s h
  cases a with
  | add _ => cases hq
  | close => cases hq
  | die => cases hq
  | closer _ => cases hq
  | adder i => exact Or.inl (variant_adder s s' i hs)
  | wk nl e => have := variant_worker s s' nl e hG.tr hG.ids hs; exact Or.inr this
  | tail pc => have := variant_tail s s' pc hs; exact Or.inr this

/-- the order of the variant is well-founded: between two environment actions only finitely many
    Add / worker steps can happen, whatever the schedule -/
theorem C17_variant_wf : WellFounded mLt := mLt_wf

/-- Close calls never change the variant, and once `trigger = 0` each of their steps decreases `mD`
    (so a polling Close finishes after at most three more steps) -/
theorem C17_closer_variant (s s' : S) (pc : CPc) (hs : step s (.closer pc) = some s') :
    mA s' = mA s ∧ mB s' = mB s ∧ mC s' = mC s ∧ (s.trigger = 0 → mD s' < mD s) :=
  variant_closer s s' pc hs

/-- **no deadlock**: in an in-contract execution, as long as an Add call, the loop worker or a tail worker
    is in flight, one of them can take a step; and when none can, `trigger = 0` – so under a fair
    scheduler (every enabled actor eventually moves) and finitely many Add calls the queue reaches the
    state of `C17_no_lost_trigger`, and polling Close calls then return by `C17_closer_variant`. -/
theorem C17_no_deadlock (n : Nat) (s : S) (h : Reachable n s) (hc : InContract s) (hq : QuiescentQ s) :
    s.trigger = 0 ∧ s.wpc = .idle ∧ s.tRecheck + s.tRun + s.tSpawn + s.tCas = 0 ∧
    (∀ (i : Nat) (a : Adder), s.adders[i]? = some a → a.pc = .done ∨ a.pc = .panicked) := by
  have hG := good_reachable n s h
  obtain ⟨ht, hw, hA⟩ := quiescent_settled s hG hc hq
  obtain ⟨c1, c2, c3, c4⟩ := quiescent_tails s hq
  exact ⟨ht, hw, by omega, hA⟩

/-- non-vacuity: a reachable state in which the worker is about to start on two ring entries and three getters -/
example : ∃ s, Reachable 2 s ∧ (step s (.wk false false)).isSome = true ∧ mA s = 0 ∧ mB s = 0 ∧ mC s = 26 :=
  ⟨final 2 ([.add 1, .add 2] ++ rep 11 (.adder 0) ++ rep 9 (.adder 1)), reachable_final _ _ (by decide), by decide⟩

/-! ## Close -/

set_option linter.unusedSimpArgs false in
/-- the state word never returns to `active` -/
theorem C17_close_is_final (s s' : S) (a : Act) (hs : step s a = some s') (h : s.state ≠ active) :
    s'.state ≠ active := by
  cases a with
  | add n => simp only [step] at hs; cases hs; exact h
  | close => simp only [step] at hs; cases hs; exact h
  | die => simp only [step] at hs; cases hs; exact h
  | adder i =>
    simp only [step, stepAdder] at hs
    (repeat' split at hs) <;> (try cases hs) <;> simp_all [setAdder, spawnWorker]
  | wk n e =>
    simp only [step, stepWorker] at hs
    (repeat' split at hs) <;> (try cases hs) <;> simp_all [endDeal]
  | tail pc =>
    cases pc <;> simp only [step, stepTail] at hs <;>
    (repeat' split at hs) <;> (try cases hs) <;> simp_all [spawnWorker, active, closed,
      Netpoll.Gen.c_mux_active, Netpoll.Gen.c_mux_closed]
  | closer pc =>
    cases pc <;> simp only [step, stepCloser] at hs <;>
    (repeat' split at hs) <;> (try cases hs) <;> simp_all [active, closing, closed,
      Netpoll.Gen.c_mux_active, Netpoll.Gen.c_mux_closing, Netpoll.Gen.c_mux_closed]

/-- **Adds after Close are ignored**: an Add whose state check comes after a Close's CAS returns at
    once; its getters go nowhere but the ghost `ignored` list and no shared word changes -/
theorem C17_add_after_close_ignored (s : S) (i : Nat) (a : Adder) (ha : s.adders[i]? = some a)
    (hpc : a.pc = .state) (hst : s.state ≠ active) :
    ∃ s', step s (.adder i) = some s' ∧ s'.adders[i]? = some { a with pc := .done } ∧
      s'.ignored = s.ignored ++ a.gts ∧ s'.getters = s.getters ∧ s'.trigger = s.trigger ∧ s'.idx = s.idx ∧
      s'.list = s.list ∧ s'.w = s.w ∧ s'.locks = s.locks ∧ s'.runNum = s.runNum ∧ s'.invoked = s.invoked := by
  refine ⟨_, by simp [step, stepAdder, ha, hpc, hst]; rfl, ?_⟩
  have hlt : i < s.adders.length := by
    apply Classical.byContradiction; intro hh
    rw [List.getElem?_eq_none (by omega)] at ha; cases ha
  simp [setAdder, hlt]

/-- … and an ignored getter is never invoked (in any later reachable state it is still only in `ignored`) -/
theorem C17_ignored_never_invoked (n : Nat) (s : S) (h : Reachable n s) (id : Nat) (hi : id ∈ s.ignored) :
    s.invoked.count id = 0 ∧ s.getters.flatten.count id = 0 ∧ s.work.count id = 0 := by
  have h1 := (good_reachable n s h).ids.i1 id
  have : 0 < s.ignored.count id := List.count_pos_iff.mpr hi
  split at h1 <;> omega

example : ∃ s, Reachable 1 s ∧ s.state ≠ active ∧ (step s (.adder 0)).map (·.ignored) = some [0, 1] :=
  ⟨final 1 [.add 2, .close, .closer .cas], reachable_final _ _ (by decide), by decide⟩

/-- a `Close` leaves its wait loop through the store only after loading `trigger = 0`, and returns nil
    on the other path only after loading `state = closed` -/
theorem C17_close_returns_on_zero (s s' : S) (pc : CPc) (hs : step s (.closer pc) = some s')
    (hret : s'.closeOk = s.closeOk + 1 ∨ s'.cStore = s.cStore + 1) :
    (pc = .trig ∧ s.trigger = 0) ∨ (pc = .state ∧ s.state = closed) ∨ pc = .store := by
  cases pc <;> simp only [step, stepCloser] at hs <;> (repeat' split at hs) <;> (try cases hs) <;> simp_all <;> omega

/-- **Close waits (partial)**: at an instant where `trigger = 0` – what `Close` (or the worker's
    exit check, which stores `closed`) observes – and no Add call is between its state check and its
    return, the ring and all shards are empty and every getter is accounted for outside the queue:
    ignored, invoked, dropped for a dead connection, or still with an Add that has not checked the
    state yet.  PARTIAL: it is about the instant of the observation, not about the return of `Close`:
    needs "no Add in flight" (see `C17_close_early_witness`), the worker's observation may be stale by
    the time it stores `closed` (see `C17_close_stale_exit_witness`), and it says "invoked", not
    "flushed" – the worker's flush may come after `Close` has returned. -/
theorem C17_close_waits_partial (n : Nat) (s : S) (h : Reachable n s) (hc : s.emptyAdds = 0) (ht : s.trigger = 0)
    (hall : ∀ (i : Nat) (a : Adder), s.adders[i]? = some a → a.pc = .state ∨ a.pc = .done ∨ a.pc = .panicked) :
    s.ring = [] ∧ (∀ (sh : Nat) (g : List Nat), s.getters[sh]? = some g → g = []) ∧ s.work = [] ∧
    (∀ id : Nat, id < s.nextId → tally (aGts id) s.adders + s.ignored.count id + s.lost.count id +
        s.skipped.count id + s.invoked.count id = 1) := by
  obtain ⟨h1, h2, h3, h4⟩ := idle_all_handled s (good_reachable n s h) hc ht hall
  refine ⟨h1, h2, h3, fun id hid => ?_⟩
  have := h4 id
  simpa [hid] using this

/-- non-vacuity: Close observing `trigger = 0` after a completed Add whose getter has been invoked -/
example : ∃ s, Reachable 1 s ∧ s.emptyAdds = 0 ∧ s.trigger = 0 ∧ s.cTrig = 1 ∧ s.invoked = [0] ∧
    s.adders.all (fun a => decide (a.pc = .done)) = true :=
  ⟨final 1 ([.add 1, .close] ++ rep 11 (.adder 0) ++ rep 9 (.wk false false) ++ [.closer .cas, .closer .state]),
    reachable_final _ _ (by decide), by decide⟩

/-! ## witnesses: where the unchanged code violates the property -/

def closeEarly : List Act :=
  [.add 1, .add 1, .close] ++ rep 5 (.adder 0) ++ rep 5 (.adder 1) ++
  [.closer .cas, .closer .state, .closer .trig, .closer .store]

/-- **Close returns early** (in contract): Add A0 has made the only shard non-empty and is preempted
    before `triggering`; Add A1 appends to the same shard and returns; `Close` sees `trigger = 0`,
    stores `closed` and returns nil – while A1's getter (added by a call that returned before `Close`
    was even called) has not been invoked.  It is invoked later, when A0 resumes. -/
theorem C17_close_early_witness :
    ∃ s, Reachable 1 s ∧ InContract s ∧ s.closeOk = 1 ∧ s.state = closed ∧
      s.adders[1]? = some { pc := .done, gts := [1], shard := 0, wasEmpty := false } ∧
      s.getters = [[0, 1]] ∧ s.invoked = [] :=
  ⟨final 1 closeEarly, reachable_final _ _ (by decide), by decide⟩

def closeStale : List Act :=
  [.add 1, .add 1, .close] ++ rep 11 (.adder 0) ++ rep 11 (.wk false false) ++ [.tail .recheck] ++
  rep 11 (.adder 1) ++ [.closer .cas, .closer .state, .closer .trig, .tail .cas, .closer .state]

/-- **Close returns early, no Add in flight** (in contract): a worker has passed its exit check
    (`trigger = 0`) and is preempted before its `CAS(closing → closed)`; a second Add runs to completion
    (its getter is in the shard, `trigger = 1`, a new worker is spawned but has not run); `Close` sets
    `closing` and waits; the old worker's stale CAS now stores `closed`; `Close` loads `closed` and
    returns nil with `trigger = 1` and the getter not invoked.  (It is invoked later by the new worker.) -/
theorem C17_close_stale_exit_witness :
    ∃ s, Reachable 1 s ∧ InContract s ∧ s.closeOk = 1 ∧ s.state = closed ∧ s.trigger = 1 ∧
      s.adders.all (fun a => decide (a.pc = .done)) = true ∧ s.getters = [[1]] ∧ s.invoked = [0] :=
  ⟨final 1 closeStale, reachable_final _ _ (by decide), by decide⟩

def emptyAdd : List Act :=
  [.add 1, .add 0, .add 1, .add 0] ++ rep 11 (.adder 0) ++ rep 9 (.adder 1) ++ rep 5 (.adder 2) ++
  rep 9 (.adder 3) ++ rep 22 (.wk false false) ++ [.tail .recheck, .tail .cas]

/-- **`Add()` without getters can strand a shard** (out of contract: `emptyAdds > 0`): an empty Add
    "triggers" every time it finds its shard empty; two of them while the worker is delayed wrap the
    ring over the entry of shard 1, the worker swaps shard 0 three times, and the system is quiescent,
    active and alive with getters 0 and 1 never invoked.  Shard 1 stays non-empty, so no later Add to
    it triggers either. -/
theorem C17_empty_add_witness :
    ∃ s, Reachable 2 s ∧ Quiescent s ∧ s.alive = true ∧ s.state = active ∧ s.idx = 4 ∧ s.emptyAdds = 2 ∧
      s.trigger = 0 ∧ s.getters = [[], [0, 1]] ∧ s.invoked = [] := by
  refine ⟨final 2 emptyAdd, reachable_final _ _ (by decide), ?_, by decide⟩
  exact quiescent_of_settled _ (by decide) (by decide) (by decide)

/-- **`idx` wraps** (out of contract: more than 2³¹ Adds): `q.idx` is an `int32`; with 2 shards the Add
    that increments it to −2³¹+1 computes `% 2 = −1` and panics indexing `q.locks` – its getters are lost.
    (Stated for the step, from a state with that counter value; reaching it takes 2³¹ Adds.) -/
theorem C17_idx_wrap_witness :
    (stepAdder { init 2 with idx := 2147483648, nextId := 1, adders := [{ pc := .idx, gts := [0] }] } 0).map
      (fun s => (s.adders.map (·.pc), s.lost, s.panics)) = some ([.panicked], [0], 1) := by
  decide

end Netpoll.Props.C17
