import Netpoll.ShardInv.Final
import Netpoll.ShardInv.Variant
import Netpoll.ShardInv.CloseWaits
/-!
# C17 – ShardQueue executes every added writer once and flushes it

Property theorems over the interleaving model `Netpoll.Shard` (one model step per atomic step of
/repo/mux/shard_queue.go; any number of concurrent `Add` and `Close` calls, any number of shards,
any schedule).  Helper lemmas and the invariant are in `Netpoll/ShardInv/*.lean`.

Contract (`InContract`): at least one shard (`NewShardQueue(0, …)` is a division by zero in `Add`).
`Add()` without getters and more than 2³¹ `Add` calls are in contract (the model mirrors the repaired
code: an empty Add returns at once, the shard index is taken from `uint32(idx)`), and `Close` is proved
to wait for every getter added before it (`C17_close_waits`) – the four defects these clauses used to
exclude are fixed in /repo and kept as corpus replays.
-/
namespace Netpoll.Props.C17
open Netpoll.Shard

/-! ## helpers for the non-vacuity examples -/

def rep (k : Nat) (a : Act) : List Act := List.replicate k a

/-- two Adds on two shards while the worker is delayed, then everything runs to quiescence -/
def demo : List Act :=
  [.add 1, .add 2] ++ rep 11 (.adder 0) ++ rep 9 (.adder 1) ++ rep 19 (.wk false false) ++ [.tail .recheck]

/-! ## safety -/

/-- each getter is invoked at most once – in every reachable state, in or out of contract -/
theorem C17_once (n : Nat) (s : S) (h : Reachable n s) (id : Nat) : s.invoked.count id ≤ 1 := by
  have hi := (good_reachable n s h).ids.i1 id
  split at hi <;> omega

/-- … and an id that was invoked is nowhere else (not in a shard, not with an adder, not ignored) -/
theorem C17_invoked_is_gone (n : Nat) (s : S) (h : Reachable n s) (id : Nat) (hi : 0 < s.invoked.count id) :
    s.getters.flatten.count id = 0 ∧ s.work.count id = 0 ∧ s.ignored.count id = 0 ∧ tally (aGts id) s.adders = 0 := by
  have hi := (good_reachable n s h).ids.i1 id
  split at hi <;> omega

/-- only one goroutine at a time runs the part of the worker that uses `q.r` / `q.swap` -/
theorem C17_single_worker (n : Nat) (s : S) (h : Reachable n s) : s.clash = 0 :=
  (good_reachable n s h).ex.x1

/-- the shard locks and the list lock are exclusive (so "append", "swap" and "ring write" are atomic steps) -/
theorem C17_locks_exclusive (n : Nat) (s : S) (h : Reachable n s) :
    (∀ (sh v : Nat), s.locks[sh]? = some v → tally (aLk sh) s.adders + wLk s sh + cLk s sh = v ∧ v ≤ 1) ∧
    tally aLL s.adders = s.listLock ∧ s.listLock ≤ 1 := by
  have hl := (good_reachable n s h).lk
  exact ⟨fun sh v hv => ⟨(hl.l1 sh v hv).symm, hl.l3 sh v hv⟩, hl.l2.symm, hl.l4⟩

/-- the ring never overwrites an unconsumed entry: at most `size` entries are unconsumed, each of
    them still sits in its slot, and an adder about to write finds a free slot -/
theorem C17_ring_safe (n : Nat) (s : S) (h : Reachable n s) :
    s.ring.length ≤ s.size ∧
    (∀ (k x : Nat), s.ring[k]? = some x → s.list[(s.nRead + 1 + k) % s.size]? = some x) ∧
    (∀ (i : Nat) (a : Adder), s.adders[i]? = some a → a.pc = .lWrite → s.ring.length < s.size) := by
  have hG := good_reachable n s h
  have hR := hG.rg
  have hP := hG.pd
  exact ⟨ring_len_le s hG.st hR hP, hR.r4, fun i a ha hpc => ring_len_lt s i a hG.st hR hP ha hpc⟩

/-- non-vacuity, with an `Add()` without getters in between (it returns at once and leaves no ring entry) -/
example : ∃ s, Reachable 2 s ∧ s.ring = [1, 0] ∧ s.invoked = [] ∧ s.adders.length = 3 :=
  ⟨final 2 ([.add 1, .add 0, .add 2] ++ rep 11 (.adder 0) ++ rep 9 (.adder 2)), reachable_final _ _ (by decide), by decide⟩

/-! ## quiescence: no lost trigger, every getter invoked exactly once and flushed -/

/-- **no lost trigger**: when no actor of the queue can move any more, `trigger = 0`, the ring and
    every shard are empty, and no Add, worker or Close is in flight -/
theorem C17_no_lost_trigger (n : Nat) (s : S) (h : Reachable n s) (hc : InContract s) (hq : Quiescent s) :
    s.trigger = 0 ∧ s.ring = [] ∧ (∀ (sh : Nat) (g : List Nat), s.getters[sh]? = some g → g = []) ∧
    s.wpc = .idle ∧ s.work = [] ∧
    (∀ (i : Nat) (a : Adder), s.adders[i]? = some a → a.pc = .done) ∧ s.cCas = 0 ∧ s.cwin = none := by
  have hG := good_reachable n s h
  obtain ⟨ht, hw, hA⟩ := quiescent_settled s hG hc (quiescentQ_of_quiescent s hq)
  have hall : ∀ (i : Nat) (a : Adder), s.adders[i]? = some a → a.pc = .state ∨ a.pc = .done :=
    fun i a ha => Or.inr (hA i a ha)
  obtain ⟨h1, h2, h3, _⟩ := idle_all_handled s hG ht hall
  obtain ⟨hc1, hc2⟩ := quiescent_closers s hG hc hq
  exact ⟨ht, h1, h2, hw, h3, hA, hc1, hc2⟩

/-- **exactly once, and flushed**: at quiescence of an in-contract execution whose connection is
    still alive, every getter that was not ignored (its Add saw the queue closing/closed) has been
    invoked exactly once, and was either reported nil by the getter or is in the flushed data exactly
    once; nothing appended is left unflushed -/
theorem C17_exactly_once_flushed (n : Nat) (s : S) (h : Reachable n s) (hc : InContract s) (hq : Quiescent s)
    (hal : s.alive = true) (id : Nat) (hid : id < s.nextId) :
    s.wbuf = [] ∧
    (s.ignored.count id = 1 ∧ s.invoked.count id = 0 ∨
     s.ignored.count id = 0 ∧ s.invoked.count id = 1 ∧ s.notApp.count id + s.sent.count id = 1) := by
  have hG := good_reachable n s h
  obtain ⟨ht, hw, hA⟩ := quiescent_settled s hG hc (quiescentQ_of_quiescent s hq)
  have hall : ∀ (i : Nat) (a : Adder), s.adders[i]? = some a → a.pc = .state ∨ a.pc = .done :=
    fun i a ha => Or.inr (hA i a ha)
  obtain ⟨_, _, _, h4⟩ := idle_all_handled s hG ht hall
  have hi := h4 id
  have hg : tally (aGts id) s.adders = 0 :=
    tally_eq_zero _ (fun i a ha => by simp [aGts, aPre, hA i a ha])
  have hsk := hG.ms.m1 hal
  have hwb : s.wbuf = [] := by
    apply Classical.byContradiction
    intro hne
    have := hG.ids.i3 hal hne
    simp [hw] at this
  have hi2 := hG.ids.i2 id
  rw [hg, hsk] at hi
  rw [hwb] at hi2
  simp [hid] at hi hi2
  refine ⟨hwb, ?_⟩
  omega

/-- without the connection staying alive: every getter is still accounted for exactly once –
    ignored, invoked, or dropped by `deal` because the connection was not active -/
theorem C17_quiescent_accounted (n : Nat) (s : S) (h : Reachable n s) (hc : InContract s) (hq : Quiescent s)
    (id : Nat) (hid : id < s.nextId) :
    s.ignored.count id + s.skipped.count id + s.invoked.count id = 1 := by
  have hG := good_reachable n s h
  obtain ⟨ht, hw, hA⟩ := quiescent_settled s hG hc (quiescentQ_of_quiescent s hq)
  have hall : ∀ (i : Nat) (a : Adder), s.adders[i]? = some a → a.pc = .state ∨ a.pc = .done :=
    fun i a ha => Or.inr (hA i a ha)
  obtain ⟨_, _, _, h4⟩ := idle_all_handled s hG ht hall
  have hi := h4 id
  have hg : tally (aGts id) s.adders = 0 :=
    tally_eq_zero _ (fun i a ha => by simp [aGts, aPre, hA i a ha])
  rw [hg] at hi
  simp [hid] at hi
  omega

/-- while the queue is active nothing is ignored (so with no Close every getter is invoked once) -/
theorem C17_nothing_ignored_while_active (n : Nat) (s : S) (h : Reachable n s) (ha : s.state = active) :
    s.ignored = [] :=
  ((good_reachable n s h).ms.m3 ha).1

/-- the hypotheses of the quiescence theorems are met by a non-trivial run: two concurrent Adds
    (3 getters) on 2 shards, delayed worker; at the end all three were invoked, in ring order, and flushed -/
example : ∃ s, Reachable 2 s ∧ InContract s ∧ Quiescent s ∧ s.alive = true ∧ s.nextId = 3 ∧
    s.invoked = [0, 1, 2] ∧ s.sent = [0, 1, 2] ∧ s.trigger = 0 := by
  refine ⟨final 2 demo, reachable_final _ _ (by decide), by decide, ?_, by decide⟩
  exact quiescent_of_settled _ (by decide) (by decide) (by decide)

/-- … and by one that crosses the `int32` wrap of `idx`, with an `Add()` without getters in between: the queue
    starts 2 increments below 2³¹ (a state that takes 2³¹−2 earlier Adds to reach), three Adds carry getters;
    the shard index stays in range (1, 0, 1) and all three getters are invoked and flushed -/
example :
    let s₀ : S := { init 2 with idx := 2147483646 }
    let r := run s₀ ([.add 1, .add 0, .add 1, .add 1] ++ rep 11 (.adder 0) ++ rep 9 (.adder 2) ++ rep 5 (.adder 3) ++
                     rep 19 (.wk false false) ++ [.tail .recheck])
    let s := r.getD s₀
    r.isSome = true ∧ s.idx = 2147483649 ∧ wrap32 s.idx = -2147483647 ∧ s.adders.map (·.shard) = [1, 0, 0, 1] ∧
    s.adders.all (fun a => decide (a.pc = .done)) = true ∧ s.invoked = [0, 2, 1] ∧ s.sent = [0, 2, 1] ∧
    s.trigger = 0 ∧ s.getters = [[], []] := by
  decide

/-! ## termination under fairness: a variant, and no deadlock -/

/-- **variant**: every step of an Add call, of the loop worker or of a tail worker strictly decreases
    the lexicographic measure `(mA, mB, mC)` (remaining adder steps; spawns still possible while no adder
    moves; ring entries, queued getters and program-counter positions) -/
theorem C17_variant (n : Nat) (s s' : S) (a : Act) (h : Reachable n s) (hq : a.isQueue = true)
    (hs : step s a = some s') : mLt s' s := by
  have hG := good_reachable n s h
  cases a with
  | add _ => cases hq
  | close => cases hq
  | die => cases hq
  | closer _ => cases hq
  | adder i => exact Or.inl (variant_adder s s' i hs)
  | wk nl e => have := variant_worker s s' nl e hG.tr hG.ids hs; exact Or.inr this
  | tail pc => have := variant_tail s s' pc hs; exact Or.inr this

/-- the order of the variant is well-founded: between two environment actions only finitely many
    Add / worker steps can happen, whatever the schedule -/
theorem C17_variant_wf : WellFounded mLt := mLt_wf

/-- Close calls never change the variant, and once the queue is drained (every shard empty, `trigger = 0`)
    each of their steps decreases the well-founded measure `cLt` (calls before their CAS, remaining steps of the
    call that won it): a polling Close then returns after at most one more pass over the shards -/
theorem C17_closer_variant (n : Nat) (s s' : S) (pc : CPc) (h : Reachable n s) (hs : step s (.closer pc) = some s') :
    mA s' = mA s ∧ mB s' = mB s ∧ mC s' = mC s ∧
    ((s.trigger = 0 ∧ ∀ (sh : Nat) (g : List Nat), s.getters[sh]? = some g → g = []) → cLt s' s) :=
  variant_closer s s' pc (good_reachable n s h).st hs

theorem C17_closer_variant_wf : WellFounded cLt := cLt_wf

/-- **no deadlock**: in an in-contract execution, as long as an Add call, the loop worker or a tail worker
    is in flight, one of them – or the Close call that holds a shard lock inside `drained`, which is never
    blocked there – can take a step; and when none can, `trigger = 0`, every shard is empty and no lock is held –
    so under a fair scheduler (every enabled actor eventually moves) and finitely many Add calls the queue
    reaches the state of `C17_no_lost_trigger`, and polling Close calls then return by `C17_closer_variant`. -/
theorem C17_no_deadlock (n : Nat) (s : S) (h : Reachable n s) (hc : InContract s) (hq : QuiescentQ s) :
    s.trigger = 0 ∧ s.wpc = .idle ∧ s.tRecheck + s.tRun + s.tSpawn = 0 ∧
    (∀ (i : Nat) (a : Adder), s.adders[i]? = some a → a.pc = .done) ∧
    (∀ (sh : Nat) (g : List Nat), s.getters[sh]? = some g → g = []) ∧
    (∀ (sh v : Nat), s.locks[sh]? = some v → v = 0) := by
  have hG := good_reachable n s h
  obtain ⟨ht, hw, hA⟩ := quiescent_settled s hG hc hq
  obtain ⟨c1, c2, c3⟩ := quiescent_tails s hq
  have hall : ∀ (i : Nat) (a : Adder), s.adders[i]? = some a → a.pc = .state ∨ a.pc = .done :=
    fun i a ha => Or.inr (hA i a ha)
  obtain ⟨_, h2, _, _⟩ := idle_all_handled s hG ht hall
  exact ⟨ht, hw, by omega, hA, h2, fun sh v hv => lock_free_of_quiescent s hG hc hq sh v hv⟩

/-- non-vacuity: a reachable state in which the worker is about to start on two ring entries and three getters -/
example : ∃ s, Reachable 2 s ∧ (step s (.wk false false)).isSome = true ∧ mA s = 0 ∧ mB s = 0 ∧ mC s = 26 :=
  ⟨final 2 ([.add 1, .add 2] ++ rep 11 (.adder 0) ++ rep 9 (.adder 1)), reachable_final _ _ (by decide), by decide⟩

/-! ## Close -/

set_option linter.unusedSimpArgs false in
/-- the state word never returns to `active` -/
theorem C17_close_is_final (s s' : S) (a : Act) (hs : step s a = some s') (h : s.state ≠ active) :
    s'.state ≠ active :=
  (snap_stable_step s s' a hs h).2

/-- at most one `Close` call is past its CAS: while the queue is active none is, and the CAS only succeeds
    on an active queue (so the model's single slot `cwin` for the call inside `drained` loses nothing) -/
theorem C17_single_closer (n : Nat) (s : S) (h : Reachable n s) :
    (s.state = active → s.cwin = none ∧ s.closeOk = 0) ∧ (0 < s.closeOk → s.cwin = none) ∧
    (∀ s', step s (.closer .cas) = some s' → s.cwin ≠ none → s'.cwin = s.cwin ∧ s'.closeErr = s.closeErr + 1) := by
  have hG := good_reachable n s h
  refine ⟨fun ha => ⟨(hG.ms.m3 ha).2.2.1, (hG.ms.m3 ha).2.1⟩, hG.cl.c4, ?_⟩
  intro s' hs hne
  have hna : s.state ≠ active := fun ha => hne (hG.ms.m3 ha).2.2.1
  simp only [step, stepCloser] at hs
  (repeat' split at hs) <;> (try cases hs) <;> simp_all

/-- **Adds after Close are ignored**: an Add whose state check comes after a Close's CAS returns at
    once; its getters go nowhere but the ghost `ignored` list and no shared word changes -/
theorem C17_add_after_close_ignored (s : S) (i : Nat) (a : Adder) (ha : s.adders[i]? = some a)
    (hpc : a.pc = .state) (hst : s.state ≠ active) :
    ∃ s', step s (.adder i) = some s' ∧ s'.adders[i]? = some { a with pc := .done } ∧
      s'.ignored = s.ignored ++ a.gts ∧ s'.getters = s.getters ∧ s'.trigger = s.trigger ∧ s'.idx = s.idx ∧
      s'.list = s.list ∧ s'.w = s.w ∧ s'.locks = s.locks ∧ s'.runNum = s.runNum ∧ s'.invoked = s.invoked := by
  refine ⟨_, by simp [step, stepAdder, ha, hpc, hst]; rfl, ?_⟩
  have hlt : i < s.adders.length := by
    apply Classical.byContradiction; intro hh
    rw [List.getElem?_eq_none (by omega)] at ha; cases ha
  simp [setAdder, hlt]

/-- … and an ignored getter is never invoked (in any later reachable state it is still only in `ignored`) -/
theorem C17_ignored_never_invoked (n : Nat) (s : S) (h : Reachable n s) (id : Nat) (hi : id ∈ s.ignored) :
    s.invoked.count id = 0 ∧ s.getters.flatten.count id = 0 ∧ s.work.count id = 0 := by
  have h1 := (good_reachable n s h).ids.i1 id
  have : 0 < s.ignored.count id := List.count_pos_iff.mpr hi
  split at h1 <;> omega

example : ∃ s, Reachable 1 s ∧ s.state ≠ active ∧ (step s (.adder 0)).map (·.ignored) = some [0, 1] :=
  ⟨final 1 [.add 2, .close, .closer .cas], reachable_final _ _ (by decide), by decide⟩

/-- a `Close` returns nil only through its store, which it reaches only from the load of `trigger = 0`, which it
    reaches only after a pass over all shards in which every one was found empty under its lock -/
theorem C17_close_returns_on_drained (s s' : S) (pc : CPc) (hs : step s (.closer pc) = some s') :
    (s'.closeOk = s.closeOk + 1 → pc = .store ∧ s.cwin = some .store) ∧
    (s'.cwin = some .store → s.cwin ≠ some .store → pc = .trig ∧ s.trigger = 0) ∧
    (s'.cwin = some .trig → s.cwin ≠ some .trig → (pc = .unlock ∧ s.cN = 0 ∧ s.size ≤ s.cShard + 1) ∨ s.size = 0) ∧
    (s'.cwin = some .lock → s'.cShard = s.cShard + 1 → pc = .unlock ∧ s.cN = 0) := by
  cases pc <;> simp only [step, stepCloser] at hs <;> (repeat' split at hs) <;> (try cases hs) <;>
    simp_all [enterDrained] <;> (try split) <;> simp_all <;> omega

/-- **Close waits**: when a `Close` call returns nil (`closeOk > 0` – only the call whose CAS won can), every
    getter that was queued at its CAS – in a shard, swapped out, or in the worker's hands, whether the Add
    that appended it had returned or not – has been invoked or was dropped by `deal` because the connection
    was not active.  `s₁` is the state at the CAS, `s₂` any later state. -/
theorem C17_close_waits_queued (n : Nat) (acts₁ acts₂ : List Act) (s₁ s₁' s₂ : S)
    (h₁ : run (init n) acts₁ = some s₁) (hwin : s₁.state = active) (hcas : step s₁ (.closer .cas) = some s₁')
    (h₂ : run s₁' acts₂ = some s₂) (hret : 0 < s₂.closeOk) (id : Nat) (hid : id ∈ queued s₁) :
    id ∈ s₂.invoked ∨ id ∈ s₂.skipped := by
  obtain ⟨c1, c2, _, _⟩ := cas_snapshot s₁ s₁' hcas hwin
  have hsnap := snap_stable_run acts₂ s₁' s₂ h₂ c2
  have hG₂ : Good s₂ := good_run acts₂ s₁' s₂ (good_step s₁ s₁' _ (good_reachable n s₁ ⟨acts₁, h₁⟩) hcas) h₂
  have := snap_handled s₂ hG₂ hret id (by rw [hsnap, c1]; exact hid)
  by_cases hi : 0 < s₂.invoked.count id
  · exact Or.inl (List.count_pos_iff.mp hi)
  · exact Or.inr (List.count_pos_iff.mp (by omega))

/-- **Close waits for every Add that returned before it**: if an `Add` call has returned (`pc = done`) by the
    time a `Close` call does its winning CAS (in particular if it returned before `Close` was called), then
    when that `Close` returns nil every getter of the Add has been invoked – or dropped because the connection
    was not active – whatever other Add calls were in flight and whatever the schedule.  The unrepaired code
    violated this in two ways (an Add preempted between its unlock and its trigger; a worker's stale
    `CAS(closing → closed)`): corpus/C17/close-early-inflight.sched, close-early-stale.sched. -/
theorem C17_close_waits (n : Nat) (acts₁ acts₂ : List Act) (s₁ s₁' s₂ : S)
    (h₁ : run (init n) acts₁ = some s₁) (hwin : s₁.state = active) (hcas : step s₁ (.closer .cas) = some s₁')
    (h₂ : run s₁' acts₂ = some s₂) (hret : 0 < s₂.closeOk)
    (i : Nat) (a : Adder) (ha : s₁.adders[i]? = some a) (hdone : a.pc = .done) (id : Nat) (hid : id ∈ a.gts) :
    id ∈ s₂.invoked ∨ id ∈ s₂.skipped := by
  have hq := done_queued_or_handled n s₁ ⟨acts₁, h₁⟩ hwin i a ha hdone id hid
  by_cases hh : s₁.invoked.count id + s₁.skipped.count id = 0
  · exact C17_close_waits_queued n acts₁ acts₂ s₁ s₁' s₂ h₁ hwin hcas h₂ hret id (mem_queued_of_qh s₁ id hq hh)
  · -- already handled at the CAS: handled stays handled
    obtain ⟨_, _, c3, c4⟩ := cas_snapshot s₁ s₁' hcas hwin
    have hm := handled_mono_run acts₂ id s₁' s₂ h₂
    rw [c3, c4] at hm
    by_cases hi : 0 < s₂.invoked.count id
    · exact Or.inl (List.count_pos_iff.mp hi)
    · exact Or.inr (List.count_pos_iff.mp (by omega))

/-- … so with a live connection every such getter has been invoked when `Close` returns nil -/
theorem C17_close_waits_alive (n : Nat) (acts₁ acts₂ : List Act) (s₁ s₁' s₂ : S)
    (h₁ : run (init n) acts₁ = some s₁) (hwin : s₁.state = active) (hcas : step s₁ (.closer .cas) = some s₁')
    (h₂ : run s₁' acts₂ = some s₂) (hret : 0 < s₂.closeOk) (hal : s₂.alive = true)
    (i : Nat) (a : Adder) (ha : s₁.adders[i]? = some a) (hdone : a.pc = .done) (id : Nat) (hid : id ∈ a.gts) :
    id ∈ s₂.invoked := by
  have hG₂ : Good s₂ := good_run acts₂ s₁' s₂ (good_step s₁ s₁' _ (good_reachable n s₁ ⟨acts₁, h₁⟩) hcas) h₂
  rcases C17_close_waits n acts₁ acts₂ s₁ s₁' s₂ h₁ hwin hcas h₂ hret i a ha hdone id hid with h | h
  · exact h
  · rw [hG₂.ms.m1 hal] at h; cases h

def closeInflight₁ : List Act := [.add 1, .add 1, .close] ++ rep 5 (.adder 0) ++ rep 5 (.adder 1)
def closeInflight₂ : List Act :=
  [.closer .lock, .closer .read, .closer .unlock] ++ rep 6 (.adder 0) ++ rep 12 (.wk false false) ++
  [.closer .lock, .closer .read, .closer .unlock, .closer .trig, .closer .store]

/-- non-vacuity, on the history that used to fail (close-early-inflight): one shard; Add A0 appends and is preempted
    before `triggering`; Add A1 appends to the same shard and returns (state `s₁`, `trigger = 0`); `Close` does its
    CAS (snapshot = both getters), finds the shard non-empty and starts over; A0 resumes, the worker deals with both
    getters; the next pass of `drained` finds the shard empty and `trigger = 0`; `Close` returns nil (state `s₂`)
    with both getters invoked. -/
example :
    let s₁ := final 1 closeInflight₁
    let s₂ := final 1 (closeInflight₁ ++ [.closer .cas] ++ closeInflight₂)
    (run (init 1) (closeInflight₁ ++ [.closer .cas] ++ closeInflight₂)).isSome = true ∧
    s₁.state = active ∧ s₁.adders[1]? = some { pc := .done, gts := [1], shard := 0, wasEmpty := false } ∧
    s₁.trigger = 0 ∧ queued s₁ = [0, 1] ∧ s₁.invoked = [] ∧
    0 < s₂.closeOk ∧ s₂.invoked = [0, 1] ∧ s₂.state = closed ∧ s₂.closeSnap = [0, 1] := by
  decide

end Netpoll.Props.C17
