import Netpoll.Buf.Spec
namespace Netpoll.Props.C01
open Netpoll.Buf
theorem placeholder_len_nil : (newLB ({} : Cfg) 0 : LB Nat).abs = [] := by
  simp [newLB, LB.abs, newNode, Node.abs, Node.readable]
end Netpoll.Props.C01
