import Netpoll.Buf.World
/-!
# C01 – buffer reads return exactly the flushed bytes, in order, once

Property theorems only.  Model: `Netpoll.Buf.Model` (one Lean function per Go method of
`nocopy_linkbuffer.go`), dispatch `LB.step` (`Netpoll.Buf.Step`, the function the correspondence
driver executes), spec: the FIFO queue of `Netpoll.Buf.Spec`.  Invariant and refinement relation `R`:
`Netpoll.Buf.Inv`; per-operation proofs: `Netpoll.Buf.Refine.*`; assembly: `Netpoll.Buf.Run`.
All theorems are for every byte type `α`, every `Cfg` (thresholds), every size and every operation
sequence; no bounds.
-/
namespace Netpoll.Props.C01
open Netpoll.Buf

variable {α : Type}

/-- **C01_fifo.**  Start with `NewLinkBuffer(size)` and the empty queue and apply any list of
single-buffer operations (all 23 constructors of `Op`: Malloc, WriteBinary/WriteString, WriteByte,
WriteDirect, MallocAck, Flush, Next, Peek, Skip, ReadBinary/ReadString, ReadByte, Until, readCopy,
Release, Close, Len, MallocLen, Bytes, GetBytes, indexByte, book+bookAck, resetTail, calcMaxSize).
For as long as every call is inside `Contract`: the model never panics, every result is the one
the FIFO queue prescribes, and after every call the abstract content, `Len()` and `MallocLen()`
equal the queue's (`Conforms`, defined in `Netpoll.Buf.Run`). -/
theorem C01_fifo [DecidableEq α] (cfg : Cfg) (size : Nat) (ops : List (Op α)) :
    Conforms cfg (newLB cfg size : LB α) {} ops :=
  conforms_of_R cfg ops (R_newLB cfg size)

/-- the contract is satisfiable along a non-trivial sequence, with the results the queue prescribes -/
example :
    (runChecked ({ linkBufferCap := 8 } : Cfg) (newLB { linkBufferCap := 8 } 4 : LB Nat) {}
      [.malloc 3 [1, 2, 3], .writeBinary [4, 5] 2, .mallocAck 4, .flush, .malloc 9 [6, 7, 8, 9, 10, 11, 12, 13, 14],
       .flush, .peek 6, .next 2, .skip 1, .readBinary 4, .len, .writeByte 15, .mallocLen, .release, .readByte]).map (·.1) =
    some [.unit, .num 2, .unit, .unit, .unit, .unit, .bytes [1, 2, 3, 4, 6, 7], .bytes [1, 2], .unit,
          .bytes [4, 6, 7, 8], .num 6, .unit, .num 1, .unit, .bytes [9]] := by
  decide

/-- The same for any state related by the refinement relation (e.g. a Slice reader, or the
receiver of an Append), not only a fresh buffer. -/
theorem C01_fifo_from [DecidableEq α] (cfg : Cfg) {b : LB α} {q : Q α} (hR : R b q) (ops : List (Op α)) :
    Conforms cfg b q ops :=
  conforms_of_R cfg ops hR

example : ∃ (b : LB Nat) (q : Q Nat), R b q ∧ q.items = [(2, true), (3, false)] := by
  obtain ⟨b, hb⟩ := exists_R_of_run (α := Nat) {} 0 [.malloc 2 [1, 2], .flush, .writeByte 3, .readByte]
    { items := [(2, true), (3, false)] } (by decide)
  exact ⟨b, _, hb, rfl⟩

/-- **C01_short_read_no_consume.**  A read (Next, Peek, Skip, ReadBinary/ReadString) asking for
more than `Len()` returns an error and consumes nothing: content and counters are unchanged. -/
theorem C01_short_read_no_consume [DecidableEq α] (cfg : Cfg) {b : LB α} {q : Q α} (hR : R b q)
    (n : Int) (op : Op α) (hop : op = .next n ∨ op = .peek n ∨ op = .skip n ∨ op = .readBinary n)
    (hC : Contract q op = true) (hlt : (q.len : Int) < n) :
    ∃ b', b.step cfg op = some (b', .err) ∧ b'.abs = b.abs ∧ b'.length = b.length ∧
      b'.mallocSize = b.mallocSize := by
  have h0 : ¬ n ≤ 0 := by omega
  have hl : q.len < n.toNat := by omega
  obtain ⟨b', r, e, hR', hm⟩ := refine_step cfg hR op hC
  have key : (specStep q op) = (q, .exact .err) := by
    rcases hop with rfl | rfl | rfl | rfl <;> simp [specStep, takeRead, h0, hl]
  have hq : specNext q op r = q := by
    have : specNext q op r = (specStep q op).1 := by
      rcases hop with rfl | rfl | rfl | rfl <;> rfl
    rw [this, key]
  rw [key] at hm
  rw [hq] at hR'
  have hr : r = .err := hm
  subst hr
  exact ⟨b', e, by rw [hR'.abs, hR.abs], by rw [hR'.len, hR.len], by rw [hR'.mlen, hR.mlen]⟩

example : ∃ (b : LB Nat) (q : Q Nat), R b q ∧ Contract q (.next 3) = true ∧ (q.len : Int) < 3 ∧ q.len = 2 := by
  obtain ⟨b, hb⟩ := exists_R_of_run (α := Nat) {} 0 [.malloc 2 [1, 2], .flush, .writeByte 3]
    { items := [(1, true), (2, true), (3, false)] } (by decide)
  exact ⟨b, _, hb, by decide, by decide, by decide⟩

/-- **C01_ack_discard.**  `MallocAck(n)` keeps the flushed bytes and the first `n` pending bytes and
removes the other pending bytes from the queue; they never become readable: a following `Flush`
makes exactly the kept entries readable (`Len() = old Len + n`), and by `C01_fifo_from` every later
read is answered from that queue. -/
theorem C01_ack_discard [DecidableEq α] (cfg : Cfg) {b : LB α} {q : Q α} (hR : R b q) (n : Int) (hn : 0 ≤ n)
    (hC : Contract q (.mallocAck n) = true) :
    ∃ b1 b2, b.mallocAck n = some (b1, .unit) ∧ b1.flush cfg = some (b2, .unit) ∧
      b1.abs = q.items.take (q.len + n.toNat) ∧ b1.length = q.len ∧ b1.mallocSize = n.toNat ∧
      b2.abs = (q.items.take (q.len + n.toNat)).map (fun x => (x.1, true)) ∧
      b2.length = q.len + n.toNat ∧ b2.mallocSize = 0 ∧
      R b2 { q with items := (q.items.take (q.len + n.toNat)).map (fun x => (x.1, true)),
                    binSinceFlush := false, appSinceFlush := false } := by
  have hn0 : ¬ n < 0 := by omega
  obtain ⟨b1, r1, e1, hR1, hm1⟩ := mallocAck_refines hR n hC
  simp only [specStep, hn0, if_false] at hR1 hm1
  have hr1 : r1 = .unit := hm1
  subst hr1
  have hC' := hC
  simp only [Contract, Bool.and_eq_true, Bool.not_eq_true', decide_eq_true_eq] at hC'
  obtain ⟨⟨⟨⟨hd, hro⟩, _⟩, _⟩, hnm⟩ := hC'
  obtain ⟨b2, r2, e2, hR2, hm2⟩ := flush_refines cfg hR1 (by simp [Contract, hd, hro])
  simp only [specStep] at hR2 hm2
  have hr2 : r2 = .unit := hm2
  subst hr2
  have hlen : (q.items.take (q.len + n.toNat)).length = q.len + n.toNat := by
    have := filter_add_filter_not q.items
    simp only [List.length_take]
    have h1 : q.len = (q.items.filter (·.2)).length := rfl
    have h2 : q.mallocLen = (q.items.filter (! ·.2)).length := rfl
    omega
  have hall : ∀ l : List (α × Bool), ((l.map fun x => (x.1, true)).filter (·.2)).length = l.length := by
    intro l
    have : (l.map fun x => (x.1, true)).filter (·.2) = l.map fun x => (x.1, true) := by
      apply List.filter_eq_self.2; intro x hx
      obtain ⟨a, _, rfl⟩ := List.mem_map.1 hx; rfl
    rw [this, List.length_map]
  have hb : b1.length = b.length ∧ b1.mallocSize = n.toNat := by
    unfold LB.mallocAck at e1
    simp only [hn0, if_false] at e1
    split at e1
    · cases e1
    · split at e1
      · cases e1
      · cases e1; exact ⟨rfl, rfl⟩
  refine ⟨b1, b2, e1, e2, hR1.abs, by rw [hb.1, hR.len], hb.2, hR2.abs, ?_, ?_, hR2⟩
  · rw [hR2.len]
    show ((((q.items.take (q.len + n.toNat)).map fun x => (x.1, true))).filter (·.2)).length = _
    rw [hall, hlen]
  · rw [hR2.mlen]
    show ((((q.items.take (q.len + n.toNat)).map fun x => (x.1, true))).filter (! ·.2)).length = 0
    have : ((q.items.take (q.len + n.toNat)).map fun x => (x.1, true)).filter (! ·.2) = [] := by
      apply List.filter_eq_nil_iff.2; intro x hx
      obtain ⟨a, _, rfl⟩ := List.mem_map.1 hx; simp
    rw [this]; rfl

example : ∃ (b : LB Nat) (q : Q Nat), R b q ∧ Contract q (.mallocAck 1) = true ∧ q.len = 2 ∧ q.mallocLen = 3 := by
  obtain ⟨b, hb⟩ := exists_R_of_run (α := Nat) {} 0 [.malloc 2 [1, 2], .flush, .malloc 3 [3, 4, 5]]
    { items := [(1, true), (2, true), (3, false), (4, false), (5, false)] } (by decide)
  exact ⟨b, _, hb, by decide, by decide, by decide⟩

/-- **C01_slice.**  `Slice(n)` refines `specSlice`: no panic inside the contract, the parent keeps
the queue minus its first `n` entries, and the child (a read-only buffer) represents exactly those
`n` entries – and both are again in the refinement relation, so `C01_fifo_from` applies to them. -/
theorem C01_slice (cfg : Cfg) {b : LB α} {q : Q α} (hR : R b q) (n : Int) (hC : sliceContract q = true) :
    ∃ b' r c, b.slice cfg n = some (b', r, c) ∧ R b' (specSlice q n).1 ∧ Matches r (specSlice q n).2.2 ∧
      (match c, (specSlice q n).2.1 with
       | some cb, some cq => R cb cq
       | none, none => True
       | _, _ => False) :=
  slice_refines cfg hR n hC

example : ∃ (b : LB Nat) (q : Q Nat), R b q ∧ sliceContract q = true ∧ q.len = 3 := by
  obtain ⟨b, hb⟩ := exists_R_of_run (α := Nat) {} 0 [.malloc 2 [1, 2], .flush, .writeBinary [3] 1, .flush, .writeByte 4]
    { items := [(1, true), (2, true), (3, true), (4, false)] } (by decide)
  exact ⟨b, _, hb, by decide, by decide⟩

/-- **C01_append.**  `Append(donor)` (`WriteBuffer`) refines `specAppend`: no panic inside the
contract, the receiver represents the concatenation of both queues (the donor's flushed entries are
counted in `Len()` at once), the donor is dead and empty. -/
theorem C01_append {b d : LB α} {q qd : Q α} (hRb : R b q) (hRd : R d qd) (hC : appendContract q qd = true) :
    ∃ b' d', b.writeBuffer d = some (b', d', .unit) ∧ R b' (specAppend q qd).1 ∧ R d' (specAppend q qd).2 :=
  writeBuffer_refines hRb hRd hC

example : ∃ (b d : LB Nat) (q qd : Q Nat), R b q ∧ R d qd ∧ appendContract q qd = true ∧
    q.items = [(1, false)] ∧ qd.items = [(2, true), (3, false)] := by
  obtain ⟨b, hb⟩ := exists_R_of_run (α := Nat) {} 0 [.writeByte 1] { items := [(1, false)] } (by decide)
  obtain ⟨d, hd⟩ := exists_R_of_run (α := Nat) {} 5 [.writeByte 2, .flush, .writeByte 3]
    { items := [(2, true), (3, false)] } (by decide)
  exact ⟨b, d, _, _, hb, hd, by decide, rfl, rfl⟩

/-- **C01_fifo_world.**  Any number of buffers: start with none and apply any list of world
operations – `NewLinkBuffer(size)`, a single-buffer operation on buffer `i`, `Slice(n)` on buffer `i`
(the reader it returns becomes a new buffer), `Append` of buffer `j` to buffer `i`.  For as long
as every call is inside its contract, no call panics, every result is the one the FIFO spec
prescribes, and every buffer touched shows its queue's content, `Len()` and `MallocLen()`
(`ConformsW`, `Netpoll.Buf.World`).  This covers Slice readers and appended buffers used further. -/
theorem C01_fifo_world [DecidableEq α] (cfg : Cfg) (ops : List (WOp α)) :
    ConformsW cfg ([] : List (LB α)) [] ops :=
  conformsW_of_RW cfg ops ⟨rfl, fun i b q hb _ => by simp at hb⟩

/-- a world run inside the contracts: two buffers, Append, Flush, Slice, reads on the Slice reader -/
example :
    (runCheckedW ({ linkBufferCap := 8 } : Cfg) ([] : List (LB Nat)) []
      [.new 0, .new 4, .on 1 (.malloc 3 [1, 2, 3]), .on 1 .flush, .on 1 (.writeByte 4), .on 0 (.writeByte 9),
       .append 0 1, .on 0 .flush, .slice 0 3 , .on 2 (.next 2), .on 0 (.readBinary 1), .on 2 .release]).map (·.2) =
    some [{ items := [(4, true)] }, { dead := true }, { items := [(2, true)], readOnly := true }] := by
  decide

end Netpoll.Props.C01
