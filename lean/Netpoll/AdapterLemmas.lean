import Netpoll.Adapter
/-!
Invariants and helper lemmas for property C16 (stream adapters preserve the byte stream).
The property theorems are in `Netpoll/Props/C16.lean`.
-/
namespace Netpoll.Adapter
open Netpoll.Buf

variable {α : Type}

/-! ## vocabulary used in the theorem statements -/

/-- `n` stream bytes starting at position `i` -/
def seg (f : Nat → α) (i n : Nat) : List α := (List.range n).map fun j => f (i + j)

/-- everything pulled from the source so far -/
def Src.pulled (s : Src α) : List α := (List.range s.pos).map s.stream

/-- the error an adapter call reports for a source call scripted as `(k, e)` -/
def errOf : Int × IOErr → Option AErr
  | (_, .eof) => some .eof
  | (_, .other) => some .src
  | (k, .none) => if k < 0 then some .negative else none

/-- the number of bytes a source call scripted as `(k, e)` puts into a buffer of length `l` -/
def gotOf (l : Nat) (p : Int × IOErr) : Nat := if p.1 < 0 then 0 else min p.1.toNat l

/-- the script as the source really behaves: after the scripted calls it answers `(0, io.EOF)` -/
def Src.eff (s : Src α) : List (Int × IOErr) := s.script ++ [(0, .eof)]

/-- every queue entry is flushed (readable) -/
def AllF (items : List (α × Bool)) : Prop := ∀ x ∈ items, x.2 = true

/-- history flags of the queue an adapter owns: alive, not a slice, not booked, no un-submitted Append -/
def QFlags (q : Q α) : Prop :=
  q.dead = false ∧ q.readOnly = false ∧ q.booked = false ∧ q.appSinceFlush = false

/-- invariant of a `zcReader` -/
structure RGood (r : ZCReader α) : Prop where
  /-- pulled from the source = handed out ++ still buffered, in order -/
  stream : r.delivered ++ r.q.flushedBytes = r.src.pulled
  allF : AllF r.q.items
  flags : QFlags r.q
  inC : r.inC = true

def ZCReader.run [DecidableEq α] [Inhabited α] (block4k : Nat) (r : ZCReader α) (ops : List (ROp α)) : ZCReader α :=
  ops.foldl (fun r op => (r.step block4k op).1) r

/-! ## lists and queues -/

theorem seg_length (f : Nat → α) (i n : Nat) : (seg f i n).length = n := by simp [seg]

theorem seg_zero (f : Nat → α) (i : Nat) : seg f i 0 = [] := by simp [seg]

theorem seg_add (f : Nat → α) (i n m : Nat) : seg f i (n + m) = seg f i n ++ seg f (i + n) m := by
  induction m with
  | zero => simp [seg]
  | succ m ih =>
    rw [← Nat.add_assoc]
    simp only [seg] at ih ⊢
    rw [List.range_succ, List.map_append, ih, List.range_succ, List.map_append, List.append_assoc]
    simp [Nat.add_assoc]

theorem range_map_add (f : Nat → α) (n m : Nat) :
    (List.range (n + m)).map f = (List.range n).map f ++ seg f n m := by
  have := seg_add f 0 n m
  simpa [seg] using this

theorem Src.bytes_eq (s : Src α) (n : Nat) : s.bytes n = seg s.stream s.pos n := rfl

theorem allF_filter {l : List (α × Bool)} (h : AllF l) : l.filter (·.2) = l := by
  apply List.filter_eq_self.2
  intro x hx; exact h x hx

theorem allF_filter_not {l : List (α × Bool)} (h : AllF l) : l.filter (! ·.2) = [] := by
  apply List.filter_eq_nil_iff.2
  intro x hx; simp [h x hx]

theorem allF_map_true (d : List α) : AllF (d.map (·, true)) := by
  intro x hx; simp at hx; obtain ⟨a, _, rfl⟩ := hx; rfl

theorem allF_append {l₁ l₂ : List (α × Bool)} (h₁ : AllF l₁) (h₂ : AllF l₂) : AllF (l₁ ++ l₂) := by
  intro x hx; rcases List.mem_append.1 hx with h | h
  · exact h₁ x h
  · exact h₂ x h

theorem allF_drop {l : List (α × Bool)} (h : AllF l) (n : Nat) : AllF (l.drop n) :=
  fun x hx => h x (List.mem_of_mem_drop hx)

theorem allF_map_id {l : List (α × Bool)} (h : AllF l) : l.map (fun x => (x.1, true)) = l := by
  induction l with
  | nil => rfl
  | cons x t ih =>
    have hx := h x (by simp)
    have ht : AllF t := fun y hy => h y (by simp [hy])
    obtain ⟨a, b⟩ := x
    simp only at hx; subst hx
    simp [ih ht]

theorem Q.len_of_allF {q : Q α} (h : AllF q.items) : q.len = q.items.length := by
  simp [Q.len, allF_filter h]

theorem Q.mallocLen_of_allF {q : Q α} (h : AllF q.items) : q.mallocLen = 0 := by
  simp [Q.mallocLen, allF_filter_not h]

theorem Q.flushedBytes_of_allF {q : Q α} (h : AllF q.items) : q.flushedBytes = q.items.map (·.1) := by
  simp [Q.flushedBytes, allF_filter h]

theorem Q.firstBytes_of_allF {q : Q α} (h : AllF q.items) (n : Nat) : q.firstBytes n = q.flushedBytes.take n := by
  simp [Q.firstBytes, Q.flushedBytes_of_allF h, List.map_take]

theorem Q.len_eq_flushedBytes (q : Q α) : q.len = q.flushedBytes.length := by
  simp [Q.len, Q.flushedBytes]

theorem Q.readOK_of_allF {q : Q α} (h : AllF q.items) : q.readOK = true := by
  have : ∀ l : List (α × Bool), AllF l → l.dropWhile (·.2) = [] := by
    intro l; induction l with
    | nil => intro _; rfl
    | cons x t ih =>
      intro hl
      have hx := hl x (by simp)
      simp [hx, ih (fun y hy => hl y (by simp [hy]))]
  simp [Q.readOK, this _ h]

/-! ## the source and one `fill` round -/

theorem Src.read_nil {s : Src α} (h : s.script = []) (l : Nat) : s.read l = ((0, .eof, []), s) := by
  simp [Src.read, h]

theorem Src.read_cons {s : Src α} {k : Int} {e : IOErr} {rest} (h : s.script = (k, e) :: rest) (l : Nat) :
    s.read l = (((if k < 0 then k else ((gotOf l (k, e) : Nat) : Int)), e, seg s.stream s.pos (gotOf l (k, e))),
                { s with pos := s.pos + gotOf l (k, e), script := rest }) := by
  by_cases hk : k < 0
  · simp [Src.read, h, hk, gotOf, seg]
  · simp [Src.read, h, hk, gotOf, Src.bytes_eq]

/-- the queue after one `fill` round that received `d` -/
def _root_.Netpoll.Buf.Q.push (q : Q α) (d : List α) : Q α :=
  { q with items := q.items ++ d.map (·, true), binSinceFlush := false, appSinceFlush := false }

theorem round_q [DecidableEq α] {q : Q α} (h : AllF q.items) (b : Nat) (d : List α) (x : α) (num' : Int)
    (hd : d.length ≤ b) (hn : 0 ≤ num') (hnl : num'.toNat = d.length) :
    (specStep (specStep (specStep q (.malloc b (d ++ List.replicate (b - d.length) x))).1 (.mallocAck num')).1 .flush).1
      = q.push d := by
  have hneg : ¬ num' < 0 := by omega
  by_cases hb : (b : Int) ≤ 0
  · have hb0 : b = 0 := by omega
    have hd0 : d = [] := by apply List.eq_nil_of_length_eq_zero; omega
    subst hb0; subst hd0
    have : num'.toNat = 0 := by simpa using hnl
    simp [specStep, hneg, Q.push, Q.len_of_allF h, this, allF_map_id h]
  · simp only [specStep, hb, hneg, if_false, Q.push]
    have hlen : ({ q with items := q.items ++ List.map (fun x => (x, false)) (d ++ List.replicate (b - d.length) x) } : Q α).len
        = q.items.length := by
      simp [Q.len, List.filter_append, allF_filter h, List.filter_map, Function.comp_def]
    simp only [hlen, hnl]
    congr 1
    rw [List.take_append, List.map_append, List.take_of_length_le (by omega), allF_map_id h]
    simp


theorem ZCReader.call_fst [DecidableEq α] (r : ZCReader α) (op : Op α) :
    (r.call op).1 = { r with q := (specStep r.q op).1, inC := r.inC && Contract r.q op } := rfl
theorem ZCReader.call_snd [DecidableEq α] (r : ZCReader α) (op : Op α) : (r.call op).2 = (specStep r.q op).2 := rfl

theorem filter_not_pending (l : List α) : (l.map (·, false)).filter (! ·.2) = l.map (·, false) := by
  induction l with
  | nil => rfl
  | cons a t ih => simp

theorem filter_pending (l : List α) : (l.map (·, false)).filter (·.2) = [] := by
  induction l with
  | nil => rfl
  | cons a t ih => simp

theorem contract_round [DecidableEq α] {q : Q α} (h : AllF q.items) (hf : QFlags q) (b : Nat) (d : List α) (x : α) (num' : Int)
    (hd : d.length ≤ b) (hnl : num'.toNat = d.length) (hn : 0 ≤ num'):
    let op1 : Op α := .malloc b (d ++ List.replicate (b - d.length) x)
    Contract q op1 = true ∧ Contract (specStep q op1).1 (.mallocAck num') = true ∧
      Contract (specStep (specStep q op1).1 (.mallocAck num')).1 .flush = true := by
  obtain ⟨h1, h2, h3, h4⟩ := hf
  have hneg : ¬ num' < 0 := by omega
  by_cases hb : (b : Int) ≤ 0
  · have hb0 : b = 0 := by omega
    subst hb0
    have : num' = 0 := by omega
    subst this
    simp [Contract, specStep, h1, h2, h3, h4]
  · simp only [Contract, specStep, hb, hneg, if_false, h1, h2, h3, h4, Q.mallocLen, List.filter_append,
      allF_filter_not h, filter_not_pending]
    simp
    omega

theorem round_nil [DecidableEq α] [Inhabited α] {r : ZCReader α} (h : AllF r.q.items) (hf : QFlags r.q)
    (hs : r.src.script = []) (b : Nat) :
    r.round b = ({ r with q := r.q.push [] }, some .eof) := by
  have hc := contract_round h hf b [] default 0 (by simp) (by simp) (by simp)
  have hq := round_q h b [] default 0 (by simp) (by simp) (by simp)
  simp only [List.length_nil, Nat.sub_zero, List.nil_append] at hc hq
  obtain ⟨c1, c2, c3⟩ := hc
  simp only [ZCReader.round, Src.read_nil hs, ZCReader.call_fst, List.length_nil, Nat.sub_zero, List.nil_append,
    Int.lt_irrefl, if_false, hq, c1, c2, c3, Bool.and_true]

theorem round_cons [DecidableEq α] [Inhabited α] {r : ZCReader α} (h : AllF r.q.items) (hf : QFlags r.q)
    {p : Int × IOErr} {rest} (hs : r.src.script = p :: rest) (b : Nat) :
    r.round b = ({ r with src := { r.src with pos := r.src.pos + gotOf b p, script := rest },
                          q := r.q.push (seg r.src.stream r.src.pos (gotOf b p)) }, errOf p) := by
  obtain ⟨k, e⟩ := p
  by_cases hk : k < 0
  · have hc := contract_round h hf b [] default 0 (by simp) (by simp) (by simp)
    have hq := round_q h b [] default 0 (by simp) (by simp) (by simp)
    simp only [List.length_nil, Nat.sub_zero, List.nil_append] at hc hq
    obtain ⟨c1, c2, c3⟩ := hc
    have hg : gotOf b (k, e) = 0 := by simp [gotOf, hk]
    simp only [ZCReader.round, Src.read_cons hs, ZCReader.call_fst, hg, seg_zero, hk, if_true, List.length_nil, Nat.sub_zero, List.nil_append,
       hq, c1, c2, c3, Bool.and_true]
    cases e <;> simp [errOf, hk]
  · have hgl : gotOf b (k, e) ≤ b := by simp only [gotOf, hk, if_false]; omega
    generalize hg : gotOf b (k, e) = g at hgl
    have hnn : ¬ ((g : Nat) : Int) < 0 := by omega
    have hc := contract_round h hf b (seg r.src.stream r.src.pos g) default (g : Int)
      (by simp [seg_length, hgl]) (by simp [seg_length]) (by omega)
    have hq := round_q h b (seg r.src.stream r.src.pos g) default (g : Int)
      (by simp [seg_length, hgl]) (by omega) (by simp [seg_length])
    obtain ⟨c1, c2, c3⟩ := hc
    simp only [ZCReader.round, Src.read_cons hs, ZCReader.call_fst, hg, hk, hnn, if_false,
       hq, c1, c2, c3, Bool.and_true]
    cases e <;> simp [errOf, hk]


/-! ## `waitRead` -/

theorem Q.push_flushedBytes {q : Q α} (d : List α) : (q.push d).flushedBytes = q.flushedBytes ++ d := by
  simp [Q.push, Q.flushedBytes, List.filter_append, allF_filter (allF_map_true d), Function.comp_def]

theorem Q.push_allF {q : Q α} (h : AllF q.items) (d : List α) : AllF (q.push d).items :=
  allF_append h (allF_map_true d)

theorem Q.push_flags {q : Q α} (h : QFlags q) (d : List α) : QFlags (q.push d) := by
  obtain ⟨h1, h2, h3, _⟩ := h
  exact ⟨h1, h2, h3, rfl⟩

theorem Src.pulled_eq (s : Src α) : s.pulled = seg s.stream 0 s.pos := by simp [Src.pulled, seg]

/-- unconditional facts about a round: which script entry it consumes and which error it reports -/
theorem round_src_nil [DecidableEq α] [Inhabited α] (r : ZCReader α) (b : Nat) (hs : r.src.script = []) :
    (r.round b).2 = some .eof ∧ (r.round b).1.src = r.src := by
  simp [ZCReader.round, Src.read_nil hs, ZCReader.call_fst]

theorem round_src_cons [DecidableEq α] [Inhabited α] (r : ZCReader α) (b : Nat) {p rest} (hs : r.src.script = p :: rest) :
    (r.round b).2 = errOf p ∧ (r.round b).1.src.script = rest := by
  obtain ⟨k, e⟩ := p
  by_cases hk : k < 0
  · simp only [ZCReader.round, Src.read_cons hs, ZCReader.call_fst, hk, if_true]
    cases e <;> simp [errOf, hk]
  · have hnn : ¬ ((gotOf b (k, e) : Nat) : Int) < 0 := by omega
    simp only [ZCReader.round, Src.read_cons hs, ZCReader.call_fst, hk, hnn, if_false]
    cases e <;> simp [errOf, hk]

theorem round_good [DecidableEq α] [Inhabited α] {r : ZCReader α} (hr : RGood r) (b : Nat) : RGood (r.round b).1 := by
  obtain ⟨hst, hall, hfl, hin⟩ := hr
  cases hs : r.src.script with
  | nil =>
    rw [round_nil hall hfl hs]
    exact ⟨by simpa [Q.push_flushedBytes] using hst, Q.push_allF hall _, Q.push_flags hfl _, hin⟩
  | cons p rest =>
    rw [round_cons hall hfl hs]
    refine ⟨?_, Q.push_allF hall _, Q.push_flags hfl _, hin⟩
    simp only [Q.push_flushedBytes, Src.pulled]
    rw [range_map_add, ← List.append_assoc, hst]; rfl


/-- what `waitRead n` does, in terms of the source script: either enough is buffered and the source is not called,
or it makes the calls `pre ++ [last]` (a prefix of the script followed by `(0, EOF)`): the calls in `pre` are
error-free, the result is the error of `last`, and if `last` is error-free too the wanted `n` bytes are buffered.
Every byte those calls returned (including the ones that came with the error) has been appended to the buffer. -/
def WaitSpec (b : Nat) (n : Int) (r : ZCReader α) (out : ZCReader α × Option AErr) : Prop :=
  RGood out.1 ∧ out.1.delivered = r.delivered ∧ out.1.src.stream = r.src.stream ∧
  (((r.q.len : Int) ≥ n ∧ out = (r, none)) ∨
   ((r.q.len : Int) < n ∧ ∃ pre last, (pre ++ [last]) <+: r.src.eff ∧
      out.1.src.script = r.src.script.drop (pre.length + 1) ∧
      (∀ p ∈ pre, errOf p = none) ∧ out.2 = errOf last ∧ (errOf last = none → (out.1.q.len : Int) ≥ n) ∧
      out.1.src.pos = r.src.pos + ((pre ++ [last]).map (gotOf b)).sum))

theorem waitRead_spec [DecidableEq α] [Inhabited α] (b : Nat) (n : Int) :
    ∀ (fuel : Nat) (r : ZCReader α), RGood r → r.src.script.length + 1 ≤ fuel →
      WaitSpec b n r (r.waitRead b fuel n) := by
  intro fuel
  induction fuel with
  | zero => intro r _ h; omega
  | succ fuel ih =>
    intro r hr hfuel
    unfold ZCReader.waitRead
    by_cases hlen : (r.q.len : Int) ≥ n
    · simp only [hlen, if_true]
      exact ⟨hr, rfl, rfl, Or.inl ⟨hlen, rfl⟩⟩
    · simp only [hlen, if_false]
      have hlt : (r.q.len : Int) < n := by omega
      have hgood := round_good hr b
      cases hs : r.src.script with
      | nil =>
        have h1 := round_nil hr.allF hr.flags hs b
        rw [h1] at hgood ⊢
        refine ⟨hgood, rfl, rfl, Or.inr ⟨hlt, [], (0, .eof), ?_, ?_, ?_, ?_, ?_, ?_⟩⟩
        · simp [Src.eff, hs]
        · simp [hs]
        · simp
        · simp [errOf]
        · simp [errOf]
        · simp [gotOf]
      | cons p rest =>
        have h1 := round_cons hr.allF hr.flags hs b
        rw [h1] at hgood
        cases he : errOf p with
        | some e =>
          rw [h1, he]
          refine ⟨hgood, rfl, rfl, Or.inr ⟨hlt, [], p, ?_, ?_, ?_, ?_, ?_, ?_⟩⟩
          · simp [Src.eff, hs]
          · simp [hs]
          · simp
          · simp [he]
          · simp [he]
          · simp
        | none =>
          rw [h1, he]
          simp only
          have hfuel' : rest.length + 1 ≤ fuel := by simp [hs] at hfuel; omega
          obtain ⟨g, hd, hstr, hcase⟩ := ih _ hgood hfuel'
          refine ⟨g, hd, hstr, Or.inr ⟨hlt, ?_⟩⟩
          rcases hcase with ⟨hge, hout⟩ | ⟨_, pre, last, hpre, hscr, hpn, hres, hen, hpos⟩
          · refine ⟨[], p, ?_, ?_, ?_, ?_, ?_, ?_⟩
            · simp [Src.eff, hs]
            · simp [hout, hs]
            · simp
            · simp [hout, he]
            · intro _; simpa [hout] using hge
            · simp [hout]
          · refine ⟨p :: pre, last, ?_, ?_, ?_, hres, hen, ?_⟩
            · simpa [Src.eff, hs, List.cons_prefix_cons] using hpre
            · simpa [hs] using hscr
            · intro x hx
              rcases List.mem_cons.1 hx with rfl | hx
              · exact he
              · exact hpn x hx
            · simp only [hpos]; simp [Nat.add_assoc]


theorem waitRead_enough [DecidableEq α] [Inhabited α] (b : Nat) (n : Int) :
    ∀ (fuel : Nat) (r : ZCReader α), r.src.script.length + 1 ≤ fuel →
      (r.waitRead b fuel n).2 ≠ none ∨ ((r.waitRead b fuel n).1.q.len : Int) ≥ n := by
  intro fuel
  induction fuel with
  | zero => intro r h; omega
  | succ fuel ih =>
    intro r hfuel
    unfold ZCReader.waitRead
    by_cases hlen : (r.q.len : Int) ≥ n
    · rw [if_pos hlen]; exact Or.inr hlen
    · rw [if_neg hlen]
      cases hrd : r.round b with
      | mk r' e =>
        cases e with
        | some e => simp
        | none =>
          simp only
          cases hs : r.src.script with
          | nil => have := (round_src_nil r b hs).1; simp [hrd] at this
          | cons p rest =>
            have h2 : r'.src.script = rest := by simpa [hrd] using (round_src_cons r b hs).2
            apply ih
            rw [h2]; simp [hs] at hfuel; omega

theorem waitRead_fuel_indep [DecidableEq α] [Inhabited α] (b : Nat) (n : Int) :
    ∀ (f1 f2 : Nat) (r : ZCReader α), r.src.script.length + 1 ≤ f1 → r.src.script.length + 1 ≤ f2 →
      r.waitRead b f1 n = r.waitRead b f2 n := by
  intro f1
  induction f1 with
  | zero => intro f2 r h; omega
  | succ f1 ih =>
    intro f2 r h1 h2
    cases f2 with
    | zero => omega
    | succ f2 =>
      unfold ZCReader.waitRead
      by_cases hlen : (r.q.len : Int) ≥ n
      · simp only [hlen, if_true]
      · simp only [hlen, if_false]
        cases hrd : r.round b with
        | mk r' e =>
          cases e with
          | some e => rfl
          | none =>
            simp only
            cases hs : r.src.script with
            | nil => have := (round_src_nil r b hs).1; simp [hrd] at this
            | cons p rest =>
              have h3 : r'.src.script = rest := by simpa [hrd] using (round_src_cons r b hs).2
              apply ih
              · rw [h3]; simp [hs] at h1; omega
              · rw [h3]; simp [hs] at h2; omega


end Netpoll.Adapter
