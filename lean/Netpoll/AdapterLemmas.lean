import Netpoll.Adapter
/-!
Invariants and helper lemmas for property C16 (stream adapters preserve the byte stream).
The property theorems are in `Netpoll/Props/C16.lean`.
-/
namespace Netpoll.Adapter
open Netpoll.Buf

variable {α : Type}

/-! ## vocabulary used in the theorem statements -/

/-- `n` stream bytes starting at position `i` -/
def seg (f : Nat → α) (i n : Nat) : List α := (List.range n).map fun j => f (i + j)

/-- everything pulled from the source so far -/
def Src.pulled (s : Src α) : List α := (List.range s.pos).map s.stream

/-- the error an adapter call reports for a source call scripted as `(k, e)` -/
def errOf : Int × IOErr → Option AErr
  | (_, .eof) => some .eof
  | (_, .other) => some .src
  | (k, .none) => if k < 0 then some .negative else none

/-- the number of bytes a source call scripted as `(k, e)` puts into a buffer of length `l` -/
def gotOf (l : Nat) (p : Int × IOErr) : Nat := if p.1 < 0 then 0 else min p.1.toNat l

/-- the script as the source really behaves: after the scripted calls it answers `(0, io.EOF)` -/
def Src.eff (s : Src α) : List (Int × IOErr) := s.script ++ [(0, .eof)]

/-- every queue entry is flushed (readable) -/
def AllF (items : List (α × Bool)) : Prop := ∀ x ∈ items, x.2 = true

/-- history flags of the queue an adapter owns: alive, not a slice, not booked, no un-submitted Append -/
def QFlags (q : Q α) : Prop :=
  q.dead = false ∧ q.readOnly = false ∧ q.booked = false ∧ q.appSinceFlush = false

/-- invariant of a `zcReader` -/
structure RGood (r : ZCReader α) : Prop where
  /-- pulled from the source = handed out ++ still buffered, in order -/
  stream : r.delivered ++ r.q.flushedBytes = r.src.pulled
  allF : AllF r.q.items
  flags : QFlags r.q
  inC : r.inC = true

def ZCReader.run [DecidableEq α] [Inhabited α] (block4k : Nat) (r : ZCReader α) (ops : List (ROp α)) : ZCReader α :=
  ops.foldl (fun r op => (r.step block4k op).1) r

theorem ZCReader.run_cons [DecidableEq α] [Inhabited α] (block4k : Nat) (r : ZCReader α) (op : ROp α) (ops : List (ROp α)) :
    r.run block4k (op :: ops) = (r.step block4k op).1.run block4k ops := by
  simp only [ZCReader.run, List.foldl_cons]

/-! ## lists and queues -/

theorem seg_length (f : Nat → α) (i n : Nat) : (seg f i n).length = n := by simp [seg]

theorem seg_zero (f : Nat → α) (i : Nat) : seg f i 0 = [] := by simp [seg]

theorem seg_add (f : Nat → α) (i n m : Nat) : seg f i (n + m) = seg f i n ++ seg f (i + n) m := by
  induction m with
  | zero => simp [seg]
  | succ m ih =>
    rw [← Nat.add_assoc]
    simp only [seg] at ih ⊢
    rw [List.range_succ, List.map_append, ih, List.range_succ, List.map_append, List.append_assoc]
    simp [Nat.add_assoc]

theorem range_map_add (f : Nat → α) (n m : Nat) :
    (List.range (n + m)).map f = (List.range n).map f ++ seg f n m := by
  have := seg_add f 0 n m
  simpa [seg] using this

theorem Src.bytes_eq (s : Src α) (n : Nat) : s.bytes n = seg s.stream s.pos n := rfl

theorem allF_filter {l : List (α × Bool)} (h : AllF l) : l.filter (·.2) = l := by
  apply List.filter_eq_self.2
  intro x hx; exact h x hx

theorem allF_filter_not {l : List (α × Bool)} (h : AllF l) : l.filter (! ·.2) = [] := by
  apply List.filter_eq_nil_iff.2
  intro x hx; simp [h x hx]

theorem allF_map_true (d : List α) : AllF (d.map (·, true)) := by
  intro x hx; simp at hx; obtain ⟨a, _, rfl⟩ := hx; rfl

theorem allF_append {l₁ l₂ : List (α × Bool)} (h₁ : AllF l₁) (h₂ : AllF l₂) : AllF (l₁ ++ l₂) := by
  intro x hx; rcases List.mem_append.1 hx with h | h
  · exact h₁ x h
  · exact h₂ x h

theorem allF_drop {l : List (α × Bool)} (h : AllF l) (n : Nat) : AllF (l.drop n) :=
  fun x hx => h x (List.mem_of_mem_drop hx)

theorem allF_map_id {l : List (α × Bool)} (h : AllF l) : l.map (fun x => (x.1, true)) = l := by
  induction l with
  | nil => rfl
  | cons x t ih =>
    have hx := h x (by simp)
    have ht : AllF t := fun y hy => h y (by simp [hy])
    obtain ⟨a, b⟩ := x
    simp only at hx; subst hx
    simp [ih ht]

theorem Q.len_of_allF {q : Q α} (h : AllF q.items) : q.len = q.items.length := by
  simp [Q.len, allF_filter h]

theorem Q.mallocLen_of_allF {q : Q α} (h : AllF q.items) : q.mallocLen = 0 := by
  simp [Q.mallocLen, allF_filter_not h]

theorem Q.flushedBytes_of_allF {q : Q α} (h : AllF q.items) : q.flushedBytes = q.items.map (·.1) := by
  simp [Q.flushedBytes, allF_filter h]

theorem Q.firstBytes_of_allF {q : Q α} (h : AllF q.items) (n : Nat) : q.firstBytes n = q.flushedBytes.take n := by
  simp [Q.firstBytes, Q.flushedBytes_of_allF h, List.map_take]

theorem Q.len_eq_flushedBytes (q : Q α) : q.len = q.flushedBytes.length := by
  simp [Q.len, Q.flushedBytes]

theorem Q.readOK_of_allF {q : Q α} (h : AllF q.items) : q.readOK = true := by
  have : ∀ l : List (α × Bool), AllF l → l.dropWhile (·.2) = [] := by
    intro l; induction l with
    | nil => intro _; rfl
    | cons x t ih =>
      intro hl
      have hx := hl x (by simp)
      simp [hx, ih (fun y hy => hl y (by simp [hy]))]
  simp [Q.readOK, this _ h]

/-! ## the source and one `fill` round -/

theorem Src.read_nil {s : Src α} (h : s.script = []) (l : Nat) : s.read l = ((0, .eof, []), s) := by
  simp [Src.read, h]

theorem Src.read_cons {s : Src α} {k : Int} {e : IOErr} {rest} (h : s.script = (k, e) :: rest) (l : Nat) :
    s.read l = (((if k < 0 then k else ((gotOf l (k, e) : Nat) : Int)), e, seg s.stream s.pos (gotOf l (k, e))),
                { s with pos := s.pos + gotOf l (k, e), script := rest }) := by
  by_cases hk : k < 0
  · simp [Src.read, h, hk, gotOf, seg]
  · simp [Src.read, h, hk, gotOf, Src.bytes_eq]

/-- the queue after one `fill` round that received `d` -/
def _root_.Netpoll.Buf.Q.push (q : Q α) (d : List α) : Q α :=
  { q with items := q.items ++ d.map (·, true), binSinceFlush := false, appSinceFlush := false }

theorem round_q [DecidableEq α] {q : Q α} (h : AllF q.items) (b : Nat) (d : List α) (x : α) (num' : Int)
    (hd : d.length ≤ b) (hn : 0 ≤ num') (hnl : num'.toNat = d.length) :
    (specStep (specStep (specStep q (.malloc b (d ++ List.replicate (b - d.length) x))).1 (.mallocAck num')).1 .flush).1
      = q.push d := by
  have hneg : ¬ num' < 0 := by omega
  by_cases hb : (b : Int) ≤ 0
  · have hb0 : b = 0 := by omega
    have hd0 : d = [] := by apply List.eq_nil_of_length_eq_zero; omega
    subst hb0; subst hd0
    have : num'.toNat = 0 := by simpa using hnl
    simp [specStep, hneg, Q.push, Q.len_of_allF h, this, allF_map_id h]
  · simp only [specStep, hb, hneg, if_false, Q.push]
    have hlen : ({ q with items := q.items ++ List.map (fun x => (x, false)) (d ++ List.replicate (b - d.length) x) } : Q α).len
        = q.items.length := by
      simp [Q.len, List.filter_append, allF_filter h, List.filter_map, Function.comp_def]
    simp only [hlen, hnl]
    congr 1
    rw [List.take_append, List.map_append, List.take_of_length_le (by omega), allF_map_id h]
    simp


theorem ZCReader.call_fst [DecidableEq α] (r : ZCReader α) (op : Op α) :
    (r.call op).1 = { r with q := (specStep r.q op).1, inC := r.inC && Contract r.q op } := rfl
theorem ZCReader.call_snd [DecidableEq α] (r : ZCReader α) (op : Op α) : (r.call op).2 = (specStep r.q op).2 := rfl

theorem filter_not_pending (l : List α) : (l.map (·, false)).filter (! ·.2) = l.map (·, false) := by
  induction l with
  | nil => rfl
  | cons a t ih => simp

theorem filter_pending (l : List α) : (l.map (·, false)).filter (·.2) = [] := by
  induction l with
  | nil => rfl
  | cons a t ih => simp

/-- `fill` pads what the source returned to exactly the malloc'ed block: the data written into the slice
`Malloc(block4k)` returned has that length (the `Contract` clause of `.malloc`) -/
theorem pad_length (d : List α) (x : α) (b : Nat) (hd : d.length ≤ b) :
    (d ++ List.replicate (b - d.length) x).length = ((b : Nat) : Int).toNat := by
  simp; omega

theorem contract_round [DecidableEq α] {q : Q α} (h : AllF q.items) (hf : QFlags q) (b : Nat) (d : List α) (x : α) (num' : Int)
    (hd : d.length ≤ b) (hnl : num'.toNat = d.length) (hn : 0 ≤ num'):
    let op1 : Op α := .malloc b (d ++ List.replicate (b - d.length) x)
    Contract q op1 = true ∧ Contract (specStep q op1).1 (.mallocAck num') = true ∧
      Contract (specStep (specStep q op1).1 (.mallocAck num')).1 .flush = true := by
  obtain ⟨h1, h2, h3, h4⟩ := hf
  have hneg : ¬ num' < 0 := by omega
  by_cases hb : (b : Int) ≤ 0
  · have hb0 : b = 0 := by omega
    subst hb0
    have : num' = 0 := by omega
    subst this
    have hd0 : d = [] := by apply List.eq_nil_of_length_eq_zero; omega
    subst hd0
    simp [Contract, specStep, h1, h2, h3, h4]
  · simp only [Contract, specStep, hb, hneg, if_false, h1, h2, h3, h4, Q.mallocLen, List.filter_append,
      allF_filter_not h, filter_not_pending, pad_length d x b hd]
    simp
    omega

theorem round_nil [DecidableEq α] [Inhabited α] {r : ZCReader α} (h : AllF r.q.items) (hf : QFlags r.q)
    (hs : r.src.script = []) (b : Nat) :
    r.round b = ({ r with q := r.q.push [] }, some .eof) := by
  have hc := contract_round h hf b [] default 0 (by simp) (by simp) (by simp)
  have hq := round_q h b [] default 0 (by simp) (by simp) (by simp)
  simp only [List.length_nil, Nat.sub_zero, List.nil_append] at hc hq
  obtain ⟨c1, c2, c3⟩ := hc
  simp only [ZCReader.round, Src.read_nil hs, ZCReader.call_fst, List.length_nil, Nat.sub_zero, List.nil_append,
    Int.lt_irrefl, if_false, hq, c1, c2, c3, Bool.and_true]

theorem round_cons [DecidableEq α] [Inhabited α] {r : ZCReader α} (h : AllF r.q.items) (hf : QFlags r.q)
    {p : Int × IOErr} {rest} (hs : r.src.script = p :: rest) (b : Nat) :
    r.round b = ({ r with src := { r.src with pos := r.src.pos + gotOf b p, script := rest },
                          q := r.q.push (seg r.src.stream r.src.pos (gotOf b p)) }, errOf p) := by
  obtain ⟨k, e⟩ := p
  by_cases hk : k < 0
  · have hc := contract_round h hf b [] default 0 (by simp) (by simp) (by simp)
    have hq := round_q h b [] default 0 (by simp) (by simp) (by simp)
    simp only [List.length_nil, Nat.sub_zero, List.nil_append] at hc hq
    obtain ⟨c1, c2, c3⟩ := hc
    have hg : gotOf b (k, e) = 0 := by simp [gotOf, hk]
    simp only [ZCReader.round, Src.read_cons hs, ZCReader.call_fst, hg, seg_zero, hk, if_true, List.length_nil, Nat.sub_zero, List.nil_append,
       hq, c1, c2, c3, Bool.and_true]
    cases e <;> simp [errOf, hk]
  · have hgl : gotOf b (k, e) ≤ b := by simp only [gotOf, hk, if_false]; omega
    generalize hg : gotOf b (k, e) = g at hgl
    have hnn : ¬ ((g : Nat) : Int) < 0 := by omega
    have hc := contract_round h hf b (seg r.src.stream r.src.pos g) default (g : Int)
      (by simp [seg_length, hgl]) (by simp [seg_length]) (by omega)
    have hq := round_q h b (seg r.src.stream r.src.pos g) default (g : Int)
      (by simp [seg_length, hgl]) (by omega) (by simp [seg_length])
    obtain ⟨c1, c2, c3⟩ := hc
    simp only [ZCReader.round, Src.read_cons hs, ZCReader.call_fst, hg, hk, hnn, if_false,
       hq, c1, c2, c3, Bool.and_true]
    cases e <;> simp [errOf, hk]


/-! ## `waitRead` -/

theorem Q.push_flushedBytes {q : Q α} (d : List α) : (q.push d).flushedBytes = q.flushedBytes ++ d := by
  simp [Q.push, Q.flushedBytes, List.filter_append, allF_filter (allF_map_true d), Function.comp_def]

theorem Q.push_allF {q : Q α} (h : AllF q.items) (d : List α) : AllF (q.push d).items :=
  allF_append h (allF_map_true d)

theorem Q.push_flags {q : Q α} (h : QFlags q) (d : List α) : QFlags (q.push d) := by
  obtain ⟨h1, h2, h3, _⟩ := h
  exact ⟨h1, h2, h3, rfl⟩

theorem Src.pulled_eq (s : Src α) : s.pulled = seg s.stream 0 s.pos := by simp [Src.pulled, seg]

/-- unconditional facts about a round: which script entry it consumes and which error it reports -/
theorem round_src_nil [DecidableEq α] [Inhabited α] (r : ZCReader α) (b : Nat) (hs : r.src.script = []) :
    (r.round b).2 = some .eof ∧ (r.round b).1.src = r.src := by
  simp [ZCReader.round, Src.read_nil hs, ZCReader.call_fst]

theorem round_src_cons [DecidableEq α] [Inhabited α] (r : ZCReader α) (b : Nat) {p rest} (hs : r.src.script = p :: rest) :
    (r.round b).2 = errOf p ∧ (r.round b).1.src.script = rest := by
  obtain ⟨k, e⟩ := p
  by_cases hk : k < 0
  · simp only [ZCReader.round, Src.read_cons hs, ZCReader.call_fst, hk, if_true]
    cases e <;> simp [errOf, hk]
  · have hnn : ¬ ((gotOf b (k, e) : Nat) : Int) < 0 := by omega
    simp only [ZCReader.round, Src.read_cons hs, ZCReader.call_fst, hk, hnn, if_false]
    cases e <;> simp [errOf, hk]

theorem round_good [DecidableEq α] [Inhabited α] {r : ZCReader α} (hr : RGood r) (b : Nat) : RGood (r.round b).1 := by
  obtain ⟨hst, hall, hfl, hin⟩ := hr
  cases hs : r.src.script with
  | nil =>
    rw [round_nil hall hfl hs]
    exact ⟨by simpa [Q.push_flushedBytes] using hst, Q.push_allF hall _, Q.push_flags hfl _, hin⟩
  | cons p rest =>
    rw [round_cons hall hfl hs]
    refine ⟨?_, Q.push_allF hall _, Q.push_flags hfl _, hin⟩
    simp only [Q.push_flushedBytes, Src.pulled]
    rw [range_map_add, ← List.append_assoc, hst]; rfl


/-- what `waitRead n` does, in terms of the source script: either enough is buffered and the source is not called,
or it makes the calls `pre ++ [last]` (a prefix of the script followed by `(0, EOF)`): the calls in `pre` are
error-free, the result is the error of `last`, and if `last` is error-free too the wanted `n` bytes are buffered.
Every byte those calls returned (including the ones that came with the error) has been appended to the buffer. -/
def WaitSpec (b : Nat) (n : Int) (r : ZCReader α) (out : ZCReader α × Option AErr) : Prop :=
  RGood out.1 ∧ out.1.delivered = r.delivered ∧ out.1.src.stream = r.src.stream ∧
  (((r.q.len : Int) ≥ n ∧ out = (r, none)) ∨
   ((r.q.len : Int) < n ∧ ∃ pre last, (pre ++ [last]) <+: r.src.eff ∧
      out.1.src.script = r.src.script.drop (pre.length + 1) ∧
      (∀ p ∈ pre, errOf p = none) ∧ out.2 = errOf last ∧ (errOf last = none → (out.1.q.len : Int) ≥ n) ∧
      out.1.src.pos = r.src.pos + ((pre ++ [last]).map (gotOf b)).sum))

theorem waitRead_spec [DecidableEq α] [Inhabited α] (b : Nat) (n : Int) :
    ∀ (fuel : Nat) (r : ZCReader α), RGood r → r.src.script.length + 1 ≤ fuel →
      WaitSpec b n r (r.waitRead b fuel n) := by
  intro fuel
  induction fuel with
  | zero => intro r _ h; omega
  | succ fuel ih =>
    intro r hr hfuel
    unfold ZCReader.waitRead
    by_cases hlen : (r.q.len : Int) ≥ n
    · simp only [hlen, if_true]
      exact ⟨hr, rfl, rfl, Or.inl ⟨hlen, rfl⟩⟩
    · simp only [hlen, if_false]
      have hlt : (r.q.len : Int) < n := by omega
      have hgood := round_good hr b
      cases hs : r.src.script with
      | nil =>
        have h1 := round_nil hr.allF hr.flags hs b
        rw [h1] at hgood ⊢
        refine ⟨hgood, rfl, rfl, Or.inr ⟨hlt, [], (0, .eof), ?_, ?_, ?_, ?_, ?_, ?_⟩⟩
        · simp [Src.eff, hs]
        · simp [hs]
        · simp
        · simp [errOf]
        · simp [errOf]
        · simp [gotOf]
      | cons p rest =>
        have h1 := round_cons hr.allF hr.flags hs b
        rw [h1] at hgood
        cases he : errOf p with
        | some e =>
          rw [h1, he]
          refine ⟨hgood, rfl, rfl, Or.inr ⟨hlt, [], p, ?_, ?_, ?_, ?_, ?_, ?_⟩⟩
          · simp [Src.eff, hs]
          · simp [hs]
          · simp
          · simp [he]
          · simp [he]
          · simp
        | none =>
          rw [h1, he]
          simp only
          have hfuel' : rest.length + 1 ≤ fuel := by simp [hs] at hfuel; omega
          obtain ⟨g, hd, hstr, hcase⟩ := ih _ hgood hfuel'
          refine ⟨g, hd, hstr, Or.inr ⟨hlt, ?_⟩⟩
          rcases hcase with ⟨hge, hout⟩ | ⟨_, pre, last, hpre, hscr, hpn, hres, hen, hpos⟩
          · refine ⟨[], p, ?_, ?_, ?_, ?_, ?_, ?_⟩
            · simp [Src.eff, hs]
            · simp [hout, hs]
            · simp
            · simp [hout, he]
            · intro _; simpa [hout] using hge
            · simp [hout]
          · refine ⟨p :: pre, last, ?_, ?_, ?_, hres, hen, ?_⟩
            · simpa [Src.eff, hs, List.cons_prefix_cons] using hpre
            · simpa [hs] using hscr
            · intro x hx
              rcases List.mem_cons.1 hx with rfl | hx
              · exact he
              · exact hpn x hx
            · simp only [hpos]; simp [Nat.add_assoc]


theorem waitRead_enough [DecidableEq α] [Inhabited α] (b : Nat) (n : Int) :
    ∀ (fuel : Nat) (r : ZCReader α), r.src.script.length + 1 ≤ fuel →
      (r.waitRead b fuel n).2 ≠ none ∨ ((r.waitRead b fuel n).1.q.len : Int) ≥ n := by
  intro fuel
  induction fuel with
  | zero => intro r h; omega
  | succ fuel ih =>
    intro r hfuel
    unfold ZCReader.waitRead
    by_cases hlen : (r.q.len : Int) ≥ n
    · rw [if_pos hlen]; exact Or.inr hlen
    · rw [if_neg hlen]
      cases hrd : r.round b with
      | mk r' e =>
        cases e with
        | some e => simp
        | none =>
          simp only
          cases hs : r.src.script with
          | nil => have := (round_src_nil r b hs).1; simp [hrd] at this
          | cons p rest =>
            have h2 : r'.src.script = rest := by simpa [hrd] using (round_src_cons r b hs).2
            apply ih
            rw [h2]; simp [hs] at hfuel; omega

theorem waitRead_fuel_indep [DecidableEq α] [Inhabited α] (b : Nat) (n : Int) :
    ∀ (f1 f2 : Nat) (r : ZCReader α), r.src.script.length + 1 ≤ f1 → r.src.script.length + 1 ≤ f2 →
      r.waitRead b f1 n = r.waitRead b f2 n := by
  intro f1
  induction f1 with
  | zero => intro f2 r h; omega
  | succ f1 ih =>
    intro f2 r h1 h2
    cases f2 with
    | zero => omega
    | succ f2 =>
      unfold ZCReader.waitRead
      by_cases hlen : (r.q.len : Int) ≥ n
      · simp only [hlen, if_true]
      · simp only [hlen, if_false]
        cases hrd : r.round b with
        | mk r' e =>
          cases e with
          | some e => rfl
          | none =>
            simp only
            cases hs : r.src.script with
            | nil => have := (round_src_nil r b hs).1; simp [hrd] at this
            | cons p rest =>
              have h3 : r'.src.script = rest := by simpa [hrd] using (round_src_cons r b hs).2
              apply ih
              · rw [h3]; simp [hs] at h1; omega
              · rw [h3]; simp [hs] at h2; omega


/-! ## the nested loops of the code (`waitReadLoop` over `fill`) compute the flat loop -/

theorem waitRead_zero [DecidableEq α] [Inhabited α] (b : Nat) (r : ZCReader α) (n : Int) :
    r.waitRead b 0 n = (r, none) := rfl

theorem waitRead_succ [DecidableEq α] [Inhabited α] (b fuel : Nat) (r : ZCReader α) (n : Int) :
    r.waitRead b (fuel + 1) n =
      if (r.q.len : Int) ≥ n then (r, none)
      else match r.round b with
        | (r', some e) => (r', some e)
        | (r', none) => r'.waitRead b fuel n := rfl

/-- A bounded run of rounds (`fill` = `waitRead` with `c` rounds of fuel) is a prefix of the full run: its error is
the full run's result; if it ends without error the full run continues from where it stopped, the script is no longer,
and strictly shorter if it made a round at all. -/
theorem waitRead_prefix [DecidableEq α] [Inhabited α] (b : Nat) (n : Int) :
    ∀ (c : Nat) (r : ZCReader α) (F : Nat), r.src.script.length + 1 ≤ F →
      (∀ r' e, r.waitRead b c n = (r', some e) → r.waitRead b F n = (r', some e)) ∧
      (∀ r', r.waitRead b c n = (r', none) →
         r'.src.script.length ≤ r.src.script.length ∧
         (1 ≤ c → (r.q.len : Int) < n → r'.src.script.length < r.src.script.length) ∧
         r.waitRead b F n = r'.waitRead b (r'.src.script.length + 1) n) := by
  intro c
  induction c with
  | zero =>
    intro r F hF
    rw [waitRead_zero]
    refine ⟨fun r' e h => (by cases h), fun r' h => ?_⟩
    cases h
    exact ⟨Nat.le_refl _, fun h => by omega, waitRead_fuel_indep b n _ _ _ hF (Nat.le_refl _)⟩
  | succ c ih =>
    intro r F hF
    cases F with
    | zero => omega
    | succ F =>
      rw [waitRead_succ b c, waitRead_succ b F]
      by_cases hlen : (r.q.len : Int) ≥ n
      · simp only [hlen, if_true]
        refine ⟨fun r' e h => (by cases h), fun r' h => ?_⟩
        cases h
        refine ⟨Nat.le_refl _, fun _ h => by omega, ?_⟩
        rw [waitRead_succ]; simp only [hlen, if_true]
      · simp only [hlen, if_false]
        cases hrd : r.round b with
        | mk r1 e1 =>
          cases e1 with
          | some e => exact ⟨fun r' e' h => h, fun r' h => by cases h⟩
          | none =>
            simp only
            cases hs : r.src.script with
            | nil => have := (round_src_nil r b hs).1; simp [hrd] at this
            | cons p rest =>
              have h3 : r1.src.script = rest := by simpa [hrd] using (round_src_cons r b hs).2
              have hF1 : r1.src.script.length + 1 ≤ F := by rw [h3]; simp [hs] at hF; omega
              obtain ⟨ihe, ihn⟩ := ih r1 F hF1
              refine ⟨ihe, fun r' h => ?_⟩
              obtain ⟨hle, _, heq⟩ := ihn r' h
              rw [h3] at hle
              exact ⟨by simp; omega, fun _ _ => by simp; omega, heq⟩

/-- `waitRead` as written in the code - an outer loop that re-arms `fill`, `fill` bounded by `cycle ≥ 1` source reads -
returns what the flat loop returns: the cycle bound of `fill` is invisible to the caller of `waitRead`.
(`cycle = 0` would make the code spin for ever; the model would run out of fuel.) -/
theorem waitReadLoop_eq_of_fuel [DecidableEq α] [Inhabited α] (b cycle : Nat) (hc : 1 ≤ cycle) (n : Int) :
    ∀ (fuel : Nat) (r : ZCReader α), r.src.script.length + 1 ≤ fuel →
      r.waitReadLoop b cycle fuel n = r.waitRead b (fuelOf r) n := by
  intro fuel
  induction fuel with
  | zero => intro r h; omega
  | succ fuel ih =>
    intro r hfuel
    unfold ZCReader.waitReadLoop
    by_cases hlen : (r.q.len : Int) ≥ n
    · simp only [hlen, if_true, fuelOf]
      rw [waitRead_succ]; simp only [hlen, if_true]
    · simp only [hlen, if_false]
      obtain ⟨hpe, hpn⟩ := waitRead_prefix b n cycle r (fuelOf r) (Nat.le_refl _)
      cases hf : r.fill b cycle n with
      | mk r' e =>
        unfold ZCReader.fill at hf
        cases e with
        | some e => exact (hpe r' e hf).symm
        | none =>
          simp only
          obtain ⟨_, hlt, heq⟩ := hpn r' hf
          have hlt := hlt hc (by omega)
          rw [ih r' (by omega), heq]; rfl

/-- the loop of the code with the code's cycle bound (`Gen.c_maxReadCycle`, regenerated from `maxReadCycle`) -/
theorem waitReadLoop_eq [DecidableEq α] [Inhabited α] (b : Nat) (r : ZCReader α) (n : Int) :
    r.waitReadLoop b Gen.c_maxReadCycle (fuelOf r) n = r.waitRead b (fuelOf r) n :=
  waitReadLoop_eq_of_fuel b _ (by decide) n _ r (Nat.le_refl _)


/-! ## reader calls -/

/-- `q'` is `q` with `bs`, its first readable bytes, taken off the front -/
def Took (q q' : Q α) (bs : List α) : Prop :=
  q' = { q with items := q.items.drop bs.length } ∧ bs = q.flushedBytes.take bs.length

theorem Took.refl_nil (q : Q α) : Took q q [] := by simp [Took]

theorem Took.flushedBytes {q q' : Q α} {bs : List α} (h : AllF q.items) (t : Took q q' bs) :
    q.flushedBytes = bs ++ q'.flushedBytes := by
  obtain ⟨rfl, hb⟩ := t
  have : ({ q with items := q.items.drop bs.length } : Q α).flushedBytes = q.flushedBytes.drop bs.length := by
    simp [Q.flushedBytes, allF_filter h, allF_filter (allF_drop h _), List.map_drop]
  rw [this]
  conv => rhs; arg 1; rw [hb]
  exact (List.take_append_drop _ _).symm

theorem Took.allF {q q' : Q α} {bs : List α} (h : AllF q.items) (t : Took q q' bs) : AllF q'.items := by
  obtain ⟨rfl, _⟩ := t; exact allF_drop h _

theorem Took.flags {q q' : Q α} {bs : List α} (h : QFlags q) (t : Took q q' bs) : QFlags q' := by
  obtain ⟨rfl, _⟩ := t; exact h

theorem takeRead_took {q : Q α} (h : AllF q.items) (n : Int) :
    (takeRead q n true = (q, .exact .err) ∧ 0 < n ∧ q.len < n.toNat) ∨
    (∃ bs, takeRead q n true = ({ q with items := q.items.drop bs.length }, .exact (.bytes bs)) ∧
       bs = q.flushedBytes.take bs.length ∧ bs.length = n.toNat ∧ bs = q.firstBytes n.toNat) := by
  unfold takeRead
  by_cases hn : n ≤ 0
  · right; refine ⟨[], ?_⟩
    have : n.toNat = 0 := by omega
    simp [hn, this, Q.firstBytes]
  · by_cases hl : q.len < n.toNat
    · left; simp [hn, hl]; omega
    · right; refine ⟨q.firstBytes n.toNat, ?_⟩
      have hlen : (q.firstBytes n.toNat).length = n.toNat := by
        rw [Q.firstBytes_of_allF h, List.length_take, ← Q.len_eq_flushedBytes]; omega
      simp only [hn, hl, if_false, if_true, hlen, true_and]
      exact ⟨Q.firstBytes_of_allF h _, trivial⟩

theorem takeRead_peek {q : Q α} (h : AllF q.items) (n : Int) :
    (takeRead q n false = (q, .exact .err) ∧ 0 < n ∧ q.len < n.toNat) ∨
    (∃ bs, takeRead q n false = (q, .exact (.bytes bs)) ∧
       bs = q.flushedBytes.take bs.length ∧ bs.length = n.toNat) := by
  unfold takeRead
  by_cases hn : n ≤ 0
  · right; refine ⟨[], ?_⟩
    have : n.toNat = 0 := by omega
    simp [hn, this]
  · by_cases hl : q.len < n.toNat
    · left; simp [hn, hl]; omega
    · right; refine ⟨q.firstBytes n.toNat, ?_⟩
      have hlen : (q.firstBytes n.toNat).length = n.toNat := by
        rw [Q.firstBytes_of_allF h, List.length_take, ← Q.len_eq_flushedBytes]; omega
      simp only [hn, hl, if_false, hlen]
      exact ⟨by simp, Q.firstBytes_of_allF h _, trivial⟩

theorem contract_read {q : Q α} (h : AllF q.items) (hf : QFlags q) :
    (∀ n, Contract q (.next n) = true) ∧ (∀ n, Contract q (.peek n) = true) ∧ (∀ n, Contract q (.skip n) = true) ∧
    (∀ n, Contract q (.readBinary n) = true) ∧ Contract q .readByte = true ∧ (∀ c, Contract q (.until c) = true) ∧
    Contract q .release = true ∧ Contract q .len = true := by
  simp [Contract, hf.1, hf.2.2.2, Q.readOK_of_allF h]


/-- the call handed out exactly `bs`: the next bytes of the source stream after what had been delivered before -/
def Delivers (r r' : ZCReader α) (bs : List α) : Prop :=
  bs = seg r.src.stream r.delivered.length bs.length ∧ r'.delivered = r.delivered ++ bs

theorem seg_mid {f : Nat → α} {l₁ l₂ l₃ : List α} {N : Nat} (h : l₁ ++ l₂ ++ l₃ = seg f 0 N) :
    l₂ = seg f l₁.length l₂.length := by
  have hN : N = l₁.length + (l₂.length + l₃.length) := by
    have := congrArg List.length h
    simp [seg_length] at this; omega
  rw [hN, seg_add, seg_add, List.append_assoc] at h
  have h1 := List.append_inj h (by simp [seg_length])
  have h2 := List.append_inj h1.2 (by simp [seg_length])
  simpa using h2.1

/-- a buffered prefix of the readable bytes is the next part of the source stream -/
theorem RGood.next_bytes {r : ZCReader α} (hr : RGood r) {bs : List α} (hb : bs = r.q.flushedBytes.take bs.length) :
    bs = seg r.src.stream r.delivered.length bs.length := by
  have h := hr.stream
  rw [← List.take_append_drop bs.length r.q.flushedBytes, ← hb, Src.pulled_eq, ← List.append_assoc] at h
  exact seg_mid h

/-- outcome of a consuming read on the queue: an error and no change, or `bs` (satisfying `L`) taken off the front -/
def ReadSpec (q : Q α) (out : Q α × Expect α) (L : List α → Prop) : Prop :=
  out = (q, .exact .err) ∨
  ∃ bs, out = ({ q with items := q.items.drop bs.length }, .exact (.bytes bs)) ∧ bs = q.flushedBytes.take bs.length ∧ L bs

theorem readSpec_next [DecidableEq α] {q : Q α} (h : AllF q.items) (n : Int) :
    ReadSpec q (specStep q (.next n)) (fun bs => bs.length = n.toNat) := by
  rcases takeRead_took h n with ⟨h1, _⟩ | ⟨bs, h1, h2, h3, _⟩
  · exact Or.inl h1
  · exact Or.inr ⟨bs, h1, h2, h3⟩

theorem readSpec_readBinary [DecidableEq α] {q : Q α} (h : AllF q.items) (n : Int) :
    ReadSpec q (specStep q (.readBinary n)) (fun bs => bs.length = n.toNat) := readSpec_next h n

theorem readSpec_readByte [DecidableEq α] {q : Q α} (h : AllF q.items) :
    ReadSpec q (specStep q .readByte) (fun bs => bs.length = 1) := by
  simp only [specStep]
  split
  · exact Or.inl rfl
  · rcases takeRead_took h 1 with ⟨h1, _⟩ | ⟨bs, h1, h2, h3, _⟩
    · exact Or.inl h1
    · exact Or.inr ⟨bs, h1, h2, by simpa using h3⟩

theorem readSpec_until [DecidableEq α] {q : Q α} (h : AllF q.items) (c : α) :
    ReadSpec q (specStep q (.until c)) (fun bs => bs.idxOf? c = some (bs.length - 1)) := by
  simp only [specStep]
  split
  · exact Or.inl rfl
  · rename_i i hi
    rcases takeRead_took h ((i : Int) + 1) with ⟨h1, _⟩ | ⟨bs, h1, h2, h3, _⟩
    · exact Or.inl h1
    · refine Or.inr ⟨bs, h1, h2, ?_⟩
      have h3' : bs.length = i + 1 := by omega
      obtain ⟨hlt, hci, hnot⟩ := List.idxOf?_eq_some_iff.1 hi
      show bs.idxOf? c = some (bs.length - 1)
      rw [List.idxOf?_eq_some_iff]
      have hbi : ∀ j (hj : j < bs.length), bs[j] = q.flushedBytes[j]'(by omega) := by
        intro j hj
        have : bs[j] = (q.flushedBytes.take bs.length)[j]'(by rw [← h2]; exact hj) := by congr 1
        rw [this, List.getElem_take]
      refine ⟨by omega, ?_, ?_⟩
      · rw [hbi _ (by omega)]
        simp only [h3', Nat.add_sub_cancel]; exact hci
      · intro j hj
        rw [hbi _ (by omega)]
        exact hnot j (by omega)

theorem bufOp_err [DecidableEq α] {r : ZCReader α} {op : Op α} (c : Bool) (hi : r.inC = true) (hc : Contract r.q op = true)
    (hs : specStep r.q op = (r.q, .exact .err)) : r.bufOp op c = (r, .fail .buf) := by
  cases r
  simp_all [ZCReader.bufOp, ZCReader.call, callQ, ofExpect]

theorem bufOp_consume [DecidableEq α] {r : ZCReader α} {op : Op α} {L : List α → Prop} (hr : RGood r)
    (hc : Contract r.q op = true) (hs : ReadSpec r.q (specStep r.q op) L) :
    RGood (r.bufOp op true).1 ∧ (r.bufOp op true).1.src = r.src ∧
    (((r.bufOp op true).2 = .fail .buf ∧ (r.bufOp op true).1.delivered = r.delivered) ∨
     ∃ bs, (r.bufOp op true).2 = .ok (.bytes bs) ∧ L bs ∧ Delivers r (r.bufOp op true).1 bs) := by
  rcases hs with hs | ⟨bs, hs, hb, hL⟩
  · rw [bufOp_err true hr.inC hc hs]
    exact ⟨hr, rfl, Or.inl ⟨rfl, rfl⟩⟩
  · have ht : Took r.q { r.q with items := r.q.items.drop bs.length } bs := ⟨rfl, hb⟩
    have hq : r.bufOp op true = ({ r with q := { r.q with items := r.q.items.drop bs.length }, delivered := r.delivered ++ bs }, .ok (.bytes bs)) := by
      have hi := hr.inC
      obtain ⟨src, q, del, inC⟩ := r
      simp only at hi hs hc
      subst hi
      simp [ZCReader.bufOp, ZCReader.call, callQ, ofExpect, hs, hc]
    rw [hq]
    refine ⟨⟨?_, ht.allF hr.allF, ht.flags hr.flags, hr.inC⟩, rfl, Or.inr ⟨bs, rfl, hL, hr.next_bytes hb, rfl⟩⟩
    simp only [List.append_assoc, ← ht.flushedBytes hr.allF]
    exact hr.stream


theorem RGood.took {r : ZCReader α} (hr : RGood r) {q' : Q α} {bs : List α} (ht : Took r.q q' bs) :
    RGood { r with q := q', delivered := r.delivered ++ bs } := by
  refine ⟨?_, ht.allF hr.allF, ht.flags hr.flags, hr.inC⟩
  simp only [List.append_assoc, ← ht.flushedBytes hr.allF]
  exact hr.stream

theorem bufOp_noconsume [DecidableEq α] {r : ZCReader α} {op : Op α} {q' : Q α} {res : Res α} (hi : r.inC = true)
    (hc : Contract r.q op = true) (hs : specStep r.q op = (q', .exact res)) (hne : res ≠ .err) :
    r.bufOp op false = ({ r with q := q' }, .ok res) := by
  obtain ⟨src, q, del, inC⟩ := r
  simp only at hi hs hc
  subst hi
  cases res <;> simp_all [ZCReader.bufOp, ZCReader.call, callQ, ofExpect]

theorem bufOp_pure [DecidableEq α] {r : ZCReader α} {op : Op α} {res : Res α} (hi : r.inC = true)
    (hc : Contract r.q op = true) (hs : specStep r.q op = (r.q, .exact res)) (hne : res ≠ .err) :
    r.bufOp op false = (r, .ok res) := by
  obtain ⟨src, q, del, inC⟩ := r
  simp only at hi hs hc
  subst hi
  cases res <;> simp_all [ZCReader.bufOp, ZCReader.call, callQ, ofExpect]

theorem waitRead_out [DecidableEq α] [Inhabited α] {r : ZCReader α} (hr : RGood r) (b : Nat) (n : Int)
    {r1 : ZCReader α} {res : Option AErr} (hw : r.waitRead b (fuelOf r) n = (r1, res)) :
    RGood r1 ∧ r1.delivered = r.delivered ∧ r1.src.stream = r.src.stream ∧ r.src.pos ≤ r1.src.pos ∧
      (res = none → (r1.q.len : Int) ≥ n) := by
  have h := waitRead_spec b n (fuelOf r) r hr (Nat.le_refl _)
  rw [hw] at h
  obtain ⟨g, hd, hs, hcase⟩ := h
  refine ⟨g, hd, hs, ?_, ?_⟩
  · rcases hcase with ⟨_, h⟩ | ⟨_, pre, last, _, _, _, _, _, hpos⟩
    · cases h; exact Nat.le_refl _
    · simp only at hpos; omega
  · have := waitRead_enough b n (fuelOf r) r (Nat.le_refl _)
    rw [hw] at this
    intro hn; subst hn
    simpa using this

/-- common post-condition of every reader call -/
def StepOK (r : ZCReader α) (out : ZCReader α × ARes α) : Prop :=
  RGood out.1 ∧ out.1.src.stream = r.src.stream ∧ r.src.pos ≤ out.1.src.pos ∧
  (∀ e, out.2 = .fail e → out.1.delivered = r.delivered)

/-- a call that first waits for `n` bytes and then runs the consuming buffer call `op` -/
theorem wait_consume [DecidableEq α] [Inhabited α] {r : ZCReader α} (hr : RGood r) (b : Nat) (n : Int) (op : Op α)
    (L : List α → Prop) (hc : ∀ q : Q α, AllF q.items → QFlags q → Contract q op = true)
    (hs : ∀ q : Q α, AllF q.items → ReadSpec q (specStep q op) L) :
    let out := (match r.waitRead b (fuelOf r) n with
      | (r1, some e) => (r1, ARes.fail e)
      | (r1, none) => r1.bufOp op true)
    StepOK r out ∧ ∀ res, out.2 = .ok res → ∃ bs, res = .bytes bs ∧ L bs ∧ Delivers r out.1 bs := by
  cases hw : r.waitRead b (fuelOf r) n with
  | mk r1 res =>
    obtain ⟨g, hd, hst, hpos, _⟩ := waitRead_out hr b n hw
    cases res with
    | some e =>
      simp only
      exact ⟨⟨g, hst, hpos, fun _ _ => hd⟩, fun _ h => by simp at h⟩
    | none =>
      simp only
      obtain ⟨g2, hsrc, hcase⟩ := bufOp_consume g (hc _ g.allF g.flags) (hs _ g.allF)
      refine ⟨⟨g2, by rw [hsrc, hst], by rw [hsrc]; exact hpos, ?_⟩, ?_⟩
      · intro e he
        rcases hcase with ⟨_, h⟩ | ⟨bs, h, _⟩
        · rw [h, hd]
        · rw [h] at he; cases he
      · intro res hres
        rcases hcase with ⟨h, _⟩ | ⟨bs, h, hL, hdel⟩
        · rw [h] at hres; cases hres
        · rw [h] at hres; cases hres
          refine ⟨bs, rfl, hL, ?_⟩
          unfold Delivers at hdel ⊢
          rw [← hst, ← hd]; exact hdel


section steps
variable [DecidableEq α] [Inhabited α] {r : ZCReader α} (hr : RGood r) (b : Nat)
include hr

theorem step_next (n : Int) :
    StepOK r (r.step b (.next n)) ∧ ∀ res, (r.step b (.next n)).2 = .ok res →
      ∃ bs, res = .bytes bs ∧ bs.length = n.toNat ∧ Delivers r (r.step b (.next n)).1 bs :=
  by
  simp only [ZCReader.step, waitReadLoop_eq]
  exact wait_consume hr b n (.next n) _ (fun _ h f => (contract_read h f).1 n) (fun _ h => readSpec_next h n)

theorem step_readBinary (n : Int) :
    StepOK r (r.step b (.readBinary n)) ∧ ∀ res, (r.step b (.readBinary n)).2 = .ok res →
      ∃ bs, res = .bytes bs ∧ bs.length = n.toNat ∧ Delivers r (r.step b (.readBinary n)).1 bs :=
  by
  simp only [ZCReader.step, waitReadLoop_eq]
  exact wait_consume hr b n (.readBinary n) _ (fun _ h f => (contract_read h f).2.2.2.1 n) (fun _ h => readSpec_readBinary h n)

theorem step_readByte :
    StepOK r (r.step b .readByte) ∧ ∀ res, (r.step b .readByte).2 = .ok res →
      ∃ bs, res = .bytes bs ∧ bs.length = 1 ∧ Delivers r (r.step b .readByte).1 bs :=
  by
  simp only [ZCReader.step, waitReadLoop_eq]
  exact wait_consume hr b 1 .readByte _ (fun _ h f => (contract_read h f).2.2.2.2.1) (fun _ h => readSpec_readByte h)

theorem step_until (c : α) :
    StepOK r (r.step b (.until c)) ∧ ∀ res, (r.step b (.until c)).2 = .ok res →
      ∃ bs, res = .bytes bs ∧ bs.idxOf? c = some (bs.length - 1) ∧ Delivers r (r.step b (.until c)).1 bs := by
  show StepOK r (r.bufOp (.until c) true) ∧ ∀ res, (r.bufOp (.until c) true).2 = .ok res →
      ∃ bs, res = .bytes bs ∧ bs.idxOf? c = some (bs.length - 1) ∧ Delivers r (r.bufOp (.until c) true).1 bs
  obtain ⟨g2, hsrc, hcase⟩ := bufOp_consume hr ((contract_read hr.allF hr.flags).2.2.2.2.2.1 c) (readSpec_until hr.allF c)
  refine ⟨⟨g2, by rw [hsrc], by rw [hsrc]; exact Nat.le_refl _, ?_⟩, ?_⟩
  · intro e he
    rcases hcase with ⟨_, h⟩ | ⟨bs, h, _⟩
    · exact h
    · rw [h] at he; cases he
  · intro res hres
    rcases hcase with ⟨h, _⟩ | ⟨bs, h, hL, hdel⟩
    · rw [h] at hres; cases hres
    · rw [h] at hres; cases hres
      exact ⟨bs, rfl, hL, hdel⟩

theorem step_release : r.step b .release = (r, .ok .unit) :=
  bufOp_pure hr.inC (contract_read hr.allF hr.flags).2.2.2.2.2.2.1 rfl (by simp)

theorem step_len : r.step b .len = (r, .ok (.num r.q.len)) :=
  bufOp_pure hr.inC (contract_read hr.allF hr.flags).2.2.2.2.2.2.2 rfl (by simp)

theorem step_peek (n : Int) :
    StepOK r (r.step b (.peek n)) ∧ (r.step b (.peek n)).1.delivered = r.delivered ∧
    ∀ res, (r.step b (.peek n)).2 = .ok res →
      ∃ bs, res = .bytes bs ∧ bs.length = n.toNat ∧ bs = seg r.src.stream r.delivered.length bs.length ∧
        bs = (r.step b (.peek n)).1.q.flushedBytes.take bs.length := by
  have hstep : r.step b (.peek n) = (match r.waitRead b (fuelOf r) n with
      | (r1, some e) => (r1, ARes.fail e)
      | (r1, none) => r1.bufOp (.peek n) false) := by rw [ZCReader.step, waitReadLoop_eq]; rfl
  rw [hstep]
  cases hw : r.waitRead b (fuelOf r) n with
  | mk r1 res =>
    obtain ⟨g, hd, hst, hpos, _⟩ := waitRead_out hr b n hw
    have hc := (contract_read g.allF g.flags).2.1 n
    cases res with
    | some e =>
      simp only
      exact ⟨⟨g, hst, hpos, fun _ _ => hd⟩, hd, fun _ h => by simp at h⟩
    | none =>
      simp only
      rcases takeRead_peek g.allF n with ⟨h1, _⟩ | ⟨bs, h1, h2, h3⟩
      · rw [bufOp_err false g.inC hc h1]
        exact ⟨⟨g, hst, hpos, fun _ _ => hd⟩, hd, fun _ h => by simp at h⟩
      · rw [bufOp_pure g.inC hc h1 (by simp)]
        refine ⟨⟨g, hst, hpos, fun _ _ => hd⟩, hd, ?_⟩
        intro res hres
        cases hres
        refine ⟨bs, rfl, h3, ?_, h2⟩
        rw [← hst, ← hd]; exact g.next_bytes h2

theorem step_skip (n : Int) :
    StepOK r (r.step b (.skip n)) ∧ ∀ res, (r.step b (.skip n)).2 = .ok res →
      res = .unit ∧ ∃ bs, bs.length = n.toNat ∧ Delivers r (r.step b (.skip n)).1 bs := by
  have hstep : r.step b (.skip n) = (match r.waitRead b (fuelOf r) n with
      | (r1, some e) => (r1, ARes.fail e)
      | (r1, none) =>
        let skipped := if n ≤ 0 ∨ r1.q.len < n.toNat then [] else r1.q.firstBytes n.toNat
        let (r', res) := r1.bufOp (.skip n) false
        ({ r' with delivered := r'.delivered ++ skipped }, res)) := by rw [ZCReader.step, waitReadLoop_eq]; rfl
  rw [hstep]
  cases hw : r.waitRead b (fuelOf r) n with
  | mk r1 res =>
    obtain ⟨g, hd, hst, hpos, _⟩ := waitRead_out hr b n hw
    have hc := (contract_read g.allF g.flags).2.2.1 n
    cases res with
    | some e =>
      simp only
      exact ⟨⟨g, hst, hpos, fun _ _ => hd⟩, fun _ h => by simp at h⟩
    | none =>
      simp only
      rcases takeRead_took g.allF n with ⟨h1, h2, h3⟩ | ⟨bs, h1, h2, h3, h4⟩
      · have hs : specStep r1.q (.skip n) = (r1.q, .exact .err) := by simp [specStep, h1]
        rw [bufOp_err false g.inC hc hs]
        have : (n ≤ 0 ∨ r1.q.len < n.toNat) := Or.inr h3
        simp only [this, if_true, List.append_nil]
        exact ⟨⟨g, hst, hpos, fun _ _ => hd⟩, fun _ h => by simp at h⟩
      · have hs : specStep r1.q (.skip n) = ({ r1.q with items := r1.q.items.drop bs.length }, .exact .unit) := by
          simp [specStep, h1]
        rw [bufOp_noconsume g.inC hc hs (by simp)]
        have hle : ¬ (n ≤ 0 ∨ r1.q.len < n.toNat) ∨ bs = [] := by
          by_cases hn : n ≤ 0
          · right; apply List.eq_nil_of_length_eq_zero; omega
          · left
            have := congrArg List.length h2
            rw [List.length_take, ← Q.len_eq_flushedBytes] at this
            omega
        have hsk : (if n ≤ 0 ∨ r1.q.len < n.toNat then [] else r1.q.firstBytes n.toNat) = bs := by
          rcases hle with h | h
          · rw [if_neg h, h4]
          · split
            · exact h.symm
            · exact h4.symm
        simp only [hsk]
        have ht : Took r1.q { r1.q with items := r1.q.items.drop bs.length } bs := ⟨rfl, h2⟩
        refine ⟨⟨g.took ht, hst, hpos, fun _ h => by simp at h⟩, ?_⟩
        intro res hres
        cases hres
        refine ⟨rfl, bs, h3, ?_, ?_⟩
        · rw [← hst, ← hd]; exact g.next_bytes h2
        · simp [hd]

end steps


theorem StepOK.same {r : ZCReader α} (hr : RGood r) (res : ARes α) : StepOK r (r, res) :=
  ⟨hr, rfl, Nat.le_refl _, fun _ _ => rfl⟩

theorem step_ok [DecidableEq α] [Inhabited α] {r : ZCReader α} (hr : RGood r) (b : Nat) (op : ROp α) :
    StepOK r (r.step b op) := by
  cases op with
  | next n => exact (step_next hr b n).1
  | peek n => exact (step_peek hr b n).1
  | skip n => exact (step_skip hr b n).1
  | readBinary n => exact (step_readBinary hr b n).1
  | readByte => exact (step_readByte hr b).1
  | «until» c => exact (step_until hr b c).1
  | release => rw [step_release hr b]; exact StepOK.same hr _
  | len => rw [step_len hr b]; exact StepOK.same hr _

theorem RGood.init (stream : Nat → α) (script : List (Int × IOErr)) :
    RGood ({ src := { stream := stream, script := script } } : ZCReader α) :=
  ⟨by simp [Q.flushedBytes, Src.pulled], by intro x hx; simp at hx, ⟨rfl, rfl, rfl, rfl⟩, rfl⟩

theorem run_ok [DecidableEq α] [Inhabited α] (b : Nat) (ops : List (ROp α)) :
    ∀ r : ZCReader α, RGood r →
      RGood (r.run b ops) ∧ (r.run b ops).src.stream = r.src.stream ∧ r.src.pos ≤ (r.run b ops).src.pos := by
  induction ops with
  | nil => intro r hr; exact ⟨hr, rfl, Nat.le_refl _⟩
  | cons op ops ih =>
    intro r hr
    obtain ⟨g, hst, hpos, _⟩ := step_ok hr b op
    obtain ⟨g2, hst2, hpos2⟩ := ih _ g
    exact ⟨g2, hst2.trans hst, Nat.le_trans hpos hpos2⟩

/-! ## reader: padding is irrelevant, delivered only grows -/

theorem round_pad_irrelevant [DecidableEq α] (i1 i2 : Inhabited α) {r : ZCReader α} (hr : RGood r) (b : Nat) :
    @ZCReader.round α _ i1 b r = @ZCReader.round α _ i2 b r := by
  cases hs : r.src.script with
  | nil => rw [@round_nil α _ i1 r hr.allF hr.flags hs, @round_nil α _ i2 r hr.allF hr.flags hs]
  | cons p rest => rw [@round_cons α _ i1 r hr.allF hr.flags p rest hs, @round_cons α _ i2 r hr.allF hr.flags p rest hs]

theorem waitRead_pad_irrelevant [DecidableEq α] (i1 i2 : Inhabited α) (b : Nat) (n : Int) :
    ∀ (fuel : Nat) (r : ZCReader α), RGood r →
      @ZCReader.waitRead α _ i1 b fuel r n = @ZCReader.waitRead α _ i2 b fuel r n := by
  intro fuel
  induction fuel with
  | zero => intro r _; rfl
  | succ fuel ih =>
    intro r hr
    unfold ZCReader.waitRead
    by_cases hlen : (r.q.len : Int) ≥ n
    · rw [if_pos hlen, if_pos hlen]
    · rw [if_neg hlen, if_neg hlen, round_pad_irrelevant i1 i2 hr b]
      have hg := @round_good α _ i2 r hr b
      cases hrd : @ZCReader.round α _ i2 b r with
      | mk r' e =>
        rw [hrd] at hg
        cases e with
        | some e => rfl
        | none => exact ih r' hg

theorem step_pad_irrelevant [DecidableEq α] (i1 i2 : Inhabited α) {r : ZCReader α} (hr : RGood r) (b : Nat) (op : ROp α) :
    @ZCReader.step α _ i1 b r op = @ZCReader.step α _ i2 b r op := by
  cases op <;> simp only [ZCReader.step, waitReadLoop_eq, waitRead_pad_irrelevant i1 i2 b _ _ r hr]

theorem run_pad_irrelevant [DecidableEq α] (i1 i2 : Inhabited α) (b : Nat) (ops : List (ROp α)) :
    ∀ r : ZCReader α, RGood r → @ZCReader.run α _ i1 b r ops = @ZCReader.run α _ i2 b r ops := by
  induction ops with
  | nil => intro r _; simp only [ZCReader.run, List.foldl_nil]
  | cons op ops ih =>
    intro r hr
    rw [@ZCReader.run_cons α _ i1, @ZCReader.run_cons α _ i2, step_pad_irrelevant i1 i2 hr b op]
    exact ih _ (@step_ok α _ i2 r hr b op).1

theorem step_delivered_prefix [DecidableEq α] [Inhabited α] {r : ZCReader α} (hr : RGood r) (b : Nat) (op : ROp α) :
    r.delivered <+: (r.step b op).1.delivered := by
  have key : ∀ (out : ZCReader α × ARes α), StepOK r out →
      (∀ res, out.2 = .ok res → ∃ bs, out.1.delivered = r.delivered ++ bs) → r.delivered <+: out.1.delivered := by
    intro out hok h
    cases hres : out.2 with
    | ok res => obtain ⟨bs, hbs⟩ := h res hres; rw [hbs]; exact List.prefix_append _ _
    | fail e => rw [hok.2.2.2 e hres]; exact List.prefix_refl _
  cases op with
  | next n =>
    refine key _ (step_next hr b n).1 fun res h => ?_
    obtain ⟨bs, _, _, _, hd⟩ := (step_next hr b n).2 res h; exact ⟨bs, hd⟩
  | readBinary n =>
    refine key _ (step_readBinary hr b n).1 fun res h => ?_
    obtain ⟨bs, _, _, _, hd⟩ := (step_readBinary hr b n).2 res h; exact ⟨bs, hd⟩
  | readByte =>
    refine key _ (step_readByte hr b).1 fun res h => ?_
    obtain ⟨bs, _, _, _, hd⟩ := (step_readByte hr b).2 res h; exact ⟨bs, hd⟩
  | «until» c =>
    refine key _ (step_until hr b c).1 fun res h => ?_
    obtain ⟨bs, _, _, _, hd⟩ := (step_until hr b c).2 res h; exact ⟨bs, hd⟩
  | skip n =>
    refine key _ (step_skip hr b n).1 fun res h => ?_
    obtain ⟨_, bs, _, _, hd⟩ := (step_skip hr b n).2 res h; exact ⟨bs, hd⟩
  | peek n => rw [(step_peek hr b n).2.1]; exact List.prefix_refl _
  | release => rw [step_release hr b]; exact List.prefix_refl _
  | len => rw [step_len hr b]; exact List.prefix_refl _


theorem run_delivered_prefix [DecidableEq α] [Inhabited α] (b : Nat) (ops : List (ROp α)) :
    ∀ r : ZCReader α, RGood r → r.delivered <+: (r.run b ops).delivered := by
  induction ops with
  | nil => intro r _; exact List.prefix_refl _
  | cons op ops ih =>
    intro r hr
    exact List.IsPrefix.trans (step_delivered_prefix hr b op) (ih _ (step_ok hr b op).1)

theorem run_append [DecidableEq α] [Inhabited α] (b : Nat) (r : ZCReader α) (ops₁ ops₂ : List (ROp α)) :
    r.run b (ops₁ ++ ops₂) = (r.run b ops₁).run b ops₂ := by
  simp [ZCReader.run, List.foldl_append]

/-! ## the writer -/

/-- bytes written (malloc'ed) but not yet flushed, in order -/
def _root_.Netpoll.Buf.Q.pendingBytes (q : Q α) : List α := (q.items.filter (! ·.2)).map (·.1)

/-- the queue is `F` flushed followed by `P` pending -/
def Shape (q : Q α) (F P : List α) : Prop := q.items = F.map (·, true) ++ P.map (·, false)

theorem filter_flushed_true (l : List α) : (l.map (·, true)).filter (·.2) = l.map (·, true) := by
  induction l with
  | nil => rfl
  | cons a t ih => simp
theorem filter_flushed_not (l : List α) : (l.map (·, true)).filter (! ·.2) = [] := by
  induction l with
  | nil => rfl
  | cons a t ih => simp

theorem Shape.facts {q : Q α} {F P : List α} (h : Shape q F P) :
    q.flushedBytes = F ∧ q.pendingBytes = P ∧ q.len = F.length ∧ q.mallocLen = P.length := by
  unfold Shape at h
  simp [Q.flushedBytes, Q.pendingBytes, Q.len, Q.mallocLen, h, List.filter_append, filter_flushed_true,
    filter_flushed_not, filter_pending, filter_not_pending, Function.comp_def]

/-- the Writer interface as a function of the calls alone: (stream flushed so far, bytes written since the last Flush) -/
def wspec : (List α × List α) → WOp α → (List α × List α)
  | (s, p), .malloc n d => (s, if n ≤ 0 then p else p ++ d)
  | (s, p), .writeBinary d _ => (s, p ++ d)
  | (s, p), .writeByte a => (s, p ++ [a])
  | (s, p), .mallocAck n => (s, if n < 0 then p else p.take n.toNat)
  | (s, p), .flush => (s ++ p, [])
  | (s, p), .mallocLen => (s, p)

/-- the writer contract (the clauses of the C01 `Contract` a caller of the Writer must respect):
`MallocAck(n)` needs `n ≤ MallocLen()`; the data `d` written into the slice `Malloc(n)` returned has length `n`;
`WriteBinary(p)` is given `cap(p) ≥ len(p)` (true of every Go slice) -/
def WContract (w : ZCWriter α) : WOp α → Prop
  | .mallocAck n => n ≤ (w.q.mallocLen : Int)
  -- `d` is what the caller wrote into the slice `Malloc(n)` returned: it has that length
  | .malloc n d => d.length = n.toNat
  -- `pcap` is `cap(p)` of a Go slice: never below `len(p)`
  | .writeBinary p pcap => p.length ≤ pcap
  | _ => True

def ZCWriter.run [DecidableEq α] (w : ZCWriter α) (ops : List (WOp α)) : ZCWriter α :=
  ops.foldl (fun w op => (w.step op).1) w

/-- every call of the sequence is inside the writer contract in the state it is made in -/
def WInContract [DecidableEq α] (w : ZCWriter α) : List (WOp α) → Prop
  | [] => True
  | op :: ops => WContract w op ∧ WInContract (w.step op).1 ops

instance [DecidableEq α] (w : ZCWriter α) (op : WOp α) : Decidable (WContract w op) := by
  cases op <;> simp only [WContract] <;> infer_instance

instance WInContract.dec [DecidableEq α] : ∀ (w : ZCWriter α) (ops : List (WOp α)), Decidable (WInContract w ops)
  | _, [] => isTrue trivial
  | w, op :: ops => @instDecidableAnd _ _ _ (WInContract.dec (w.step op).1 ops)

/-- invariant of a `zcWriter` -/
structure WGood (w : ZCWriter α) : Prop where
  /-- flushed entries come before pending ones -/
  shape : Shape w.q w.q.flushedBytes w.q.pendingBytes
  /-- submitted = already handed to the sink ++ flushed and still buffered -/
  stream : w.sink.got ++ w.q.flushedBytes = w.submitted
  flags : QFlags w.q
  inC : w.inC = true

theorem WGood.of_shape {w : ZCWriter α} {F P : List α} (h : Shape w.q F P) (hs : w.sink.got ++ F = w.submitted)
    (hf : QFlags w.q) (hi : w.inC = true) : WGood w := by
  obtain ⟨h1, h2, _, _⟩ := h.facts
  exact ⟨by rw [h1, h2]; exact h, by rw [h1]; exact hs, hf, hi⟩

theorem Sink.write_spec (s : Sink α) (p : List α) :
    (s.write p).1.1 ≤ p.length ∧ (s.write p).2.got = s.got ++ p.take (s.write p).1.1 := by
  unfold Sink.write
  split
  · simp
  · simp; omega

theorem ZCWriter.call_fst [DecidableEq α] (w : ZCWriter α) (op : Op α) :
    (w.call op).1 = { w with q := (specStep w.q op).1, inC := w.inC && Contract w.q op } := rfl
theorem ZCWriter.call_snd [DecidableEq α] (w : ZCWriter α) (op : Op α) : (w.call op).2 = (specStep w.q op).2 := rfl


theorem WGood.call [DecidableEq α] {w : ZCWriter α} (hw : WGood w) {op : Op α} (hc : Contract w.q op = true) {P' : List α}
    (hsh : Shape (specStep w.q op).1 w.q.flushedBytes P') (hf : QFlags (specStep w.q op).1) :
    WGood (w.call op).1 ∧ (w.call op).1.q.pendingBytes = P' ∧ (w.call op).1.submitted = w.submitted ∧
      (w.call op).1.sink = w.sink := by
  rw [ZCWriter.call_fst]
  refine ⟨WGood.of_shape hsh hw.stream hf (by simp [hw.inC, hc]), hsh.facts.2.1, rfl, rfl⟩

theorem contract_write {q : Q α} (hf : QFlags q) :
    (∀ n d, d.length = n.toNat → Contract q (.malloc n d) = true) ∧
    (∀ p c, p.length ≤ c → Contract q (.writeBinary p c) = true) ∧
    (∀ a, Contract q (.writeByte a) = true) ∧ (∀ n, n ≤ (q.mallocLen : Int) → Contract q (.mallocAck n) = true) ∧
    Contract q .flush = true ∧ Contract q .mallocLen = true := by
  obtain ⟨h1, h2, h3, h4⟩ := hf
  simp only [Contract, h1, h2, h3, h4]
  simp

theorem shape_malloc [DecidableEq α] {q : Q α} {F P : List α} (h : Shape q F P) (n : Int) (d : List α) :
    Shape (specStep q (.malloc n d)).1 F (if n ≤ 0 then P else P ++ d) := by
  unfold Shape at *
  simp only [specStep]
  split <;> simp [h]

theorem shape_writeBinary [DecidableEq α] {q : Q α} {F P : List α} (h : Shape q F P) (p : List α) (c : Nat) :
    Shape (specStep q (.writeBinary p c)).1 F (P ++ p) := by
  unfold Shape at *
  simp only [specStep]
  split
  · rename_i hp; simp at hp; simp [h, hp]
  · simp [h]

theorem shape_writeByte [DecidableEq α] {q : Q α} {F P : List α} (h : Shape q F P) (a : α) :
    Shape (specStep q (.writeByte a)).1 F (P ++ [a]) := by
  unfold Shape at *
  simp [specStep, h]

theorem shape_mallocAck [DecidableEq α] {q : Q α} {F P : List α} (h : Shape q F P) (n : Int) :
    Shape (specStep q (.mallocAck n)).1 F (if n < 0 then P else P.take n.toNat) := by
  have hlen := h.facts.2.2.1
  unfold Shape at *
  simp only [specStep]
  split
  · exact h
  · simp only [hlen, h]
    rw [List.take_append, List.take_of_length_le (by simp)]
    simp [List.map_take]

theorem flags_simple [DecidableEq α] {q : Q α} (hf : QFlags q) :
    (∀ n d, QFlags (specStep q (.malloc n d)).1) ∧ (∀ p c, QFlags (specStep q (.writeBinary p c)).1) ∧
    (∀ a, QFlags (specStep q (.writeByte a)).1) ∧ (∀ n, QFlags (specStep q (.mallocAck n)).1) := by
  refine ⟨?_, ?_, ?_, ?_⟩ <;> intros <;> simp only [specStep] <;> (try split) <;> exact hf


theorem skip_allF [DecidableEq α] {q : Q α} (h : AllF q.items) (n : Nat) (hn : n ≤ q.len) :
    (specStep q (.skip (n : Int))).1 = { q with items := q.items.drop n } := by
  rcases takeRead_took h (n : Int) with ⟨_, _, h3⟩ | ⟨bs, h1, _, h3, _⟩
  · simp at h3; omega
  · simp only [specStep, h1]
    simp at h3; rw [h3]

theorem flush_q [DecidableEq α] {q : Q α} {F P : List α} (h : Shape q F P) :
    (specStep q .flush).1.items = (F ++ P).map (·, true) ∧ (specStep q .flush).1.flushedBytes = F ++ P ∧
    (specStep q .flush).1.len = (F ++ P).length := by
  have h1 : (specStep q .flush).1.items = (F ++ P).map (·, true) := by
    unfold Shape at h
    simp [specStep, h, Function.comp_def]
  have h2 : Shape (specStep q .flush).1 (F ++ P) [] := by simp [Shape, h1]
  exact ⟨h1, h2.facts.1, h2.facts.2.2.1⟩

theorem flush_eq [DecidableEq α] {w : ZCWriter α} (hw : WGood w) :
    w.flush =
      ({ sink := (w.sink.write (w.q.flushedBytes ++ w.q.pendingBytes)).2,
         q := { (specStep w.q .flush).1 with
                items := (specStep w.q .flush).1.items.drop (w.sink.write (w.q.flushedBytes ++ w.q.pendingBytes)).1.1 },
         submitted := w.submitted ++ w.q.pendingBytes, inC := true },
       match (w.sink.write (w.q.flushedBytes ++ w.q.pendingBytes)).1.2 with | .none => .ok .unit | _ => .fail .src) := by
  obtain ⟨hitems, hfb, hlen⟩ := flush_q hw.shape
  have hall : AllF (specStep w.q .flush).1.items := by rw [hitems]; exact allF_map_true _
  have hfl : QFlags (specStep w.q .flush).1 := by
    obtain ⟨h1, h2, h3, _⟩ := hw.flags
    exact ⟨h1, h2, h3, rfl⟩
  have c1 : Contract w.q .flush = true := (contract_write hw.flags).2.2.2.2.1
  have c2 : Contract (specStep w.q .flush).1 .bytes = true := by
    obtain ⟨h1, h2, h3, h4⟩ := hfl
    simp [Contract, h1, h2, h4, Q.readOK_of_allF hall]
  have hle := (Sink.write_spec w.sink (w.q.flushedBytes ++ w.q.pendingBytes)).1
  rw [← hlen] at hle
  generalize hq1 : (specStep w.q .flush).1 = q1 at *
  have hb : specStep q1 .bytes = (q1, .exact (.bytes (w.q.flushedBytes ++ w.q.pendingBytes))) := by
    simp [specStep, hfb]
  have hpb : List.map (fun x => x.fst) (List.filter (fun x => !x.snd) w.q.items) = w.q.pendingBytes := rfl
  simp only [ZCWriter.flush, ZCWriter.call_fst, ZCWriter.call_snd, hq1, hb, ofExpect, hpb, hw.inC, c1, c2, Bool.and_true]
  generalize w.sink.write (w.q.flushedBytes ++ w.q.pendingBytes) = out at *
  by_cases hn : out.1.1 > 0
  · have hsk := skip_allF hall out.1.1 hle
    have c3 : Contract q1 (.skip (out.1.1 : Int)) = true := by
      simp [Contract, hfl.1, hfl.2.2.2, Q.readOK_of_allF hall]
    have c4 : Contract { q1 with items := q1.items.drop out.1.1 } .release = true := by
      simp [Contract, hfl.1]
    simp only [hn, if_true, hsk, c3, c4, Bool.and_true]
    simp [specStep]
    cases out.1.2 <;> rfl
  · have h0 : out.1.1 = 0 := by omega
    simp [h0]
    cases out.1.2 <;> rfl


/-- what one `Flush` does: the sink is offered everything flushed so far and not yet accepted (old remainder ++ newly
flushed); what it accepts (`n` bytes, any short count) moves from the buffer to the sink, the rest stays buffered. -/
theorem wflush_facts [DecidableEq α] {w : ZCWriter α} (hw : WGood w) :
    let offered := w.q.flushedBytes ++ w.q.pendingBytes
    let n := (w.sink.write offered).1.1
    let w' := (w.step .flush).1
    WGood w' ∧ n ≤ offered.length ∧ w'.sink.got = w.sink.got ++ offered.take n ∧ w'.q.flushedBytes = offered.drop n ∧
      w'.q.pendingBytes = [] ∧ w'.submitted = w.submitted ++ w.q.pendingBytes ∧ (n = offered.length → w'.q.len = 0) ∧
      (w.step .flush).2 = (match (w.sink.write offered).1.2 with | .none => .ok .unit | _ => .fail .src) := by
  intro offered n w'
  have heq : w.step .flush = w.flush := rfl
  obtain ⟨hitems, _, _⟩ := flush_q hw.shape
  obtain ⟨hle, hgot⟩ := Sink.write_spec w.sink offered
  have hfl : QFlags (specStep w.q .flush).1 := by
    obtain ⟨h1, h2, h3, _⟩ := hw.flags
    exact ⟨h1, h2, h3, rfl⟩
  have hsh : Shape w'.q (offered.drop n) [] := by
    show Shape (w.step .flush).1.q _ _
    rw [heq, flush_eq hw]
    simp only [Shape, hitems, List.map_drop, List.map_nil, List.append_nil]
    rfl
  have hflags : QFlags w'.q := by
    show QFlags (w.step .flush).1.q
    rw [heq, flush_eq hw]; exact hfl
  have hsink : w'.sink = (w.sink.write offered).2 := by
    show (w.step .flush).1.sink = _
    rw [heq, flush_eq hw]
  have hsub : w'.submitted = w.submitted ++ w.q.pendingBytes := by
    show (w.step .flush).1.submitted = _
    rw [heq, flush_eq hw]
  have hinc : w'.inC = true := by
    show (w.step .flush).1.inC = _
    rw [heq, flush_eq hw]
  have hgot' : w'.sink.got = w.sink.got ++ offered.take n := by rw [hsink]; exact hgot
  have hstream : w'.sink.got ++ offered.drop n = w'.submitted := by
    rw [hgot', hsub, List.append_assoc, List.take_append_drop, ← hw.stream, List.append_assoc]
  refine ⟨WGood.of_shape hsh hstream hflags hinc, hle, hgot', hsh.facts.1, hsh.facts.2.1, hsub, ?_, ?_⟩
  · intro hn
    rw [hsh.facts.2.2.1, hn]; simp
  · rw [heq, flush_eq hw]

theorem wstep_ok [DecidableEq α] {w : ZCWriter α} (hw : WGood w) (op : WOp α) (hc : WContract w op) :
    WGood (w.step op).1 ∧
    ((w.step op).1.submitted, (w.step op).1.q.pendingBytes) = wspec (w.submitted, w.q.pendingBytes) op := by
  cases op with
  | malloc n d =>
    obtain ⟨g, hp, hs, _⟩ := hw.call ((contract_write hw.flags).1 n d hc) (shape_malloc hw.shape n d) ((flags_simple hw.flags).1 n d)
    exact ⟨g, by simp only [ZCWriter.step, wspec, hp, hs]⟩
  | writeBinary p c =>
    obtain ⟨g, hp, hs, _⟩ := hw.call ((contract_write hw.flags).2.1 p c hc) (shape_writeBinary hw.shape p c) ((flags_simple hw.flags).2.1 p c)
    exact ⟨g, by simp only [ZCWriter.step, wspec, hp, hs]⟩
  | writeByte a =>
    obtain ⟨g, hp, hs, _⟩ := hw.call ((contract_write hw.flags).2.2.1 a) (shape_writeByte hw.shape a) ((flags_simple hw.flags).2.2.1 a)
    exact ⟨g, by simp only [ZCWriter.step, wspec, hp, hs]⟩
  | mallocAck n =>
    obtain ⟨g, hp, hs, _⟩ := hw.call ((contract_write hw.flags).2.2.2.1 n hc) (shape_mallocAck hw.shape n) ((flags_simple hw.flags).2.2.2 n)
    exact ⟨g, by simp only [ZCWriter.step, wspec, hp, hs]⟩
  | flush =>
    obtain ⟨g, _, _, _, hp, hs, _⟩ := wflush_facts hw
    exact ⟨g, by simp only [wspec, hp, hs]⟩
  | mallocLen =>
    have hq : specStep w.q .mallocLen = (w.q, .exact (.num w.q.mallocLen)) := rfl
    have hsh : Shape (specStep w.q .mallocLen).1 w.q.flushedBytes w.q.pendingBytes := hw.shape
    obtain ⟨g, hp, hs, _⟩ := hw.call (contract_write hw.flags).2.2.2.2.2 hsh hw.flags
    exact ⟨g, by simp only [ZCWriter.step, wspec, hp, hs]⟩


theorem WGood.init (script : List (Nat × IOErr)) : WGood ({ sink := { script := script } } : ZCWriter α) :=
  ⟨by simp [Shape, Q.flushedBytes, Q.pendingBytes], by simp [Q.flushedBytes], ⟨rfl, rfl, rfl, rfl⟩, rfl⟩

theorem wrun_ok [DecidableEq α] (ops : List (WOp α)) :
    ∀ w : ZCWriter α, WGood w → WInContract w ops →
      WGood (w.run ops) ∧
      ((w.run ops).submitted, (w.run ops).q.pendingBytes) = ops.foldl wspec (w.submitted, w.q.pendingBytes) := by
  induction ops with
  | nil => intro w hw _; exact ⟨hw, rfl⟩
  | cons op ops ih =>
    intro w hw hc
    obtain ⟨g, hsp⟩ := wstep_ok hw op hc.1
    obtain ⟨g2, h2⟩ := ih _ g hc.2
    refine ⟨g2, ?_⟩
    rw [List.foldl_cons, ← hsp]; exact h2

/-! ## ioReader / ioWriter -/

/-- invariant of a queue used through ioReader/ioWriter only: everything flushed, flags clean -/
def QGood (q : Q α) : Prop := AllF q.items ∧ QFlags q

theorem QGood.empty : QGood ({} : Q α) := ⟨by intro x hx; simp at hx, rfl, rfl, rfl, rfl⟩

theorem shape_of_allF {q : Q α} (h : AllF q.items) : Shape q q.flushedBytes [] := by
  simp only [Shape, List.map_nil, List.append_nil, Q.flushedBytes_of_allF h, List.map_map]
  have : ∀ l : List (α × Bool), AllF l → l = l.map ((fun x => (x, true)) ∘ fun x => x.fst) := by
    intro l hl
    have := allF_map_id hl
    simpa [Function.comp_def] using this.symm
  exact this _ h

theorem ioWrite_spec [DecidableEq α] {q : Q α} (hq : QGood q) (p : List α) :
    QGood (ioWrite q p).1 ∧ (ioWrite q p).1.flushedBytes = q.flushedBytes ++ p ∧
      (ioWrite q p).2.1 = p.length ∧ (ioWrite q p).2.2 = true := by
  obtain ⟨hall, hf⟩ := hq
  have hsh := shape_malloc (shape_of_allF hall) (p.length : Int) p
  have hsh' : Shape (specStep q (.malloc (p.length : Int) p)).1 q.flushedBytes p := by
    by_cases hp : (p.length : Int) ≤ 0
    · have : p = [] := by apply List.eq_nil_of_length_eq_zero; omega
      rw [if_pos hp] at hsh
      subst this; exact hsh
    · rw [if_neg hp] at hsh
      simpa using hsh
  obtain ⟨hitems, hfb, _⟩ := flush_q hsh'
  have hf1 := (flags_simple hf).1 (p.length : Int) p
  have c1 := (contract_write hf).1 (p.length : Int) p (by simp)
  have c2 := (contract_write hf1).2.2.2.2.1
  refine ⟨⟨?_, ?_⟩, ?_, rfl, ?_⟩
  · show AllF (specStep (specStep q (.malloc (p.length : Int) p)).1 .flush).1.items
    rw [hitems]; exact allF_map_true _
  · obtain ⟨h1, h2, h3, _⟩ := hf1
    exact ⟨h1, h2, h3, rfl⟩
  · exact hfb
  · show (true && Contract q (.malloc (p.length : Int) p) && Contract (specStep q (.malloc (p.length : Int) p)).1 .flush) = true
    simp [c1, c2]


theorem ioRead_spec [DecidableEq α] {q : Q α} (hq : QGood q) (l : Nat) :
    QGood (ioRead q l).1 ∧ (ioRead q l).2.1 = q.flushedBytes.take l ∧
      (ioRead q l).1.flushedBytes = q.flushedBytes.drop l ∧
      ((ioRead q l).2.2.1 = true ↔ (0 < l ∧ q.len = 0)) ∧ (ioRead q l).2.2.2 = true := by
  obtain ⟨hall, hf⟩ := hq
  have cl : Contract q .len = true := (contract_read hall hf).2.2.2.2.2.2.2
  by_cases hl : l = 0
  · subst hl
    simp [ioRead, hall, hf, QGood]
  · by_cases hlen : q.len = 0
    · have hfb : q.flushedBytes = [] := by
        apply List.eq_nil_of_length_eq_zero; rw [← Q.len_eq_flushedBytes]; exact hlen
      have hlt : q.len < l := by omega
      simp [ioRead, callQ, specStep, ofExpect, hl, hlen, hfb, cl, hall, hf, QGood]
      omega
    · generalize hm : (if q.len < l then q.len else l) = m
      have hm0 : m ≠ 0 := by rw [← hm]; split <;> omega
      have hmle : m ≤ q.len := by rw [← hm]; split <;> omega
      have hmll : m ≤ l := by rw [← hm]; split <;> omega
      have htake : q.flushedBytes.take m = q.flushedBytes.take l := by
        rw [← hm]; split
        · rw [List.take_of_length_le (by rw [← Q.len_eq_flushedBytes]; omega),
            List.take_of_length_le (by rw [← Q.len_eq_flushedBytes]; omega)]
        · rfl
      have hdrop : q.flushedBytes.drop m = q.flushedBytes.drop l := by
        rw [← hm]; split
        · rw [List.drop_of_length_le (by rw [← Q.len_eq_flushedBytes]; omega),
            List.drop_of_length_le (by rw [← Q.len_eq_flushedBytes]; omega)]
        · rfl
      rcases takeRead_took hall (m : Int) with ⟨_, _, h3⟩ | ⟨bs, h1, h2, h3, _⟩
      · simp at h3; omega
      · have h3' : bs.length = m := by simpa using h3
        have hn : specStep q (.next (m : Int)) = ({ q with items := q.items.drop m }, .exact (.bytes bs)) := by
          simp only [specStep, h1, h3']
        have ht : Took q { q with items := q.items.drop m } bs := ⟨by rw [h3'], h2⟩
        have cn : Contract q (.next (m : Int)) = true := (contract_read hall hf).1 _
        have cr : Contract { q with items := q.items.drop m } .release = true := by simp [Contract, hf.1]
        have hout : ioRead q l = ({ q with items := q.items.drop m }, bs, false, true) := by
          simp [ioRead, callQ, specStep, ofExpect, hl, hm, hm0, cl, cn, cr, h1, h3']
        rw [hout]
        have hfb := ht.flushedBytes hall
        refine ⟨⟨ht.allF hall, ht.flags hf⟩, ?_, ?_, ?_, rfl⟩
        · simp only; rw [h2, h3', htake]
        · simp only
          rw [← hdrop]
          have : q.flushedBytes.drop m = ({ q with items := q.items.drop m } : Q α).flushedBytes := by
            conv => lhs; rw [hfb]
            rw [List.drop_left' h3']
          exact this.symm
        · simp [hlen]


/-- calls on an ioWriter / ioReader pair sharing one buffer -/
inductive IOOp (α : Type) where
  | write (p : List α)
  | read (l : Nat)

/-- the shared buffer with ghost history: everything written, everything read, all buffer calls in contract -/
structure IOState (α : Type) where
  q : Q α := {}
  written : List α := []
  read : List α := []
  inC : Bool := true

def IOState.step [DecidableEq α] (s : IOState α) : IOOp α → IOState α
  | .write p => { s with q := (ioWrite s.q p).1, written := s.written ++ p, inC := s.inC && (ioWrite s.q p).2.2 }
  | .read l => { s with q := (ioRead s.q l).1, read := s.read ++ (ioRead s.q l).2.1, inC := s.inC && (ioRead s.q l).2.2.2 }

def IOState.run [DecidableEq α] (s : IOState α) (ops : List (IOOp α)) : IOState α := ops.foldl IOState.step s

def IOGood (s : IOState α) : Prop := QGood s.q ∧ s.read ++ s.q.flushedBytes = s.written ∧ s.inC = true

theorem io_step_ok [DecidableEq α] {s : IOState α} (hs : IOGood s) (op : IOOp α) : IOGood (s.step op) := by
  obtain ⟨hq, hst, hi⟩ := hs
  cases op with
  | write p =>
    obtain ⟨g, hfb, _, hc⟩ := ioWrite_spec hq p
    refine ⟨g, ?_, ?_⟩
    · show s.read ++ (ioWrite s.q p).1.flushedBytes = s.written ++ p
      rw [hfb, ← List.append_assoc, hst]
    · show (s.inC && (ioWrite s.q p).2.2) = true
      rw [hi, hc]; rfl
  | read l =>
    obtain ⟨g, hbs, hfb, _, hc⟩ := ioRead_spec hq l
    refine ⟨g, ?_, ?_⟩
    · show s.read ++ (ioRead s.q l).2.1 ++ (ioRead s.q l).1.flushedBytes = s.written
      rw [hbs, hfb, List.append_assoc, List.take_append_drop, hst]
    · show (s.inC && (ioRead s.q l).2.2.2) = true
      rw [hi, hc]; rfl

theorem io_run_ok [DecidableEq α] (ops : List (IOOp α)) : ∀ s : IOState α, IOGood s → IOGood (s.run ops) := by
  induction ops with
  | nil => intro s hs; exact hs
  | cons op ops ih => intro s hs; exact ih _ (io_step_ok hs op)

end Netpoll.Adapter
