import Netpoll.Dial
/-!
C14 as an executable oracle over what can be observed of one finished dial – of the model and of
the implementation alike (the harness prints exactly these fields).  Core Lean only.
-/
namespace Netpoll.Dial

/-- observation of one returned dial -/
structure Obs where
  conn : Bool          -- a connection was returned (interface non-nil and not a typed nil pointer)
  errSome : Bool       -- the error is non-nil
  errDeadline : Bool   -- the error is the one `mapErr` produces for context.DeadlineExceeded
  timeout : Bool       -- `err.(net.Error).Timeout()`
  openFds : Nat        -- descriptors opened by the dial that are still open
  slots : Nat          -- operator slots allocated by the dial that are still allocated
  tmpReg : Bool        -- a temporary (EPOLLOUT) registration of a dial descriptor is still in the epoll set
  connReg : Bool       -- the returned connection's descriptor is registered for reading
deriving DecidableEq, Repr

/-- the property: exactly one of connection / error; an error leaves nothing behind; a
connection holds exactly its descriptor and its registered slot; a deadline error reports Timeout(). -/
def specOk (o : Obs) : Bool :=
  (o.conn != o.errSome) &&
  (if o.conn then o.openFds == 1 && o.slots == 1 && o.connReg && !o.tmpReg
   else o.openFds == 0 && o.slots == 0 && !o.connReg && !o.tmpReg) &&
  (!o.errDeadline || o.timeout)

/-- which clause fails (for the verdict line) -/
def specWhy (o : Obs) : String :=
  if o.conn == o.errSome then (if o.conn then "both a connection and an error" else "neither a connection nor an error")
  else if o.conn && !(o.openFds == 1 && o.slots == 1 && o.connReg && !o.tmpReg) then
    "returned connection is not exactly one open descriptor with one registered slot"
  else if !o.conn && !(o.openFds == 0 && o.slots == 0 && !o.connReg && !o.tmpReg) then
    "failed dial left a descriptor, an operator slot or a poller registration behind"
  else if o.errDeadline && !o.timeout then "deadline error does not report Timeout()"
  else "ok"

def isDeadline : Option DErr → Bool
  | some (.ctx .deadline) => true
  | _ => false

/-- the observation of a returned model dial -/
def obsOf (cfg : Cfg) (s : St) : DRes → Option Obs
  | .blocked => none
  | .ret conn err => some {
      conn := conn, errSome := err.isSome, errDeadline := isDeadline err,
      timeout := match err with
        | some e => e.timeout cfg
        | none => false,
      openFds := s.L.opened - s.L.closed, slots := s.L.allocs - s.L.frees,
      tmpReg := s.pd.epoll, connReg := s.L.connReg }

/-- the ledger of a process in which the dial left nothing behind -/
def NothingLeft (s : St) : Prop :=
  s.L.opened = s.L.closed ∧ s.L.badClose = 0 ∧ s.L.fdOpen = false ∧   -- every descriptor closed exactly once
  s.L.allocs = s.L.frees ∧ s.L.badFree = 0 ∧ s.L.tmpSlot = false ∧    -- every operator slot freed exactly once
  s.L.connSlot = false ∧ s.L.connReg = false ∧
  s.pd.epoll = false                                                  -- no epoll registration left

end Netpoll.Dial
