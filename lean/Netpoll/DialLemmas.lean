import Netpoll.Dial
/-! Helper lemmas and invariants for the dial model (property C14). -/
namespace Netpoll.Dial

/-! ### the pollDesc invariant -/

/-- Relation between the temporary operator's words and the kernel registration:
a registration exists only while the operator is in use, not yet detached and no channel
has been closed; an unused operator is pristine. -/
structure PdOk (p : PD) : Prop where
  reg : p.epoll = true → p.detached = 0 ∧ p.opState = 1 ∧ p.wClosed = false ∧ p.hClosed = false
  unused : p.opState = 0 → p.wClosed = false ∧ p.hClosed = false ∧ p.detached = 0 ∧ p.epoll = false
  le : p.opState ≤ 1

/-- ghost bookkeeping of `return …, mapErr(ctx.Err())`: not executed, or executed with the
context's error and that is the error being returned -/
def CtxPost (p : PD) (err : Option DErr) : Prop :=
  p.ctxTaken = none ∨ ∃ k, p.ctxTaken = some k ∧ p.ctx = some k ∧ err = some (.ctx k)

theorem pdOk_detach {p : PD} (h : PdOk p) (h1 : p.opState = 1) : PdOk (detach p) := by
  obtain ⟨hr, hu, hl⟩ := h
  unfold detach epollDel
  constructor <;> split <;> grind

theorem detach_noepoll {p : PD} (h : PdOk p) : (detach p).epoll = false := by
  obtain ⟨hr, hu, hl⟩ := h
  unfold detach epollDel
  split <;> grind

@[simp] theorem detach_opState (p : PD) : (detach p).opState = p.opState := by
  unfold detach epollDel; split <;> rfl
@[simp] theorem detach_ctx (p : PD) : (detach p).ctx = p.ctx := by
  unfold detach epollDel; split <;> rfl
@[simp] theorem detach_ctxTaken (p : PD) : (detach p).ctxTaken = p.ctxTaken := by
  unfold detach epollDel; split <;> rfl
@[simp] theorem detach_wClosed (p : PD) : (detach p).wClosed = p.wClosed := by
  unfold detach epollDel; split <;> rfl
@[simp] theorem detach_hClosed (p : PD) : (detach p).hClosed = p.hClosed := by
  unfold detach epollDel; split <;> rfl

theorem pdOk_deliver {p : PD} (h : PdOk p) (e : Ev) : PdOk (deliver p e) := by
  cases e with
  | writable =>
    simp only [deliver]
    split
    · rename_i h1
      unfold onwrite
      split
      · exact h
      · have hd := pdOk_detach h h1
        have hn := detach_noepoll h
        obtain ⟨hr, hu, hl⟩ := hd
        constructor <;> simp_all
    · exact h
  | hup =>
    simp only [deliver]
    split
    · rename_i h1
      have hd := pdOk_detach h h1
      have hn := detach_noepoll h
      obtain ⟨hr, hu, hl⟩ := hd
      unfold onhup
      split
      · constructor <;> simp_all
      · constructor <;> simp_all
    · exact h
  | ctxDone k =>
    obtain ⟨hr, hu, hl⟩ := h
    simp only [deliver]
    split <;> constructor <;> simp_all

theorem deliver_opState (p : PD) (e : Ev) : (deliver p e).opState = p.opState := by
  cases e <;> simp only [deliver, onwrite, onhup] <;> (repeat' split) <;> simp

theorem deliver_ctxTaken (p : PD) (e : Ev) : (deliver p e).ctxTaken = p.ctxTaken := by
  cases e <;> simp only [deliver, onwrite, onhup] <;> (repeat' split) <;> simp

theorem deliver_epoll_false {p : PD} (e : Ev) (h : p.epoll = false) : (deliver p e).epoll = false := by
  cases e <;> simp only [deliver, onwrite, onhup, detach, epollDel] <;> (repeat' split) <;> simp_all

theorem deliver_ctx_some {p : PD} (e : Ev) {k : CtxErr} (h : p.ctx = some k) : (deliver p e).ctx = some k := by
  cases e <;> simp only [deliver, onwrite, onhup] <;> (repeat' split) <;> simp_all

theorem pdOk_deliverAll {p : PD} (h : PdOk p) (evs : List Ev) : PdOk (deliverAll p evs) := by
  unfold deliverAll
  induction evs generalizing p with
  | nil => exact h
  | cons e es ih => exact ih (pdOk_deliver h e)

theorem deliverAll_opState (p : PD) (evs : List Ev) : (deliverAll p evs).opState = p.opState := by
  unfold deliverAll
  induction evs generalizing p with
  | nil => rfl
  | cons e es ih => simp only [List.foldl_cons]; rw [ih, deliver_opState]

theorem deliverAll_ctxTaken (p : PD) (evs : List Ev) : (deliverAll p evs).ctxTaken = p.ctxTaken := by
  unfold deliverAll
  induction evs generalizing p with
  | nil => rfl
  | cons e es ih => simp only [List.foldl_cons]; rw [ih, deliver_ctxTaken]

theorem deliverAll_epoll_false {p : PD} (evs : List Ev) (h : p.epoll = false) : (deliverAll p evs).epoll = false := by
  unfold deliverAll
  induction evs generalizing p with
  | nil => exact h
  | cons e es ih => exact ih (deliver_epoll_false e h)

theorem deliverAll_ctx_some {p : PD} (evs : List Ev) {k : CtxErr} (h : p.ctx = some k) : (deliverAll p evs).ctx = some k := by
  unfold deliverAll
  induction evs generalizing p with
  | nil => exact h
  | cons e es ih => exact ih (deliver_ctx_some e h)

/-! ### WaitWrite and the connect loop -/

theorem register_spec {p : PD} (h : PdOk p) (c : Errno) :
    PdOk (register p c).1 ∧ (register p c).1.opState = 1 ∧ (register p c).1.ctxTaken = p.ctxTaken ∧
    ((register p c).2.isSome → (register p c).1.epoll = false) := by
  obtain ⟨hr, hu, hl⟩ := h
  unfold register
  split
  · split
    · refine ⟨⟨?_, ?_, ?_⟩, ?_, ?_, ?_⟩ <;> simp_all
    · refine ⟨⟨?_, ?_, ?_⟩, ?_, ?_, ?_⟩ <;> simp_all
  · refine ⟨⟨hr, hu, hl⟩, ?_, rfl, ?_⟩
    · show p.opState = 1
      omega
    · simp

/-- post-condition of one `WaitWrite` -/
def WaitPost (p : PD) : WW → Prop
  | .blocked => p.ctxTaken = none
  | .ok => p.ctxTaken = none ∧ p.epoll = false
  | .err e => p.epoll = false ∧ CtxPost p (some e)

theorem waitSelect_spec {p : PD} (h : PdOk p) (h1 : p.opState = 1) (hc : p.ctxTaken = none) (pick : Chan) :
    PdOk (waitSelect p pick).1 ∧ (waitSelect p pick).1.opState = 1 ∧ WaitPost (waitSelect p pick).1 (waitSelect p pick).2 := by
  have hreg := h.reg
  unfold waitSelect
  split
  · exact ⟨h, h1, hc⟩
  · rename_i hch
    have hw : p.wClosed = true := by
      unfold choose ready at hch
      cases pick <;> simp at hch <;> grind
    split
    · refine ⟨h, h1, ?_, Or.inl hc⟩
      cases hp : p.epoll <;> simp_all
    · refine ⟨h, h1, hc, ?_⟩
      cases hp : p.epoll <;> simp_all
  · rename_i hch
    have hw : p.hClosed = true := by
      unfold choose ready at hch
      cases pick <;> simp at hch <;> grind
    refine ⟨h, h1, ?_, Or.inl hc⟩
    cases hp : p.epoll <;> simp_all
  · split
    · rename_i k hk
      refine ⟨?_, ?_, ?_, ?_⟩
      · have hd := pdOk_detach h h1
        obtain ⟨a, b, c⟩ := hd
        constructor <;> simp_all [ctxReturn]
      · simp [ctxReturn, h1]
      · simp [ctxReturn, detach_noepoll h]
      · right; exact ⟨k, by simp [ctxReturn], by simp [ctxReturn, hk], rfl⟩
    · exact ⟨h, h1, hc⟩

theorem waitWrite_spec {p : PD} (h : PdOk p) (hc : p.ctxTaken = none) (w : Wake) :
    PdOk (waitWrite p w).1 ∧ (waitWrite p w).1.opState = 1 ∧ WaitPost (waitWrite p w).1 (waitWrite p w).2 := by
  have hr := register_spec h w.ctlErr
  unfold waitWrite
  split
  · rename_i p' e heq
    rw [heq] at hr
    obtain ⟨a, b, c, d⟩ := hr
    refine ⟨a, b, d (by simp), Or.inl (by simp_all)⟩
  · rename_i p' heq
    rw [heq] at hr
    obtain ⟨a, b, c, d⟩ := hr
    simp only at a b c
    exact waitSelect_spec (pdOk_deliverAll a _) (by rw [deliverAll_opState]; exact b)
      (by rw [deliverAll_ctxTaken, c]; exact hc) _

/-- post-condition of the connect loop -/
def LoopPost (p : PD) : CRes → Prop
  | .blocked => p.ctxTaken = none
  | .ret _ err => p.epoll = false ∧ CtxPost p err

theorem connectLoop_spec {p : PD} (h : PdOk p) (hc : p.ctxTaken = none) (ws : List Wake) :
    PdOk (connectLoop p ws).1 ∧ LoopPost (connectLoop p ws).1 (connectLoop p ws).2.1 := by
  induction ws generalizing p with
  | nil => exact ⟨h, hc⟩
  | cons w ws ih =>
    have hw := waitWrite_spec h hc w
    unfold connectLoop
    split
    · rename_i p' heq
      rw [heq] at hw
      exact ih hw.1 hw.2.2
    · rename_i p' e heq
      rw [heq] at hw
      exact ⟨hw.1, hw.2.2⟩
    · rename_i p' heq
      rw [heq] at hw
      obtain ⟨a, b, c, d⟩ := hw
      simp only at a b c d
      split
      · exact ⟨a, d, Or.inl c⟩
      · split
        · exact ih a c
        · exact ⟨a, d, Or.inl c⟩
        · split
          · exact ⟨a, d, Or.inl c⟩
          · exact ih a c
        · exact ⟨a, d, Or.inl c⟩

/-- the variant: every iteration of the wait loop consumes at least one script item -/
theorem connectLoop_rest_le (p : PD) (ws : List Wake) : (connectLoop p ws).2.2.length ≤ ws.length := by
  induction ws generalizing p with
  | nil => simp [connectLoop]
  | cons w ws ih =>
    unfold connectLoop
    split
    · exact Nat.le_succ_of_le (ih _)
    · simp
    · split
      · simp
      · split
        · exact Nat.le_succ_of_le (ih _)
        · simp
        · split
          · simp
          · exact Nat.le_succ_of_le (ih _)
        · simp

theorem connectLoop_rest_lt (p : PD) (w : Wake) (ws : List Wake) :
    (connectLoop p (w :: ws)).2.2.length < (w :: ws).length := by
  unfold connectLoop
  split
  · exact Nat.lt_succ_of_le (connectLoop_rest_le _ _)
  · simp
  · split
    · simp
    · split
      · exact Nat.lt_succ_of_le (connectLoop_rest_le _ _)
      · simp
      · split
        · simp
        · exact Nat.lt_succ_of_le (connectLoop_rest_le _ _)
      · simp

/-- the loop is still blocked only when the whole script has been consumed -/
theorem connectLoop_blocked_rest (p : PD) (ws : List Wake) :
    (connectLoop p ws).2.1 = .blocked → (connectLoop p ws).2.2 = [] := by
  induction ws generalizing p with
  | nil => simp [connectLoop]
  | cons w ws ih =>
    unfold connectLoop
    split
    · exact ih _
    · simp
    · split
      · simp
      · split
        · exact ih _
        · simp
        · split
          · simp
          · exact ih _
        · simp

/-! ### ledger predicates -/

/-- What the process holds on behalf of the dial: `fd` – exactly one descriptor (the current
attempt's) is open, else none; `conn` – exactly one operator slot is allocated (the connection's)
and registered for reading, else none.  Never a temporary slot, a temporary registration, a
double close or a double free. -/
structure Held (s : St) (fd conn : Bool) : Prop where
  fds : s.L.opened = s.L.closed + (if fd then 1 else 0)
  bad : s.L.badClose = 0
  isOpen : s.L.fdOpen = fd
  slots : s.L.allocs = s.L.frees + (if conn then 1 else 0)
  badFree : s.L.badFree = 0
  tmp : s.L.tmpSlot = false
  connSlot : s.L.connSlot = conn
  connReg : s.L.connReg = conn
  epoll : s.pd.epoll = false

theorem ctxNow_spec (p : PD) (c : Option CtxErr) :
    (ctxNow p c).epoll = p.epoll ∧ (ctxNow p c).ctxTaken = p.ctxTaken ∧
    (∀ k, p.ctx = some k → (ctxNow p c).ctx = some k) := by
  cases c with
  | none => simp [ctxNow]
  | some k =>
    simp only [ctxNow, deliver]
    split <;> simp_all

theorem pdOk_fresh {p : PD} (h : p.epoll = false) :
    PdOk { p with wClosed := false, hClosed := false, opState := 0, detached := 0 } := by
  constructor <;> simp_all

/-- post-condition of `netFD.connect` -/
def ConnPost (s : St) : CRes → Prop
  | .blocked => s.pd.ctxTaken = none
  | .ret _ err => Held s true false ∧ CtxPost s.pd err

theorem connect_spec {s : St} (h : Held s true false) (hc : s.pd.ctxTaken = none) (a : Attempt) :
    ConnPost (connect s a).1 (connect s a).2 := by
  obtain ⟨h1, h2, h3, h4, h5, h6, h7, h8, h9⟩ := h
  have hn := ctxNow_spec s.pd a.ctxAt
  unfold connect
  simp only
  cases hact : connectAct a.e0 <;> simp only []
  · -- wait
    have hfresh : PdOk (newPollDesc { s with pd := ctxNow s.pd a.ctxAt }).pd := by
      simp only [newPollDesc]
      exact pdOk_fresh (by simp [hn.1, h9])
    have hct : (newPollDesc { s with pd := ctxNow s.pd a.ctxAt }).pd.ctxTaken = none := by
      simp [newPollDesc, hn.2.1, hc]
    have hl := connectLoop_spec hfresh hct a.wakes
    generalize connectLoop (newPollDesc { s with pd := ctxNow s.pd a.ctxAt }).pd a.wakes = r at hl
    obtain ⟨p, res, rest⟩ := r
    cases res with
    | blocked => exact hl.2
    | ret rsa err =>
      obtain ⟨hok, hep, hcp⟩ := hl
      simp only at hok hep hcp
      refine ⟨⟨?_, ?_, ?_, ?_, ?_, ?_, ?_, ?_, ?_⟩, ?_⟩ <;>
        simp only [free, newPollDesc, if_true] <;> try (first | assumption | omega | simp_all)
      · exact deliverAll_epoll_false _ hep
      · cases hcp with
        | inl h0 => left; simp [deliverAll_ctxTaken, h0]
        | inr h0 =>
          obtain ⟨k, ha, hb, hcc⟩ := h0
          right
          exact ⟨k, by simp [deliverAll_ctxTaken, ha], by simp [deliverAll_ctx_some _ hb], hcc⟩
  · -- done
    cases hk : (ctxNow s.pd a.ctxAt).ctx with
    | some k =>
      refine ⟨⟨h1, h2, h3, h4, h5, h6, h7, h8, ?_⟩, ?_⟩
      · simp [ctxReturn, hn.1, h9]
      · right; exact ⟨k, by simp [ctxReturn], by simpa [ctxReturn] using hk, rfl⟩
    | none =>
      refine ⟨⟨h1, h2, h3, h4, h5, h6, h7, h8, ?_⟩, Or.inl ?_⟩
      · simp [hn.1, h9]
      · simp [hn.2.1, hc]
  · refine ⟨⟨h1, h2, h3, h4, h5, h6, h7, h8, ?_⟩, Or.inl ?_⟩
    · simp [hn.1, h9]
    · simp [hn.2.1, hc]
  · refine ⟨⟨h1, h2, h3, h4, h5, h6, h7, h8, ?_⟩, Or.inl ?_⟩
    · simp [hn.1, h9]
    · simp [hn.2.1, hc]

/-! ### socket(), the retry loop, connection creation -/

theorem close_fresh {s : St} (h : Held s true false) {n : NetFD} (hn : n.closedCnt = 0) (hfd : 2 < n.fd) :
    Held { s with L := (n.close s.L).2 } false false := by
  obtain ⟨h1, h2, h3, h4, h5, h6, h7, h8, h9⟩ := h
  simp only [NetFD.close, hn, sysClose, h3]
  simp only [if_true] at h1
  constructor <;> simp_all

/-- post-condition of `netFD.dial` -/
def DialStepPost (s : St) : Option (Option DErr) → Prop
  | none => s.pd.ctxTaken = none
  | some err => Held s true false ∧ CtxPost s.pd err

theorem dial_spec {s : St} (h : Held s true false) (hc : s.pd.ctxTaken = none) (a : Attempt) :
    DialStepPost (dial s a).1 (dial s a).2 := by
  unfold dial
  split
  · exact ⟨h, Or.inl hc⟩
  · split
    · exact ⟨h, Or.inl hc⟩
    · have hcs := connect_spec h hc a
      generalize connect s a = r at hcs
      obtain ⟨s', res⟩ := r
      cases res with
      | blocked => exact hcs
      | ret rsa err => exact hcs

/-- post-condition of `socket()` -/
def SockPost (s : St) : SRes → Prop
  | .blocked => s.pd.ctxTaken = none
  | .ret none (some e) => Held s false false ∧ CtxPost s.pd (some e)
  | .ret (some n) none => Held s true false ∧ n.closedCnt = 0 ∧ 2 < n.fd ∧ s.pd.ctxTaken = none
  | .ret (some _) (some _) => False
  | .ret none none => False

theorem socket_spec {s : St} (h : Held s false false) (hc : s.pd.ctxTaken = none) {a : Attempt} (hfd : 2 < a.fd) :
    SockPost (socket s a).1 (socket s a).2 := by
  obtain ⟨h1, h2, h3, h4, h5, h6, h7, h8, h9⟩ := h
  simp only [Bool.false_eq_true, if_false, Nat.add_zero] at h1 h4
  unfold socket
  split
  · exact ⟨⟨by simpa using h1, h2, h3, by simpa using h4, h5, h6, h7, h8, h9⟩, Or.inl hc⟩
  · simp only
    split
    · refine ⟨?_, Or.inl hc⟩
      simp only [sysClose, if_true]
      constructor <;> simp_all
    · have hhalf : Held { s with L := { s.L with opened := s.L.opened + 1, fdOpen := true } } true false := by
        constructor <;> simp_all
      have hd := dial_spec hhalf hc a
      generalize dial { s with L := { s.L with opened := s.L.opened + 1, fdOpen := true } } a = r at hd
      obtain ⟨s', res⟩ := r
      cases res with
      | none => exact hd
      | some err =>
        obtain ⟨hh, hcp⟩ := hd
        simp only at hh hcp
        cases err with
        | none =>
          refine ⟨hh, rfl, hfd, ?_⟩
          cases hcp with
          | inl h0 => exact h0
          | inr h0 => obtain ⟨k, _, _, hk⟩ := h0; cases hk
        | some e => exact ⟨close_fresh hh rfl hfd, hcp⟩

theorem enotavail_ctx (k : CtxErr) : (DErr.ctx k).enotavail = false := rfl

theorem closeIfConn_spec {s : St} {cur : SRes} (h : SockPost s cur)
    (hcond : (selfConnect cur || spuriousENOTAVAIL cur) = true) :
    Held (closeIfConn s cur) false false ∧ (closeIfConn s cur).pd.ctxTaken = none := by
  cases cur with
  | blocked => simp [selfConnect, spuriousENOTAVAIL] at hcond
  | ret c e =>
    cases c with
    | none =>
      cases e with
      | none => exact h.elim
      | some e =>
        obtain ⟨hh, hcp⟩ := h
        refine ⟨hh, ?_⟩
        cases hcp with
        | inl h0 => exact h0
        | inr h0 =>
          obtain ⟨k, _, _, hk⟩ := h0
          cases hk
          simp [selfConnect, spuriousENOTAVAIL, enotavail_ctx] at hcond
    | some nfd =>
      cases e with
      | some e => exact h.elim
      | none =>
        obtain ⟨hh, hcl, hf, hct⟩ := h
        exact ⟨close_fresh hh hcl hf, hct⟩

theorem retry_spec (auto : Bool) {att : Nat → Attempt} (hfd : ∀ i, 2 < (att i).fd) (n i : Nat) {s : St} {cur : SRes}
    (h : SockPost s cur) :
    SockPost (retry auto att n i s cur).1 (retry auto att n i s cur).2.1 := by
  induction n generalizing i s cur with
  | zero => exact h
  | succ n ih =>
    unfold retry
    split
    · rename_i hcond
      have hidle := closeIfConn_spec h (by simp_all)
      have hs := socket_spec hidle.1 hidle.2 (hfd (i + 1))
      generalize socket (closeIfConn s cur) (att (i + 1)) = r at hs
      obtain ⟨s', cur'⟩ := r
      cases cur' with
      | blocked => exact hs
      | ret c e => exact ih (i + 1) hs
    · exact h

/-- post-condition of a whole dial -/
def DialPost (s : St) : DRes → Prop
  | .blocked => s.pd.ctxTaken = none
  | .ret true none => Held s true true ∧ s.pd.ctxTaken = none
  | .ret false (some e) => Held s false false ∧ CtxPost s.pd (some e)
  | .ret true (some _) => False
  | .ret false none => False

theorem newConnection_spec {s : St} (h : Held s true false) (hc : s.pd.ctxTaken = none) {n : NetFD}
    (hn : n.closedCnt = 0) (hfd : 2 < n.fd) (regErr : Errno) :
    DialPost (newConnection s n regErr).1 (newConnection s n regErr).2 := by
  obtain ⟨h1, h2, h3, h4, h5, h6, h7, h8, h9⟩ := h
  simp only [if_true, Bool.false_eq_true, if_false, Nat.add_zero] at h1 h4
  unfold newConnection
  simp only
  split
  · refine ⟨?_, Or.inl hc⟩
    simp only [NetFD.close, hn, sysClose, h3]
    constructor <;> simp_all
  · refine ⟨?_, hc⟩
    constructor <;> simp_all

theorem dialTCP_spec {s : St} (h : Held s false false) (hc : s.pd.ctxTaken = none) {t : TcpScript}
    (hfd : ∀ i, 2 < (t.att i).fd) :
    DialPost (dialTCP s t).1 (dialTCP s t).2.1 := by
  have hs := socket_spec h hc (hfd 0)
  unfold dialTCP
  generalize socket s (t.att 0) = r at hs
  obtain ⟨s0, cur⟩ := r
  cases cur with
  | blocked => exact hs
  | ret c e =>
    simp only
    have hr := retry_spec t.auto hfd retryBound 0 hs
    generalize retry t.auto t.att retryBound 0 s0 (SRes.ret c e) = r at hr
    obtain ⟨s1, cur1, i⟩ := r
    cases cur1 with
    | blocked => exact hr
    | ret c1 e1 =>
      cases c1 with
      | none =>
        cases e1 with
        | none => exact hr.elim
        | some e => exact hr
      | some nfd =>
        cases e1 with
        | some e => exact hr.elim
        | none =>
          obtain ⟨hh, hcl, hf, hct⟩ := hr
          exact newConnection_spec hh hct hcl hf t.regErr

theorem dialUnix_spec {s : St} (h : Held s false false) (hc : s.pd.ctxTaken = none) {a : Attempt}
    (hfd : 2 < a.fd) (regErr : Errno) :
    DialPost (dialUnix s a regErr).1 (dialUnix s a regErr).2 := by
  have hs := socket_spec h hc hfd
  unfold dialUnix
  generalize socket s a = r at hs
  obtain ⟨s0, cur⟩ := r
  cases cur with
  | blocked => exact hs
  | ret c e =>
    cases c with
    | none =>
      cases e with
      | none => exact hs.elim
      | some e => exact hs
    | some nfd =>
      cases e with
      | some e => exact hs.elim
      | none =>
        obtain ⟨hh, hcl, hf, hct⟩ := hs
        exact newConnection_spec hh hct hcl hf regErr

/-- all descriptor numbers of a script are above the standard streams (netFD.Close refuses to
close 0, 1, 2) -/
def FdsOk (as : List AddrScript) : Prop := ∀ a ∈ as, ∀ i, 2 < (a.tcp.att i).fd

theorem dialAddrs_spec {s : St} (h : Held s false false) (hc : s.pd.ctxTaken = none) (firstErr : Option DErr)
    {as : List AddrScript} (hfd : FdsOk as) :
    DialPost (dialAddrs s firstErr as).1 (dialAddrs s firstErr as).2 := by
  induction as generalizing s firstErr with
  | nil =>
    unfold dialAddrs
    cases firstErr with
    | none => exact ⟨h, Or.inl hc⟩
    | some e => exact ⟨h, Or.inl hc⟩
  | cons a as ih =>
    have ht := dialTCP_spec h hc (hfd a (by simp))
    unfold dialAddrs
    generalize dialTCP s a.tcp = r at ht
    obtain ⟨s1, res, i⟩ := r
    cases res with
    | blocked => exact ht
    | ret c e =>
      cases e with
      | none =>
        cases c with
        | true => exact ht
        | false => exact ht.elim
      | some e =>
        cases c with
        | true => exact ht.elim
        | false =>
          obtain ⟨hh, hcp⟩ := ht
          simp only at hh hcp
          have hn := ctxNow_spec s1.pd a.ctxAfter
          obtain ⟨h1, h2, h3, h4, h5, h6, h7, h8, h9⟩ := hh
          have hh' : Held { s1 with pd := ctxNow s1.pd a.ctxAfter } false false :=
            ⟨h1, h2, h3, h4, h5, h6, h7, h8, by simp [hn.1, h9]⟩
          simp only
          split
          · refine ⟨hh', ?_⟩
            cases hcp with
            | inl h0 => left; simp [hn.2.1, h0]
            | inr h0 =>
              obtain ⟨k, ha, hb, hcc⟩ := h0
              right; exact ⟨k, by simp [hn.2.1, ha], by simp [hn.2.2 k hb], hcc⟩
          · rename_i hnone
            refine ih hh' ?_ _ (fun a' ha' => hfd a' (by simp [ha']))
            cases hcp with
            | inl h0 => simp [hn.2.1, h0]
            | inr h0 =>
              obtain ⟨k, ha, hb, hcc⟩ := h0
              have := hn.2.2 k hb
              simp [this] at hnone

theorem held_init : Held ({} : St) false false := by
  constructor <;> rfl

/-! ### result shapes (independent of descriptor numbers) -/

def SShape : SRes → Prop
  | .blocked => True
  | .ret (some _) none => True
  | .ret none (some _) => True
  | _ => False

def DShape : DRes → Prop
  | .blocked => True
  | .ret true none => True
  | .ret false (some _) => True
  | _ => False

theorem socket_shape (s : St) (a : Attempt) : SShape (socket s a).2 := by
  unfold socket
  split
  · trivial
  · simp only
    split
    · trivial
    · generalize dial { s with L := { s.L with opened := s.L.opened + 1, fdOpen := true } } a = r
      obtain ⟨s', res⟩ := r
      cases res with
      | none => trivial
      | some err => cases err <;> trivial

theorem retry_shape (auto : Bool) (att : Nat → Attempt) (n i : Nat) (s : St) {cur : SRes} (h : SShape cur) :
    SShape (retry auto att n i s cur).2.1 := by
  induction n generalizing i s cur with
  | zero => exact h
  | succ n ih =>
    unfold retry
    split
    · have hs := socket_shape (closeIfConn s cur) (att (i + 1))
      generalize socket (closeIfConn s cur) (att (i + 1)) = r at hs
      obtain ⟨s', cur'⟩ := r
      cases cur' with
      | blocked => trivial
      | ret c e => exact ih (i + 1) s' hs
    · exact h

theorem newConnection_shape (s : St) (n : NetFD) (regErr : Errno) : DShape (newConnection s n regErr).2 := by
  unfold newConnection
  simp only
  split <;> trivial

theorem dialTCP_shape (s : St) (t : TcpScript) : DShape (dialTCP s t).2.1 := by
  have hs := socket_shape s (t.att 0)
  unfold dialTCP
  generalize socket s (t.att 0) = r at hs
  obtain ⟨s0, cur⟩ := r
  cases cur with
  | blocked => trivial
  | ret c e =>
    simp only
    have hr := retry_shape t.auto t.att retryBound 0 s0 hs
    generalize retry t.auto t.att retryBound 0 s0 (SRes.ret c e) = r at hr
    obtain ⟨s1, cur1, i⟩ := r
    cases cur1 with
    | blocked => trivial
    | ret c1 e1 =>
      cases c1 with
      | none =>
        cases e1 with
        | none => exact hr.elim
        | some e => trivial
      | some nfd =>
        cases e1 with
        | some e => trivial
        | none => exact newConnection_shape s1 nfd t.regErr

theorem dialUnix_shape (s : St) (a : Attempt) (regErr : Errno) : DShape (dialUnix s a regErr).2 := by
  have hs := socket_shape s a
  unfold dialUnix
  generalize socket s a = r at hs
  obtain ⟨s0, cur⟩ := r
  cases cur with
  | blocked => trivial
  | ret c e =>
    cases c with
    | none =>
      cases e with
      | none => exact hs.elim
      | some e => trivial
    | some nfd =>
      cases e with
      | some e => exact hs.elim
      | none => exact newConnection_shape s0 nfd regErr

theorem dialAddrs_shape (s : St) (firstErr : Option DErr) (as : List AddrScript) :
    DShape (dialAddrs s firstErr as).2 := by
  induction as generalizing s firstErr with
  | nil => unfold dialAddrs; cases firstErr <;> trivial
  | cons a as ih =>
    have ht := dialTCP_shape s a.tcp
    unfold dialAddrs
    generalize dialTCP s a.tcp = r at ht
    obtain ⟨s1, res, i⟩ := r
    cases res with
    | blocked => trivial
    | ret c e =>
      cases e with
      | none => exact ht
      | some e =>
        simp only
        split
        · trivial
        · exact ih _ _

/-! ### bounds of the loops -/

theorem retry_index_le (auto : Bool) (att : Nat → Attempt) (n i : Nat) (s : St) (cur : SRes) :
    (retry auto att n i s cur).2.2 ≤ i + n := by
  induction n generalizing i s cur with
  | zero => simp [retry]
  | succ n ih =>
    unfold retry
    split
    · generalize socket (closeIfConn s cur) (att (i + 1)) = r
      obtain ⟨s', cur'⟩ := r
      cases cur' with
      | blocked => simp only; omega
      | ret c e => have := ih (i + 1) s' (SRes.ret c e); simp only; omega
    · simp only; omega

theorem dialTCP_attempts_le (s : St) (t : TcpScript) : (dialTCP s t).2.2 ≤ retryBound := by
  unfold dialTCP
  generalize socket s (t.att 0) = r
  obtain ⟨s0, cur⟩ := r
  cases cur with
  | blocked => simp
  | ret c e =>
    simp only
    have hr := retry_index_le t.auto t.att retryBound 0 s0 (SRes.ret c e)
    generalize retry t.auto t.att retryBound 0 s0 (SRes.ret c e) = r at hr
    obtain ⟨s1, cur1, i⟩ := r
    simp only at hr
    cases cur1 with
    | blocked => simp only; omega
    | ret c1 e1 =>
      cases c1 with
      | none => cases e1 <;> (simp only; omega)
      | some nfd => cases e1 <;> (simp only; omega)

/-! ### liveness of the wait loop: a done context that the select takes ends the wait -/

theorem deliver_ctx_isSome {p : PD} (e : Ev) (h : p.ctx.isSome = true) : (deliver p e).ctx.isSome = true := by
  cases hk : p.ctx with
  | none => simp [hk] at h
  | some k => simp [deliver_ctx_some e hk]

theorem deliverAll_ctx_isSome {p : PD} (evs : List Ev) (h : p.ctx.isSome = true) :
    (deliverAll p evs).ctx.isSome = true := by
  cases hk : p.ctx with
  | none => simp [hk] at h
  | some k => simp [deliverAll_ctx_some evs hk]

theorem deliverAll_ctx_of_mem {p : PD} {evs : List Ev} {k : CtxErr} (h : Ev.ctxDone k ∈ evs) :
    (deliverAll p evs).ctx.isSome = true := by
  unfold deliverAll
  induction evs generalizing p with
  | nil => cases h
  | cons e es ih =>
    simp only [List.foldl_cons]
    cases h with
    | head =>
      have : (deliver p (Ev.ctxDone k)).ctx.isSome = true := by
        simp only [deliver]; split <;> simp_all
      exact deliverAll_ctx_isSome es this
    | tail _ h' => exact ih h'

theorem waitWrite_ctx_pick {p : PD} {w : Wake} (hp : w.pick = .c)
    (hctx : p.ctx.isSome = true ∨ ∃ k, Ev.ctxDone k ∈ w.evs) :
    (waitWrite p w).2 ≠ .blocked ∧ (waitWrite p w).2 ≠ .ok := by
  unfold waitWrite
  split
  · simp
  · rename_i p' heq
    have hp' : p'.ctx = p.ctx := by
      unfold register at heq
      split at heq
      · split at heq <;> first | (cases heq; rfl) | cases heq
      · cases heq; rfl
    have hsome : (deliverAll p' w.evs).ctx.isSome = true := by
      cases hctx with
      | inl h => exact deliverAll_ctx_isSome _ (by rw [hp']; exact h)
      | inr h => obtain ⟨k, hk⟩ := h; exact deliverAll_ctx_of_mem hk
    unfold waitSelect choose
    simp only [hp, ready, hsome, if_true]
    cases hk : (deliverAll p' w.evs).ctx with
    | none => simp [hk] at hsome
    | some k => simp

theorem connectLoop_returns_on_ctx_pick (p : PD) (pre : List Wake) (w : Wake) (post : List Wake)
    (hp : w.pick = .c) (hctx : ∃ k, Ev.ctxDone k ∈ w.evs) :
    (connectLoop p (pre ++ w :: post)).2.1 ≠ .blocked := by
  induction pre generalizing p with
  | nil =>
    have hw := @waitWrite_ctx_pick p w hp (Or.inr hctx)
    simp only [List.nil_append]
    unfold connectLoop
    generalize waitWrite p w = r at hw
    obtain ⟨p', res⟩ := r
    cases res with
    | ok => exact absurd rfl hw.2
    | blocked => exact absurd rfl hw.1
    | err e => simp
  | cons w0 pre ih =>
    simp only [List.cons_append]
    unfold connectLoop
    split
    · exact ih _
    · simp
    · split
      · simp
      · split
        · exact ih _
        · simp
        · split
          · simp
          · exact ih _
        · simp

/-! ### example scripts (used by the non-vacuity examples of Props/C14) -/

/-- a script used by the non-vacuity examples: the first address is refused after a writable
wake-up (SO_ERROR = ECONNREFUSED), the second gets EADDRNOTAVAIL once, a spurious wake-up
(SO_ERROR = 0, getpeername fails), writable + hang-up at once, and finally connects. -/
def exRefused : AddrScript :=
  { tcp := { att := fun _ => { fd := 7, wakes := [{ evs := [.writable], soerr := ECONNREFUSED }] } } }
def exRetryThenOk : AddrScript :=
  { tcp := { att := fun i =>
      if i = 0 then { fd := 8, e0 := EADDRNOTAVAIL }
      else { fd := 9, wakes := [{ evs := [.writable], soerr := 0, peerOk := false },
                                { evs := [.writable, .writable], soerr := EINPROGRESS },
                                { evs := [], soerr := 0, peerOk := true }],
             late := [.hup] } } }
/-- the deadline fires while the connect is pending; a writable event is still in flight -/
def exTimeout : AddrScript :=
  { tcp := { att := fun _ => { fd := 5, wakes := [{ evs := [] }, { evs := [.ctxDone .deadline, .writable], pick := .c }],
                               late := [.writable, .hup] } } }

theorem fdsOk_ex : FdsOk [exRefused, exRetryThenOk, exTimeout] := by
  intro a ha i
  simp only [List.mem_cons, List.not_mem_nil, or_false] at ha
  rcases ha with rfl | rfl | rfl
  · simp [exRefused]
  · simp only [exRetryThenOk]; split <;> decide
  · simp [exTimeout]

end Netpoll.Dial
