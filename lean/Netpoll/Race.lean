import Netpoll.RaceName
/-! # C19 – lockset-style access discipline for the state shared between goroutines

`Netpoll.Gen.accesses` (regenerated from /repo on every check run by `tools/extract/access.go`) lists every
`(struct.field, function, kind)` access to a field of the structs shared between pollers, handler tasks and
user goroutines (LinkBuffer internals excluded: the documented exemption), plus the package-level variables.

This file is the HAND-WRITTEN policy: for every field the discipline the code uses to keep accesses to it
ordered, written after reading the code (each entry cites the Go lines that make it safe), and the checker
`ok` that `Netpoll.Props.C19.C19_disciplined` runs over the whole regenerated table inside the kernel.

What is trusted here (and said so in MANIFEST): the *annotations* – that the functions listed for a role / lock
really hold it at the access (function granularity: the extractor does not check that `c.maxSize` is touched
lexically between `op.do()` and `op.done()`), and that holders of a role / lock exclude each other.  The second
part is the content of the protocol invariants of C05/C06/C09 (locker keys), C10 (slot token), C17 (ShardQueue),
C18 (manager status); `Netpoll.Props.C19.C19_no_race` takes them as named hypotheses and derives race freedom.
-/
namespace Netpoll.Race

/-- A role: a token of which at most one goroutine at a time is the holder; consecutive holders are ordered by the
    atomic release/acquire on the token word (or by the API contract for `reader` / `writer`). -/
inductive Role
  /-- the single reader of a connection (API contract: one goroutine at a time in Reader methods and the
      read-deadline setters; OnRequest runs them on the task goroutine). -/
  | reader
  /-- the single writer: API contract, enforced for Flush/Write by `lock(flushing)` (connection_impl.go:270,346). -/
  | writer
  /-- holder of the FDOperator slot token: `op.do()` CAS 1→2 … `op.done()` (fd_operator.go:66-72). -/
  | slotToken
  /-- holder of locker key `processing` (connection_onevent.go:182, 270). -/
  | processing
  /-- holder of locker key `connecting` (connection_onevent.go:127, 150). -/
  | connecting
  /-- the goroutine that runs `defaultPoll.Wait` for this poll (poll_manager.go:111 starts exactly one). -/
  | pollLoop
  /-- the goroutine executing `netFD.dial`/`connect` on a netFD nobody else can reach yet (net_netfd.go:108-110). -/
  | dialPhase
  /-- the ShardQueue worker: `runNum` 0→1 winner until it stores 0 (mux/shard_queue.go:153,180). -/
  | runNum
  deriving DecidableEq, Repr

/-- An exclusive lock: critical sections of the same lock on the same object are ordered. -/
inductive Lock
  /-- `operatorCache.locked` spin lock (fd_operator_cache.go:41,59,81,88). -/
  | opcacheLocked
  /-- `operatorCache.freelocked` spin lock (fd_operator_cache.go:69-71,75-76). -/
  | opcacheFreelocked
  /-- `ShardQueue.locks[shard]` spin lock (mux/shard_queue.go:101-104,128-130,163-167). -/
  | shardLock
  /-- `queueTrigger.listLock` mutex (mux/shard_queue.go:140-143). -/
  | listLock
  /-- the `sync.Mutex` embedded in `eventLoop` (netpoll_unix.go:148-151,161-164). -/
  | evlMutex
  deriving DecidableEq, Repr

/-- The disciplines the code uses.  `excl` is always the list of *exclusive-phase* functions of the field:
    constructors / initialisers / resets that run before the object is published to another goroutine, or after
    it has been retired from all of them (slot exclusively owned), or `Close` of a quiescent object. -/
inductive Disc
  /-- every access is atomic (kind `a`), except plain accesses in exclusive-phase functions -/
  | atomicOnly (excl : List Nm)
  /-- the field is a synchronisation object (channel, sync.Mutex, sync.Map, sync.Pool): every access is an
      operation on it (kind `s`), except creating it in an exclusive-phase function -/
  | syncObj (excl : List Nm)
  /-- plain writes only in exclusive-phase functions; plain reads anywhere -/
  | initOnly (excl : List Nm)
  /-- all accesses outside the exclusive phase come from functions of ONE role -/
  | owned (role : Role) (fns excl : List Nm)
  /-- all accesses outside the exclusive phase are inside critical sections of ONE lock -/
  | guarded (lock : Lock) (fns excl : List Nm)
  /-- written (and read) by the pool/logger (re)configuration functions, which the documentation requires not to
      run concurrently with users of the value, or which run holding the manager's status CAS; read anywhere -/
  | configOnly (writers : List Nm)
  /-- two tokens: `writers` may write and then hold BOTH roles; `readers1` only read and hold `r1`; `readers2`
      only read and hold `r2` (write needs all locks, read needs any) -/
  | owned2 (r1 r2 : Role) (writers readers1 readers2 excl : List Nm)
  /-- single-consumer ring: `producers` write under `lock`; `consumers` only read, holding `role`; a slot is read
      only after the atomic counter increment that published it and re-written only after it was consumed -/
  | handoff (lock : Lock) (role : Role) (producers consumers excl : List Nm)

def has (l : List Nm) (f : Nm) : Bool := l.any (fun g => g.code == f.code)

def Disc.name : Disc → String
  | .atomicOnly _ => "atomicOnly" | .syncObj _ => "syncObj" | .initOnly _ => "initOnly"
  | .owned .. => "owned" | .guarded .. => "guarded" | .configOnly _ => "configOnly"
  | .owned2 .. => "owned2" | .handoff .. => "handoff"

/-- does an access `(fn, kind)` to a field with discipline `d` follow the discipline? -/
def complies : Disc → Nm → Kind → Bool
  | .atomicOnly excl, fn, k => k == .a || has excl fn
  | .syncObj excl, fn, k => k == .s || has excl fn
  | .initOnly excl, fn, k => k == .r || has excl fn
  | .owned _ fns excl, fn, _ => has fns fn || has excl fn
  | .guarded _ fns excl, fn, _ => has fns fn || has excl fn
  | .configOnly ws, fn, k => k == .r || has ws fn
  | .owned2 _ _ ws rd1 rd2 excl, fn, k => has excl fn || has ws fn || (k == .r && (has rd1 fn || has rd2 fn))
  | .handoff _ _ ps cs excl, fn, k => has excl fn || has ps fn || (k == .r && has cs fn)

/-- `fn` is an exclusive-phase function of the field -/
def Disc.isExcl : Disc → Nm → Bool
  | .atomicOnly excl, fn | .syncObj excl, fn | .initOnly excl, fn | .owned _ _ excl, fn | .guarded _ _ excl, fn
  | .owned2 _ _ _ _ _ excl, fn | .handoff _ _ _ _ excl, fn => has excl fn
  | .configOnly _, _ => false

/-- `fn` is a (re)configuration function of the field -/
def Disc.isConfig : Disc → Nm → Bool
  | .configOnly ws, fn => has ws fn
  | _, _ => false

/-- an access from `fn` is annotated as made while holding role `r` -/
def Disc.holds : Disc → Role → Nm → Bool
  | .owned r' fns _, r, fn => r' == r && has fns fn
  | .owned2 r1 r2 ws rd1 rd2 _, r, fn => (r1 == r && (has ws fn || has rd1 fn)) || (r2 == r && (has ws fn || has rd2 fn))
  | .handoff _ r' _ cs _, r, fn => r' == r && has cs fn
  | _, _, _ => false

/-- an access from `fn` is annotated as made inside a critical section of lock `l` -/
def Disc.locks : Disc → Lock → Nm → Bool
  | .guarded l' fns _, l, fn => l' == l && has fns fn
  | .handoff l' _ ps _ _, l, fn => l' == l && has ps fn
  | _, _, _ => false

def Disc.produces : Disc → Nm → Bool
  | .handoff _ _ ps _ _, fn => has ps fn
  | _, _ => false

def Disc.consumes : Disc → Nm → Bool
  | .handoff _ _ _ cs _, fn => has cs fn
  | _, _ => false

/-! ## The policy, field by field

Line numbers refer to /repo at the commit the policy was written against (58aa1f1); the check does not depend on
them.  "published" = reachable by another goroutine. -/

private def connInit := nms!["connection.init"]
/-- a netFD is filled in by its constructor / `listener.Accept` / `NewFDConnection` / `dial` while only the creating
    goroutine can reach it, then copied into the connection by `initNetFD` (connection_impl.go:405-415) before
    `register()` publishes the connection to a poller (connection_onevent.go:114-115). -/
private def netfdInit := nms!["newNetFD", "listener.Accept", "NewFDConnection", "connection.initNetFD", "netFD.dial"]
/-- an FDOperator slot is written between `Alloc` (popped from the free list under `locked`, fd_operator_cache.go:57-59)
    and the `Control(PollReadable|PollWritable)` that publishes it (`inuse()` + epoll_ctl, poll_default_linux.go:250-255),
    and again by `reset()` in `freeable` only after `op.unused()` has waited for the poller to leave do/done
    (fd_operator_cache.go:65-68) and – for connections – after `stop(flushing)` (connection_impl.go:429-430): the slot
    token invariant of C10.  `server.Run` assigns the server's own operator before its `Control` (netpoll_server.go:48-54);
    `openDefaultPoll` builds the wake-up operator before the poll is returned (poll_default_linux.go:48). -/
private def opInit := nms!["FDOperator.reset", "connection.initFDOperator", "newPollDesc", "server.Run", "defaultPoll.Alloc",
  "openDefaultPoll", "operatorCache.alloc"]
private def pollLoopFns := nms!["defaultPoll.Wait", "defaultPoll.handler", "defaultPoll.appendHup", "defaultPoll.onhups", "pollArgs.reset"]
private def lbInit := nms!["newRoundRobinLB", "newRandomLB", "roundRobinLB.Rebalance", "randomLB.Rebalance"]

def policyTab : List (Nm × Disc) := [
  -- ---------------------------------------------------------------- FDOperator (fd_operator.go:23-53)
  -- callbacks and FD: written only while the slot is exclusively owned (see `opInit`); the poller reads them after
  -- `operator.do()` (poll_default_linux.go:123), Control reads FD before `inuse()` (poll_default_linux.go:240-245).
  (nm!"FDOperator.FD", .initOnly opInit),
  (nm!"FDOperator.OnRead", .initOnly opInit),
  (nm!"FDOperator.OnWrite", .initOnly opInit),
  (nm!"FDOperator.OnHup", .initOnly opInit),
  (nm!"FDOperator.Inputs", .initOnly opInit),
  (nm!"FDOperator.InputAck", .initOnly opInit),
  (nm!"FDOperator.Outputs", .initOnly opInit),
  (nm!"FDOperator.OutputAck", .initOnly opInit),
  (nm!"FDOperator.poll", .initOnly opInit),
  -- fd_operator.go:56 atomic.AddInt32; zeroed by reset() while the slot is exclusively owned (fd_operator.go:102)
  (nm!"FDOperator.detached", .atomicOnly opInit),
  -- fd_operator.go:66-94: CAS / Store / Load only; the struct assignment in server.Run precedes its Control
  (nm!"FDOperator.state", .atomicOnly opInit),
  -- fd_operator_cache.go:50 set when the slot is created, read by freeable (fd_operator_cache.go:70)
  (nm!"FDOperator.index", .initOnly opInit),
  -- free-list link: fd_operator_cache.go:52,58 (alloc) and :84 (free), both inside lock(&c.locked)
  (nm!"FDOperator.next", .guarded .opcacheLocked nms!["operatorCache.alloc", "operatorCache.free"] nms!["server.Run"]),
  -- ---------------------------------------------------------------- connection (connection_impl.go:36-56)
  -- bookSize/maxSize: only inside the slot token: inputs/inputAck are called by the poller between do() and done()
  -- (poll_default_linux.go:156-159, poll_default.go:62-69), Release takes the token itself (connection_impl.go:168-182)
  (nm!"connection.bookSize", .owned .slotToken nms!["connection.inputs", "connection.inputAck"] connInit),
  (nm!"connection.maxSize", .owned .slotToken nms!["connection.inputs", "connection.inputAck", "connection.Release"] connInit),
  -- pointers set once in init (connection_impl.go:383-387,424) before register(); what they point to is the buffer exemption
  (nm!"connection.inputBuffer", .initOnly connInit),
  (nm!"connection.outputBuffer", .initOnly connInit),
  (nm!"connection.outputBarrier", .initOnly connInit),
  (nm!"connection.operator", .initOnly nms!["connection.initFDOperator"]),
  (nm!"connection.netFD", .initOnly nms!["connection.initNetFD"]),
  -- read side timeouts: set and used by the reader (connection_impl.go:88-123 setters, :460-467 waitRead, :488-523 timer);
  -- onPrepare calls the setter before register() on the same goroutine.  A deadline setter racing a blocked read from a
  -- third goroutine is OUTSIDE the contract this annotation encodes (plain int64, no synchronisation in the code).
  (nm!"connection.readTimeout", .owned .reader nms!["connection.SetReadTimeout", "connection.waitRead"] []),
  (nm!"connection.readDeadline", .owned .reader nms!["connection.SetReadTimeout", "connection.SetReadDeadline", "connection.SetDeadline", "connection.waitRead"] []),
  (nm!"connection.readTimer", .owned .reader nms!["connection.waitReadWithTimeout"] []),
  -- write side: used inside lock(flushing) by flush→waitFlush (connection_impl.go:270-276, 557-593), set by the writer
  (nm!"connection.writeTimeout", .owned .writer nms!["connection.SetWriteTimeout", "connection.waitFlush"] []),
  (nm!"connection.writeDeadline", .owned .writer nms!["connection.SetWriteTimeout", "connection.SetWriteDeadline", "connection.SetDeadline", "connection.waitFlush"] []),
  (nm!"connection.writeTimer", .owned .writer nms!["connection.waitFlush"] []),
  -- one-slot channels made in init (connection_impl.go:383-384); afterwards only send/receive (:439-451, :477, :512, :566-585)
  (nm!"connection.readTrigger", .syncObj connInit),
  (nm!"connection.writeTrigger", .syncObj connInit),
  -- connection_impl.go:605-615 atomic Load/Store/CAS; plain zeroing in init (:388) before register()
  (nm!"connection.state", .atomicOnly connInit),
  -- connection_impl.go:458-459 atomic.StoreInt64, connection_reactor.go:115 atomic.LoadInt64
  (nm!"connection.waitReadSize", .atomicOnly []),
  -- ---------------------------------------------------------------- netFD (net_netfd.go:30-50), embedded in connection
  (nm!"netFD.fd", .initOnly netfdInit),
  (nm!"netFD.family", .initOnly netfdInit),
  (nm!"netFD.sotype", .initOnly netfdInit),
  (nm!"netFD.isStream", .initOnly netfdInit),
  (nm!"netFD.zeroReadIsEOF", .initOnly netfdInit),
  (nm!"netFD.network", .initOnly netfdInit),
  (nm!"netFD.isConnected", .initOnly netfdInit),
  (nm!"netFD.localAddr", .initOnly netfdInit),
  (nm!"netFD.remoteAddr", .initOnly netfdInit),
  -- only the dialing goroutine, before the netFD is handed to a connection (net_netfd.go:134-139)
  (nm!"netFD.pd", .owned .dialPhase nms!["netFD.connect", "netFD.connect$1"] nms!["connection.initNetFD"]),
  -- net_netfd_conn.go:59 atomic.AddUint32
  (nm!"netFD.closed", .atomicOnly nms!["connection.initNetFD"]),
  -- connection_impl.go:365 atomic.StoreInt32, net_netfd_conn.go:62 atomic.LoadInt32 (D14: was plain before 58aa1f1)
  (nm!"netFD.detaching", .atomicOnly nms!["connection.initNetFD"]),
  -- ---------------------------------------------------------------- onEvent (connection_onevent.go:37-43)
  -- ctx: written by onPrepare before register() (:106-111) and by the OnConnect task holding BOTH `processing` (:182)
  -- and `connecting` (:127, released :210) at :202; read by tasks / by onProcess when it spawns one, holding
  -- `processing` (:216,228,262), and by onDisconnect holding `connecting` after seeing state ≠ None (:150-154) – or
  -- when no OnConnect callback exists, in which case :202 is never reached (:146).  C05/C09 models.
  (nm!"onEvent.ctx", .owned2 .processing .connecting nms!["connection.onProcess$1"] nms!["connection.onProcess"]
      nms!["connection.onDisconnect"] nms!["connection.onPrepare"]),
  -- atomic.Value Load/Store only (connection_onevent.go:53,61,71,86-89,122,...)
  (nm!"onEvent.onConnectCallback", .atomicOnly []),
  (nm!"onEvent.onDisconnectCallback", .atomicOnly []),
  (nm!"onEvent.onRequestCallback", .atomicOnly []),
  (nm!"onEvent.closeCallbacks", .atomicOnly []),
  -- connection_lock.go:61-93: every access through sync/atomic
  (nm!"locker.keychain", .atomicOnly []),
  -- ---------------------------------------------------------------- defaultPoll / pollArgs (poll_default_linux.go:60-79)
  -- set in openDefaultPoll (:33-56) before `go poll.Wait()` (poll_manager.go:110-111) publishes the poll
  (nm!"defaultPoll.fd", .initOnly nms!["openDefaultPoll"]),
  (nm!"defaultPoll.wop", .initOnly nms!["openDefaultPoll"]),
  (nm!"defaultPoll.buf", .initOnly nms!["openDefaultPoll"]),
  (nm!"defaultPoll.opcache", .initOnly nms!["openDefaultPoll"]),
  (nm!"defaultPoll.Reset", .initOnly nms!["openDefaultPoll"]),
  (nm!"defaultPoll.Handler", .initOnly nms!["openDefaultPoll"]),
  -- poll_default_linux.go:138 StoreUint32, :230 AddUint32
  (nm!"defaultPoll.trigger", .atomicOnly []),
  -- race build only: sync.Map fd→operator (poll_default_linux_race.go:27-43)
  (nm!"defaultPoll.m", .syncObj []),
  -- event/barrier arrays and the hup list belong to the goroutine running Wait (poll_default_linux.go:91-116,
  -- poll_default.go:30-55: onhups hands the list to the new goroutine as an argument and nils the field first)
  (nm!"pollArgs.size", .owned .pollLoop pollLoopFns []),
  (nm!"pollArgs.caps", .owned .pollLoop pollLoopFns []),
  (nm!"pollArgs.events", .owned .pollLoop pollLoopFns []),
  (nm!"pollArgs.barriers", .owned .pollLoop pollLoopFns []),
  (nm!"pollArgs.hups", .owned .pollLoop pollLoopFns []),
  -- ---------------------------------------------------------------- operatorCache (fd_operator_cache.go:30-38)
  (nm!"operatorCache.first", .guarded .opcacheLocked nms!["operatorCache.alloc", "operatorCache.free"] nms!["newOperatorCache"]),
  (nm!"operatorCache.cache", .guarded .opcacheLocked nms!["operatorCache.alloc", "operatorCache.free"] nms!["newOperatorCache"]),
  (nm!"operatorCache.freelist", .guarded .opcacheFreelocked nms!["operatorCache.freeable", "operatorCache.free"] nms!["newOperatorCache"]),
  -- the two spin-lock words: only through lock()/unlock() = CAS / Store (fd_operator_cache.go:91-99)
  (nm!"operatorCache.locked", .atomicOnly []),
  (nm!"operatorCache.freelocked", .atomicOnly []),
  -- ---------------------------------------------------------------- pollDesc (net_polldesc.go:24-42)
  (nm!"pollDesc.operator", .initOnly nms!["newPollDesc"]),
  (nm!"pollDesc.writeTrigger", .syncObj nms!["newPollDesc"]),
  (nm!"pollDesc.closeTrigger", .syncObj nms!["newPollDesc"]),
  -- ---------------------------------------------------------------- manager / balancers (poll_manager.go:41-46)
  -- poll_manager.go:54,87 atomic; Close zeroes it plainly (:73) – Close is a reconfiguration call
  (nm!"manager.numLoops", .atomicOnly nms!["manager.Close"]),
  -- poll_manager.go:55,134,139,148 atomic
  (nm!"manager.status", .atomicOnly []),
  -- polls / balance: rebuilt by Run, which Pick calls only as winner of the status CAS 0→1 and publishes with the CAS
  -- 1→2 (poll_manager.go:139-148; losers spin at :139-141 until they load status==2 at :134); SetNumLoops /
  -- SetLoadBalance / Reset / Close are documented as not concurrent with connection creation (netpoll_unix.go:44-45,77).
  -- C18 model; the fast-path read of m.balance at :135 follows the atomic load of status.
  (nm!"manager.polls", .configOnly nms!["manager.Run", "manager.Close", "manager.Reset", "manager.SetLoadBalance"]),
  (nm!"manager.balance", .configOnly nms!["manager.SetLoadBalance", "manager.Close"]),
  -- poll_loadbalance.go:54,72,76,95 written by constructor / Rebalance (called from Run only), read by Pick (:67-68,90-91)
  (nm!"randomLB.polls", .configOnly lbInit),
  (nm!"randomLB.pollSize", .configOnly lbInit),
  (nm!"roundRobinLB.polls", .configOnly lbInit),
  (nm!"roundRobinLB.pollSize", .configOnly lbInit),
  -- poll_loadbalance.go:90 atomic.AddUintptr
  (nm!"roundRobinLB.accepted", .atomicOnly []),
  -- ---------------------------------------------------------------- server / eventLoop / listener
  -- newServer (netpoll_server.go:30-36) before Run; Run assigns operator before Control (:48-54)
  (nm!"server.ln", .initOnly nms!["newServer"]),
  (nm!"server.opts", .initOnly nms!["newServer"]),
  (nm!"server.onQuit", .initOnly nms!["newServer"]),
  (nm!"server.operator", .initOnly nms!["server.Run"]),
  (nm!"server.connections", .syncObj []),           -- sync.Map
  -- netpoll_server.go: accepts in flight, sync/atomic only (server.accept: AddInt32 +1/-1; server.Close: LoadInt32)
  (nm!"server.accepting", .atomicOnly []),
  (nm!"eventLoop.Mutex", .syncObj []),
  (nm!"eventLoop.opts", .initOnly nms!["NewEventLoop"]),
  (nm!"eventLoop.stop", .syncObj nms!["NewEventLoop"]),
  -- netpoll_unix.go:148-151 (Serve) and :161-164 (Shutdown), both between evl.Lock() and evl.Unlock()
  (nm!"eventLoop.svr", .guarded .evlMutex nms!["eventLoop.Serve", "eventLoop.Shutdown"] []),
  -- net_listener.go:45-52: filled by ConvertListener/parseFD before the listener is returned
  (nm!"listener.fd", .initOnly nms!["ConvertListener", "listener.parseFD"]),
  (nm!"listener.addr", .initOnly nms!["ConvertListener", "listener.parseFD"]),
  (nm!"listener.ln", .initOnly nms!["ConvertListener", "listener.parseFD"]),
  (nm!"listener.file", .initOnly nms!["ConvertListener", "listener.parseFD"]),
  -- ---------------------------------------------------------------- mux.ShardQueue (mux/shard_queue.go:65-89)
  (nm!"mux.ShardQueue.conn", .initOnly nms!["mux.NewShardQueue"]),
  (nm!"mux.ShardQueue.size", .initOnly nms!["mux.NewShardQueue"]),
  -- shard slices: Add (:101-104), the worker's swap (:163-167) and Close's look at a shard in drained (:128-130)
  -- between q.lock(shard) and q.unlock(shard)
  (nm!"mux.ShardQueue.getters", .guarded .shardLock nms!["mux.ShardQueue.Add", "mux.ShardQueue.foreach$1", "mux.ShardQueue.drained"] nms!["mux.NewShardQueue"]),
  (nm!"mux.ShardQueue.idx", .atomicOnly []),
  (nm!"mux.ShardQueue.locks", .atomicOnly nms!["mux.NewShardQueue"]),
  -- swap, r: only the worker, i.e. the closure started by the goroutine that raised runNum 0→1 (:153-156), until :180
  (nm!"mux.ShardQueue.swap", .owned .runNum nms!["mux.ShardQueue.foreach$1"] nms!["mux.NewShardQueue"]),
  (nm!"mux.queueTrigger.r", .owned .runNum nms!["mux.ShardQueue.foreach$1"] []),
  (nm!"mux.queueTrigger.w", .guarded .listLock nms!["mux.ShardQueue.triggering"] []),
  -- ring of triggered shards: slot written under listLock (:140-143) BEFORE atomic.AddInt32(&q.trigger,1) (:145); the
  -- worker reads slot r (:160) only for entries counted by its atomic load of trigger (:158,173); a slot is reused only
  -- after the worker emptied that shard under the shard lock, and a shard is listed at most once (:102,105): C17 model.
  (nm!"mux.queueTrigger.list", .handoff .listLock .runNum nms!["mux.ShardQueue.triggering"] nms!["mux.ShardQueue.foreach$1"] nms!["mux.NewShardQueue"]),
  (nm!"mux.queueTrigger.listLock", .syncObj []),
  (nm!"mux.queueTrigger.trigger", .atomicOnly []),
  (nm!"mux.queueTrigger.state", .atomicOnly []),
  (nm!"mux.queueTrigger.runNum", .atomicOnly []),
  -- ---------------------------------------------------------------- package-level variables
  (nm!"var.pollmanager", .initOnly []),               -- netpoll_unix.go:33, never reassigned
  (nm!"var.defaultDialer", .initOnly []),
  (nm!"var.errnos", .initOnly []),
  (nm!"var.errCanceled", .initOnly []),
  (nm!"var.errIOTimeout", .initOnly []),
  (nm!"var.errMissingAddress", .initOnly []),
  (nm!"var.untilErr", .initOnly []),
  (nm!"var.LinkBufferCap", .initOnly []),             -- read-only in non-test code
  (nm!"var.barrierPool", .syncObj []),                -- sync.Pool
  (nm!"var.linkedPool", .syncObj []),                 -- sync.Pool
  -- "Configure must called in init() function" (netpoll_unix.go:45)
  (nm!"var.defaultLinkBufferSize", .configOnly nms!["Configure"]),
  (nm!"var.logger", .configOnly nms!["Configure", "SetLoggerOutput"]),
  (nm!"mux.var.ShardSize", .initOnly nms!["mux.init"])
]

def lookupCode (c : Nat) : List (Nm × Disc) → Option Disc
  | [] => none
  | (n, d) :: rest => if n.code == c then some d else lookupCode c rest

/-- the policy by name code -/
def policyC (c : Nat) : Option Disc := lookupCode c policyTab

/-- the policy of a field (`none` = the field is not covered: every access to it is undisciplined) -/
def policy (f : Nm) : Option Disc := policyC f.code

def okAccess (field fn : Nm) (k : Kind) : Bool :=
  match policy field with
  | some d => complies d fn k
  | none => false

/-- a row of the generated table follows the policy -/
def ok (a : Nm × Nm × Kind) : Bool := okAccess a.1 a.2.1 a.2.2

/-- all accesses to one field follow its discipline (the policy of the field is looked up once) -/
def okGroup (g : Nm × List (Nm × Kind)) : Bool :=
  match policy g.1 with
  | some d => g.2.all fun a => complies d a.1 a.2
  | none => false

/-! ## Lexical lock coverage (T-gen table `Netpoll.Gen.lexHeld`)

The `guarded` / `handoff` annotations say "inside a critical section of lock `l`" at FUNCTION granularity.  The extractor
also scans every function body for the lock / unlock calls and emits, per plain access, the lock objects lexically held at
every occurrence.  `lexOk` demands that a plain access from a function annotated as holding `l` is lexically inside a
critical section of the Go object behind `l` - so moving a guarded write out of its `Lock()…Unlock()` window, inside the
same function, breaks `C19_lexically_locked`. -/

/-- the Go object behind a lock, as the extractor names it: the spin-lock word / mutex field, or the lock method -/
def Lock.goName : Lock → Nm
  | .opcacheLocked => nm!"operatorCache.locked"
  | .opcacheFreelocked => nm!"operatorCache.freelocked"
  | .shardLock => nm!"mux.ShardQueue.lock"
  | .listLock => nm!"mux.queueTrigger.listLock"
  | .evlMutex => nm!"eventLoop.Mutex"

def allLocks : List Lock := [.opcacheLocked, .opcacheFreelocked, .shardLock, .listLock, .evlMutex]

/-- locks lexically held at every occurrence of the access (empty = at least one occurrence outside every critical section) -/
def lexLookup (tab : List (Nm × Nm × Kind × List Nm)) (field fn : Nm) (k : Kind) : List Nm :=
  match tab.find? (fun e => e.1.code == field.code && e.2.1.code == fn.code && e.2.2.1 == k) with
  | some e => e.2.2.2
  | none => []

/-- the lock the policy says `fn` holds at its accesses to a field of discipline `d`, if the access is NOT lexically inside it -/
def lexMissing (tab : List (Nm × Nm × Kind × List Nm)) (a : Nm × Nm × Kind) : Option Lock :=
  match policy a.1 with
  | none => none
  | some d =>
    if a.2.2 == .a || a.2.2 == .s then none
    else allLocks.find? fun l => d.locks l a.2.1 && !has (lexLookup tab a.1 a.2.1 a.2.2) l.goName

/-- a plain access annotated as made inside a critical section is lexically inside one -/
def lexOk (tab : List (Nm × Nm × Kind × List Nm)) (a : Nm × Nm × Kind) : Bool := (lexMissing tab a).isNone

/-- checking the table group by group is the same as checking every row -/
theorem all_ok_of_groups (gs : List (Nm × List (Nm × Kind))) (h : gs.all okGroup = true) :
    (gs.flatMap fun g => g.2.map fun a => (g.1, a.1, a.2)).all ok = true := by
  rw [List.all_eq_true] at h ⊢
  intro a ha
  obtain ⟨g, hg, hag⟩ := List.mem_flatMap.mp ha
  obtain ⟨b, hb, rfl⟩ := List.mem_map.mp hag
  have hgk := h g hg
  unfold okGroup at hgk
  unfold ok okAccess
  cases hp : policy g.1 with
  | none => rw [hp] at hgk; cases hgk
  | some d =>
    rw [hp] at hgk
    exact (List.all_eq_true.mp hgk) b hb

end Netpoll.Race
