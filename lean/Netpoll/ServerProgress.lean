import Netpoll.ServerLemmas
/-!
Progress ("eventually") facts about the server model: stuck states carry no unmet obligation.
* a closed connection whose handler is not running is never stuck before its descriptor is closed;
* a Shutdown call that has started is never blocked, except in its wait state (timer / deadline) – and there the
  timer step is always enabled; while it runs a teardown itself (`tearing`), that teardown's next step is enabled.
These hold for both code variants.
-/
namespace Netpoll.Server

/-- teardown never goes back to "not started" -/
theorem stepConn_td {cfg : Cfg} {s s' : S} {i : Nat} {c : Conn} {a : Act} (hs : stepConn cfg s i c a = some s') :
    ∃ c', s'.conns = s.conns.set i c' ∧ (c.td ≠ .none → c'.td ≠ .none) ∧ s'.sh = s.sh := by
  cases a <;> simp only [stepConn] at hs <;> (try (split at hs)) <;> (try (split at hs)) <;> (try cases hs) <;>
    first
    | exact ⟨_, rfl, by simp_all, rfl⟩
    | (refine ⟨_, rfl, ?_, rfl⟩; simp_all)

theorem stepAccept_frame {s s' : S} {b : Bool} {r : AccRes} (hs : stepAccept s b r = some s') :
    s'.sh = s.sh ∧ (s'.conns = s.conns ∨ ∃ fd, s'.conns = s.conns ++ [({ fd := fd } : Conn)]) := by
  obtain ⟨e1, _, e3, _⟩ := detachLn_fields s
  cases r <;> simp only [stepAccept] at hs
  · split at hs
    · cases hs; exact ⟨rfl, Or.inr ⟨_, rfl⟩⟩
    · cases hs
  · split at hs
    · cases hs
    · split at hs <;> cases hs <;> exact ⟨rfl, Or.inl rfl⟩
  · split at hs
    · cases hs
    · split at hs
      · cases hs; exact ⟨rfl, Or.inl rfl⟩
      · split at hs <;> cases hs <;> exact ⟨e3, Or.inl e1⟩
  · split at hs
    · cases hs; exact ⟨rfl, Or.inl rfl⟩
    · split at hs
      · cases hs; exact ⟨by simp [S.quit, e3], Or.inl (by simp [S.quit, e1])⟩
      · cases hs; exact ⟨rfl, Or.inl rfl⟩

/-- while Shutdown runs a teardown itself, that teardown has started -/
def Tear (s : S) : Prop := ∀ i, s.sh = .tearing i → ∃ c : Conn, s.conns[i]? = some c ∧ c.td ≠ .none

theorem tear_init : Tear init := by intro i h; simp [init] at h

theorem tear_frame {s s' : S} (h : Tear s) (hsh : s'.sh = s.sh)
    (hc : s'.conns = s.conns ∨ ∃ fd, s'.conns = s.conns ++ [({ fd := fd } : Conn)]) : Tear s' := by
  intro i hi
  obtain ⟨c, hc0, ht⟩ := h i (by rw [← hsh]; exact hi)
  rcases hc with e | ⟨fd, e⟩
  · exact ⟨c, by rw [e]; exact hc0, ht⟩
  · exact ⟨c, by rw [e, List.getElem?_append_left (List.getElem?_eq_some_iff.mp hc0).1]; exact hc0, ht⟩

theorem tear_stepSh {cfg : Cfg} {s s' : S} {a : Act} (h : Tear s) (hs : stepSh cfg s a = some s') : Tear s' := by
  cases a <;> simp only [stepSh] at hs
  case shClose =>
    split at hs
    · rename_i i hg
      split at hs
      · cases hs
      · rename_i c hc
        split at hs
        · cases hs
          intro j hj
          simp only [Sh.tearing.injEq] at hj
          subst hj
          exact ⟨{ c with closing := true, shutClosed := true, td := .loaded c.cbReg }, by simp [S.setConn, get_set hc], by simp⟩
        · cases hs; intro j hj; simp at hj
    · cases hs
  case shObserve =>
    split at hs
    · split at hs
      · cases hs
      · split at hs
        · cases hs
        · split at hs <;> cases hs <;> intro j hj <;> simp_all
    · cases hs
  all_goals
    (try (split at hs)) <;> (try (split at hs)) <;> (try (split at hs)) <;> (try cases hs) <;>
    (first
      | (intro j hj; simp_all; done)
      | (refine tear_frame h ?_ (Or.inl ?_) <;> first | rfl | simp [S.quit] | exact (detachLn_fields s).1 | exact (detachLn_fields s).2.2.1))

theorem tear_step {cfg : Cfg} {s s' : S} {a : Act} (h : Tear s) (hs : step cfg s a = some s') : Tear s' := by
  unfold step at hs
  split at hs
  · split at hs
    · split at hs <;> cases hs <;> exact tear_frame h (by simp [S.quit]) (Or.inl (by simp [S.quit]))
    · cases hs
  · split at hs
    · split at hs
      · cases hs; exact tear_frame h rfl (Or.inl rfl)
      · cases hs
    · cases hs
  · split at hs
    · obtain ⟨a, b⟩ := stepAccept_frame hs; exact tear_frame h a b
    · cases hs
  · split at hs
    · obtain ⟨a, b⟩ := stepAccept_frame hs; exact tear_frame h a b
    · cases hs
  · cases hs; exact tear_frame h rfl (Or.inl rfl)
  · split at hs
    · rename_i i hi
      split at hs
      · rename_i c hc
        obtain ⟨c', e, ht, hsh⟩ := stepConn_td hs
        intro j hj
        rw [hsh] at hj
        obtain ⟨d, hd, hdt⟩ := h j hj
        rw [e, get_set hc]
        by_cases hji : j = i
        · subst hji; rw [hc] at hd; cases hd; exact ⟨c', by simp, ht hdt⟩
        · exact ⟨d, by simp [hji, hd], hdt⟩
      · cases hs
    · exact tear_stepSh h hs

theorem tear_run {cfg : Cfg} {s0 s : S} {as : List Act} (h0 : Tear s0) (hrun : run cfg s0 as = some s) : Tear s := by
  induction as generalizing s0 with
  | nil => simp only [run] at hrun; cases hrun; exact h0
  | cons a as ih =>
    simp only [run] at hrun
    split at hrun
    · rename_i s1 hs; exact ih (tear_step h0 hs) hrun
    · cases hrun

theorem tear_reachable {cfg : Cfg} {s : S} (hr : Reachable cfg s) : Tear s := by
  obtain ⟨as, h⟩ := hr
  exact tear_run tear_init h

/-! ### no stuck state with an unmet obligation -/

/-- a registered connection that is closed and whose handler is not running always has an enabled teardown
    step until its descriptor is closed (the teardown "happens"; it cannot be lost) -/
theorem teardown_enabled (cfg : Cfg) {s : S} {i : Nat} {c : Conn} (hc : s.conns[i]? = some c)
    (hreg : c.reg = true) (hcl : c.closing = true) (hb : c.busy = false) (hopen : c.td ≠ .closed) :
    (step cfg s (.tStart i)).isSome = true ∨ (step cfg s (.tUntrack i)).isSome = true ∨ (step cfg s (.tFdClose i)).isSome = true := by
  cases htd : c.td with
  | none => left; simp [step, Act.conn?, hc, stepConn, hreg, hcl, hb, htd]
  | loaded u => right; left; cases u <;> simp [step, Act.conn?, hc, stepConn, htd]
  | fin => right; right; simp [step, Act.conn?, hc, stepConn, htd]
  | closed => exact absurd htd hopen

/-- a Shutdown call in progress is never blocked: one of its own steps is enabled, or (while it tears an idle
    connection down inside `Close()`) the next step of that teardown; in the wait state the timer step is enabled -/
theorem shutdown_progress {cfg : Cfg} {s : S} (hr : Reachable cfg s)
    (hgo : s.sh ≠ .idle ∧ s.sh ≠ .retNil ∧ s.sh ≠ .retCtx)
    (hclosing : ∀ i, s.sh = .closing i → (s.conns[i]?).isSome = true)
    (htodo : ∀ i, i ∈ s.todo → (s.conns[i]?).isSome = true) :
    (∃ a, a ∈ [Act.shQuit, .shDetach, .shLnClose, .shRound, .shObserve, .shClose, .shTornDown, .shRecheck, .shEnd, .shTick] ∧
        (step cfg s a).isSome = true) ∨
    (∃ i, s.sh = .tearing i ∧ ((step cfg s (.tUntrack i)).isSome = true ∨ (step cfg s (.tFdClose i)).isSome = true)) := by
  have ht := tear_reachable hr
  obtain ⟨h1, h2, h3⟩ := hgo
  cases hsh : s.sh with
  | idle => exact absurd hsh h1
  | retNil => exact absurd hsh h2
  | retCtx => exact absurd hsh h3
  | took => left; exact ⟨.shQuit, by simp, by simp [step, Act.conn?, stepSh, hsh]⟩
  | quitSent => left; exact ⟨.shDetach, by simp, by simp [step, Act.conn?, stepSh, hsh]⟩
  | detached => left; exact ⟨.shLnClose, by simp, by simp [step, Act.conn?, stepSh, hsh]⟩
  | round => left; exact ⟨.shRound, by simp, by simp [step, Act.conn?, stepSh, hsh]⟩
  | waiting => left; exact ⟨.shTick, by simp, by simp [step, Act.conn?, stepSh, hsh]⟩
  | after i => left; refine ⟨.shRecheck, by simp, ?_⟩; simp only [step, Act.conn?, stepSh, hsh]; split <;> rfl
  | ranging =>
    left
    cases htd : s.todo with
    | nil => refine ⟨.shEnd, by simp, ?_⟩; simp only [step, Act.conn?, stepSh, hsh, htd]; simp; split <;> rfl
    | cons i rest =>
      refine ⟨.shObserve, by simp, ?_⟩
      have := htodo i (by rw [htd]; simp)
      cases hc : s.conns[i]? with
      | none => rw [hc] at this; cases this
      | some c => simp only [step, Act.conn?, stepSh, hsh, htd, hc]; simp; split <;> rfl
  | closing i =>
    left
    refine ⟨.shClose, by simp, ?_⟩
    have := hclosing i hsh
    cases hc : s.conns[i]? with
    | none => rw [hc] at this; cases this
    | some c => simp only [step, Act.conn?, stepSh, hsh, hc]; split <;> rfl
  | tearing i =>
    obtain ⟨c, hc, htd⟩ := ht i hsh
    cases hq : c.td with
    | none => exact absurd hq htd
    | loaded u => right; exact ⟨i, rfl, Or.inl (by cases u <;> simp [step, Act.conn?, hc, stepConn, hq])⟩
    | fin => right; exact ⟨i, rfl, Or.inr (by simp [step, Act.conn?, hc, stepConn, hq])⟩
    | closed => left; exact ⟨.shTornDown, by simp, by simp [step, Act.conn?, stepSh, hsh, hc, hq]⟩

end Netpoll.Server
