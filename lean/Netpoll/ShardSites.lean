import Netpoll.Shard
/-!
Which atomic step of /repo/mux/shard_queue.go each program counter of the model stands for:
the site label (`<Func>#<k>`, the k-th schedule point of that Go function in source order – the same
numbering tools/extract uses for `Netpoll.Gen.Shard` and for the hooks it inserts) and the operation.
`Netpoll.Tie.Shard` proves the regenerated tables equal the `expected_*` lists below; the driver
(`Driver.Shard`) uses `site` to match implementation traces against the model.
-/
namespace Netpoll.Shard

def APc.site : APc → String
  | .state => "Add#0" | .idx => "Add#1" | .lock => "lock#0" | .append => "Add#2" | .unlock => "unlock#0"
  | .lLock => "triggering#0" | .lWrite => "triggering#1" | .lUnlock => "triggering#2" | .trig => "triggering#3"
  | .run => "foreach#0" | .spawn => "foreach#1" | .done => "-"

def APc.op : APc → String
  | .state => "load q.state" | .idx => "add q.idx 1" | .lock => "cas q.locks[shard] 0 1"
  | .append => "plain r:getters w:getters" | .unlock => "store q.locks[shard] 0"
  | .lLock => "mlock q.listLock" | .lWrite => "plain r:w w:list,w" | .lUnlock => "munlock q.listLock"
  | .trig => "add q.trigger 1" | .run => "add q.runNum 1" | .spawn => "spawn runner.RunTask"
  | .done => "-"

def WPc.site : WPc → String
  | .idle => "-" | .load => "foreach#2" | .rd => "foreach#3" | .lock => "lock#0" | .swap => "foreach#4"
  | .unlock => "unlock#0" | .dealCall => "foreach#5" | .isAct => "conn.IsActive" | .deal => "getter"
  | .sub => "foreach#6" | .flush => "conn.Flush" | .store => "foreach#7"

def WPc.op : WPc → String
  | .idle => "-" | .load => "load q.trigger" | .rd => "plain r:list,r w:r" | .lock => "cas q.locks[shard] 0 1"
  | .swap => "plain r:getters,swap w:getters,swap" | .unlock => "store q.locks[shard] 0"
  | .dealCall => "plain r:swap w:-" | .isAct => "conn IsActive" | .deal => "callvar gt"
  | .sub => "add q.trigger negNum" | .flush => "conn Writer.Flush" | .store => "store q.runNum 0"

def TPc.site : TPc → String
  | .recheck => "foreach#8" | .run => "foreach#0" | .spawn => "foreach#1"

def TPc.op : TPc → String
  | .recheck => "load q.trigger" | .run => "add q.runNum 1" | .spawn => "spawn runner.RunTask"

def CPc.site : CPc → String
  | .cas => "Close#0" | .lock => "lock#0" | .read => "drained#0" | .unlock => "unlock#0" | .trig => "drained#1"
  | .store => "Close#1"

def CPc.op : CPc → String
  | .cas => "cas q.state active closing" | .lock => "cas q.locks[shard] 0 1" | .read => "plain r:getters w:-"
  | .unlock => "store q.locks[shard] 0" | .trig => "load q.trigger" | .store => "store q.state closed"

def sa (pc : APc) : String × String := (pc.site, pc.op)
def sw (pc : WPc) : String × String := (pc.site, pc.op)
def st (pc : TPc) : String × String := (pc.site, pc.op)
def sc (pc : CPc) : String × String := (pc.site, pc.op)
/-- an entry that is not a schedule point (call of a modelled function, connection call) -/
def nb (d : String) : String × String := ("", d)

/-- the steps the model assumes for each Go function, in program order -/
def expected_Add : List (String × String) :=
  [sa .state, sa .idx, nb "call lock", sa .append, nb "call unlock", nb "call triggering"]
/-- the two local computations of `Add` the model relies on: the early return of a call without getters
    (`newAdder`) and the shard index taken from the counter as `uint32` (`shardOf`) -/
def expected_Add_guard : String := "len(gts)==0"
def expected_Add_shard : String := "int32(uint32(atomic.AddInt32(&q.idx,1))%uint32(q.size))"
def expected_Close : List (String × String) := [sc .cas, nb "call drained", nb "gosched", sc .store]
def expected_drained : List (String × String) := [nb "call lock", sc .read, nb "call unlock", sc .trig]
def expected_triggering : List (String × String) :=
  [sa .lLock, sa .lWrite, sa .lUnlock, sa .trig, nb "call foreach"]
def expected_foreach : List (String × String) :=
  [sa .run, sa .spawn, sw .load, sw .rd, nb "call lock", sw .swap, nb "call unlock", sw .dealCall, nb "call deal",
   sw .sub, nb "call flush", sw .store, st .recheck, nb "call foreach"]
def expected_deal : List (String × String) :=
  [nb WPc.isAct.op, nb "conn Writer", nb WPc.deal.op, nb "writer Append", nb "conn Close"]
def expected_flush : List (String × String) := [nb WPc.flush.op, nb "conn Close"]
def expected_lock : List (String × String) := [sa .lock, nb "gosched"]
def expected_unlock : List (String × String) := [sa .unlock]
def expected_funcs : List String :=
  ["init", "NewShardQueue", "Add", "Close", "drained", "triggering", "foreach", "deal", "flush", "lock", "unlock"]

end Netpoll.Shard
