/-
C13 stated as an executable oracle over what the harness can observe of the IMPLEMENTATION
(go/inpkg/srvh.go).  `npdriver srvspec` applies these predicates to the implementation's reply lines;
the model is not involved.  Each predicate is the observable shadow of a theorem in Props/C13.lean.
-/
namespace Netpoll.Server.Spec

/-- one server-side connection as observed in-package: `IsActive()`, "is the value stored under its
    descriptor number in `server.connections`", "descriptor closed" -/
structure CObs where
  known : Bool := false
  a : Bool := false
  t : Bool := false
  f : Bool := false
deriving Repr, DecidableEq

/-- at every observation point: a connection whose descriptor is closed is not in the map
    (`C13_no_stale`, `C13_untrack_before_fd_reuse`: untrack precedes the close) -/
def staleFree (cs : List CObs) : Bool := cs.all fun c => !c.known || !(c.t && c.f)

/-- at quiescence (onAccept finished, handlers released, teardowns finished): tracked ⇔ alive
    (`C13_tracked`, `C13_no_stale`), and a closed connection is completely torn down -/
def settleOK (cs : List CObs) : Bool :=
  cs.all fun c => !c.known || ((c.a == c.t) && (c.a || c.f) && !(c.t && c.f))

/-- every client has closed and every teardown has finished: nothing alive, nothing tracked -/
def allGone (cs : List CObs) : Bool := cs.all fun c => !c.known || (!c.a && !c.t && c.f)

/-- Shutdown returned nil (`C13_shutdown_nil`): no connection is active or tracked and every server-side
    descriptor is closed -/
def nilOK (cs : List CObs) : Bool := allGone cs

/-- one scenario on a real event loop (numbers measured by the harness) -/
structure RealObs where
  probe : String := "-"
  sh : String := ""            -- nil | ctx | err | panic
  durMs : Nat := 0
  deadlineMs : Nat := 0
  serve : String := ""         -- nil | err | blocked
  lnOpen : Nat := 0
  trackedAtRet : Nat := 0
  staleAtRet : Nat := 0
  openAfterGrace : Nat := 0
  again : String := "-"
  againTracked : Nat := 0
  finalTracked : Nat := 0
  finalAlive : Nat := 0
  finalOpen : Nat := 0
  cbBad : Nat := 0
  closeTwice : Nat := 0
  busyClosed : Nat := 0
  noReply : Nat := 0
  idleLeft : Nat := 0
  socksLeft : Nat := 0
deriving Repr

/-- the violated clauses (empty = the observation satisfies C13) -/
def realFails (o : RealObs) : List String :=
  (if o.sh != "nil" && o.sh != "ctx" then ["shutdown-ended-with-" ++ o.sh] else []) ++
  (if o.sh == "nil" && o.trackedAtRet != 0 then ["nil-but-connections-tracked"] else []) ++
  (if o.sh == "nil" && o.openAfterGrace != 0 then ["nil-but-server-side-descriptors-open"] else []) ++
  (if (o.sh == "nil" || o.sh == "ctx") && o.serve == "blocked" then ["serve-not-released"] else []) ++
  (if (o.sh == "nil" || o.sh == "ctx") && o.lnOpen != 0 then ["listener-still-accepting"] else []) ++
  (if o.sh == "ctx" && o.durMs + 1 < o.deadlineMs then ["ctx-error-before-deadline"] else []) ++
  (if o.staleAtRet != 0 then ["closed-connection-tracked"] else []) ++
  (if o.finalTracked != 0 then ["connection-tracked-for-ever"] else []) ++
  (if o.finalAlive != 0 || o.finalOpen != 0 then ["connection-never-torn-down"] else []) ++
  (if o.finalOpen == 0 && o.socksLeft != 0 then ["descriptor-census-not-clean"] else []) ++
  (if o.cbBad != 0 then ["callback-order"] else []) ++
  (if o.closeTwice != 0 then ["close-callbacks-twice"] else []) ++
  (if o.busyClosed != 0 then ["busy-connection-closed-by-shutdown"] else []) ++
  (if o.noReply != 0 then ["busy-connection-lost-its-reply"] else []) ++
  (if o.idleLeft != 0 then ["idle-connection-left-open-after-nil"] else []) ++
  (if o.again == "nil" && o.againTracked != 0 then ["second-shutdown-nil-with-connections-tracked"] else [])

/-- descriptor exhaustion: both episodes end with every queued client served and the listener
    accepting again (`C13_accept_resumes`) -/
structure EmfObs where
  served1 : String := ""
  served2 : String := ""
  fresh1 : Nat := 0
  fresh2 : Nat := 0
  sh : String := ""
deriving Repr

def emfFails (o : EmfObs) : List String :=
  (if o.served1 != "3/3" then ["episode1-clients-not-served"] else []) ++
  (if o.fresh1 != 1 then ["episode1-listener-not-accepting-again"] else []) ++
  (if o.served2 != "3/3" then ["episode2-clients-not-served"] else []) ++
  (if o.fresh2 != 1 then ["episode2-listener-not-accepting-again"] else []) ++
  (if o.sh != "nil" then ["shutdown-after-episodes-" ++ o.sh] else [])

/-- one stretch of descriptor exhaustion: a `Listener` handed to `Serve` answers its first accepts from a script
    (`k` failures: EMFILE / ENFILE, possibly followed by or mixed with other errors accept(2) may report at any time;
    everything else is the real code), and is the real accept afterwards - descriptors are available again.
    `queued` clients connect during the stretch, one more after it -/
structure StretchObs where
  k : Nat := 0
  /-- the script contains an out-of-descriptor error: the clause speaks about descriptor exhaustion only -/
  exhausted : Bool := true
  /-- the process died (a panic in a library goroutine cannot be recovered) before the stretch was over -/
  crashed : Nat := 0
  queued : Nat := 0
  served : Nat := 0
  fresh : Nat := 0
deriving Repr

/-- "Under descriptor exhaustion accepting resumes once descriptors are available again", for a stretch of ANY
    length and whatever accept reported on the way (`C13_accept_resumes`, `C13_retry_index_in_table`,
    `C13_retry_resumes_after_any_stretch`, `C13_retry_resumes_after_any_script`, `C13_episode_never_stops_accepting`):
    the clients that queued up meanwhile and a fresh one are served once accept works again -/
def stretchFails (o : StretchObs) : List String :=
  if !o.exhausted then [] else
  (if o.crashed != 0 then ["process-died-during-exhaustion-accepting-never-resumes"] else []) ++
  (if o.crashed == 0 && o.served != o.queued then ["queued-clients-not-served-after-exhaustion"] else []) ++
  (if o.crashed == 0 && o.fresh != 1 then ["listener-not-accepting-again-after-exhaustion"] else [])

end Netpoll.Server.Spec
