import Netpoll.Buf.Spec
import Netpoll.Gen.Consts
/-
Model of nocopy_readwriter.go (zcReader, zcWriter, ioReader, ioWriter) over the C01 *spec* queue `Q`
(justified by the C01 refinement theorem: inside `Contract`, a LinkBuffer behaves as `specStep`).
The io.Reader / io.Writer behind an adapter is a script of per-call behaviours the io contracts allow.
Core Lean only.
-/
namespace Netpoll.Adapter
open Netpoll.Buf

/-- what a source/sink call reports besides the count -/
inductive IOErr where
  | none | eof | other
deriving Repr, DecidableEq

/-- errors an adapter call can return -/
inductive AErr where
  | eof        -- ErrEOF (source returned io.EOF)
  | src        -- the source's / sink's own error, passed through
  | negative   -- "zcReader fill negative count"
  | buf        -- an error of the underlying LinkBuffer call (not enough data, ...)
deriving Repr, DecidableEq

/-- scripted io.Reader: call i returns `min k len(p)` bytes of a position-keyed stream together with `e`.
(`k < 0`: a misbehaving source returning a negative count, no data.) An exhausted script returns (0, EOF). -/
structure Src (α : Type) where
  stream : Nat → α
  pos : Nat := 0
  script : List (Int × IOErr) := []

variable {α : Type}

def Src.bytes (s : Src α) (n : Nat) : List α := (List.range n).map fun i => s.stream (s.pos + i)

/-- `r.Read(buf)` with `len(buf) = l`: (count, error, data written at the front of buf), new source state -/
def Src.read (s : Src α) (l : Nat) : (Int × IOErr × List α) × Src α :=
  match s.script with
  | [] => ((0, .eof, []), s)
  | (k, e) :: rest =>
    if k < 0 then ((k, e, []), { s with script := rest })
    else
      let n := min k.toNat l
      ((n, e, s.bytes n), { s with pos := s.pos + n, script := rest })

/-- Every LinkBuffer call an adapter makes goes through this function (the only place `specStep` is applied):
the queue's answer, and the ghost flag "this and every earlier call was inside the C01 `Contract`". -/
def callQ [DecidableEq α] (q : Q α) (inC : Bool) (op : Op α) : Q α × Expect α × Bool :=
  ((specStep q op).1, (specStep q op).2, inC && Contract q op)

structure ZCReader (α : Type) where
  src : Src α
  q : Q α := {}
  /-- ghost: every byte handed to the caller by a consuming read, in order -/
  delivered : List α := []
  /-- ghost: every call made on `q` so far was inside the C01 `Contract` -/
  inC : Bool := true

/-- a call on the reader's buffer -/
def ZCReader.call [DecidableEq α] (r : ZCReader α) (op : Op α) : ZCReader α × Expect α :=
  let (q', e, c) := callQ r.q r.inC op
  ({ r with q := q', inC := c }, e)

/-- one round of `fill`'s loop body: Malloc(block4k); Read; MallocAck(num); Flush. Returns the error of the round. -/
def ZCReader.round [DecidableEq α] [Inhabited α] (block4k : Nat) (r : ZCReader α) : ZCReader α × Option AErr :=
  let ((num, e, data), src') := r.src.read block4k
  let r1 := (r.call (.malloc block4k (data ++ List.replicate (block4k - data.length) default))).1
  let (num', err) : Int × Option AErr :=
    if num < 0 then (0, match e with | .none => some .negative | .eof => some .eof | .other => some .src)
    else (num, match e with | .none => none | .eof => some .eof | .other => some .src)
  let r2 := (r1.call (.mallocAck num')).1
  let r3 := (r2.call .flush).1
  ({ r3 with src := src' }, err)

/-- The two nested loops of `waitRead` / `fill` flattened into one loop over rounds: up to `fuel` rounds while
`Len < n` and no round reported an error. With `fuel = maxReadCycle` this IS `fill` (below); with
`script.length + 1` rounds of fuel it is what the nested loops `waitReadLoop` compute (`AdapterLemmas.waitReadLoop_eq`:
the proofs work on this flat form). -/
def ZCReader.waitRead [DecidableEq α] [Inhabited α] (block4k : Nat) : Nat → ZCReader α → Int → ZCReader α × Option AErr
  | 0, r, _ => (r, none)
  | fuel + 1, r, n =>
    if (r.q.len : Int) ≥ n then (r, none)
    else
      match r.round block4k with
      | (r', some e) => (r', some e)
      | (r', none) => ZCReader.waitRead block4k fuel r' n

/-- `fill(n)`: `for i := 0; i < maxReadCycle && buf.Len() < n && err == nil; i++ { round }; return err` - at most
`cycle` source reads per call; it returns nil with fewer than `n` bytes buffered when the source needed more. -/
def ZCReader.fill [DecidableEq α] [Inhabited α] (block4k cycle : Nat) (r : ZCReader α) (n : Int) : ZCReader α × Option AErr :=
  r.waitRead block4k cycle n

/-- `waitRead(n)` as written: `for buf.Len() < n { err = fill(n); if err != nil { return err } }; return nil` - the outer
loop re-arms `fill` until the request is buffered or the source reports an error. `fuel` bounds the outer iterations
(script length + 1 suffices when `cycle ≥ 1`: every `fill` consumes a script entry or meets the exhausted script's EOF). -/
def ZCReader.waitReadLoop [DecidableEq α] [Inhabited α] (block4k cycle : Nat) : Nat → ZCReader α → Int → ZCReader α × Option AErr
  | 0, r, _ => (r, none)
  | fuel + 1, r, n =>
    if (r.q.len : Int) ≥ n then (r, none)
    else
      match r.fill block4k cycle n with
      | (r', some e) => (r', some e)
      | (r', none) => ZCReader.waitReadLoop block4k cycle fuel r' n

def fuelOf (r : ZCReader α) : Nat := r.src.script.length + 1

inductive ROp (α : Type) where
  | next (n : Int) | peek (n : Int) | skip (n : Int) | readBinary (n : Int) | readByte
  | until (c : α) | release | len
deriving Repr

inductive ARes (α : Type) where
  | ok (r : Res α)
  | fail (e : AErr)
deriving Repr, DecidableEq

def ofExpect : Expect α → Res α
  | .exact r => r
  | _ => .unit

/-- run a buffer op; `consumed` says whether returned bytes leave the stream -/
def ZCReader.bufOp [DecidableEq α] (r : ZCReader α) (op : Op α) (consumes : Bool) : ZCReader α × ARes α :=
  let (r', e) := r.call op
  match ofExpect e with
  | .err => (r', .fail .buf)
  | res =>
    let got : List α := match res with | .bytes bs => bs | _ => []
    ({ r' with delivered := if consumes then r.delivered ++ got else r.delivered }, .ok res)

def ZCReader.step [DecidableEq α] [Inhabited α] (block4k : Nat) (r : ZCReader α) : ROp α → ZCReader α × ARes α
  | .next n =>
    match r.waitReadLoop block4k Gen.c_maxReadCycle (fuelOf r) n with
    | (r, some e) => (r, .fail e)
    | (r, none) => r.bufOp (.next n) true
  | .peek n =>
    match r.waitReadLoop block4k Gen.c_maxReadCycle (fuelOf r) n with
    | (r, some e) => (r, .fail e)
    | (r, none) => r.bufOp (.peek n) false
  | .skip n =>
    match r.waitReadLoop block4k Gen.c_maxReadCycle (fuelOf r) n with
    | (r, some e) => (r, .fail e)
    | (r, none) =>
      -- Skip returns no bytes; the skipped bytes leave the stream
      let skipped := if n ≤ 0 ∨ r.q.len < n.toNat then [] else r.q.firstBytes n.toNat
      let (r', res) := r.bufOp (.skip n) false
      ({ r' with delivered := r'.delivered ++ skipped }, res)
  | .readBinary n =>
    match r.waitReadLoop block4k Gen.c_maxReadCycle (fuelOf r) n with
    | (r, some e) => (r, .fail e)
    | (r, none) => r.bufOp (.readBinary n) true
  | .readByte =>
    match r.waitReadLoop block4k Gen.c_maxReadCycle (fuelOf r) 1 with
    | (r, some e) => (r, .fail e)
    | (r, none) => r.bufOp .readByte true
  | .until c => r.bufOp (.until c) true     -- no waitRead: only what is already buffered is searched
  | .release => r.bufOp .release false
  | .len => r.bufOp .len false

/-- scripted io.Writer: call i accepts `min j len(p)` bytes and reports `e`. Exhausted script: accepts everything. -/
structure Sink (α : Type) where
  got : List α := []
  script : List (Nat × IOErr) := []

def Sink.write (s : Sink α) (p : List α) : (Nat × IOErr) × Sink α :=
  match s.script with
  | [] => ((p.length, .none), { s with got := s.got ++ p })
  | (j, e) :: rest =>
    let n := min j p.length
    ((n, e), { got := s.got ++ p.take n, script := rest })

structure ZCWriter (α : Type) where
  sink : Sink α := {}
  q : Q α := {}
  /-- ghost: every byte that was flushed (submitted) so far, in order -/
  submitted : List α := []
  /-- ghost: every call made on `q` so far was inside the C01 `Contract` -/
  inC : Bool := true

/-- a call on the writer's buffer -/
def ZCWriter.call [DecidableEq α] (w : ZCWriter α) (op : Op α) : ZCWriter α × Expect α :=
  let (q', e, c) := callQ w.q w.inC op
  ({ w with q := q', inC := c }, e)

inductive WOp (α : Type) where
  | malloc (n : Int) (d : List α) | writeBinary (p : List α) (pcap : Nat) | writeByte (a : α)
  | mallocAck (n : Int) | flush | mallocLen
deriving Repr

/-- `zcWriter.Flush`: buf.Flush(); n, err := w.Write(buf.Bytes()); if n > 0 { buf.Skip(n); buf.Release() }; return err -/
def ZCWriter.flush [DecidableEq α] (w : ZCWriter α) : ZCWriter α × ARes α :=
  let newly := (w.q.items.filter (! ·.2)).map (·.1)
  let w1 := (w.call .flush).1
  let (w1, eb) := w1.call .bytes
  let bytes : List α := match ofExpect eb with | .bytes bs => bs | _ => []
  let ((n, e), sink') := w1.sink.write bytes
  let w2 := if n > 0 then ((w1.call (.skip n)).1.call .release).1 else w1
  ({ w2 with sink := sink', submitted := w.submitted ++ newly },
   match e with | .none => .ok .unit | _ => .fail .src)

def ZCWriter.step [DecidableEq α] (w : ZCWriter α) : WOp α → ZCWriter α × ARes α
  | .malloc n d => ((w.call (.malloc n d)).1, .ok .unit)
  | .writeBinary p c => ((w.call (.writeBinary p c)).1, .ok (.num p.length))
  | .writeByte a => ((w.call (.writeByte a)).1, .ok .unit)
  | .mallocAck n => ((w.call (.mallocAck n)).1, if n < 0 then .fail .buf else .ok .unit)
  | .flush => w.flush
  | .mallocLen => let (w', e) := w.call .mallocLen; (w', .ok (ofExpect e))

/-- `ioReader.Read(p)` with `len(p) = l` over a Reader that behaves as `q`: (queue, bytes copied, EOF?,
ghost: all buffer calls inside `Contract`) -/
def ioRead [DecidableEq α] (q : Q α) (l : Nat) : Q α × List α × Bool × Bool :=
  if l = 0 then (q, [], false, true)
  else
    let (q, eh, c) := callQ q true .len
    let has : Nat := match ofExpect eh with | .num h => h.toNat | _ => 0
    let l := if has < l then has else l
    if l = 0 then (q, [], true, c)     -- io.EOF
    else
      let (q1, e, c) := callQ q c (.next l)
      let (q2, _, c) := callQ q1 c .release
      (q2, match ofExpect e with | .bytes bs => bs | _ => [], false, c)

/-- `ioWriter.Write(p)`: Malloc(len(p)); copy; Flush. (queue, n, ghost: all buffer calls inside `Contract`) -/
def ioWrite [DecidableEq α] (q : Q α) (p : List α) : Q α × Nat × Bool :=
  let (q1, _, c) := callQ q true (.malloc p.length p)
  let (q2, _, c) := callQ q1 c .flush
  (q2, p.length, c)

end Netpoll.Adapter
