import Netpoll.FdLemmas
/-!
# Composition of lifecycles with the adversary; the monitors (C15)
-/
namespace Netpoll.Fd
open M
set_option linter.unusedSimpArgs false
set_option linter.unusedVariables false

/-! ## global composition: any number of lifecycles, any interleaving, with the adversary -/

/-- the part of the ledger that belongs to instance `i` -/
def ownOf (led : Ledger) (i : Nat) : Own := fun fd =>
  match led fd with
  | some (.np j t) => if j = i then some t else none
  | _ => none

theorem ownOf_eq_some {led : Ledger} {i fd t} : ownOf led i fd = some t ↔ led fd = some (.np i t) := by
  unfold ownOf
  cases h : led fd with
  | none => simp
  | some o => cases o with
    | env => simp
    | np j t' => by_cases hj : j = i <;> simp [hj]

theorem ownOf_eq_none {led : Ledger} {i fd} : ownOf led i fd = none ↔ ∀ t, led fd ≠ some (.np i t) := by
  unfold ownOf
  cases h : led fd with
  | none => simp
  | some o => cases o with
    | env => simp
    | np j t' => by_cases hj : j = i <;> simp [hj]

theorem ownOf_set_self (led : Ledger) (i fd t) :
    ownOf (led.set fd (some (.np i t))) i = (ownOf led i).set fd (some t) := by
  funext x; by_cases hx : x = fd <;> simp [ownOf, Ledger.set, Own.set, hx]

theorem ownOf_set_none (led : Ledger) (i fd) : ownOf (led.set fd none) i = (ownOf led i).set fd none := by
  funext x; by_cases hx : x = fd <;> simp [ownOf, Ledger.set, Own.set, hx]

theorem ownOf_set_env (led : Ledger) (i fd) : ownOf (led.set fd (some .env)) i = (ownOf led i).set fd none := by
  funext x; by_cases hx : x = fd <;> simp [ownOf, Ledger.set, Own.set, hx]

/-- changing a cell that is not `j`'s, to something that is not `j`'s, does not change what `j` owns -/
theorem ownOf_set_other (led : Ledger) (j fd) (v : Option Owner)
    (hold : ∀ t, led fd ≠ some (.np j t)) (hnew : ∀ t, v ≠ some (.np j t)) :
    ownOf (led.set fd v) j = ownOf led j := by
  funext x
  by_cases hx : x = fd
  · subst hx
    have h1 : ownOf led j x = none := ownOf_eq_none.2 hold
    have h2 : ownOf (led.set x v) j x = none := ownOf_eq_none.2 (by simpa [Ledger.set] using hnew)
    rw [h1, h2]
  · simp [ownOf, Ledger.set, hx]

/-- the invariant of the composed system, for a claim `P` about what an instance owns when it has finished -/
structure GInv (A : Br → Option Bool) (P : Own → Prop) (g : G) : Prop where
  progs : ∀ i m, g.insts[i]? = some m → wp A m (fun _ o => P o) (ownOf g.led i)
  bound : ∀ fd i t, g.led fd = some (.np i t) → i < g.insts.length
  closes : ∀ fd i t s was, Ev.npClose fd i t s was ∈ g.trace → was = some (.np i t)
  rels : ∀ fd i t was, Ev.npRel fd i t was ∈ g.trace → was = some (.np i t)

theorem GInv_init (A P) (envOpen : Fd → Bool) : GInv A P (G.init envOpen) := by
  refine ⟨?_, ?_, ?_, ?_⟩
  · intro i m h; simp [G.init] at h
  · intro fd i t h; simp only [G.init] at h; split at h <;> simp at h
  · intro fd i t s was h; simp [G.init] at h
  · intro fd i t was h; simp [G.init] at h

/-- all programs started by the moves are safe for claim `P` -/
def MovesOK (A : Br → Option Bool) (P : Own → Prop) (ms : List Move) : Prop :=
  ∀ p, Move.spawn p ∈ ms → wp A p (fun _ o => P o) Own.empty

theorem getElem?_set_cases {α} (l : List α) (i j : Nat) (a m : α) (h : (l.set i a)[j]? = some m) :
    (j = i ∧ m = a ∧ i < l.length) ∨ (j ≠ i ∧ l[j]? = some m) := by
  by_cases hji : j = i
  · subst hji
    by_cases hl : j < l.length
    · simp [hl] at h; exact Or.inl ⟨rfl, h.symm, hl⟩
    · simp [hl] at h
  · right; refine ⟨hji, ?_⟩
    rw [List.getElem?_set_ne (Ne.symm hji)] at h; exact h

theorem GInv_step (A P) (g g' : G) (mv : Move) (inv : GInv A P g)
    (hsp : ∀ p, mv = .spawn p → wp A p (fun _ o => P o) Own.empty)
    (hs : gstep A g mv = some g') : GInv A P g' := by
  cases mv with
  | spawn p =>
    simp only [gstep, Option.some.injEq] at hs; subst hs
    refine ⟨?_, ?_, inv.closes, inv.rels⟩
    · intro i m h
      by_cases hi : i < g.insts.length
      · rw [List.getElem?_append_left hi] at h; exact inv.progs i m h
      · have hi' : i = g.insts.length := by
          rcases Nat.lt_or_ge g.insts.length i with h' | h'
          · rw [List.getElem?_eq_none (by simp; omega)] at h; simp at h
          · omega
        subst hi'
        simp at h; subst h
        have : ownOf g.led g.insts.length = Own.empty := by
          funext x; apply ownOf_eq_none.2; intro t ht; exact absurd (inv.bound x _ t ht) (by omega)
        simpa [this] using hsp p rfl
    · intro fd i t h; have := inv.bound fd i t h; simp; omega
  | envOpen n =>
    simp only [gstep] at hs; split at hs <;> simp at hs; subst hs
    rename_i hfree
    refine ⟨?_, ?_, ?_, ?_⟩
    · intro i m h
      have : ownOf (g.led.set n (some .env)) i = ownOf g.led i :=
        ownOf_set_other _ _ _ _ (by simp [hfree]) (by simp)
      simpa [this] using inv.progs i m h
    · intro fd i t h
      by_cases hx : fd = n <;> simp [Ledger.set, hx] at h
      exact inv.bound fd i t h
    · intro fd i t s was h; simp at h; exact inv.closes fd i t s was h
    · intro fd i t was h; simp at h; exact inv.rels fd i t was h
  | envClose n =>
    simp only [gstep] at hs; split at hs <;> simp at hs; subst hs
    rename_i henv
    refine ⟨?_, ?_, ?_, ?_⟩
    · intro i m h
      have : ownOf (g.led.set n none) i = ownOf g.led i :=
        ownOf_set_other _ _ _ _ (by simp [henv]) (by simp)
      simpa [this] using inv.progs i m h
    · intro fd i t h
      by_cases hx : fd = n <;> simp [Ledger.set, hx] at h
      exact inv.bound fd i t h
    · intro fd i t s was h; simp at h; exact inv.closes fd i t s was h
    · intro fd i t was h; simp at h; exact inv.rels fd i t was h
  | step i n b =>
    simp only [gstep] at hs
    split at hs
    · simp at hs
    · simp at hs
    · -- opn
      rename_i tag k hi
      split at hs <;> simp at hs; subst hs
      rename_i hcond
      have hw := inv.progs i _ hi
      simp only [wp] at hw
      have hlen : i < g.insts.length := by
        rcases Nat.lt_or_ge i g.insts.length with h | h
        · exact h
        · rw [List.getElem?_eq_none h] at hi; simp at hi
      refine ⟨?_, ?_, ?_, ?_⟩
      · intro j m h
        rcases getElem?_set_cases _ _ _ _ _ h with ⟨hj, hm, _⟩ | ⟨hj, hm⟩
        · subst hj; subst hm
          rw [ownOf_set_self]
          exact hw n hcond.1 (ownOf_eq_none.2 (by simp [hcond.2]))
        · have : ownOf (g.led.set n (some (.np i tag))) j = ownOf g.led j :=
            ownOf_set_other _ _ _ _ (by simp [hcond.2]) (by intro t h; injection h with h; injection h with h1 _; exact hj h1.symm)
          simpa [this] using inv.progs j m hm
      · intro fd j t h
        by_cases hx : fd = n
        · simp [Ledger.set, hx] at h; simp; omega
        · simp [Ledger.set, hx] at h; simpa using inv.bound fd j t h
      · intro fd j t s was h; simp at h; exact inv.closes fd j t s was h
      · intro fd j t was h; simp at h; exact inv.rels fd j t was h
    · -- adopt
      rename_i fd tag k hi
      split at hs <;> simp at hs; subst hs
      rename_i hcond
      have hw := inv.progs i _ hi
      simp only [wp] at hw
      have hlen : i < g.insts.length := by
        rcases Nat.lt_or_ge i g.insts.length with h | h
        · exact h
        · rw [List.getElem?_eq_none h] at hi; simp at hi
      refine ⟨?_, ?_, ?_, ?_⟩
      · intro j m h
        rcases getElem?_set_cases _ _ _ _ _ h with ⟨hj, hm, _⟩ | ⟨hj, hm⟩
        · subst hj; subst hm
          rw [ownOf_set_self]
          exact hw hcond.1 (ownOf_eq_none.2 (by simp [hcond.2]))
        · have : ownOf (g.led.set fd (some (.np i tag))) j = ownOf g.led j :=
            ownOf_set_other _ _ _ _ (by simp [hcond.2]) (by intro t h; injection h with h; injection h with h1 _; exact hj h1.symm)
          simpa [this] using inv.progs j m hm
      · intro fd' j t h
        by_cases hx : fd' = fd
        · simp [Ledger.set, hx] at h; simp; omega
        · simp [Ledger.set, hx] at h; simpa using inv.bound fd' j t h
      · intro fd' j t s was h; simp at h; exact inv.closes fd' j t s was h
      · intro fd' j t was h; simp at h; exact inv.rels fd' j t was h
    · -- rel
      rename_i fd tag k hi
      simp at hs; subst hs
      have hw := inv.progs i _ hi
      simp only [wp] at hw
      have hown : g.led fd = some (.np i tag) := ownOf_eq_some.1 hw.1
      simp only [hown, if_true]
      refine ⟨?_, ?_, ?_, ?_⟩
      · intro j m h
        rcases getElem?_set_cases _ _ _ _ _ h with ⟨hj, hm, _⟩ | ⟨hj, hm⟩
        · subst hj; subst hm; rw [ownOf_set_env]; exact hw.2
        · have : ownOf (g.led.set fd (some .env)) j = ownOf g.led j :=
            ownOf_set_other _ _ _ _ (by intro t h; rw [hown] at h; injection h with h; injection h with h1 _; exact hj h1.symm) (by simp)
          simpa [this] using inv.progs j m hm
      · intro fd' j t h
        by_cases hx : fd' = fd
        · simp [Ledger.set, hx] at h
        · simp [Ledger.set, hx] at h; simpa using inv.bound fd' j t h
      · intro fd' j t s was h; simp at h; exact inv.closes fd' j t s was h
      · intro fd' j t was h
        simp at h
        rcases h with ⟨rfl, rfl, rfl, rfl⟩ | h
        · rfl
        · exact inv.rels fd' j t was h
    · -- cls
      rename_i fd tag site k hi
      simp at hs; subst hs
      have hw := inv.progs i _ hi
      simp only [wp] at hw
      have hown : g.led fd = some (.np i tag) := ownOf_eq_some.1 hw.1
      refine ⟨?_, ?_, ?_, ?_⟩
      · intro j m h
        rcases getElem?_set_cases _ _ _ _ _ h with ⟨hj, hm, _⟩ | ⟨hj, hm⟩
        · subst hj; subst hm; rw [ownOf_set_none]; exact hw.2
        · have : ownOf (g.led.set fd none) j = ownOf g.led j :=
            ownOf_set_other _ _ _ _ (by intro t h; rw [hown] at h; injection h with h; injection h with h1 _; exact hj h1.symm) (by simp)
          simpa [this] using inv.progs j m hm
      · intro fd' j t h
        by_cases hx : fd' = fd
        · simp [Ledger.set, hx] at h
        · simp [Ledger.set, hx] at h; simpa using inv.bound fd' j t h
      · intro fd' j t s was h
        simp at h
        rcases h with ⟨rfl, rfl, rfl, rfl, rfl⟩ | h
        · exact hown
        · exact inv.closes fd' j t s was h
      · intro fd' j t was h; simp at h; exact inv.rels fd' j t was h
    · -- at
      rename_i site k hi
      simp at hs; subst hs
      have hw := inv.progs i _ hi
      simp only [wp] at hw
      refine ⟨?_, ?_, ?_, ?_⟩
      · intro j m h
        rcases getElem?_set_cases _ _ _ _ _ h with ⟨hj, hm, _⟩ | ⟨hj, hm⟩
        · subst hj; subst hm; exact hw
        · exact inv.progs j m hm
      · intro fd' j t h; simpa using inv.bound fd' j t h
      · intro fd' j t s was h; simp at h; exact inv.closes fd' j t s was h
      · intro fd' j t was h; simp at h; exact inv.rels fd' j t was h
    · -- choose
      rename_i l k hi
      split at hs <;> simp at hs; subst hs
      rename_i hcond
      have hw := inv.progs i _ hi
      simp only [wp] at hw
      refine ⟨?_, ?_, ?_, ?_⟩
      · intro j m h
        rcases getElem?_set_cases _ _ _ _ _ h with ⟨hj, hm, _⟩ | ⟨hj, hm⟩
        · subst hj; subst hm; exact hw b hcond
        · exact inv.progs j m hm
      · intro fd' j t h; simpa using inv.bound fd' j t h
      · intro fd' j t s was h; simp at h; exact inv.closes fd' j t s was h
      · intro fd' j t was h; simp at h; exact inv.rels fd' j t was h

theorem GInv_run (A P) (ms : List Move) : ∀ (g g' : G), GInv A P g → MovesOK A P ms →
    run A g ms = some g' → GInv A P g' := by
  induction ms with
  | nil => intro g g' inv _ h; simp [run] at h; subst h; exact inv
  | cons mv ms ih =>
    intro g g' inv hok h
    simp only [run, List.foldlM_cons] at h
    cases hs : gstep A g mv with
    | none => simp [hs] at h
    | some g1 =>
      simp [hs] at h
      apply ih g1 g' (GInv_step A P g g1 mv inv (fun p hp => hok p (by simp [hp])) hs)
        (fun p hp => hok p (by simp [hp]))
      simpa [run] using h

/-! ## the monitors accept every trace of the composed system -/

def cellOf (led : Ledger) : Fd → Cell := fun fd =>
  match led fd with
  | none => .free
  | some .env => .env
  | some (.np _ _) => .np

theorem cellOf_set (led : Ledger) (fd : Fd) (v : Option Owner) :
    cellOf (led.set fd v) = upd (cellOf led) fd (cellOf (fun _ => v) fd) := by
  funext x; by_cases hx : x = fd <;> simp [cellOf, Ledger.set, upd, hx]

theorem monitor_append (m : Mon) (os : List Obs) (o : Obs) :
    monitor m (os ++ [o]) = (((monitor m os).1.step o).1, ((monitor m os).1.step o).2 :: (monitor m os).2) := by
  simp [monitor, List.foldl_append]

/-- monitor state ↔ ledger, verdicts all ok, and the close-once flag implies "not netpoll's" -/
structure MonInv (envOpen : Fd → Bool) (g : G) : Prop where
  cell : (monitor (Mon.init envOpen) g.obs).1.cell = cellOf g.led
  ok : (monitor (Mon.init envOpen) g.obs).2.all Verdict.isOk = true
  once : (g.obs.foldl onceStep (fun _ => false, true)).2 = true
  flag : ∀ fd, (g.obs.foldl onceStep (fun _ => false, true)).1 fd = true → cellOf g.led fd ≠ .np

theorem MonInv_init (envOpen : Fd → Bool) : MonInv envOpen (G.init envOpen) := by
  refine ⟨?_, by simp [G.init, G.obs, monitor], by simp [G.init, G.obs], by simp [G.init, G.obs]⟩
  funext x; simp only [G.init, G.obs, monitor, Mon.init, cellOf, List.reverse_nil, List.filterMap_nil, List.foldl_nil]
  cases envOpen x <;> simp

theorem obs_cons_some (g : G) (e : Ev) (o : Obs) (led insts) (h : e.obs = some o) :
    G.obs { led := led, insts := insts, trace := e :: g.trace } = g.obs ++ [o] := by
  simp [G.obs, List.filterMap_append, h]

theorem obs_cons_none (g : G) (e : Ev) (led insts) (h : e.obs = none) :
    G.obs { led := led, insts := insts, trace := e :: g.trace } = g.obs := by
  simp [G.obs, List.filterMap_append, h]

theorem MonInv_of_obs_eq (envOpen) (g g' : G) (ho : g'.obs = g.obs) (hl : g'.led = g.led) (m : MonInv envOpen g) :
    MonInv envOpen g' := by
  refine ⟨?_, ?_, ?_, ?_⟩
  · rw [ho, hl]; exact m.cell
  · rw [ho]; exact m.ok
  · rw [ho]; exact m.once
  · rw [ho, hl]; exact m.flag

theorem MonInv_step (A P envOpen) (g g' : G) (mv : Move) (inv : GInv A P g) (mon : MonInv envOpen g)
    (hs : gstep A g mv = some g') : MonInv envOpen g' := by
  cases mv with
  | spawn p =>
    simp only [gstep, Option.some.injEq] at hs; subst hs
    exact MonInv_of_obs_eq envOpen g _ rfl rfl mon
  | envOpen n =>
    simp only [gstep] at hs; split at hs <;> simp at hs; subst hs
    rename_i hfree
    have ho := obs_cons_some g (.envOpen n) (.envOpen n) (g.led.set n (some .env)) g.insts rfl
    have hc : (monitor (Mon.init envOpen) g.obs).1.cell n = .free := by rw [mon.cell]; simp [cellOf, hfree]
    refine ⟨?_, ?_, ?_, ?_⟩
    · rw [ho, monitor_append]; simp only [Mon.step]; rw [mon.cell, cellOf_set]; simp [cellOf]
    · rw [ho, monitor_append]; simp only [Mon.step, List.all_cons, hc]; simpa [Verdict.isOk] using mon.ok
    · rw [ho, List.foldl_append]; simpa [onceStep] using mon.once
    · rw [ho, List.foldl_append]; intro fd h
      simp only [List.foldl_cons, List.foldl_nil, onceStep] at h
      by_cases hx : fd = n
      · subst hx; simp [cellOf, Ledger.set]
      · have := mon.flag fd h; simpa [cellOf, Ledger.set, hx] using this
  | envClose n =>
    simp only [gstep] at hs; split at hs <;> simp at hs; subst hs
    rename_i henv
    have ho := obs_cons_some g (.envClose n) (.envClose n) (g.led.set n none) g.insts rfl
    have hc : (monitor (Mon.init envOpen) g.obs).1.cell n = .env := by rw [mon.cell]; simp [cellOf, henv]
    refine ⟨?_, ?_, ?_, ?_⟩
    · rw [ho, monitor_append]; simp only [Mon.step]; rw [mon.cell, cellOf_set]; simp [cellOf]
    · rw [ho, monitor_append]; simp only [Mon.step, List.all_cons, hc]; simpa [Verdict.isOk] using mon.ok
    · rw [ho, List.foldl_append]; simpa [onceStep] using mon.once
    · rw [ho, List.foldl_append]; intro fd h
      simp only [List.foldl_cons, List.foldl_nil, onceStep] at h
      by_cases hx : fd = n
      · subst hx; simp [cellOf, Ledger.set]
      · have := mon.flag fd h; simpa [cellOf, Ledger.set, hx] using this
  | step i n b =>
    simp only [gstep] at hs
    split at hs
    · simp at hs
    · simp at hs
    · -- opn
      rename_i tag k hi
      split at hs <;> simp at hs; subst hs
      rename_i hcond
      have ho := obs_cons_some g (.npOpen n i tag) (.npOpen n) (g.led.set n (some (.np i tag))) (g.insts.set i (k n)) rfl
      have hc : (monitor (Mon.init envOpen) g.obs).1.cell n = .free := by rw [mon.cell]; simp [cellOf, hcond.2]
      refine ⟨?_, ?_, ?_, ?_⟩
      · rw [ho, monitor_append]; simp only [Mon.step]; rw [mon.cell, cellOf_set]; simp [cellOf]
      · rw [ho, monitor_append]; simp only [Mon.step, List.all_cons, hc]; simpa [Verdict.isOk] using mon.ok
      · rw [ho, List.foldl_append]; simpa [onceStep] using mon.once
      · rw [ho, List.foldl_append]; intro fd h
        simp only [List.foldl_cons, List.foldl_nil, onceStep] at h
        by_cases hx : fd = n
        · subst hx; simp [upd] at h
        · simp [upd, hx] at h; have := mon.flag fd h; simpa [cellOf, Ledger.set, hx] using this
    · -- adopt
      rename_i fd tag k hi
      split at hs <;> simp at hs; subst hs
      rename_i hcond
      have ho := obs_cons_some g (.npAdopt fd i tag) (.npOpen fd) (g.led.set fd (some (.np i tag))) (g.insts.set i k) rfl
      have hc : (monitor (Mon.init envOpen) g.obs).1.cell fd = .env := by rw [mon.cell]; simp [cellOf, hcond.2]
      refine ⟨?_, ?_, ?_, ?_⟩
      · rw [ho, monitor_append]; simp only [Mon.step]; rw [mon.cell, cellOf_set]; simp [cellOf]
      · rw [ho, monitor_append]; simp only [Mon.step, List.all_cons, hc]; simpa [Verdict.isOk] using mon.ok
      · rw [ho, List.foldl_append]; simpa [onceStep] using mon.once
      · rw [ho, List.foldl_append]; intro fd' h
        simp only [List.foldl_cons, List.foldl_nil, onceStep] at h
        by_cases hx : fd' = fd
        · subst hx; simp [upd] at h
        · simp [upd, hx] at h; have := mon.flag fd' h; simpa [cellOf, Ledger.set, hx] using this
    · -- rel
      rename_i fd tag k hi
      simp at hs; subst hs
      have hw := inv.progs i _ hi
      simp only [wp] at hw
      have hown : g.led fd = some (.np i tag) := ownOf_eq_some.1 hw.1
      have ho := obs_cons_some g (.npRel fd i tag (g.led fd)) (.npRel fd)
        (if g.led fd = some (.np i tag) then g.led.set fd (some .env) else g.led) (g.insts.set i k) rfl
      have hc : (monitor (Mon.init envOpen) g.obs).1.cell fd = .np := by rw [mon.cell]; simp [cellOf, hown]
      refine ⟨?_, ?_, ?_, ?_⟩
      · rw [ho, monitor_append]; simp only [Mon.step, hc, if_true, hown]; rw [mon.cell, cellOf_set]; simp [cellOf]
      · rw [ho, monitor_append]; simp only [Mon.step, List.all_cons, hc]; simpa [Verdict.isOk] using mon.ok
      · rw [ho, List.foldl_append]; simpa [onceStep] using mon.once
      · rw [ho, List.foldl_append]; intro fd' h
        simp only [List.foldl_cons, List.foldl_nil, onceStep] at h
        simp only [hown, if_true]
        by_cases hx : fd' = fd
        · subst hx; simp [cellOf, Ledger.set]
        · have := mon.flag fd' h; simpa [cellOf, Ledger.set, hx] using this
    · -- cls
      rename_i fd tag site k hi
      simp at hs; subst hs
      have hw := inv.progs i _ hi
      simp only [wp] at hw
      have hown : g.led fd = some (.np i tag) := ownOf_eq_some.1 hw.1
      have ho := obs_cons_some g (.npClose fd i tag site (g.led fd)) (.npClose fd) (g.led.set fd none) (g.insts.set i k) rfl
      have hc : (monitor (Mon.init envOpen) g.obs).1.cell fd = .np := by rw [mon.cell]; simp [cellOf, hown]
      have hfl : (g.obs.foldl onceStep (fun _ => false, true)).1 fd = false := by
        cases h : (g.obs.foldl onceStep (fun _ => false, true)).1 fd
        · rfl
        · exact absurd (by simp [cellOf, hown]) (mon.flag fd h)
      refine ⟨?_, ?_, ?_, ?_⟩
      · rw [ho, monitor_append]; simp only [Mon.step]; rw [mon.cell, cellOf_set]; simp [cellOf]
      · rw [ho, monitor_append]; simp only [Mon.step, List.all_cons, hc]; simpa [Verdict.isOk] using mon.ok
      · rw [ho, List.foldl_append]; simp [onceStep, hfl]; exact mon.once
      · rw [ho, List.foldl_append]; intro fd' h
        simp only [List.foldl_cons, List.foldl_nil, onceStep] at h
        by_cases hx : fd' = fd
        · subst hx; simp [cellOf, Ledger.set]
        · simp [upd, hx] at h; have := mon.flag fd' h; simpa [cellOf, Ledger.set, hx] using this
    · -- at
      rename_i site k hi
      simp at hs; subst hs
      exact MonInv_of_obs_eq envOpen g _ (obs_cons_none g _ _ _ rfl) rfl mon
    · -- choose
      rename_i l k hi
      split at hs <;> simp at hs; subst hs
      exact MonInv_of_obs_eq envOpen g _ (obs_cons_none g _ _ _ rfl) rfl mon

theorem Inv_run (A P envOpen) (ms : List Move) : ∀ (g g' : G), GInv A P g → MonInv envOpen g → MovesOK A P ms →
    run A g ms = some g' → GInv A P g' ∧ MonInv envOpen g' := by
  induction ms with
  | nil => intro g g' inv mon _ h; simp [run] at h; subst h; exact ⟨inv, mon⟩
  | cons mv ms ih =>
    intro g g' inv mon hok h
    simp only [run, List.foldlM_cons] at h
    cases hs : gstep A g mv with
    | none => simp [hs] at h
    | some g1 =>
      simp [hs] at h
      apply ih g1 g' (GInv_step A P g g1 mv inv (fun p hp => hok p (by simp [hp])) hs)
        (MonInv_step A P envOpen g g1 mv inv mon hs) (fun p hp => hok p (by simp [hp]))
      simpa [run] using h

/-! ## what `onceOK` means, without the fold -/

theorem onceFold_false (os : List Obs) : ∀ cl, (os.foldl onceStep (cl, false)).2 = false := by
  induction os with
  | nil => intro cl; rfl
  | cons o os ih => intro cl; cases o <;> simp [onceStep, ih]

theorem onceFold_spec (os : List Obs) : ∀ cl : Fd → Bool, (os.foldl onceStep (cl, true)).2 = true →
    (∀ (j : Nat) (fd : Fd), os[j]? = some (Obs.npClose fd) → cl fd = true →
      ∃ k, k < j ∧ os[k]? = some (Obs.npOpen fd)) ∧
    (∀ (i j : Nat) (fd : Fd), i < j → os[i]? = some (Obs.npClose fd) → os[j]? = some (Obs.npClose fd) →
      ∃ k, i < k ∧ k < j ∧ os[k]? = some (Obs.npOpen fd)) := by
  induction os with
  | nil => intro cl _; exact ⟨fun j fd h => by simp at h, fun i j fd _ h => by simp at h⟩
  | cons o os ih =>
    intro cl h
    -- the generic shift of the two conclusions from the tail to the whole list
    have shiftB : ∀ cl', (os.foldl onceStep (cl', true)).2 = true →
        ∀ i j fd, i + 1 < j → (o :: os)[i + 1]? = some (.npClose fd) → (o :: os)[j]? = some (.npClose fd) →
        ∃ k, i + 1 < k ∧ k < j ∧ (o :: os)[k]? = some (.npOpen fd) := by
      intro cl' h' i j fd hij hi hj
      cases j with
      | zero => omega
      | succ j' =>
        obtain ⟨k, h1, h2, h3⟩ := (ih cl' h').2 i j' fd (by omega) (by simpa using hi) (by simpa using hj)
        exact ⟨k + 1, by omega, by omega, by simpa using h3⟩
    cases o with
    | npClose f =>
      simp only [List.foldl_cons, onceStep] at h
      have hcf : cl f = false := by
        cases hc : cl f
        · rfl
        · rw [hc] at h; simp [onceFold_false] at h
      rw [hcf] at h; simp at h
      have IH := ih _ h
      refine ⟨?_, ?_⟩
      · intro j fd hj hcl
        cases j with
        | zero => simp at hj; subst hj; rw [hcf] at hcl; simp at hcl
        | succ j' =>
          obtain ⟨k, h1, h2⟩ := IH.1 j' fd (by simpa using hj) (by by_cases e : fd = f <;> simp [upd, e, hcl])
          exact ⟨k + 1, by omega, by simpa using h2⟩
      · intro i j fd hij hi hj
        cases i with
        | zero =>
          simp at hi; subst hi
          cases j with
          | zero => omega
          | succ j' =>
            obtain ⟨k, h1, h2⟩ := IH.1 j' f (by simpa using hj) (by simp [upd])
            exact ⟨k + 1, by omega, by omega, by simpa using h2⟩
        | succ i' => exact shiftB _ h i' j fd hij hi hj
    | npOpen f =>
      simp only [List.foldl_cons, onceStep] at h
      have IH := ih _ h
      refine ⟨?_, ?_⟩
      · intro j fd hj hcl
        cases j with
        | zero => simp at hj
        | succ j' =>
          by_cases e : fd = f
          · subst e; exact ⟨0, by omega, by simp⟩
          · obtain ⟨k, h1, h2⟩ := IH.1 j' fd (by simpa using hj) (by simp [upd, e, hcl])
            exact ⟨k + 1, by omega, by simpa using h2⟩
      · intro i j fd hij hi hj
        cases i with
        | zero => simp at hi
        | succ i' => exact shiftB _ h i' j fd hij hi hj
    | npRel f | envOpen f | envClose f =>
      simp only [List.foldl_cons, onceStep] at h
      have IH := ih _ h
      refine ⟨?_, ?_⟩
      · intro j fd hj hcl
        cases j with
        | zero => simp at hj
        | succ j' =>
          obtain ⟨k, h1, h2⟩ := IH.1 j' fd (by simpa using hj) hcl
          exact ⟨k + 1, by omega, by simpa using h2⟩
      · intro i j fd hij hi hj
        cases i with
        | zero => simp at hi
        | succ i' => exact shiftB _ h i' j fd hij hi hj

/-- `onceOK`: between two closes of the same number by netpoll there is an open of that number by netpoll. -/
theorem onceOK_spec (os : List Obs) (h : onceOK os = true) (i j : Nat) (fd : Fd) (hij : i < j)
    (hi : os[i]? = some (.npClose fd)) (hj : os[j]? = some (.npClose fd)) :
    ∃ k, i < k ∧ k < j ∧ os[k]? = some (.npOpen fd) :=
  (onceFold_spec os _ h).2 i j fd hij hi hj

/-! ## vocabulary of the property statements and the concrete runs used as examples / witnesses -/

/-- the moves start only lifecycles of the family `Kind` (any number of them, any parameters) -/
def FromKinds (ms : List Move) : Prop := ∀ p, Move.spawn p ∈ ms → ∃ k : Kind, p = k.prog

/-- what a run looks like from outside: (all lifecycles complete?, observable trace) -/
def outcome (A : Br → Option Bool) (envOpen : Fd → Bool) (ms : List Move) : Option (Bool × List Obs) :=
  (run A (G.init envOpen) ms).map fun g => (g.allDone, g.obs)

/-- A listener created by `CreateListener` (net.Listen → 5, duplicate → 6), closed twice (once through
server.Close), while another goroutine is given number 6 right after netpoll closed it and number 9 was open
elsewhere all along; in parallel an accepted connection (7) that is closed by the poller and then by the user.
All hypotheses of the three theorems hold and 3 closes happen. -/
def demoMoves : List Move :=
  [ .spawn (Kind.createListener 2).prog,
    .step 0 0 false, .step 0 0 true, .step 0 5 true,            -- not udp, Listen ok, lfd = 5
    .step 0 0 true, .step 0 6 true, .step 0 0 true,             -- File() ok, dup = 6, SetNonblock ok
    .spawn (Kind.accepted 2).prog,
    .step 1 0 true, .step 1 7 true,                             -- accept ok → 7
    .step 1 0 false, .step 1 0 true,                            -- OnPrepare does not close, register ok
    .step 0 0 true, .step 0 0 true, .step 0 0 true,             -- ln: another Close, via server.Close, (visit)
    .step 0 0 true,                                             -- close(6) through the os.File
    .envOpen 6,                                                 -- adversary reuses 6
    .step 0 0 true,                                             -- close(5) through the wrapped listener
    .step 1 0 true, .step 1 0 false, .step 1 0 false,           -- conn: an action, not Detach, not via server
    .step 1 0 true, .step 1 0 true,                             -- (visit finalizer) close(7)
    .step 1 0 true, .step 1 0 false, .step 1 0 false, .step 1 0 true,  -- second run of the callbacks: no close
    .step 0 0 true, .step 0 0 false,                            -- ln: user's own Close again: nothing to close
    .envClose 6, .envClose 9 ]

/-- Old code: `syscall.Close(ln.fd)` then `ln.file.Close()`.  Another goroutine is given the number in between:
the second close destroys that goroutine's descriptor. -/
def d15Moves : List Move :=
  [ .spawn (lifeCreateListenerOld 1),
    .step 0 0 false, .step 0 0 true, .step 0 5 true, .step 0 0 true, .step 0 6 true, .step 0 0 true,
    .step 0 0 true, .step 0 0 false,
    .step 0 0 true,                                             -- close(6) via the raw number
    .envOpen 6,
    .step 0 0 true ]                                            -- close(6) via ln.file: not netpoll's any more

end Netpoll.Fd
