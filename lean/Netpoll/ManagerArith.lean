import Netpoll.Manager
/-!
Arithmetic of `roundRobinLB.Pick` (helper lemmas for `C18_round_robin`).

`rrPicks acc n n k` below the sign bit is `k` consecutive residues `(acc+1+t) % n`; the number of
`t < k` hitting residue `i` is `⌊(a+k+c)/n⌋ - ⌊(a+c)/n⌋` with `a = acc+1`, `c = n-1-i`, which lies in
`{⌊k/n⌋, ⌊k/n⌋+1}` for every `i`.
-/
namespace Netpoll.Manager

/-- for `i < n`: `n ∣ m + (n - i)` exactly when `m ≡ i (mod n)` -/
theorem dvd_shift (n m i : Nat) (hi : i < n) : n ∣ m + (n - i) ↔ m % n = i := by
  have hm := Nat.div_add_mod m n
  have hr : m % n < n := Nat.mod_lt _ (by omega)
  have e : m + (n - i) = n * (m / n) + (m % n + (n - i)) := by omega
  rw [e, Nat.dvd_add_right (Nat.dvd_mul_right n (m / n))]
  constructor
  · rintro ⟨c, hc⟩
    rcases c with _ | _ | c
    · omega
    · omega
    · have : n * (c + 1 + 1) = n * c + n + n := by
        rw [Nat.mul_add, Nat.mul_add]; omega
      have h0 : 0 ≤ n * c := Nat.zero_le _
      omega
  · intro h
    exact ⟨1, by omega⟩

/-- number of `t < m` with `t % n = i` -/
theorem count_residue (n i m : Nat) (hi : i < n) :
    (List.range m).countP (fun t => t % n == i) = (m + (n - 1 - i)) / n := by
  induction m with
  | zero =>
    simp only [List.range_zero, List.countP_nil, Nat.zero_add]
    exact (Nat.div_eq_of_lt (by omega)).symm
  | succ m ih =>
    rw [List.range_succ, List.countP_append, ih]
    have e : m + 1 + (n - 1 - i) = (m + (n - 1 - i)) + 1 := by omega
    rw [e, Nat.succ_div]
    have e2 : m + (n - 1 - i) + 1 = m + (n - i) := by omega
    rw [e2]
    have hd := dvd_shift n m i hi
    by_cases h : m % n = i
    · simp [h, hd.mpr h]
    · have : ¬ n ∣ m + (n - i) := fun hdv => h (hd.mp hdv)
      simp [h, this]

/-- number of `t < k` with `(a + t) % n = i` -/
theorem count_window (n i a k : Nat) (hi : i < n) :
    (List.range k).countP (fun t => (a + t) % n == i) = (a + k + (n - 1 - i)) / n - (a + (n - 1 - i)) / n := by
  have h1 := count_residue n i (a + k) hi
  have h2 := count_residue n i a hi
  rw [List.range_add, List.countP_append, h2, List.countP_map] at h1
  have : ((fun t => t % n == i) ∘ fun x => a + x) = fun t => (a + t) % n == i := rfl
  rw [this] at h1
  omega

theorem window_bounds (n x k : Nat) (hn : 0 < n) : k / n ≤ (x + k) / n - x / n ∧ (x + k) / n - x / n ≤ k / n + 1 := by
  rw [Nat.add_div hn]
  generalize x / n = q1
  generalize k / n = q2
  split <;> omega

/-- per-residue counts over any window of consecutive naturals differ by at most one -/
theorem count_window_even (n i j a k : Nat) (hi : i < n) (hj : j < n) :
    (List.range k).countP (fun t => (a + t) % n == i) ≤ (List.range k).countP (fun t => (a + t) % n == j) + 1 := by
  rw [count_window n i a k hi, count_window n j a k hj]
  have hn : 0 < n := by omega
  have b1 := window_bounds n (a + (n - 1 - i)) k hn
  have b2 := window_bounds n (a + (n - 1 - j)) k hn
  have e1 : a + k + (n - 1 - i) = a + (n - 1 - i) + k := by omega
  have e2 : a + k + (n - 1 - j) = a + (n - 1 - j) + k := by omega
  rw [e1, e2]
  omega

/-- below the sign bit one round-robin pick is the residue of the incremented counter -/
theorem rrPick_small (acc n : Nat) (hn : 0 < n) (h : acc + 1 < two63) :
    rrPick acc n n = (acc + 1, some ((acc + 1) % n)) := by
  have h64 : acc + 1 < two64 := by unfold two63 at h; unfold two64; omega
  have hc : rrNext acc = acc + 1 := by unfold rrNext; exact Nat.mod_eq_of_lt h64
  unfold rrPick
  simp only [hc, rrIndex, goRem, toInt64, h, if_true]
  rw [if_neg (by omega)]
  have e : Int.tmod ((acc + 1 : Nat) : Int) (n : Int) = (((acc + 1) % n : Nat) : Int) := (Int.ofNat_tmod _ _).symm
  simp only [e]
  have hlt : (acc + 1) % n < n := Nat.mod_lt _ hn
  simp only [Int.toNat_natCast, hlt, if_true]
  rw [if_neg (by omega)]

theorem rrPicks_small (acc n k : Nat) (hn : 0 < n) (h : acc + k < two63) :
    rrPicks acc n n k = (List.range k).map (fun t => some ((acc + 1 + t) % n)) := by
  induction k generalizing acc with
  | zero => simp [rrPicks]
  | succ k ih =>
    have hp := rrPick_small acc n hn (by omega)
    simp only [rrPicks, hp]
    rw [ih (acc + 1) (by omega), List.range_succ_eq_map, List.map_cons, List.map_map]
    congr 1
    apply List.map_congr_left
    intro t _
    simp only [Function.comp]
    congr 2
    omega

theorem count_some_map (f : Nat → Nat) (l : List Nat) (i : Nat) :
    (l.map fun t => some (f t)).count (some i) = l.countP (fun t => f t == i) := by
  rw [List.count_eq_countP, List.countP_map]
  congr 1

/-! ### past the sign bit -/

/-- a counter value `c` in `[2^63, 2^64)` whose distance to 2^64 is not a multiple of `n` gives a negative slot index -/
theorem rrIndex_neg (c n : Nat) (hn : 0 < n) (h1 : two63 ≤ c) (h2 : c < two64) (hm : (two64 - c) % n ≠ 0) :
    ∃ i, rrIndex c n = some i ∧ i < 0 := by
  unfold rrIndex goRem toInt64
  rw [if_neg (by omega), if_neg (by omega)]
  refine ⟨_, rfl, ?_⟩
  have e : ((c : Int) - (two64 : Int)) = -(((two64 - c : Nat)) : Int) := by omega
  rw [e, Int.neg_tmod, ← Int.ofNat_tmod]
  have : 0 < (two64 - c) % n := Nat.pos_of_ne_zero hm
  omega

theorem rrPick_neg (acc n : Nat) (hn : 0 < n) (h1 : two63 ≤ acc + 1) (h2 : acc + 1 < two64)
    (hm : (two64 - (acc + 1)) % n ≠ 0) : (rrPick acc n n).2 = none := by
  have hc : rrNext acc = acc + 1 := by unfold rrNext; exact Nat.mod_eq_of_lt h2
  obtain ⟨i, hi, hneg⟩ := rrIndex_neg (acc + 1) n hn h1 h2 hm
  unfold rrPick
  simp only [hc, hi]
  rw [if_pos hneg]

/-- for every pool size `n ≥ 2` one of the two tickets 2^63, 2^63+1 makes `Pick` panic -/
theorem rrPick_sign (n : Nat) (hn : 2 ≤ n) :
    (rrPick (two63 - 1) n n).2 = none ∨ (rrPick two63 n n).2 = none := by
  by_cases h : (two64 - two63) % n = 0
  · right
    apply rrPick_neg two63 n (by omega) (by omega) (by decide)
    intro h'
    have e : two64 - two63 = (two64 - (two63 + 1)) + 1 := by decide
    have d1 : n ∣ two64 - two63 := Nat.dvd_of_mod_eq_zero h
    have d2 : n ∣ two64 - (two63 + 1) := Nat.dvd_of_mod_eq_zero h'
    rw [e] at d1
    have d3 : n ∣ 1 := (Nat.dvd_add_right d2).mp d1
    have := Nat.le_of_dvd (by omega) d3
    omega
  · left
    apply rrPick_neg (two63 - 1) n (by omega) (by decide) (by decide)
    have e : two64 - (two63 - 1 + 1) = two64 - two63 := by decide
    rw [e]; exact h
/-! ### counting pollers -/

/-- a duplicate-free list of naturals that is exactly `{0,…,m-1}` has length `m` -/
theorem cover_length (l : List Nat) (m : Nat) (nd : l.Nodup) (h : ∀ x, x ∈ l ↔ x < m) : l.length = m := by
  have hp : l.Perm (List.range m) :=
    (List.perm_ext_iff_of_nodup nd List.nodup_range).mpr (fun a => by rw [h a, List.mem_range])
  rw [hp.length_eq, List.length_range]

/-- two duplicate-free lists with the same members have the same length -/
theorem same_members_length (l₁ l₂ : List Nat) (n1 : l₁.Nodup) (n2 : l₂.Nodup) (h : ∀ x, x ∈ l₁ ↔ x ∈ l₂) :
    l₁.length = l₂.length :=
  ((List.perm_ext_iff_of_nodup n1 n2).mpr h).length_eq

end Netpoll.Manager
