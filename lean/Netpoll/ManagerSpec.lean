import Netpoll.Manager
/-!
# C18 as an executable oracle over observations of the real poller pool

The harness prints, after every call / scheduled step / phase, what it can see of the real `manager`:
status, numLoops, the slice (poller identities), the balancer's snapshot, the census of epoll
descriptors it did not own before the scenario (`live`), the pollers whose descriptors are gone
(`closed`), and at the end of a phase the pollers returned by `Pick` and those whose loop answered a
probe (`alive`).  These predicates are the property; `npdriver mgrspec` evaluates them on the
implementation's reply lines.  `Netpoll.Props.C18` proves that every reachable state of the model
satisfies them.
-/
namespace Netpoll.Manager

/-- a dump line -/
structure Obs where
  status : Nat
  numLoops : Nat
  polls : List Nat
  bal : Option Bal
  live : Nat
  closed : List Nat
  deriving Repr

/-- what must hold whenever the pool is initialised (status = 2) and no Pick is in flight:
exactly `numLoops` distinct pollers, none of them closed, no other poller left open, balancer in step -/
def Obs.sized (o : Obs) : Bool :=
  o.polls.length == o.numLoops && o.polls.Nodup && o.polls.all (fun id => !o.closed.contains id) &&
  o.live == o.numLoops && o.closed.Nodup &&
  (match o.bal with
   | none => false
   | some b => b.polls == o.polls && b.size == o.polls.length)

/-- what must hold whenever nobody is inside `Pick` – whatever the status, whatever happened before (injected
`openPoll` failures included): no poller is left behind.  The slice holds distinct pollers, none of them closed,
and the census of open pollers is exactly the slice: a poller that was opened and is in no slice has been closed. -/
def Obs.noStray (o : Obs) : Bool :=
  o.live == o.polls.length && o.polls.Nodup && o.polls.all (fun id => !o.closed.contains id) && o.closed.Nodup

/-- a returned poller: in the current slice at the reported index, not closed -/
def Obs.retOK (o : Obs) (id : Nat) (idx : Int) : Bool :=
  decide (0 ≤ idx) && o.polls[idx.toNat]? == some id && !o.closed.contains id

/-- per-slot counts of a list of slot indices over `n` slots differ by at most one -/
def evenCounts (n : Nat) (idxs : List Nat) : Bool :=
  (List.range n).all fun i => (List.range n).all fun j => idxs.count i ≤ idxs.count j + 1

/-- end of a phase: nobody panicked, every returned poller is in the slice and its loop answered,
every poller of the slice answered, closed ones did not, the pool is sized, round-robin is even -/
def phaseOK (o : Obs) (panics : Nat) (rets : List (Nat × Int)) (alive : List Nat) : Bool :=
  panics == 0 && o.status == 2 && o.sized &&
  rets.all (fun r => o.retOK r.1 r.2 && alive.contains r.1) &&
  o.polls.all (fun id => alive.contains id) &&
  o.closed.all (fun id => !alive.contains id) &&
  (match o.bal with
   | some b => b.kind != .rr || evenCounts o.polls.length (rets.map fun r => r.2.toNat)
   | none => false)

/-- end of a phase in which `inits` of the callers went through `netpoll.Initialize()` – one `Pick` whose result is
dropped – and `picks` called `Pick`: as `phaseOK` (nobody panicked, every `Pick` returned an open member of the slice whose
loop answered, the pool is sized, no other poller is open), except that evenness is not judged: the dropped picks took
round-robin slots the harness cannot see.  Every `Pick` returned: `rets` has `picks` entries. -/
def phaseInitOK (o : Obs) (panics picks : Nat) (rets : List (Nat × Int)) (alive : List Nat) : Bool :=
  panics == 0 && o.status == 2 && o.sized && rets.length == picks &&
  rets.all (fun r => o.retOK r.1 r.2 && alive.contains r.1) &&
  o.polls.all (fun id => alive.contains id) &&
  o.closed.all (fun id => !alive.contains id) && o.bal.isSome

/-- the observation the harness would make of a model state -/
def S.obs (s : S) : Obs :=
  { status := s.status, numLoops := s.numLoops, polls := s.polls, bal := s.bal,
    live := s.opened - s.closed.length, closed := s.closed }

/-- pollers whose loop is running according to the ghost logs -/
def S.alive (s : S) : List Nat := s.started.filter fun id => !s.closed.contains id

end Netpoll.Manager
