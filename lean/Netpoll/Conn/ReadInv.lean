import Netpoll.Conn.Read
/-
Inductive invariant of the reader model `Netpoll.Conn.Read` (property C07).  The preservation lemmas (one per
action / reader program counter) are generated into ReadInvLemmas.lean by lib/gen_rf_lemmas.py; the property
theorems are in Netpoll/Props/C07.lean.
-/
namespace Netpoll.Conn.Read

/-- the reader is inside a timed call after the timer has been armed -/
def timedArmed : RPc → Bool
  | .chkLen _ true | .chkClosing _ true | .reChk _ true _ | .wait _ true | .ret _ _ _ => true
  | _ => false

/-- the `n` of the call in progress, while `waitReadSize` is published -/
def published : RPc → Option Nat
  | .arm n | .chkLen n _ | .chkClosing n _ | .reChk n _ _ | .wait n _ | .dblChk n | .ret n _ _ | .unstore n _ _ => some n
  | _ => none

/-- class of a completed call `(n, result, Len() at the decision, peerClosed, userClosed at return)` -/
def ResOK (x : Nat × Result × Nat × Bool × Bool) : Prop :=
  (x.2.1 = .ok → x.2.2.1 ≥ x.1) ∧ (x.2.1 = .timeout → x.2.2.1 < x.1) ∧
  (x.2.1 = .errEOF → x.2.2.2.1 = true) ∧ (x.2.1 = .errClosed → x.2.2.2.2 = true)

structure Good (s : S) : Prop where
  -- timer discipline
  tmr1 : ¬ (s.timerRunning = true ∧ s.tick = true)
  tmr2 : timedArmed s.r = true → (s.timerRunning = true ∨ s.tick = true)
  tmr3 : timedArmed s.r = false → s.timerRunning = false ∧ s.tick = false
  -- waitReadSize is n exactly while a slow-path call is in progress
  pub1 : ∀ n, published s.r = some n → s.waitSize = n ∧ n > 0
  pub2 : published s.r = none → s.waitSize = 0
  pos1 : ∀ n t, (s.r = .fast n t ∨ s.r = .store n t) → n > 0
  pos2 : ∀ n, s.r = .fastX n → n > 0
  pos3 : ∀ n seen, s.r = .storeX n seen → seen < n ∧ n > 0
  -- the poller's view: the length it saw is never below the current length (only the idle reader consumes)
  plen : (s.p = .loadWait ∨ s.p = .send) → s.lenSeen ≥ s.inLen
  -- closing / tokens
  cl0 : s.closing ≤ 2
  cl1 : s.c = .sendClosed → s.userClosed = true
  cl2 : s.c = .sendEOF → s.peerClosed = true
  cl3 : s.slot = some .errClosed → s.userClosed = true
  cl4 : s.slot = some .errEOF → s.peerClosed = true
  cl5 : s.closing = 2 → s.peerClosed = true
  cl6 : s.closing = 1 → s.userClosed = true
  cl7 : s.peerClosed = true → s.p = .idle ∧ s.closing ≠ 0
  cl8 : s.userClosed = true → s.closing ≠ 0
  -- NO LOST WAKE-UP: from the moment the reader has seen "not enough" until it parks, and while it is parked,
  -- enough data means a delivery is still in progress (it will trigger) or the slot holds a token
  lw1 : ∀ n t, (s.r = .chkClosing n t ∨ s.r = .wait n t) → s.slot = none → s.inLen ≥ n → s.p ≠ .idle
  lw2 : ∀ n t, s.r = .wait n t → s.slot = none → s.closing ≠ 0 → s.c ≠ .none
  -- the re-check after closing ≠ 0 was seen / a closer's error was received knows who closed
  rk : ∀ n t pr, s.r = .reChk n t pr → (pr = true → s.peerClosed = true) ∧ (pr = false → s.userClosed = true)
  -- a close error is decided at the re-check only: fewer than n bytes were buffered there (fix D20)
  ef2 : ∀ n res seen, (s.r = .ret n res seen ∨ s.r = .unstore n res seen) → (res = .errEOF ∨ res = .errClosed) → seen < n
  ef3 : ∀ x ∈ s.results, (x.2.1 = .errEOF ∨ x.2.1 = .errClosed) → x.2.2.1 < x.1
  -- every completed call has the right class
  res : ∀ x ∈ s.results, ResOK x
  -- pending results
  pend : ∀ n res seen, (s.r = .ret n res seen ∨ s.r = .unstore n res seen) →
      (res = .ok → seen ≥ n) ∧ (res = .timeout → seen < n) ∧ (res = .errEOF → s.peerClosed = true) ∧ (res = .errClosed → s.userClosed = true)

end Netpoll.Conn.Read
