/-
  Netpoll.Conn.LifeSpec – the properties C05 / C06 / C09 as an executable oracle over the OBSERVABLE events of one
  run of the implementation (ghost events written by the harness callbacks and the fake poller, close(2) points,
  observed values of `closing`), independent of the interleaving model.  Driver.Life feeds it every trace.
  Core Lean only.
-/
namespace Netpoll.Conn.LifeSpec

/-- scenario configuration -/
structure Cfg where
  server : Bool
  hasOC : Bool
  hasOD : Bool
  hasOR : Bool       -- an OnRequest handler exists (set from the start or by SetOnRequest)
  ncb : Nat          -- user close callbacks, registered 1..ncb in this order
  deriving Repr

/-- observable events, in the order they happened -/
inductive Ev where
  | closecb (i unread : Nat) (byHup : Bool)  -- user close callback i ran (in the hang-up goroutine?); `unread` = Len() then
  | hStart (len : Nat) | hEnd | hPanic
  | ocStart | ocEnd | ocPanic
  | odRun (byHup : Bool)
  | prepStart | prepEnd
  | fdClose (byDetach : Bool)   -- close(2) of the descriptor; `byDetach`: issued by the goroutine inside Detach()
  | slotFree | epollAdd | epollDel
  | closingSeen (v : Nat)      -- an actor observed `closing = v` (v = 9: non-zero, value unknown)
  | userClose                  -- a user Close/Detach won closeBy, or forced `closing := user`
  | detachWon                  -- the Detach call won closeBy
  | detachCall
  | hupWon                     -- the hang-up goroutine won closeBy
  | deliver                    -- the poller started to handle an event of this connection
  | setReq                     -- SetOnRequest stored the handler (`onRequestCallback.Store`, a schedule point of its own)
  deriving Repr, DecidableEq

/-- final observation -/
structure Summary where
  quiescent : Bool   -- every actor finished or waits for the environment
  status : String
  fdOpen : Bool
  unread : Nat
  closing : Nat
  deriving Repr

structure Acc where
  cbCount : List Nat := []      -- closecb indices in order
  firstCbSeen : Bool := false
  hActive : Nat := 0
  ocStarts : Nat := 0
  ocEnds : Nat := 0
  ocPanics : Nat := 0
  hPanics : Nat := 0
  hStarts : Nat := 0
  odRuns : Nat := 0
  prepEnded : Bool := false
  prepStarted : Bool := false
  fdCloses : Nat := 0
  slotFrees : Nat := 0
  epollDels : Nat := 0
  epollAdds : Nat := 0
  closedSeen : Bool := false
  userClosed : Bool := false
  detachWon : Bool := false
  detachCalled : Bool := false
  hupWon : Bool := false
  setReq : Bool := false
  orAtHup : Bool := false       -- an OnRequest handler was set when the hang-up goroutine won closeBy
  bad : List String := []

def Acc.fail (a : Acc) (msg : String) : Acc := { a with bad := a.bad ++ [msg] }

def count (l : List Nat) (i : Nat) : Nat := (l.filter (· == i)).length

/-- one event -/
def feed (cfg : Cfg) (a : Acc) : Ev → Acc
  | .closecb i unread byHup =>
      let a1 := if a.hActive > 0 then a.fail "C05 close callback while a request handler is executing" else a
      let a2 := if count a.cbCount i ≥ 1 then a1.fail s!"C05 close callback {i} ran more than once" else a1
      -- LIFO: within one execution of the list the indices descend; the first of an execution is ncb
      let a3 := match a.cbCount.getLast? with
        | none => if i ≠ cfg.ncb then a2.fail s!"C05 close callbacks not in reverse registration order (first is {i})" else a2
        | some j => if count a.cbCount i = 0 ∧ i + 1 ≠ j then a2.fail s!"C05 close callbacks not in reverse registration order ({j} then {i})" else a2
      -- C06: peer closed, handler set, nobody closed locally, no panic: everything must have been offered and consumed
      let hasOR := cfg.hasOR ∧ (cfg.server ∨ a.setReq)
      let a4 := if !a.firstCbSeen ∧ unread > 0 ∧ hasOR ∧ !a.userClosed ∧ a.hupWon ∧ a.hPanics + a.ocPanics = 0
                   ∧ !(cfg.hasOC ∧ a.ocStarts = 0)
                then a3.fail s!"C06 close callbacks started with {unread} bytes never offered to OnRequest (peer close)" else a3
      -- C09: OnDisconnect before the close callbacks when it is owed.  Known finding D17 (known_findings.jsonl): when
      -- ANOTHER goroutine (a handler task, a user Close) starts the callbacks while the hang-up goroutine is still
      -- between closeBy(poller) and onDisconnect(), OnDisconnect comes late; that pattern is steered around here
      -- (the exactly-once obligation at quiescence below still applies to it).
      let a5 := if !a.firstCbSeen ∧ byHup ∧ a.hupWon ∧ cfg.hasOD ∧ a.odRuns = 0 ∧ (!cfg.hasOC ∨ a.ocEnds > 0)
                then a4.fail "C09 close callbacks started before OnDisconnect (peer closed, OnConnect finished or absent)" else a4
      { a5 with cbCount := a.cbCount ++ [i], firstCbSeen := true }
  | .hStart _ =>
      let a1 := if a.hActive > 0 then a.fail "C06 two OnRequest invocations in progress" else a
      let a2 := if cfg.hasOC ∧ a.ocEnds + a.ocPanics = 0 then a1.fail "C09 OnRequest started before OnConnect finished" else a1
      let a3 := if a.firstCbSeen then a2.fail "C09 OnRequest started after the close callbacks" else a2
      { a3 with hActive := a.hActive + 1, hStarts := a.hStarts + 1 }
  | .hEnd => { a with hActive := a.hActive - 1 }
  | .hPanic => { a with hActive := a.hActive - 1, hPanics := a.hPanics + 1 }
  | .ocStart =>
      let a1 := if a.ocStarts > 0 then a.fail "C09 OnConnect ran twice" else a
      let a2 := if a.firstCbSeen then a1.fail "C09 OnConnect started after the close callbacks" else a1
      { a2 with ocStarts := a.ocStarts + 1 }
  | .ocEnd => { a with ocEnds := a.ocEnds + 1 }
  | .ocPanic => { a with ocPanics := a.ocPanics + 1 }
  | .odRun byHup =>
      let a1 := if a.odRuns > 0 then a.fail "C09 OnDisconnect ran twice" else a
      let a2 := if cfg.hasOC ∧ a.ocEnds = 0 then a1.fail "C09 OnDisconnect ran before OnConnect finished" else a1
      let a3 := if a.firstCbSeen ∧ !byHup then a2.fail "C09 OnDisconnect started after the close callbacks" else a2
      { a3 with odRuns := a.odRuns + 1 }
  | .prepStart => { a with prepStarted := true }
  | .prepEnd => { a with prepEnded := true }
  | .fdClose byDetach =>
      let a1 := if a.fdCloses ≥ 1 then a.fail "C05 descriptor closed twice" else a
      let a2 := if a.detachWon then a1.fail "C05 descriptor closed although Detach closed the connection" else a1
      -- whoever won closeBy: when the teardown runs INSIDE the Detach call (after its `detaching` store, in program order)
      -- the descriptor now belongs to the caller and must stay open
      let a2 := if byDetach then a2.fail "C05 descriptor closed by the teardown running inside Detach()" else a2
      { a2 with fdCloses := a.fdCloses + 1 }
  | .slotFree =>
      let a1 := if a.slotFrees ≥ 1 then a.fail "C05 poller slot freed twice" else a
      { a1 with slotFrees := a.slotFrees + 1 }
  | .epollAdd =>
      let a1 := if cfg.server ∧ !a.prepEnded then a.fail "C09 registered with the poller before OnPrepare returned" else a
      { a1 with epollAdds := a.epollAdds + 1 }
  | .epollDel =>
      let a1 := if a.epollDels ≥ 1 then a.fail "C05 poller registration removed twice" else a
      { a1 with epollDels := a.epollDels + 1 }
  | .closingSeen v =>
      if v = 0 then (if a.closedSeen then a.fail "C05 IsActive true again after it was false" else a)
      else { a with closedSeen := true }
  | .userClose => { a with userClosed := true }
  | .detachWon => { a with detachWon := true }
  | .detachCall => { a with detachCalled := true }
  | .hupWon => { a with hupWon := true, orAtHup := cfg.hasOR ∧ (cfg.server ∨ a.setReq) }
  | .deliver => if cfg.server ∧ !a.prepEnded then a.fail "C09 event delivered before OnPrepare returned" else a
  | .setReq => { a with setReq := true }

/-- obligations at the end of a run (only when the run is quiescent) -/
def finish (cfg : Cfg) (a : Acc) (sm : Summary) : Acc :=
  if !sm.quiescent then
    a.fail s!"run did not reach quiescence: {sm.status}"
  else
    let hasOR := cfg.hasOR ∧ (cfg.server ∨ a.setReq)
    -- SetOnRequest racing with / after the hang-up: the hang-up goroutine may or may not have seen the handler
    let owed := a.userClosed ∨ (a.hupWon ∧ (cfg.hasOC ∨ a.orAtHup))
    let ran := (List.range cfg.ncb).all (fun k => count a.cbCount (k + 1) == 1)
    let a1 := if owed ∧ !ran then a.fail "C05 connection closed but the close callbacks did not run exactly once" else a
    let a2 := if owed ∧ a.slotFrees ≠ 1 then a1.fail "C05 connection closed but the poller slot was not freed exactly once" else a1
    let a3 := if owed ∧ !a.detachCalled ∧ a.fdCloses ≠ 1 then a2.fail "C05 connection closed but the descriptor was not closed exactly once" else a2
    -- a connection that was registered with the poller and has been torn down has been deregistered exactly once
    -- (closing the descriptor alone does not do it for a detached connection, whose descriptor stays open)
    let a3 := if owed ∧ a.epollAdds ≥ 1 ∧ a.epollDels ≠ 1 then a3.fail "C05 connection closed but its poller registration was not released exactly once" else a3
    let a4 := if sm.closing = 0 ∧ sm.unread > 0 ∧ hasOR ∧ a.hActive = 0 ∧ !(cfg.hasOC ∧ a.ocEnds = 0)
              then a3.fail s!"C06 {sm.unread} bytes buffered at quiescence with a handler set, nobody processing" else a3
    -- the same obligation after a PEER close ("a connection ... that the user has not closed"; "when the peer closes,
    -- buffered input is still offered to the handler"): the hang-up closed the connection (`closing = poller`), no user
    -- Close/Detach happened, a handler is set and no invocation is in progress or will ever start (quiescent: the
    -- operator is detached, no further network event can come) - e.g. a client whose peer sent and closed before
    -- SetOnRequest: the SetOnRequest kick is the only thing that can still offer the bytes.  Exempt as in the close
    -- callback clause above: a panicking callback (it was offered the input and broke its contract), D7 (OnConnect set
    -- and not finished).
    let a4 := if sm.closing = 2 ∧ !a.userClosed ∧ a.hupWon ∧ sm.unread > 0 ∧ hasOR ∧ a.hActive = 0
                 ∧ a.hPanics + a.ocPanics = 0 ∧ !(cfg.hasOC ∧ a.ocEnds = 0)
              then a4.fail s!"C06 {sm.unread} bytes buffered at quiescence on a connection closed by the peer (not by the user) with a handler set, never offered to OnRequest" else a4
    let a5 := if a.hupWon ∧ cfg.hasOD ∧ (!cfg.hasOC ∨ a.ocEnds > 0) ∧ a.odRuns ≠ 1
              then a4.fail "C09 peer closed after OnConnect finished (or none set) but OnDisconnect did not run exactly once" else a4
    a5

/-- the oracle: violated clauses of C05/C06/C09 on one run (empty = conforms to the spec) -/
def check (cfg : Cfg) (evs : List Ev) (sm : Summary) : List String :=
  (finish cfg (evs.foldl (feed cfg) {}) sm).bad

end Netpoll.Conn.LifeSpec
