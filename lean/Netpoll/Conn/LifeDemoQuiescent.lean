/-
  Netpoll.Conn.LifeDemoQuiescent – the quiescence theorems are not vacuous: the final state of `LifeDemos.demoRun`
  (accept, one request handled, peer close, teardown by the hang-up goroutine) is reachable, QUIESCENT (no internal
  action enabled) and the teardown was owed.
-/
import Netpoll.Conn.Life
import Netpoll.Conn.LifeDemos
namespace Netpoll.Conn.Life
open Netpoll.Conn.LifeDemos

def demoFinal : S := (run (init true false false true) demoRun).getD (init true false false true)

theorem demoFinal_run : run (init true false false true) demoRun = some demoFinal := by decide

theorem demoFinal_pcs :
    demoFinal.cU1 = 0 ∧ demoFinal.cU2 = 0 ∧ demoFinal.cU3 = 0 ∧ demoFinal.cU4 = 0 ∧ demoFinal.cU5 = 0 ∧ demoFinal.cU6 = 0 ∧
    demoFinal.dPc = 0 ∧ demoFinal.cbD = 0 ∧ demoFinal.cbCall = 0 ∧ demoFinal.cbIn = 0 ∧ demoFinal.cbF1 = 0 ∧ demoFinal.cbF1b = 0 ∧
    demoFinal.cbF2 = 0 ∧ demoFinal.cbF2b = 0 ∧ demoFinal.cbF3 = 0 ∧ demoFinal.cbF3b = 0 ∧ demoFinal.cbF3c = 0 ∧ demoFinal.cbF4 = 0 ∧
    demoFinal.cbF4n = 0 ∧ demoFinal.cbF4b = 0 ∧ demoFinal.cbFx = 0 ∧ demoFinal.hPc = 99 ∧ demoFinal.pPc = 10 ∧ demoFinal.aPc = 99 ∧
    demoFinal.sPc = 0 ∧ demoFinal.relHold = 0 ∧ demoFinal.tC0 = 0 ∧ demoFinal.tOCe = 0 ∧ demoFinal.tOC = 0 ∧ demoFinal.tC2 = 0 ∧
    demoFinal.tC3 = 0 ∧ demoFinal.tD1 = 0 ∧ demoFinal.tD2 = 0 ∧ demoFinal.tD3 = 0 ∧ demoFinal.tODe = 0 ∧ demoFinal.tOD = 0 ∧
    demoFinal.tD4 = 0 ∧ demoFinal.t3 = 0 ∧ demoFinal.tHe = 0 ∧ demoFinal.tH = 0 ∧ demoFinal.t4a = 0 ∧ demoFinal.t4b0 = 0 ∧
    demoFinal.t4b2 = 0 ∧ demoFinal.t6 = 0 ∧ demoFinal.t7a = 0 ∧ demoFinal.t7b = 0 ∧ demoFinal.t8a = 0 ∧ demoFinal.t8b = 0 ∧
    demoFinal.tP1 = 0 ∧ demoFinal.tP2a = 0 ∧ demoFinal.tP2b = 0 := by decide

theorem demoFinal_quiescent : Quiescent demoFinal := by
  obtain ⟨c1, c2, c3, c4, c5, c6, d, b1, b2, b3, b4, b5, b6, b7, b8, b9, b10, b11, b12, b13, b14, hp, pp, ap, sp, rl,
    t1, t2, t3, t4, t5, t6, t7, t8, t9, t10, t11, t12, t13, t14, t15, t16, t17, t18, t19, t20, t21, t22, t23, t24, t25⟩ := demoFinal_pcs
  intro a ha
  cases a with
  | c x => cases x <;> simp [Act.isEnv] at ha <;> simp [step, stepCloser, *]
  | b x => cases x <;> simp [step, stepCB, *]
  | h x => cases x <;> simp [step, stepHup, *]
  | p x => cases x <;> simp [Act.isEnv] at ha <;> simp [step, stepPoller, *]
  | a x => cases x <;> simp [step, stepAcc, *]
  | u x => cases x <;> simp [Act.isEnv] at ha <;> simp [step, stepUser, *]
  | t x => cases x <;> simp [Act.isEnv] at ha <;> simp [step, stepTask, *]

theorem demoFinal_owed : demoFinal.hupOwed = true ∧ demoFinal.dPc = 0 ∧ demoFinal.orSet = true := by decide

end Netpoll.Conn.Life
