/-
  Netpoll.Conn.Locker – the `locker` keychain of connection_lock.go as pure functions on a word.

  A word is a `Nat`; the Go methods become functions returning the new word and the observed result.
  `who`: 0 none, 1 user, 2 poller.  keychain values: 0 unlocked, 1 locked, 2 stopped.
  Core Lean only (linked into npdriver).
-/
namespace Netpoll.Conn.Locker

/-- `atomic.CompareAndSwapInt32(&w, old, new)` -/
def cas (w old new : Nat) : Nat × Bool := if w = old then (new, true) else (w, false)

/-- `locker.closeBy(w)` = CAS(closing, 0, w) -/
def closeBy (closing who : Nat) : Nat × Bool := cas closing 0 who
/-- `locker.lock(k)` = CAS(k, 0, 1) -/
def lock (w : Nat) : Nat × Bool := cas w 0 1
/-- `locker.unlock(k)` = Store(k, 0) -/
def unlock (_ : Nat) : Nat := 0
/-- one iteration of `locker.stop(k)`: CAS(k,0,2) -/
def stopTry (w : Nat) : Nat × Bool := cas w 0 2

theorem cas_ok_iff (w o n : Nat) : (cas w o n).2 = true ↔ w = o := by
  unfold cas; split <;> simp_all

theorem cas_fail_same (w o n : Nat) (h : (cas w o n).2 = false) : (cas w o n).1 = w := by
  unfold cas at *; split at h <;> simp_all

theorem cas_ok_val (w o n : Nat) (h : (cas w o n).2 = true) : (cas w o n).1 = n := by
  unfold cas at *; split at h <;> simp_all

/-- `closing` once set never returns to 0 through closeBy -/
theorem closeBy_monotone (c w : Nat) (hw : w ≠ 0) (hc : c ≠ 0) : (closeBy c w).1 ≠ 0 := by
  unfold closeBy cas; split <;> simp_all

/-- two lock attempts on the same word without an unlock in between: at most one succeeds -/
theorem lock_exclusive (w : Nat) : (lock w).2 = true → (lock (lock w).1).2 = false := by
  unfold lock cas; split <;> simp_all

end Netpoll.Conn.Locker
