import Netpoll.Buf.Spec
import Netpoll.Poll.Iovec
/-
C04 – output path and input path of a connection over the C01 spec queue with an ADVERSARIAL kernel.

Output: each round (user `flush` or the poller's `outputs/outputAck`) takes vectors with `GetBytes`
(any split of a prefix of the flushed bytes, at most `barriercap` vectors), builds the iovec array,
the kernel accepts any `k ≤ offered` bytes (or EAGAIN = 0), then `Skip(k); Release()`.
Input: each round books a slice, the kernel fills any `k ≤ len` bytes of what the peer sent, `bookAck k`.
Core Lean only.
-/
namespace Netpoll.Conn.Stream
open Netpoll.Buf Netpoll.Poll

variable {α : Type}

/-- one output round: `vs` is what GetBytes returned, `k` what sendmsg reported.
Returns the bytes the kernel took and the queue afterwards. `none` when the round is impossible
(the vectors are not a prefix split of the buffered bytes, or the kernel claims more than was offered). -/
def outRound [DecidableEq α] (q : Q α) (vs : List (List α)) (k : Nat) : Option (List α × Q α) :=
  let offered := iovecBytes vs 0
  if vs.flatten.isPrefixOf q.flushedBytes ∧ k ≤ offered.length then
    -- `if n > 0 { Skip(n); Release() }`
    let q' := if k > 0 then (specStep (specStep q (.skip k)).1 .release).1 else q
    some (offered.take k, q')
  else none

/-- a run of output rounds; accumulates what the kernel took -/
def outRun [DecidableEq α] : Q α → List (List (List α) × Nat) → Option (List α × Q α)
  | q, [] => some ([], q)
  | q, (vs, k) :: rest =>
    match outRound q vs k with
    | none => none
    | some (sent, q') =>
      match outRun q' rest with
      | none => none
      | some (more, q'') => some (sent ++ more, q'')

/-- one input round: the kernel delivers `d` (what `readv` wrote into the booked slice), `bookAck(len d)`. -/
def inRound (q : Q α) (d : List α) : Q α := q.received d

end Netpoll.Conn.Stream
