/-
C07 – a blocked reader wakes on data, close or timeout, and only then.
Interleaving model of connection.waitRead / waitReadWithTimeout (connection_impl.go) against the
poller's inputAck (connection_reactor.go), closers (onClose / onHup) and the read timer.
One model step per atomic step of the Go code.  One reader (the contract), any number of deliveries,
closers and successive reads.  Core Lean only.

Tied to the code by trace conformance (lean/Driver/Read.lean replays the traces of the real code under the
controlled scheduler, go/inpkg/sched_read.go) and by the sync-operation lists of Netpoll.Tie.ReadFlush.
Read off the code while building that tie (each is a path the real traces take):
  * the deadline branch of waitRead: an already expired read deadline returns ErrReadTimeout right after
    publishing waitReadSize, without arming the timer and without a second look at the buffer (`callX`);
  * a user Close() that loses closeBy to the peer's hang-up still stores closing := user (`forceUser`), so a
    reader may get ErrEOF while closing = user, or ErrConnClosed after a peer close: the error class is
    therefore stated with the ghosts `peerClosed` / `userClosed`, not with the value of `closing`;
  * the finalizer (run by a user Close) resets the input length to 0 when it finds the buffer empty (`closeBuf`);
  * since the fix of D20 the loop looks at the length once more after it has seen closing ≠ 0 or received a closer's error (`reChk`): the n bytes and the
    close may both have arrived between its two loads; the close error is returned only if they are still not there.
-/
namespace Netpoll.Conn.Read

/-- what the one-slot channel `readTrigger` can hold -/
inductive Tok where
  | data        -- nil
  | errClosed   -- ErrConnClosed ("self close")
  | errEOF      -- ErrEOF ("peer close")
deriving Repr, DecidableEq

inductive Result where
  | ok | errEOF | errClosed | timeout
deriving Repr, DecidableEq

/-- program counter of the reader inside one call of waitRead(n) -/
inductive RPc where
  | idle                       -- between calls
  | fastX (n : Nat)                       -- expired deadline: `if n <= Len() { return nil }`
  | storeX (n : Nat) (seen : Nat)         -- expired deadline: store waitReadSize, then `timeout <= 0`: ErrReadTimeout
  | fast (n : Nat) (timed : Bool)         -- `if n <= Len() { return nil }`
  | store (n : Nat) (timed : Bool)        -- `atomic.StoreInt64(&c.waitReadSize, n)` (deferred reset to 0)
  | arm (n : Nat)                         -- timed: NewTimer / Reset
  | chkLen (n : Nat) (timed : Bool)       -- `for c.inputBuffer.Len() < n`
  | chkClosing (n : Nat) (timed : Bool)   -- `switch c.status(closing)`
  | reChk (n : Nat) (timed : Bool) (peer : Bool)  -- closing ≠ 0 seen or a closer's error received (peer: poller / user): `if c.inputBuffer.Len() >= n { return nil }` else the close error (fix D20)
  | wait (n : Nat) (timed : Bool)         -- `<-c.readTrigger` / `select { timer.C, readTrigger }`
  | dblChk (n : Nat)                      -- timer case: `if Len() >= n { return nil }` else ErrReadTimeout
  | ret (n : Nat) (r : Result) (seen : Nat)      -- RET: `if !timer.Stop() { <-timer.C }`; `seen` = Len() at the decision
  | unstore (n : Nat) (r : Result) (seen : Nat)  -- deferred `waitReadSize = 0`
deriving Repr, DecidableEq

/-- the poller inside one inputAck(k) (token held) -/
inductive PPc where
  | idle
  | publish (k : Nat)          -- bookAck: length += k (atomic)
  | loadWait                   -- `length >= atomic.LoadInt64(&c.waitReadSize)` (needTrigger is true: no handler started)
  | send                       -- triggerRead(nil)
deriving Repr, DecidableEq

/-- a closer after its CAS on `closing` succeeded -/
inductive CPc where
  | none | sendClosed | sendEOF
deriving Repr, DecidableEq

structure S where
  inLen : Nat := 0
  closing : Nat := 0            -- 0 none, 1 user, 2 poller
  waitSize : Nat := 0
  slot : Option Tok := none     -- readTrigger (capacity 1)
  timerRunning : Bool := false  -- armed and not yet fired/stopped
  tick : Bool := false          -- a value sits in timer.C
  r : RPc := .idle
  p : PPc := .idle
  c : CPc := .none
  lenSeen : Nat := 0            -- poller: the length value returned by bookAck
  peerClosed : Bool := false    -- ghost: the hang-up won closeBy(poller)
  userClosed : Bool := false    -- ghost: a user Close() won closeBy(user) or forced closing := user
  results : List (Nat × Result × Nat × Bool × Bool) := []   -- ghost: (n, result, Len() seen at the decision, peerClosed, userClosed at return), newest first
deriving Repr, DecidableEq

inductive Act where
  | call (n : Nat) (timed : Bool)     -- the reader starts waitRead(n), n > 0
  | callX (n : Nat)                   -- ... with a read deadline that has already expired
  | rstep                             -- the reader's next atomic step (not the blocking receive)
  | recvSlot                          -- blocking receive / select picks readTrigger
  | recvTick                          -- select picks timer.C
  | consume (k : Nat)                 -- after a successful call the reader consumes k ≤ inLen bytes
  | deliver (k : Nat)                 -- the poller starts inputAck(k), k > 0
  | pstep
  | closeUser | closePeer             -- CAS(closing, 0, w) by a closer (any number may try)
  | forceUser                         -- a user Close() whose CAS failed: `c.force(closing, user)`
  | closeBuf                          -- the finalizer's closeBuffer: `inputBuffer.Close()` stores length 0
  | cstep                             -- the winning closer's triggerRead
  | fire                              -- the timer fires
deriving Repr, DecidableEq

def trySend (s : S) (t : Tok) : S := if s.slot.isNone then { s with slot := some t } else s

def step (s : S) : Act → Option S
  | .call n timed => if s.r = .idle ∧ n > 0 then some { s with r := .fast n timed } else none
  | .callX n => if s.r = .idle ∧ n > 0 then some { s with r := .fastX n } else none
  | .rstep =>
    match s.r with
    | .fastX n => if n ≤ s.inLen then some { s with r := .idle, results := (n, .ok, s.inLen, s.peerClosed, s.userClosed) :: s.results } else some { s with r := .storeX n s.inLen }
    | .storeX n seen => some { s with waitSize := n, r := .unstore n .timeout seen }
    | .fast n timed => if n ≤ s.inLen then some { s with r := .idle, results := (n, .ok, s.inLen, s.peerClosed, s.userClosed) :: s.results } else some { s with r := .store n timed }
    | .store n timed => some { s with waitSize := n, r := if timed then .arm n else .chkLen n false }
    | .arm n => some { s with timerRunning := true, r := .chkLen n true }
    | .chkLen n timed =>
      if s.inLen < n then some { s with r := .chkClosing n timed }
      else some { s with r := if timed then .ret n .ok s.inLen else .unstore n .ok s.inLen }
    | .chkClosing n timed =>
      if s.closing = 2 then some { s with r := .reChk n timed true }
      else if s.closing = 1 then some { s with r := .reChk n timed false }
      else some { s with r := .wait n timed }
    | .reChk n timed peer =>
      -- the bytes may have been delivered (before the close) after the loop condition was evaluated: look again
      if s.inLen ≥ n then some { s with r := if timed then .ret n .ok s.inLen else .unstore n .ok s.inLen }
      else some { s with r := if timed then .ret n (if peer then .errEOF else .errClosed) s.inLen
                              else .unstore n (if peer then .errEOF else .errClosed) s.inLen }
    | .dblChk n =>
      -- returns directly (the tick has been consumed; no Stop needed)
      if s.inLen ≥ n then some { s with r := .unstore n .ok s.inLen } else some { s with r := .unstore n .timeout s.inLen }
    | .ret n res seen =>
      -- `if !timer.Stop() { <-timer.C }`: Stop succeeds iff the timer has not fired; otherwise the tick is drained
      if s.timerRunning then some { s with timerRunning := false, r := .unstore n res seen }
      else if s.tick then some { s with tick := false, r := .unstore n res seen }
      else none    -- would block for ever on `<-timer.C` (never reachable: see `Good`)
    | .unstore n res seen => some { s with waitSize := 0, r := .idle, results := (n, res, seen, s.peerClosed, s.userClosed) :: s.results }
    | _ => none
  | .recvSlot =>
    match s.r, s.slot with
    | .wait n timed, some t =>
      let s' := { s with slot := none }
      match t with
      | .data => some { s' with r := .chkLen n timed }
      | .errClosed => some { s' with r := .reChk n timed false }   -- `if err != nil { if Len() >= n { return nil }; return err }`
      | .errEOF => some { s' with r := .reChk n timed true }
    | _, _ => none
  | .recvTick =>
    match s.r with
    | .wait n true => if s.tick then some { s with tick := false, r := .dblChk n } else none
    | _ => none
  | .consume k =>
    if s.r = .idle ∧ k ≤ s.inLen ∧ (s.results.head?.map (·.2.1)) = some .ok then some { s with inLen := s.inLen - k } else none
  | .deliver k => if s.p = .idle ∧ k > 0 ∧ s.peerClosed = false then some { s with p := .publish k } else none
  | .pstep =>
    match s.p with
    | .publish k => some { s with inLen := s.inLen + k, lenSeen := s.inLen + k, p := .loadWait }
    | .loadWait => if s.lenSeen ≥ s.waitSize then some { s with p := .send } else some { s with p := .idle }
    | .send => some { (trySend s .data) with p := .idle }
    | .idle => none
  | .closeUser => if s.closing = 0 then some { s with closing := 1, c := .sendClosed, userClosed := true } else none
  | .closePeer => if s.closing = 0 ∧ s.p = .idle then some { s with closing := 2, c := .sendEOF, peerClosed := true } else none
  | .forceUser => if s.closing ≠ 0 then some { s with closing := 1, userClosed := true } else none
  | .closeBuf => if s.userClosed then some { s with inLen := 0 } else none
  | .cstep =>
    match s.c with
    | .sendClosed => some { (trySend s .errClosed) with c := .none }
    | .sendEOF => some { (trySend s .errEOF) with c := .none }
    | .none => none
  | .fire => if s.timerRunning then some { s with timerRunning := false, tick := true } else none

def init : S := {}

def run (s : S) : List Act → Option S
  | [] => some s
  | a :: rest => match step s a with | none => none | some s' => run s' rest

end Netpoll.Conn.Read
