/- Netpoll.Conn.LifeReachLemmasD – all four invariant layers hold in every reachable state. -/
import Netpoll.Conn.LifeReachLemmas
import Netpoll.Conn.LifeLemmasDAll
namespace Netpoll.Conn.Life

theorem reach_goodd {s : S} (h : Reachable s) : Good s ∧ GoodQ s ∧ GoodR s ∧ GoodD s := by
  induction h with
  | init sv oc od orr => exact ⟨good_init sv oc od orr, goodq_init sv oc od orr, goodr_init sv oc od orr, goodd_init sv oc od orr⟩
  | step a _ hs ih =>
    exact ⟨good_step _ _ a ih.1 hs, goodq_step _ _ a ih.1 ih.2.1 hs, goodr_step _ _ a ih.1 ih.2.1 ih.2.2.1 hs,
           goodd_step _ _ a ih.1 ih.2.1 ih.2.2.1 ih.2.2.2 hs⟩

/-- in a quiescent state the hang-up goroutine is not inside its onDisconnect() hand-off -/
theorem quiescent_idle3 (s : S) (hq : Quiescent s) :
    ¬((2 ≤ s.hPc ∧ s.hPc ≤ 4) ∨ (7 ≤ s.hPc ∧ s.hPc ≤ 9)) ∧ s.hPc ≠ 5 ∧ s.hPc ≠ 10 := by
  have := q_hPc_2 s hq; have := q_hPc_3 s hq; have := q_hPc_4 s hq; have := q_hPc_5 s hq
  have := q_hPc_7 s hq; have := q_hPc_8 s hq; have := q_hPc_9 s hq; have := q_hPc_10 s hq
  omega

end Netpoll.Conn.Life
