import Netpoll.Buf.Refine.Bytes
import Netpoll.Conn.Stream
/-!
C04 – where the vectors of an output round come from: `GetBytes(barrier)` on the node chain of the output buffer
(`connection.flush` and `connection.outputs` both call it with the connection's barrier of `barriercap` slices).
`Netpoll.Conn.Stream.outRound` takes the vectors as a parameter and demands that they are a prefix split of the
flushed bytes; this file discharges that demand for the node-level model `LB.getBytes` (Buf/Model.lean, which mirrors the
Go loop: at most `k` non-empty nodes before the flush node, the flush node only if a slot is left) – for ANY number of
nodes, in particular more nodes than the barrier holds.
-/
namespace Netpoll.Conn.Stream
open Netpoll.Buf Netpoll.Poll

variable {α : Type}

/-- the loop never fills more than `k` slots -/
theorem getBytesLoop_length_le (ns : List (Node α)) (cnt k : Nat) : (getBytesLoop ns cnt k).1.length ≤ k := by
  induction ns generalizing cnt k with
  | nil => simp [getBytesLoop]
  | cons nd rest ih =>
    unfold getBytesLoop
    split
    · simp
    · rename_i hck
      split
      · have := ih (cnt - 1) (k - 1)
        simp only [List.length_cons]
        omega
      · exact ih (cnt - 1) k

/-- `GetBytes(p)` with `len(p) = k > 0` returns at most `k` vectors, however many nodes the chain has. -/
theorem getBytes_length_le (b b' : LB α) (k : Nat) (hk : 0 < k) (vs : List (List α))
    (h : b.getBytes k = some (b', .vecs vs)) : vs.length ≤ k := by
  unfold LB.getBytes at h
  split at h
  · simp at h
  · have hk' : (if k = 0 then b.f - b.r else k) = k := by simp; omega
    have hl := getBytesLoop_length_le (b.nodes.drop b.r) (b.f - b.r) k
    rcases hg : getBytesLoop (b.nodes.drop b.r) (b.f - b.r) k with ⟨ws, suf⟩
    rw [hg] at hl
    simp only [hk', hg] at h hl
    split at h
    · rename_i hlt
      split at h
      · simp at h
      · simp only [Option.some.injEq, Prod.mk.injEq, Res.vecs.injEq] at h
        rw [← h.2]; simp; omega
    · simp only [Option.some.injEq, Prod.mk.injEq, Res.vecs.injEq] at h
      rw [← h.2]; exact hl

/-- **The vectors of a round.** On an output buffer that refines the spec queue `q` (C01), `GetBytes` with a barrier of
`cap > 0` slices returns at most `cap` vectors whose concatenation is a prefix of the flushed bytes – nothing skipped,
nothing out of order, also when the chain has more nodes than the barrier has slices – so whatever count `k` the kernel
then accepts of them, the round is a legal `outRound` of the stream model. -/
theorem outRound_of_getBytes [DecidableEq α] (cfg : Cfg) {b : LB α} {q : Q α} (hR : R b q) (cap : Nat) (hcap : 0 < cap)
    (hC : Contract q (.getBytes cap) = true) :
    ∃ b' vs, b.getBytes cap = some (b', .vecs vs) ∧ R b' q ∧ vs.length ≤ cap ∧ vs.flatten <+: q.flushedBytes ∧
      ∀ k, k ≤ (iovecBytes vs 0).length → (outRound q vs k).isSome = true := by
  obtain ⟨b', r, hs, hR', hm⟩ := getBytes_refines cfg hR cap hC
  have hs' : b.getBytes cap = some (b', r) := by simpa [LB.step] using hs
  have hspec : specStep q (.getBytes cap) = (q, .prefixVecs q.flushedBytes) := by simp [specStep]
  rw [hspec] at hR' hm
  cases r with
  | vecs vs =>
    have hp : vs.flatten <+: q.flushedBytes := hm
    refine ⟨b', vs, hs', hR', getBytes_length_le b b' cap hcap vs hs', hp, ?_⟩
    intro k hk
    have : vs.flatten.isPrefixOf q.flushedBytes = true := List.isPrefixOf_iff_prefix.mpr hp
    simp [outRound, this, hk]
  | _ => simp [Matches] at hm

end Netpoll.Conn.Stream
