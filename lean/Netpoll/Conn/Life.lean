/-
  Netpoll.Conn.Life – interleaving model of the connection lifecycle (C05, C06, C09).

  One `Act` per schedule point of the instrumented code (tools/instrument), i.e. per atomic operation on a shared
  word, per trigger send, per user-callback entry/exit and per close(2), for every actor of DESIGN Appendix A:
  closers (any number, counter abstraction), Detach, the close-callback runner (CB), the hang-up goroutine, the
  poller (any number of deliveries), the acceptor / client constructor, SetOnRequest, handler tasks (any number,
  counter abstraction), and user code inside callbacks (nondeterministic: read Len, consume, Close, return, panic).

  An action carries the RESULT the code observed (CAS success, loaded value, value returned by Add, whether a
  trigger slot had room); `step` refuses an action whose result is not the one the model state determines.  That makes
  `step` both the transition relation of the theorems and the acceptor of the trace-conformance check (Driver.Life).

  The model mirrors the code AFTER the fixes fixes/d05 d06 d10 d14 (see `LifeOld.lean` for the old behaviour as
  witness, `LifeSync.lean` / `Tie/Life.lean` for the tie of the program counters to the source).  Program counters are named after Appendix A.  Core Lean only.
-/
import Netpoll.Conn.Locker
namespace Netpoll.Conn.Life

structure S where
  -- configuration: which callbacks are set (orSet may change once, by SetOnRequest on a client connection)
  server : Bool
  hasOC : Bool
  hasOD : Bool
  orSet : Bool
  -- shared words
  closing : Nat      -- 0 none, 1 user, 2 poller
  processing : Nat   -- 0 / 1
  connecting : Nat   -- 0 / 1
  flushing : Nat     -- 0 / 1 / 2
  st : Nat           -- connState 0 none, 1 connected, 2 disconnected
  opState : Nat      -- FDOperator.state 0 unused, 1 inuse, 2 do-done
  detached : Nat     -- FDOperator.detached counter
  fdClosed : Nat     -- netFD.closed counter
  detaching : Nat    -- netFD.detaching 0 / 1
  inLen : Nat        -- inputBuffer.length
  rd : Nat           -- readTrigger slot occupancy 0 / 1
  wr : Nat           -- writeTrigger slot occupancy
  -- environment
  registered : Bool  -- epoll ADD done
  deleted : Bool     -- epoll DEL done
  peerClosed : Bool
  -- closers: how many Close calls sit before each step (U1..U6 of Appendix A)
  cU1 : Nat
  cU2 : Nat
  cU3 : Nat
  cU4 : Nat
  cU5 : Nat
  cU6 : Nat
  dPc : Nat          -- Detach caller: 0 not called, 1 before the store of `detaching`, 2 before closeBy, 3 joined the closers
  -- close-callback runners (CB of Appendix A)
  cbD : Nat          -- before Control(PollDetach)
  cbCall : Nat       -- between callbacks (next: enter of a callback)
  cbIn : Nat         -- inside a user / untrack callback
  cbF1 : Nat         -- finalizer: stop(flushing) CAS
  cbF1b : Nat        --            stop(flushing) load
  cbF2 : Nat         -- operator.Free: unused() CAS
  cbF2b : Nat        --                unused() load
  cbF3 : Nat         -- netFD.Close: closed++
  cbF3b : Nat        --              load detaching
  cbF3c : Nat        --              close(2)
  cbF4 : Nat         -- closeBuffer: Len(), having loaded a non-nil OnRequest (the input buffer is recycled whatever it holds)
  cbF4n : Nat        -- closeBuffer: Len(), having loaded no OnRequest handler (fix D19: OnConnect alone does not recycle unread input)
  cbF4b : Nat        --              inputBuffer.Close() (length := 0)
  cbFx : Nat         -- exit of the finalizer callback
  cbDone : Nat
  -- single actors
  hPc : Nat          -- hang-up goroutine (0 = not spawned, 99 = finished)
  pPc : Nat          -- poller
  pN : Nat           -- poller: bytes of the read being acknowledged
  aPc : Nat          -- acceptor (server) / constructor (client)
  sPc : Nat          -- SetOnRequest caller (client)
  relHold : Nat      -- Release() callers holding the operator token
  -- handler tasks: how many sit before each step (T0..T9, P1, P2 of Appendix A)
  tC0 : Nat
  tOCe : Nat
  tOC : Nat
  tC2 : Nat
  tC3 : Nat
  tD1 : Nat
  tD2 : Nat
  tD3 : Nat
  tODe : Nat
  tOD : Nat
  tD4 : Nat
  t3 : Nat
  tHe : Nat
  tH : Nat
  t4a : Nat
  t4b0 : Nat
  t4b2 : Nat
  t6 : Nat
  t7a : Nat
  t7b : Nat
  t8a : Nat
  t8b : Nat
  tP1 : Nat
  tP2a : Nat
  tP2b : Nat
  -- ghost
  cbRuns : Nat         -- executions of the callback list
  cbStartLen : Nat     -- inLen when the first execution started
  cbStartClosing : Nat -- closing when the first execution started
  fdCloses : Nat
  slotFrees : Nat
  epollDels : Nat
  discRuns : Nat
  ocStarts : Nat
  ocEnds : Nat
  reqRuns : Nat
  panics : Nat
  ocPanics : Nat       -- OnConnect panicked (`connecting` stays held)
  connLeak : Nat       -- onConnect() returned with `connecting` held because `processing` was taken
  cbStartOr : Bool     -- an OnRequest handler was set when the first execution of the callback list started
  hupOwed : Bool       -- the hang-up goroutine found OnConnect or OnRequest set (so it owes the close callbacks)
  detachWon : Bool
  hupWon : Bool
  userClosed : Bool
  d7 : Bool            -- the hang-up path found input while OnConnect had not started (DESIGN D7)
  deriving DecidableEq

/-- initial state: nothing has happened; the acceptor (server) or constructor (client) is about to run -/
def init (server hasOC hasOD orSet : Bool) : S :=
  { server := server, hasOC := hasOC, hasOD := hasOD, orSet := orSet,
    closing := 0, processing := 0, connecting := 0, flushing := 0, st := 0, opState := 0, detached := 0,
    fdClosed := 0, detaching := 0, inLen := 0, rd := 0, wr := 0,
    registered := false, deleted := false, peerClosed := false,
    cU1 := 0, cU2 := 0, cU3 := 0, cU4 := 0, cU5 := 0, cU6 := 0, dPc := 0,
    cbD := 0, cbCall := 0, cbIn := 0, cbF1 := 0, cbF1b := 0, cbF2 := 0, cbF2b := 0, cbF3 := 0, cbF3b := 0, cbF3c := 0,
    cbF4 := 0, cbF4n := 0, cbF4b := 0, cbFx := 0, cbDone := 0,
    hPc := 0, pPc := 0, pN := 0, aPc := if server then 1 else 20, sPc := 0, relHold := 0,
    tC0 := 0, tOCe := 0, tOC := 0, tC2 := 0, tC3 := 0, tD1 := 0, tD2 := 0, tD3 := 0, tODe := 0, tOD := 0, tD4 := 0,
    t3 := 0, tHe := 0, tH := 0, t4a := 0, t4b0 := 0, t4b2 := 0, t6 := 0, t7a := 0, t7b := 0, t8a := 0, t8b := 0,
    tP1 := 0, tP2a := 0, tP2b := 0,
    cbRuns := 0, cbStartLen := 0, cbStartClosing := 0, fdCloses := 0, slotFrees := 0, epollDels := 0, discRuns := 0,
    ocStarts := 0, ocEnds := 0, reqRuns := 0, panics := 0, ocPanics := 0, connLeak := 0, cbStartOr := false, hupOwed := false,
    detachWon := false, hupWon := false, userClosed := false, d7 := false }

/-- closers and Detach (connection.onClose / closeCallback(true, ·)) -/
inductive CAct where
  | closeNew (ok : Bool)      -- a new Close call: U1 closeBy(user)
  | cU1 (ok : Bool)           -- U1 of a pending closer (panic path of a task)
  | cU2 (room : Bool)         -- U2 triggerRead
  | cU3 (room : Bool)         -- U3 triggerWrite
  | cU4 (ok : Bool)           -- U4 lock(processing); success -> CB with detach
  | cU5                       -- U5 force(closing, user)
  | cU6 (ok : Bool)           -- U6 lock(processing); success -> CB with detach (a no-op after the poller's; fix D18)
  | dCall                     -- Detach() called
  | dStore                    -- detaching := 1
  | dCas (ok : Bool)          -- its closeBy(user)
  deriving DecidableEq, Repr

/-- the callback list -/
inductive BAct where
  | cbDet (r : Nat)           -- detached++ (epoll DEL iff it was 0)
  | cbEnterU | cbExitU        -- a user / untrack callback
  | cbEnterF                  -- the finalizer callback
  | cbF1 (ok : Bool) | cbF1b (v : Nat)
  | cbF2 (ok : Bool) | cbF2b (v : Nat)
  | cbF3 (r : Nat) | cbF3b (v : Nat) | cbF3c
  | cbF4 (v : Nat) | cbF4n (v : Nat) | cbF4b | cbFx
  deriving DecidableEq, Repr

/-- hang-up goroutine (connection.onHup) -/
inductive HAct where
  | hCas (ok : Bool) | hRd (room : Bool) | hWr (room : Bool)
  | hSetSt | hODe | hODx
  | hGet (v : Nat) | hConn (ok : Bool) | hSt (ok : Bool) | hODe2 | hODx2 | hUnl
  | hLen (v : Nat) | hGet2 (v : Nat) | hProc (ok : Bool) | hLock (ok : Bool)
  deriving DecidableEq, Repr

/-- poller -/
inductive PAct where
  | pFetch | pPeerClose
  | pDo (ok : Bool) | pRead (n : Nat) | pAck (r : Nat) | pGet (v : Nat) | pLock (ok : Bool) | pTrig (room : Bool)
  | pFinish | pDone | pHup | pDet (r : Nat) | pHDone
  deriving DecidableEq, Repr

/-- acceptor (server.onAccept) / client constructor -/
inductive AAct where
  | aPrepE | aPrepX | aAct1 (v : Nat) | aReg (ok : Bool) | aAct2 (v : Nat) | aSt (ok : Bool) | aConn (ok : Bool) | aProc (ok : Bool)
  | cAct (v : Nat) | cReg (ok : Bool)
  deriving DecidableEq, Repr

/-- SetOnRequest, observers, user code inside callbacks -/
inductive UAct where
  | sCall | sLen (v : Nat) | sGet (v : Nat) | sLock (ok : Bool)
  | obsLoad (v : Nat) | uLen (v : Nat) | uConsume (n r : Nat) | relDo (ok : Bool) | relDone
  deriving DecidableEq, Repr

/-- handler task (closure in connection.onProcess) -/
inductive TAct where
  | tC0 (ok : Bool) | tOCenter | tOCexit | tOCpanic | tC2 | tC3 (v : Nat)
  | tD1 (v : Nat) | tD2 (ok : Bool) | tD3 (ok : Bool) | tODenter | tODexit | tD4
  | t3 (v : Nat) | tHenter | tHexit | tHpanic
  | t4a (v : Nat) | t4b0 (v : Nat) | t4b2 (v : Nat)
  | t6 | t7a (v : Nat) | t7b (ok : Bool) | t8a (v : Nat) | t8b (ok : Bool)
  | tP1 (v : Nat) | tP2a | tP2b (v : Nat)
  deriving DecidableEq, Repr

/-- one action of one actor -/
inductive Act where
  | c (a : CAct) | b (a : BAct) | h (a : HAct) | p (a : PAct) | a (a : AAct) | u (a : UAct) | t (a : TAct)
  deriving DecidableEq, Repr

/-- a processing task is (re)started at START: without OnRequest there is no `Len()` point before the loop -/
def toStart (s : S) : S := if s.orSet then { s with t3 := s.t3 + 1 } else { s with t4a := s.t4a + 1 }

/-- `new` if this is the first execution of the callback list (`runs = 0`), else the recorded value -/
def pick (runs new old : Nat) : Nat := if runs = 0 then new else old
def pickB (runs : Nat) (new old : Bool) : Bool := if runs = 0 then new else old

/-- the holder of `processing` starts the callback list (closeCallback after the lock), first detaching -/
def enterCBd (s : S) : S :=
  { s with cbRuns := s.cbRuns + 1, cbStartLen := pick s.cbRuns s.inLen s.cbStartLen,
           cbStartClosing := pick s.cbRuns s.closing s.cbStartClosing,
           cbStartOr := pickB s.cbRuns s.orSet s.cbStartOr, cbD := s.cbD + 1 }

/-- … without detach -/
def enterCBn (s : S) : S :=
  { s with cbRuns := s.cbRuns + 1, cbStartLen := pick s.cbRuns s.inLen s.cbStartLen,
           cbStartClosing := pick s.cbRuns s.closing s.cbStartClosing,
           cbStartOr := pickB s.cbRuns s.orSet s.cbStartOr, cbCall := s.cbCall + 1 }

def enterCB (s : S) (detach : Bool) : S := if detach then enterCBd s else enterCBn s

/-- leaving the task's loop with `closedBy = v` -/
def exitLoop (s : S) (v : Nat) : S :=
  if v = 0 then { s with t6 := s.t6 + 1 } else if v = 1 then enterCBd s else enterCBn s

/-- second double-check of the task (`onRequest != nil && Len() > 0 && lock`) -/
def toT8 (s : S) : S := if s.orSet then { s with t8a := s.t8a + 1 } else s

/-- hang-up goroutine after onDisconnect(): H5 and the D6 fix -/
def toH5 (s : S) : S :=
  if !s.hasOC && !s.orSet then { s with hPc := 99 }
  else if s.orSet then { s with hPc := 13, hupOwed := true } else { s with hPc := 16, hupOwed := true }

/-- hang-up goroutine entering onDisconnect() -/
def hDisc (s : S) : S :=
  if !s.hasOD then toH5 s else if !s.hasOC then { s with hPc := 4 } else { s with hPc := 7 }

/-- task entering onDisconnect() (D10 fix: after unlock(connecting)) -/
def tDisc (s : S) : S := if !s.hasOD then toStart s else { s with tD1 := s.tD1 + 1 }

def b2n (b : Bool) : Nat := if b then 1 else 0

/-- CB runner entering closeBuffer: the two callback loads happen here, before the `Len()` point -/
def toF4 (s : S) : S := if s.orSet then { s with cbF4 := s.cbF4 + 1 } else { s with cbF4n := s.cbF4n + 1 }

/-- closers, Detach -/
def stepCloser (s : S) : CAct → Option S
  | .closeNew ok =>
      if ok = (s.closing == 0) then
        (if ok then some { s with closing := 1, cU2 := s.cU2 + 1, userClosed := true }
         else some { s with cU5 := s.cU5 + 1 })
      else none
  | .cU1 ok =>
      if s.cU1 > 0 ∧ ok = (s.closing == 0) then
        (if ok then some { s with closing := 1, cU1 := s.cU1 - 1, cU2 := s.cU2 + 1, userClosed := true }
         else some { s with cU1 := s.cU1 - 1, cU5 := s.cU5 + 1 })
      else none
  | .cU2 room =>
      if s.cU2 > 0 ∧ room = (s.rd == 0) then some { s with rd := 1, cU2 := s.cU2 - 1, cU3 := s.cU3 + 1 } else none
  | .cU3 room =>
      if s.cU3 > 0 ∧ room = (s.wr == 0) then some { s with wr := 1, cU3 := s.cU3 - 1, cU4 := s.cU4 + 1 } else none
  | .cU4 ok =>
      if s.cU4 > 0 ∧ ok = (s.processing == 0) then
        (if ok then some (enterCBd { s with processing := 1, cU4 := s.cU4 - 1 })
         else some { s with cU4 := s.cU4 - 1 })
      else none
  | .cU5 =>
      if s.cU5 > 0 then some { s with closing := 1, userClosed := true, cU5 := s.cU5 - 1, cU6 := s.cU6 + 1 } else none
  | .cU6 ok =>
      if s.cU6 > 0 ∧ ok = (s.processing == 0) then
        (if ok then some (enterCBd { s with processing := 1, cU6 := s.cU6 - 1 })
         else some { s with cU6 := s.cU6 - 1 })
      else none
  | .dCall => if s.dPc = 0 then some { s with dPc := 1 } else none
  | .dStore => if s.dPc = 1 then some { s with dPc := 2, detaching := 1 } else none
  | .dCas ok =>
      if s.dPc = 2 ∧ ok = (s.closing == 0) then
        (if ok then some { s with closing := 1, dPc := 3, cU2 := s.cU2 + 1, userClosed := true, detachWon := true }
         else some { s with dPc := 3, cU5 := s.cU5 + 1 })
      else none

/-- the callback list: optional detach, user callbacks, finalizer (stop flushing, free operator, close fd, buffers) -/
def stepCB (s : S) : BAct → Option S
  | .cbDet r =>
      if s.cbD > 0 ∧ r = s.detached + 1 then
        (if s.detached = 0 then
           some { s with detached := r, deleted := true, epollDels := s.epollDels + 1, cbD := s.cbD - 1, cbCall := s.cbCall + 1 }
         else some { s with detached := r, cbD := s.cbD - 1, cbCall := s.cbCall + 1 })
      else none
  | .cbEnterU => if s.cbCall > 0 then some { s with cbCall := s.cbCall - 1, cbIn := s.cbIn + 1 } else none
  | .cbExitU => if s.cbIn > 0 then some { s with cbIn := s.cbIn - 1, cbCall := s.cbCall + 1 } else none
  | .cbEnterF => if s.cbCall > 0 then some { s with cbCall := s.cbCall - 1, cbF1 := s.cbF1 + 1 } else none
  | .cbF1 ok =>
      if s.cbF1 > 0 ∧ ok = (s.flushing == 0) then
        (if ok then some { s with flushing := 2, cbF1 := s.cbF1 - 1, cbF2 := s.cbF2 + 1 }
         else some { s with cbF1 := s.cbF1 - 1, cbF1b := s.cbF1b + 1 })
      else none
  | .cbF1b v =>
      if s.cbF1b > 0 ∧ v = s.flushing then
        (if v = 2 then some { s with cbF1b := s.cbF1b - 1, cbF2 := s.cbF2 + 1 }
         else some { s with cbF1b := s.cbF1b - 1, cbF1 := s.cbF1 + 1 })
      else none
  | .cbF2 ok =>
      if s.cbF2 > 0 ∧ ok = (s.opState == 1) then
        (if ok then some { s with opState := 0, slotFrees := s.slotFrees + 1, cbF2 := s.cbF2 - 1, cbF3 := s.cbF3 + 1 }
         else some { s with cbF2 := s.cbF2 - 1, cbF2b := s.cbF2b + 1 })
      else none
  | .cbF2b v =>
      if s.cbF2b > 0 ∧ v = s.opState then
        (if v = 0 then some { s with slotFrees := s.slotFrees + 1, cbF2b := s.cbF2b - 1, cbF3 := s.cbF3 + 1 }
         else some { s with cbF2b := s.cbF2b - 1, cbF2 := s.cbF2 + 1 })
      else none
  | .cbF3 r =>
      if s.cbF3 > 0 ∧ r = s.fdClosed + 1 then
        (if s.fdClosed = 0 then some { s with fdClosed := r, cbF3 := s.cbF3 - 1, cbF3b := s.cbF3b + 1 }
         else some (toF4 { s with fdClosed := r, cbF3 := s.cbF3 - 1 }))
      else none
  | .cbF3b v =>
      if s.cbF3b > 0 ∧ v = s.detaching then
        (if v = 0 then some { s with cbF3b := s.cbF3b - 1, cbF3c := s.cbF3c + 1 }
         else some (toF4 { s with cbF3b := s.cbF3b - 1 }))
      else none
  | .cbF3c => if s.cbF3c > 0 then some (toF4 { s with fdCloses := s.fdCloses + 1, cbF3c := s.cbF3c - 1 }) else none
  | .cbF4 v => if s.cbF4 > 0 ∧ v = s.inLen then some { s with cbF4 := s.cbF4 - 1, cbF4b := s.cbF4b + 1 } else none
  | .cbF4n v =>
      if s.cbF4n > 0 ∧ v = s.inLen then
        (if v = 0 then some { s with cbF4n := s.cbF4n - 1, cbF4b := s.cbF4b + 1 }
         else some { s with cbF4n := s.cbF4n - 1, cbFx := s.cbFx + 1 })
      else none
  | .cbF4b => if s.cbF4b > 0 then some { s with inLen := 0, cbF4b := s.cbF4b - 1, cbFx := s.cbFx + 1 } else none
  | .cbFx => if s.cbFx > 0 then some { s with cbFx := s.cbFx - 1, cbDone := s.cbDone + 1 } else none

/-- the goroutine started by onhups(): connection.onHup -/
def stepHup (s : S) : HAct → Option S
  | .hCas ok =>
      if s.hPc = 1 ∧ ok = (s.closing == 0) then
        (if ok then some { s with closing := 2, hupWon := true, hPc := 2 } else some { s with hPc := 99 })
      else none
  | .hRd room => if s.hPc = 2 ∧ room = (s.rd == 0) then some { s with rd := 1, hPc := 3 } else none
  | .hWr room => if s.hPc = 3 ∧ room = (s.wr == 0) then some (hDisc { s with wr := 1 }) else none
  | .hSetSt => if s.hPc = 4 then some { s with st := 2, hPc := 5 } else none
  | .hODe => if s.hPc = 5 then some { s with discRuns := s.discRuns + 1, hPc := 6 } else none
  | .hODx => if s.hPc = 6 then some (toH5 s) else none
  | .hGet v => if s.hPc = 7 ∧ v = s.st then (if v ≠ 0 then some { s with hPc := 8 } else some (toH5 s)) else none
  | .hConn ok =>
      if s.hPc = 8 ∧ ok = (s.connecting == 0) then
        (if ok then some { s with connecting := 1, hPc := 9 } else some (toH5 s))
      else none
  | .hSt ok =>
      if s.hPc = 9 ∧ ok = (s.st == 1) then
        (if ok then some { s with st := 2, hPc := 10 } else some { s with hPc := 12 })
      else none
  | .hODe2 => if s.hPc = 10 then some { s with discRuns := s.discRuns + 1, hPc := 11 } else none
  | .hODx2 => if s.hPc = 11 then some { s with hPc := 12 } else none
  | .hUnl => if s.hPc = 12 then some (toH5 { s with connecting := 0 }) else none
  | .hLen v =>
      if s.hPc = 13 ∧ v = s.inLen then
        (if v > 0 then (if s.hasOC then some { s with hPc := 14 } else some { s with hPc := 15 })
         else some { s with hPc := 16 })
      else none
  | .hGet2 v =>
      if s.hPc = 14 ∧ v = s.st then
        (if v ≠ 0 then some { s with hPc := 15 } else some { s with hPc := 16, d7 := true })
      else none
  | .hProc ok =>
      if s.hPc = 15 ∧ ok = (s.processing == 0) then
        (if ok then some (toStart { s with processing := 1, hPc := 99 }) else some { s with hPc := 99 })
      else none
  | .hLock ok =>
      if s.hPc = 16 ∧ ok = (s.processing == 0) then
        (if ok then some (enterCBn { s with processing := 1, hPc := 99 }) else some { s with hPc := 99 })
      else none

/-- the poller: defaultPoll.handler for this operator (token do()/done(), inputAck, appendHup, onhups) -/
def stepPoller (s : S) : PAct → Option S
  | .pFetch => if s.pPc = 0 ∧ s.registered ∧ !s.deleted then some { s with pPc := 1 } else none
  | .pPeerClose => if !s.peerClosed then some { s with peerClosed := true } else none
  | .pDo ok =>
      if s.pPc = 1 ∧ ok = (s.opState == 1) then
        (if ok then some { s with opState := 2, pPc := 2 } else some { s with pPc := 0 })
      else none
  | .pRead n => if s.pPc = 2 then some { s with pPc := 3, pN := n } else none
  | .pAck r =>
      if s.pPc = 3 ∧ r = s.inLen + s.pN then
        (if s.pN = 0 then some { s with inLen := r, pPc := 2 }
         else if r = s.pN ∧ s.orSet then some { s with inLen := r, pPc := 4 }
         else some { s with inLen := r, pPc := 6 })
      else none
  | .pGet v =>
      if s.pPc = 4 ∧ v = s.st then
        (if v = 0 ∧ s.hasOC then some { s with pPc := 2 } else some { s with pPc := 5 })
      else none
  | .pLock ok =>
      if s.pPc = 5 ∧ ok = (s.processing == 0) then
        (if ok then some (toStart { s with processing := 1, pPc := 2 }) else some { s with pPc := 6 })
      else none
  | .pTrig room => if s.pPc = 6 ∧ room = (s.rd == 0) then some { s with rd := 1, pPc := 2 } else none
  | .pFinish => if s.pPc = 2 then some { s with pPc := 7 } else none
  | .pDone => if s.pPc = 7 then some { s with opState := 1, pPc := 0 } else none
  | .pHup => if s.pPc = 2 ∧ s.peerClosed then some { s with pPc := 8 } else none
  | .pDet r =>
      if s.pPc = 8 ∧ r = s.detached + 1 then
        (if s.detached = 0 then some { s with detached := r, deleted := true, epollDels := s.epollDels + 1, pPc := 9 }
         else some { s with detached := r, pPc := 9 })
      else none
  | .pHDone => if s.pPc = 9 ∧ s.hPc = 0 then some { s with opState := 1, pPc := 10, hPc := 1 } else none

/-- server.onAccept (init -> onPrepare -> register; IsActive; onConnect) and the client constructor -/
def stepAcc (s : S) : AAct → Option S
  | .aPrepE => if s.aPc = 1 then some { s with aPc := 2 } else none
  | .aPrepX => if s.aPc = 2 then some { s with aPc := 3 } else none
  | .aAct1 v => if s.aPc = 3 ∧ v = s.closing then (if v = 0 then some { s with aPc := 4 } else some { s with aPc := 5 }) else none
  | .aReg ok => if s.aPc = 4 ∧ ok = (s.opState == 0) ∧ ok then some { s with opState := 1, registered := true, aPc := 5 } else none
  | .aAct2 v =>
      if s.aPc = 5 ∧ v = s.closing then
        (if v = 0 then (if s.hasOC then some { s with aPc := 7 } else some { s with aPc := 6 }) else some { s with aPc := 99 })
      else none
  | .aSt ok =>
      if s.aPc = 6 ∧ ok = (s.st == 0) then
        (if ok then some { s with st := 1, aPc := 99 } else some { s with aPc := 99 })
      else none
  | .aConn ok =>
      if s.aPc = 7 ∧ ok = (s.connecting == 0) then
        (if ok then some { s with connecting := 1, aPc := 8 } else some { s with aPc := 99 })
      else none
  | .aProc ok =>
      if s.aPc = 8 ∧ ok = (s.processing == 0) then
        (if ok then some { s with processing := 1, tC0 := s.tC0 + 1, aPc := 99 }
         else some { s with connLeak := s.connLeak + 1, aPc := 99 })
      else none
  | .cAct v => if s.aPc = 20 ∧ v = s.closing then (if v = 0 then some { s with aPc := 21 } else some { s with aPc := 99 }) else none
  | .cReg ok => if s.aPc = 21 ∧ ok = (s.opState == 0) ∧ ok then some { s with opState := 1, registered := true, aPc := 99 } else none

/-- SetOnRequest on a client connection, observers, user code in callbacks -/
def stepUser (s : S) : UAct → Option S
  | .sCall => if !s.server ∧ s.sPc = 0 ∧ !s.orSet ∧ !s.hasOC then some { s with orSet := true, sPc := 1 } else none
  | .sLen v => if s.sPc = 1 ∧ v = s.inLen then (if v > 0 then some { s with sPc := 2 } else some { s with sPc := 99 }) else none
  | .sGet v =>
      if s.sPc = 2 ∧ v = s.st then
        (if v = 0 ∧ s.hasOC then some { s with sPc := 99 } else some { s with sPc := 3 })
      else none
  | .sLock ok =>
      if s.sPc = 3 ∧ ok = (s.processing == 0) then
        (if ok then some (toStart { s with processing := 1, sPc := 99 }) else some { s with sPc := 99 })
      else none
  | .obsLoad v => if v = s.closing then some s else none
  | .uLen v => if v = s.inLen then some s else none
  | .uConsume n r => if s.tH + s.tOC > 0 ∧ n ≤ s.inLen ∧ r = s.inLen - n then some { s with inLen := r } else none
  | .relDo ok =>
      if s.tH + s.tOC > 0 ∧ ok = (s.opState == 1) then
        (if ok then some { s with opState := 2, relHold := s.relHold + 1 } else some s)
      else none
  | .relDone => if s.relHold > 0 then some { s with opState := 1, relHold := s.relHold - 1 } else none

/-- the handler task: closure in connection.onProcess (fixed code) -/
def stepTask (s : S) : TAct → Option S
  | .tC0 ok =>
      if s.tC0 > 0 ∧ ok = (s.st == 0) then
        (if ok then some { s with st := 1, tC0 := s.tC0 - 1, tOCe := s.tOCe + 1 }
         else some (toStart { s with tC0 := s.tC0 - 1 }))
      else none
  | .tOCenter => if s.tOCe > 0 then some { s with ocStarts := s.ocStarts + 1, tOCe := s.tOCe - 1, tOC := s.tOC + 1 } else none
  | .tOCexit => if s.tOC > 0 then some { s with ocEnds := s.ocEnds + 1, tOC := s.tOC - 1, tC2 := s.tC2 + 1 } else none
  | .tOCpanic => if s.tOC > 0 then some { s with panics := s.panics + 1, ocPanics := s.ocPanics + 1, tOC := s.tOC - 1, tP1 := s.tP1 + 1 } else none
  | .tC2 => if s.tC2 > 0 then some { s with connecting := 0, tC2 := s.tC2 - 1, tC3 := s.tC3 + 1 } else none
  | .tC3 v =>
      if s.tC3 > 0 ∧ v = s.closing then
        (if v = 0 then some (toStart { s with tC3 := s.tC3 - 1 }) else some (tDisc { s with tC3 := s.tC3 - 1 }))
      else none
  | .tD1 v =>
      if s.tD1 > 0 ∧ v = s.st then
        (if v ≠ 0 then some { s with tD1 := s.tD1 - 1, tD2 := s.tD2 + 1 } else some (toStart { s with tD1 := s.tD1 - 1 }))
      else none
  | .tD2 ok =>
      if s.tD2 > 0 ∧ ok = (s.connecting == 0) then
        (if ok then some { s with connecting := 1, tD2 := s.tD2 - 1, tD3 := s.tD3 + 1 }
         else some (toStart { s with tD2 := s.tD2 - 1 }))
      else none
  | .tD3 ok =>
      if s.tD3 > 0 ∧ ok = (s.st == 1) then
        (if ok then some { s with st := 2, tD3 := s.tD3 - 1, tODe := s.tODe + 1 }
         else some { s with tD3 := s.tD3 - 1, tD4 := s.tD4 + 1 })
      else none
  | .tODenter => if s.tODe > 0 then some { s with discRuns := s.discRuns + 1, tODe := s.tODe - 1, tOD := s.tOD + 1 } else none
  | .tODexit => if s.tOD > 0 then some { s with tOD := s.tOD - 1, tD4 := s.tD4 + 1 } else none
  | .tD4 => if s.tD4 > 0 then some (toStart { s with connecting := 0, tD4 := s.tD4 - 1 }) else none
  | .t3 v =>
      if s.t3 > 0 ∧ v = s.inLen then
        (if v > 0 then some { s with t3 := s.t3 - 1, tHe := s.tHe + 1 } else some { s with t3 := s.t3 - 1, t4a := s.t4a + 1 })
      else none
  | .tHenter => if s.tHe > 0 then some { s with reqRuns := s.reqRuns + 1, tHe := s.tHe - 1, tH := s.tH + 1 } else none
  | .tHexit => if s.tH > 0 then some { s with tH := s.tH - 1, t4a := s.t4a + 1 } else none
  | .tHpanic => if s.tH > 0 then some { s with panics := s.panics + 1, tH := s.tH - 1, tP1 := s.tP1 + 1 } else none
  | .t4a v =>
      if s.t4a > 0 ∧ v = s.closing then
        (if v = 1 ∨ !s.orSet then some (exitLoop { s with t4a := s.t4a - 1 } v)
         else if v = 0 then some { s with t4a := s.t4a - 1, t4b0 := s.t4b0 + 1 }
         else some { s with t4a := s.t4a - 1, t4b2 := s.t4b2 + 1 })
      else none
  | .t4b0 v =>
      if s.t4b0 > 0 ∧ v = s.inLen then
        (if v = 0 then some (exitLoop { s with t4b0 := s.t4b0 - 1 } 0)
         else some { s with t4b0 := s.t4b0 - 1, tHe := s.tHe + 1 })
      else none
  | .t4b2 v =>
      if s.t4b2 > 0 ∧ v = s.inLen then
        (if v = 0 then some (exitLoop { s with t4b2 := s.t4b2 - 1 } 2)
         else some { s with t4b2 := s.t4b2 - 1, tHe := s.tHe + 1 })
      else none
  | .t6 => if s.t6 > 0 then some { s with processing := 0, t6 := s.t6 - 1, t7a := s.t7a + 1 } else none
  | .t7a v =>
      if s.t7a > 0 ∧ v = s.closing then
        (if v ≠ 0 then some { s with t7a := s.t7a - 1, t7b := s.t7b + 1 } else some (toT8 { s with t7a := s.t7a - 1 }))
      else none
  | .t7b ok =>
      if s.t7b > 0 ∧ ok = (s.processing == 0) then
        (if ok then some (toStart { s with processing := 1, t7b := s.t7b - 1 }) else some (toT8 { s with t7b := s.t7b - 1 }))
      else none
  | .t8a v =>
      if s.t8a > 0 ∧ v = s.inLen then
        (if v > 0 then some { s with t8a := s.t8a - 1, t8b := s.t8b + 1 } else some { s with t8a := s.t8a - 1 })
      else none
  | .t8b ok =>
      if s.t8b > 0 ∧ ok = (s.processing == 0) then
        (if ok then some (toStart { s with processing := 1, t8b := s.t8b - 1 }) else some { s with t8b := s.t8b - 1 })
      else none
  | .tP1 v =>
      if s.tP1 > 0 ∧ v = s.closing then
        (if v = 0 then some { s with tP1 := s.tP1 - 1, tP2a := s.tP2a + 1 } else some { s with tP1 := s.tP1 - 1, tP2b := s.tP2b + 1 })
      else none
  | .tP2a => if s.tP2a > 0 then some { s with processing := 0, tP2a := s.tP2a - 1, cU1 := s.cU1 + 1 } else none
  | .tP2b v =>
      if s.tP2b > 0 ∧ v = s.closing then
        (if v = 1 then some (enterCBd { s with tP2b := s.tP2b - 1 }) else some (enterCBn { s with tP2b := s.tP2b - 1 }))
      else none

/-- the transition relation: `step s a = some s'` iff action `a` (with the result it carries) is possible in `s` -/
def step (s : S) : Act → Option S
  | .c a => stepCloser s a
  | .b a => stepCB s a
  | .h a => stepHup s a
  | .p a => stepPoller s a
  | .a a => stepAcc s a
  | .u a => stepUser s a
  | .t a => stepTask s a

/-- environment actions: new calls by the user, network events, nondeterministic user code.  A state is quiescent
when no OTHER action is enabled. -/
def Act.isEnv : Act → Bool
  | .c (.closeNew _) | .c .dCall | .p .pFetch | .p .pPeerClose | .p (.pRead _) | .p .pHup | .u .sCall | .u (.obsLoad _)
  | .u (.uLen _) | .u (.uConsume _ _) | .u (.relDo _) | .t .tOCpanic | .t .tHpanic => true
  | _ => false

/-- run a list of actions -/
def run (s : S) : List Act → Option S
  | [] => some s
  | a :: as => match step s a with
    | some s' => run s' as
    | none => none

/-- states reachable from an initial state, any configuration, any number of steps -/
inductive Reachable : S → Prop
  | init (server hasOC hasOD orSet : Bool) : Reachable (init server hasOC hasOD orSet)
  | step {s s' : S} (a : Act) : Reachable s → step s a = some s' → Reachable s'

/-- no internal (non-environment) action is enabled -/
def Quiescent (s : S) : Prop := ∀ a : Act, a.isEnv = false → step s a = none

-- derived quantities used by the properties
def S.handlerActive (s : S) : Nat := s.tH
def S.cbActive (s : S) : Nat :=
  s.cbD + s.cbCall + s.cbIn + s.cbF1 + s.cbF1b + s.cbF2 + s.cbF2b + s.cbF3 + s.cbF3b + s.cbF3c + s.cbF4 + s.cbF4n + s.cbF4b + s.cbFx

-- The sync-operation sequences these program counters assume are in Netpoll.Conn.LifeSync (tied to /repo by Netpoll.Tie.Life).

end Netpoll.Conn.Life
