/- Netpoll.Conn.LifeLemmasR0 – third invariant layer `GoodR` (input offered before close, Dekker hand-off, OnConnect first). -/
import Netpoll.Conn.LifeLemmasQ0
namespace Netpoll.Conn.Life

/-- tasks at or after START (they run OnRequest, never OnConnect) -/
def S.startedTasks (s : S) : Nat :=
  s.t3 + s.tHe + s.tH + s.t4a + s.t4b0 + s.t4b2 + s.t6 + s.t7a + s.t7b + s.t8a + s.t8b

/-- tasks in the OnConnect part after the state CAS -/
def S.ocTasks (s : S) : Nat := s.tOCe + s.tOC + s.tC2 + s.tC3 + s.tD1 + s.tD2 + s.tD3 + s.tODe + s.tOD + s.tD4

/-- somebody is about to look at the input buffer and take the processing lock if it is not empty (C06) -/
def S.pendingIn (s : S) : Nat :=
  s.lockedTasks + s.t7a + s.t8a + s.t8b + s.cU1 + (if s.pPc = 4 ∨ s.pPc = 5 then 1 else 0)
  + (if s.sPc = 1 ∨ s.sPc = 2 ∨ s.sPc = 3 then 1 else 0)

/-- third layer (uses `Good`, `GoodQ` of the pre-state): what C06 and C09's OnConnect-before-OnRequest need -/
structure GoodR (s : S) : Prop where
  user_one : s.cU2 + s.cU3 + s.cU4 + s.cU6 ≥ 1 → s.closing = 1
  hup_poller : s.hPc ≥ 1 → s.pPc = 10
  h16_len : (s.hPc = 16 ∧ s.orSet = true ∧ s.d7 = false) → s.inLen = 0
  h16_cfg : (13 ≤ s.hPc ∧ s.hPc ≤ 16) → (s.hasOC = true ∨ s.orSet = true)
  h14_cfg : (s.hPc = 13 ∨ s.hPc = 14 ∨ s.hPc = 15) → s.orSet = true
  h4_cfg : (s.hPc = 4 ∨ s.hPc = 5 ∨ s.hPc = 6) → s.hasOC = false
  a6_cfg : s.aPc = 6 → s.hasOC = false
  panic_cnt : s.tP1 + s.tP2a + s.tP2b ≥ 1 → s.panics ≥ 1
  offered : (s.cbRuns ≥ 1 ∧ s.cbStartClosing = 2 ∧ s.cbStartOr = true ∧ s.panics = 0 ∧ s.d7 = false) → s.cbStartLen = 0
  oc_started : (s.hasOC = true ∧ s.st ≠ 0) → s.tOCe + s.tOC + s.ocEnds + s.ocPanics ≥ 1
  oc_state : s.ocTasks ≥ 1 → s.st ≠ 0
  oc_ended : s.ocEnds + s.ocPanics ≥ 1 → s.st ≠ 0
  started_state : (s.hasOC = true ∧ s.startedTasks + s.tP1 + s.tP2a + s.tP2b ≥ 1) → s.st ≠ 0
  p5_state : (s.pPc = 5 ∧ s.hasOC = true) → s.st ≠ 0
  h15_state : (s.hPc = 15 ∧ s.hasOC = true) → s.st ≠ 0
  s3_state : (s.sPc = 3 ∧ s.hasOC = true) → s.st ≠ 0
  req_after_oc : (s.hasOC = true ∧ s.reqRuns + s.tH ≥ 1) → s.ocEnds + s.ocPanics ≥ 1
  dekker : (s.orSet = true ∧ s.closing = 0 ∧ s.inLen > 0 ∧ (s.hasOC = true → s.ocEnds ≥ 1)) → s.pendingIn ≥ 1

theorem goodr_init (sv oc od orr : Bool) : GoodR (init sv oc od orr) := by
  constructor <;> simp [init, S.lockedTasks, S.cbTotal, S.cbActive, S.cbBeforeFree, S.closersPending, S.pendingQ, S.startedTasks,
    S.ocTasks, S.pendingIn] <;> (try split) <;> simp

end Netpoll.Conn.Life
