/-
  Netpoll.Conn.LifeDemos – concrete action sequences used by the non-vacuity examples and witnesses in Props/C05, C06, C09
  (kept out of the Props files, which contain only theorems and examples).
-/
import Netpoll.Conn.Life
namespace Netpoll.Conn.LifeDemos
open Netpoll.Conn.Life

/-- used in C05.lean -/
def demoRun : List Act :=
  [.a .aPrepE, .a .aPrepX, .a (.aAct1 0), .a (.aReg true), .a (.aAct2 0), .a (.aSt true),
   .p .pFetch, .p (.pDo true), .p (.pRead 5), .p (.pAck 5), .p (.pGet 1), .p (.pLock true), .p .pFinish, .p .pDone,
   .t (.t3 5), .t .tHenter, .u (.uConsume 5 0), .t .tHexit, .t (.t4a 0), .t (.t4b0 0), .t .t6, .t (.t7a 0), .t (.t8a 0),
   .p .pPeerClose, .p .pFetch, .p (.pDo true), .p (.pRead 0), .p (.pAck 0), .p .pHup, .p (.pDet 1), .p .pHDone,
   .h (.hCas true), .h (.hRd true), .h (.hWr true), .h (.hLen 0), .h (.hLock true),
   .b .cbEnterU, .b .cbExitU, .b .cbEnterF, .b (.cbF1 true), .b (.cbF2 true), .b (.cbF3 1), .b (.cbF3b 0), .b .cbF3c,
   .b (.cbF4 0), .b .cbF4b, .b .cbFx]

/-- used in C06.lean -/
def demoWindow : List Act :=
  [.a .aPrepE, .a .aPrepX, .a (.aAct1 0), .a (.aReg true), .a (.aAct2 0), .a (.aSt true),
   .p .pFetch, .p (.pDo true), .p (.pRead 5), .p (.pAck 5), .p (.pGet 1), .p (.pLock true), .p .pFinish, .p .pDone,
   .t (.t3 5), .t .tHenter, .u (.uConsume 5 0), .t .tHexit, .t (.t4a 0), .t (.t4b0 0),
   .p .pFetch, .p (.pDo true), .p (.pRead 3), .p (.pAck 3), .p (.pGet 1), .p (.pLock false), .p (.pTrig true), .p .pFinish, .p .pDone,
   .t .t6, .t (.t7a 0), .t (.t8a 3), .t (.t8b true), .t (.t3 3), .t .tHenter, .u (.uConsume 3 0), .t .tHexit]

/-- used in C06.lean -/
def demoPeerClose : List Act :=
  [.a .aPrepE, .a .aPrepX, .a (.aAct1 0), .a (.aReg true), .a (.aAct2 0), .a (.aSt true),
   .p .pFetch, .p (.pDo true), .p (.pRead 5), .p (.pAck 5), .p (.pGet 1), .p (.pLock true), .p .pFinish, .p .pDone,
   .t (.t3 5), .t .tHenter, .u (.uConsume 5 0), .t .tHexit, .t (.t4a 0), .t (.t4b0 0), .t .t6, .t (.t7a 0),
   .p .pPeerClose, .p .pFetch, .p (.pDo true), .p (.pRead 7), .p (.pAck 7), .p (.pGet 1), .p (.pLock true),
   .p (.pRead 0), .p (.pAck 7), .p .pFinish, .p .pDone, .t (.t8a 7),
   .p .pFetch, .p (.pDo true), .p (.pRead 0), .p (.pAck 7), .p .pHup, .p (.pDet 1), .p .pHDone,
   .h (.hCas true), .h (.hRd true), .h (.hWr true), .h (.hLen 7), .h (.hProc false),
   .t (.t3 7), .t .tHenter, .u (.uConsume 7 0), .t .tHexit, .t (.t4a 2), .t (.t4b2 0)]

/-- used in C09.lean -/
def d17 : List Act :=
  [.a .aPrepE, .a .aPrepX, .a (.aAct1 0), .a (.aReg true), .a (.aAct2 0), .a (.aSt true),
   .p .pFetch, .p (.pDo true), .p (.pRead 5), .p (.pAck 5), .p (.pGet 1), .p (.pLock true), .p .pFinish, .p .pDone,
   .t (.t3 5), .t .tHenter, .u (.uConsume 5 0), .t .tHexit,
   .p .pPeerClose, .p .pFetch, .p (.pDo true), .p (.pRead 0), .p (.pAck 0), .p .pHup, .p (.pDet 1), .p .pHDone,
   .h (.hCas true),
   .t (.t4a 2), .t (.t4b2 0), .b .cbEnterU, .b .cbExitU]

/-- used in C09.lean -/
def demoDisconnect : List Act :=
  [.a .aPrepE, .a .aPrepX, .a (.aAct1 0), .a (.aReg true), .a (.aAct2 0), .a (.aConn true), .a (.aProc true),
   .t (.tC0 true), .t .tOCenter, .t .tOCexit, .t .tC2, .t (.tC3 0), .t (.t4a 0), .t .t6, .t (.t7a 0),
   .p .pPeerClose, .p .pFetch, .p (.pDo true), .p (.pRead 0), .p (.pAck 0), .p .pHup, .p (.pDet 1), .p .pHDone,
   .h (.hCas true), .h (.hRd true), .h (.hWr true), .h (.hGet 1), .h (.hConn true), .h (.hSt true), .h .hODe2, .h .hODx2, .h .hUnl,
   .h (.hLock true), .b .cbEnterU, .b .cbExitU, .b .cbEnterF, .b (.cbF1 true), .b (.cbF2 true), .b (.cbF3 1), .b (.cbF3b 0),
   .b .cbF3c, .b (.cbF4n 0), .b .cbF4b, .b .cbFx]

end Netpoll.Conn.LifeDemos
