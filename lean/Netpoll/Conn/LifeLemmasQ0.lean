/- Netpoll.Conn.LifeLemmasQ0 – second invariant layer `GoodQ` (responsibility for the close callbacks). -/
import Netpoll.Conn.LifeLemmas
namespace Netpoll.Conn.Life

/-- who is still on the way to run the callback list: runners, lock holders (they look at `closing` before they
unlock, and again after), tasks in their exit window before the re-check, closers before their lock attempt, the
hang-up goroutine before its lock attempt -/
def S.pendingQ (s : S) : Nat :=
  s.cbTotal + s.lockedTasks + s.t7a + s.t7b + s.cU1 + s.closersPending + (if 13 ≤ s.hPc ∧ s.hPc ≤ 16 then 1 else 0)

/-- second layer (uses `Good` of the pre-state): responsibility for the close callbacks is never dropped -/
structure GoodQ (s : S) : Prop where
  uc_closed : s.userClosed = true → s.closing ≠ 0
  ho_closed : s.hupOwed = true → s.closing ≠ 0
  resp : (s.userClosed = true ∨ s.hupOwed = true) → s.pendingQ ≥ 1
  fdc_eq : s.fdClosed = s.cbF3b + s.cbF3c + s.cbF4 + s.cbF4n + s.cbF4b + s.cbFx + s.cbDone
  fd_done : (s.cbF4 + s.cbF4n + s.cbF4b + s.cbFx + s.cbDone ≥ 1 ∧ s.dPc = 0) → s.fdCloses ≥ 1

theorem goodq_init (sv oc od orr : Bool) : GoodQ (init sv oc od orr) := by
  constructor <;> simp [init, S.lockedTasks, S.cbTotal, S.cbActive, S.cbBeforeFree, S.closersPending, S.pendingQ]

end Netpoll.Conn.Life
