/-
  Netpoll.Conn.LifeLemmas – inductive invariants of the lifecycle model and their lifting to `Reachable`.

  `Good` collects the safety invariants used by C05/C06/C09:
    * lock ownership: `processing` equals the number of its holders (handler tasks between lock and unlock, plus
      callback-list runners, which never release it);
    * every execution of the callback list is a holder, so there is at most one, ever;
    * close(2), epoll DEL and the slot free are each guarded by their once-counter.
  One preservation lemma per actor (`good_closer`, `good_cb`, …), so that no single `grind` call sees more than one
  actor's case split; `good_step` combines them; `good_reachable` lifts to all reachable states (any number of steps,
  closers, deliveries, tasks).
-/
import Netpoll.Conn.Life
namespace Netpoll.Conn.Life

/-- handler tasks that hold `processing` (every task position between its lock and its unlock) -/
def S.lockedTasks (s : S) : Nat :=
  s.tC0 + s.tOCe + s.tOC + s.tC2 + s.tC3 + s.tD1 + s.tD2 + s.tD3 + s.tODe + s.tOD + s.tD4 + s.t3 + s.tHe + s.tH
  + s.t4a + s.t4b0 + s.t4b2 + s.t6 + s.tP1 + s.tP2a + s.tP2b

/-- callback-list runners, finished ones included (the lock is never released after the callbacks) -/
def S.cbTotal (s : S) : Nat := s.cbActive + s.cbDone

/-- CB runners that have not yet freed the operator slot -/
def S.cbBeforeFree (s : S) : Nat := s.cbD + s.cbCall + s.cbIn + s.cbF1 + s.cbF1b + s.cbF2 + s.cbF2b

/-- closers on their way (after closeBy, before their lock attempt) -/
def S.closersPending (s : S) : Nat := s.cU2 + s.cU3 + s.cU4 + s.cU5 + s.cU6

structure Good (s : S) : Prop where
  lock_eq : s.processing = s.lockedTasks + s.cbTotal
  lock_le : s.processing ≤ 1
  runs_eq : s.cbRuns = s.cbTotal
  fd_guard : s.cbF3b + s.cbF3c + s.fdCloses ≤ 1
  fd_closed : s.cbF3b + s.cbF3c + s.fdCloses ≥ 1 → s.fdClosed ≥ 1
  del_le : s.epollDels ≤ 1
  del_det : s.epollDels ≥ 1 → s.detached ≥ 1
  free_eq : s.slotFrees + s.cbBeforeFree = s.cbTotal
  cb_closed : s.cbTotal ≥ 1 → s.closing ≠ 0
  closers_closed : s.closersPending ≥ 1 → s.closing ≠ 0
  hup_closed : (2 ≤ s.hPc ∧ s.hPc ≤ 16) → s.closing ≠ 0
  p2b_closed : s.tP2b ≥ 1 → s.closing ≠ 0
  det_flag : s.detachWon = true → s.detaching = 1
  det_pc : s.dPc ≤ 1 → s.detaching = 0 ∧ s.detachWon = false
  fd_det : s.cbF3c + s.fdCloses ≥ 1 → s.detachWon = false
  fd_cb : s.fdCloses + s.cbBeforeFree + s.cbF3 + s.cbF3b + s.cbF3c ≤ s.cbTotal
  det_set : s.dPc ≥ 2 → s.detaching = 1
  t4b2_closed : s.t4b2 ≥ 1 → s.closing ≠ 0

theorem good_init (sv oc od orr : Bool) : Good (init sv oc od orr) := by
  constructor <;> simp [init, S.lockedTasks, S.cbTotal, S.cbActive, S.cbBeforeFree, S.closersPending]


end Netpoll.Conn.Life
