import Netpoll.Conn.Flush
/-
Inductive invariant of the flush model `Netpoll.Conn.Flush` (property C08).  The preservation lemmas (one per
action / flusher program counter) are generated into FlushInvLemmas*.lean by lib/gen_rf_lemmas.py; the property
theorems are in Netpoll/Props/C08.lean.  Everything about the hand-off (fields r1–r9) is stated under
`timedOutEver = false`: after an ErrWriteTimeout the code itself gives up that discipline (known finding D9).
-/
namespace Netpoll.Conn.Flush

/-- the flusher is parked or about to park / leave the wait (it holds `flushing`, interest may be RW) -/
def inCycle : FPc → Bool
  | .arm | .wait _ | .tmoRecv | .tmoRw2r | .stopTimer _ | .unlock _ => true
  | _ => false

def timedArmed : FPc → Bool
  | .wait true | .stopTimer _ => true
  | _ => false

/-- no Flush call is past its IsActive check -/
def quiet : FPc → Bool
  | .idle | .chkActive _ _ => true
  | _ => false

/-- the call has passed its IsActive check and has not yet taken anything from the trigger slot -/
def preWait : FPc → Bool
  | .lock _ _ | .submit _ _ | .chkEmpty1 _ | .send _ | .chkEmpty2 _ | .r2rw _ | .arm | .wait _ => true
  | _ => false

/-- the call does not hold `flushing` (yet) -/
def preLock : FPc → Bool
  | .idle | .chkActive _ _ | .lock _ _ => true
  | _ => false

structure Good (s : S) : Prop where
  -- accounting: nothing lost, nothing twice
  acc : s.accepted + s.out = s.submitted
  -- timer discipline
  tmr1 : ¬ (s.timerRunning = true ∧ s.tick = true)
  tmr2 : timedArmed s.f = true → (s.timerRunning = true ∨ s.tick = true)
  tmr3 : timedArmed s.f = false → s.timerRunning = false ∧ s.tick = false
  -- the lock: 1 exactly while a call is past lock(flushing); 2 (finalizer) only after a close and only taken from 0
  lk0 : s.flushing ≤ 2
  lk1 : preLock s.f = true → s.flushing = 0 ∨ s.flushing = 2
  lk2 : preLock s.f = false → s.flushing = 1
  lk3 : s.flushing = 2 → s.closing ≠ 0
  cl1 : s.c = .trig → s.closing = 1
  cl2 : s.slot = some .errClosed → s.closing = 1
  cl3 : s.closing ≤ 1
  -- as long as no Flush has ever timed out:
  -- the poller works on this connection's output only inside a wait cycle of the flusher
  -- (or, once the connection is closed, after the flusher was woken by the close)
  r1 : s.timedOutEver = false → (s.interestW = true ∨ s.p ≠ .idle) → inCycle s.f = true ∨ (s.closing ≠ 0 ∧ quiet s.f = true)
  r2 : s.timedOutEver = false → (s.p = .rw2rCtl ∨ s.p = .rw2rTrig) → s.out = 0
  r3 : s.timedOutEver = false → s.p = .rw2rTrig → s.interestW = false
  r4 : s.timedOutEver = false → (s.p = .outputs ∨ s.p = .sendAck ∨ s.p = .ackChk) → (s.f = .arm ∨ (∃ t, s.f = .wait t)) → s.interestW = true
  r5 : s.timedOutEver = false → s.slot = some .done → s.out = 0 ∧ s.p = .idle ∧ s.interestW = false ∧ (inCycle s.f = true ∨ (s.closing ≠ 0 ∧ quiet s.f = true))
  r6 : s.timedOutEver = false → ∀ t, s.f = .r2rw t → s.out > 0
  -- NO LOST WAKE-UP: a parked flusher always has a drain, a token or a closer coming
  r7 : s.timedOutEver = false → ∀ t, (s.f = .wait t ∨ (s.f = .arm ∧ t = true)) → s.slot = none → (s.closing = 0 → s.interestW = true ∨ s.p = .rw2rTrig) ∧ (s.out = 0 → s.p = .ackChk ∨ s.p = .rw2rCtl ∨ s.p = .rw2rTrig)
  -- pending and past results are right
  r8 : s.timedOutEver = false → ∀ r, (s.f = .unlock r ∨ s.f = .stopTimer r) → (r = .ok → s.out = 0 ∧ s.p = .idle ∧ s.interestW = false ∧ s.slot ≠ some .done) ∧ (r = .errClosed → s.closing ≠ 0) ∧ r ≠ .errConcurrent
  r9 : s.timedOutEver = false → ∀ x ∈ s.results, x.1 = .ok → x.2.1 = 0
  pw : preWait s.f = true → s.closing ≠ 0 → s.c = .trig ∨ s.slot ≠ none
  st : ∀ r, s.f = .stopTimer r → s.timerRunning = true ∨ s.tick = true

end Netpoll.Conn.Flush
