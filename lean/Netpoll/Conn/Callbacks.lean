/-
  Netpoll.Conn.Callbacks – the closeCallbacks list of connection_onevent.go as a value: `AddCloseCallback` allocates a
  node whose `pre` is the current `latest` and stores it as `latest`; `closeCallback` walks `latest, latest.pre, …`.
  A list with the head as `latest` is exactly that linked structure.
-/
namespace Netpoll.Conn.Callbacks

/-- `AddCloseCallback(cb)`: cb.pre := latest; latest := cb -/
def addCloseCallback {α : Type} (latest : List α) (cb : α) : List α := cb :: latest

/-- the order in which `closeCallback` calls the registered functions -/
def runOrder {α : Type} (latest : List α) : List α := latest

end Netpoll.Conn.Callbacks
