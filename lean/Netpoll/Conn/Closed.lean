import Netpoll.Buf.Model
/-
Sequential post-close semantics of the Connection / Reader / Writer methods (connection_impl.go,
connection_reactor.go: closeBuffer), over the LinkBuffer value model.  Used by C12: after the close has
completed there is no concurrency left, so every method is a function of (closing, buffers).
Core Lean only.
-/
namespace Netpoll.Conn.Closed
open Netpoll.Buf

inductive Err where
  | connClosed   -- ErrConnClosed
  | eof          -- ErrEOF (matches ErrConnClosed too, see exception.Is)
  | other        -- any other error (e.g. "link buffer next[n] not enough")
deriving Repr, DecidableEq

inductive Out (α : Type) where
  | ok (r : Res α)
  | err (e : Err)
  | errWith (bs : List α) (e : Err)   -- Until: data together with the error
  | panic
  | blocks                            -- would wait (only possible while the connection is open)
deriving Repr, DecidableEq

/-- connection state that matters after the close: `closing` (0 none, 1 user, 2 poller), whether the
finalizer ran (`tornDown`), whether OnConnect/OnRequest is set (`cb`: the hang-up tears the connection down by itself and
closeBuffer recycles the output buffer unconditionally), whether an OnRequest handler is set (`req`: unread input has been
offered to it, closeBuffer recycles the input buffer unconditionally; with OnConnect alone unread input is kept – fix D19). -/
structure CC (α : Type) where
  closing : Nat
  tornDown : Bool
  cb : Bool
  input : LB α
  output : LB α
  req : Bool := false
deriving Repr, DecidableEq

variable {α : Type}

def closedLB : LB α := { nodes := [], r := 0, f := 0, w := 0, length := 0, mallocSize := 0, caches := 0, cachePeek := none }

/-- `closeBuffer()`: the input buffer is recycled if it is empty or an OnRequest handler is set, the output buffer if it
is empty or any callback is set. -/
def CC.closeBuffer (c : CC α) : CC α :=
  { c with
    input := if c.input.length = 0 ∨ c.req then closedLB else c.input
    output := if c.output.length = 0 ∨ c.cb then closedLB else c.output }

/-- the finalizer (stop flushing, free operator, close fd, closeBuffer), once. -/
def CC.teardown (c : CC α) : CC α := if c.tornDown then c else { c.closeBuffer with tornDown := true }

/-- `IsActive()` -/
def CC.isActive (c : CC α) : Bool := c.closing = 0

/-- `waitRead(n)` without deadline: `none` = enough data; `some .blocks`-like results are encoded by the caller. -/
def CC.waitRead (c : CC α) (n : Int) : Option (Out α) :=
  if n ≤ (c.input.length : Int) then none
  else if c.closing = 2 then some (.err .eof)
  else if c.closing = 1 then some (.err .connClosed)
  else some .blocks

def ofBuf (r : Option (LB α × Res α)) (c : CC α) (setIn : CC α → LB α → CC α) : CC α × Out α :=
  match r with
  | none => (c, .panic)
  | some (b, .err) => (setIn c b, .err .other)
  | some (b, res) => (setIn c b, .ok res)

def setIn (c : CC α) (b : LB α) : CC α := { c with input := b }
def setOut (c : CC α) (b : LB α) : CC α := { c with output := b }

inductive Meth (α : Type) where
  -- Reader
  | next (n : Int) | peek (n : Int) | skip (n : Int) | readString (n : Int) | readBinary (n : Int) | readByte
  | slice (n : Int) | release | len | until (d : α) | read (l : Nat)
  -- Writer
  | malloc (n : Int) | mallocLen | flush | mallocAck (n : Int) | appendW | writeString (p : List α)
  | writeBinary (p : List α) | writeDirect (p : List α) (remain : Int) | writeByte (a : α) | write (p : List α)
  -- Connection
  | isActive | close | detach
deriving Repr

/-- one method call on the connection. -/
def CC.call [DecidableEq α] (cfg : Cfg) (c : CC α) : Meth α → CC α × Out α
  | .next n => match c.waitRead n with
    | some o => (c, o)
    | none => ofBuf (c.input.next cfg n) c setIn
  | .peek n => match c.waitRead n with
    | some o => (c, o)
    | none => ofBuf (c.input.peek cfg n) c setIn
  | .skip n => match c.waitRead n with
    | some o => (c, o)
    | none => ofBuf (c.input.skip n) c setIn
  | .readString n => match c.waitRead n with
    | some o => (c, o)
    | none => ofBuf (c.input.readBinary n) c setIn
  | .readBinary n => match c.waitRead n with
    | some o => (c, o)
    | none => ofBuf (c.input.readBinary n) c setIn
  | .readByte => match c.waitRead 1 with
    | some o => (c, o)
    | none => ofBuf c.input.readByte c setIn
  | .slice n => match c.waitRead n with
    | some o => (c, o)
    | none => match c.input.slice cfg n with
      | none => (c, .panic)
      | some (b, .err, _) => ({ c with input := b }, .err .other)
      | some (b, r, _) => ({ c with input := b }, .ok r)
  | .release =>
    -- `if Len()==0 && IsActive() && operator.do() {…}` is skipped on a closed connection; then inputBuffer.Release()
    if c.isActive then (c, .blocks) else ofBuf c.input.release c setIn
  | .len => (c, .ok (.num c.input.length))
  | .until d =>
    -- for { if err = waitRead(n+1); err != nil { line, _ = Next(Len()); return }; … }
    match c.waitRead 1 with
    | some (.err e) =>
      match c.input.next cfg c.input.length with
      | none => (c, .panic)
      | some (b, .bytes bs) => ({ c with input := b }, .errWith bs e)
      | some (b, _) => ({ c with input := b }, .errWith [] e)
    | some o => (c, o)
    | none =>
      match c.input.indexByte d 0 with
      | none => (c, .panic)
      | some i =>
        if i ≥ 0 then
          match c.waitRead (i + 1) with
          | some o => (c, o)
          | none => ofBuf (c.input.next cfg (i + 1)) c setIn
        else
          -- n = l; waitRead(l+1) fails on a closed connection; everything buffered is returned with the error
          match c.waitRead ((c.input.length : Int) + 1) with
          | some (.err e) =>
            match c.input.next cfg c.input.length with
            | none => (c, .panic)
            | some (b, .bytes bs) => ({ c with input := b }, .errWith bs e)
            | some (b, _) => ({ c with input := b }, .errWith [] e)
          | some o => (c, o)
          | none => (c, .blocks)
  | .read l =>
    if l = 0 then (c, .ok (.bytes []))
    else match c.waitRead 1 with
      | some o => (c, o)
      | none => ofBuf (c.input.readCopy l) c setIn
  | .malloc n => if !c.isActive then (c, .err .connClosed) else ofBuf (c.output.malloc cfg n []) c setOut
  | .mallocLen => (c, .ok (.num c.output.mallocSize))
  | .flush => if !c.isActive then (c, .err .connClosed) else (c, .blocks)
  | .mallocAck n => if !c.isActive then (c, .err .connClosed) else ofBuf (c.output.mallocAck n) c setOut
  | .appendW => if !c.isActive then (c, .err .connClosed) else (c, .blocks)
  | .writeString p => if !c.isActive then (c, .err .connClosed) else ofBuf (c.output.writeBinary cfg p p.length) c setOut
  | .writeBinary p => if !c.isActive then (c, .err .connClosed) else ofBuf (c.output.writeBinary cfg p p.length) c setOut
  | .writeDirect p r => if !c.isActive then (c, .err .connClosed) else ofBuf (c.output.writeDirect cfg p p.length r) c setOut
  | .writeByte a => if !c.isActive then (c, .err .connClosed) else ofBuf (c.output.malloc cfg 1 [a]) c setOut
  | .write _ => if !c.isActive then (c, .err .connClosed) else (c, .blocks)
  | .isActive => (c, .ok (.num (if c.isActive then 1 else 0)))
  | .close =>
    -- onClose: closeBy(user) or force(closing,user); closeCallback(true, …) runs the finalizer if nobody did
    ({ c.teardown with closing := 1 }, .ok .unit)
  | .detach =>
    -- Detach: `detaching = 1; onClose()` - the same path (the finalizer only skips closing the descriptor)
    ({ c.teardown with closing := 1 }, .ok .unit)

/-- how a live connection is closed (C12's close modes) -/
inductive Mode where
  | user | peer | peerThenUser | detach
  -- through an OnRequest handler task (`onProcess`): the handler calls Close and returns / calls Close and panics; the peer
  -- closes while the handler runs and it returns / it then panics; the handler panics on the still active connection
  | hUser | hUserPanic | hPeer | hPeerPanic | hPanic
deriving Repr, DecidableEq

/-- the modes in which the close goes through a handler task -/
def Mode.viaHandler : Mode → Bool
  | .hUser | .hUserPanic | .hPeer | .hPeerPanic | .hPanic => true
  | _ => false

/-- the state after the close has completed. Peer close without callbacks leaves the teardown to the user. -/
def CC.closeBy (c : CC α) : Mode → CC α
  | .user => { c.teardown with closing := 1 }
  | .detach => { c.teardown with closing := 1 }
  | .peer => if c.cb then { c.teardown with closing := 2 } else { c with closing := 2 }
  | .peerThenUser =>
    let c1 : CC α := if c.cb then { c.teardown with closing := 2 } else { c with closing := 2 }
    { c1.teardown with closing := 1 }
  -- onProcess: the task holds the `processing` lock; a Close / hang-up meanwhile only sets `closing` (its closeCallback(true,…)
  -- fails to take the lock); the task runs the close callbacks itself when it ends - after the loop (`closedBy != none`:
  -- closeCallback(false, …)) or, when the handler panicked, in its deferred function: still holding the lock if the
  -- connection is already closed, else `unlock(processing); Close()` (which takes it again).  In every case the finalizer
  -- has run exactly once and the lock stays taken, so no later Close/Detach runs it again.
  | .hUser | .hUserPanic | .hPanic => { c.teardown with closing := 1 }
  | .hPeer | .hPeerPanic => { c.teardown with closing := 2 }

end Netpoll.Conn.Closed
