/-
  Netpoll.Conn.ReadFlushSync – the ordered synchronisation operations (package syncops: atomics, channel operations,
  timer operations, the sendmsg wrapper, calls of other protocol functions) that the program counters of
  Netpoll.Conn.Read (C07) and Netpoll.Conn.Flush (C08) - and the line mapping of Driver/Read.lean, Driver/Flush.lean -
  assume for each mirrored function, as read off the code at e49c1fd+ (waitRead / waitReadWithTimeout: at the D20 fix, which added the
  re-checks of Len() after `c.status(closing)` (case poller, case user) and after a closer's error was received).  The k-th entry of a list is the schedule point
  "<function>#k" of tools/instrument.  Netpoll.Tie.ReadFlush proves `Gen.ReadFlush.sync_f = expect_f` by `decide` against
  the lists regenerated from /repo on every run; a mismatch means a mirrored function gained, lost or reordered a
  synchronisation step, i.e. the hand-written model must be re-validated (checks/c07.py, c08.py then escalate the
  schedule search and report per DESIGN 9).
-/
namespace Netpoll.Conn.ReadFlushSync


def expect_connection_waitRead : List String := [
  "c.inputBuffer.Len()",
  "atomic.StoreInt64(&c.waitReadSize,int64(n))",
  "atomic.StoreInt64(&c.waitReadSize,0)",
  "c.waitReadWithTimeout(n,timeout)",
  "c.waitReadWithTimeout(n,c.readTimeout)",
  "c.inputBuffer.Len()",
  "c.status(closing)",
  "c.inputBuffer.Len()",
  "c.inputBuffer.Len()",
  "recv c.readTrigger",
  "c.inputBuffer.Len()"]

def expect_connection_waitReadWithTimeout : List String := [
  "time.NewTimer(timeout)",
  "c.readTimer.Reset(timeout)",
  "c.inputBuffer.Len()",
  "c.status(closing)",
  "c.inputBuffer.Len()",
  "c.inputBuffer.Len()",
  "select",
  "recv c.readTimer.C",
  "c.inputBuffer.Len()",
  "recv c.readTrigger",
  "c.inputBuffer.Len()",
  "c.readTimer.Stop()",
  "recv c.readTimer.C"]

def expect_connection_inputAck : List String := [
  "c.inputBuffer.bookAck(0)",
  "c.inputBuffer.bookAck(n)",
  "c.onRequest()",
  "atomic.LoadInt64(&c.waitReadSize)",
  "c.triggerRead(nil)"]

def expect_connection_triggerRead : List String := [
  "select",
  "send c.readTrigger"]

def expect_connection_Flush : List String := [
  "c.IsActive()",
  "c.lock(flushing)",
  "c.unlock(flushing)",
  "c.outputBuffer.Flush()",
  "c.flush()"]

def expect_connection_Write : List String := [
  "c.IsActive()",
  "c.lock(flushing)",
  "c.unlock(flushing)",
  "c.outputBuffer.Malloc(len(p))",
  "c.outputBuffer.Flush()",
  "c.flush()"]

def expect_connection_flush : List String := [
  "c.outputBuffer.IsEmpty()",
  "c.outputBuffer.GetBytes(c.outputBarrier.bs)",
  "sendmsg(c.fd,bs,c.outputBarrier.ivs,false)",
  "c.outputBuffer.Skip(n)",
  "c.outputBuffer.Release()",
  "c.outputBuffer.IsEmpty()",
  "c.operator.Control(PollR2RW)",
  "c.waitFlush()"]

def expect_connection_waitFlush : List String := [
  "recv c.writeTrigger",
  "time.NewTimer(timeout)",
  "c.writeTimer.Reset(timeout)",
  "select",
  "recv c.writeTrigger",
  "c.writeTimer.Stop()",
  "recv c.writeTimer.C",
  "recv c.writeTimer.C",
  "select",
  "recv c.writeTrigger",
  "c.operator.Control(PollRW2R)"]

def expect_connection_outputs : List String := [
  "c.outputBuffer.IsEmpty()",
  "c.rw2r()",
  "c.outputBuffer.GetBytes(vs)"]

def expect_connection_outputAck : List String := [
  "c.outputBuffer.Skip(n)",
  "c.outputBuffer.Release()",
  "c.outputBuffer.IsEmpty()",
  "c.rw2r()"]

def expect_connection_rw2r : List String := [
  "c.operator.Control(PollRW2R)",
  "c.triggerWrite(nil)"]

def expect_connection_triggerWrite : List String := [
  "select",
  "send c.writeTrigger"]

def expect_connection_Release : List String := [
  "c.inputBuffer.Len()",
  "c.IsActive()",
  "c.operator.do()",
  "c.inputBuffer.Len()",
  "c.operator.done()",
  "c.inputBuffer.Release()"]

def expect_connection_closeBuffer : List String := [
  "c.onConnectCallback.Load()",
  "c.onRequestCallback.Load()",
  "c.inputBuffer.Len()",
  "c.inputBuffer.Close()",
  "c.outputBuffer.Len()",
  "c.outputBuffer.Close()"]

def expect_UnsafeLinkBuffer_Skip : List String := [
  "b.Len()",
  "b.read.Len()"]

def expect_UnsafeLinkBuffer_Flush : List String := []

def expect_UnsafeLinkBuffer_bookAck : List String := []

def expect_UnsafeLinkBuffer_Close : List String := [
  "atomic.StoreInt64(&b.length,0)",
  "b.Release()",
  "nd.Release()"]

def expect_UnsafeLinkBuffer_IsEmpty : List String := [
  "b.Len()"]

def expect_iosend : List String := [
  "sendmsg(fd,bs,ivs,zerocopy)"]

end Netpoll.Conn.ReadFlushSync
