/-
C08 – Flush completes exactly when the kernel has taken the data.
Interleaving model of connection.Flush / flush / waitFlush (connection_impl.go) against the poller's
write events (outputs / outputAck / rw2r, connection_reactor.go), closers and the write timer, with an
ADVERSARIAL kernel (each send accepts any part of what is offered, or nothing).
One model step per atomic step of the Go code.  Any number of Flush calls (one flusher at a time holds
`flushing`; a concurrent one is rejected), any number of poller write events.  Core Lean only.

Tied to the code by trace conformance (lean/Driver/Flush.lean replays the traces of the real code under the
controlled scheduler with a scripted kernel, go/inpkg/sched_flush.go) and by the sync-operation lists of
Netpoll.Tie.ReadFlush.  Read off the code while building that tie:
  * outputAck is two steps (Skip, then the IsEmpty check that decides about rw2r): `psend` / `ackChk`;
  * waitFlush with an already expired write deadline returns ErrWriteTimeout right after Control(PollR2RW),
    WITHOUT Control(PollRW2R): the descriptor stays registered for writability (`flushX`, `dlExpired`);
  * the finalizer's `stop(flushing)` (CAS 0 -> 2) after a close (`stopF`): a Flush that passed its IsActive check
    before the close then fails its lock and reports ErrConcurrentAccess.
-/
namespace Netpoll.Conn.Flush

inductive Tok where
  | done        -- nil: the poller drained the buffer
  | errClosed   -- ErrConnClosed pushed by a close path
deriving Repr, DecidableEq

inductive Result where
  | ok | errClosed | errTimeout | errConcurrent
deriving Repr, DecidableEq

/-- the flushing goroutine inside Flush() -/
inductive FPc where
  | idle
  | chkActive (add : Nat) (timed : Bool)   -- `if !c.IsActive()`
  | lock (add : Nat) (timed : Bool)        -- `c.lock(flushing)`
  | submit (add : Nat) (timed : Bool)      -- `c.outputBuffer.Flush()`: `add` malloc'ed bytes become sendable
  | chkEmpty1 (timed : Bool)               -- `if c.outputBuffer.IsEmpty() { return nil }`
  | send (timed : Bool)                    -- GetBytes; sendmsg; Skip; Release
  | chkEmpty2 (timed : Bool)
  | r2rw (timed : Bool)                    -- `c.operator.Control(PollR2RW)`
  | arm                                    -- timed: NewTimer / Reset
  | wait (timed : Bool)                    -- `<-c.writeTrigger` / select
  | tmoRecv                                -- timer case: second, non-blocking receive of writeTrigger
  | tmoRw2r                                -- `c.operator.Control(PollRW2R)`
  | stopTimer (r : Result)                 -- trigger case: `if !timer.Stop() { <-timer.C }`
  | unlock (r : Result)                    -- deferred `c.unlock(flushing)`
deriving Repr, DecidableEq

/-- the poller inside one write event for this descriptor (operator token held) -/
inductive PPc where
  | idle
  | outputs             -- `c.outputs`: empty? rw2r : GetBytes
  | sendAck             -- iosend; outputAck(n): Skip; Release
  | ackChk              -- outputAck: `if c.outputBuffer.IsEmpty() { c.rw2r() }`
  | rw2rCtl             -- rw2r: Control(PollRW2R)
  | rw2rTrig            -- rw2r: triggerWrite(nil)
deriving Repr, DecidableEq

inductive CPc where
  | none | trig
deriving Repr, DecidableEq

structure S where
  out : Nat := 0                -- bytes submitted and not yet accepted by the kernel (outputBuffer.Len())
  accepted : Nat := 0           -- ghost: bytes the kernel has accepted
  submitted : Nat := 0          -- ghost: bytes submitted by Flush calls
  interestW : Bool := false     -- epoll interest includes OUT (after R2RW, until RW2R)
  slot : Option Tok := none     -- writeTrigger (capacity 1)
  flushing : Nat := 0           -- 0 free, 1 held by a flusher, 2 stopped by the finalizer
  closing : Nat := 0
  timerRunning : Bool := false
  tick : Bool := false
  f : FPc := .idle
  p : PPc := .idle
  c : CPc := .none
  timedOutEver : Bool := false  -- ghost: some Flush on this connection returned ErrWriteTimeout
  results : List (Result × Nat × Bool) := []   -- ghost: (result, `out` at return, timedOutEver before the call), newest first
  startedAfterTimeout : Bool := false
  dlExpired : Bool := false     -- the call in progress has a write deadline that has already expired
deriving Repr, DecidableEq

inductive Act where
  | flush (add : Nat) (timed : Bool)   -- a goroutine calls Flush with `add` malloc'ed bytes pending
  | flushX (add : Nat)                 -- ... with a write deadline that has already expired
  | stopF                              -- the finalizer (after a close): `stop(flushing)` succeeds, CAS(flushing, 0, 2)
  | flush2                             -- another goroutine calls Flush while one is in progress: rejected, changes nothing
  | fstep
  | fsend (k : Nat)                    -- the flusher's sendmsg accepts k bytes (0 = EAGAIN)
  | recvSlot | recvTick
  | wevent                             -- the poller takes a write event (only while OUT is registered)
  | pstep
  | psend (k : Nat)                    -- the poller's iosend accepts k bytes
  | close                              -- CAS(closing) by a closer
  | cstep                              -- its triggerWrite(ErrConnClosed)
  | fire
deriving Repr, DecidableEq

def trySend (s : S) (t : Tok) : S := if s.slot.isNone then { s with slot := some t } else s

def finish (s : S) (r : Result) : S :=
  { s with f := .idle, flushing := if s.flushing = 1 then 0 else s.flushing,
           results := (r, s.out, s.startedAfterTimeout) :: s.results,
           timedOutEver := if r = .errTimeout then true else s.timedOutEver }

def step (s : S) : Act → Option S
  | .flush add timed => if s.f = .idle then some { s with f := .chkActive add timed, startedAfterTimeout := s.timedOutEver, dlExpired := false } else none
  | .flushX add => if s.f = .idle then some { s with f := .chkActive add true, startedAfterTimeout := s.timedOutEver, dlExpired := true } else none
  | .stopF => if s.flushing = 0 ∧ s.closing ≠ 0 then some { s with flushing := 2 } else none
  | .flush2 => if s.f ≠ .idle ∧ s.flushing = 1 then some s else none   -- lock(flushing) fails: ErrConcurrentAccess
  | .fstep =>
    match s.f with
    | .chkActive add timed =>
      if s.closing ≠ 0 then some { s with f := .idle, results := (.errClosed, s.out, s.startedAfterTimeout) :: s.results }
      else some { s with f := .lock add timed }
    | .lock add timed =>
      if s.flushing = 0 then some { s with flushing := 1, f := .submit add timed }
      else some { s with f := .idle, results := (.errConcurrent, s.out, s.startedAfterTimeout) :: s.results }
    | .submit add timed => some { s with out := s.out + add, submitted := s.submitted + add, f := .chkEmpty1 timed }
    | .chkEmpty1 timed => if s.out = 0 then some { s with f := .unlock .ok } else some { s with f := .send timed }
    | .chkEmpty2 timed => if s.out = 0 then some { s with f := .unlock .ok } else some { s with f := .r2rw timed }
    | .r2rw timed =>
      if timed ∧ s.dlExpired then some { s with interestW := true, f := .unlock .errTimeout }   -- `timeout <= 0`: no RW2R
      else some { s with interestW := true, f := if timed then .arm else .wait false }
    | .arm => some { s with timerRunning := true, f := .wait true }
    | .tmoRecv =>
      match s.slot with
      | some .done => some { s with slot := none, f := .unlock .ok }
      | some .errClosed => some { s with slot := none, f := .unlock .errClosed }
      | none => some { s with f := .tmoRw2r }
    | .tmoRw2r => some { s with interestW := false, f := .unlock .errTimeout }
    | .stopTimer r =>
      if s.timerRunning then some { s with timerRunning := false, f := .unlock r }
      else if s.tick then some { s with tick := false, f := .unlock r }
      else none
    | .unlock r => some (finish s r)
    | _ => none
  | .fsend k =>
    match s.f with
    | .send timed => if k ≤ s.out then some { s with out := s.out - k, accepted := s.accepted + k, f := .chkEmpty2 timed } else none
    | _ => none
  | .recvSlot =>
    match s.f, s.slot with
    | .wait timed, some t =>
      let r := match t with | .done => Result.ok | .errClosed => Result.errClosed
      some { s with slot := none, f := if timed then .stopTimer r else .unlock r }
    | _, _ => none
  | .recvTick =>
    match s.f with
    | .wait true => if s.tick then some { s with tick := false, f := .tmoRecv } else none
    | _ => none
  | .wevent => if s.p = .idle ∧ s.interestW then some { s with p := .outputs } else none
  | .pstep =>
    match s.p with
    | .outputs => if s.out = 0 then some { s with p := .rw2rCtl } else some { s with p := .sendAck }
    | .ackChk => if s.out = 0 then some { s with p := .rw2rCtl } else some { s with p := .idle }
    | .rw2rCtl => some { s with interestW := false, p := .rw2rTrig }
    | .rw2rTrig => some { (trySend s .done) with p := .idle }
    | _ => none
  | .psend k =>
    match s.p with
    | .sendAck =>
      if k ≤ s.out then some { s with out := s.out - k, accepted := s.accepted + k, p := .ackChk } else none
    | _ => none
  | .close => if s.closing = 0 then some { s with closing := 1, c := .trig } else none
  | .cstep => if s.c = .trig then some { (trySend s .errClosed) with c := .none } else none
  | .fire => if s.timerRunning then some { s with timerRunning := false, tick := true } else none

def init : S := {}

def run (s : S) : List Act → Option S
  | [] => some s
  | a :: rest => match step s a with | none => none | some s' => run s' rest

end Netpoll.Conn.Flush
