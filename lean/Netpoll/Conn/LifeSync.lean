/-
  Netpoll.Conn.LifeSync – the ordered synchronisation operations (package syncops: atomics, channel operations, spin yields,
  user-callback calls, close(2), calls of other protocol functions) that the program counters of Netpoll.Conn.Life assume
  for each mirrored function, as read off the code after fixes d05/d06/d10/d14.  The k-th entry of a list is the
  schedule point "<function>#k" of tools/instrument.  Netpoll.Tie.Life proves `Gen.Life.sync_f = expect_f` by `decide`
  against the lists regenerated from /repo on every run; a mismatch means a mirrored function gained, lost or
  reordered a synchronisation step, i.e. the hand-written model must be re-validated (lib/schedrun.py then escalates
  the schedule search and reports per DESIGN 9).
-/
namespace Netpoll.Conn.LifeSync


def expect_locker_closeBy : List String := [
  "atomic.CompareAndSwapInt32(&l.keychain[closing],0,w)"]

def expect_locker_isCloseBy : List String := [
  "atomic.LoadInt32(&l.keychain[closing])"]

def expect_locker_status : List String := [
  "atomic.LoadInt32(&l.keychain[k])"]

def expect_locker_force : List String := [
  "atomic.StoreInt32(&l.keychain[k],v)"]

def expect_locker_lock : List String := [
  "atomic.CompareAndSwapInt32(&l.keychain[k],0,1)"]

def expect_locker_unlock : List String := [
  "atomic.StoreInt32(&l.keychain[k],0)"]

def expect_locker_stop : List String := [
  "atomic.CompareAndSwapInt32(&l.keychain[k],0,2)",
  "atomic.LoadInt32(&l.keychain[k])",
  "runtime.Gosched()"]

def expect_connection_onHup : List String := [
  "c.closeBy(poller)",
  "c.triggerRead(Exception(ErrEOF, \"peer close\"))",
  "c.triggerWrite(Exception(ErrConnClosed, \"peer close\"))",
  "c.onDisconnect()",
  "c.onConnectCallback.Load()",
  "c.onRequestCallback.Load()",
  "c.inputBuffer.Len()",
  "c.getState()",
  "c.onProcess(nil,req)",
  "c.closeCallback(true,false)"]

def expect_connection_onClose : List String := [
  "c.closeBy(user)",
  "c.triggerRead(Exception(ErrConnClosed, \"self close\"))",
  "c.triggerWrite(Exception(ErrConnClosed, \"self close\"))",
  "c.closeCallback(true,true)",
  "c.force(closing,user)",
  "c.closeCallback(true,true)"]

def expect_connection_closeCallback : List String := [
  "c.lock(processing)",
  "c.operator.Control(PollDetach)",
  "c.closeCallbacks.Load()",
  "callback CloseCallback callback.fn"]

def expect_connection_onConnect : List String := [
  "c.onConnectCallback.Load()",
  "c.changeState(connStateNone,connStateConnected)",
  "c.lock(connecting)",
  "c.onRequestCallback.Load()",
  "c.onProcess(onConnect,onRequest)"]

def expect_connection_onDisconnect : List String := [
  "c.onDisconnectCallback.Load()",
  "c.onConnectCallback.Load()",
  "c.setState(connStateDisconnected)",
  "callback OnDisconnect onDisconnect",
  "c.getState()",
  "c.lock(connecting)",
  "c.changeState(connStateConnected,connStateDisconnected)",
  "callback OnDisconnect onDisconnect",
  "c.unlock(connecting)"]

def expect_connection_onRequest : List String := [
  "c.onRequestCallback.Load()",
  "c.getState()",
  "c.onConnectCallback.Load()",
  "c.onProcess(nil,onRequest)"]

def expect_connection_onProcess : List String := [
  "c.lock(processing)",
  "c.IsActive()",
  "c.unlock(processing)",
  "c.Close()",
  "c.closeCallback(false,c.isCloseBy(user))",
  "c.isCloseBy(user)",
  "c.changeState(connStateNone,connStateConnected)",
  "callback OnConnect onConnect",
  "c.unlock(connecting)",
  "c.IsActive()",
  "c.onDisconnect()",
  "c.Reader().Len()",
  "callback OnRequest onRequest",
  "c.status(closing)",
  "c.Reader().Len()",
  "callback OnRequest onRequest",
  "c.closeCallback(false,needDetach)",
  "c.unlock(processing)",
  "c.status(closing)",
  "c.lock(processing)",
  "c.Reader().Len()",
  "c.lock(processing)",
  "runner.RunTask(c.ctx,task)"]

def expect_connection_inputAck : List String := [
  "c.inputBuffer.bookAck(0)",
  "c.inputBuffer.bookAck(n)",
  "c.onRequest()",
  "atomic.LoadInt64(&c.waitReadSize)",
  "c.triggerRead(nil)"]

def expect_connection_triggerRead : List String := [
  "select",
  "send c.readTrigger"]

def expect_connection_triggerWrite : List String := [
  "select",
  "send c.writeTrigger"]

def expect_connection_Close : List String := [
  "c.onClose()"]

def expect_connection_Detach : List String := [
  "atomic.StoreInt32(&c.detaching,1)",
  "c.onClose()"]

def expect_connection_IsActive : List String := [
  "c.isCloseBy(none)"]

def expect_connection_initFinalizer : List String := [
  "c.stop(flushing)",
  "c.operator.Free()",
  "c.netFD.Close()",
  "c.closeBuffer()"]

def expect_connection_onPrepare : List String := [
  "callback OnPrepare opts.onPrepare",
  "c.IsActive()",
  "c.register()"]

def expect_connection_register : List String := [
  "c.operator.Control(PollReadable)",
  "c.Close()"]

def expect_connection_SetOnRequest : List String := [
  "c.onRequestCallback.Store(onRequest)",
  "c.inputBuffer.IsEmpty()",
  "c.onRequest()"]

def expect_connection_AddCloseCallback : List String := [
  "c.closeCallbacks.Load()",
  "c.closeCallbacks.Store(cb)"]

def expect_connection_getState : List String := [
  "atomic.LoadInt32(&c.state)"]

def expect_connection_setState : List String := [
  "atomic.StoreInt32(&c.state,newState)"]

def expect_connection_changeState : List String := [
  "atomic.CompareAndSwapInt32(&c.state,from,to)"]

def expect_FDOperator_Control : List String := [
  "atomic.AddInt32(&op.detached,1)",
  "op.poll.Control(op,event)"]

def expect_FDOperator_Free : List String := [
  "op.poll.Free(op)"]

def expect_FDOperator_do : List String := [
  "atomic.CompareAndSwapInt32(&op.state,1,2)"]

def expect_FDOperator_done : List String := [
  "atomic.StoreInt32(&op.state,1)"]

def expect_FDOperator_inuse : List String := [
  "atomic.CompareAndSwapInt32(&op.state,0,1)",
  "atomic.LoadInt32(&op.state)",
  "runtime.Gosched()"]

def expect_FDOperator_unused : List String := [
  "atomic.CompareAndSwapInt32(&op.state,1,0)",
  "atomic.LoadInt32(&op.state)",
  "runtime.Gosched()"]

def expect_operatorCache_freeable : List String := [
  "op.unused()",
  "op.reset()"]

def expect_netFD_Close : List String := [
  "atomic.AddUint32(&c.closed,1)",
  "atomic.LoadInt32(&c.detaching)",
  "syscall.Close(c.fd)"]

def expect_UnsafeLinkBuffer_Len : List String := [
  "atomic.LoadInt64(&b.length)"]

def expect_UnsafeLinkBuffer_recalLen : List String := [
  "atomic.AddInt64(&b.length,int64(delta))"]

/-- after fix 6b01730 the untrack callback is registered before the activity check and the Store is ordered
against it by a per-connection mutex; the lifecycle model's acceptor steps (IsActive, then onConnect) are unchanged -/
def expect_server_onAccept : List String := [
  "mu.Lock()",
  "s.connections.Delete(fd)",
  "mu.Unlock()",
  "nconn.IsActive()",
  "mu.Lock()",
  "s.connections.Store(fd,nconn)",
  "mu.Unlock()",
  "nconn.onConnect()"]

end Netpoll.Conn.LifeSync
