/-
  Netpoll.Conn.LifeReachLemmas – the invariants hold in every reachable state (induction on the derivation of
  `Reachable`, i.e. on the number of steps; no bound on steps, closers, deliveries or tasks), and what a quiescent
  state looks like.
-/
import Netpoll.Conn.LifeLemmasAll
import Netpoll.Conn.LifeLemmasQAll
import Netpoll.Conn.LifeLemmasRAll
import Netpoll.Conn.LifeMonoAll
import Netpoll.Conn.LifeQuiesce
namespace Netpoll.Conn.Life

theorem reach_good {s : S} (h : Reachable s) : Good s ∧ GoodQ s := by
  induction h with
  | init sv oc od orr => exact ⟨good_init sv oc od orr, goodq_init sv oc od orr⟩
  | step a _ hs ih => exact ⟨good_step _ _ a ih.1 hs, goodq_step _ _ a ih.1 ih.2 hs⟩

theorem reach_goodr {s : S} (h : Reachable s) : Good s ∧ GoodQ s ∧ GoodR s := by
  induction h with
  | init sv oc od orr => exact ⟨good_init sv oc od orr, goodq_init sv oc od orr, goodr_init sv oc od orr⟩
  | step a _ hs ih =>
    exact ⟨good_step _ _ a ih.1 hs, goodq_step _ _ a ih.1 ih.2.1 hs, goodr_step _ _ a ih.1 ih.2.1 ih.2.2 hs⟩

/-- running a list of actions from a reachable state stays reachable -/
theorem reach_run {s s' : S} (as : List Act) (h : Reachable s) (hr : run s as = some s') : Reachable s' := by
  induction as generalizing s with
  | nil => simp [run] at hr; exact hr ▸ h
  | cons a as ih =>
    simp only [run] at hr
    split at hr
    · rename_i s1 h1; exact ih (Reachable.step a h h1) hr
    · cases hr

/-- in a quiescent state no task holds the lock, nobody is in the callback list, no closer is on its way -/
theorem quiescent_idle (s : S) (hq : Quiescent s) :
    s.lockedTasks = 0 ∧ s.cbActive = 0 ∧ s.t7a = 0 ∧ s.t7b = 0 ∧ s.t8a = 0 ∧ s.t8b = 0 ∧ s.cU1 = 0 ∧ s.closersPending = 0
    ∧ ¬(13 ≤ s.hPc ∧ s.hPc ≤ 16) := by
  have := q_tC0 s hq; have := q_tOCe s hq; have := q_tOC s hq; have := q_tC2 s hq; have := q_tC3 s hq
  have := q_tD1 s hq; have := q_tD2 s hq; have := q_tD3 s hq; have := q_tODe s hq; have := q_tOD s hq; have := q_tD4 s hq
  have := q_t3 s hq; have := q_tHe s hq; have := q_tH s hq; have := q_t4a s hq; have := q_t4b0 s hq; have := q_t4b2 s hq
  have := q_t6 s hq; have := q_t7a s hq; have := q_t7b s hq; have := q_t8a s hq; have := q_t8b s hq
  have := q_tP1 s hq; have := q_tP2a s hq; have := q_tP2b s hq
  have := q_cU1 s hq; have := q_cU2 s hq; have := q_cU3 s hq; have := q_cU4 s hq; have := q_cU5 s hq; have := q_cU6 s hq
  have := q_cbD s hq; have := q_cbCall s hq; have := q_cbIn s hq; have := q_cbF1 s hq; have := q_cbF1b s hq
  have := q_cbF2 s hq; have := q_cbF2b s hq; have := q_cbF3 s hq; have := q_cbF3b s hq; have := q_cbF3c s hq
  have := q_cbF4 s hq; have := q_cbF4n s hq; have := q_cbF4b s hq; have := q_cbFx s hq
  have := q_hPc_13 s hq; have := q_hPc_14 s hq; have := q_hPc_15 s hq; have := q_hPc_16 s hq
  simp only [S.lockedTasks, S.cbActive, S.closersPending]
  omega

/-- … the poller is not between an acknowledgement and its lock attempt, SetOnRequest is not half done -/
theorem quiescent_idle2 (s : S) (hq : Quiescent s) :
    ¬(s.pPc = 4 ∨ s.pPc = 5) ∧ ¬(s.sPc = 1 ∨ s.sPc = 2 ∨ s.sPc = 3) := by
  have := q_pPc_4 s hq; have := q_pPc_5 s hq; have := q_sPc_1 s hq; have := q_sPc_2 s hq; have := q_sPc_3 s hq
  omega

end Netpoll.Conn.Life
