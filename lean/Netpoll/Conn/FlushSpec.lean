/-
  Netpoll.Conn.FlushSpec – property C08 as an executable oracle over the OBSERVABLE events of one run of the
  implementation under the controlled scheduler with a scripted kernel (the flusher's calls and results, what the
  kernel accepted, what the calls submitted, the second flusher's result, who closed, whether the timer fired,
  the final observation), independent of the interleaving model Netpoll.Conn.Flush.  Driver.Flush feeds it every trace.
  Known finding D9 (known_findings.jsonl, pattern D9-after-write-timeout) is recognised by exactly its pattern -
  a Flush/Write returning nil with unsent bytes on a connection that had an earlier ErrWriteTimeout - and reported
  in `known`, not in the violations; every other nil-with-unsent is a violation.  Known finding D9b (pattern
  D9b-two-owners-after-write-timeout): anything else that goes wrong in or after a Flush/Write ISSUED AFTER an earlier
  ErrWriteTimeout (bytes sent twice, Skip error, panic: the poller may still own the output buffer).  The generated
  scenarios never issue a call after a write timeout; only the corpus probes do.  Core Lean only.
-/
namespace Netpoll.Conn.FlushSpec

inductive Ev where
  | call (idx : Nat) (op : String) (n : Nat) (mode : String)
  | ret (idx : Nat) (res : String) (out tick slot rw : Nat)
  | submitted (d : Nat)             -- an `outputBuffer.Flush()` committed d bytes
  | accepted (k : Nat)              -- the (scripted) kernel accepted k bytes
  | skipped (k : Nat)               -- k accepted bytes were taken out of the output buffer (Skip)
  | f2ret (res : String) (same : Bool)
  | fired
  | tickTaken (slotReady : Bool)    -- the flusher's select took the timer case; was writeTrigger ready as well?
  | closed                          -- a closer (user or hang-up) won closeBy
  | panic (who : String)
  deriving Repr

structure Summary where
  status : String
  out : Nat
  accepted : Nat
  peer : Nat
  tick : Nat
  closing : Nat
  rw : Nat
  flusherParked : Bool     -- the flusher is still inside flush()/waitFlush() (blocked at a receive)
  f2Parked : Bool
  deriving Repr

structure Acc where
  inCall : Bool := false
  idx : Nat := 0
  op : String := ""
  n : Nat := 0
  mode : String := "u"
  fired : Bool := false
  slotAtTick : Bool := false
  closedSeen : Bool := false
  closedAtCall : Bool := false     -- a closer had already won closeBy when the current call was issued
  timedOutBefore : Bool := false   -- some earlier Flush/Write on this connection returned ErrWriteTimeout
  callsAfterTimeout : Nat := 0     -- Flush/Write calls issued after an ErrWriteTimeout (known findings D9/D9b start here)
  sub : Nat := 0
  acc : Nat := 0
  skp : Nat := 0
  errs : List String := []
  known : List String := []
  deriving Repr

def timed (m : String) : Bool := m == "t" || m == "d"

/-- script calls that only add pending data to the output buffer (WriteBinary `M`, a burst of Appends `V`): no Flush inside,
nothing is submitted, the Flush/Write obligations do not apply to their return -/
def noFlush (op : String) : Bool := op == "M" || op == "V"

def bad (a : Acc) (msg : String) : Acc :=
  if a.callsAfterTimeout > 0 then
    { a with known := a.known ++ [s!"D9b-two-owners-after-write-timeout call {a.idx} ({a.op}{a.n}{a.mode}): {msg}"] }
  else { a with errs := a.errs ++ [s!"C08 call {a.idx} ({a.op}{a.n}{a.mode}): {msg}"] }

def badRun (a : Acc) (msg : String) : Acc :=
  if a.callsAfterTimeout > 0 then { a with known := a.known ++ [s!"D9b-two-owners-after-write-timeout {msg}"] }
  else { a with errs := a.errs ++ [s!"C08 {msg}"] }

def onEv (a : Acc) : Ev → Acc
  | .call idx op n mode =>
      { a with inCall := true, idx := idx, op := op, n := n, mode := mode, fired := false, slotAtTick := false, closedAtCall := a.closedSeen,
               callsAfterTimeout := if a.timedOutBefore && !noFlush op then a.callsAfterTimeout + 1 else a.callsAfterTimeout }
  | .submitted d => { a with sub := a.sub + d }
  | .accepted k => { a with acc := a.acc + k }
  | .skipped k => { a with skp := a.skp + k }
  | .fired => { a with fired := true }
  | .tickTaken r => { a with slotAtTick := r }
  | .closed => { a with closedSeen := true }
  | .panic who => badRun a s!"panic in {who} (call {a.idx} {a.op}{a.n}{a.mode})"
  | .f2ret res same => Id.run do
      let mut a := a
      if !(res == "concurrent" || (res == "closed" && a.closedSeen)) then
        a := { a with errs := a.errs ++ [s!"C08 a Flush issued while another was inside flush() returned {res}, not ErrConcurrentAccess"] }
      if !same then
        a := { a with errs := a.errs ++ ["C08 the rejected concurrent Flush changed the connection's state (output length / interest / trigger / lock)"] }
      return a
  | .ret idx res out tick _slot _rw => Id.run do
      let mut a := a
      if !a.inCall || a.idx != idx then
        return { a with errs := a.errs ++ [s!"C08 ret {idx} without its call"] }
      if !noFlush a.op then
        if a.skp + out != a.sub then
          a := bad a s!"accounting broken: taken out after acceptance {a.skp} + buffered {out} ≠ submitted {a.sub}"
        if res == "ok" then
          if out != 0 || a.acc != a.sub then
            if a.timedOutBefore then
              a := { a with known := a.known ++ [s!"D9-after-write-timeout call {a.idx} ({a.op}{a.n}{a.mode}) returned nil with {out} bytes unsent after an earlier ErrWriteTimeout"] }
            else
              a := bad a s!"returned nil with {out} bytes not accepted by the kernel (no earlier write timeout on this connection)"
        else if res == "wtimeout" then
          if !(timed a.mode || a.mode == "x") then a := bad a "ErrWriteTimeout without a timeout or deadline"
          if timed a.mode && !a.fired then a := bad a "ErrWriteTimeout although the timer had not fired"
          if a.slotAtTick then a := bad a "ErrWriteTimeout although the completion / close token was already in writeTrigger when the timer case was taken"
          a := { a with timedOutBefore := true }
        else if res == "closed" then
          if !a.closedSeen then a := bad a "ErrConnClosed before any close"
        else if res == "concurrent" then
          -- the only way for the single scripted flusher: the finalizer stopped `flushing` after its IsActive check,
          -- i.e. the close began while the call was under way.  A call ISSUED on a connection that is already closed
          -- "fails with ErrConnClosed": no other Flush is in progress, so ErrConcurrentAccess is the wrong answer.
          if !a.closedSeen then a := bad a "ErrConcurrentAccess without a concurrent flusher or a close"
          else if a.closedAtCall then a := bad a "issued on an already closed connection, returned ErrConcurrentAccess instead of ErrConnClosed (no other Flush was in progress)"
        else
          a := bad a s!"unexpected result {res}"
      if tick != 0 then a := bad a "the timer channel is not empty after the call"
      return { a with inCall := false }

/-- (violations, known findings) -/
def check (evs : List Ev) (sm : Summary) : List String × List String := Id.run do
  let mut a : Acc := evs.foldl onEv {}
  if sm.status == "livelock" || sm.status == "maxsteps" || sm.status == "stuck" then
    a := badRun a s!"run did not come to rest: status={sm.status}"
  if a.acc + sm.out != a.sub || a.acc != a.skp then
    a := badRun a s!"accounting broken at the end: accepted {a.acc} (taken out {a.skp}) + buffered {sm.out} ≠ submitted {a.sub}"
  if sm.peer != sm.accepted || sm.accepted != a.acc then
    a := badRun a s!"the peer received {sm.peer} bytes, the kernel accepted {sm.accepted} (trace: {a.acc})"
  if sm.flusherParked && a.inCall then
    -- nobody can take a step any more and the flusher sits at a receive: whatever the reason, it waits beyond all of them
    if sm.out == 0 && sm.rw == 0 then a := bad a "LOST WAKE-UP: blocked for ever although the buffer is drained and the write interest removed"
    else if sm.closing != 0 then a := bad a s!"LOST WAKE-UP: blocked for ever on a closed connection (closing={sm.closing})"
    else if timed a.mode then a := bad a s!"blocked for ever inside a timed call (timer lost or clean-up receive without a tick; tick={sm.tick})"
    else a := bad a s!"blocked for ever with {sm.out} bytes buffered, write interest={sm.rw}"
  if sm.f2Parked then
    a := { a with errs := a.errs ++ ["C08 the concurrent Flush blocked instead of being rejected"] }
  return (a.errs, a.known)

/-- Flush/Write calls issued after an earlier ErrWriteTimeout in this run (the driver classifies a conformance break
in such a run as part of known finding D9b: the model cannot follow two owners of the output buffer) -/
def callsAfterTimeout (evs : List Ev) : Nat := (evs.foldl onEv {}).callsAfterTimeout

end Netpoll.Conn.FlushSpec
