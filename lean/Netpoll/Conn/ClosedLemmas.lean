import Netpoll.Conn.Closed
/-! Helper definitions and lemmas of Props/C12 over the post-close model. -/
namespace Netpoll.Conn.Closed
open Netpoll.Buf

variable {α : Type} [DecidableEq α]

/-- the Writer methods of a connection (everything guarded by `IsActive`) -/
def isWriter : Meth α → Bool
  | .malloc _ | .flush | .mallocAck _ | .appendW | .writeString _ | .writeBinary _ | .writeDirect _ _
  | .writeByte _ | .write _ => true
  | _ => false

/-- the error class a reader gets when it needs more than is buffered: EOF after a peer close
(`closing = poller`), ErrConnClosed after a local close. -/
def shortErr (c : CC α) : Err := if c.closing = 2 then .eof else .connClosed

omit [DecidableEq α] in
theorem waitRead_short (c : CC α) (n : Int) (hc : c.closing = 1 ∨ c.closing = 2) (hn : (c.input.length : Int) < n) :
    c.waitRead n = some (.err (shortErr c)) := by
  unfold CC.waitRead shortErr
  have : ¬ n ≤ (c.input.length : Int) := by omega
  rcases hc with h | h <;> simp [this, h]

omit [DecidableEq α] in
theorem waitRead_cases (c : CC α) (n : Int) (hc : c.closing = 1 ∨ c.closing = 2) :
    c.waitRead n = none ∨ c.waitRead n = some (.err (shortErr c)) := by
  by_cases h : n ≤ (c.input.length : Int)
  · left; simp [CC.waitRead, h]
  · right; exact waitRead_short c n hc (by omega)

omit [DecidableEq α] in
theorem ofBuf_snd (r : Option (LB α × Res α)) (c : CC α) (f : CC α → LB α → CC α) :
    (ofBuf r c f).2 ≠ .blocks ∧ ((ofBuf r c f).2 = .panic → r = none) := by
  unfold ofBuf
  split <;> simp_all

omit [DecidableEq α] in
theorem waitRead_recycled (c : CC α) (n : Int) (hi : c.input = closedLB) (h : c.waitRead n = none) : n ≤ 0 := by
  unfold CC.waitRead at h
  by_cases hn : n ≤ 0
  · exact hn
  · have : ¬ n ≤ ((c.input.length : Nat) : Int) := by simp [hi, closedLB]; omega
    simp [this] at h
    split at h
    · simp at h
    · split at h <;> simp at h

end Netpoll.Conn.Closed
