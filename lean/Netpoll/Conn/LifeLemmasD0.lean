/- Netpoll.Conn.LifeLemmasD0 – fourth invariant layer `GoodD`: the connecting lock / connState hand-off between the
   OnConnect task and the hang-up goroutine (C09: OnDisconnect at most once, after OnConnect, and not lost). -/
import Netpoll.Conn.LifeLemmasR0
namespace Netpoll.Conn.Life

/-- holders of the `connecting` lock -/
def S.connHolders (s : S) : Nat :=
  (if s.aPc = 8 then 1 else 0) + s.tC0 + s.tOCe + s.tOC + s.tC2 + s.ocPanics + s.connLeak + s.tD3 + s.tODe + s.tOD + s.tD4
  + (if 9 ≤ s.hPc ∧ s.hPc ≤ 12 then 1 else 0)

/-- OnDisconnect has run, or somebody has won the state CAS (1 → 2) and is about to run it -/
def S.odSum (s : S) : Nat := s.discRuns + (if s.hPc = 5 then 1 else 0) + (if s.hPc = 10 then 1 else 0) + s.tODe

/-- the task that ran OnConnect, on its way through unlock(connecting) / IsActive / onDisconnect() -/
def S.dPath (s : S) : Nat := s.tC2 + s.tC3 + s.tD1 + s.tD2 + s.tD3 + s.tODe + s.tOD + s.tD4

/-- somebody is still going to try the OnDisconnect hand-off -/
def S.pendingD (s : S) : Nat :=
  s.tC2 + s.tC3 + s.tD1 + s.tD2 + s.tD3
  + (if (2 ≤ s.hPc ∧ s.hPc ≤ 4) ∨ (7 ≤ s.hPc ∧ s.hPc ≤ 9) then 1 else 0)

structure GoodD (s : S) : Prop where
  oc_only : s.hasOC = false → s.tC0 + s.ocTasks = 0
  a78_cfg : (s.aPc = 7 ∨ s.aPc = 8) → s.hasOC = true
  h7_cfg : (7 ≤ s.hPc ∧ s.hPc ≤ 12) → (s.hasOC = true ∧ s.hasOD = true)
  h4_od : (4 ≤ s.hPc ∧ s.hPc ≤ 6) → s.hasOD = true
  a_pre : s.aPc ≠ 99 → (s.tC0 + s.ocTasks = 0 ∧ s.ocEnds = 0 ∧ s.ocPanics = 0 ∧ s.connLeak = 0)
  oc_uniq : s.tC0 + s.tOCe + s.tOC + s.ocEnds + s.ocPanics + s.connLeak ≤ 1
  dpath_le : s.dPath ≤ s.ocEnds
  conn_eq : s.connecting = s.connHolders
  conn_le : s.connecting ≤ 1
  st0 : (s.tC0 ≥ 1 ∨ s.aPc = 7 ∨ s.aPc = 8) → s.st = 0
  st_le : s.st ≤ 2
  od_le : s.odSum ≤ 1
  od_st : s.odSum ≥ 1 → s.st = 2
  st_od : s.st = 2 → s.odSum ≥ 1
  h8_st : (s.hPc = 8 ∨ s.hPc = 9) → s.st ≠ 0
  h9_oc : (9 ≤ s.hPc ∧ s.hPc ≤ 12) → s.ocEnds ≥ 1
  h10_st : (10 ≤ s.hPc ∧ s.hPc ≤ 12) → s.st = 2
  conn_free_oc : (s.hasOC = true ∧ s.st ≠ 0 ∧ s.connecting = 0) → s.ocEnds ≥ 1
  od_after_oc : (s.hasOC = true ∧ s.odSum ≥ 1) → s.ocEnds ≥ 1
  td_st : s.tODe + s.tOD + s.tD4 ≥ 1 → s.st = 2
  hw_closed : s.hupWon = true → s.closing ≠ 0
  hw_pc : s.hupWon = true → s.hPc ≥ 2
  pc_hw : (2 ≤ s.hPc ∧ s.hPc ≤ 16) → s.hupWon = true
  h4_fresh : (s.hPc ≤ 4 ∧ s.hasOC = false) → s.discRuns = 0
  prep : (s.server = true ∧ s.aPc ≤ 4) →
    (s.registered = false ∧ s.pPc = 0 ∧ s.hPc = 0 ∧ s.inLen = 0 ∧ s.reqRuns = 0 ∧ s.sPc = 0
     ∧ s.lockedTasks + s.t7a + s.t7b + s.t8a + s.t8b = 0)
  srv_s : s.server = true → s.sPc = 0
  resp_d : (s.hupWon = true ∧ s.hasOD = true ∧ (s.hasOC = false ∨ s.ocEnds ≥ 1)) → s.odSum + s.pendingD ≥ 1

theorem goodd_init (sv oc od orr : Bool) : GoodD (init sv oc od orr) := by
  constructor <;> simp [init, S.ocTasks, S.connHolders, S.odSum, S.dPath, S.pendingD, S.lockedTasks] <;> (try split) <;> simp

end Netpoll.Conn.Life
