/-
  Netpoll.Conn.ReadSpec – property C07 as an executable oracle over the OBSERVABLE events of one run of the
  implementation under the controlled scheduler (the reader's calls and results, the values of Len() it loaded,
  who closed, whether its timer fired, where everybody was parked at the end), independent of the interleaving
  model Netpoll.Conn.Read.  Driver.Read feeds it every trace.  Core Lean only.
-/
namespace Netpoll.Conn.ReadSpec

inductive Ev where
  | call (idx : Nat) (op : String) (n : Nat) (mode : String) (len : Nat)  -- n = what waitRead waits for (0: the call has no waitRead)
  | ret (idx : Nat) (res : String) (got len wrs tick slot : Nat)
  | lenSeen (v : Nat)        -- the reader loaded Len() = v
  | decided                  -- the reader reset waitReadSize: the outcome of waitRead is fixed
  | consumed (k : Nat)       -- the reader took k bytes out of the input buffer
  | fired                    -- the read timer expired
  | tickTaken (len : Nat)    -- the reader's select took the timer case; `len` = bytes buffered at that moment (as published by the poller)
  | peerClose (len : Nat)    -- the hang-up won closeBy(poller); `len` = bytes buffered at that moment (as published by the poller)
  | userClose (len : Nat)    -- a user Close() won closeBy(user) or forced closing := user; `len` as above
  | dataTrigger (len : Nat)  -- the poller's inputAck put the data wake-up (nil) into the free trigger slot; `len` = bytes buffered then
  | errTrigger               -- a closer (hang-up, user Close) put its error into the free trigger slot
  | slotTaken                -- the reader's receive / select took the value in the trigger slot
  | panic (who : String)
  deriving Repr

structure Summary where
  status : String
  unread : Nat
  closing : Nat
  tick : Nat
  wrs : Nat
  readerParked : Bool        -- the reader is still inside waitRead / waitReadWithTimeout (blocked at a receive)
  deriving Repr

structure Acc where
  inCall : Bool := false
  idx : Nat := 0
  op : String := ""
  n : Nat := 0
  mode : String := "u"
  firstLen : Option Nat := none
  lastLen : Option Nat := none
  decided : Bool := false
  frozen : Bool := false       -- stop recording Len() loads (decision made / consumption started)
  consumed : Nat := 0
  fired : Bool := false
  lenAtTick : Option Nat := none
  peer : Bool := false
  user : Bool := false
  -- bytes that were buffered when the connection was closed (first close) and that the reader has not consumed since:
  -- a lower bound of what every later look at the buffer finds ("n bytes were buffered BEFORE the close")
  availAtClose : Option Nat := none
  -- the trigger slot holds a data wake-up that was sent when so many (since unconsumed) bytes were buffered
  slotData : Option Nat := none
  -- this call received such a wake-up: from then on so many bytes are there whenever it looks
  wokenBy : Option Nat := none
  errs : List String := []
  deriving Repr

def timed (m : String) : Bool := m == "t" || m == "d"

def bad (a : Acc) (msg : String) : Acc := { a with errs := a.errs ++ [s!"C07 call {a.idx} ({a.op}{a.n}{a.mode}): {msg}"] }

/-- "A Reader call that needs n bytes returns successfully once n bytes are buffered; if the connection closes FIRST it
returns ErrEOF / ErrConnClosed": the close did NOT come first when the n bytes were buffered before the connection closed
(`availAtClose ≥ n`: buffered at the first close and not consumed since) and are still there at the return (`len`), yet the
call fails with the close error.  REQUIRED of every call – a parked reader and a reader that is running between its look at
the length and its look at `closing` alike (D20, fixed in /repo: the loops look at the length again once they have learnt
of the close; before the fix the running reader returned ErrEOF with Len() ≥ n). -/
def closedThenError (a : Acc) (err : String) (len : Nat) : Acc :=
  match a.availAtClose with
  | some v =>
      if v ≥ a.n && len ≥ a.n then
        bad a (s!"{err} although its {a.n} bytes were buffered before the connection closed: {v} bytes buffered at the close, Len() = {len} at the return"
               ++ (match a.wokenBy with | some w => s!" (the reader had taken the data wake-up sent with {w} bytes buffered)" | none => ""))
      else a
  | none => a

def onEv (a : Acc) : Ev → Acc
  | .call idx op n mode _ =>
      { a with inCall := true, idx := idx, op := op, n := n, mode := mode, firstLen := none, lastLen := none,
               decided := false, frozen := false, consumed := 0, fired := false, lenAtTick := none, wokenBy := none }
  | .lenSeen v =>
      if a.inCall && !a.frozen then { a with firstLen := a.firstLen.orElse (fun _ => some v), lastLen := some v } else a
  | .decided => { a with decided := true, frozen := true }
  | .consumed k => { a with consumed := a.consumed + k, frozen := true, availAtClose := a.availAtClose.map (· - k),
                            slotData := a.slotData.map (· - k), wokenBy := a.wokenBy.map (· - k) }
  | .fired => { a with fired := true }
  | .tickTaken len => { a with lenAtTick := some len }
  | .peerClose len => { a with peer := true, availAtClose := a.availAtClose.orElse (fun _ => some len) }
  | .userClose len => { a with user := true, availAtClose := a.availAtClose.orElse (fun _ => some len) }
  | .dataTrigger len => { a with slotData := some len }
  | .errTrigger => { a with slotData := none }
  | .slotTaken => { a with wokenBy := if a.inCall then a.slotData else none, slotData := none }
  | .panic who => { a with errs := a.errs ++ [s!"C07 panic in {who} (call {a.idx} {a.op}{a.n}{a.mode})"] }
  | .ret idx res got len wrs tick _slot => Id.run do
      let mut a := a
      if !a.inCall || a.idx != idx then
        return { a with errs := a.errs ++ [s!"C07 ret {idx} without its call"] }
      if a.n > 0 then
        -- the Len() value the outcome rests on: slow path = last load before waitReadSize was reset; fast path = the entry check
        let seen : Option Nat := if a.decided then a.lastLen else a.firstLen
        if res == "ok" then
          match seen with
          | some v => if v < a.n then a := bad a s!"returned nil with only {v} bytes buffered at its last check"
          | none => a := bad a "returned nil without looking at the buffer"
        else if res == "rtimeout" then
          if !(timed a.mode || a.mode == "x") then a := bad a "ErrReadTimeout without a timeout or deadline"
          if timed a.mode && !a.fired then a := bad a "ErrReadTimeout although the timer had not fired"
          match seen with
          | some v => if v ≥ a.n then a := bad a s!"ErrReadTimeout although {v} bytes were buffered at the (double) check"
          | none => a := bad a "ErrReadTimeout without looking at the buffer"
          match a.lenAtTick with
          | some v => if v ≥ a.n then a := bad a s!"ErrReadTimeout although {v} bytes were already buffered when the timer case was taken"
          | none => pure ()
          if a.consumed > 0 || got > 0 then a := bad a s!"a timed-out call consumed {a.consumed} bytes"
        else if res == "eof" then
          if !a.peer then a := bad a "ErrEOF before any peer close"
          if a.consumed > 0 then a := bad a "a failed call consumed data"
          -- "returns successfully once n bytes are buffered; if the connection closes FIRST it returns ErrEOF": the close
          -- did not come first when the n bytes were already buffered at the close (and are still there: `len` = Len() at the return)
          a := closedThenError a "ErrEOF" len
        else if res == "closed" then
          if !a.user then a := bad a "ErrConnClosed before any local close"
          if a.consumed > 0 then a := bad a "a failed call consumed data"
          a := closedThenError a "ErrConnClosed" len
        else
          a := bad a s!"unexpected result {res}"
      if tick != 0 then a := bad a "the timer channel is not empty after the call"
      if wrs != 0 then a := bad a s!"waitReadSize = {wrs} after the call"
      return { a with inCall := false }

def check (evs : List Ev) (sm : Summary) : List String := Id.run do
  let mut a : Acc := evs.foldl onEv {}
  if sm.status == "livelock" || sm.status == "maxsteps" || sm.status == "stuck" then
    a := { a with errs := a.errs ++ [s!"C07 run did not come to rest: status={sm.status}"] }
  if sm.readerParked && a.inCall then
    -- nobody can take a step any more and the reader sits at a receive
    if a.n > 0 && sm.unread ≥ a.n then a := bad a s!"LOST WAKE-UP: blocked for ever with {sm.unread} bytes buffered"
    if sm.closing != 0 then a := bad a s!"LOST WAKE-UP: blocked for ever on a closed connection (closing={sm.closing})"
    if timed a.mode then a := bad a s!"blocked for ever inside a timed call (timer lost or clean-up receive without a tick; tick={sm.tick})"
  else if !a.inCall then
    if sm.tick != 0 then a := { a with errs := a.errs ++ ["C07 timer channel not empty at the end"] }
    if sm.wrs != 0 then a := { a with errs := a.errs ++ [s!"C07 waitReadSize = {sm.wrs} at the end"] }
  return a.errs

end Netpoll.Conn.ReadSpec
