/-
  Netpoll.Conn.LifeOld – the behaviour of the code BEFORE fixes d05 / d06 / d10, as an alternative transition function
  that differs from `Life.step` exactly at the repaired program points, and the defects as kernel-checked witnesses:
  concrete action sequences of the old code that violate C05 / C06 / C09.  The same interleavings are replayed on the
  real (unfixed) code by the schedules in corpus/C05, corpus/C06, corpus/C09.
-/
import Netpoll.Conn.Life
namespace Netpoll.Conn.LifeOld
open Netpoll.Conn.Life

/-- old task: differs in the panic path (unlock before the callbacks, D5), in the first double check (closeCallback
directly instead of START, D6) and in the OnConnect epilogue (IsActive evaluated before unlock(connecting), D10) -/
def stepTaskOld (s : S) : TAct → Option S
  -- D5: P1 = unlock(processing); P2 = IsActive ? Close : closeCallback(false,false) WITHOUT the lock
  | .tP2a => if s.tP1 > 0 then some { s with processing := 0, tP1 := s.tP1 - 1, tP2b := s.tP2b + 1 } else none
  | .tP1 _ => none
  | .tP2b v =>
      if s.tP2b > 0 ∧ v = s.closing then
        (if v = 0 then some { s with tP2b := s.tP2b - 1, cU1 := s.cU1 + 1 } else some (enterCBn { s with tP2b := s.tP2b - 1 }))
      else none
  -- D6: after unlock, `status(closing) != 0 && lock` goes straight to the callbacks
  | .t7b ok =>
      if s.t7b > 0 ∧ ok = (s.processing == 0) then
        (if ok then some (enterCBn { s with processing := 1, t7b := s.t7b - 1 }) else some (toT8 { s with t7b := s.t7b - 1 }))
      else none
  -- D10: OnConnect returned: IsActive first (tC3), help with OnDisconnect while holding `connecting`, unlock last (tC2)
  | .tOCexit => if s.tOC > 0 then some { s with ocEnds := s.ocEnds + 1, tOC := s.tOC - 1, tC3 := s.tC3 + 1 } else none
  | .tC3 v =>
      if s.tC3 > 0 ∧ v = s.closing then
        (if v = 0 then some { s with tC3 := s.tC3 - 1, tC2 := s.tC2 + 1 } else some { s with tC3 := s.tC3 - 1, tD3 := s.tD3 + 1 })
      else none
  | .tC2 => if s.tC2 > 0 then some (toStart { s with connecting := 0, tC2 := s.tC2 - 1 }) else none
  | a => stepTask s a

/-- old hang-up goroutine: no look at the input buffer before closeCallback(true,false) (hang-up side of D6) -/
def stepHupOld (s : S) : HAct → Option S
  | .hLen _ => none
  | .hWr room => if s.hPc = 3 ∧ room = (s.wr == 0) then
      (match stepHup s (.hWr room) with
       | some s' => some (if s'.hPc = 13 then { s' with hPc := 16 } else s')
       | none => none) else none
  | a => match stepHup s a with
       | some s' => some (if s'.hPc = 13 then { s' with hPc := 16 } else s')
       | none => none

def stepOld (s : S) : Act → Option S
  | .t a => stepTaskOld s a
  | .h a => stepHupOld s a
  | a => step s a

def runOld (s : S) : List Act → Option S
  | [] => some s
  | a :: as => match stepOld s a with
    | some s' => runOld s' as
    | none => none

/-- D5: the handler panics after the peer closed; the old panic path releases `processing`, runs the callbacks, and a
later Close takes the lock and runs every callback again -/
def d5 : List Act :=
  [.a .aPrepE, .a .aPrepX, .a (.aAct1 0), .a (.aReg true), .a (.aAct2 0), .a (.aSt true),
   .p .pFetch, .p (.pDo true), .p (.pRead 5), .p (.pAck 5), .p (.pGet 1), .p (.pLock true), .p .pFinish, .p .pDone,
   .t (.t3 5), .t .tHenter,
   .p .pPeerClose, .p .pFetch, .p (.pDo true), .p (.pRead 0), .p (.pAck 5), .p .pHup, .p (.pDet 1), .p .pHDone,
   .h (.hCas true), .h (.hRd true), .h (.hWr true), .h (.hLock false),
   .t .tHpanic, .t .tP2a, .t (.tP2b 2),
   .b .cbEnterU, .b .cbExitU,
   .c (.closeNew false), .c .cU5, .c (.cU6 true)]

theorem D5_witness : ∃ s, runOld (init true false false true) d5 = some s ∧ s.cbRuns = 2 :=
  ⟨_, rfl, by decide⟩

/-- D6: 12 bytes and the hang-up arrive after the task's last `Len()==0`; the old double check closes over them -/
def d6 : List Act :=
  [.a .aPrepE, .a .aPrepX, .a (.aAct1 0), .a (.aReg true), .a (.aAct2 0), .a (.aSt true),
   .p .pFetch, .p (.pDo true), .p (.pRead 5), .p (.pAck 5), .p (.pGet 1), .p (.pLock true), .p .pFinish, .p .pDone,
   .t (.t3 5), .t .tHenter, .u (.uConsume 5 0), .t .tHexit, .t (.t4a 0), .t (.t4b0 0),
   .p .pFetch, .p (.pDo true), .p (.pRead 12), .p (.pAck 12), .p (.pGet 1), .p (.pLock false), .p (.pTrig true), .p .pFinish, .p .pDone,
   .p .pPeerClose, .p .pFetch, .p (.pDo true), .p (.pRead 0), .p (.pAck 12), .p .pHup, .p (.pDet 1), .p .pHDone,
   .h (.hCas true), .h (.hRd false), .h (.hWr true), .h (.hLock false),
   .t .t6, .t (.t7a 2), .t (.t7b true)]

theorem D6_witness : ∃ s, runOld (init true false false true) d6 = some s ∧
    s.cbRuns = 1 ∧ s.cbStartClosing = 2 ∧ s.cbStartOr = true ∧ s.panics = 0 ∧ s.d7 = false ∧ s.cbStartLen = 12 :=
  ⟨_, rfl, by decide⟩

/-- D10: the peer closes between the task's IsActive() after OnConnect and unlock(connecting): OnDisconnect is lost -/
def d10 : List Act :=
  [.a .aPrepE, .a .aPrepX, .a (.aAct1 0), .a (.aReg true), .a (.aAct2 0), .a (.aConn true), .a (.aProc true),
   .t (.tC0 true), .t .tOCenter, .t .tOCexit, .t (.tC3 0),
   .p .pPeerClose, .p .pFetch, .p (.pDo true), .p (.pRead 0), .p (.pAck 0), .p .pHup, .p (.pDet 1), .p .pHDone,
   .h (.hCas true), .h (.hRd true), .h (.hWr true), .h (.hGet 1), .h (.hConn false), .h (.hLock false),
   .t .tC2, .t (.t4a 2),
   .b .cbEnterU, .b .cbExitU, .b .cbEnterF, .b (.cbF1 true), .b (.cbF2 true), .b (.cbF3 1), .b (.cbF3b 0), .b .cbF3c,
   .b (.cbF4n 0), .b .cbF4b, .b .cbFx]

theorem D10_witness : ∃ s, runOld (init true true true false) d10 = some s ∧
    s.hupWon = true ∧ s.ocEnds = 1 ∧ s.cbDone = 1 ∧ s.discRuns = 0 ∧ s.hPc = 99 := by
  refine ⟨_, rfl, ?_⟩
  decide

end Netpoll.Conn.LifeOld
