import Netpoll.Conn.Stream
/-! Helper lemmas of Props/C04 about fully flushed queues. -/
namespace Netpoll.Conn.Stream
open Netpoll.Buf Netpoll.Poll

variable {α : Type} [DecidableEq α]

/-- queue whose entries are all flushed (an output buffer after `Flush`, seen by the sender) -/
def AllFlushed (q : Q α) : Prop := ∀ x ∈ q.items, x.2 = true

omit [DecidableEq α] in
theorem flushedBytes_of_allFlushed (q : Q α) (h : AllFlushed q) : q.flushedBytes = q.items.map (·.1) := by
  unfold Q.flushedBytes
  rw [List.filter_eq_self.mpr (fun x hx => h x hx)]

omit [DecidableEq α] in
theorem len_of_allFlushed (q : Q α) (h : AllFlushed q) : q.len = q.items.length := by
  unfold Q.len
  rw [List.filter_eq_self.mpr (fun x hx => h x hx)]

omit [DecidableEq α] in
theorem allFlushed_drop (q : Q α) (h : AllFlushed q) (k : Nat) : AllFlushed ({ q with items := q.items.drop k } : Q α) := by
  intro x hx; exact h x (List.mem_of_mem_drop hx)

/-- skipping `k ≤ Len` bytes and releasing removes exactly the first `k` buffered bytes -/
theorem skip_release (q : Q α) (k : Nat) (hk : k ≤ q.len) (hk0 : 0 < k) :
    (specStep (specStep q (.skip k)).1 .release).1 = { q with items := q.items.drop k } := by
  have hnl : ¬ (q.len < k) := by omega
  have hk' : k ≠ 0 := by omega
  simp [specStep, takeRead, hnl, hk']

end Netpoll.Conn.Stream
