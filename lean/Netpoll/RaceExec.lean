import Netpoll.Race
/-! # C19 – abstract executions for the soundness theorem of the access discipline

Definitions only (events, conflict, the `Exec` structure whose fields are the ordering HYPOTHESES the disciplines
rely on, data race) and a concrete example execution.  The theorems are in `Netpoll.Props.C19`. -/
namespace Netpoll.Race

/-- one access event of an execution -/
structure Event where
  /-- goroutine performing the access -/
  gor : Nat
  /-- identity of the object (connection, operator slot, poll, queue …) whose field is accessed -/
  obj : Nat
  field : Nm
  /-- function containing the access (as in the generated table) -/
  fn : Nm
  kind : Kind

def Event.disc (e : Event) : Option Disc := policy e.field
/-- the access follows the policy -/
def Event.ok (e : Event) : Bool := okAccess e.field e.fn e.kind
/-- the access is in an exclusive-phase function of its field -/
def Event.isExcl (e : Event) : Bool := match e.disc with | some d => d.isExcl e.fn | none => false
/-- the access is in a (re)configuration function of its field -/
def Event.isConfig (e : Event) : Bool := match e.disc with | some d => d.isConfig e.fn | none => false
/-- the access is annotated as made holding role `r` -/
def Event.holds (e : Event) (r : Role) : Bool := match e.disc with | some d => d.holds r e.fn | none => false
/-- the access is annotated as made inside a critical section of lock `l` -/
def Event.locks (e : Event) (l : Lock) : Bool := match e.disc with | some d => d.locks l e.fn | none => false
def Event.produces (e : Event) : Bool := match e.disc with | some d => d.produces e.fn | none => false
def Event.consumes (e : Event) : Bool := match e.disc with | some d => d.consumes e.fn | none => false

/-- can two accesses of these kinds to the same location form a data race?  (Go memory model: at least one is a
    write and they are not both synchronising operations.  `a` may be a write; `s` reads the field holding the
    channel / mutex and synchronises on the object, so it only conflicts with plain writes and - conservatively -
    with atomics.) -/
def Kind.conflicts : Kind → Kind → Bool
  | .w, _ | _, .w => true
  | .a, .r | .r, .a => true
  | .a, .s | .s, .a => true
  | _, _ => false

/-- two accesses by different goroutines to the same field of the same object, of conflicting kinds -/
def Conflict (e1 e2 : Event) : Prop :=
  e1.gor ≠ e2.gor ∧ e1.obj = e2.obj ∧ e1.field.code = e2.field.code ∧ Kind.conflicts e1.kind e2.kind = true

instance (a b : Event) : Decidable (Conflict a b) := by unfold Conflict; infer_instance

/-- holders of role `r` exclude each other: conflicting accesses annotated with `r` are ordered -/
abbrev RoleSerial (events : List Event) (hb : Event → Event → Prop) (r : Role) : Prop :=
  ∀ e1 ∈ events, ∀ e2 ∈ events, Conflict e1 e2 → e1.holds r = true → e2.holds r = true → hb e1 e2 ∨ hb e2 e1

/-- critical sections of lock `l` exclude each other -/
abbrev LockSerial (events : List Event) (hb : Event → Event → Prop) (l : Lock) : Prop :=
  ∀ e1 ∈ events, ∀ e2 ∈ events, Conflict e1 e2 → e1.locks l = true → e2.locks l = true → hb e1 e2 ∨ hb e2 e1

/-- An execution: access events, a happens-before order, and - as explicit HYPOTHESES - the ordering facts the
    disciplines rely on.  Each is named after the protocol invariant or contract that justifies it; the invariants
    themselves are proved (or claimed) by the C05/C06/C09/C10/C17/C18 models, not here. -/
structure Exec where
  events : List Event
  /-- happens-before of the Go memory model (sequenced-before ∪ synchronised-before, transitively closed) -/
  hb : Event → Event → Prop
  hb_irrefl : ∀ e, ¬ hb e e
  hb_trans : ∀ a b c, hb a b → hb b c → hb a c
  /-- INIT-BEFORE-PUBLISH / RESET-AFTER-RETIRE: an access in an exclusive-phase function of the field (constructor,
      `init*`, `FDOperator.reset`, …) is ordered with every conflicting access: the object is published only afterwards
      (`register()`/`Control` → epoll_ctl + `inuse()`, `go poll.Wait()`, returning the pointer), and a slot is reset
      only after `op.unused()` and `stop(flushing)` have retired all users and is re-issued through the cache locks.
      (C10 slot-token invariant; C05 "teardown runs once, after processing and flushing have stopped".) -/
  excl_phase_ordered : ∀ e1 ∈ events, ∀ e2 ∈ events, Conflict e1 e2 → e1.isExcl = true → hb e1 e2 ∨ hb e2 e1
  /-- STATUS CAS + RECONFIGURATION CONTRACT: an access in a (re)configuration function is ordered with every
      conflicting access: `Run` executes only in the winner of `manager.status` 0→1 and is published by the CAS 1→2
      that every fast-path `Pick` loads first (C18); `SetNumLoops`/`SetLoadBalance`/`Reset`/`Close`/`Configure`/
      `SetLoggerOutput` are documented as not concurrent with use. -/
  status_cas_and_reconfig_contract : ∀ e1 ∈ events, ∀ e2 ∈ events, Conflict e1 e2 → e1.isConfig = true → hb e1 e2 ∨ hb e2 e1
  /-- API CONTRACT: one reader per connection (reads and read-deadline setters are sequential) -/
  single_reader_contract : RoleSerial events hb .reader
  /-- API CONTRACT + `flushing` key: one writer per connection; Flush/Write hold `lock(flushing)` (C08) -/
  single_writer_flushing : RoleSerial events hb .writer
  /-- SLOT TOKEN: `FDOperator.state` 1→2 by `do()` has one winner until `done()` (C10, C11) -/
  slot_token_exclusive : RoleSerial events hb .slotToken
  /-- exclusive `processing` holder: CAS 0→1 on the locker key, released by `unlock` (C05, C06) -/
  processing_holder_exclusive : RoleSerial events hb .processing
  /-- `connecting` key + state CAS: OnConnect's write of ctx precedes OnDisconnect's read (C09) -/
  connecting_holder_exclusive : RoleSerial events hb .connecting
  /-- one goroutine runs `Wait` per poll (`go poll.Wait()` once per opened poll, C18) -/
  poll_loop_single_goroutine : RoleSerial events hb .pollLoop
  /-- a netFD under `dial` is reachable by the dialing goroutine only (C14) -/
  dial_phase_private : RoleSerial events hb .dialPhase
  /-- `runNum` 0→1 has one winner until it stores 0: one ShardQueue worker at a time (C17) -/
  runNum_worker_exclusive : RoleSerial events hb .runNum
  /-- spin lock `operatorCache.locked` (CAS 0→1 … Store 0) is exclusive (C10) -/
  opcache_locked_exclusive : LockSerial events hb .opcacheLocked
  /-- spin lock `operatorCache.freelocked` is exclusive (C10) -/
  opcache_freelocked_exclusive : LockSerial events hb .opcacheFreelocked
  /-- per-shard spin lock of ShardQueue is exclusive (C17) -/
  shard_lock_exclusive : LockSerial events hb .shardLock
  /-- `listLock` (sync.Mutex) is exclusive -/
  list_lock_exclusive : LockSerial events hb .listLock
  /-- the eventLoop's mutex is exclusive -/
  eventloop_mutex_exclusive : LockSerial events hb .evlMutex
  /-- TRIGGER COUNTER HAND-OFF: a ring slot written by a producer is read by the consumer only after the atomic
      increment that published it, and overwritten only after the consumer has drained the shard it names (C17) -/
  trigger_counter_handoff : ∀ e1 ∈ events, ∀ e2 ∈ events, Conflict e1 e2 → e1.produces = true → e2.consumes = true →
    hb e1 e2 ∨ hb e2 e1

theorem Exec.roleSerial (X : Exec) : ∀ r, RoleSerial X.events X.hb r
  | .reader => X.single_reader_contract
  | .writer => X.single_writer_flushing
  | .slotToken => X.slot_token_exclusive
  | .processing => X.processing_holder_exclusive
  | .connecting => X.connecting_holder_exclusive
  | .pollLoop => X.poll_loop_single_goroutine
  | .dialPhase => X.dial_phase_private
  | .runNum => X.runNum_worker_exclusive

theorem Exec.lockSerial (X : Exec) : ∀ l, LockSerial X.events X.hb l
  | .opcacheLocked => X.opcache_locked_exclusive
  | .opcacheFreelocked => X.opcache_freelocked_exclusive
  | .shardLock => X.shard_lock_exclusive
  | .listLock => X.list_lock_exclusive
  | .evlMutex => X.eventloop_mutex_exclusive

/-- a data race: two conflicting accesses not ordered by happens-before -/
def Race (X : Exec) (e1 e2 : Event) : Prop :=
  e1 ∈ X.events ∧ e2 ∈ X.events ∧ Conflict e1 e2 ∧ ¬ X.hb e1 e2 ∧ ¬ X.hb e2 e1

theorem Conflict.symm {e1 e2 : Event} (h : Conflict e1 e2) : Conflict e2 e1 := by
  obtain ⟨h1, h2, h3, h4⟩ := h
  refine ⟨fun h => h1 h.symm, h2.symm, h3.symm, ?_⟩
  revert h4
  generalize e1.kind = k1; generalize e2.kind = k2
  cases k1 <;> cases k2 <;> simp [Kind.conflicts]

/-! ## A concrete execution (used by the non-vacuity examples of `Netpoll.Props.C19`) -/

/-- poller (goroutine 1) writes `maxSize` in `inputAck` under the slot token, the reader (goroutine 2) writes it in
    `Release` under the slot token - ordered by the token - while the reader's atomic store of `waitReadSize` and the
    poller's atomic load are NOT ordered (and need not be). -/
def exEvents : List Event := [
  ⟨1, 7, nm!"connection.maxSize", nm!"connection.inputAck", .w⟩,
  ⟨2, 7, nm!"connection.maxSize", nm!"connection.Release", .w⟩,
  ⟨2, 7, nm!"connection.waitReadSize", nm!"connection.waitRead", .a⟩,
  ⟨1, 7, nm!"connection.waitReadSize", nm!"connection.inputAck", .a⟩]

/-- happens-before of the example: only the two `maxSize` writes are ordered (poller first) -/
def exHb (a b : Event) : Prop :=
  a.gor = 1 ∧ b.gor = 2 ∧ a.field.code = (nm!"connection.maxSize").code ∧ b.field.code = (nm!"connection.maxSize").code

instance (a b : Event) : Decidable (exHb a b) := by unfold exHb; infer_instance

set_option maxRecDepth 100000 in
/-- the hypotheses of `Exec` are satisfiable by an execution whose happens-before is NOT total -/
def exExec : Exec where
  events := exEvents
  hb := exHb
  hb_irrefl := by intro e h; have := h.1; have := h.2.1; omega
  hb_trans := by intro a b c h1 h2; have := h1.2.1; have := h2.1; omega
  excl_phase_ordered := by decide +kernel
  status_cas_and_reconfig_contract := by decide +kernel
  single_reader_contract := by decide +kernel
  single_writer_flushing := by decide +kernel
  slot_token_exclusive := by decide +kernel
  processing_holder_exclusive := by decide +kernel
  connecting_holder_exclusive := by decide +kernel
  poll_loop_single_goroutine := by decide +kernel
  dial_phase_private := by decide +kernel
  runNum_worker_exclusive := by decide +kernel
  opcache_locked_exclusive := by decide +kernel
  opcache_freelocked_exclusive := by decide +kernel
  shard_lock_exclusive := by decide +kernel
  list_lock_exclusive := by decide +kernel
  eventloop_mutex_exclusive := by decide +kernel
  trigger_counter_handoff := by decide +kernel

end Netpoll.Race
